(* C32 -- concurrent maps and locked values: lemmas about the model in Model.v *)
From Coq Require Import List NArith ZArith PeanoNat Bool Lia ZifyBool ZifyNat ZifyN.
From MV Require Import Common.Cases C32.Model.
Import ListNotations.
Open Scope N_scope.

(* ------------------------------------------------------------------ association maps *)

Lemma lookup_remove_same k m : lookup k (remove k m) = None.
Proof.
  induction m as [|[k' v] r IH]; simpl; [reflexivity|].
  destruct (k' =? k) eqn:E; [assumption|]. simpl. rewrite E. assumption.
Qed.

Lemma lookup_remove_other k k' m : k' <> k -> lookup k' (remove k m) = lookup k' m.
Proof.
  intros H. induction m as [|[k0 v] r IH]; simpl; [reflexivity|].
  destruct (k0 =? k) eqn:E.
  - apply N.eqb_eq in E. subst. destruct (k =? k') eqn:E2; [apply N.eqb_eq in E2; congruence|assumption].
  - simpl. destruct (k0 =? k'); [reflexivity|assumption].
Qed.

Lemma remove_absent k m : lookup k m = None -> remove k m = m.
Proof.
  induction m as [|[k' v] r IH]; simpl; [reflexivity|].
  destruct (k' =? k) eqn:E; [discriminate|]. intros H. rewrite IH by assumption. reflexivity.
Qed.

Lemma lookup_insert_same k v m : lookup k (insert k v m) = Some v.
Proof. unfold insert. simpl. rewrite N.eqb_refl. reflexivity. Qed.

Lemma lookup_insert_other k k' v m : k' <> k -> lookup k' (insert k v m) = lookup k' m.
Proof.
  intros H. unfold insert. simpl. destruct (k =? k') eqn:E; [apply N.eqb_eq in E; congruence|].
  apply lookup_remove_other. assumption.
Qed.

Definition keys (m : amap) : list N := map fst m.

Lemma in_keys_lookup k m : In k (keys m) <-> lookup k m <> None.
Proof.
  induction m as [|[k' v] r IH]; simpl.
  - split; [intros []|intros H; congruence].
  - destruct (k' =? k) eqn:E.
    + apply N.eqb_eq in E. subst. split; [intros _; discriminate|intros _; left; reflexivity].
    + rewrite <- IH. split; [intros [H|H]; [apply N.eqb_neq in E; congruence|assumption]|intros H; right; assumption].
Qed.

Lemma keys_remove_incl k m x : In x (keys (remove k m)) -> In x (keys m) /\ x <> k.
Proof.
  induction m as [|[k' v] r IH]; simpl; [intros []|].
  destruct (k' =? k) eqn:E.
  - intros H. destruct (IH H). split; [right; assumption|assumption].
  - simpl. intros [H|H].
    + subst. split; [left; reflexivity|apply N.eqb_neq in E; assumption].
    + destruct (IH H). split; [right; assumption|assumption].
Qed.

Lemma nodup_remove k m : NoDup (keys m) -> NoDup (keys (remove k m)).
Proof.
  induction m as [|[k' v] r IH]; simpl; intros H; [constructor|].
  inversion H; subst. destruct (k' =? k); [apply IH; assumption|].
  simpl. constructor; [|apply IH; assumption].
  intros Hin. apply keys_remove_incl in Hin. destruct Hin. contradiction.
Qed.

Lemma nodup_insert k v m : NoDup (keys m) -> NoDup (keys (insert k v m)).
Proof.
  intros H. unfold insert. simpl. constructor; [|apply nodup_remove; assumption].
  intros Hin. apply keys_remove_incl in Hin. destruct Hin. congruence.
Qed.

Lemma length_remove_present k m v : NoDup (keys m) -> lookup k m = Some v -> S (length (remove k m)) = length m.
Proof.
  induction m as [|[k' v'] r IH]; simpl; intros Hn Hl; [discriminate|].
  inversion Hn; subst. destruct (k' =? k) eqn:E.
  - apply N.eqb_eq in E. subst. rewrite remove_absent; [reflexivity|].
    destruct (lookup k r) eqn:El; [|reflexivity]. exfalso. apply H1. apply in_keys_lookup. congruence.
  - simpl. f_equal. apply IH; assumption.
Qed.

Lemma nodup_filter (p : N * N -> bool) m : NoDup (keys m) -> NoDup (keys (filter p m)).
Proof.
  induction m as [|[k v] r IH]; simpl; intros H; [constructor|].
  inversion H; subst. destruct (p (k, v)); [|apply IH; assumption].
  simpl. constructor; [|apply IH; assumption].
  intros Hin. apply H2. unfold keys in *. apply in_map_iff in Hin. destruct Hin as [x [Hx Hi]].
  apply filter_In in Hi. destruct Hi. apply in_map_iff. exists x. split; assumption.
Qed.

Lemma length_filter_split {A} (p : A -> bool) (l : list A) :
  (length (filter p l) + length (filter (fun x => negb (p x)) l))%nat = length l.
Proof.
  induction l; simpl; [reflexivity|]. destruct (p a); simpl; lia.
Qed.

Lemma nodup_insert' k m : NoDup (keys m) -> NoDup (k :: keys (remove k m)).
Proof. intros H. apply (nodup_insert k 0 m H). Qed.

(* ------------------------------------------------------------------ the leaf operation *)

Lemma leaf_op_other c m o k' : k' <> key_of o -> lookup k' (fst (leaf_op c m o)) = lookup k' m.
Proof.
  intros H. destruct o; simpl in *;
    repeat match goal with
           | |- context [if ?b then _ else _] => destruct b eqn:?
           | |- context [match ?x with _ => _ end] => destruct x eqn:?
           end; simpl;
    try reflexivity; try (apply lookup_insert_other; assumption); try (apply lookup_remove_other; assumption).
Qed.

Lemma leaf_op_nodup c m o : NoDup (keys m) -> NoDup (keys (fst (leaf_op c m o))).
Proof.
  intros H. destruct o; simpl;
    repeat match goal with
           | |- context [if ?b then _ else _] => destruct b eqn:?
           | |- context [match ?x with _ => _ end] => destruct x eqn:?
           end; simpl;
    try assumption; try (apply nodup_insert'; assumption); try (apply nodup_remove; assumption).
Qed.

Lemma length_insert k v m : NoDup (keys m) ->
  Z.of_nat (length (insert k v m)) = (Z.of_nat (length m) + (if isSome (lookup k m) then 0 else 1))%Z.
Proof.
  intros H. unfold insert. simpl length. destruct (lookup k m) eqn:E; simpl.
  - pose proof (length_remove_present _ _ _ H E). lia.
  - rewrite remove_absent by assumption. lia.
Qed.

Lemma length_remove k m : NoDup (keys m) ->
  Z.of_nat (length (remove k m)) = (Z.of_nat (length m) - (if isSome (lookup k m) then 1 else 0))%Z.
Proof.
  intros H. destruct (lookup k m) eqn:E; simpl.
  - pose proof (length_remove_present _ _ _ H E). lia.
  - rewrite remove_absent by assumption. lia.
Qed.

Lemma length_insert' k m : NoDup (keys m) ->
  Z.of_nat (S (length (remove k m))) = (Z.of_nat (length m) + (if isSome (lookup k m) then 0 else 1))%Z.
Proof. intros H. apply (length_insert k 0 m H). Qed.

(* the length delta the ShardedMap applies is exactly the change of the number of keys *)
Lemma leaf_op_length c m o : NoDup (keys m) ->
  Z.of_nat (length (fst (leaf_op c m o))) = (Z.of_nat (length m) + delta_of o (snd (leaf_op c m o)))%Z.
Proof.
  intros H. destruct o; cbn [leaf_op];
    repeat match goal with
           | |- context [if ?b then _ else _] => destruct b eqn:?
           | |- context [match ?x with _ => _ end] => destruct x eqn:?
           end; cbn [fst snd delta_of r_a r_b r_e r_v];
    try (rewrite length_insert by assumption);
    try (rewrite length_remove by assumption);
    repeat match goal with
           | H1 : lookup ?k ?m = _ |- _ => rewrite H1 in *
           end; cbn [isSome negb] in *; try lia; try discriminate;
    try (destruct (isSome (lookup k m)); cbn [negb]; lia).
Qed.

(* an operation on an absent key: the not-found answer of loadItem kinds is the answer of the sequential map *)
Lemma notfound_is_spec m o : creates o = false -> lookup (key_of o) m = None ->
  spec_op m o = (m, notfound_res o).
Proof.
  intros Hc Hl. unfold spec_op, notfound_res. destruct o; simpl in *; try discriminate;
    rewrite ?Hl; simpl; try reflexivity.
  - rewrite remove_absent by assumption. reflexivity.
  - destruct (f None); simpl; try reflexivity. rewrite remove_absent by assumption. reflexivity.
Qed.

(* ------------------------------------------------------------------ spec_replay *)

Lemma res_eqb_refl r : res_eqb r r = true.
Proof.
  destruct r as [v a b e]. unfold res_eqb. simpl.
  assert (option_eqb N.eqb v v = true) by (destruct v; simpl; [apply N.eqb_refl|reflexivity]).
  rewrite H. destruct a, b, e; reflexivity.
Qed.

Lemma spec_replay_snoc : forall l m m' o,
  spec_replay m l = Some m' ->
  spec_replay m (l ++ [(o, snd (spec_op m' o))]) = Some (fst (spec_op m' o)).
Proof.
  induction l as [|[o1 r1] t IH]; intros m m' o H; simpl in *.
  - inversion H; subst. destruct (spec_op m' o) as [m2 r2]. simpl. rewrite res_eqb_refl. reflexivity.
  - destruct (spec_op m o1) as [m1 r']. destruct (res_eqb r1 r'); [|discriminate]. apply IH. assumption.
Qed.

(* ------------------------------------------------------------------ operations in flight *)

Definition weight (p : phase) : Z :=
  match p with PAdd d => d | PReset _ n => (- n)%Z | PHave _ => 0%Z end.

Fixpoint pending (l : list (N * phase)) : Z :=
  match l with [] => 0%Z | (_, p) :: r => (weight p + pending r)%Z end.

Lemma pending_del i l p : find_infl i l = Some p -> pending (del_infl i l) = (pending l - weight p)%Z.
Proof.
  induction l as [|[j q] r IH]; simpl; [discriminate|].
  destruct (j =? i); intros H.
  - inversion H; subst. lia.
  - simpl. rewrite IH by assumption. lia.
Qed.

Lemma pending_set i l p q : find_infl i l = Some p ->
  pending (set_infl i q l) = (pending l - weight p + weight q)%Z.
Proof. intros H. unfold set_infl. simpl. rewrite (pending_del _ _ _ H). lia. Qed.

Lemma find_in i l p : find_infl i l = Some p -> In (i, p) l.
Proof.
  induction l as [|[j q] r IH]; simpl; [discriminate|].
  destruct (j =? i) eqn:E; intros H.
  - apply N.eqb_eq in E. inversion H; subst. left. reflexivity.
  - right. apply IH. assumption.
Qed.

Lemma in_del x i l : In x (del_infl i l) -> In x l.
Proof.
  induction l as [|[j q] r IH]; simpl; [intros []|].
  destruct (j =? i); [intros H; right; assumption|].
  intros [H|H]; [left; assumption|right; apply IH; assumption].
Qed.

(* ------------------------------------------------------------------ C32_len_quiescent *)

Definition INVLEN (s : state) : Prop :=
  NoDup (keys (content s)) /\ (counter s + pending (infl s))%Z = Z.of_nat (length (content s)).

Lemma step_INVLEN leafof s st : INVLEN s -> INVLEN (step_gen leafof true s st).
Proof.
  intros [HN HC]. destruct st; simpl.
  - (* Invoke *)
    destruct (locked s); [split; assumption|].
    destruct (closed s); [split; assumption|].
    destruct (lexists s (leafof (key_of o))); [split; cbn [content counter infl]; [assumption|simpl; lia]|].
    destruct (creates o); split; cbn [content counter infl]; try assumption; simpl; lia.
  - (* LeafStep *)
    destruct (find_infl i (infl s)) as [[o|d|c n]|] eqn:F; try (split; assumption).
    pose proof (leaf_op_nodup (lclosed s (leafof (key_of o))) (content s) o HN) as H1.
    pose proof (leaf_op_length (lclosed s (leafof (key_of o))) (content s) o HN) as H2.
    destruct (leaf_op (lclosed s (leafof (key_of o))) (content s) o) as [m' r]. cbn [fst snd] in *.
    split; cbn [content counter infl]; [assumption|].
    destruct (delta_of o r =? 0)%Z eqn:E.
    + rewrite (pending_del _ _ _ F). simpl. lia.
    + rewrite (pending_set _ _ _ (PAdd (delta_of o r)) F). simpl. lia.
  - (* AddStep *)
    destruct (find_infl i (infl s)) as [[o|d|c n]|] eqn:F; try (split; assumption).
    split; cbn [content counter infl]; [assumption|]. rewrite (pending_del _ _ _ F). simpl. lia.
  - (* ResetBegin *)
    destruct (locked s); split; cbn [content counter infl]; try assumption; simpl; lia.
  - (* ResetLeaf *)
    destruct (find_infl i (infl s)) as [[o|d|c n]|] eqn:F; try (split; assumption).
    destruct (lexists s l); [|split; assumption].
    split; cbn [content counter infl]; [apply nodup_filter; assumption|].
    rewrite (pending_set _ _ _ (PReset c (n + Z.of_nat (length (filter (in_leaf leafof l) (content s))))) F). simpl.
    pose proof (length_filter_split (in_leaf leafof l) (content s)). lia.
  - (* ResetEnd *)
    destruct (find_infl i (infl s)) as [[o|d|c n]|] eqn:F; try (split; assumption).
    split; cbn [content counter infl]; [assumption|].
    destruct (n =? 0)%Z eqn:E.
    + rewrite (pending_del _ _ _ F). simpl. lia.
    + rewrite (pending_set _ _ _ (PAdd (- n)) F). simpl. lia.
Qed.

Lemma run_INVLEN leafof : forall l s, INVLEN s -> INVLEN (run leafof s l).
Proof.
  induction l; intros s H; simpl; [assumption|]. apply IHl. apply step_INVLEN. assumption.
Qed.

Lemma len_quiescent leafof l :
  let s := run leafof init l in
  infl s = [] -> counter s = Z.of_nat (length (content s)) /\ NoDup (keys (content s)).
Proof.
  intros s Hq. destruct (run_INVLEN leafof l init) as [HN HC].
  - split; simpl; [constructor|reflexivity].
  - fold s in HN, HC. rewrite Hq in HC. simpl in HC. split; [lia|assumption].
Qed.

(* general form, also while operations are in flight *)
Lemma len_pending leafof l :
  let s := run leafof init l in (counter s + pending (infl s))%Z = Z.of_nat (length (content s)).
Proof.
  intros s. destruct (run_INVLEN leafof l init) as [HN HC]; [split; simpl; [constructor|reflexivity]|exact HC].
Qed.

(* ------------------------------------------------------------------ C32_linearizable *)

Definition no_reset (st : step) : Prop :=
  match st with Invoke _ | LeafStep _ | AddStep _ => True | _ => False end.

Record INVLIN (leafof : N -> N) (s : state) : Prop := {
  il_replay : spec_replay [] (rev (log s)) = Some (content s);
  il_open : closed s = false;
  il_unlocked : locked s = false;
  il_lopen : forall l, lclosed s l = false;
  il_absent : forall k, lexists s (leafof k) = false -> lookup k (content s) = None;
  il_have : forall i o, In (i, PHave o) (infl s) -> lexists s (leafof (key_of o)) = true
}.

Lemma step_INVLIN leafof s st : no_reset st -> INVLIN leafof s -> INVLIN leafof (step_gen leafof true s st).
Proof.
  intros Hn [R O U L A Hv]. destruct st; simpl in Hn; try contradiction; simpl.
  - (* Invoke *)
    rewrite U, O.
    destruct (lexists s (leafof (key_of o))) eqn:El.
    + split; simpl; try assumption; try reflexivity. intros i o' [H|H]; [inversion H; subst; assumption|eapply Hv; eauto].
    + destruct (creates o) eqn:Ec.
      * split; simpl; try assumption; try reflexivity.
        -- intros k Hk. unfold updb in Hk. destruct (leafof k =? leafof (key_of o)); [discriminate|apply A; assumption].
        -- intros i o' [H|H].
           ++ inversion H; subst. unfold updb. rewrite N.eqb_refl. reflexivity.
           ++ unfold updb. destruct (leafof (key_of o') =? leafof (key_of o)); [reflexivity|eapply Hv; eauto].
      * split; simpl; try assumption; try reflexivity.
        pose proof (notfound_is_spec (content s) o Ec (A _ El)) as Hs.
        pose proof (spec_replay_snoc _ _ _ o R) as H1. rewrite Hs in H1. simpl in H1. exact H1.
  - (* LeafStep *)
    destruct (find_infl i (infl s)) as [[o|d|c n]|] eqn:F; try (split; assumption).
    rewrite L.
    pose proof (spec_replay_snoc _ _ _ o R) as H1. unfold spec_op in H1.
    pose proof (fun k' => leaf_op_other false (content s) o k') as H2.
    destruct (leaf_op false (content s) o) as [m' r]. simpl in *.
    assert (Hex : lexists s (leafof (key_of o)) = true) by (eapply Hv; eapply find_in; eauto).
    split; simpl; try assumption; try reflexivity.
    + intros k Hk. rewrite H2; [apply A; assumption|]. intros Heq. subst. congruence.
    + intros j o'. destruct (delta_of o r =? 0)%Z.
      * intros H. apply in_del in H. eapply Hv; eauto.
      * intros [H|H]; [discriminate|]. apply in_del in H. eapply Hv; eauto.
  - (* AddStep *)
    destruct (find_infl i (infl s)) as [[o|d|c n]|] eqn:F; try (split; assumption).
    split; simpl; try assumption; try reflexivity. intros j o' H. apply in_del in H. eapply Hv; eauto.
Qed.

Lemma run_INVLIN leafof : forall l s, Forall no_reset l -> INVLIN leafof s -> INVLIN leafof (run leafof s l).
Proof.
  induction l; intros s Hf H; simpl; [assumption|]. inversion Hf; subst.
  apply IHl; [assumption|]. apply step_INVLIN; assumption.
Qed.

Lemma linearizable leafof l : Forall no_reset l ->
  let s := run leafof init l in spec_replay [] (rev (log s)) = Some (content s).
Proof.
  intros Hf s. apply (il_replay leafof). apply run_INVLIN; [assumption|].
  split; simpl; try reflexivity; try (intros; reflexivity). intros i o [].
Qed.

(* what spec_replay = Some means: every logged answer is the sequential map's answer, in order *)
Lemma spec_replay_sound : forall l m m',
  spec_replay m l = Some m' ->
  forall pre o r post, l = pre ++ (o, r) :: post ->
  exists m1, spec_replay m pre = Some m1 /\ res_eqb r (snd (spec_op m1 o)) = true.
Proof.
  induction l as [|[o1 r1] t IH]; intros m m' H pre o r post E.
  - destruct pre; discriminate.
  - simpl in H. destruct (spec_op m o1) as [m1 r'] eqn:Es. destruct (res_eqb r1 r') eqn:Er; [|discriminate].
    destruct pre as [|x pre'].
    + simpl in E. inversion E; subst. exists m. split; [reflexivity|]. rewrite Es. simpl. assumption.
    + simpl in E. inversion E; subst. destruct (IH _ _ H _ _ _ _ eq_refl) as [m2 [H1 H2]].
      exists m2. split; [|assumption]. simpl. rewrite Es, Er. assumption.
Qed.

(* ------------------------------------------------------------------ C32_locked_value *)

Definition labs (s : N * bool) : option N := shown s.
Definition lwf (s : N * bool) : Prop := snd s = true -> fst s = 0.

Lemma locked_step s o : lwf s ->
  lwf (fst (locked_op s o)) /\
  locked_spec (labs s) o = (labs (fst (locked_op s o)), snd (locked_op s o)).
Proof.
  intros Hw. destruct s as [v e]. unfold lwf, labs, shown in *. cbn [fst snd] in *.
  destruct e.
  - assert (v = 0) by (apply Hw; reflexivity). subst v.
    destruct o; cbn [locked_op locked_spec fst snd negb shown];
      try (split; [intros; first [reflexivity|discriminate]|reflexivity]);
      try (destruct c; cbn [fst snd]; split; try reflexivity; intros; first [reflexivity|discriminate]);
      try (destruct (f None); cbn [fst snd]; split; try reflexivity; intros; first [reflexivity|discriminate]).
  - destruct o; cbn [locked_op locked_spec fst snd negb shown];
      try (split; [intros; first [reflexivity|discriminate]|reflexivity]);
      try (destruct (f (Some v)); cbn [fst snd]; split; try reflexivity; intros; first [reflexivity|discriminate]).
Qed.

Lemma locked_refines : forall l s, lwf s ->
  locked_spec_run (labs s) l = (labs (fst (locked_run s l)), snd (locked_run s l)) /\ lwf (fst (locked_run s l)).
Proof.
  induction l as [|o t IH]; intros s Hw; simpl.
  - split; [reflexivity|assumption].
  - destruct (locked_step s o Hw) as [Hw1 Hs]. rewrite Hs.
    destruct (locked_op s o) as [s1 r]. cbn [fst snd] in *.
    destruct (IH s1 Hw1) as [H1 H2]. rewrite H1.
    destruct (locked_run s1 t) as [s2 rs]. cbn [fst snd] in *. split; [reflexivity|assumption].
Qed.
