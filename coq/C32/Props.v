(* C32 -- Concurrent maps and locked values behave like a sequential map (util/lock.go).
   Property theorems only.  `run leafof init steps` executes an arbitrary list of atomic steps of the
   ShardedMap model (Model.v): any number of operations in flight, any interleaving, any routing `leafof`
   of keys to leaves (2..64 shards, deep sharding: only the routing differs). *)
From Coq Require Import List NArith ZArith Bool.
From MV Require Import C32.Model C32.Proofs.
Import ListNotations.
Open Scope N_scope.

(* Linearizability of {Exists, Value, SetValue, RemoveValue, Get, GetOrCreate, Set, Remove, SetOrRemove}:
   for every schedule without Empty/Close, the answers, taken in the order of the operations' critical
   sections (each lies between the operation's call and return), are exactly the answers of ONE sequential map
   fed with the same operations in that order, and the final content is that map's final content. *)
Theorem C32_linearizable : forall leafof steps, Forall no_reset steps ->
  let s := run leafof init steps in
  spec_replay [] (rev (log s)) = Some (content s).
Proof. exact linearizable. Qed.

(* what the replay says, answer by answer *)
Theorem C32_linearizable_answers : forall leafof steps, Forall no_reset steps ->
  let s := run leafof init steps in
  forall pre o r post, rev (log s) = pre ++ (o, r) :: post ->
  exists m1, spec_replay [] pre = Some m1 /\ res_eqb r (snd (spec_op m1 o)) = true.
Proof.
  intros leafof steps H s pre o r post E.
  eapply spec_replay_sound; [apply (linearizable leafof steps H)|exact E].
Qed.

(* the sequential map is a map: laws of the reference semantics *)
Theorem C32_spec_is_a_map : forall m k v k',
  lookup k (fst (spec_op m (OSetValue k v))) = Some v /\
  lookup k (fst (spec_op m (ORemoveValue k))) = None /\
  (forall o, k' <> key_of o -> lookup k' (fst (spec_op m o)) = lookup k' m).
Proof.
  intros. repeat split.
  - apply lookup_insert_same.
  - apply lookup_remove_same.
  - intros o H. apply leaf_op_other. assumption.
Qed.

(* After the operations finish (nothing in flight) the reported length is the number of keys -- for every
   schedule, INCLUDING concurrent Empty and Close (code after the fix). *)
Theorem C32_len_quiescent : forall leafof steps,
  let s := run leafof init steps in
  infl s = [] -> counter s = Z.of_nat (length (content s)) /\ NoDup (map fst (content s)).
Proof. exact len_quiescent. Qed.

(* ... and at every moment: length + (updates the operations in flight still owe) = number of keys *)
Theorem C32_len_in_flight : forall leafof steps,
  let s := run leafof init steps in
  (counter s + pending (infl s))%Z = Z.of_nat (length (content s)).
Proof. exact len_pending. Qed.

(* Locked[T]: every history of operations (each one critical section) answers as the sequential optional
   value does, whatever the starting value *)
Theorem C32_locked_value : forall ops start, (snd start = true -> fst start = 0) ->
  locked_spec_run (shown start) ops = (shown (fst (locked_run start ops)), snd (locked_run start ops)).
Proof. intros ops start H. apply (locked_refines ops start H). Qed.

(* ---------------------------------------------------------------- witnesses / non-vacuity *)

Definition two_leaves : N -> N := fun k => k mod 2.

(* the reproduced defect: SetValue(5) has done its leaf operation, Empty runs, then SetValue adds 1.
   Before the fix (Empty stores 0) the length ends at 1 with no key; after the fix it ends at 0. *)
Definition len_race : list step :=
  [Invoke (OSetValue 5 50); LeafStep 0; ResetBegin false; ResetLeaf 1 0; ResetLeaf 1 1; ResetEnd 1; AddStep 1; AddStep 0].

Example C32_len_after_empty_before_fix :
  let s := run_gen two_leaves false init len_race in
  infl s = [] /\ content s = [] /\ counter s = 1%Z.
Proof. vm_compute. repeat split. Qed.

Example C32_len_after_empty_after_fix :
  let s := run two_leaves init len_race in
  infl s = [] /\ content s = [] /\ counter s = 0%Z.
Proof. vm_compute. repeat split. Qed.

(* a concurrent history with interleaved critical sections on two leaves and one key set twice *)
Example C32_linearizable_example :
  let s := run two_leaves init
     [Invoke (OSetValue 1 10); Invoke (OSet 1 (fun _ => CbVal 11)); Invoke (OSetValue 2 20); LeafStep 1; LeafStep 2;
      LeafStep 0; Invoke (OValue 1); AddStep 1; LeafStep 3; AddStep 2] in
  Forall no_reset [Invoke (OValue 1)] /\ lookup 1 (content s) = Some 10 /\ counter s = 2%Z /\ length (log s) = 4%nat.
Proof. vm_compute. repeat split. constructor; [exact I|constructor]. Qed.
