(* C32 -- concurrent maps and locked values (util/lock.go): executable model.  No proofs here.

   Keys and values are numbers; a returned "zero value" is None.  Callbacks handed to Set / Remove /
   SetOrRemove / GetOrCreate are pure functions of what they are shown (assumption).

   SingleLockedMap: every operation is one critical section = one application of leaf_op.
   ShardedMap (also deep: a tree of ShardedMaps whose leaves are SingleLockedMaps; the routing of a key to
   its leaf is the function leafof, the intermediate nodes only route) is cut into atomic steps:

     Invoke o      newItem / loadItem under the top-level lock: closed -> answer at once; leaf missing ->
                   created (newItem kinds) or answered at once as "not found" (loadItem kinds); else the
                   operation holds its leaf                                     (phase PHave)
     LeafStep i    the leaf operation under the leaf's lock: result fixed, length delta fixed (PAdd d)
     AddStep i     atomic.AddInt64(&length, d)
     ResetBegin c  Empty (c=false) / Close (c=true) takes the top-level lock   (phase PReset c n)
     ResetLeaf i l one leaf is emptied (closed); n += entries it held
     ResetEnd i    lock released (Close: map marked closed); fixed code: the length is decreased by n later
                   (PAdd (-n)); code before the fix: length := 0 at this point
   Theorems quantify over arbitrary lists of these steps (a superset of all interleavings). *)
From Coq Require Import List NArith ZArith Bool.
From MV Require Import Common.Cases.
Import ListNotations.
Open Scope N_scope.

Definition amap := list (N * N).

Fixpoint lookup (k : N) (m : amap) : option N :=
  match m with
  | [] => None
  | (k', v) :: r => if k' =? k then Some v else lookup k r
  end.

Fixpoint remove (k : N) (m : amap) : amap :=
  match m with
  | [] => []
  | (k', v) :: r => if k' =? k then remove k r else (k', v) :: remove k r
  end.

Definition insert (k v : N) (m : amap) : amap := (k, v) :: remove k m.

Inductive cbres := CbVal (v : N) | CbIgnore | CbErr.
Inductive rmres := RmOk | RmIgnore | RmErr.
Inductive sorres := SorSet (v : N) | SorRemove | SorIgnore | SorErr.

Inductive op :=
| OExists (k : N)
| OValue (k : N)
| OSetValue (k v : N)
| ORemoveValue (k : N)
| OGet (k : N)
| OGetOrCreate (k : N) (c : cbres)
| OSet (k : N) (f : option N -> cbres)
| ORemove (k : N) (f : option N -> rmres)
| OSetOrRemove (k : N) (f : option N -> sorres).

Definition key_of (o : op) : N :=
  match o with
  | OExists k | OValue k | OSetValue k _ | ORemoveValue k | OGet k | OGetOrCreate k _ | OSet k _
  | ORemove k _ | OSetOrRemove k _ => k
  end.

Inductive err := ENone | EClosed | EOther.

(* result: (value shown / returned, flag a, flag b, error)
   Exists: a = found.  Value: v, a = found.  SetValue: a = added.  RemoveValue: a = removed.
   Get: v = value shown to f (None = not found).  GetOrCreate: v = value shown to f, a = created.
   Set: v = returned value, a = created.  Remove: a = removed.  SetOrRemove: v, a = created, b = removed. *)
Record res := mkR { r_v : option N; r_a : bool; r_b : bool; r_e : err }.

Definition isSome {A} (x : option A) : bool := match x with Some _ => true | None => false end.

(* SingleLockedMap.<op>; closed = (l.m == nil) *)
Definition leaf_op (closed : bool) (m : amap) (o : op) : amap * res :=
  match o with
  | OExists k => (m, mkR None (if closed then false else isSome (lookup k m)) false ENone)
  | OValue k => if closed then (m, mkR None false false ENone)
                else (m, mkR (lookup k m) (isSome (lookup k m)) false ENone)
  | OSetValue k v => if closed then (m, mkR None false false ENone)
                     else (insert k v m, mkR None (negb (isSome (lookup k m))) false ENone)
  | ORemoveValue k => if closed then (m, mkR None false false ENone)
                      else (remove k m, mkR None (isSome (lookup k m)) false ENone)
  | OGet k => (m, mkR (if closed then None else lookup k m) false false ENone)
  | OGetOrCreate k c =>
      if closed then (m, mkR None false false EClosed)
      else match lookup k m with
           | Some v => (m, mkR (Some v) false false ENone)
           | None => match c with
                     | CbVal v => (insert k v m, mkR (Some v) true false ENone)
                     | CbIgnore => (m, mkR None false false ENone)
                     | CbErr => (m, mkR None false false EOther)
                     end
           end
  | OSet k f =>
      if closed then (m, mkR None false false EClosed)
      else match f (lookup k m) with
           | CbVal v => (insert k v m, mkR (Some v) (negb (isSome (lookup k m))) false ENone)
           | CbIgnore => (m, mkR (lookup k m) false false ENone)
           | CbErr => (m, mkR None false false EOther)
           end
  | ORemove k f =>
      let cur := if closed then None else lookup k m in
      match f cur with
      | RmOk => ((if closed then m else remove k m), mkR None (isSome cur) false ENone)
      | RmIgnore => (m, mkR None false false ENone)
      | RmErr => (m, mkR None false false EOther)
      end
  | OSetOrRemove k f =>
      if closed then (m, mkR None false false EClosed)
      else match f (lookup k m) with
           | SorIgnore => (m, mkR (lookup k m) false false ENone)
           | SorErr => (m, mkR None false false EOther)
           | SorRemove => if isSome (lookup k m) then (remove k m, mkR None false true ENone)
                          else (m, mkR None false false ENone)
           | SorSet v => (insert k v m, mkR (Some v) (negb (isSome (lookup k m))) false ENone)
           end
  end.

(* the sequential map: one map, never closed *)
Definition spec_op (m : amap) (o : op) : amap * res := leaf_op false m o.

(* operations that go through newItem (create the leaf) *)
Definition creates (o : op) : bool :=
  match o with OSetValue _ _ | OGetOrCreate _ _ | OSet _ _ | OSetOrRemove _ _ => true | _ => false end.

(* ShardedMap.<op> when the top level is closed *)
Definition closed_res (o : op) : res :=
  match o with
  | OExists _ | OValue _ | OSetValue _ _ | ORemoveValue _ => mkR None false false ENone
  | _ => mkR None false false EClosed
  end.

(* ShardedMap.<op> (loadItem kinds) when the leaf does not exist: same as the leaf operation on an empty map *)
Definition notfound_res (o : op) : res := snd (leaf_op false [] o).

(* length delta the ShardedMap applies after the leaf operation *)
Definition delta_of (o : op) (r : res) : Z :=
  match o with
  | OSetValue _ _ => if r_a r then 1%Z else 0%Z
  | ORemoveValue _ => if r_a r then (-1)%Z else 0%Z
  | OGetOrCreate _ _ | OSet _ _ => match r_e r with ENone => if r_a r then 1%Z else 0%Z | _ => 0%Z end
  | ORemove _ _ => match r_e r with ENone => if r_a r then (-1)%Z else 0%Z | _ => 0%Z end
  | OSetOrRemove _ _ => match r_e r with
                        | ENone => if r_a r then 1%Z else if r_b r then (-1)%Z else 0%Z
                        | _ => 0%Z
                        end
  | _ => 0%Z
  end.

Inductive phase :=
| PHave (o : op)
| PAdd (d : Z)
| PReset (isclose : bool) (n : Z).

Record state := mkS {
  content : amap;              (* union of the leaves (a key lives in the leaf leafof key) *)
  lexists : N -> bool;         (* leaf created *)
  lclosed : N -> bool;         (* leaf closed (m = nil) *)
  closed : bool;               (* top level closed (sharded = nil) *)
  locked : bool;               (* top-level lock held by an Empty / Close in progress *)
  counter : Z;                 (* ShardedMap.length *)
  infl : list (N * phase);     (* operations in flight *)
  nextid : N;
  log : list (op * res)        (* answered operations, in the order of their linearisation steps, newest first *)
}.

Definition init : state := mkS [] (fun _ => false) (fun _ => false) false false 0%Z [] 0 [].

Inductive step :=
| Invoke (o : op)
| LeafStep (i : N)
| AddStep (i : N)
| ResetBegin (isclose : bool)
| ResetLeaf (i l : N)
| ResetEnd (i : N).

Fixpoint find_infl (i : N) (l : list (N * phase)) : option phase :=
  match l with
  | [] => None
  | (j, p) :: r => if j =? i then Some p else find_infl i r
  end.

Fixpoint del_infl (i : N) (l : list (N * phase)) : list (N * phase) :=
  match l with
  | [] => []
  | (j, p) :: r => if j =? i then r else (j, p) :: del_infl i r
  end.

Definition set_infl (i : N) (p : phase) (l : list (N * phase)) : list (N * phase) := (i, p) :: del_infl i l.

Definition updb (f : N -> bool) (k : N) (v : bool) : N -> bool := fun x => if x =? k then v else f x.

Section WithLeaf.
Variable leafof : N -> N.

Definition in_leaf (l : N) (kv : N * N) : bool := leafof (fst kv) =? l.

(* fixed = true: Empty/Close decrease the length by what they removed; false: they store 0 (before the fix) *)
Definition step_gen (fixed : bool) (s : state) (st : step) : state :=
  match st with
  | Invoke o =>
      if locked s then s
      else if closed s then
        mkS (content s) (lexists s) (lclosed s) (closed s) (locked s) (counter s) (infl s) (nextid s)
            ((o, closed_res o) :: log s)
      else
        let l := leafof (key_of o) in
        if lexists s l then
          mkS (content s) (lexists s) (lclosed s) (closed s) (locked s) (counter s)
              ((nextid s, PHave o) :: infl s) (nextid s + 1) (log s)
        else if creates o then
          mkS (content s) (updb (lexists s) l true) (lclosed s) (closed s) (locked s) (counter s)
              ((nextid s, PHave o) :: infl s) (nextid s + 1) (log s)
        else
          mkS (content s) (lexists s) (lclosed s) (closed s) (locked s) (counter s) (infl s) (nextid s)
              ((o, notfound_res o) :: log s)
  | LeafStep i =>
      match find_infl i (infl s) with
      | Some (PHave o) =>
          let '(m', r) := leaf_op (lclosed s (leafof (key_of o))) (content s) o in
          let d := delta_of o r in
          mkS m' (lexists s) (lclosed s) (closed s) (locked s) (counter s)
              (if (d =? 0)%Z then del_infl i (infl s) else set_infl i (PAdd d) (infl s))
              (nextid s) ((o, r) :: log s)
      | _ => s
      end
  | AddStep i =>
      match find_infl i (infl s) with
      | Some (PAdd d) =>
          mkS (content s) (lexists s) (lclosed s) (closed s) (locked s) (counter s + d)
              (del_infl i (infl s)) (nextid s) (log s)
      | _ => s
      end
  | ResetBegin c =>
      if locked s then s
      else mkS (content s) (lexists s) (lclosed s) (closed s) true (counter s)
               ((nextid s, PReset c 0%Z) :: infl s) (nextid s + 1) (log s)
  | ResetLeaf i l =>
      match find_infl i (infl s) with
      | Some (PReset c n) =>
          if lexists s l then
            let gone := filter (in_leaf l) (content s) in
            mkS (filter (fun kv => negb (in_leaf l kv)) (content s)) (lexists s)
                (if c then updb (lclosed s) l true else lclosed s) (closed s) (locked s) (counter s)
                (set_infl i (PReset c (n + Z.of_nat (length gone))%Z) (infl s)) (nextid s) (log s)
          else s
      | _ => s
      end
  | ResetEnd i =>
      match find_infl i (infl s) with
      | Some (PReset c n) =>
          if fixed then
            mkS (content s) (if c then (fun _ => false) else lexists s) (lclosed s) (orb c (closed s)) false (counter s)
                (if (n =? 0)%Z then del_infl i (infl s) else set_infl i (PAdd (- n)%Z) (infl s)) (nextid s) (log s)
          else
            mkS (content s) (if c then (fun _ => false) else lexists s) (lclosed s) (orb c (closed s)) false 0%Z
                (del_infl i (infl s)) (nextid s) (log s)
      | _ => s
      end
  end.

Definition run_gen (fixed : bool) (s : state) (l : list step) : state := fold_left (step_gen fixed) l s.
Definition run := run_gen true.

End WithLeaf.

Definition err_eqb (a b : err) : bool :=
  match a, b with ENone, ENone | EClosed, EClosed | EOther, EOther => true | _, _ => false end.

Definition res_eqb (a b : res) : bool :=
  andb (option_eqb N.eqb (r_v a) (r_v b))
       (andb (Bool.eqb (r_a a) (r_a b)) (andb (Bool.eqb (r_b a) (r_b b)) (err_eqb (r_e a) (r_e b)))).

(* replay of answered operations (oldest first) on the sequential map: Some final map iff every answer agrees *)
Fixpoint spec_replay (m : amap) (l : list (op * res)) : option amap :=
  match l with
  | [] => Some m
  | (o, r) :: t =>
      let '(m', r') := spec_op m o in
      if res_eqb r r' then spec_replay m' t else None
  end.

(* ------------------------------------------------------------------ Locked[T] *)

(* implementation state: (value, isempty); the zero value is 0.  spec state: option N *)
Inductive lop :=
| LValue | LSetValue (v : N) | LEmptyValue | LGet
| LGetOrCreate (c : cbres)
| LSet (f : option N -> cbres)
| LEmpty (f : option N -> rmres).

(* what a callback is shown: (l.value, l.isempty) *)
Definition shown (s : N * bool) : option N := if snd s then None else Some (fst s).

(* result: value returned / shown, flag (Value: isempty; GetOrCreate: created), error *)
Definition locked_op (s : N * bool) (o : lop) : (N * bool) * res :=
  match o with
  | LValue => (s, if snd s then mkR None true false ENone else mkR (Some (fst s)) false false ENone)
  | LSetValue v => ((v, false), mkR None false false ENone)
  | LEmptyValue => ((0, true), mkR None false false ENone)
  | LGet => (s, mkR (shown s) false false ENone)
  | LGetOrCreate c =>
      if negb (snd s) then (s, mkR (Some (fst s)) false false ENone)
      else match c with
           | CbVal v => ((v, false), mkR (Some v) true false ENone)
           | CbIgnore => (s, mkR None false false ENone)
           | CbErr => (s, mkR None false false EOther)
           end
  | LSet f =>
      match f (shown s) with
      | CbVal v => ((v, false), mkR (Some v) false false ENone)
      | CbIgnore => (s, mkR (Some (fst s)) false false ENone)   (* returns l.value: the zero value when empty *)
      | CbErr => (s, mkR None false false EOther)
      end
  | LEmpty f =>
      match f (shown s) with
      | RmOk => ((0, true), mkR None false false ENone)
      | RmIgnore => (s, mkR None false false ENone)
      | RmErr => (s, mkR None false false EOther)
      end
  end.

Definition locked_spec (s : option N) (o : lop) : option N * res :=
  match o with
  | LValue => (s, match s with None => mkR None true false ENone | Some v => mkR (Some v) false false ENone end)
  | LSetValue v => (Some v, mkR None false false ENone)
  | LEmptyValue => (None, mkR None false false ENone)
  | LGet => (s, mkR s false false ENone)
  | LGetOrCreate c =>
      match s with
      | Some v => (s, mkR (Some v) false false ENone)
      | None => match c with
                | CbVal v => (Some v, mkR (Some v) true false ENone)
                | CbIgnore => (s, mkR None false false ENone)
                | CbErr => (s, mkR None false false EOther)
                end
      end
  | LSet f =>
      match f s with
      | CbVal v => (Some v, mkR (Some v) false false ENone)
      | CbIgnore => (s, mkR (Some (match s with Some v => v | None => 0 end)) false false ENone)
      | CbErr => (s, mkR None false false EOther)
      end
  | LEmpty f =>
      match f s with
      | RmOk => (None, mkR None false false ENone)
      | RmIgnore => (s, mkR None false false ENone)
      | RmErr => (s, mkR None false false EOther)
      end
  end.

Fixpoint locked_run (s : N * bool) (l : list lop) : (N * bool) * list res :=
  match l with
  | [] => (s, [])
  | o :: t => let '(s1, r) := locked_op s o in let '(s2, rs) := locked_run s1 t in (s2, r :: rs)
  end.

Fixpoint locked_spec_run (s : option N) (l : list lop) : option N * list res :=
  match l with
  | [] => (s, [])
  | o :: t => let '(s1, r) := locked_spec s o in let '(s2, rs) := locked_spec_run s1 t in (s2, r :: rs)
  end.

(* ------------------------------------------------------------------ correspondence cases *)

(* callbacks, first order: what to answer when shown None / Some old *)
Inductive kcode := KVal (v : N) | KInc | KRemove | KIgnore | KErr.

Definition dec_cb (kn ks : kcode) : option N -> cbres :=
  fun cur =>
    match (match cur with None => kn | Some _ => ks end) with
    | KVal v => CbVal v
    | KInc => CbVal (match cur with None => 1 | Some x => x + 1 end)
    | KIgnore => CbIgnore
    | _ => CbErr
    end.

Definition dec_rm (kn ks : kcode) : option N -> rmres :=
  fun cur =>
    match (match cur with None => kn | Some _ => ks end) with
    | KRemove => RmOk
    | KIgnore => RmIgnore
    | _ => RmErr
    end.

Definition dec_sor (kn ks : kcode) : option N -> sorres :=
  fun cur =>
    match (match cur with None => kn | Some _ => ks end) with
    | KVal v => SorSet v
    | KInc => SorSet (match cur with None => 1 | Some x => x + 1 end)
    | KRemove => SorRemove
    | KIgnore => SorIgnore
    | KErr => SorErr
    end.

Inductive cop :=
| CExists (k : N) | CValue (k : N) | CSetValue (k v : N) | CRemoveValue (k : N) | CGet (k : N)
| CGetOrCreate (k : N) (c : kcode)
| CSet (k : N) (kn ks : kcode)
| CRemove (k : N) (kn ks : kcode)
| CSetOrRemove (k : N) (kn ks : kcode).

Definition dec_op (c : cop) : op :=
  match c with
  | CExists k => OExists k
  | CValue k => OValue k
  | CSetValue k v => OSetValue k v
  | CRemoveValue k => ORemoveValue k
  | CGet k => OGet k
  | CGetOrCreate k c => OGetOrCreate k (dec_cb c c None)
  | CSet k a b => OSet k (dec_cb a b)
  | CRemove k a b => ORemove k (dec_rm a b)
  | CSetOrRemove k a b => OSetOrRemove k (dec_sor a b)
  end.

Inductive cstep :=
| CInvoke (o : cop) | CLeaf (i : N) | CAdd (i : N) | CResetBegin (c : bool) | CResetLeaf (i l : N) | CResetEnd (i : N).

Definition dec_step (c : cstep) : step :=
  match c with
  | CInvoke o => Invoke (dec_op o)
  | CLeaf i => LeafStep i
  | CAdd i => AddStep i
  | CResetBegin c => ResetBegin c
  | CResetLeaf i l => ResetLeaf i l
  | CResetEnd i => ResetEnd i
  end.

Fixpoint uptoN (n : nat) : list N := match n with O => [] | S k => uptoN k ++ [N.of_nat k] end.

(* observation after a group of steps: Len(), content as (key, value) ascending over keys 0..nkeys-1,
   answers of the operations linearised in this group (oldest first) *)
Definition obs := (Z * list (N * N) * list res)%type.

Definition content_view (m : amap) (nkeys : nat) : list (N * N) :=
  flat_map (fun k => match lookup k m with Some v => [(k, v)] | None => [] end) (uptoN nkeys).

Definition pairN_eqb (a b : N * N) : bool := andb (fst a =? fst b) (snd a =? snd b).

Definition obs_eqb (a b : obs) : bool :=
  let '(l1, c1, r1) := a in
  let '(l2, c2, r2) := b in
  andb (Z.eqb l1 l2) (andb (list_eqb pairN_eqb c1 c2) (list_eqb res_eqb r1 r2)).

Fixpoint check_groups (fixed : bool) (leafof : N -> N) (nkeys : nat) (s : state) (l : list (list cstep * obs)) : bool :=
  match l with
  | [] => true
  | (cs, o) :: r =>
      let s' := run_gen leafof fixed s (map dec_step cs) in
      let newlog := rev (firstn (length (log s') - length (log s)) (log s')) in
      andb (obs_eqb (counter s', content_view (content s') nkeys, map snd newlog) o)
           (check_groups fixed leafof nkeys s' r)
  end.

(* kinds of case:
   MapCase nleaves nkeys groups : forced schedule on a ShardedMap whose hash is key mod nleaves
   SeqCase ops answers          : sequential history on the real map (any size / depth) against the sequential map
   LockedCase start ops answers : sequential history on a real Locked[int] *)
Inductive case :=
| MapCase (nleaves : N) (nkeys : nat) (groups : list (list cstep * obs))
| SeqCase (ops : list cop) (answers : list res) (final : list (N * N)) (nkeys : nat)
| LockedCase (start : option N) (ops : list lop) (answers : list res).

Fixpoint seq_run (m : amap) (l : list cop) : amap * list res :=
  match l with
  | [] => (m, [])
  | o :: t => let '(m1, r) := spec_op m (dec_op o) in let '(m2, rs) := seq_run m1 t in (m2, r :: rs)
  end.

Definition check (c : case) : bool :=
  match c with
  | MapCase nl nk groups => check_groups true (fun k => k mod nl) nk init groups
  | SeqCase ops answers final nk =>
      let '(m, rs) := seq_run [] ops in
      andb (list_eqb res_eqb rs answers) (list_eqb pairN_eqb (content_view m nk) final)
  | LockedCase start ops answers =>
      let s0 := match start with None => (0, true) | Some v => (v, false) end in
      list_eqb res_eqb (snd (locked_run s0 ops)) answers
  end.
