(* C24 -- Ballot and proposal pools are first-writer-wins and consistent.  Property theorems only.
   [reach ops] = the pool after any history of SetBallot / SetProposal / cleanBallots / cleanProposals calls, with
   the depths and the guard literal read from the Go source (Gen.C24).  With the mutex of SetBallot/SetProposal each
   call is one atomic step, so these histories are all the interleavings of concurrent calls; C24_concurrent_* proves
   that from the small-step model (lock; Exists; Put; unlock) over all schedules. *)
From Coq Require Import ZArith NArith List Bool Lia.
From MV Require Import C24.Model C24.Proofs C24.Conc.
Import ListNotations.
Open Scope Z_scope.

Definition reach (ops : list op) : state := run deep_ballot deep_proposal guard_literal ops.
Definition reach_from (st : state) (ops : list op) : state := run_from deep_ballot deep_proposal guard_literal st ops.

(* the configured depths and the guard literal of cleanByHeight, as they are in the Go source *)
Theorem C24_constants : deep_ballot = 3 /\ deep_proposal = 3 /\ guard_literal = 3.
Proof. repeat split; reflexivity. Qed.

(* ---------------- ballots: per (stage point, suffrage-confirm flag) the first ballot is kept *)

Theorem C24_first_ballot_kept : forall ops k v,
  (* a free key takes the ballot *)
  (get_ballot k (reach ops) = None ->
     fst (set_ballot k v (reach ops)) = true /\ get_ballot k (snd (set_ballot k v (reach ops))) = Some v) /\
  (* a taken key refuses every later ballot and nothing changes *)
  (forall v0, get_ballot k (reach ops) = Some v0 -> set_ballot k v (reach ops) = (false, reach ops)) /\
  (* and the stored ballot is returned unchanged after any further history without a ballot clean-up *)
  (forall v0 more, get_ballot k (reach ops) = Some v0 -> Forall (fun o => o <> OCleanBallots) more ->
     get_ballot k (reach_from (reach ops) more) = Some v0).
Proof.
  intros ops k v. split; [apply set_ballot_first|]. split; [intros v0; apply set_ballot_second|].
  intros v0 more H F. now apply ballot_kept.
Qed.

(* ---------------- proposals: per fact the first signed proposal is kept *)

Theorem C24_first_proposal_kept : forall ops f v,
  (get_proposal f (reach ops) = None ->
     fst (set_proposal f v (reach ops)) = true /\ get_proposal f (snd (set_proposal f v (reach ops))) = Some v) /\
  (forall v0, get_proposal f (reach ops) = Some v0 -> set_proposal f v (reach ops) = (false, reach ops)) /\
  (forall v0 more, get_proposal f (reach ops) = Some v0 -> Forall (fun o => o <> OCleanProposals) more ->
     get_proposal f (reach_from (reach ops) more) = Some v0).
Proof.
  intros ops f v. split; [intros H; destruct (set_proposal_first f v _ H) as [A [B _]]; auto|].
  split; [intros v0; apply set_proposal_second|]. intros v0 more H F. now apply proposal_kept.
Qed.

(* ---------------- lookup by (point, proposer, previous block) *)

(* whatever it returns is a stored proposal of a fact with exactly that point key, the same object the lookup by
   fact returns; and a present point key always resolves *)
Theorem C24_by_point_consistent : forall ops pk f v, by_point pk (reach ops) = Some (f, v) ->
  fst f = pk /\ get_proposal f (reach ops) = Some v.
Proof. exact (by_point_sound deep_ballot deep_proposal guard_literal). Qed.

Theorem C24_by_point_resolves : forall ops pk f, get key_eqb pk (points (reach ops)) = Some f ->
  exists v, by_point pk (reach ops) = Some (f, v).
Proof. exact (by_point_resolves deep_ballot deep_proposal guard_literal). Qed.

(* right after a fact is stored, the lookup by its point key returns that proposal *)
Theorem C24_by_point_last : forall ops f v, get_proposal f (reach ops) = None ->
  by_point (fst f) (snd (set_proposal f v (reach ops))) = Some (f, v).
Proof. intros ops f v H. destruct (set_proposal_first f v _ H) as [_ [_ B]]. exact B. Qed.

(* PARTIAL (the full statement is refuted below): if one fact only was ever submitted for a point key, the lookup by
   point returns the proposal kept for that fact, in every reachable state where it is still stored *)
Theorem C24_by_point_single_fact_partial : forall ops f v,
  (forall f' v', In (OSetProposal f' v') ops -> fst f' = fst f -> f' = f) ->
  get_proposal f (reach ops) = Some v ->
  by_point (fst f) (reach ops) = Some (f, v).
Proof.
  intros ops f v Hs P.
  exact (by_point_single deep_ballot deep_proposal guard_literal (fst f) f eq_refl ops v Hs P).
Qed.

(* REFUTED as stated ("lookup by (point, proposer, previous block) returns that same proposal" for each stored fact):
   two different facts with one point key; the proposal of the first fact is kept, the lookup by its point key returns
   the other one (known finding, class proposal-point-key-overwritten) *)
Theorem C24_by_point_refuted : exists ops f1 v1, get_proposal f1 (reach ops) = Some v1 /\
  exists f2 v2, f2 <> f1 /\ by_point (fst f1) (reach ops) = Some (f2, v2).
Proof.
  exists [OSetProposal ((33, 0%N), 0%N) 10%N; OSetProposal ((33, 0%N), 1%N) 11%N], ((33, 0%N), 0%N), 10%N.
  split; [vm_compute; reflexivity|]. exists ((33, 0%N), 1%N), 11%N. split; [discriminate|vm_compute; reflexivity].
Qed.

(* ---------------- clean-up removes only entries at least the configured depth below the newest height *)

(* the newest height *)
Theorem C24_newest_height : forall {V} (l : list (key * V)),
  (forall e, In e l -> fst (fst e) <= top_height l) /\
  ((forall e, In e l -> 0 <= fst (fst e)) -> l <> [] -> exists e, In e l /\ fst (fst e) = top_height l).
Proof. intros V l. split; [apply top_height_ge|apply top_height_attained]. Qed.

Theorem C24_clean_depth_ballots : forall ops k,
  let st := reach ops in let newest := top_height (ballots st) in
  get_ballot k (snd (clean_ballots deep_ballot guard_literal st)) =
    if (guard_literal <=? newest) && (fst k <=? newest - deep_ballot) then None else get_ballot k st.
Proof. intros ops k. apply clean_ballots_spec. vm_compute. split; discriminate. Qed.

Theorem C24_clean_depth_proposals : forall ops,
  let st := reach ops in let newest := top_height (points st) in
  (forall pk, get key_eqb pk (points (snd (clean_proposals deep_proposal guard_literal st))) =
     if (guard_literal <=? newest) && (fst pk <=? newest - deep_proposal) then None else get key_eqb pk (points st)) /\
  (forall f v, get_proposal f st = Some v ->
     get_proposal f (snd (clean_proposals deep_proposal guard_literal st)) = Some v \/
     (get_proposal f (snd (clean_proposals deep_proposal guard_literal st)) = None /\
      guard_literal <= newest /\ fst (fst f) <= newest - deep_proposal)).
Proof.
  intros ops. split.
  - intros pk. apply clean_proposals_points_spec. vm_compute. split; discriminate.
  - intros f v. apply clean_proposals_only_old; [apply PI_run|vm_compute; split; discriminate].
Qed.

(* ---------------- all schedules of concurrent calls for one key (SetBallot; SetProposal has the same shape) *)

Section Concurrent.
  Variables (store0 : option N) (vals : list N) (sched : list nat).
  Let c := run_sched true (start store0 vals) sched.

  (* at most one call returns true; its value is the stored one; a key that was taken lets nobody win *)
  Theorem C24_concurrent_first_wins :
    (forall i j ti tj, nth_error (c_threads c) i = Some ti -> nth_error (c_threads c) j = Some tj ->
       t_ret ti = Some true -> t_ret tj = Some true -> i = j) /\
    (forall i t, nth_error (c_threads c) i = Some t -> t_ret t = Some true -> c_store c = Some (t_val t) /\ store0 = None) /\
    (c_store c = store0 \/ exists i t, nth_error (c_threads c) i = Some t /\ t_ret t = Some true /\ c_store c = Some (t_val t)).
  Proof.
    pose proof (inv_reach store0 vals sched) as I. fold c in I.
    split; [exact (i_one _ _ I)|]. split; [exact (i_win _ _ I)|exact (i_store _ _ I)].
  Qed.

  (* a call that has returned false saw a stored value; so when every call has returned and the key was free,
     somebody won *)
  Theorem C24_concurrent_somebody_wins : forall i t, nth_error (c_threads c) i = Some t -> t_pc t = 3%nat ->
    t_ret t = Some true \/ (t_ret t = Some false /\ c_store c <> None).
  Proof. pose proof (inv_reach store0 vals sched) as I. fold c in I. exact (i_done _ _ I). Qed.

  (* once a value is stored under the key, no continuation of the schedule changes it *)
  Theorem C24_concurrent_stored_stable : forall v more, c_store c = Some v ->
    c_store (run_sched true (start store0 vals) (sched ++ more)) = Some v.
  Proof.
    intros v more H. rewrite run_sched_app. apply (store_stable store0); [apply inv_reach|exact H].
  Qed.
End Concurrent.

(* ---------------------------------------------------------------- non-vacuity / documentation *)

Example C24_example_ballots :
  let st := reach [OSetBallot (33, 4%N) 1%N; OSetBallot (33, 4%N) 2%N; OSetBallot (30, 0%N) 3%N; OSetBallot (31, 0%N) 4%N; OCleanBallots] in
  get_ballot (33, 4%N) st = Some 1%N /\ get_ballot (30, 0%N) st = None /\ get_ballot (31, 0%N) st = Some 4%N.
Proof. vm_compute. repeat split; reflexivity. Qed.

Example C24_example_locked_schedule :
  let c := run_sched true (start None [1%N; 2%N]) [0; 1; 0; 1; 0; 1; 1; 1]%nat in
  c_store c = Some 1%N /\ map t_ret (c_threads c) = [Some true; Some false].
Proof. vm_compute. split; reflexivity. Qed.

(* the code before the fix: commit (no mutex): both calls pass Exists, both return true, the later Put overwrites *)
Example C24_unfixed_code_race :
  let c1 := run_sched false (start None [1%N; 2%N]) [0; 1; 0; 1; 0]%nat in
  let c2 := run_sched false (start None [1%N; 2%N]) [0; 1; 0; 1; 0; 1]%nat in
  c_store c1 = Some 1%N /\ c_store c2 = Some 2%N /\ map t_ret (c_threads c2) = [Some true; Some true].
Proof. vm_compute. repeat split; reflexivity. Qed.
