(* C24 -- ballot and proposal pools.  Transcribes isaac/database/pool.go (after the fix: commit):

     SetBallot      lock; Exists(key) ? (false,nil) : Put(key, frame) ; unlock      key = (stage point, suffrage-confirm flag)
     Ballot         Get(key)
     SetProposal    lock; Exists(fact key) ? (false,nil) : Batch{Put(fact key, frame); Put(point key, fact hash)}; unlock
     Proposal       Get(fact key)
     ProposalByPoint  Get(point key) -> fact hash -> Proposal(fact hash)
     cleanBallots / cleanProposals = cleanByHeight(prefix, deep, keyf)

   Keys carry their height (first 8 bytes after the prefix, heightFromKey); the rest of a key is an identifier.
   A proposal fact is (point key, id): the point key (point, proposer, previous block) is a function of the fact.
   Stored objects (ballot / signed proposal) are identifiers.
   Assumed (goleveldb): Get/Exists/Put/Batch atomic; a Batch is applied as a whole. *)
From Coq Require Import ZArith NArith List Bool.
From MV Require Import Common.Cases.
Import ListNotations.
Open Scope Z_scope.

Definition key := (Z * N)%type.             (* (height, rest of the key) *)
Definition fact := (key * N)%type.          (* (point key, id) *)

Definition key_eqb (a b : key) : bool := (fst a =? fst b) && N.eqb (snd a) (snd b).
Definition fact_eqb (a b : fact) : bool := key_eqb (fst a) (fst b) && N.eqb (snd a) (snd b).

Section Assoc.
  Context {K V : Type} (eqb : K -> K -> bool).
  Fixpoint get (k : K) (l : list (K * V)) : option V :=
    match l with
    | [] => None
    | (k', v) :: t => if eqb k' k then Some v else get k t
    end.
  Definition del (k : K) (l : list (K * V)) : list (K * V) := filter (fun p => negb (eqb (fst p) k)) l.
  Definition put (k : K) (v : V) (l : list (K * V)) : list (K * V) := (k, v) :: del k l.
End Assoc.

Record state := mkState {
  ballots : list (key * N);        (* ballot key -> ballot *)
  props : list (fact * N);         (* proposal fact -> signed proposal *)
  points : list (key * fact) }.    (* point key -> fact *)

Definition init : state := mkState [] [] [].

Definition set_ballot (k : key) (v : N) (st : state) : bool * state :=
  match get key_eqb k (ballots st) with
  | Some _ => (false, st)
  | None => (true, mkState (put key_eqb k v (ballots st)) (props st) (points st))
  end.

Definition get_ballot (k : key) (st : state) : option N := get key_eqb k (ballots st).

Definition set_proposal (f : fact) (v : N) (st : state) : bool * state :=
  match get fact_eqb f (props st) with
  | Some _ => (false, st)
  | None => (true, mkState (ballots st) (put fact_eqb f v (props st)) (put key_eqb (fst f) f (points st)))
  end.

Definition get_proposal (f : fact) (st : state) : option N := get fact_eqb f (props st).

Definition by_point (pk : key) (st : state) : option (fact * N) :=
  match get key_eqb pk (points st) with
  | None => None
  | Some f => match get_proposal f st with Some v => Some (f, v) | None => None end
  end.

(* cleanByHeight: top = highest height among the keys (NilHeight = -1 when none);
   `top-guard < GenesisHeight` -> nothing; height = SafePrev^deep(top); keys with height <= that are deleted *)
Definition top_height {V} (l : list (key * V)) : Z := fold_left (fun t p => Z.max t (fst (fst p))) l (-1).

Definition safe_prev (h : Z) : Z := if h <=? 0 then 0 else h - 1.

Fixpoint iter_prev (n : nat) (h : Z) : Z :=
  match n with O => h | S m => iter_prev m (safe_prev h) end.

Definition clean_threshold {V} (deep guard : Z) (l : list (key * V)) : option Z :=
  match l with
  | [] => None
  | _ => let top := top_height l in
         if top - guard <? 0 then None else Some (iter_prev (Z.to_nat deep) top)
  end.

Definition clean_ballots (deep guard : Z) (st : state) : Z * state :=
  match clean_threshold deep guard (ballots st) with
  | None => (0, st)
  | Some h =>
      (Z.of_nat (List.length (filter (fun p => fst (fst p) <=? h) (ballots st))),
       mkState (filter (fun p => negb (fst (fst p) <=? h)) (ballots st)) (props st) (points st))
  end.

Definition clean_proposals (deep guard : Z) (st : state) : Z * state :=
  match clean_threshold deep guard (points st) with
  | None => (0, st)
  | Some h =>
      let gone := filter (fun p => fst (fst p) <=? h) (points st) in
      (Z.of_nat (List.length gone),
       mkState (ballots st)
               (filter (fun p => negb (existsb (fun q => fact_eqb (snd q) (fst p)) gone)) (props st))
               (filter (fun p => negb (fst (fst p) <=? h)) (points st)))
  end.

Inductive op :=
| OSetBallot (k : key) (v : N)
| OSetProposal (f : fact) (v : N)
| OCleanBallots
| OCleanProposals.

Section Run.
  Variables (deep_b deep_p guard : Z).
  Definition apply (st : state) (o : op) : state :=
    match o with
    | OSetBallot k v => snd (set_ballot k v st)
    | OSetProposal f v => snd (set_proposal f v st)
    | OCleanBallots => snd (clean_ballots deep_b guard st)
    | OCleanProposals => snd (clean_proposals deep_p guard st)
    end.
  Definition run_from (st : state) (ops : list op) : state := fold_left apply ops st.
  Definition run (ops : list op) : state := run_from init ops.
End Run.

(* ---------------------------------------------------------------- concurrency: threads calling SetBallot for
   one key.  Atomic steps: (acquire the lock) ; Exists ; Put (+ release).  [locked = false] is the code before the
   fix: commit (no mutex). *)
Record thread := mkThread { t_pc : nat; t_val : N; t_ret : option bool }.
(* pc: 0 = not started / waiting for the lock, 1 = about to call Exists, 2 = saw "not found", about to Put, 3 = returned *)

Record config := mkConfig { c_store : option N; c_lock : option nat; c_threads : list thread }.

Fixpoint set_thread (i : nat) (t : thread) (l : list thread) : list thread :=
  match l, i with
  | [], _ => []
  | _ :: r, O => t :: r
  | x :: r, S j => x :: set_thread j t r
  end.

Definition step (locked : bool) (c : config) (i : nat) : config :=
  match nth_error (c_threads c) i with
  | None => c
  | Some t =>
      match t_pc t with
      | 0%nat =>
          if locked then
            match c_lock c with
            | Some _ => c                                                       (* blocked on the mutex *)
            | None => mkConfig (c_store c) (Some i) (set_thread i (mkThread 1 (t_val t) None) (c_threads c))
            end
          else mkConfig (c_store c) (c_lock c) (set_thread i (mkThread 1 (t_val t) None) (c_threads c))
      | 1%nat =>
          match c_store c with
          | Some _ => mkConfig (c_store c) (if locked then None else c_lock c)
                               (set_thread i (mkThread 3 (t_val t) (Some false)) (c_threads c))
          | None => mkConfig (c_store c) (c_lock c) (set_thread i (mkThread 2 (t_val t) None) (c_threads c))
          end
      | 2%nat => mkConfig (Some (t_val t)) (if locked then None else c_lock c)
                          (set_thread i (mkThread 3 (t_val t) (Some true)) (c_threads c))
      | _ => c
      end
  end.

Definition run_sched (locked : bool) (c : config) (sched : list nat) : config := fold_left (step locked) sched c.

Definition start (store : option N) (vals : list N) : config :=
  mkConfig store None (map (fun v => mkThread 0 v None) vals).

Definition winners (c : config) : list N :=
  map t_val (filter (fun t => match t_ret t with Some true => true | _ => false end) (c_threads c)).

(* ---------------------------------------------------------------- correspondence *)

Inductive item :=
| ISetBallot (k : key) (v : N) (added : bool)
| IGetBallot (k : key) (found : option N)
| ISetProposal (f : fact) (v : N) (added : bool)
| IGetProposal (f : fact) (found : option N)
| IByPoint (pk : key) (found : option (fact * N))
| ICleanBallots (removed : Z)
| ICleanProposals (removed : Z)
(* concurrent calls for one key (forced schedule or free-running): values, returned flags, value stored at the end *)
| IConcBallot (k : key) (vals : list N) (rets : list bool) (stored : option N)
| IConcProposal (f : fact) (vals : list N) (rets : list bool) (stored : option N).

Definition optN_eqb := option_eqb N.eqb.

Fixpoint winner (vals : list N) (rets : list bool) : list N :=
  match vals, rets with
  | v :: vs, r :: rs => if r then v :: winner vs rs else winner vs rs
  | _, _ => []
  end.

(* with the mutex every call is one atomic step: whatever the schedule, the calls behave like some sequence of
   atomic calls; on a free key exactly one call returns true and its value is the stored one; on a taken key none *)
Definition conc_ok (existing : option N) (vals : list N) (rets : list bool) (stored : option N) : bool :=
  Nat.eqb (List.length vals) (List.length rets) &&
  match existing with
  | Some v => match winner vals rets with [] => optN_eqb stored (Some v) | _ => false end
  | None => match winner vals rets with [w] => optN_eqb stored (Some w) | _ => false end
  end.

Section Check.
  Variables (deep_b deep_p guard : Z).

  Definition check_item (st : state) (i : item) : bool * state :=
    match i with
    | ISetBallot k v added => let (b, st') := set_ballot k v st in (Bool.eqb b added, st')
    | IGetBallot k found => (optN_eqb (get_ballot k st) found, st)
    | ISetProposal f v added => let (b, st') := set_proposal f v st in (Bool.eqb b added, st')
    | IGetProposal f found => (optN_eqb (get_proposal f st) found, st)
    | IByPoint pk found =>
        (option_eqb (fun a b => fact_eqb (fst a) (fst b) && N.eqb (snd a) (snd b)) (by_point pk st) found, st)
    | ICleanBallots removed => let (n, st') := clean_ballots deep_b guard st in (n =? removed, st')
    | ICleanProposals removed => let (n, st') := clean_proposals deep_p guard st in (n =? removed, st')
    | IConcBallot k vals rets stored =>
        (conc_ok (get_ballot k st) vals rets stored,
         match winner vals rets with w :: _ => snd (set_ballot k w st) | [] => st end)
    | IConcProposal f vals rets stored =>
        (conc_ok (get_proposal f st) vals rets stored,
         match winner vals rets with w :: _ => snd (set_proposal f w st) | [] => st end)
    end.

  Fixpoint check_from (st : state) (l : list item) : bool :=
    match l with
    | [] => true
    | i :: t => let (b, st') := check_item st i in b && check_from st' t
    end.
End Check.

(* the configured depths and the guard literal, regenerated from the Go source on every run:
   newTempPool:  cleanRemovedNewOperationsDeep: 3, cleanRemovedProposalDeep: 3, cleanRemovedBallotDeep: 3
   (integer literals of the function in source order: 0, 2, 33, 3, 3, 3);  cleanByHeight: `top-3 < base.GenesisHeight`
   is the 7th integer literal of the function *)
From MV Require Gen.C24.
Definition deep_proposal : Z := nth 0 Gen.C24.clean_proposal_deep_ints 0.
Definition deep_ballot : Z := nth 0 Gen.C24.clean_ballot_deep_ints 0.
Definition guard_literal : Z := nth 0 Gen.C24.clean_guard_ints 0.

Definition check (c : list item) : bool := check_from deep_ballot deep_proposal guard_literal init c.
