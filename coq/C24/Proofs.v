(* C24 -- lemmas about the ballot / proposal pool model. *)
From Coq Require Import ZArith NArith List Bool Lia ZifyBool ZifyNat ZifyN.
From MV Require Import C24.Model.
Import ListNotations.
Open Scope Z_scope.

(* ---------------------------------------------------------------- association lists *)

Lemma key_eqb_spec : forall a b, key_eqb a b = true <-> a = b.
Proof.
  intros [h1 r1] [h2 r2]; unfold key_eqb; cbn [fst snd].
  rewrite andb_true_iff, Z.eqb_eq, N.eqb_eq. split; [intros [-> ->]; reflexivity|intros E; inversion E; auto].
Qed.

Lemma fact_eqb_spec : forall a b, fact_eqb a b = true <-> a = b.
Proof.
  intros [k1 i1] [k2 i2]; unfold fact_eqb; cbn [fst snd].
  rewrite andb_true_iff, key_eqb_spec, N.eqb_eq. split; [intros [-> ->]; reflexivity|intros E; inversion E; auto].
Qed.

Section AssocLemmas.
  Context {K V : Type} (eqb : K -> K -> bool).
  Hypothesis eqb_spec : forall a b, eqb a b = true <-> a = b.

  Lemma eqb_refl : forall a, eqb a a = true.
  Proof. intros; now apply eqb_spec. Qed.

  Lemma eqb_neq : forall a b, a <> b -> eqb a b = false.
  Proof. intros a b H. destruct (eqb a b) eqn:E; auto. apply eqb_spec in E. contradiction. Qed.

  Lemma get_filter_key : forall (q : K -> bool) k (l : list (K * V)),
    get eqb k (filter (fun e => q (fst e)) l) = if q k then get eqb k l else None.
  Proof.
    intros q k l; induction l as [|[k' v] t IH]; cbn [filter get fst]; [now destruct (q k)|].
    destruct (q k') eqn:Q; cbn [get].
    - destruct (eqb k' k) eqn:E; [apply eqb_spec in E; subst; now rewrite Q|exact IH].
    - destruct (eqb k' k) eqn:E; [apply eqb_spec in E; subst; rewrite Q in *; exact IH|exact IH].
  Qed.

  Lemma get_del_other : forall k k' (l : list (K * V)), k <> k' -> get eqb k' (del eqb k l) = get eqb k' l.
  Proof.
    intros k k' l H. unfold del.
    rewrite (get_filter_key (fun x => negb (eqb x k)) k' l).
    rewrite eqb_neq; auto.
  Qed.

  Lemma get_put_same : forall k v (l : list (K * V)), get eqb k (put eqb k v l) = Some v.
  Proof. intros; unfold put; cbn [get]; now rewrite eqb_refl. Qed.

  Lemma get_put_other : forall k k' v (l : list (K * V)), k <> k' -> get eqb k' (put eqb k v l) = get eqb k' l.
  Proof. intros k k' v l H; unfold put; cbn [get]. rewrite eqb_neq; auto. now apply get_del_other. Qed.

  Lemma get_in : forall k v (l : list (K * V)), get eqb k l = Some v -> In (k, v) l.
  Proof.
    intros k v l; induction l as [|[k' v'] t IH]; cbn [get]; [discriminate|].
    destruct (eqb k' k) eqn:E.
    - apply eqb_spec in E. subst. intros H; inversion H; subst. left; reflexivity.
    - intros H; right; auto.
  Qed.
End AssocLemmas.

(* ---------------------------------------------------------------- ballots *)

Lemma set_ballot_first : forall k v st, get_ballot k st = None ->
  fst (set_ballot k v st) = true /\ get_ballot k (snd (set_ballot k v st)) = Some v.
Proof.
  intros k v st H. unfold set_ballot, get_ballot in *. rewrite H. cbn [fst snd ballots]. split; auto.
  apply (get_put_same key_eqb key_eqb_spec).
Qed.

Lemma set_ballot_second : forall k v v0 st, get_ballot k st = Some v0 -> set_ballot k v st = (false, st).
Proof. intros k v v0 st H. unfold set_ballot, get_ballot in *. now rewrite H. Qed.

Lemma set_ballot_keeps : forall k v k0 v0 st, get_ballot k0 st = Some v0 ->
  get_ballot k0 (snd (set_ballot k v st)) = Some v0.
Proof.
  intros k v k0 v0 st H. unfold set_ballot. destruct (get key_eqb k (ballots st)) eqn:G; cbn [snd]; auto.
  unfold get_ballot in *. cbn [ballots].
  destruct (key_eqb k k0) eqn:E.
  - apply key_eqb_spec in E. subst. congruence.
  - rewrite (get_put_other key_eqb key_eqb_spec); auto. intros ->. rewrite (eqb_refl key_eqb key_eqb_spec) in E. discriminate.
Qed.

Lemma set_proposal_first : forall f v st, get_proposal f st = None ->
  fst (set_proposal f v st) = true /\ get_proposal f (snd (set_proposal f v st)) = Some v /\
  by_point (fst f) (snd (set_proposal f v st)) = Some (f, v).
Proof.
  intros f v st H. unfold set_proposal, get_proposal, by_point in *. rewrite H. cbn [fst snd props points].
  rewrite (get_put_same key_eqb key_eqb_spec). unfold get_proposal. cbn [props].
  rewrite (get_put_same fact_eqb fact_eqb_spec). auto.
Qed.

Lemma set_proposal_second : forall f v v0 st, get_proposal f st = Some v0 -> set_proposal f v st = (false, st).
Proof. intros f v v0 st H. unfold set_proposal, get_proposal in *. now rewrite H. Qed.

Lemma set_proposal_keeps : forall f v f0 v0 st, get_proposal f0 st = Some v0 ->
  get_proposal f0 (snd (set_proposal f v st)) = Some v0.
Proof.
  intros f v f0 v0 st H. unfold set_proposal. destruct (get fact_eqb f (props st)) eqn:G; cbn [snd]; auto.
  unfold get_proposal in *. cbn [props].
  destruct (fact_eqb f f0) eqn:E.
  - apply fact_eqb_spec in E. subst. congruence.
  - rewrite (get_put_other fact_eqb fact_eqb_spec); auto. intros ->. rewrite (eqb_refl fact_eqb fact_eqb_spec) in E. discriminate.
Qed.

(* ---------------------------------------------------------------- clean-up *)

Lemma iter_prev_sub : forall n h, Z.of_nat n <= h -> iter_prev n h = h - Z.of_nat n.
Proof.
  induction n as [|n IH]; intros h H; cbn [iter_prev]; [lia|].
  unfold safe_prev. destruct (h <=? 0) eqn:E; [lia|]. rewrite IH; lia.
Qed.

Lemma iter_prev_ge : forall n h, 0 <= h -> h - Z.of_nat n <= iter_prev n h.
Proof.
  induction n as [|n IH]; intros h H; cbn [iter_prev]; [lia|].
  unfold safe_prev. destruct (h <=? 0) eqn:E.
  - specialize (IH 0). lia.
  - specialize (IH (h - 1)). lia.
Qed.

Lemma top_height_from_ge : forall {V} (l : list (key * V)) t0,
  t0 <= fold_left (fun t p => Z.max t (fst (fst p))) l t0 /\
  forall e, In e l -> fst (fst e) <= fold_left (fun t p => Z.max t (fst (fst p))) l t0.
Proof.
  intros V l; induction l as [|x t IH]; intros t0; cbn [fold_left]; [split; [lia|intros e []]|].
  destruct (IH (Z.max t0 (fst (fst x)))) as [A B]. split; [eapply Z.le_trans; [apply Z.le_max_l|exact A]|].
  intros e [<-|He]; [eapply Z.le_trans; [apply Z.le_max_r|exact A]|auto].
Qed.

Lemma top_height_ge : forall {V} (l : list (key * V)) e, In e l -> fst (fst e) <= top_height l.
Proof. intros V l e H. unfold top_height. now apply (top_height_from_ge l (-1)). Qed.

Lemma top_height_from_attained : forall {V} (l : list (key * V)) t0,
  fold_left (fun t p => Z.max t (fst (fst p))) l t0 = t0 \/
  exists e, In e l /\ fst (fst e) = fold_left (fun t p => Z.max t (fst (fst p))) l t0.
Proof.
  intros V l; induction l as [|x t IH]; intros t0; cbn [fold_left]; [left; reflexivity|].
  destruct (IH (Z.max t0 (fst (fst x)))) as [E|[e [He E]]].
  - destruct (Z.max_spec t0 (fst (fst x))) as [[_ M]|[_ M]].
    + right. exists x. split; [left; reflexivity|].
      transitivity (Z.max t0 (fst (fst x))); [symmetry; exact M|symmetry; exact E].
    + left. transitivity (Z.max t0 (fst (fst x))); [exact E|exact M].
  - right. exists e. split; [right|]; auto.
Qed.

(* the "newest height": the greatest height of a stored key *)
Lemma top_height_attained : forall {V} (l : list (key * V)),
  (forall e, In e l -> 0 <= fst (fst e)) -> l <> [] -> exists e, In e l /\ fst (fst e) = top_height l.
Proof.
  intros V l Hpos Hne. unfold top_height. destruct (top_height_from_attained l (-1)) as [E|H]; auto.
  destruct l as [|x t]; [contradiction|].
  pose proof (top_height_ge (x :: t) x (or_introl eq_refl)) as G. unfold top_height in G.
  specialize (Hpos x (or_introl eq_refl)). lia.
Qed.

Lemma clean_threshold_some : forall {V} deep guard (l : list (key * V)) h,
  0 <= deep <= guard -> clean_threshold deep guard l = Some h ->
  h = top_height l - deep /\ guard <= top_height l.
Proof.
  intros V deep guard l h Hd H. unfold clean_threshold in H. destruct l as [|x t]; [discriminate|].
  destruct (top_height (x :: t) - guard <? 0) eqn:E; [discriminate|]. inversion H; subst.
  rewrite iter_prev_sub; lia.
Qed.

(* without the side condition deep <= guard: still never above newest - deep *)
Lemma clean_threshold_bound : forall {V} deep guard (l : list (key * V)) h,
  0 <= deep -> 0 <= guard -> clean_threshold deep guard l = Some h -> top_height l - deep <= h.
Proof.
  intros V deep guard l h Hd Hg H. unfold clean_threshold in H. destruct l as [|x t]; [discriminate|].
  destruct (top_height (x :: t) - guard <? 0) eqn:E; [discriminate|]. inversion H; subst.
  pose proof (iter_prev_ge (Z.to_nat deep) (top_height (x :: t))). lia.
Qed.

Lemma clean_ballots_spec : forall deep guard st k,
  0 <= deep <= guard ->
  get_ballot k (snd (clean_ballots deep guard st)) =
    if (guard <=? top_height (ballots st)) && (fst k <=? top_height (ballots st) - deep)
    then None else get_ballot k st.
Proof.
  intros deep guard st k Hd. unfold clean_ballots, get_ballot.
  destruct (clean_threshold deep guard (ballots st)) as [h|] eqn:T; cbn [snd ballots].
  - destruct (clean_threshold_some _ _ _ _ Hd T) as [-> Hg].
    rewrite (get_filter_key key_eqb key_eqb_spec (fun x => negb (fst x <=? top_height (ballots st) - deep))).
    replace (guard <=? top_height (ballots st)) with true by lia. cbn [andb].
    destruct (fst k <=? top_height (ballots st) - deep); reflexivity.
  - unfold clean_threshold in T. destruct (ballots st) as [|x t] eqn:B; [now rewrite andb_comm; cbn; destruct (_ && _)|].
    destruct (top_height (x :: t) - guard <? 0) eqn:E; [|discriminate].
    replace (guard <=? top_height (x :: t)) with false by lia. reflexivity.
Qed.

(* ---------------------------------------------------------------- proposals: invariant of reachable states *)

(* every point-key record points to a fact of that point key whose proposal is stored; point keys are unique *)
Definition PI (st : state) : Prop :=
  forall pk f, In (pk, f) (points st) -> fst f = pk /\ get key_eqb pk (points st) = Some f /\ exists v, get_proposal f st = Some v.

Lemma PI_init : PI init.
Proof. intros pk f []. Qed.

Lemma in_del : forall {K V} (eqb : K -> K -> bool) k (l : list (K * V)) e, In e (del eqb k l) -> In e l /\ eqb (fst e) k = false.
Proof. intros K V eqb k l e H. unfold del in H. apply filter_In in H. rewrite negb_true_iff in H. exact H. Qed.

Lemma PI_set_proposal : forall f v st, PI st -> PI (snd (set_proposal f v st)).
Proof.
  intros f v st H. unfold set_proposal. destruct (get fact_eqb f (props st)) eqn:G; cbn [snd]; auto.
  intros pk f' Hin. cbn [points] in Hin. unfold put in Hin. cbn [In] in Hin. destruct Hin as [E|Hin].
  - inversion E; subst. split; auto. cbn [points]. rewrite (get_put_same key_eqb key_eqb_spec). split; auto.
    exists v. unfold get_proposal. cbn [props]. apply (get_put_same fact_eqb fact_eqb_spec).
  - apply in_del in Hin. destruct Hin as [Hin Hne]. cbn [fst] in Hne.
    destruct (H pk f' Hin) as [A [B [v' C]]].
    assert (Hpk : fst f <> pk) by (intros E; rewrite E, (eqb_refl key_eqb key_eqb_spec) in Hne; discriminate).
    split; auto. cbn [points]. rewrite (get_put_other key_eqb key_eqb_spec); auto. split; auto.
    exists v'. unfold get_proposal in *. cbn [props]. rewrite (get_put_other fact_eqb fact_eqb_spec); auto.
    intros ->. congruence.
Qed.

Lemma PI_clean_proposals : forall deep guard st, PI st -> PI (snd (clean_proposals deep guard st)).
Proof.
  intros deep guard st H. unfold clean_proposals. destruct (clean_threshold deep guard (points st)) as [h|]; cbn [snd]; auto.
  intros pk f Hin. cbn [points] in Hin. apply filter_In in Hin. destruct Hin as [Hin Hh]. cbn [fst] in Hh.
  destruct (H pk f Hin) as [A [B [v C]]]. split; auto. cbn [points].
  rewrite (get_filter_key key_eqb key_eqb_spec (fun x => negb (fst x <=? h))). rewrite Hh. split; auto.
  exists v. unfold get_proposal in *. cbn [props].
  assert (Q : forall l, get fact_eqb f l = Some v ->
     get fact_eqb f (filter (fun p : fact * N => negb (existsb (fun q : key * fact => fact_eqb (snd q) (fst p))
        (filter (fun p0 : key * fact => fst (fst p0) <=? h) (points st)))) l) = Some v).
  { intros l. rewrite (get_filter_key fact_eqb fact_eqb_spec (fun x => negb (existsb (fun q : key * fact => fact_eqb (snd q) x)
        (filter (fun p0 : key * fact => fst (fst p0) <=? h) (points st))))).
    intros ->. destruct (existsb _ _) eqn:X; [|reflexivity]. exfalso.
    apply existsb_exists in X. destruct X as [[pk' f'] [Hg E]]. cbn [snd] in E. apply fact_eqb_spec in E. subst f'.
    apply filter_In in Hg. destruct Hg as [Hg Hle]. cbn [fst] in Hle.
    destruct (H pk' f Hg) as [A' _]. rewrite A in A'. subst pk'. lia. }
  now apply Q.
Qed.

Section Reach.
  Variables (deep_b deep_p guard : Z).
  Notation apply := (apply deep_b deep_p guard).
  Notation run_from := (run_from deep_b deep_p guard).
  Notation run := (run deep_b deep_p guard).

  Lemma PI_apply : forall st o, PI st -> PI (apply st o).
  Proof.
    intros st [k v|f v| |] H; cbn [Model.apply].
    - unfold set_ballot. destruct (get key_eqb k (ballots st)); cbn [snd]; auto.
    - now apply PI_set_proposal.
    - unfold clean_ballots. destruct (clean_threshold deep_b guard (ballots st)); cbn [snd]; auto.
    - now apply PI_clean_proposals.
  Qed.

  Lemma PI_run_from : forall ops st, PI st -> PI (run_from st ops).
  Proof. unfold Model.run_from. induction ops as [|o t IH]; intros st H; cbn [fold_left]; auto. apply IH. now apply PI_apply. Qed.

  Lemma PI_run : forall ops, PI (run ops).
  Proof. intros; apply PI_run_from, PI_init. Qed.

  Definition not_clean_ballots (o : op) : Prop := o <> OCleanBallots.
  Definition not_clean_proposals (o : op) : Prop := o <> OCleanProposals.

  Lemma ballot_kept_step : forall st o k v, not_clean_ballots o -> get_ballot k st = Some v -> get_ballot k (apply st o) = Some v.
  Proof.
    intros st [k' v'|f v'| |] k v Hn H; cbn [Model.apply].
    - now apply set_ballot_keeps.
    - unfold set_proposal. destruct (get fact_eqb f (props st)); cbn [snd]; auto.
    - contradiction Hn; reflexivity.
    - unfold clean_proposals. destruct (clean_threshold deep_p guard (points st)); cbn [snd]; auto.
  Qed.

  Lemma ballot_kept : forall ops st k v, Forall not_clean_ballots ops -> get_ballot k st = Some v ->
    get_ballot k (run_from st ops) = Some v.
  Proof.
    unfold Model.run_from. induction ops as [|o t IH]; intros st k v Hf H; cbn [fold_left]; auto.
    inversion Hf; subst. apply IH; auto. now apply ballot_kept_step.
  Qed.

  Lemma proposal_kept_step : forall st o f v, not_clean_proposals o -> get_proposal f st = Some v -> get_proposal f (apply st o) = Some v.
  Proof.
    intros st [k' v'|f' v'| |] f v Hn H; cbn [Model.apply].
    - unfold set_ballot. destruct (get key_eqb k' (ballots st)); cbn [snd]; auto.
    - now apply set_proposal_keeps.
    - unfold clean_ballots. destruct (clean_threshold deep_b guard (ballots st)); cbn [snd]; auto.
    - contradiction Hn; reflexivity.
  Qed.

  Lemma proposal_kept : forall ops st f v, Forall not_clean_proposals ops -> get_proposal f st = Some v ->
    get_proposal f (run_from st ops) = Some v.
  Proof.
    unfold Model.run_from. induction ops as [|o t IH]; intros st f v Hf H; cbn [fold_left]; auto.
    inversion Hf; subst. apply IH; auto. now apply proposal_kept_step.
  Qed.

  (* lookup by point is consistent with the lookup by fact *)
  Lemma by_point_sound : forall ops pk f v, by_point pk (run ops) = Some (f, v) ->
    fst f = pk /\ get_proposal f (run ops) = Some v.
  Proof.
    intros ops pk f v H. unfold by_point in H.
    destruct (get key_eqb pk (points (run ops))) as [f'|] eqn:G; [|discriminate].
    destruct (get_proposal f' (run ops)) as [v'|] eqn:P; [|discriminate]. inversion H; subst.
    apply (get_in key_eqb key_eqb_spec) in G. destruct (PI_run ops pk f G) as [A _]. auto.
  Qed.

  (* a point key that is present always resolves *)
  Lemma by_point_resolves : forall ops pk f, get key_eqb pk (points (run ops)) = Some f ->
    exists v, by_point pk (run ops) = Some (f, v).
  Proof.
    intros ops pk f G. pose proof (get_in key_eqb key_eqb_spec _ _ _ G) as Hin.
    destruct (PI_run ops pk f Hin) as [_ [_ [v P]]]. exists v. unfold by_point. now rewrite G, P.
  Qed.

  (* if only one fact was ever submitted for a point key, the lookup by point returns the proposal kept for it *)
  Section Single.
    Variables (pk : key) (f : fact).
    Hypothesis Hf : fst f = pk.

    Definition single (ops : list op) : Prop := forall f' v', In (OSetProposal f' v') ops -> fst f' = pk -> f' = f.

    Definition J (st : state) : Prop :=
      PI st /\ (forall v, get_proposal f st = Some v -> get key_eqb pk (points st) = Some f).

    Lemma J_apply : forall st o, J st -> (forall f' v', o = OSetProposal f' v' -> fst f' = pk -> f' = f) -> J (apply st o).
    Proof.
      intros st o [HPI HJ] Hs. split; [now apply PI_apply|].
      destruct o as [k v|f' v'| |]; cbn [Model.apply].
      - unfold set_ballot. destruct (get key_eqb k (ballots st)); cbn [snd]; auto.
      - unfold set_proposal. destruct (get fact_eqb f' (props st)) eqn:G; cbn [snd]; auto.
        intros v. unfold get_proposal. cbn [props points].
        destruct (fact_eqb f' f) eqn:E.
        + apply fact_eqb_spec in E. subst f'. intros _. rewrite Hf. apply (get_put_same key_eqb key_eqb_spec).
        + assert (Hne : f' <> f) by (intros ->; rewrite (eqb_refl fact_eqb fact_eqb_spec) in E; discriminate).
          rewrite (get_put_other fact_eqb fact_eqb_spec); auto. intros P.
          assert (Hpk : fst f' <> pk) by (intros Q; apply Hne; eapply Hs; eauto).
          rewrite (get_put_other key_eqb key_eqb_spec); auto. exact (HJ v P).
      - unfold clean_ballots. destruct (clean_threshold deep_b guard (ballots st)); cbn [snd]; auto.
      - unfold clean_proposals. destruct (clean_threshold deep_p guard (points st)) as [h|]; cbn [snd]; auto.
        intros v. unfold get_proposal. cbn [props points].
        rewrite (get_filter_key fact_eqb fact_eqb_spec (fun x => negb (existsb (fun q : key * fact => fact_eqb (snd q) x)
          (filter (fun p0 : key * fact => fst (fst p0) <=? h) (points st))))).
        destruct (existsb _ _) eqn:X; cbn [negb]; [discriminate|]. intros P.
        pose proof (HJ v P) as G.
        rewrite (get_filter_key key_eqb key_eqb_spec (fun x => negb (fst x <=? h))).
        destruct (fst pk <=? h) eqn:L; cbn [negb]; auto. exfalso.
        assert (Hex : existsb (fun q : key * fact => fact_eqb (snd q) f)
                  (filter (fun p0 : key * fact => fst (fst p0) <=? h) (points st)) = true).
        { apply existsb_exists. exists (pk, f). split; [|cbn [snd]; apply (eqb_refl fact_eqb fact_eqb_spec)].
          apply filter_In. split; [now apply (get_in key_eqb key_eqb_spec)|exact L]. }
        congruence.
    Qed.

    Lemma J_run : forall ops, single ops -> J (run ops).
    Proof.
      intros ops; induction ops as [|o t IH] using rev_ind; intros Hs.
      - split; [apply PI_init|]. intros v H; discriminate.
      - unfold Model.run, Model.run_from. rewrite fold_left_app. cbn [fold_left]. apply J_apply.
        + apply IH. intros f' v' Hin Hp. apply (Hs f' v'); auto. apply in_or_app; auto.
        + intros f' v' -> Hp. apply (Hs f' v'); auto. apply in_or_app; right; left; reflexivity.
    Qed.

    Lemma by_point_single : forall ops v, single ops -> get_proposal f (run ops) = Some v ->
      by_point pk (run ops) = Some (f, v).
    Proof.
      intros ops v Hs P. destruct (J_run ops Hs) as [_ HJ]. unfold by_point. now rewrite (HJ v P), P.
    Qed.
  End Single.
End Reach.

Lemma clean_proposals_points_spec : forall deep guard st pk,
  0 <= deep <= guard ->
  get key_eqb pk (points (snd (clean_proposals deep guard st))) =
    if (guard <=? top_height (points st)) && (fst pk <=? top_height (points st) - deep)
    then None else get key_eqb pk (points st).
Proof.
  intros deep guard st pk Hd. unfold clean_proposals.
  destruct (clean_threshold deep guard (points st)) as [h|] eqn:T; cbn [snd points].
  - destruct (clean_threshold_some _ _ _ _ Hd T) as [-> Hg].
    rewrite (get_filter_key key_eqb key_eqb_spec (fun x => negb (fst x <=? top_height (points st) - deep))).
    replace (guard <=? top_height (points st)) with true by lia. cbn [andb].
    destruct (fst pk <=? top_height (points st) - deep); reflexivity.
  - unfold clean_threshold in T. destruct (points st) as [|x t] eqn:B; [now rewrite andb_comm; cbn; destruct (_ && _)|].
    destruct (top_height (x :: t) - guard <? 0) eqn:E; [|discriminate].
    replace (guard <=? top_height (x :: t)) with false by lia. reflexivity.
Qed.

Lemma clean_proposals_only_old : forall deep guard st f v,
  PI st -> 0 <= deep <= guard -> get_proposal f st = Some v ->
  get_proposal f (snd (clean_proposals deep guard st)) = Some v \/
  (get_proposal f (snd (clean_proposals deep guard st)) = None /\
   guard <= top_height (points st) /\ fst (fst f) <= top_height (points st) - deep).
Proof.
  intros deep guard st f v HPI Hd P. unfold clean_proposals.
  destruct (clean_threshold deep guard (points st)) as [h|] eqn:T; cbn [snd]; auto.
  destruct (clean_threshold_some _ _ _ _ Hd T) as [-> Hg].
  unfold get_proposal in *. cbn [props].
  rewrite (get_filter_key fact_eqb fact_eqb_spec (fun x => negb (existsb (fun q : key * fact => fact_eqb (snd q) x)
     (filter (fun p0 : key * fact => fst (fst p0) <=? top_height (points st) - deep) (points st))))).
  destruct (existsb _ _) eqn:X; cbn [negb]; auto.
  right. split; auto. split; auto.
  apply existsb_exists in X. destruct X as [[pk' f'] [Hg' E]]. cbn [snd] in E. apply fact_eqb_spec in E. subst f'.
  apply filter_In in Hg'. destruct Hg' as [Hin Hle]. cbn [fst] in Hle.
  destruct (HPI pk' f Hin) as [A _]. rewrite A. lia.
Qed.
