(* C24 -- all interleavings of concurrent SetBallot / SetProposal calls for one key (the mutex version). *)
From Coq Require Import ZArith NArith List Bool Lia.
From MV Require Import C24.Model.
Import ListNotations.

Lemma nth_set_same : forall l i t, (i < length l)%nat -> nth_error (set_thread i t l) i = Some t.
Proof.
  induction l as [|x r IH]; intros [|i] t H; cbn [length] in H; try lia; cbn [set_thread nth_error]; auto.
  apply IH. lia.
Qed.

Lemma nth_set_other : forall l i j t, i <> j -> nth_error (set_thread i t l) j = nth_error l j.
Proof.
  induction l as [|x r IH]; intros [|i] [|j] t H; cbn [set_thread nth_error]; auto; try congruence.
Qed.

Lemma nth_lt : forall {A} (l : list A) i x, nth_error l i = Some x -> (i < length l)%nat.
Proof. intros A l i x H. apply nth_error_Some. congruence. Qed.

(* what a thread sees of the other threads after thread i is replaced *)
Lemma nth_set_cases : forall l i j t u, nth_error l i <> None -> nth_error (set_thread i t l) j = Some u ->
  (j = i /\ u = t) \/ (j <> i /\ nth_error l j = Some u).
Proof.
  intros l i j t u Hi H. destruct (Nat.eq_dec i j) as [->|N].
  - left. rewrite nth_set_same in H; [inversion H; auto|]. apply nth_error_Some. exact Hi.
  - right. rewrite nth_set_other in H; auto.
Qed.

Section Locked.
  Variable store0 : option N.

  Record Inv (c : config) : Prop := mkInv {
    i_cs : forall i t, nth_error (c_threads c) i = Some t -> (t_pc t = 1 \/ t_pc t = 2)%nat -> c_lock c = Some i;
    i_put : forall i t, nth_error (c_threads c) i = Some t -> t_pc t = 2%nat -> c_store c = None;
    i_win : forall i t, nth_error (c_threads c) i = Some t -> t_ret t = Some true -> c_store c = Some (t_val t) /\ store0 = None;
    i_one : forall i j ti tj, nth_error (c_threads c) i = Some ti -> nth_error (c_threads c) j = Some tj ->
              t_ret ti = Some true -> t_ret tj = Some true -> i = j;
    i_store : c_store c = store0 \/ exists i t, nth_error (c_threads c) i = Some t /\ t_ret t = Some true /\ c_store c = Some (t_val t);
    i_done : forall i t, nth_error (c_threads c) i = Some t -> t_pc t = 3%nat ->
               t_ret t = Some true \/ (t_ret t = Some false /\ c_store c <> None);
    i_ret : forall i t, nth_error (c_threads c) i = Some t -> t_ret t <> None -> t_pc t = 3%nat;
    i_pc : forall i t, nth_error (c_threads c) i = Some t -> (t_pc t <= 3)%nat }.

  Lemma inv_start : forall vals, Inv (start store0 vals).
  Proof.
    intros vals. unfold start.
    assert (H : forall i t, nth_error (map (fun v => mkThread 0 v None) vals) i = Some t -> t_pc t = 0%nat /\ t_ret t = None).
    { intros i t Hn. apply nth_error_In, in_map_iff in Hn. destruct Hn as [v [<- _]]. auto. }
    constructor; cbn [c_threads c_lock c_store]; auto; intros.
    - destruct (H _ _ H0). lia.
    - destruct (H _ _ H0). lia.
    - destruct (H _ _ H0). congruence.
    - destruct (H _ _ H0). congruence.
    - destruct (H _ _ H0). lia.
    - destruct (H _ _ H0). congruence.
    - destruct (H _ _ H0). lia.
  Qed.

  Lemma inv_step : forall c i, Inv c -> Inv (step true c i).
  Proof.
    intros c i I. unfold step.
    destruct (nth_error (c_threads c) i) as [t|] eqn:Hi; auto.
    assert (Hne : nth_error (c_threads c) i <> None) by congruence.
    pose proof (i_cs _ I) as i_cs0. pose proof (i_put _ I) as i_put0. pose proof (i_win _ I) as i_win0.
    pose proof (i_one _ I) as i_one0. pose proof (i_store _ I) as i_store0. pose proof (i_done _ I) as i_done0.
    pose proof (i_ret _ I) as i_ret0. pose proof (i_pc _ I) as i_pc0.
    destruct (t_pc t) as [|[|[|p]]] eqn:Hpc; auto.
    - (* waiting for the lock *)
      destruct (c_lock c) as [h|] eqn:Hl; [exact I|].
      constructor; cbn [c_threads c_lock c_store].
      + intros j u Hj Hp. destruct (nth_set_cases _ _ _ _ _ Hne Hj) as [[-> ->]|[N Hj']]; auto.
        pose proof (i_cs0 _ _ Hj' Hp). congruence.
      + intros j u Hj Hp. destruct (nth_set_cases _ _ _ _ _ Hne Hj) as [[-> ->]|[N Hj']]; [cbn in Hp; lia|eauto].
      + intros j u Hj Hr. destruct (nth_set_cases _ _ _ _ _ Hne Hj) as [[-> ->]|[N Hj']]; [cbn in Hr; congruence|eauto].
      + intros j k uj uk Hj Hk Rj Rk.
        destruct (nth_set_cases _ _ _ _ _ Hne Hj) as [[-> ->]|[Nj Hj']]; [cbn in Rj; congruence|].
        destruct (nth_set_cases _ _ _ _ _ Hne Hk) as [[-> ->]|[Nk Hk']]; [cbn in Rk; congruence|eauto].
      + destruct i_store0 as [E|[j [u [Hj [Hr Hs]]]]]; [left; auto|right].
        exists j, u. split; auto. rewrite nth_set_other; auto. intros ->. rewrite Hi in Hj. inversion Hj; subst.
        pose proof (i_ret0 _ _ Hi ltac:(congruence)). lia.
      + intros j u Hj Hp. destruct (nth_set_cases _ _ _ _ _ Hne Hj) as [[-> ->]|[N Hj']]; [cbn in Hp; lia|eauto].
      + intros j u Hj Hr. destruct (nth_set_cases _ _ _ _ _ Hne Hj) as [[-> ->]|[N Hj']]; [cbn in Hr; congruence|eauto].
      + intros j u Hj. destruct (nth_set_cases _ _ _ _ _ Hne Hj) as [[-> ->]|[N Hj']]; [cbn; lia|eauto].
    - (* Exists *)
      pose proof (i_cs0 _ _ Hi ltac:(lia)) as Hlock.
      assert (Hothers : forall j u, j <> i -> nth_error (c_threads c) j = Some u -> ~ (t_pc u = 1 \/ t_pc u = 2)%nat).
      { intros j u N Hj Hp. pose proof (i_cs0 _ _ Hj Hp). congruence. }
      destruct (c_store c) as [sv|] eqn:Hs.
      + constructor; cbn [c_threads c_lock c_store].
        * intros j u Hj Hp. destruct (nth_set_cases _ _ _ _ _ Hne Hj) as [[-> ->]|[N Hj']]; [cbn in Hp; lia|].
          exfalso. eapply Hothers; eauto.
        * intros j u Hj Hp. destruct (nth_set_cases _ _ _ _ _ Hne Hj) as [[-> ->]|[N Hj']]; [cbn in Hp; lia|].
          exfalso. eapply Hothers; eauto.
        * intros j u Hj Hr. destruct (nth_set_cases _ _ _ _ _ Hne Hj) as [[-> ->]|[N Hj']]; [cbn in Hr; congruence|].
          eauto.
        * intros j k uj uk Hj Hk Rj Rk.
          destruct (nth_set_cases _ _ _ _ _ Hne Hj) as [[-> ->]|[Nj Hj']]; [cbn in Rj; congruence|].
          destruct (nth_set_cases _ _ _ _ _ Hne Hk) as [[-> ->]|[Nk Hk']]; [cbn in Rk; congruence|eauto].
        * destruct i_store0 as [E|[j [u [Hj [Hr Hs']]]]]; [left; congruence|right].
          exists j, u. split; [|split; auto; congruence]. rewrite nth_set_other; auto. intros ->. rewrite Hi in Hj. inversion Hj; subst.
          pose proof (i_ret0 _ _ Hi ltac:(congruence)). lia.
        * intros j u Hj Hp. destruct (nth_set_cases _ _ _ _ _ Hne Hj) as [[-> ->]|[N Hj']].
          -- right. cbn. split; auto. congruence.
          -- destruct (i_done0 _ _ Hj' Hp) as [R|[R S]]; [left; auto|right; split; auto; congruence].
        * intros j u Hj Hr. destruct (nth_set_cases _ _ _ _ _ Hne Hj) as [[-> ->]|[N Hj']]; [reflexivity|eauto].
        * intros j u Hj. destruct (nth_set_cases _ _ _ _ _ Hne Hj) as [[-> ->]|[N Hj']]; [cbn; lia|eauto].
      + constructor; cbn [c_threads c_lock c_store].
        * intros j u Hj Hp. destruct (nth_set_cases _ _ _ _ _ Hne Hj) as [[-> ->]|[N Hj']]; [exact Hlock|eauto].
        * intros j u Hj Hp. reflexivity.
        * intros j u Hj Hr. destruct (nth_set_cases _ _ _ _ _ Hne Hj) as [[-> ->]|[N Hj']]; [cbn in Hr; congruence|].
          destruct (i_win0 _ _ Hj' Hr). congruence.
        * intros j k uj uk Hj Hk Rj Rk.
          destruct (nth_set_cases _ _ _ _ _ Hne Hj) as [[-> ->]|[Nj Hj']]; [cbn in Rj; congruence|].
          destruct (nth_set_cases _ _ _ _ _ Hne Hk) as [[-> ->]|[Nk Hk']]; [cbn in Rk; congruence|eauto].
        * destruct i_store0 as [E|[j [u [Hj [Hr Hs']]]]]; [left; congruence|congruence].
        * intros j u Hj Hp. destruct (nth_set_cases _ _ _ _ _ Hne Hj) as [[-> ->]|[N Hj']]; [cbn in Hp; lia|].
          destruct (i_done0 _ _ Hj' Hp) as [R|[R S]]; [left; auto|congruence].
        * intros j u Hj Hr. destruct (nth_set_cases _ _ _ _ _ Hne Hj) as [[-> ->]|[N Hj']]; [cbn in Hr; congruence|eauto].
        * intros j u Hj. destruct (nth_set_cases _ _ _ _ _ Hne Hj) as [[-> ->]|[N Hj']]; [cbn; lia|eauto].
    - (* Put *)
      pose proof (i_cs0 _ _ Hi ltac:(lia)) as Hlock.
      pose proof (i_put0 _ _ Hi Hpc) as Hs.
      assert (Hothers : forall j u, j <> i -> nth_error (c_threads c) j = Some u -> ~ (t_pc u = 1 \/ t_pc u = 2)%nat).
      { intros j u N Hj Hp. pose proof (i_cs0 _ _ Hj Hp). congruence. }
      assert (Hnowin : forall j u, nth_error (c_threads c) j = Some u -> t_ret u <> Some true).
      { intros j u Hj Hr. destruct (i_win0 _ _ Hj Hr). congruence. }
      assert (Hs0 : store0 = None).
      { destruct i_store0 as [E|[j [u [Hj [Hr _]]]]]; [congruence|]. exfalso. eapply Hnowin; eauto. }
      constructor; cbn [c_threads c_lock c_store].
      + intros j u Hj Hp. destruct (nth_set_cases _ _ _ _ _ Hne Hj) as [[-> ->]|[N Hj']]; [cbn in Hp; lia|].
        exfalso. eapply Hothers; eauto.
      + intros j u Hj Hp. destruct (nth_set_cases _ _ _ _ _ Hne Hj) as [[-> ->]|[N Hj']]; [cbn in Hp; lia|].
        exfalso. eapply Hothers; eauto.
      + intros j u Hj Hr. destruct (nth_set_cases _ _ _ _ _ Hne Hj) as [[-> ->]|[N Hj']]; [cbn; auto|].
        exfalso. eapply Hnowin; eauto.
      + intros j k uj uk Hj Hk Rj Rk.
        destruct (nth_set_cases _ _ _ _ _ Hne Hj) as [[-> ->]|[Nj Hj']];
        destruct (nth_set_cases _ _ _ _ _ Hne Hk) as [[-> ->]|[Nk Hk']]; auto; exfalso; eapply Hnowin; eauto.
      + right. exists i, (mkThread 3 (t_val t) (Some true)). split; [|cbn; auto].
        apply nth_set_same. eapply nth_lt; eauto.
      + intros j u Hj Hp. destruct (nth_set_cases _ _ _ _ _ Hne Hj) as [[-> ->]|[N Hj']]; [left; reflexivity|].
        destruct (i_done0 _ _ Hj' Hp) as [R|[R S]]; [left; auto|right; split; auto; congruence].
      + intros j u Hj Hr. destruct (nth_set_cases _ _ _ _ _ Hne Hj) as [[-> ->]|[N Hj']]; [reflexivity|eauto].
      + intros j u Hj. destruct (nth_set_cases _ _ _ _ _ Hne Hj) as [[-> ->]|[N Hj']]; [cbn; lia|eauto].
  Qed.

  Lemma inv_run : forall sched c, Inv c -> Inv (run_sched true c sched).
  Proof. unfold run_sched. induction sched as [|i s IH]; intros c H; cbn [fold_left]; auto. apply IH. now apply inv_step. Qed.

  Lemma inv_reach : forall vals sched, Inv (run_sched true (start store0 vals) sched).
  Proof. intros; apply inv_run, inv_start. Qed.

  (* the stored value never changes once set *)
  Lemma store_stable_step : forall c i v, Inv c -> c_store c = Some v -> c_store (step true c i) = Some v.
  Proof.
    intros c i v I Hs. unfold step. destruct (nth_error (c_threads c) i) as [t|] eqn:Hi; auto.
    destruct (t_pc t) as [|[|[|p]]] eqn:Hpc; auto.
    - destruct (c_lock c); auto.
    - rewrite Hs. auto.
    - pose proof (i_put _ I _ _ Hi Hpc). congruence.
  Qed.

  Lemma store_stable : forall sched c v, Inv c -> c_store c = Some v -> c_store (run_sched true c sched) = Some v.
  Proof.
    unfold run_sched. induction sched as [|i s IH]; intros c v I Hs; cbn [fold_left]; auto.
    apply IH; [now apply inv_step|now apply store_stable_step].
  Qed.
End Locked.

Lemma run_sched_app : forall locked c s1 s2, run_sched locked c (s1 ++ s2) = run_sched locked (run_sched locked c s1) s2.
Proof. intros; unfold run_sched; apply fold_left_app. Qed.
