(* C05 -- lemmas about key/record ownership and release in the ballotbox model. *)
From Coq Require Import ZArith List Bool String Lia.
From MV Require Import C04.Model C05.Model.
From MV Require Gen.C05.
Import ListNotations.

Lemma prefixes_agree : pf_get pfx5 = pf_new pfx5 /\ pf_new pfx5 = pf_clean pfx5 /\ pf_new pfx5 <> EmptyString.
Proof. repeat split; try reflexivity. discriminate. Qed.
