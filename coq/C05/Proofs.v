(* C05 -- key/record ownership, isolation and release in the ballotbox model, instantiated with the key prefixes
   regenerated from the Go source (Gen/C05.v). *)
From Coq Require Import ZArith List Bool String Lia PeanoNat.
From MV Require Import C04.Model C04.PLib C04.POwn C05.Model.
From MV Require Gen.C05.
Import ListNotations.

(* the hypotheses of the ownership proofs, discharged on the generated constants: the prefix used by clean() is the
   prefix used by newVoterecords() (and by voterecords()), and it is not empty *)
Lemma prefixes_agree : pf_get pfx5 = pf_new pfx5 /\ pf_clean pfx5 = pf_new pfx5 /\ pf_new pfx5 <> EmptyString.
Proof. repeat split; try reflexivity. discriminate. Qed.

Definition Hnc5 : pf_clean pfx5 = pf_new pfx5 := proj1 (proj2 prefixes_agree).
Definition Hne5 : pf_new pfx5 <> EmptyString := proj2 (proj2 prefixes_agree).

Definition reach (e : env) (ops : list op) : box := fst (run pfx5 e box_init ops).

Lemma ownership e ops : Inv pfx5 (reach e ops).
Proof. apply inv_run; first [exact Hnc5 | exact Hne5 | apply inv_init]. Qed.

Lemma isolation e ops o k i :
  kget k (bx_vrs (reach e ops)) = Some i -> ~ about pfx5 o k i ->
  kept_or_released (reach e ops) (fst (step pfx5 e (reach e ops) o)) k i.
Proof. intros G NA. apply frame_step; auto; first [exact Hnc5 | exact Hne5 | apply ownership]. Qed.

(* Voted(p) is a function of the record under the key of p *)
Lemma voted_isolation e ops o p i :
  kget (mkkey (pf_get pfx5) false p) (bx_vrs (reach e ops)) = Some i ->
  ~ about pfx5 o (mkkey (pf_get pfx5) false p) i ->
  let b' := fst (step pfx5 e (reach e ops) o) in
  box_voted pfx5 p b' = box_voted pfx5 p (reach e ops) \/
  (box_voted pfx5 p b' = [] /\ exists l, bx_last b' = Some l /\ sp_lt p (lp_sp l) = true).
Proof.
  intros G NA. cbv zeta. destruct (isolation e ops o _ i G NA) as [[A B]|[A B]].
  - left. unfold box_voted. rewrite A, G. unfold rec_of in B. rewrite B. reflexivity.
  - right. split; auto. unfold box_voted. rewrite A. reflexivity.
Qed.

Lemma released e ops :
  let b := reach e ops in
  let b' := box_clean pfx5 b in
  Inv pfx5 b' /\
  (forall i, In i (bx_removed b) -> In i (bx_pool b')) /\
  match bx_last b with
  | None => bx_vrs b' = bx_vrs b /\ bx_removed b' = []
  | Some l =>
      (forall k i, In (k, i) (bx_vrs b') -> sp_lt (snd k) (lp_sp l) = false) /\
      (forall k i, In (k, i) (bx_vrs b) -> sp_lt (snd k) (lp_sp l) = true ->
                   In i (bx_removed b') /\ kget k (bx_vrs b') = None)
  end.
Proof.
  cbv zeta. destruct (inv_clean pfx5 Hnc5 (reach e ops) (ownership e ops)) as [I [_ [_ [_ [_ [P [_ M]]]]]]].
  split; auto. split; auto.
  destruct (bx_last (reach e ops)); auto. destruct M as [A [_ [B _]]]. auto.
Qed.

(* a record waiting in the pool is inert: counting it (through a stale pointer) emits nothing and changes no record *)
Lemma pooled_inert e b i el pv px :
  r_sp (rec_of b i) = None ->
  box_count pfx5 e i el pv px b = (b, []) /\
  snd (box_held e i el pv px b) = [] /\ (forall j, rec_of (fst (box_held e i el pv px b)) j = rec_of b j).
Proof.
  intros Z. unfold rec_of in Z. split; [|split].
  - unfold box_count. rewrite Z. reflexivity.
  - unfold box_held. destruct (negb (r_hold _)); auto. destruct (negb el); auto.
    unfold rec_count. rewrite Z. reflexivity.
  - intros j. unfold box_held. destruct (negb (r_hold _)); auto. destruct (negb el); auto.
    unfold rec_count. rewrite Z. cbn [fst]. rewrite rec_of_upd.
    destruct (Nat.eqb j i) eqn:E; auto. apply Nat.eqb_eq in E; subst. reflexivity.
Qed.

(* the prefix hypothesis is necessary: with clean() using another prefix ("sign-", the code before 1fd631b) a
   suffrage-confirm record is put into the pool while it is still stored under its key *)
Definition bad_pfx : prefixes := mkPfx "sf-" "sf-" "sign-".
Definition w_env : env := mkEnv 0 670 [].
Definition w_sp : spoint := mkSP 33 0 INIT.
Definition w_sf : signfact := mkSF 0 0 (mkFact 1 w_sp KSC [1%Z]).
Definition w_ops : list op :=
  [OVote (mkBallot w_sf None [] false) None; OSetLast (mkLP (mkSP 34 0 INIT) true false); OClean; OClean].

Lemma mismatch_witness :
  let b := fst (run bad_pfx w_env box_init w_ops) in
  In 0%nat (live b) /\ In 0%nat (bx_pool b) /\ r_sp (rec_of b 0%nat) = None.
Proof. vm_compute. repeat split; auto. Qed.

Lemma fixed_witness :
  let b := fst (run pfx5 w_env box_init w_ops) in live b = [] /\ bx_pool b = [0%nat].
Proof. vm_compute. split; reflexivity. Qed.
