(* C05 -- ballotbox isolation and release.  The model is C04's (one model of isaac/states/ballotbox.go);
   here only the instantiation with the key prefixes regenerated into Gen/C05.v and the check that compares the
   inspector data (keys, record identities, record stage points, removed, pool, Voted()) after every step. *)
From Coq Require Import ZArith List Bool String.
From MV Require Export C04.Model.
From MV Require Gen.C05.
Definition pfx5 : prefixes := pfx_of Gen.C05.bb_get_strings Gen.C05.bb_new_strings Gen.C05.bb_clean_strings.
Definition check (c : case) : bool := check_case true pfx5 c.
