(* C05 -- Ballotbox keeps stage points isolated and releases finished ones.  Property theorems only. *)
From Coq Require Import ZArith List Bool String.
From MV Require Import C04.Model C05.Model C05.Proofs.
Import ListNotations.

(* the three key prefixes of the Go source (voterecords, newVoterecords, clean) agree and are not empty *)
Theorem C05_prefixes_agree : pf_get pfx5 = pf_new pfx5 /\ pf_new pfx5 = pf_clean pfx5 /\ pf_new pfx5 <> EmptyString.
Proof. exact prefixes_agree. Qed.
