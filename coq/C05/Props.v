(* C05 -- Ballotbox keeps stage points isolated and releases finished ones.  Property theorems only.
   Model: C04/Model.v (isaac/states/ballotbox.go); the key prefixes are those of Gen/C05.v. *)
From Coq Require Import ZArith List Bool String.
From MV Require Import C04.Model C04.POwn C05.Model C05.Proofs.
Import ListNotations.

(* The three key prefixes of the Go source (voterecords, newVoterecords, clean) agree and are not empty.
   Every theorem below uses this; re-introducing the "sign-"/"sf-" mismatch breaks it. *)
Theorem C05_prefixes_agree : pf_get pfx5 = pf_new pfx5 /\ pf_clean pfx5 = pf_new pfx5 /\ pf_new pfx5 <> EmptyString.
Proof. exact prefixes_agree. Qed.

(* Ownership, after ANY sequence of atomic steps (every interleaving of Vote / count / countHolded / deferred forward /
   SetLastPoint / clean, any map iteration order, any behaviour of sync.Pool.Get): each key finds its own entry, no
   record object is under two keys, a record under a key has that key's stage point and suffrage-confirm flag,
   live / removed / pooled records are pairwise disjoint and without repetition, pooled records are zeroed. *)
Theorem C05_ownership : forall e ops, Inv pfx5 (reach e ops).
Proof. exact ownership. Qed.

(* Isolation: a step that is not about key k (a vote for another key, a count of another record object, SetLastPoint,
   clean, ...) leaves the record of k untouched, or releases it because the last point moved past it. *)
Theorem C05_isolation : forall e ops o k i,
  kget k (bx_vrs (reach e ops)) = Some i -> ~ about pfx5 o k i ->
  kept_or_released (reach e ops) (fst (step pfx5 e (reach e ops) o)) k i.
Proof. exact isolation. Qed.

(* ... hence what Voted(p) reports is not influenced by other stage points *)
Theorem C05_voted_isolation : forall e ops o p i,
  kget (mkkey (pf_get pfx5) false p) (bx_vrs (reach e ops)) = Some i ->
  ~ about pfx5 o (mkkey (pf_get pfx5) false p) i ->
  let b' := fst (step pfx5 e (reach e ops) o) in
  box_voted pfx5 p b' = box_voted pfx5 p (reach e ops) \/
  (box_voted pfx5 p b' = [] /\ exists l, bx_last b' = Some l /\ sp_lt p (lp_sp l) = true).
Proof. exact voted_isolation. Qed.

(* Release: after clean() in any reachable state no key below the last point is left (plain or suffrage confirm),
   every such record is in removed (once: Inv) and no longer found by its key, the records removed by the previous
   cycle are in the pool (once: Inv), and the invariant still holds. *)
Theorem C05_released_once : forall e ops,
  let b := reach e ops in
  let b' := box_clean pfx5 b in
  Inv pfx5 b' /\
  (forall i, In i (bx_removed b) -> In i (bx_pool b')) /\
  match bx_last b with
  | None => bx_vrs b' = bx_vrs b /\ bx_removed b' = []
  | Some l =>
      (forall k i, In (k, i) (bx_vrs b') -> sp_lt (snd k) (lp_sp l) = false) /\
      (forall k i, In (k, i) (bx_vrs b) -> sp_lt (snd k) (lp_sp l) = true ->
                   In i (bx_removed b') /\ kget k (bx_vrs b') = None)
  end.
Proof. exact released. Qed.

(* ... and a pooled record is not read again before newVoterecords re-initialises it *)
Theorem C05_pooled_inert : forall e b i el pv px,
  r_sp (rec_of b i) = None ->
  box_count pfx5 e i el pv px b = (b, []) /\
  snd (box_held e i el pv px b) = [] /\ (forall j, rec_of (fst (box_held e i el pv px b)) j = rec_of b j).
Proof. exact pooled_inert. Qed.

(* The defect fixed by 1fd631b, kept as a theorem about the model with the old prefixes: one suffrage-confirm vote,
   the last point moves on, two clean cycles => the record is in the pool while still stored under its key. *)
Theorem C05_prefix_mismatch_refuted :
  let b := fst (run bad_pfx w_env box_init w_ops) in
  In 0%nat (live b) /\ In 0%nat (bx_pool b) /\ r_sp (rec_of b 0%nat) = None.
Proof. exact mismatch_witness. Qed.

(* non-vacuity: the same history with the prefixes of the current source releases the record *)
Example C05_example :
  let b := fst (run pfx5 w_env box_init w_ops) in live b = [] /\ bx_pool b = [0%nat].
Proof. exact fixed_witness. Qed.

(* "Once the ballotbox has moved past a stage point, that point's records are no longer consulted": counting the
   record of a stage point p with last.Before(p) = false -- through countVoterecords (Count, MissingNodes, deferred
   goroutines, stale pointers) or through the hold timer (countHoldeds -> countHolded, which does NOT go through
   isNewBallot) -- emits no voteproof and changes no record, for every oracle value.  (seeded change C05-B) *)
Theorem C05_passed_not_consulted : forall e b i sp el pv px,
  r_sp (rec_of b i) = Some sp -> bx_last b <> None -> before (bx_last b) sp (r_isc (rec_of b i)) = false ->
  box_count pfx5 e i el pv px b = (b, []) /\
  snd (box_held e i el pv px b) = [] /\ (forall j, rec_of (fst (box_held e i el pv px b)) j = rec_of b j).
Proof.
  intros e b i sp el pv px S L B. split.
  - eapply count_passed; eauto.
  - eapply held_passed; eauto.
Qed.
