(* C33 -- job workers.  Transcribes util/worker.go: BaseJobWorker (NewBaseJobWorker, NewJob, Done,
   Cancel, Wait), NewErrCallbackJobWorker, runWorker, on top of golang.org/x/sync/semaphore.Weighted
   (v0.8.0: Acquire fails with ctx.Err() when ctx is done, also when it could acquire) and
   context.WithCancelCause (the first cancel fixes the cause; a child context inherits the cause of
   its parent when the parent is cancelled first).

   A worker is a state machine; the atomic steps are the calls of its API and the end of a job
   (callback returned -> ctxCancel(err) if it failed -> semaphore released).  A history is any list
   of such steps ([run]).  A step that is not possible in a state (ending a job that is not running,
   a second Wait) leaves the state unchanged, so *every* list is a history.  BatchWork itself is
   Common/Batch.v.   No proofs in this file. *)
From Coq Require Import List Arith Bool PeanoNat.
From MV Require Import Common.Batch Common.Cases.
Import ListNotations.

Inductive err : Type :=
| EJob (id : nat)     (* the error returned by job id *)
| ECanceled           (* context.Canceled: Cancel()/Close(), or the deferred Cancel of Wait *)
| EDone.              (* ErrJobWorkerDone *)

Inductive op : Type :=
| ONewJob                         (* a goroutine calls wk.NewJob(callback) *)
| OJobEnd (id : nat) (fail : bool) (* the callback of job id returns (nil / its error) *)
| ODone                           (* wk.Done() *)
| OCancel                         (* wk.Cancel() / wk.Close() *)
| OWait.                          (* a goroutine calls wk.Wait() *)

Inductive njres : Type := NJAccepted (id : nat) | NJRejected (e : err) | NJPending.

Record wstate : Type := {
  size : nat;                 (* semSize *)
  errcb : bool;               (* NewErrCallbackJobWorker: job errors go to errf, never cancel *)
  count : nat;                (* jobCount = number of accepted jobs; ids are 0 .. count-1 *)
  running : list nat;         (* accepted jobs whose goroutine has not released the semaphore *)
  finished : list nat;
  runs : list nat;            (* one entry per invocation of a job callback *)
  errfs : list nat;           (* errf calls (ErrCallback worker) *)
  cause : option err;         (* context.Cause(ectx) *)
  ncause : option err;        (* context.Cause(newJobCtx) *)
  pending : bool;             (* one NewJob call blocked in sem.Acquire(newJobCtx, 1) *)
  waiting : bool;             (* Wait called, not returned *)
  wret : option (option err * list nat)   (* Wait returned: (error, jobs still running then) *)
}.

Definition init (sz : nat) (ecb : bool) : wstate :=
  {| size := sz; errcb := ecb; count := 0; running := []; finished := []; runs := []; errfs := [];
     cause := None; ncause := None; pending := false; waiting := false; wret := None |}.

Definition first {A} (a : option A) (b : A) : option A := match a with Some x => Some x | None => Some b end.

Definition set_cause (s : wstate) (e : err) : wstate :=
  {| size := size s; errcb := errcb s; count := count s; running := running s; finished := finished s;
     runs := runs s; errfs := errfs s;
     cause := first (cause s) e; ncause := first (ncause s) e;
     pending := pending s; waiting := waiting s; wret := wret s |}.

Definition set_done (s : wstate) : wstate :=
  {| size := size s; errcb := errcb s; count := count s; running := running s; finished := finished s;
     runs := runs s; errfs := errfs s;
     cause := cause s; ncause := first (ncause s) EDone;
     pending := pending s; waiting := waiting s; wret := wret s |}.

(* accept one job: acquire 1, id = jobCount, start the goroutine which invokes the callback *)
Definition accept (s : wstate) : wstate :=
  {| size := size s; errcb := errcb s; count := S (count s); running := running s ++ [count s];
     finished := finished s; runs := runs s ++ [count s]; errfs := errfs s;
     cause := cause s; ncause := ncause s;
     pending := false; waiting := waiting s; wret := wret s |}.

Definition set_pending (s : wstate) (b : bool) : wstate :=
  {| size := size s; errcb := errcb s; count := count s; running := running s; finished := finished s;
     runs := runs s; errfs := errfs s; cause := cause s; ncause := ncause s;
     pending := b; waiting := waiting s; wret := wret s |}.

Definition remove_id (id : nat) (l : list nat) : list nat := filter (fun x => negb (Nat.eqb x id)) l.

Definition end_job (s : wstate) (id : nat) (fail : bool) : wstate :=
  {| size := size s; errcb := errcb s; count := count s; running := remove_id id (running s);
     finished := finished s ++ [id]; runs := runs s;
     errfs := if fail && errcb s then errfs s ++ [id] else errfs s;
     cause := cause s; ncause := ncause s;
     pending := pending s; waiting := waiting s; wret := wret s |}.

(* a blocked NewJob call: fails as soon as newJobCtx is done (with the cause: the fix: commit), is
   accepted as soon as there is room *)
Definition settle_pending (s : wstate) : wstate * option njres :=
  if pending s then
    match ncause s with
    | Some e => (set_pending s false, Some (NJRejected e))
    | None => if length (running s) <? size s then (accept s, Some (NJAccepted (count s))) else (s, None)
    end
  else (s, None).

(* a blocked Wait call: `<-newJobCtx.Done()`, then sem.Acquire(ctx, semSize) fails at once when a
   cause is set (returning it) -- although jobs may still be running -- and succeeds when nothing is
   running; `defer wk.Cancel()` *)
Definition settle_wait (s : wstate) : wstate :=
  if waiting s then
    match ncause s with
    | None => s
    | Some _ =>
        let ret (r : option err) :=
          let s' := set_cause s ECanceled in
          {| size := size s'; errcb := errcb s'; count := count s'; running := running s';
             finished := finished s'; runs := runs s'; errfs := errfs s'; cause := cause s'; ncause := ncause s';
             pending := pending s'; waiting := false; wret := Some (r, running s) |} in
        match cause s with
        | Some e => ret (Some e)
        | None => match running s with [] => ret None | _ => s end
        end
    end
  else s.

Definition settle (s : wstate) : wstate * option njres :=
  let '(s1, r) := settle_pending s in (settle_wait s1, r).

(* one step; second component: immediate result of a NewJob call; third: resolution of a pending one *)
Definition step (s : wstate) (o : op) : wstate * option njres * option njres :=
  match o with
  | ONewJob =>
      if pending s then (s, None, None)   (* the harness issues one NewJob at a time *)
      else
        match ncause s with
        | Some e => (s, Some (NJRejected e), None)
        | None =>
            if length (running s) <? size s then (accept s, Some (NJAccepted (count s)), None)
            else (set_pending s true, Some NJPending, None)
        end
  | OJobEnd id fail =>
      if existsb (Nat.eqb id) (running s) then
        let s1 := if fail && negb (errcb s) then set_cause s (EJob id) else s in
        let '(s2, r) := settle (end_job s1 id fail) in (s2, None, r)
      else (s, None, None)
  | ODone => let '(s2, r) := settle (set_done s) in (s2, None, r)
  | OCancel => let '(s2, r) := settle (set_cause s ECanceled) in (s2, None, r)
  | OWait =>
      match wret s with
      | Some _ => (s, None, None)
      | None =>
          if waiting s then (s, None, None)
          else
            let s1 := {| size := size s; errcb := errcb s; count := count s; running := running s;
                         finished := finished s; runs := runs s; errfs := errfs s; cause := cause s;
                         ncause := ncause s; pending := pending s; waiting := true; wret := wret s |} in
            let '(s2, r) := settle s1 in (s2, None, r)
      end
  end.

Definition step_st (s : wstate) (o : op) : wstate := fst (fst (step s o)).

Definition run (sz : nat) (ecb : bool) (ops : list op) : wstate := fold_left step_st ops (init sz ecb).

(* ---------------------------------------------------------------- BatchWork trace *)

Inductive bev : Type := BPref (last : nat) | BJob (i last : nat).

Definition trace_pref (last : nat) (t : list bev) : res (list bev) unit := Ok (t ++ [BPref last]).
Definition trace_job (i last : nat) (t : list bev) : res (list bev) unit := Ok (t ++ [BJob i last]).
Definition batch_trace (size limit : nat) (orders : list (list nat)) : res (list bev) unit :=
  batch_work trace_pref trace_job tt size limit orders [].

(* ---------------------------------------------------------------- correspondence *)

Definition err_code (e : err) : nat :=
  match e with ECanceled => 1 | EDone => 2 | EJob id => 10 + id end.

Definition nj_code (r : option njres) : nat :=
  match r with
  | None => 0
  | Some (NJAccepted _) => 1
  | Some NJPending => 2
  | Some (NJRejected e) => 3 + err_code e
  end.

Definition wait_code (s : wstate) : nat :=
  match wret s with
  | Some (None, _) => 2
  | Some (Some e, _) => 3 + err_code e
  | None => if waiting s then 1 else 0
  end.

(* observations after each op: (immediate NewJob result, resolution of the pending NewJob, Wait status) *)
Fixpoint observe (s : wstate) (ops : list op) : list (nat * nat * nat) * wstate :=
  match ops with
  | [] => ([], s)
  | o :: r =>
      let '(s1, r1, r2) := step s o in
      let '(l, sf) := observe s1 r in
      ((nj_code r1, nj_code r2, wait_code s1) :: l, sf)
  end.

Definition mk_op (c : nat * nat * bool) : op :=
  let '(k, id, f) := c in
  match k with
  | 0 => ONewJob | 1 => OJobEnd id f | 2 => ODone | 3 => OCancel | _ => OWait
  end.

(* case: (semSize, errcallback worker?, ops, observed per-op codes, observed invocation count per job id,
          observed errf calls sorted) *)
Definition case : Type :=
  (nat * bool * list (nat * nat * bool) * list (nat * nat * nat) * list nat * list nat)%type.

Definition eqb3 (a b : nat * nat * nat) : bool :=
  let '(a1, a2, a3) := a in let '(b1, b2, b3) := b in Nat.eqb a1 b1 && Nat.eqb a2 b2 && Nat.eqb a3 b3.

Definition check (c : case) : bool :=
  let '(sz, ecb, ops, obs, invs, oerrfs) := c in
  let '(l, sf) := observe (init sz ecb) (map mk_op ops) in
  list_eqb eqb3 l obs &&
  list_eqb Nat.eqb (map (fun id => count_occ Nat.eq_dec (runs sf) id) (seq 0 (count sf))) invs &&
  Nat.eqb (length invs) (count sf) &&
  list_eqb Nat.eqb (errfs sf) oerrfs.

(* BatchWork trace observed on the real code (sequential view: the job events between two pref calls
   sorted by index): (0, last, 0) = pref(last); (1, i, last) = f(i, last) *)
Definition bev_code (e : bev) : nat * nat * nat :=
  match e with BPref l => (0, l, 0) | BJob i l => (1, i, l) end.

Inductive xcase : Type :=
| XSched (c : case)
| XTrace (size limit : nat) (ok : bool) (t : list (nat * nat * nat)).

Definition check_x (x : xcase) : bool :=
  match x with
  | XSched c => check c
  | XTrace size limit ok t =>
      match batch_trace size limit (in_order (batches size limit)) with
      | Ok m => ok && list_eqb eqb3 (map bev_code m) t
      | Err _ => negb ok
      end
  end.
