(* C33 -- lemmas: invariants of the worker state machine over every history. *)
From Coq Require Import List Arith Bool PeanoNat Lia Permutation.
From MV Require Import Common.Batch C33.Model.
Import ListNotations.

(* ------------------------------------------------------------------ run as snoc *)

Lemma run_snoc : forall sz ecb ops o, run sz ecb (ops ++ [o]) = step_st (run sz ecb ops) o.
Proof. intros. unfold run. rewrite fold_left_app. reflexivity. Qed.

Lemma run_app : forall sz ecb ops ops',
  run sz ecb (ops ++ ops') = fold_left step_st ops' (run sz ecb ops).
Proof. intros. unfold run. rewrite fold_left_app. reflexivity. Qed.

(* ------------------------------------------------------------------ the job fields are touched only by accept / end_job *)

Definition jobs_eq (s s' : wstate) : Prop :=
  count s' = count s /\ running s' = running s /\ finished s' = finished s /\ runs s' = runs s /\
  size s' = size s /\ errcb s' = errcb s.

Lemma jobs_eq_refl : forall s, jobs_eq s s.
Proof. intros. repeat split. Qed.

Lemma jobs_eq_trans : forall a b c, jobs_eq a b -> jobs_eq b c -> jobs_eq a c.
Proof. unfold jobs_eq. intros a b c H1 H2. intuition congruence. Qed.

Lemma settle_wait_jobs : forall s, jobs_eq s (settle_wait s).
Proof.
  intros s. unfold settle_wait. destruct (waiting s); [|apply jobs_eq_refl].
  destruct (ncause s); [|apply jobs_eq_refl].
  destruct (cause s); [repeat split|]. destruct (running s); [repeat split|apply jobs_eq_refl].
Qed.

(* invariant 1: ids.  every accepted job is invoked exactly once, and is either running or finished *)
Definition inv_jobs (s : wstate) : Prop :=
  runs s = seq 0 (count s) /\ Permutation (running s ++ finished s) (seq 0 (count s)).

Lemma inv_jobs_eq : forall s s', jobs_eq s s' -> inv_jobs s -> inv_jobs s'.
Proof. unfold jobs_eq, inv_jobs. intros s s' H [H1 H2]. destruct H as [-> [-> [-> [-> _]]]]. auto. Qed.

Lemma inv_jobs_accept : forall s, inv_jobs s -> inv_jobs (accept s).
Proof.
  intros s [H1 H2]. unfold inv_jobs, accept. cbn [runs count running finished]. split.
  - rewrite H1, seq_S. reflexivity.
  - rewrite seq_S. cbn [Nat.add].
    rewrite <- app_assoc. eapply Permutation_trans; [apply Permutation_app_head, Permutation_app_comm|].
    rewrite app_assoc. apply Permutation_app_tail. assumption.
Qed.

Lemma remove_id_perm : forall id l, NoDup l -> In id l -> Permutation l (id :: remove_id id l).
Proof.
  intros id l. induction l as [|x l IH]; intros Hnd Hin; [destruct Hin|].
  inversion Hnd as [|y z Hx Hnd']; subst. cbn [remove_id filter].
  destruct (Nat.eqb_spec x id) as [->|Hne]; cbn [negb].
  - apply perm_skip. fold (remove_id id l).
    assert (Hr : remove_id id l = l).
    { unfold remove_id. clear IH Hnd Hnd' Hin. induction l as [|y l IH]; [reflexivity|].
      cbn [filter]. destruct (Nat.eqb_spec y id) as [->|]; cbn [negb].
      - exfalso. apply Hx. left. reflexivity.
      - f_equal. apply IH. intros H. apply Hx. right. assumption. }
    rewrite Hr. apply Permutation_refl.
  - destruct Hin as [Hin|Hin]; [congruence|]. fold (remove_id id l).
    eapply Permutation_trans; [apply perm_skip, IH; assumption|]. apply perm_swap.
Qed.

Lemma nodup_app_l : forall (l l' : list nat), NoDup (l ++ l') -> NoDup l.
Proof.
  induction l as [|x l IH]; intros l' H; [constructor|].
  inversion H as [|y z Hx Hnd]; subst. constructor.
  - intros Hin. apply Hx. apply in_or_app. left. assumption.
  - eapply IH. eassumption.
Qed.

Lemma inv_jobs_end : forall s id f, inv_jobs s -> In id (running s) -> inv_jobs (end_job s id f).
Proof.
  intros s id f [H1 H2] Hin. unfold inv_jobs, end_job. cbn [runs count running finished].
  split; [assumption|].
  assert (Hnd : NoDup (running s)).
  { assert (Hnd' : NoDup (running s ++ finished s)).
    { eapply Permutation_NoDup; [apply Permutation_sym; eassumption|apply seq_NoDup]. }
    apply nodup_app_l in Hnd'. assumption. }
  eapply Permutation_trans; [|exact H2].
  rewrite app_assoc.
  eapply Permutation_trans; [apply Permutation_app_comm|]. cbn [app].
  change (id :: remove_id id (running s) ++ finished s) with ((id :: remove_id id (running s)) ++ finished s).
  apply Permutation_app_tail. apply Permutation_sym. apply remove_id_perm; assumption.
Qed.

Lemma settle_pending_inv : forall s, inv_jobs s -> inv_jobs (fst (settle_pending s)).
Proof.
  intros s H. unfold settle_pending. destruct (pending s); [|assumption].
  destruct (ncause s); cbn [fst].
  - eapply inv_jobs_eq; [|eassumption]. repeat split.
  - destruct (length (running s) <? size s); cbn [fst]; [apply inv_jobs_accept|]; assumption.
Qed.

Lemma settle_inv : forall s, inv_jobs s -> inv_jobs (fst (settle s)).
Proof.
  intros s H. unfold settle. pose proof (settle_pending_inv s H) as Hp.
  destruct (settle_pending s) as [s1 r]. cbn [fst] in *.
  eapply inv_jobs_eq; [apply settle_wait_jobs|assumption].
Qed.

Lemma existsb_eqb_In : forall id l, existsb (Nat.eqb id) l = true -> In id l.
Proof.
  intros id l H. apply existsb_exists in H. destruct H as [x [Hx He]]. apply Nat.eqb_eq in He. subst. assumption.
Qed.

Lemma step_inv_jobs : forall s o, inv_jobs s -> inv_jobs (step_st s o).
Proof.
  intros s o H. unfold step_st, step. destruct o as [|id f| | |].
  - destruct (pending s); [assumption|]. destruct (ncause s); [assumption|].
    destruct (length (running s) <? size s); cbn [fst].
    + apply inv_jobs_accept. assumption.
    + eapply inv_jobs_eq; [|eassumption]. repeat split.
  - destruct (existsb (Nat.eqb id) (running s)) eqn:E; [|assumption].
    apply existsb_eqb_In in E.
    set (s1 := if f && negb (errcb s) then set_cause s (EJob id) else s).
    assert (H1 : inv_jobs s1 /\ running s1 = running s).
    { unfold s1. destruct (f && negb (errcb s)); [|auto]. split; [|reflexivity].
      eapply inv_jobs_eq; [|eassumption]. repeat split. }
    destruct H1 as [H1 Hr].
    pose proof (settle_inv (end_job s1 id f) (inv_jobs_end s1 id f H1 ltac:(rewrite Hr; assumption))) as Hs.
    destruct (settle (end_job s1 id f)) as [s2 r]. assumption.
  - pose proof (settle_inv (set_done s) ltac:(eapply inv_jobs_eq; [|eassumption]; repeat split)) as Hs.
    destruct (settle (set_done s)) as [s2 r]. assumption.
  - pose proof (settle_inv (set_cause s ECanceled) ltac:(eapply inv_jobs_eq; [|eassumption]; repeat split)) as Hs.
    destruct (settle (set_cause s ECanceled)) as [s2 r]. assumption.
  - destruct (wret s); [assumption|]. destruct (waiting s); [assumption|].
    match goal with |- context [settle ?x] => pose proof (settle_inv x ltac:(eapply inv_jobs_eq; [|eassumption]; repeat split)) as Hs;
      destruct (settle x) as [s2 r] end. assumption.
Qed.

Theorem each_once : forall sz ecb ops,
  inv_jobs (run sz ecb ops).
Proof.
  intros sz ecb ops. induction ops as [|o ops IH] using rev_ind.
  - split; reflexivity.
  - rewrite run_snoc. apply step_inv_jobs. assumption.
Qed.

(* ------------------------------------------------------------------ causes *)

(* invariant 2: a cause on ectx is a cause on newJobCtx; a nil return of Wait means nothing runs and
   nothing can be accepted any more; an error return of Wait is the recorded cause *)
Definition inv_cause (s : wstate) : Prop :=
  (cause s <> None -> ncause s <> None) /\
  (waiting s = true -> wret s = None) /\
  (forall r, wret s = Some (None, r) -> r = [] /\ running s = [] /\ ncause s <> None) /\
  (forall e r, wret s = Some (Some e, r) -> cause s = Some e).

Lemma first_some : forall {A} (a : option A) b, first a b <> None.
Proof. intros A [x|] b; cbn; discriminate. Qed.

Lemma first_keep : forall {A} (a : option A) b x, a = Some x -> first a b = Some x.
Proof. intros A a b x ->. reflexivity. Qed.

(* what a step does to the causes and to the job fields, when newJobCtx is already done *)
Lemma settle_pending_ncause : forall s, ncause s <> None ->
  jobs_eq s (fst (settle_pending s)) /\ cause (fst (settle_pending s)) = cause s /\
  ncause (fst (settle_pending s)) = ncause s /\ wret (fst (settle_pending s)) = wret s /\
  waiting (fst (settle_pending s)) = waiting s.
Proof.
  intros s H. unfold settle_pending. destruct (pending s); [|repeat split].
  destruct (ncause s) eqn:E; [|congruence]. cbn. repeat split; auto.
Qed.

Lemma cause_mono_step : forall s o e, cause s = Some e -> cause (step_st s o) = Some e.
Proof.
  assert (Hsw : forall s e, cause s = Some e -> cause (settle_wait s) = Some e).
  { intros s e H. unfold settle_wait. destruct (waiting s); [|assumption].
    destruct (ncause s); [|assumption]. rewrite H. cbn. rewrite H. reflexivity. }
  assert (Hsp : forall s e, cause s = Some e -> cause (fst (settle_pending s)) = Some e).
  { intros s e H. unfold settle_pending. destruct (pending s); [|assumption].
    destruct (ncause s); [assumption|]. destruct (length (running s) <? size s); assumption. }
  assert (Hs : forall s e, cause s = Some e -> cause (fst (settle s)) = Some e).
  { intros s e H. unfold settle. pose proof (Hsp s e H). destruct (settle_pending s) as [s1 r]. cbn [fst] in *.
    apply Hsw. assumption. }
  intros s o e H. unfold step_st, step. destruct o as [|id f| | |].
  - destruct (pending s); [assumption|]. destruct (ncause s); [assumption|].
    destruct (length (running s) <? size s); assumption.
  - destruct (existsb (Nat.eqb id) (running s)); [|assumption].
    match goal with |- context [settle ?x] => pose proof (Hs x e) as Hx; destruct (settle x) as [s2 r] end.
    apply Hx. destruct (f && negb (errcb s)); cbn; rewrite H; reflexivity.
  - pose proof (Hs (set_done s) e H) as Hx. destruct (settle (set_done s)) as [s2 r]. assumption.
  - pose proof (Hs (set_cause s ECanceled) e ltac:(cbn; rewrite H; reflexivity)) as Hx.
    destruct (settle (set_cause s ECanceled)) as [s2 r]. assumption.
  - destruct (wret s); [assumption|]. destruct (waiting s); [assumption|].
    match goal with |- context [settle ?x] => pose proof (Hs x e H) as Hx; destruct (settle x) as [s2 r] end.
    assumption.
Qed.

Theorem cause_stable : forall sz ecb ops ops' e,
  cause (run sz ecb ops) = Some e -> cause (run sz ecb (ops ++ ops')) = Some e.
Proof.
  intros sz ecb ops ops' e H. rewrite run_app. revert H. generalize (run sz ecb ops).
  induction ops' as [|o r IH]; intros s H; [assumption|]. cbn [fold_left]. apply IH.
  apply cause_mono_step. assumption.
Qed.

(* once newJobCtx is done, no job is accepted by any step, and it stays done *)
Lemma step_ncause : forall s o, ncause s <> None ->
  ncause (step_st s o) <> None /\ count (step_st s o) = count s /\
  (running s = [] -> running (step_st s o) = []).
Proof.
  assert (Hsw : forall s, ncause s <> None -> ncause (settle_wait s) <> None).
  { intros s H. unfold settle_wait. destruct (waiting s); [|assumption].
    destruct (ncause s) eqn:E; [|congruence].
    destruct (cause s); [cbn; rewrite E; discriminate|].
    destruct (running s); [cbn; rewrite E; discriminate|congruence]. }
  assert (Hs : forall s, ncause s <> None ->
            ncause (fst (settle s)) <> None /\ count (fst (settle s)) = count s /\ running (fst (settle s)) = running s).
  { intros s H. unfold settle. destruct (settle_pending_ncause s H) as [Hj [_ [Hn _]]].
    destruct (settle_pending s) as [s1 r]. cbn [fst] in *.
    destruct (settle_wait_jobs s1) as [Hc [Hr _]]. destruct Hj as [Hc' [Hr' _]].
    split; [apply Hsw; congruence|]. split; congruence. }
  intros s o H. unfold step_st, step. destruct o as [|id f| | |].
  - destruct (pending s); [auto|]. destruct (ncause s) eqn:E; [|congruence].
    cbn [fst]. repeat split; auto; congruence.
  - destruct (existsb (Nat.eqb id) (running s)) eqn:E; [|auto].
    match goal with |- context [settle ?x] => destruct (Hs x) as [H1 [H2 H3]]; [|destruct (settle x) as [s2 r]] end.
    { destruct (f && negb (errcb s)); cbn; [apply first_some|assumption]. }
    cbn [fst] in *. split; [assumption|]. split.
    + rewrite H2. destruct (f && negb (errcb s)); reflexivity.
    + intros Hr. rewrite Hr in E. discriminate.
  - destruct (Hs (set_done s)) as [H1 [H2 H3]]; [cbn; apply first_some|].
    destruct (settle (set_done s)) as [s2 r]. cbn [fst] in *. split; [assumption|]. split; [assumption|].
    intros Hr. rewrite H3. assumption.
  - destruct (Hs (set_cause s ECanceled)) as [H1 [H2 H3]]; [cbn; apply first_some|].
    destruct (settle (set_cause s ECanceled)) as [s2 r]. cbn [fst] in *. split; [assumption|]. split; [assumption|].
    intros Hr. rewrite H3. assumption.
  - destruct (wret s); [auto|]. destruct (waiting s); [auto|].
    match goal with |- context [settle ?x] => destruct (Hs x) as [H1 [H2 H3]]; [assumption|destruct (settle x) as [s2 r]] end.
    cbn [fst] in *. split; [assumption|]. split; [assumption|]. intros Hr. rewrite H3. assumption.
Qed.

(* ------------------------------------------------------------------ invariant 2 is preserved by every step *)

Lemma remove_id_nil : forall id, remove_id id [] = [].
Proof. reflexivity. Qed.

Ltac inv_fin :=
  unfold inv_cause in *; cbn in *;
  try (match goal with E : cause _ = _ |- _ => try rewrite E in *; generalize E; clear E end);
  try (match goal with E : ncause _ = _ |- _ => try rewrite E in *; generalize E; clear E end);
  try (match goal with E : waiting _ = _ |- _ => try rewrite E in *; generalize E; clear E end);
  try (match goal with E : wret _ = _ |- _ => try rewrite E in *; generalize E; clear E end);
  intros; cbn in *;
  repeat match goal with H : _ /\ _ |- _ => destruct H end;
  repeat split; intros;
  repeat match goal with
         | H : Some _ = Some _ |- _ => inversion H; subst; clear H
         | H : (_, _) = (_, _) |- _ => inversion H; subst; clear H
         end;
  try congruence; try discriminate;
  try (match goal with H : forall r, Some (None, ?x) = Some (None, r) -> _ |- _ =>
         destruct (H x eq_refl) as [? [? ?]] end; try congruence; try discriminate; auto);
  try (match goal with H : forall e r, Some (Some ?y, ?x) = Some (Some e, r) -> _ |- _ =>
         pose proof (H y x eq_refl) end; try congruence; try discriminate; auto);
  try (match goal with H : true = true -> _ |- _ => specialize (H eq_refl) end; try congruence; try discriminate);
  auto.

Lemma settle_wait_inv : forall s, inv_cause s -> inv_cause (settle_wait s).
Proof.
  intros s H. unfold settle_wait.
  destruct (waiting s) eqn:W; [|assumption].
  destruct (ncause s) eqn:N; [|assumption].
  destruct (cause s) eqn:C.
  - destruct (wret s) as [[[ew|] rw]|] eqn:Wr; inv_fin.
  - destruct (running s) eqn:R; [|assumption].
    destruct (wret s) as [[[ew|] rw]|] eqn:Wr; inv_fin.
Qed.

Lemma settle_pending_inv_cause : forall s, inv_cause s -> inv_cause (fst (settle_pending s)).
Proof.
  intros s H. unfold settle_pending. destruct (pending s); [|assumption].
  destruct (ncause s) eqn:N; cbn [fst].
  - destruct (cause s) eqn:C; destruct (waiting s) eqn:W; destruct (wret s) as [[[ew|] rw]|] eqn:Wr; inv_fin.
  - destruct (length (running s) <? size s); cbn [fst]; [|assumption].
    destruct (cause s) eqn:C; destruct (waiting s) eqn:W; destruct (wret s) as [[[ew|] rw]|] eqn:Wr; inv_fin.
Qed.

Lemma settle_inv_cause : forall s, inv_cause s -> inv_cause (fst (settle s)).
Proof.
  intros s H. unfold settle. pose proof (settle_pending_inv_cause s H) as Hp.
  destruct (settle_pending s) as [s1 r]. cbn [fst] in *. apply settle_wait_inv. assumption.
Qed.

Lemma set_cause_inv : forall s e, inv_cause s -> inv_cause (set_cause s e).
Proof.
  intros s e H.
  destruct (cause s) eqn:C; destruct (ncause s) eqn:N; destruct (waiting s) eqn:W;
    destruct (wret s) as [[[ew|] rw]|] eqn:Wr; inv_fin.
Qed.

Lemma set_done_inv : forall s, inv_cause s -> inv_cause (set_done s).
Proof.
  intros s H.
  destruct (cause s) eqn:C; destruct (ncause s) eqn:N; destruct (waiting s) eqn:W;
    destruct (wret s) as [[[ew|] rw]|] eqn:Wr; inv_fin.
Qed.

Lemma end_job_inv : forall s id f, inv_cause s -> inv_cause (end_job s id f).
Proof.
  intros s id f H.
  destruct (cause s) eqn:C; destruct (ncause s) eqn:N; destruct (waiting s) eqn:W;
    destruct (wret s) as [[[ew|] rw]|] eqn:Wr; inv_fin;
    match goal with Hr : running s = [] |- _ => rewrite Hr; reflexivity end.
Qed.

Lemma step_inv_cause : forall s o, inv_cause s -> inv_cause (step_st s o).
Proof.
  intros s o H. unfold step_st, step. destruct o as [|id f| | |].
  - destruct (pending s); [assumption|]. destruct (ncause s) eqn:N; [assumption|].
    destruct (length (running s) <? size s); cbn [fst].
    + destruct (cause s) eqn:C; destruct (waiting s) eqn:W; destruct (wret s) as [[[ew|] rw]|] eqn:Wr; inv_fin.
    + destruct (cause s) eqn:C; destruct (waiting s) eqn:W; destruct (wret s) as [[[ew|] rw]|] eqn:Wr; inv_fin.
  - destruct (existsb (Nat.eqb id) (running s)); [|assumption].
    match goal with |- context [settle ?x] => pose proof (settle_inv_cause x) as Hx; destruct (settle x) as [s2 r] end.
    apply Hx. apply end_job_inv. destruct (f && negb (errcb s)); [apply set_cause_inv|]; assumption.
  - pose proof (settle_inv_cause (set_done s) (set_done_inv s H)) as Hx.
    destruct (settle (set_done s)) as [s2 r]. assumption.
  - pose proof (settle_inv_cause (set_cause s ECanceled) (set_cause_inv s _ H)) as Hx.
    destruct (settle (set_cause s ECanceled)) as [s2 r]. assumption.
  - destruct (wret s) eqn:Wr; [assumption|]. destruct (waiting s) eqn:W; [assumption|].
    match goal with |- context [settle ?x] => pose proof (settle_inv_cause x) as Hx; destruct (settle x) as [s2 r] end.
    apply Hx. destruct (cause s) eqn:C; destruct (ncause s) eqn:N; inv_fin.
Qed.

Theorem inv_cause_run : forall sz ecb ops, inv_cause (run sz ecb ops).
Proof.
  intros sz ecb ops. induction ops as [|o ops IH] using rev_ind.
  - unfold inv_cause. cbn. repeat split; intros; congruence.
  - rewrite run_snoc. apply step_inv_cause. assumption.
Qed.

Theorem cause_ncause : forall sz ecb ops,
  cause (run sz ecb ops) <> None -> ncause (run sz ecb ops) <> None.
Proof. intros sz ecb ops. apply (inv_cause_run sz ecb ops). Qed.

(* Wait returned nil: nothing was running then, nothing runs now, and every accepted job has finished;
   no later step accepts a job *)
Theorem wait_nil_all_done : forall sz ecb ops r,
  wret (run sz ecb ops) = Some (None, r) ->
  r = [] /\ running (run sz ecb ops) = [] /\
  Permutation (finished (run sz ecb ops)) (seq 0 (count (run sz ecb ops))) /\
  runs (run sz ecb ops) = seq 0 (count (run sz ecb ops)) /\
  forall ops', count (run sz ecb (ops ++ ops')) = count (run sz ecb ops) /\
               running (run sz ecb (ops ++ ops')) = [].
Proof.
  intros sz ecb ops r H.
  destruct (inv_cause_run sz ecb ops) as [_ [_ [HC _]]]. destruct (HC r H) as [Hr [Hrun Hn]].
  destruct (each_once sz ecb ops) as [Hruns Hperm]. rewrite Hrun in Hperm. cbn [app] in Hperm.
  split; [assumption|]. split; [assumption|]. split; [assumption|]. split; [assumption|].
  intros ops'. rewrite run_app. revert Hrun Hn. generalize (run sz ecb ops).
  induction ops' as [|o l IH]; intros s Hrun Hn; [auto|]. cbn [fold_left].
  destruct (step_ncause s o Hn) as [Hn' [Hc' Hr']].
  destruct (IH (step_st s o) (Hr' Hrun) Hn') as [H1 H2]. split; [congruence|assumption].
Qed.

(* Wait returned an error: it is the recorded cause, which never changes afterwards *)
Theorem wait_error_is_cause : forall sz ecb ops e r,
  wret (run sz ecb ops) = Some (Some e, r) ->
  cause (run sz ecb ops) = Some e /\ forall ops', cause (run sz ecb (ops ++ ops')) = Some e.
Proof.
  intros sz ecb ops e r H. destruct (inv_cause_run sz ecb ops) as [_ [_ [_ HD]]].
  pose proof (HD e r H) as Hc. split; [assumption|]. intros ops'. apply cause_stable. assumption.
Qed.

(* where a job error as cause comes from: that job failed while it was running, no cause was
   recorded before, on a worker that is not an ErrCallback worker *)
Lemma settle_pending_wret : forall s, wret (fst (settle_pending s)) = wret s /\ cause (fst (settle_pending s)) = cause s.
Proof.
  intros s. unfold settle_pending. destruct (pending s); [|auto].
  destruct (ncause s); [auto|]. destruct (length (running s) <? size s); auto.
Qed.

Lemma settle_cause_origin : forall s e, cause (fst (settle s)) = Some e ->
  cause s = Some e \/ (cause s = None /\ e = ECanceled).
Proof.
  intros s e. unfold settle. destruct (settle_pending_wret s) as [_ Hc].
  destruct (settle_pending s) as [s1 r]. cbn [fst] in *. rewrite <- Hc.
  unfold settle_wait. destruct (waiting s1); [|auto]. destruct (ncause s1); [|auto].
  destruct (cause s1) eqn:C.
  - cbn. rewrite C. auto.
  - destruct (running s1); [|rewrite C; auto]. cbn. rewrite C. cbn. intros H. inversion H. auto.
Qed.

Lemma step_cause_origin : forall s o id, cause (step_st s o) = Some (EJob id) ->
  cause s = Some (EJob id) \/
  (cause s = None /\ o = OJobEnd id true /\ In id (running s) /\ errcb s = false).
Proof.
  intros s o id. unfold step_st, step. destruct o as [|id' f| | |].
  - destruct (pending s); [auto|]. destruct (ncause s); [auto|].
    destruct (length (running s) <? size s); cbn; auto.
  - destruct (existsb (Nat.eqb id') (running s)) eqn:E; [|auto].
    apply existsb_eqb_In in E.
    match goal with |- context [settle ?x] => pose proof (settle_cause_origin x (EJob id)) as Hx; destruct (settle x) as [s2 r] end.
    cbn [fst] in *. intros H. destruct (Hx H) as [Hc|[_ Hc]]; [|discriminate].
    destruct f; cbn [andb] in Hc.
    + destruct (errcb s) eqn:Eb; cbn [negb] in Hc; [left; exact Hc|].
      cbn in Hc. destruct (cause s) eqn:C; cbn in Hc; [left; assumption|].
      inversion Hc; subst. right. auto.
    + left. exact Hc.
  - pose proof (settle_cause_origin (set_done s) (EJob id)) as Hx. destruct (settle (set_done s)) as [s2 r].
    cbn [fst] in *. intros H. destruct (Hx H) as [Hc|[_ Hc]]; [left; exact Hc|discriminate].
  - pose proof (settle_cause_origin (set_cause s ECanceled) (EJob id)) as Hx.
    destruct (settle (set_cause s ECanceled)) as [s2 r].
    cbn [fst] in *. intros H. destruct (Hx H) as [Hc|[_ Hc]]; [|discriminate].
    cbn in Hc. destruct (cause s); cbn in Hc; [left; assumption|discriminate].
  - destruct (wret s); [auto|]. destruct (waiting s); [auto|].
    match goal with |- context [settle ?x] => pose proof (settle_cause_origin x (EJob id)) as Hx; destruct (settle x) as [s2 r] end.
    cbn [fst] in *. intros H. destruct (Hx H) as [Hc|[_ Hc]]; [left; exact Hc|discriminate].
Qed.

Theorem job_cause_is_first : forall sz ecb ops id,
  cause (run sz ecb ops) = Some (EJob id) ->
  exists ops1 ops2, ops = ops1 ++ OJobEnd id true :: ops2 /\
    cause (run sz ecb ops1) = None /\ In id (running (run sz ecb ops1)) /\ errcb (run sz ecb ops1) = false.
Proof.
  intros sz ecb ops id. induction ops as [|o ops IH] using rev_ind; intros H.
  - cbn in H. discriminate.
  - rewrite run_snoc in H. apply step_cause_origin in H. destruct H as [H|[Hc [Ho [Hin He]]]].
    + destruct (IH H) as [ops1 [ops2 [Heq Hr]]]. exists ops1, (ops2 ++ [o]). split; [|assumption].
      rewrite Heq. rewrite <- app_assoc. reflexivity.
    + exists ops, []. subst o. auto.
Qed.

(* an error (or cancellation) cancels the remaining work: no job is accepted afterwards *)
Theorem cause_stops_accepting : forall sz ecb ops ops',
  cause (run sz ecb ops) <> None -> count (run sz ecb (ops ++ ops')) = count (run sz ecb ops).
Proof.
  intros sz ecb ops ops' H. apply cause_ncause in H. rewrite run_app. revert H. generalize (run sz ecb ops).
  induction ops' as [|o l IH]; intros s Hn; [reflexivity|]. cbn [fold_left].
  destruct (step_ncause s o Hn) as [Hn' [Hc' _]]. rewrite IH; auto.
Qed.

(* ------------------------------------------------------------------ BatchWork trace *)

Fixpoint expected_trace (bs : list batch) (orders : list (list nat)) : list bev :=
  match bs with
  | [] => []
  | b :: bs' => BPref (fst b) :: map (fun i => BJob i (fst b)) (hd [] orders) ++ expected_trace bs' (tl orders)
  end.

Fixpoint trace_jobs (t : list bev) : list nat :=
  match t with [] => [] | BJob i _ :: r => i :: trace_jobs r | BPref _ :: r => trace_jobs r end.

Lemma run_jobs_trace : forall last o t,
  run_jobs trace_job last o t = Ok (t ++ map (fun i => BJob i last) o).
Proof.
  intros last o. induction o as [|i r IH]; intros t; cbn.
  - rewrite app_nil_r. reflexivity.
  - rewrite IH. rewrite <- app_assoc. reflexivity.
Qed.

Lemma run_batches_trace : forall bs orders t,
  run_batches trace_pref trace_job bs orders t = Ok (t ++ expected_trace bs orders).
Proof.
  induction bs as [|b bs IH]; intros orders t; cbn.
  - rewrite app_nil_r. reflexivity.
  - rewrite run_jobs_trace. rewrite IH. rewrite <- !app_assoc. reflexivity.
Qed.

Lemma trace_jobs_app : forall a b, trace_jobs (a ++ b) = trace_jobs a ++ trace_jobs b.
Proof. induction a as [|[l|i l] a IH]; intros; cbn; rewrite ?IH; reflexivity. Qed.

Lemma trace_jobs_map : forall o last, trace_jobs (map (fun i => BJob i last) o) = o.
Proof. induction o as [|x o IH]; intros; cbn; [reflexivity|rewrite IH; reflexivity]. Qed.

Lemma trace_jobs_expected : forall bs orders, length orders = length bs ->
  trace_jobs (expected_trace bs orders) = concat orders.
Proof.
  induction bs as [|b bs IH]; intros orders Hl.
  - destruct orders; [reflexivity|discriminate].
  - destruct orders as [|o os]; [discriminate|]. cbn. rewrite trace_jobs_app, trace_jobs_map.
    rewrite IH by (cbn in Hl; lia). reflexivity.
Qed.

Lemma valid_orders_perm : forall bs orders, valid_orders bs orders ->
  length orders = length bs /\ Permutation (concat (map snd bs)) (concat orders).
Proof.
  intros bs orders H. induction H as [|b o bs os Hp H IH]; [split; [reflexivity|constructor]|].
  destruct IH as [Hl Hperm]. split; [cbn; lia|]. cbn. apply Permutation_app; assumption.
Qed.

Theorem batches_trace : forall size limit orders, 1 <= limit -> 1 <= size ->
  valid_orders (batches size limit) orders ->
  batch_trace size limit orders = Ok (expected_trace (batches size limit) orders) /\
  Permutation (trace_jobs (expected_trace (batches size limit) orders)) (seq 0 size) /\
  NoDup (trace_jobs (expected_trace (batches size limit) orders)).
Proof.
  intros size limit orders Hl Hs Hvo. unfold batch_trace, batch_work.
  destruct (Nat.ltb_spec size 1); [lia|]. rewrite run_batches_trace. cbn [app].
  split; [reflexivity|].
  destruct (valid_orders_perm _ _ Hvo) as [Hlen Hperm].
  rewrite trace_jobs_expected by assumption. rewrite batches_concat in Hperm by assumption.
  split; [apply Permutation_sym; assumption|].
  eapply Permutation_NoDup; [eassumption|apply seq_NoDup].
Qed.
