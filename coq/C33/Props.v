(* C33 -- Job workers run every accepted job once and report the first error.  Property theorems only.
   Model: C33/Model.v (util/worker.go BaseJobWorker as a state machine over arbitrary histories of
   NewJob / job end / Done / Cancel / Wait; BatchWork = Common/Batch.v). *)
From Coq Require Import List Arith Permutation.
From MV Require Import Common.Batch C33.Model C33.Proofs.
Import ListNotations.

(* In every history: the callbacks invoked are exactly those of the accepted jobs 0..count-1, each
   once, and every accepted job is either running or finished (never both, never twice). *)
Theorem C33_each_once : forall sz ecb ops,
  runs (run sz ecb ops) = seq 0 (count (run sz ecb ops)) /\
  Permutation (running (run sz ecb ops) ++ finished (run sz ecb ops)) (seq 0 (count (run sz ecb ops))).
Proof. exact each_once. Qed.

(* Wait returns nil only when no accepted job was running; then every accepted job has been invoked
   once and has finished, and no later step accepts or runs another job. *)
Theorem C33_wait_all_no_error : forall sz ecb ops r,
  wret (run sz ecb ops) = Some (None, r) ->
  r = [] /\ running (run sz ecb ops) = [] /\
  Permutation (finished (run sz ecb ops)) (seq 0 (count (run sz ecb ops))) /\
  runs (run sz ecb ops) = seq 0 (count (run sz ecb ops)) /\
  forall ops', count (run sz ecb (ops ++ ops')) = count (run sz ecb ops) /\
               running (run sz ecb (ops ++ ops')) = [].
Proof. exact wait_nil_all_done. Qed.

(* The error Wait returns is the recorded cause, and the cause never changes once set; a job error
   as cause is the error of a job that failed while running when no cause was recorded yet (the
   first error); after a cause is recorded no further job is accepted (the remaining work is cancelled). *)
Theorem C33_first_error : forall sz ecb ops,
  (forall e r, wret (run sz ecb ops) = Some (Some e, r) ->
     cause (run sz ecb ops) = Some e /\ forall ops', cause (run sz ecb (ops ++ ops')) = Some e) /\
  (forall id, cause (run sz ecb ops) = Some (EJob id) ->
     exists ops1 ops2, ops = ops1 ++ OJobEnd id true :: ops2 /\
       cause (run sz ecb ops1) = None /\ In id (running (run sz ecb ops1)) /\ errcb (run sz ecb ops1) = false) /\
  (forall ops', cause (run sz ecb ops) <> None -> count (run sz ecb (ops ++ ops')) = count (run sz ecb ops)).
Proof.
  intros sz ecb ops. split; [|split].
  - intros e r. apply wait_error_is_cause.
  - apply job_cause_is_first.
  - intros ops' H. apply cause_stops_accepting. assumption.
Qed.

(* BatchWork: for every size, limit >= 1 and job order inside the batches, the calls are
   pref(last_1), the jobs of batch 1, pref(last_2), the jobs of batch 2, ...; every index of
   [0..size-1] is visited exactly once. *)
Theorem C33_batches : forall size limit orders, 1 <= limit -> 1 <= size ->
  valid_orders (batches size limit) orders ->
  batch_trace size limit orders = Ok (expected_trace (batches size limit) orders) /\
  Permutation (trace_jobs (expected_trace (batches size limit) orders)) (seq 0 size) /\
  NoDup (trace_jobs (expected_trace (batches size limit) orders)).
Proof. exact batches_trace. Qed.

(* The strict reading "Wait waits for all accepted jobs, also after an error" (the Go doc comment)
   is FALSE of the code: job 0 parked, job 1 fails, Wait returns job 1's error while job 0 runs.
   Known finding class wait-returns-before-running-jobs-end-on-error; replayed on the real code each run. *)
Definition C33_witness : list op := [ONewJob; ONewJob; ODone; OWait; OJobEnd 1 true].

Theorem C33_wait_all_always_refuted :
  ~ (forall sz ecb ops x r, wret (run sz ecb ops) = Some (x, r) -> r = []).
Proof.
  intros H. specialize (H 2 false C33_witness (Some (EJob 1)) [0]).
  assert (E : wret (run 2 false C33_witness) = Some (Some (EJob 1), [0])) by (vm_compute; reflexivity).
  specialize (H E). discriminate.
Qed.

(* non-vacuity *)
Example C33_example_wait_nil :
  wret (run 2 false [ONewJob; ONewJob; ODone; OWait; OJobEnd 1 false; OJobEnd 0 false]) = Some (None, []).
Proof. vm_compute. reflexivity. Qed.

Example C33_example_blocked_newjob_gets_job_error :
  snd (step (run 1 false [ONewJob; ONewJob]) (OJobEnd 0 true)) = Some (NJRejected (EJob 0)).
Proof. vm_compute. reflexivity. Qed.

Example C33_example_trace :
  batch_trace 5 2 (in_order (batches 5 2)) =
  Ok [BPref 1; BJob 0 1; BJob 1 1; BPref 3; BJob 2 3; BJob 3 3; BPref 4; BJob 4 4].
Proof. vm_compute. reflexivity. Qed.
