From MV Require Import Common.Batch C33.Model.
Theorem C33_placeholder : True. Proof. exact I. Qed.
