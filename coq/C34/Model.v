(* C34 -- timers (util/timers.go): executable model.  No proofs here.

   Time is a logical clock in nanoseconds (N).  A timer object (a pointer to SimpleTimer) is a "generation"
   g = 0,1,2,... in creation order (object identity); ids (TimerID) are numbers.
   The code is cut into atomic steps at the granularity the code itself enforces:

     SNew id f        SimpleTimers.NewTimer(NewSimpleTimer(id, f, ..)): one Set on the timers map
                      (shard lock held): reject / ignore (f 0 < 1) / register g under id, overwriting,
                      expired := now + f 0.
     SStop id         removeTimer(id) called by StopTimers / StopOthers / StopAllTimers: one Remove on the
                      map: whenRemoved (cancels the context) + delete, under the shard lock.
                      StopTimers(ids), StopOthers(excl), StopAllTimers are sequences of SStop.
     STick d          the clock advances.
     SCollect id      one visit of iterate's Traverse callback: isExpired (now after expired), prepare
                      (interval (called) >= 1, expired := now + i + 1h), a job for that timer object
                      is queued.  iterate = SCollect for every registered id, in shard order.
     SRunStart g      a queued job of g enters SimpleTimer.run: takes the timer's lock, checks the context:
                      cancelled -> no callback, job goes to its removal; else the callback starts.
     SRunEnd g keep   the callback of g returns (keep = "returned (true,nil)"): expired := now + next,
                      called++, unlock; job goes to its removal unless keep and next >= 1.
     SJobRemove g     the job's end-of-run removal.  by_ident = true (the code after the fix): remove the
                      entry under g's id only if it still holds g;  by_ident = false (the code before the
                      fix, removeTimer(tr.id)): remove whatever is registered under g's id.

   Theorems quantify over arbitrary lists of these steps: a superset of all real interleavings. *)
From Coq Require Import List NArith Bool.
From MV Require Import Common.Cases.
Import ListNotations.
Open Scope N_scope.

(* time.Hour in nanoseconds: the slack prepare() adds so that a queued/running timer is not collected again *)
Definition hour : N := 3600000000000.

Record tobj := mkT {
  t_id : N;
  t_ivf : N -> N;          (* intervalFunc, assumed pure; value 0 stands for "< 1" *)
  t_called : N;
  t_expired : N;
  t_cancelled : bool;      (* ctx.Err() != nil *)
  t_locked : bool;         (* SimpleTimer.l held by run() *)
  t_npend : nat;           (* queued jobs not yet in run() *)
  t_nrem : nat             (* jobs that left run() with "remove" and have not yet called the removal *)
}.

Definition dummy : tobj := mkT 0 (fun _ => 0) 0 0 true false 0 0.

Record state := mkS {
  now : N;
  reg : N -> option N;      (* ts.timers : id -> timer object *)
  tm : N -> tobj;           (* all timer objects ever created *)
  nextgen : N;
  fixed_ids : list N        (* NewSimpleTimersFixedIDs; [] = any id *)
}.

Definition init (ids : list N) : state := mkS 0 (fun _ => None) (fun _ => dummy) 0 ids.

Inductive step :=
| SNew (id : N) (f : N -> N)
| SStop (id : N)
| STick (d : N)
| SCollect (id : N)
| SRunStart (g : N)
| SRunEnd (g : N) (keep : bool)
| SJobRemove (g : N).

Inductive event :=
| EvAdded (g id : N) (f : N -> N) (t : N)
| EvRejected (g : N)
| EvCancelled (g t : N)            (* whenRemoved ran: context cancelled, entry deleted *)
| EvCollected (g t : N)
| EvOverlong (g : N)               (* collected while a job of g is still queued or running (> 1h) *)
| EvStarted (g c t : N)            (* callback number c of g starts at t *)
| EvSkipped (g : N)
| EvEnded (g c t : N) (kept : bool).

Definition upd {A} (f : N -> A) (k : N) (v : A) : N -> A := fun x => if x =? k then v else f x.

Definition set_tm (s : state) (g : N) (o : tobj) : state :=
  mkS (now s) (reg s) (upd (tm s) g o) (nextgen s) (fixed_ids s).
Definition set_reg (s : state) (id : N) (v : option N) : state :=
  mkS (now s) (upd (reg s) id v) (tm s) (nextgen s) (fixed_ids s).

Definition memN (x : N) (l : list N) : bool := existsb (N.eqb x) l.

Definition cancel (o : tobj) : tobj :=
  mkT (t_id o) (t_ivf o) (t_called o) (t_expired o) true (t_locked o) (t_npend o) (t_nrem o).

Definition step_gen (by_ident : bool) (s : state) (st : step) : state * list event :=
  match st with
  | SNew id f =>
      let g := nextgen s in
      let o := mkT id f 0 0 false false 0 0 in
      let s1 := mkS (now s) (reg s) (upd (tm s) g o) (g + 1) (fixed_ids s) in
      if (match fixed_ids s with [] => false | _ => negb (memN id (fixed_ids s)) end) then (s1, [EvRejected g])
      else if f 0 <? 1 then (s1, [EvRejected g])
      else
        let o' := mkT id f 0 (now s + f 0) false false 0 0 in
        (mkS (now s) (upd (reg s) id (Some g)) (upd (tm s) g o') (g + 1) (fixed_ids s),
         [EvAdded g id f (now s)])
  | SStop id =>
      match reg s id with
      | None => (s, [])
      | Some g => (set_reg (set_tm s g (cancel (tm s g))) id None, [EvCancelled g (now s)])
      end
  | STick d => (mkS (now s + d) (reg s) (tm s) (nextgen s) (fixed_ids s), [])
  | SCollect id =>
      match reg s id with
      | None => (s, [])
      | Some g =>
          let o := tm s g in
          if t_expired o <? now s then
            let i := t_ivf o (t_called o) in
            if i <? 1 then (s, [])
            else
              let busy := orb (t_locked o) (negb (Nat.eqb (t_npend o) 0)) in
              let o' := mkT (t_id o) (t_ivf o) (t_called o) (now s + i + hour) (t_cancelled o)
                            (t_locked o) (S (t_npend o)) (t_nrem o) in
              (set_tm s g o', if busy then [EvCollected g (now s); EvOverlong g] else [EvCollected g (now s)])
          else (s, [])
      end
  | SRunStart g =>
      let o := tm s g in
      match t_npend o with
      | O => (s, [])
      | S n =>
          if t_locked o then (s, [])
          else if t_cancelled o then
            (set_tm s g (mkT (t_id o) (t_ivf o) (t_called o) (t_expired o) true false n (S (t_nrem o))),
             [EvSkipped g])
          else
            (set_tm s g (mkT (t_id o) (t_ivf o) (t_called o) (t_expired o) false true n (t_nrem o)),
             [EvStarted g (t_called o) (now s)])
      end
  | SRunEnd g keep =>
      let o := tm s g in
      if t_locked o then
        let next := t_ivf o (t_called o + 1) in
        let kept := andb keep (negb (next <? 1)) in
        (set_tm s g (mkT (t_id o) (t_ivf o) (t_called o + 1) (now s + next) (t_cancelled o) false
                         (t_npend o) (if kept then t_nrem o else S (t_nrem o))),
         [EvEnded g (t_called o) (now s) kept])
      else (s, [])
  | SJobRemove g =>
      let o := tm s g in
      match t_nrem o with
      | O => (s, [])
      | S n =>
          let o1 := mkT (t_id o) (t_ivf o) (t_called o) (t_expired o) (t_cancelled o) (t_locked o) (t_npend o) n in
          let s1 := set_tm s g o1 in
          match reg s (t_id o) with
          | None => (s1, [])
          | Some g' =>
              if orb (negb by_ident) (g' =? g) then
                (set_reg (set_tm s1 g' (cancel (tm s1 g'))) (t_id o) None, [EvCancelled g' (now s)])
              else (s1, [])
          end
      end
  end.

(* the code after the fix *)
Definition step_fixed := step_gen true.

(* trace is kept newest-first *)
Fixpoint run_gen (b : bool) (s : state) (tr : list event) (l : list step) : state * list event :=
  match l with
  | [] => (s, tr)
  | st :: r => let '(s', ev) := step_gen b s st in run_gen b s' (rev ev ++ tr) r
  end.
Definition run := run_gen true.

(* ------------------------------------------------------------------ correspondence cases *)

(* first-order encoding of steps written by the Go harness; interval function = iv while c < lim, else 0 *)
Inductive cstep :=
| CNew (id iv lim : N)
| CNewL (id : N) (l : list N) (tail : N)   (* interval function = nth c l tail *)
| CStop (id : N)
| CTick (d : N)
| CCollect (id : N)
| CRunStart (g : N)
| CRunEnd (g : N) (keep : bool)
| CJobRemove (g : N).

Definition mk_ivf (iv lim : N) : N -> N := fun c => if c <? lim then iv else 0.

Definition decode (c : cstep) : step :=
  match c with
  | CNew id iv lim => SNew id (mk_ivf iv lim)
  | CNewL id l tail => SNew id (fun c => nth (N.to_nat c) l tail)
  | CStop id => SStop id
  | CTick d => STick d
  | CCollect id => SCollect id
  | CRunStart g => SRunStart g
  | CRunEnd g k => SRunEnd g k
  | CJobRemove g => SJobRemove g
  end.

(* observation after one harness operation:
   registry = list of (id, gen) for ids 0..nids-1 ascending; cancelled = gens whose whenRemoved ran, ascending;
   started = (g, c) of callbacks that started during the operation, ascending by g. *)
Definition obs := (list (N * N) * list N * list (N * N))%type.

Fixpoint upto (n : nat) : list N :=
  match n with O => [] | S k => upto k ++ [N.of_nat k] end.

Definition reg_view (s : state) (nids : nat) : list (N * N) :=
  flat_map (fun id => match reg s id with Some g => [(id, g)] | None => [] end) (upto nids).

Definition cancelled_view (s : state) : list N :=
  filter (fun g => t_cancelled (tm s g)) (upto (N.to_nat (nextgen s))).

Definition started_of (g : N) (evs : list event) : list (N * N) :=
  flat_map (fun e => match e with EvStarted g' c _ => if g' =? g then [(g, c)] else [] | _ => [] end) evs.

Definition started_view (s : state) (evs : list event) : list (N * N) :=
  flat_map (fun g => started_of g evs) (upto (N.to_nat (nextgen s))).

Definition pair_eqb (a b : N * N) : bool := andb (fst a =? fst b) (snd a =? snd b).

Definition obs_eqb (a b : obs) : bool :=
  let '(r1, c1, s1) := a in
  let '(r2, c2, s2) := b in
  andb (list_eqb pair_eqb r1 r2) (andb (list_eqb N.eqb c1 c2) (list_eqb pair_eqb s1 s2)).

Fixpoint run_group (b : bool) (s : state) (evs : list event) (l : list cstep) : state * list event :=
  match l with
  | [] => (s, evs)
  | c :: r => let '(s', ev) := step_gen b s (decode c) in run_group b s' (evs ++ ev) r
  end.

Fixpoint check_groups (b : bool) (nids : nat) (s : state) (l : list (list cstep * obs)) : bool :=
  match l with
  | [] => true
  | (cs, o) :: r =>
      let '(s', evs) := run_group b s [] cs in
      andb (obs_eqb (reg_view s' nids, cancelled_view s', started_view s' evs) o)
           (check_groups b nids s' r)
  end.

(* case = (fixed ids, number of ids in the universe, groups) *)
Definition case := (list N * nat * list (list cstep * obs))%type.

Definition check (c : case) : bool :=
  let '(ids, nids, groups) := c in check_groups true nids (init ids) groups.
