(* C34 -- Stopped timers stay stopped and do not affect their successors (util/timers.go).
   Property theorems only.  Traces are newest-first: in  tr = later ++ e :: earlier  the events of
   `earlier` happened before e.  All theorems quantify over every list of atomic steps (Model.v), a superset
   of the interleavings of New / StopTimers / StopOthers / the timer loop / the callback jobs. *)
From Coq Require Import List NArith ZArith Bool.
From MV Require Import C34.Model C34.Proofs Gen.C34.
Import ListNotations.
Open Scope N_scope.

(* Once a timer object has been stopped (whenRemoved ran: EvCancelled), no callback of it starts afterwards:
   no start of g has a cancellation of g before it. *)
Theorem C34_stopped_stays_stopped : forall ids steps s tr,
  run (init ids) [] steps = (s, tr) ->
  forall later earlier g c t, tr = later ++ EvStarted g c t :: earlier ->
  forall t', ~ In (EvCancelled g t') earlier.
Proof. exact stopped_stays_stopped. Qed.

(* A timer object g registered under id stays registered and un-cancelled through every sequence of steps that
   contains no StopTimers step on id, no New on id and no end-of-run removal by g's OWN job: in particular the
   end-of-run removal of any other object (an earlier timer under the same id) never removes it. *)
Theorem C34_remove_own_only : forall ids l1 l2 s1 tr1 s2 tr2 id g,
  run (init ids) [] l1 = (s1, tr1) -> reg s1 id = Some g ->
  (forall st, In st l2 -> affects st id g = false) ->
  run s1 tr1 l2 = (s2, tr2) ->
  reg s2 id = Some g /\ t_cancelled (tm s2 g) = false.
Proof. exact remove_own_only. Qed.

(* ... and g's own job has a removal to make only after g's run was skipped because g had been stopped, or
   g's callback ended with "do not keep" (false / error / next interval < 1). *)
Theorem C34_own_removal_justified : forall ids steps s tr g,
  run (init ids) [] steps = (s, tr) -> t_nrem (tm s g) <> O ->
  In (EvSkipped g) tr \/ exists c t, In (EvEnded g c t false) tr.
Proof. exact own_removal_justified. Qed.

(* Callback number c of g starts at t only after: registration with interval function f (f c >= 1) and
   c = 0: registered at tadd, tadd + f 0 < t;   c > 0: callback c-1 ended at t0, t0 + f c < t.
   Hypothesis: no object is collected again while one of its jobs is still queued or running (the code
   pushes the expiry one hour ahead while a job is outstanding; EvOverlong marks the case the model does
   not claim anything about). *)
Theorem C34_not_before_interval : forall ids steps s tr,
  run (init ids) [] steps = (s, tr) -> (forall g, ~ In (EvOverlong g) tr) ->
  forall later earlier g c t, tr = later ++ EvStarted g c t :: earlier ->
  exists id f tadd, In (EvAdded g id f tadd) earlier /\ 1 <= f c /\
    ((c = 0 /\ tadd + f 0 < t) \/
     (0 < c /\ exists t0 k, In (EvEnded g (c - 1) t0 k) earlier /\ t0 + f c < t)).
Proof. exact not_before_interval. Qed.

(* EvOverlong needs the one-hour slack to have run out while a job of that object is outstanding *)
Theorem C34_overlong_needs_outstanding_job : forall s id s' ev g,
  step_fixed s (SCollect id) = (s', ev) -> In (EvOverlong g) ev ->
  t_expired (tm s g) < now s /\ (t_locked (tm s g) = true \/ t_npend (tm s g) <> O).
Proof. exact overlong_needs_hour. Qed.

(* the "interval < 1 means stop" thresholds of the code are the model's: the integer literals compared with a
   non-call operand in prepare / run / NewTimer, regenerated from util/timers.go (translator filter cmp) *)
Theorem C34_thresholds_are_code :
  timer_prepare_ints = [1%Z] /\ timer_run_ints = [1%Z] /\ timers_newtimer_ints = [1%Z].
Proof. repeat split; reflexivity. Qed.

(* ---------------------------------------------------------------- non-vacuity / witnesses *)

Definition ms : N := 1000000.
Definition every (k : N) : N -> N := fun _ => k * ms.

(* the reproduced defect scenario: A (gen 0) under id 7 runs; during its callback B (gen 1) is registered
   under the same id; A's callback returns "do not keep"; A's job does its end-of-run removal. *)
Definition reuse_scenario : list step :=
  [SNew 7 (every 2); STick (3 * ms); SCollect 7; SRunStart 0;
   SNew 7 (every 2); SRunEnd 0 false; SJobRemove 0;
   STick (3 * ms); SCollect 7; SRunStart 1].

(* after the fix: B stays registered, is not cancelled, and its callback starts *)
Example C34_reuse_after_fix :
  let '(s, tr) := run (init []) [] reuse_scenario in
  reg s 7 = Some 1 /\ t_cancelled (tm s 1) = false /\ In (EvStarted 1 0 (6 * ms)) tr /\
  forall g, ~ In (EvOverlong g) tr.
Proof.
  vm_compute. repeat split; try (right; left; reflexivity); try (left; reflexivity).
  intros g H. repeat (destruct H as [H|H]; [discriminate|]). exact H.
Qed.

(* before the fix (removal by id): A's job removed and cancelled B, which then never starts *)
Example C34_reuse_before_fix :
  let '(s, tr) := run_gen false (init []) [] reuse_scenario in
  reg s 7 = None /\ t_cancelled (tm s 1) = true /\ In (EvCancelled 1 (3 * ms)) tr /\
  forall c t, ~ In (EvStarted 1 c t) tr.
Proof.
  vm_compute. repeat split; try (left; reflexivity).
  intros c t H. repeat (destruct H as [H|H]; [discriminate|]). exact H.
Qed.

(* a stop while the job is queued: the callback does not start (EvSkipped), the successor under the same id
   survives the skipped job's removal *)
Example C34_stop_while_queued :
  let '(s, tr) := run (init []) []
     [SNew 3 (every 1); STick (2 * ms); SCollect 3; SStop 3; SNew 3 (every 1); SRunStart 0; SJobRemove 0] in
  In (EvCancelled 0 (2 * ms)) tr /\ In (EvSkipped 0) tr /\ reg s 3 = Some 1 /\ t_cancelled (tm s 1) = false.
Proof. vm_compute. repeat split; auto 6. Qed.
