(* C34 -- timers: lemmas about the model in Model.v *)
From Coq Require Import List NArith PeanoNat Bool Lia ZifyBool ZifyNat ZifyN.
From MV Require Import C34.Model.
Import ListNotations.
Open Scope N_scope.

(* ------------------------------------------------------------------ generic facts *)

Lemma upd_same {A} (f : N -> A) k v : upd f k v k = v.
Proof. unfold upd. rewrite N.eqb_refl. reflexivity. Qed.

Lemma upd_other {A} (f : N -> A) k v x : x <> k -> upd f k v x = f x.
Proof. intros H. unfold upd. destruct (x =? k) eqn:E; [apply N.eqb_eq in E; contradiction|reflexivity]. Qed.

Lemma run_gen_app b : forall l1 l2 s tr,
  run_gen b s tr (l1 ++ l2) = let '(s1, tr1) := run_gen b s tr l1 in run_gen b s1 tr1 l2.
Proof.
  induction l1; intros; simpl.
  - reflexivity.
  - destruct (step_gen b s a) as [s' ev]. apply IHl1.
Qed.

Lemma run_gen_incl b : forall l s tr s' tr', run_gen b s tr l = (s', tr') -> forall e, In e tr -> In e tr'.
Proof.
  induction l; intros s tr s' tr' H e He; simpl in H.
  - inversion H; subst; assumption.
  - destruct (step_gen b s a) as [s1 ev] eqn:E. eapply IHl; [exact H|]. apply in_or_app. right. assumption.
Qed.

(* case analysis of one step: destruct every scrutinee of step_gen *)
Ltac break_step H :=
  unfold step_gen in H; cbv zeta in H;
  repeat (cbv iota beta in H;
          match type of H with
          | context [match ?x with _ => _ end] =>
              match x with
              | context [match _ with _ => _ end] => fail 1
              | _ => destruct x eqn:?
              end
          end);
  inversion H; subst; clear H.

Ltac simp_state :=
  unfold set_tm, set_reg, cancel in *; cbn [now reg tm nextgen fixed_ids t_id t_ivf t_called t_expired t_cancelled t_locked t_npend t_nrem] in *.

(* ------------------------------------------------------------------ structural invariants *)

(* W: registered objects have been created;  ID: an object is registered under its own id only;
   RC: a registered object is not cancelled (cancel and delete happen in the same critical section) *)
Definition W (s : state) : Prop := forall id g, reg s id = Some g -> g < nextgen s.
Definition IDI (s : state) : Prop := forall id g, reg s id = Some g -> t_id (tm s g) = id.
Definition RC (s : state) : Prop := forall id g, reg s id = Some g -> t_cancelled (tm s g) = false.

Lemma init_W ids : W (init ids). Proof. intros id g H; discriminate. Qed.
Lemma init_IDI ids : IDI (init ids). Proof. intros id g H; discriminate. Qed.
Lemma init_RC ids : RC (init ids). Proof. intros id g H; discriminate. Qed.

Ltac upd_cases :=
  repeat match goal with
         | H : context [upd _ ?k _ ?x] |- _ =>
             let E := fresh "E" in
             destruct (N.eq_dec x k) as [E|E];
             [subst; rewrite upd_same in H | rewrite (upd_other _ _ _ _ E) in H]
         | |- context [upd _ ?k _ ?x] =>
             let E := fresh "E" in
             destruct (N.eq_dec x k) as [E|E];
             [subst; rewrite upd_same | rewrite (upd_other _ _ _ _ E)]
         end.

Lemma step_W b s st s' ev : W s -> step_gen b s st = (s', ev) -> W s'.
Proof.
  intros HW H. destruct st; break_step H; simp_state; try assumption;
    intros i g0 Hr; simp_state; upd_cases; try discriminate;
    try (inversion Hr; subst; lia); try (apply HW in Hr; lia); try (eapply HW; eassumption).
Qed.

Lemma step_IDI b s st s' ev : W s -> IDI s -> step_gen b s st = (s', ev) -> IDI s'.
Proof.
  intros HW HI H. destruct st; break_step H; simp_state; try assumption;
    intros i g0 Hr; simp_state; upd_cases; simp_state; try discriminate;
    try (inversion Hr; subst; first [reflexivity|congruence]);
    try (apply HI in Hr; assumption);
    try (apply HW in Hr; lia);
    try (eapply HI; eassumption).
Qed.

Lemma step_RC b s st s' ev : W s -> IDI s -> RC s -> step_gen b s st = (s', ev) -> RC s'.
Proof.
  intros HW HI HR H. destruct st; break_step H; simp_state; try assumption;
    intros i g0 Hr; simp_state; upd_cases; simp_state; try discriminate;
    try reflexivity;
    try (inversion Hr; subst; congruence);
    try (apply HR in Hr; first [assumption|congruence]);
    try (apply HW in Hr; lia);
    try (eapply HR; eassumption);
    try (match goal with
         | H1 : reg s ?a = Some ?x, H2 : reg s ?b = Some ?x |- _ =>
             apply HI in H1; apply HI in H2; congruence
         end).
Qed.

Record SI (s : state) : Prop := { si_w : W s; si_id : IDI s; si_rc : RC s }.

Lemma init_SI ids : SI (init ids).
Proof. split; [apply init_W|apply init_IDI|apply init_RC]. Qed.

Lemma step_SI b s st s' ev : SI s -> step_gen b s st = (s', ev) -> SI s'.
Proof.
  intros [A B C] H. split; [eapply step_W|eapply step_IDI|eapply step_RC]; eauto.
Qed.

Lemma run_SI b : forall l s tr s' tr', SI s -> run_gen b s tr l = (s', tr') -> SI s'.
Proof.
  induction l; intros s tr s' tr' HS H; simpl in H.
  - inversion H; subst; assumption.
  - destruct (step_gen b s a) as [s1 ev] eqn:E. eapply IHl; [|exact H]. eapply step_SI; eauto.
Qed.

(* ------------------------------------------------------------------ C34_remove_own_only *)

(* the only steps that may take object g (registered under id) out of the registry *)
Definition affects (st : step) (id g : N) : bool :=
  match st with
  | SNew id' _ => id' =? id
  | SStop id' => id' =? id
  | SJobRemove g' => g' =? g
  | _ => false
  end.

Lemma step_keeps s st s' ev id g :
  SI s -> reg s id = Some g -> affects st id g = false -> step_gen true s st = (s', ev) ->
  reg s' id = Some g.
Proof.
  intros [HW HI HR] Hreg Ha H. destruct st; simpl in Ha; break_step H; simp_state; try assumption;
    upd_cases; try assumption; try (rewrite N.eqb_refl in Ha; discriminate).
  all: try (exfalso;
       match goal with
       | H1 : reg ?s0 ?a = Some ?x, H2 : reg ?s0 ?a = Some ?y |- _ => rewrite H1 in H2; inversion H2; subst
       end;
       match goal with
       | H : (_ || (?x =? ?y))%bool = true |- _ => simpl in H; apply N.eqb_eq in H; subst
       end; rewrite N.eqb_refl in Ha; discriminate).
Qed.

Lemma run_keeps : forall l s tr s' tr' id g,
  SI s -> reg s id = Some g -> (forall st, In st l -> affects st id g = false) ->
  run_gen true s tr l = (s', tr') -> reg s' id = Some g /\ t_cancelled (tm s' g) = false.
Proof.
  induction l; intros s tr s' tr' id g HS Hreg Ha H; simpl in H.
  - inversion H; subst. split; [assumption|]. eapply si_rc; eauto.
  - destruct (step_gen true s a) as [s1 ev] eqn:E.
    eapply IHl; [eapply step_SI; eauto| |intros; apply Ha; right; assumption|exact H].
    eapply step_keeps; eauto. apply Ha. left. reflexivity.
Qed.

Lemma remove_own_only : forall ids l1 l2 s1 tr1 s2 tr2 id g,
  run (init ids) [] l1 = (s1, tr1) -> reg s1 id = Some g ->
  (forall st, In st l2 -> affects st id g = false) ->
  run s1 tr1 l2 = (s2, tr2) ->
  reg s2 id = Some g /\ t_cancelled (tm s2 g) = false.
Proof.
  intros. eapply run_keeps; eauto. eapply run_SI; [apply init_SI|exact H].
Qed.

(* the job's own removal is only enabled after the object's run was skipped (cancelled) or ended with "remove" *)
Definition rem_justified (tr : list event) (g : N) : Prop :=
  In (EvSkipped g) tr \/ exists c t, In (EvEnded g c t false) tr.

Definition inv_rem (s : state) (tr : list event) : Prop :=
  forall g, t_nrem (tm s g) <> O -> rem_justified tr g.

Lemma rem_justified_mono tr ev g : rem_justified tr g -> rem_justified (ev ++ tr) g.
Proof.
  intros [H|[c [t H]]]; [left|right; exists c, t]; apply in_or_app; right; assumption.
Qed.

Definition fresh_dummy (s : state) : Prop := forall g, nextgen s <= g -> tm s g = dummy.

Lemma step_inv_rem b s st s' ev tr :
  fresh_dummy s -> inv_rem s tr -> step_gen b s st = (s', ev) ->
  inv_rem s' (rev ev ++ tr) /\ fresh_dummy s'.
Proof.
  intros HF HI H. destruct st; break_step H; simp_state;
    (split; [intros g0 Hn; simp_state; upd_cases; simp_state;
             try (apply rem_justified_mono; apply HI; first [assumption|congruence|lia]);
             try (left; simpl; auto; fail);
             try (right; eexists; eexists; simpl; left; reflexivity)
            |intros g0 Hn; simp_state; upd_cases; simp_state; try reflexivity; try (apply HF; lia); try lia;
             try (rewrite HF by lia; reflexivity);
             try (exfalso;
                  match goal with
                  | H : context [tm ?s0 ?x] |- _ => rewrite (HF x) in H by lia; simpl in H; discriminate
                  end)]).
Qed.

Lemma run_inv_rem b : forall l s tr s' tr',
  fresh_dummy s -> inv_rem s tr -> run_gen b s tr l = (s', tr') -> inv_rem s' tr'.
Proof.
  induction l; intros s tr s' tr' HF HI H; simpl in H.
  - inversion H; subst; assumption.
  - destruct (step_gen b s a) as [s1 ev] eqn:E.
    destruct (step_inv_rem _ _ _ _ _ _ HF HI E). eapply IHl; eauto.
Qed.

Lemma own_removal_justified : forall ids l s tr g,
  run (init ids) [] l = (s, tr) -> t_nrem (tm s g) <> O -> rem_justified tr g.
Proof.
  intros. eapply run_inv_rem; eauto.
  - intros x _. reflexivity.
  - intros x Hx. simpl in Hx. congruence.
Qed.

(* ------------------------------------------------------------------ C34_stopped_stays_stopped *)

(* newest-first trace: below (= before) a start of g there is no cancellation of g *)
Fixpoint nsac (tr : list event) : Prop :=
  match tr with
  | [] => True
  | e :: old =>
      (match e with EvStarted g _ _ => forall t', ~ In (EvCancelled g t') old | _ => True end) /\ nsac old
  end.

Definition is_start (e : event) : bool := match e with EvStarted _ _ _ => true | _ => false end.

Lemma nsac_app_nostart l tr : (forall e, In e l -> is_start e = false) -> nsac tr -> nsac (l ++ tr).
Proof.
  induction l; intros Hl Ht; simpl; [assumption|].
  split; [|apply IHl; [intros; apply Hl; right; assumption|assumption]].
  specialize (Hl a (or_introl eq_refl)). destruct a; simpl in Hl; try discriminate; exact I.
Qed.

Lemma nsac_spec : forall tr, nsac tr -> forall l1 l2 g c t, tr = l1 ++ EvStarted g c t :: l2 ->
  forall t', ~ In (EvCancelled g t') l2.
Proof.
  intros tr Hn l1. revert tr Hn. induction l1; intros tr Hn l2 g c t E t'; subst; simpl in Hn.
  - destruct Hn as [H _]. apply H.
  - destruct Hn as [_ H]. eapply IHl1; eauto.
Qed.

Definition inv1 (s : state) (tr : list event) : Prop :=
  forall g t, In (EvCancelled g t) tr -> g < nextgen s /\ t_cancelled (tm s g) = true.

Lemma step_mono b s st s' ev : step_gen b s st = (s', ev) ->
  nextgen s <= nextgen s' /\
  (forall g, g < nextgen s -> t_cancelled (tm s g) = true -> t_cancelled (tm s' g) = true).
Proof.
  intros H. destruct st; break_step H; simp_state;
    (split; [lia|intros g0 Hlt Hc; simp_state; upd_cases; simp_state; try assumption; try reflexivity; try lia; try congruence]).
Qed.

Lemma step_cancel_ev b s st s' ev : W s -> step_gen b s st = (s', ev) ->
  forall g t, In (EvCancelled g t) ev -> g < nextgen s' /\ t_cancelled (tm s' g) = true.
Proof.
  intros HW H g0 t0 Hin. destruct st; break_step H; simp_state; simpl in Hin;
    repeat (destruct Hin as [Hin|Hin]; try discriminate); try contradiction;
    inversion Hin; subst;
    (split; [eapply HW; eassumption| upd_cases; simp_state; try reflexivity; try congruence]).
Qed.

Lemma step_start_ev b s st s' ev : step_gen b s st = (s', ev) ->
  forall g c t, In (EvStarted g c t) ev -> ev = [EvStarted g c t] /\ t_cancelled (tm s g) = false.
Proof.
  intros H g0 c0 t0 Hin. destruct st; break_step H; simp_state; simpl in Hin;
    repeat (destruct Hin as [Hin|Hin]; try discriminate); try contradiction;
    inversion Hin; subst; split; [reflexivity|assumption].
Qed.

Lemma step_inv1 b s st s' ev tr :
  W s -> inv1 s tr -> nsac tr -> step_gen b s st = (s', ev) ->
  inv1 s' (rev ev ++ tr) /\ nsac (rev ev ++ tr).
Proof.
  intros HW HI HN H. split.
  - intros g t Hin. apply in_app_or in Hin. destruct Hin as [Hin|Hin].
    + apply in_rev in Hin. eapply step_cancel_ev; eauto.
    + destruct (step_mono _ _ _ _ _ H) as [Hle Hc]. destruct (HI _ _ Hin) as [Hlt Hcc].
      split; [lia|apply Hc; assumption].
  - destruct (existsb is_start ev) eqn:Ex.
    + apply existsb_exists in Ex. destruct Ex as [e [He Hs]]. destruct e; simpl in Hs; try discriminate.
      destruct (step_start_ev _ _ _ _ _ H _ _ _ He) as [Hev Hc]. subst ev. simpl. split; [|assumption].
      intros t' Hin. apply HI in Hin. destruct Hin as [_ Hin]. congruence.
    + apply nsac_app_nostart; [|assumption]. intros e He. apply in_rev in He.
      destruct (is_start e) eqn:Es; [|reflexivity].
      assert (existsb is_start ev = true) by (apply existsb_exists; exists e; auto). congruence.
Qed.

Lemma run_inv1 b : forall l s tr s' tr',
  W s -> inv1 s tr -> nsac tr -> run_gen b s tr l = (s', tr') -> nsac tr'.
Proof.
  induction l; intros s tr s' tr' HW HI HN H; simpl in H.
  - inversion H; subst; assumption.
  - destruct (step_gen b s a) as [s1 ev] eqn:E.
    destruct (step_inv1 _ _ _ _ _ _ HW HI HN E). eapply IHl; [eapply step_W; eauto| | |exact H]; assumption.
Qed.

Lemma stopped_stays_stopped : forall ids l s tr,
  run (init ids) [] l = (s, tr) ->
  forall later earlier g c t, tr = later ++ EvStarted g c t :: earlier ->
  forall t', ~ In (EvCancelled g t') earlier.
Proof.
  intros ids l s tr H. eapply nsac_spec. eapply run_inv1; [apply init_W| | |exact H].
  - intros g t Hin. destruct Hin.
  - exact I.
Qed.

(* ------------------------------------------------------------------ C34_not_before_interval *)

(* what must precede (= lie below, in the newest-first trace) the start of callback number c of g at time t:
   the registration of g with interval function f, f c >= 1, and
   c = 0: registered at tadd with tadd + f 0 < t;  c > 0: call c-1 ended at t0 with t0 + f c < t *)
Definition base_ok (old : list event) (g c t : N) : Prop :=
  exists id f tadd, In (EvAdded g id f tadd) old /\ 1 <= f c /\
    ((c = 0 /\ tadd + f 0 < t) \/ (0 < c /\ exists t0 k, In (EvEnded g (c - 1) t0 k) old /\ t0 + f c < t)).

Fixpoint nbi (tr : list event) : Prop :=
  match tr with
  | [] => True
  | e :: old => (match e with EvStarted g c t => base_ok old g c t | _ => True end) /\ nbi old
  end.

Lemma nbi_app_nostart l tr : (forall e, In e l -> is_start e = false) -> nbi tr -> nbi (l ++ tr).
Proof.
  induction l; intros Hl Ht; simpl; [assumption|].
  split; [|apply IHl; [intros; apply Hl; right; assumption|assumption]].
  specialize (Hl a (or_introl eq_refl)). destruct a; simpl in Hl; try discriminate; exact I.
Qed.

Lemma nbi_spec : forall tr, nbi tr -> forall l1 l2 g c t, tr = l1 ++ EvStarted g c t :: l2 -> base_ok l2 g c t.
Proof.
  intros tr Hn l1. revert tr Hn. induction l1; intros tr Hn l2 g c t E; subst; simpl in Hn.
  - destruct Hn as [H _]. apply H.
  - destruct Hn as [_ H]. eapply IHl1; eauto.
Qed.

Definition base_time (tr : list event) (g : N) (o : tobj) (t0 : N) : Prop :=
  exists tadd, In (EvAdded g (t_id o) (t_ivf o) tadd) tr /\
    ((t_called o = 0 /\ t0 = tadd) \/
     (0 < t_called o /\ exists k, In (EvEnded g (t_called o - 1) t0 k) tr)).

(* per-object invariant: out of the game (never registered, or cancelled with nothing queued), or
   idle / queued once / running, with the expiry tied to the base time *)
Definition G (s : state) (tr : list event) (g : N) : Prop :=
  let o := tm s g in
  (t_npend o = O /\ t_locked o = false /\ (t_cancelled o = true \/ forall id, reg s id <> Some g))
  \/ exists t0, base_time tr g o t0 /\
      ((t_locked o = false /\ t_npend o = O /\ t_expired o = t0 + t_ivf o (t_called o))
       \/ (t_locked o = false /\ t_npend o = 1%nat /\ t0 + t_ivf o (t_called o) < now s /\ 1 <= t_ivf o (t_called o))
       \/ (t_locked o = true /\ t_npend o = O)).

Definition INV3 (s : state) (tr : list event) : Prop := RC s /\ forall g, G s tr g.

Lemma base_time_mono tr ev g o t0 : base_time tr g o t0 -> base_time (ev ++ tr) g o t0.
Proof.
  intros [tadd [Ha Hb]]. exists tadd. split; [apply in_or_app; right; assumption|].
  destruct Hb as [Hb|[Hc [k Hk]]]; [left; assumption|right; split; [assumption|exists k; apply in_or_app; right; assumption]].
Qed.

(* an object whose fields are untouched by a step keeps its invariant (trace grows, clock advances, and the
   registry does not newly point to it) *)
Lemma G_frame s s' tr ev g :
  G s tr g -> tm s' g = tm s g -> now s <= now s' ->
  (forall id, reg s' id = Some g -> reg s id = Some g) ->
  G s' (ev ++ tr) g.
Proof.
  unfold G. intros HG Ht Hn Hr. rewrite Ht. cbv zeta in *.
  destruct HG as [[A [B C]]|[t0 [Hb HP]]].
  - left. split; [assumption|split; [assumption|]]. destruct C as [C|C]; [left; assumption|right].
    intros id Hc. apply Hr in Hc. eapply C; eauto.
  - right. exists t0. split; [apply base_time_mono; assumption|].
    destruct HP as [P|[P|P]]; [left; assumption| |right; right; assumption].
    right; left. destruct P as [P1 [P2 [P3 P4]]]. repeat split; try assumption. lia.
Qed.

(* same, when only cancelled / nrem of the object changed *)
Lemma G_frame' s s' tr ev g :
  G s tr g ->
  t_id (tm s' g) = t_id (tm s g) -> t_ivf (tm s' g) = t_ivf (tm s g) -> t_called (tm s' g) = t_called (tm s g) ->
  t_expired (tm s' g) = t_expired (tm s g) -> t_locked (tm s' g) = t_locked (tm s g) ->
  t_npend (tm s' g) = t_npend (tm s g) ->
  (t_cancelled (tm s g) = true -> t_cancelled (tm s' g) = true) ->
  now s <= now s' ->
  (forall id, reg s' id = Some g -> reg s id = Some g) ->
  G s' (ev ++ tr) g.
Proof.
  unfold G. intros HG E1 E2 E3 E4 E5 E6 Hc Hn Hr. cbv zeta in *.
  unfold base_time in *. rewrite E1, E2, E3, E4, E5, E6.
  destruct HG as [[A [B C]]|[t0 [Hb HP]]].
  - left. split; [assumption|split; [assumption|]]. destruct C as [C|C]; [left; auto|right].
    intros id Hx. apply Hr in Hx. eapply C; eauto.
  - right. exists t0. split.
    + destruct Hb as [tadd [Ha Hb]]. exists tadd. split; [apply in_or_app; right; assumption|].
      destruct Hb as [Hb|[Hc' [k Hk]]]; [left; assumption|right; split; [assumption|exists k; apply in_or_app; right; assumption]].
    + destruct HP as [P|[P|P]]; [left; assumption| |right; right; assumption].
      right; left. destruct P as [P1 [P2 [P3 P4]]]. repeat split; try assumption. lia.
Qed.

Ltac other_gen HG :=
  first
    [ eapply G_frame;
      [apply HG
      |simp_state; repeat rewrite upd_other by assumption; reflexivity
      |simp_state; lia
      |simp_state; intros i Hi; upd_cases; first [congruence|assumption]]
    | eapply G_frame';
      [apply HG
      |simp_state; upd_cases; simp_state; reflexivity ..
      |simp_state; upd_cases; simp_state; intros; first [reflexivity|assumption|congruence]
      |simp_state; lia
      |simp_state; intros i Hi; upd_cases; first [congruence|assumption]]].

Lemma step_G s st s' ev tr :
  SI s -> (forall g, G s tr g) -> step_gen true s st = (s', ev) -> (forall g, ~ In (EvOverlong g) ev) ->
  forall g, G s' (rev ev ++ tr) g.
Proof.
  intros [HW HID HRC] HG H Hno g0.
  destruct st.
  - (* SNew *)
    break_step H; simp_state; (destruct (N.eq_dec g0 (nextgen s)) as [E|E]; [subst g0|other_gen HG]);
    first
      [ left; unfold G; simp_state; rewrite upd_same; simpl; repeat split; right; intros i Hi;
        simp_state; apply HW in Hi; lia
      | right; unfold G, base_time; simp_state; rewrite upd_same; simpl; exists (now s); split;
        [exists (now s); split; [left; reflexivity|left; split; reflexivity]|left; repeat split] ].
  - (* SStop *)
    break_step H; simp_state; [|rewrite <- (app_nil_l tr); other_gen HG].
    other_gen HG.
  - (* STick *)
    break_step H; simp_state. rewrite <- (app_nil_l tr). other_gen HG.
  - (* SCollect *)
    break_step H; simp_state; try (rewrite <- (app_nil_l tr); other_gen HG);
    first
      [ exfalso; eapply Hno; right; left; reflexivity
      | match goal with Hreg : reg s _ = Some ?x |- _ =>
        destruct (N.eq_dec g0 x) as [E|E]; [subst g0|other_gen HG];
        specialize (HG x); unfold G in *; simp_state; rewrite upd_same; simpl;
        match goal with Hb : (_ || _)%bool = false |- _ => apply Bool.orb_false_iff in Hb; destruct Hb as [Hl Hp] end;
        apply Bool.negb_false_iff in Hp; apply Nat.eqb_eq in Hp;
        destruct HG as [[A [B C]]|[t0 [Hb HP]]];
        [ exfalso; destruct C as [C|C]; [apply HRC in Hreg; congruence|eapply C; eauto]
        | right; exists t0; split; [apply (base_time_mono tr [EvCollected x (now s)]); exact Hb|];
          destruct HP as [P|[P|P]];
          [ right; left; destruct P as [P1 [P2 P3]]; rewrite P2; repeat split; try assumption; lia
          | destruct P as [_ [P2 _]]; congruence
          | destruct P as [P1 _]; congruence ] ]
        end ].
  - (* SRunStart *)
    break_step H; simp_state; try (rewrite <- (app_nil_l tr); other_gen HG).
    + destruct (N.eq_dec g0 g) as [E|E]; [subst g0|other_gen HG].
      specialize (HG g). unfold G in *; simp_state. rewrite upd_same. simpl.
      destruct HG as [[A _]|[t0 [Hb HP]]]; [congruence|].
      destruct HP as [P|[P|P]].
      * destruct P as [_ [P2 _]]. congruence.
      * destruct P as [_ [P2 _]]. left. repeat split; [congruence|]. left. reflexivity.
      * destruct P as [P1 _]. congruence.
    + destruct (N.eq_dec g0 g) as [E|E]; [subst g0|other_gen HG].
      specialize (HG g). unfold G in *; simp_state. rewrite upd_same. simpl.
      destruct HG as [[A _]|[t0 [Hb HP]]]; [congruence|].
      right. exists t0. split; [apply (base_time_mono tr [EvStarted g (t_called (tm s g)) (now s)]); exact Hb|].
      destruct HP as [P|[P|P]].
      * destruct P as [_ [P2 _]]. congruence.
      * destruct P as [_ [P2 _]]. right; right. split; [reflexivity|congruence].
      * destruct P as [P1 _]. congruence.
  - (* SRunEnd *)
    break_step H; simp_state; try (rewrite <- (app_nil_l tr); other_gen HG);
    (destruct (N.eq_dec g0 g) as [E|E]; [subst g0|other_gen HG]);
    specialize (HG g); unfold G in *; simp_state; rewrite upd_same; simpl;
    (destruct HG as [[_ [B _]]|[t0 [Hb HP]]]; [congruence|]);
    right; exists (now s); (split;
    [ unfold base_time in *; simpl; destruct Hb as [tadd [Ha _]]; exists tadd;
      split; [right; exact Ha|]; right; split; [lia|];
      eexists; left; replace (t_called (tm s g) + 1 - 1) with (t_called (tm s g)) by lia; reflexivity
    | destruct HP as [P|[P|P]];
      [ destruct P as [P1 _]; congruence
      | destruct P as [P1 _]; congruence
      | destruct P as [_ P2]; left; repeat split; assumption ] ]).
  - (* SJobRemove *)
    break_step H; simp_state; try (rewrite <- (app_nil_l tr); other_gen HG); other_gen HG.
Qed.

Lemma step_start_detail b s st s' ev : step_gen b s st = (s', ev) ->
  forall g c t, In (EvStarted g c t) ev ->
  c = t_called (tm s g) /\ t = now s /\ t_npend (tm s g) <> O /\ t_locked (tm s g) = false.
Proof.
  intros H g0 c0 t0 Hin. destruct st; break_step H; simp_state; simpl in Hin;
    repeat (destruct Hin as [Hin|Hin]; try discriminate); try contradiction;
    inversion Hin; subst; repeat split; try assumption; congruence.
Qed.

Lemma step_nbi s st s' ev tr :
  (forall g, G s tr g) -> nbi tr -> step_gen true s st = (s', ev) -> nbi (rev ev ++ tr).
Proof.
  intros HG HN H. destruct (existsb is_start ev) eqn:Ex.
  - apply existsb_exists in Ex. destruct Ex as [e [He Hs]]. destruct e; simpl in Hs; try discriminate.
    destruct (step_start_ev _ _ _ _ _ H _ _ _ He) as [Hev Hc].
    destruct (step_start_detail _ _ _ _ _ H _ _ _ He) as [D1 [D2 [D3 D4]]].
    subst ev. simpl. split; [|assumption].
    specialize (HG g). unfold G in HG. cbv zeta in HG.
    destruct HG as [[A _]|[t0 [Hb HP]]]; [congruence|].
    destruct HP as [P|[P|P]].
    + destruct P as [_ [P2 _]]. congruence.
    + destruct P as [_ [_ [P3 P4]]]. destruct Hb as [tadd [Ha Hb]].
      exists (t_id (tm s g)), (t_ivf (tm s g)), tadd. subst c t.
      split; [assumption|]. split; [assumption|].
      destruct Hb as [[Hz Ht]|[Hp [k Hk]]].
      * left. split; [assumption|]. subst t0. rewrite Hz in P3. assumption.
      * right. split; [assumption|]. exists t0, k. split; assumption.
    + destruct P as [P1 _]. congruence.
  - apply nbi_app_nostart; [|assumption]. intros e He. apply in_rev in He.
    destruct (is_start e) eqn:Es; [|reflexivity].
    assert (existsb is_start ev = true) by (apply existsb_exists; exists e; auto). congruence.
Qed.

Lemma run_nbi : forall l s tr s' tr',
  SI s -> (forall g, G s tr g) -> nbi tr -> run_gen true s tr l = (s', tr') ->
  (forall g, ~ In (EvOverlong g) tr') -> nbi tr'.
Proof.
  induction l; intros s tr s' tr' HS HG HN H Hno; simpl in H.
  - inversion H; subst; assumption.
  - destruct (step_gen true s a) as [s1 ev] eqn:E.
    assert (Hno1 : forall g, ~ In (EvOverlong g) ev).
    { intros g Hin. apply (Hno g). eapply run_gen_incl; [exact H|]. apply in_or_app. left.
      apply -> in_rev. assumption. }
    eapply IHl; [eapply step_SI; eauto| | |exact H|assumption].
    + eapply step_G; eauto.
    + eapply step_nbi; eauto.
Qed.

Lemma not_before_interval : forall ids l s tr,
  run (init ids) [] l = (s, tr) -> (forall g, ~ In (EvOverlong g) tr) ->
  forall later earlier g c t, tr = later ++ EvStarted g c t :: earlier -> base_ok earlier g c t.
Proof.
  intros ids l s tr H Hno. eapply nbi_spec. eapply run_nbi; [apply init_SI| | |exact H|exact Hno].
  - intros g. left. simpl. repeat split. left. reflexivity.
  - exact I.
Qed.

(* an object is collected while one of its jobs is still queued or running only after more than an hour *)
Lemma overlong_needs_hour s id s' ev g :
  step_gen true s (SCollect id) = (s', ev) -> In (EvOverlong g) ev ->
  t_expired (tm s g) < now s /\ (t_locked (tm s g) = true \/ t_npend (tm s g) <> O).
Proof.
  intros H Hin. break_step H; simp_state; simpl in Hin;
    repeat (destruct Hin as [Hin|Hin]; try discriminate); try contradiction.
  inversion Hin; subst. split; [lia|].
  match goal with Hb : (_ || _)%bool = true |- _ =>
    apply Bool.orb_true_iff in Hb; destruct Hb as [Hb|Hb];
    [left; assumption|right; apply Bool.negb_true_iff in Hb; apply Nat.eqb_neq in Hb; assumption] end.
Qed.
