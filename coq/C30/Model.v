(* C30 -- stream header protocol (network/quicstream/header/broker.go, header.go; network/quicstream/handler.go
   readPrefix/WritePrefix) over the io.Reader and framing model of C29.  Executable model, no proofs.

   Wire grammar (as written by ClientBroker / HandlerBroker):
     request head  = prefix(32 bytes, not all zero) ++ [0x01] ++ lengthed(encoder hint) ++ lengthed(header bytes)
     response head =                                   [0x03] ++ lengthed(encoder hint) ++ lengthed(header bytes)
     body          = [0x02] ++ [0x01]                                  (empty)
                   | [0x02] ++ [0x02] ++ u64be(length) ++ data         (fixed length)
                   | [0x02] ++ [0x03] ++ data ... until the stream ends (stream)
   The encoder layer is opaque: enc_known (Encoders.FindByString finds the hint) and kind_of (what
   encoder.Decode + the interface assertions make of the header bytes) are parameters.
   The type assertions header.(RequestHeader) / header.(ResponseHeader) are explicit Panic outcomes. *)
From Coq Require Import String.
From Coq Require Import List NArith ZArith Bool.
From MV Require Import Common.Cases Gen.C29 C29.Model.
Import ListNotations.
Close Scope string_scope.
Open Scope list_scope.
Open Scope N_scope.

Inductive hkind := KErr | KReq | KResp | KOther.
(* KErr: decoding fails (or yields nil / not a Header); KReq: a RequestHeader; KResp: a ResponseHeader;
   KOther: a Header that is neither *)

Definition hkind_eqb (a b : hkind) : bool :=
  match a, b with
  | KErr, KErr | KReq, KReq | KResp, KResp | KOther, KOther => true
  | _, _ => false
  end.

(* DataType / BodyType bytes (header.go) *)
Definition dt_request : N := 1.
Definition dt_body : N := 2.
Definition dt_response : N := 3.
Definition bt_empty : N := 1.
Definition bt_fixed : N := 2.
Definition bt_stream : N := 3.

Definition prefix_len : N := 32.
Definition all_zero (p : bytes) : bool := forallb (fun x => x =? 0) p.

(* ---------------------------------------------------------------- writers *)
(* ClientBroker.WriteRequestHead: WritePrefix (refuses the zero prefix), then writeHead *)
Definition write_request_head (prefix hint hdr : bytes) : option bytes :=
  if all_zero prefix then None
  else Some (prefix ++ [dt_request] ++ write_lengthed hint ++ write_lengthed hdr).

(* HandlerBroker.WriteResponseHead *)
Definition write_response_head (hint hdr : bytes) : bytes :=
  [dt_response] ++ write_lengthed hint ++ write_lengthed hdr.

(* baseBroker.writeBody: the body reader is copied whole (io.Copy); None = refused *)
Definition write_body (bt : N) (len : N) (data : option bytes) : option bytes :=
  if bt =? bt_empty then Some [dt_body; bt_empty]
  else if bt =? bt_fixed then
    match data with
    | None => if 0 <? len then None else Some ([dt_body; bt_fixed] ++ u64be len)
    | Some d => Some ([dt_body; bt_fixed] ++ u64be len ++ d)
    end
  else if bt =? bt_stream then
    match data with
    | None => None
    | Some d => Some ([dt_body; bt_stream] ++ d)
    end
  else None.

(* ---------------------------------------------------------------- readers *)
Section Codec.
  Variable enc_known : bytes -> bool.
  Variable kind_of : bytes -> hkind.

  (* quicstream.readPrefix: EnsureRead of 32 bytes, io.EOF tolerated, the zero prefix refused *)
  Definition read_prefix (r : reader) : res (bytes * reader) :=
    match ensure_read prefix_len r with
    | Ok (p, _, r') => if all_zero p then Err else Ok (p, r')
    | Err => Err
    | Panic => Panic
    end.

  (* baseBroker.readDataType: any error of EnsureRead (io.EOF included) is an error *)
  Definition read_data_type (r : reader) : res (N * reader) :=
    match ensure_read 1 r with
    | Ok ([t], false, r') => if (t =? dt_request) || (t =? dt_body) || (t =? dt_response) then Ok (t, r') else Err
    | Ok (_, _, _) => Err
    | Err => Err
    | Panic => Panic
    end.

  (* baseBroker.readBodyType: io.EOF tolerated (and dropped) *)
  Definition read_body_type (r : reader) : res (N * reader) :=
    match ensure_read 1 r with
    | Ok ([t], _, r') => if (t =? bt_empty) || (t =? bt_fixed) || (t =? bt_stream) then Ok (t, r') else Err
    | Ok (_, _, _) => Err
    | Err => Err
    | Panic => Panic
    end.

  (* baseBroker.readEncoder: readLengthed error (io.EOF included) is an error; unknown hint is an error *)
  Definition read_encoder (r : reader) : res (bytes * reader) :=
    match read_lengthed r with
    | Ok (h, false, r') => if enc_known h then Ok (h, r') else Err
    | Ok (_, true, _) => Err
    | Err => Err
    | Panic => Panic
    end.

  (* baseBroker.readHead for dataType dt (already read): (encoder hint, header bytes, kind, reader) *)
  Definition read_head (dt : N) (r : reader) : res (bytes * bytes * hkind * reader) :=
    if negb ((dt =? dt_request) || (dt =? dt_response)) then Err
    else
      match read_encoder r with
      | Ok (h, r1) =>
          match read_lengthed r1 with
          | Ok (b, _, r2) =>                     (* io.EOF tolerated *)
              let k := kind_of b in
              match k with
              | KErr => Err                       (* encoder.Decode fails *)
              | _ =>
                  if dt =? dt_request
                  then (if hkind_eqb k KReq then Ok (h, b, k, r2) else Err)   (* AssertInterfaceValue[RequestHeader] *)
                  else (if hkind_eqb k KResp then Ok (h, b, k, r2) else Err)  (* AssertInterfaceValue[ResponseHeader] *)
              end
          | Err => Err
          | Panic => Panic
          end
      | Err => Err
      | Panic => Panic
      end.

  (* HandlerBroker.ReadRequestHead; the final h.(RequestHeader) panics unless the header is a RequestHeader *)
  Definition read_request_head (r : reader) : res (bytes * bytes * reader) :=
    match read_data_type r with
    | Ok (t, r1) =>
        if negb (t =? dt_request) then Err
        else match read_head t r1 with
             | Ok (h, b, k, r2) => if hkind_eqb k KReq then Ok (h, b, r2) else Panic
             | Err => Err
             | Panic => Panic
             end
    | Err => Err
    | Panic => Panic
    end.

  (* ClientBroker.ReadResponseHead *)
  Definition read_response_head (r : reader) : res (bytes * bytes * reader) :=
    match read_data_type r with
    | Ok (t, r1) =>
        if negb (t =? dt_response) then Err
        else match read_head t r1 with
             | Ok (h, b, k, r2) => if hkind_eqb k KResp then Ok (h, b, r2) else Panic
             | Err => Err
             | Panic => Panic
             end
    | Err => Err
    | Panic => Panic
    end.

  (* the server side of one request: PrefixHandler reads the prefix, the handler reads the head *)
  Definition read_request (r : reader) : res (bytes * bytes * bytes * reader) :=
    match read_prefix r with
    | Ok (p, r1) =>
        match read_request_head r1 with
        | Ok (h, b, r2) => Ok (p, h, b, r2)
        | Err => Err
        | Panic => Panic
        end
    | Err => Err
    | Panic => Panic
    end.

  (* What ReadBody hands out, with the body reader consumed by io.ReadAll:
     BResp = a response head arrived instead of a body;
     BBody bt len data ok = body of type bt, announced length len (0 unless fixed), the bytes io.ReadAll(body)
     returned and whether it returned them without error. *)
  Inductive body_result :=
  | BResp (hint hdr : bytes) (r : reader)
  | BBody (bt len : N) (data : bytes) (ok : bool) (r : reader).

  (* io.ReadAll over fixedLengthBodyReader{left: len}: exactly len bytes, io.ErrUnexpectedEOF (or the reader's
     error) when the stream ends earlier; never reads past len.  Specification level: the sizes of the
     individual Read calls of io.ReadAll do not matter for these observables. *)
  Definition read_all_fixed (len : N) (r : reader) : bytes * bool * reader :=
    let d := concat (chunks r) in
    match splitN d len with
    | (a, rest, 0) => (a, true, mkR (match rest with [] => [] | _ => [rest] end) (fin r))
    | (a, _, _) => (a, false, mkR [] (fin r))
    end.

  (* io.ReadAll over the broker's reader itself (stream body) *)
  Definition read_all_stream (r : reader) : bytes * bool * reader :=
    (concat (chunks r), match fin r with EndErr => false | _ => true end, mkR [] (fin r)).

  (* baseBroker.ReadBody (+ io.ReadAll of the body reader) *)
  Definition read_body_all (r : reader) : res body_result :=
    match read_data_type r with
    | Ok (t, r1) =>
        if t =? dt_response then
          match read_head t r1 with
          | Ok (h, b, k, r2) => if hkind_eqb k KResp then Ok (BResp h b r2) else Panic
          | Err => Err
          | Panic => Panic
          end
        else if t =? dt_body then
          match read_body_type r1 with
          | Ok (bt, r2) =>
              if bt =? bt_empty then Ok (BBody bt 0 [] true r2)
              else if bt =? bt_fixed then
                match read_length r2 with          (* util.ReadLength: io.EOF dropped *)
                | Ok (len, r3) =>
                    if 0 <? len
                    then let '(d, ok, r4) := read_all_fixed len r3 in Ok (BBody bt len d ok r4)
                    else Ok (BBody bt 0 [] true r3)
                | Err => Err
                | Panic => Panic
                end
              else let '(d, ok, r3) := read_all_stream r2 in Ok (BBody bt 0 d ok r3)
          | Err => Err
          | Panic => Panic
          end
        else Err                                  (* "expected body data type" *)
    | Err => Err
    | Panic => Panic
    end.
End Codec.

(* ---------------------------------------------------------------- correspondence cases *)
(* the encoder layer observed on the real code for the byte strings that occur in the case *)
Fixpoint lookup {A} (tbl : list (string * A)) (b : bytes) : option A :=
  match tbl with
  | [] => None
  | (k, v) :: t => if bytes_eqb (unhex k) b then Some v else lookup t b
  end.

Definition kind_of_N (n : N) : hkind :=
  if n =? 1 then KReq else if n =? 2 then KResp else if n =? 3 then KOther else KErr.

(* an entry missing from the tables makes the case fail (sentinel), never pass silently *)
Definition tbl_known (tbl : list (string * bool)) (missing : bool) (b : bytes) : bool :=
  match lookup tbl b with Some v => v | None => missing end.
Definition tbl_kind (tbl : list (string * N)) (b : bytes) : hkind :=
  match lookup tbl b with Some v => kind_of_N v | None => KErr end.

Inductive case :=
(* op: 0 = read_request (prefix + request head), 1 = read_response_head, 2 = read_body_all;
   tag 0 = Ok, 1 = Err, 2 = Panic; for op 2: sub 0 = body, 1 = response head *)
| CRead (op : N) (input : string) (sizes : list N) (u e : N)
        (known : list (string * bool)) (kinds : list (string * N))
        (tag : N) (prefix hint hdr : string) (sub bt len : N) (data : string) (ok : bool) (rest : string)
| CWriteReq (prefix hint hdr : string) (ok : bool) (out : string)
| CWriteResp (hint hdr : string) (out : string)
| CWriteBody (bt len : N) (has : bool) (data : string) (ok : bool) (out : string).

Definition flat_rest (r : reader) : bytes := concat (chunks r).

(* a table miss must not be reachable in a passing case: run twice with the two defaults for enc_known *)
Definition check_read op input sizes u e known kinds tag prefix hint hdr sub bt len data ok rest (missing : bool) : bool :=
  let r := mk_reader (unhex input) sizes u e in
  let ek := tbl_known known missing in
  let ko := tbl_kind kinds in
  if op =? 0 then
    match read_request ek ko r with
    | Ok (p, h, b, r') => (tag =? 0) && bytes_eqb p (unhex prefix) && bytes_eqb h (unhex hint) && bytes_eqb b (unhex hdr)
                          && bytes_eqb (flat_rest r') (unhex rest)
    | Err => tag =? 1
    | Panic => tag =? 2
    end
  else if op =? 1 then
    match read_response_head ek ko r with
    | Ok (h, b, r') => (tag =? 0) && bytes_eqb h (unhex hint) && bytes_eqb b (unhex hdr) && bytes_eqb (flat_rest r') (unhex rest)
    | Err => tag =? 1
    | Panic => tag =? 2
    end
  else
    match read_body_all ek ko r with
    | Ok (BResp h b r') => (tag =? 0) && (sub =? 1) && bytes_eqb h (unhex hint) && bytes_eqb b (unhex hdr)
                           && bytes_eqb (flat_rest r') (unhex rest)
    | Ok (BBody t l d o r') => (tag =? 0) && (sub =? 0) && (t =? bt) && (l =? len) && bytes_eqb d (unhex data)
                               && Bool.eqb o ok && bytes_eqb (flat_rest r') (unhex rest)
    | Err => tag =? 1
    | Panic => tag =? 2
    end.

Definition opt_bytes_eqb (a : option bytes) (ok : bool) (out : string) : bool :=
  match a with
  | Some w => ok && bytes_eqb w (unhex out)
  | None => negb ok
  end.

Definition check (c : case) : bool :=
  match c with
  | CRead op input sizes u e known kinds tag prefix hint hdr sub bt len data ok rest =>
      check_read op input sizes u e known kinds tag prefix hint hdr sub bt len data ok rest true
      && check_read op input sizes u e known kinds tag prefix hint hdr sub bt len data ok rest false
  | CWriteReq prefix hint hdr ok out => opt_bytes_eqb (write_request_head (unhex prefix) (unhex hint) (unhex hdr)) ok out
  | CWriteResp hint hdr out => bytes_eqb (write_response_head (unhex hint) (unhex hdr)) (unhex out)
  | CWriteBody bt len has data ok out =>
      opt_bytes_eqb (write_body bt len (if has then Some (unhex data) else None)) ok out
  end.
