(* C30 -- lemmas: round trips of heads and bodies under any chunking, totality (Panic unreachable). *)
From Coq Require Import String.
From Coq Require Import List NArith ZArith Bool Lia ZifyBool ZifyNat ZifyN.
From MV Require Import Common.Cases Gen.C29 C29.Model C29.ProofsBuf C29.ProofsStream C29.ProofsFrame C30.Model.
Import ListNotations.
Close Scope string_scope.
Open Scope list_scope.
Open Scope N_scope.

(* ------------------------------------------------------------ C29 primitives, in the form used here *)
Lemma ensure_read_ok cs e a rest :
  0 < lenN a -> concat cs = a ++ rest ->
  exists eof cs', ensure_read (lenN a) (mkR cs e) = Ok (a, eof, mkR cs' e) /\ concat cs' = rest /\ (eof = true -> rest = []).
Proof.
  intros Hpos Hcat. unfold ensure_read. cbn [chunks fin].
  destruct (N.ltb_spec (lenN a) 1); [lia|].
  destruct (ensure_go_ok cs e (lenN a) a rest Hpos Hcat eq_refl) as [eof [[cs' e'] [E [H1 [H2 H3]]]]].
  cbn [chunks fin] in *. subst e'. exists eof, cs'. repeat split; assumption.
Qed.

Lemma ensure_read_nopanic k r : ensure_read k r <> Panic.
Proof. unfold ensure_read. destruct (k <? 1); [discriminate | apply ensure_go_nopanic]. Qed.

Lemma read_length_nopanic r : read_length r <> Panic.
Proof.
  unfold read_length. pose proof (ensure_read_nopanic 8 r).
  destruct (ensure_read 8 r) as [[[p f] r']| |]; congruence.
Qed.

Lemma read_lengthed_nopanic r : read_lengthed r <> Panic.
Proof.
  unfold read_lengthed. pose proof (read_length_nopanic r).
  destruct (read_length r) as [[i r']| |]; try congruence.
  destruct (i <? 1); [discriminate|]. destruct (max_lengthed <? i); [discriminate|].
  apply ensure_read_nopanic.
Qed.

Lemma read_lengthed_ok2 cs e x rest :
  concat cs = write_lengthed x ++ rest -> lenN x <= max_lengthed -> lenN (concat cs) < two64 ->
  exists eof cs', read_lengthed (mkR cs e) = Ok (x, eof, mkR cs' e) /\ concat cs' = rest /\ (eof = true -> rest = []).
Proof.
  intros Hcat Hsm Hlt. pose proof (read_lengthed_refines cs e Hlt) as R. unfold stream_item_spec in R.
  rewrite Hcat in R. rewrite (rlbn_ok x rest _ eq_refl) in R by (rewrite <- Hcat; assumption).
  unfold small in R. destruct (N.leb_spec (lenN x) max_lengthed); [|lia].
  destruct R as [eof [cs' [E [Hc He]]]]. exists eof, cs'. repeat split; assumption.
Qed.

Lemma wl_nonempty x t : write_lengthed x ++ t <> [].
Proof.
  unfold write_lengthed. intros H. apply (f_equal (@length N)) in H.
  rewrite !app_length, u64be_length in H. cbn in H. lia.
Qed.

Lemma read_length_ok cs e n rest :
  n < two64 -> concat cs = u64be n ++ rest ->
  exists cs', read_length (mkR cs e) = Ok (n, mkR cs' e) /\ concat cs' = rest.
Proof.
  intros Hn Hcat. unfold read_length.
  destruct (ensure_read_ok cs e (u64be n) rest) as [eof [cs' [E [Hc _]]]].
  { rewrite lenN_u64be. lia. } { exact Hcat. }
  rewrite lenN_u64be in E. rewrite E. exists cs'. rewrite dec_u64be by assumption. split; [reflexivity | assumption].
Qed.

Lemma write_request_head_some p h b w :
  write_request_head p h b = Some w ->
  all_zero p = false /\ w = p ++ [dt_request] ++ write_lengthed h ++ write_lengthed b.
Proof.
  unfold write_request_head. destruct (all_zero p); intros H; [discriminate|].
  split; [reflexivity | congruence].
Qed.

Lemma write_body_fixed_some len d w :
  write_body bt_fixed len (Some d) = Some w -> w = [dt_body; bt_fixed] ++ u64be len ++ d.
Proof. unfold write_body, bt_fixed, bt_empty. cbn [N.eqb Pos.eqb]. congruence. Qed.

Lemma write_body_stream_some len d w :
  write_body bt_stream len (Some d) = Some w -> w = [dt_body; bt_stream] ++ d.
Proof. unfold write_body, bt_stream, bt_fixed, bt_empty. cbn [N.eqb Pos.eqb]. congruence. Qed.

Lemma write_body_empty_some len d w :
  write_body bt_empty len d = Some w -> w = [dt_body; bt_empty].
Proof. unfold write_body, bt_empty. cbn [N.eqb Pos.eqb]. congruence. Qed.

(* ------------------------------------------------------------ heads *)
Section Codec.
  Variable enc_known : bytes -> bool.
  Variable kind_of : bytes -> hkind.

  Lemma read_data_type_ok cs e t rest :
    (t = dt_request \/ t = dt_body \/ t = dt_response) -> concat cs = [t] ++ rest -> rest <> [] ->
    exists cs', read_data_type (mkR cs e) = Ok (t, mkR cs' e) /\ concat cs' = rest.
  Proof.
    intros Ht Hcat Hr. unfold read_data_type.
    destruct (ensure_read_ok cs e [t] rest) as [eof [cs' [E [Hc He]]]]; [reflexivity | exact Hcat |].
    change (lenN [t]) with 1 in E. rewrite E.
    destruct eof. { exfalso. apply Hr, He. reflexivity. }
    exists cs'. split; [|assumption].
    destruct Ht as [-> | [-> | ->]]; reflexivity.
  Qed.

  Lemma read_head_ok cs e dt hint hdr rest k :
    (dt = dt_request /\ k = KReq \/ dt = dt_response /\ k = KResp) ->
    enc_known hint = true -> kind_of hdr = k ->
    lenN hint <= max_lengthed -> lenN hdr <= max_lengthed ->
    concat cs = write_lengthed hint ++ write_lengthed hdr ++ rest -> lenN (concat cs) < two64 ->
    exists cs', read_head enc_known kind_of dt (mkR cs e) = Ok (hint, hdr, k, mkR cs' e) /\ concat cs' = rest.
  Proof.
    intros Hdt Hek Hk Hs1 Hs2 Hcat Hlt. unfold read_head, read_encoder.
    destruct (read_lengthed_ok2 cs e hint _ Hcat Hs1 Hlt) as [eof [cs1 [E1 [Hc1 He1]]]].
    destruct eof. { exfalso. eapply wl_nonempty. apply He1. reflexivity. }
    assert (Hlt1 : lenN (concat cs1) < two64). { rewrite Hc1. rewrite Hcat, lenN_app in Hlt. lia. }
    destruct (read_lengthed_ok2 cs1 e hdr rest Hc1 Hs2 Hlt1) as [eof2 [cs2 [E2 [Hc2 _]]]].
    exists cs2. split; [|assumption].
    destruct Hdt as [[-> ->] | [-> ->]]; cbn [negb orb N.eqb dt_request dt_response Pos.eqb];
      rewrite E1, Hek, E2, Hk; reflexivity.
  Qed.

  Lemma request_roundtrip cs e prefix hint hdr w rest :
    write_request_head prefix hint hdr = Some w -> lenN prefix = prefix_len ->
    enc_known hint = true -> kind_of hdr = KReq ->
    lenN hint <= max_lengthed -> lenN hdr <= max_lengthed ->
    concat cs = w ++ rest -> lenN (w ++ rest) < two63 ->
    exists cs', read_request enc_known kind_of (mkR cs e) = Ok (prefix, hint, hdr, mkR cs' e) /\ concat cs' = rest.
  Proof.
    intros Hw Hp Hek Hk Hs1 Hs2 Hcat Hlt. pose proof two63_lt_two64.
    destruct (write_request_head_some _ _ _ _ Hw) as [Ez ->].
    rewrite <- !app_assoc in Hcat, Hlt. rewrite <- Hcat in Hlt.
    unfold read_request, read_prefix.
    destruct (ensure_read_ok cs e prefix _ ltac:(rewrite Hp; reflexivity) Hcat) as [eof [cs1 [E1 [Hc1 _]]]].
    rewrite Hp in E1. rewrite E1, Ez.
    unfold read_request_head.
    pose proof (read_data_type_ok cs1 e dt_request _ (or_introl eq_refl) Hc1 (wl_nonempty _ _)) as [cs2 [E2 Hc2]].
    rewrite E2. cbn [negb N.eqb dt_request Pos.eqb].
    destruct (read_head_ok cs2 e dt_request hint hdr rest KReq ltac:(auto) Hek Hk Hs1 Hs2 Hc2) as [cs3 [E3 Hc3]].
    { rewrite Hc2. rewrite Hcat, !lenN_app in Hlt. rewrite !lenN_app. lia. }
    rewrite E3. cbn [hkind_eqb]. exists cs3. split; [reflexivity | assumption].
  Qed.

  Lemma response_roundtrip cs e hint hdr rest :
    enc_known hint = true -> kind_of hdr = KResp ->
    lenN hint <= max_lengthed -> lenN hdr <= max_lengthed ->
    concat cs = write_response_head hint hdr ++ rest -> lenN (concat cs) < two63 ->
    exists cs', read_response_head enc_known kind_of (mkR cs e) = Ok (hint, hdr, mkR cs' e) /\ concat cs' = rest.
  Proof.
    intros Hek Hk Hs1 Hs2 Hcat Hlt. pose proof two63_lt_two64.
    unfold write_response_head in Hcat. rewrite <- !app_assoc in Hcat.
    unfold read_response_head.
    pose proof (read_data_type_ok cs e dt_response _ (or_intror (or_intror eq_refl)) Hcat (wl_nonempty _ _)) as [cs2 [E2 Hc2]].
    rewrite E2. cbn [negb N.eqb dt_response Pos.eqb].
    destruct (read_head_ok cs2 e dt_response hint hdr rest KResp ltac:(auto) Hek Hk Hs1 Hs2 Hc2) as [cs3 [E3 Hc3]].
    { rewrite Hc2. rewrite Hcat, !lenN_app in Hlt. rewrite !lenN_app. lia. }
    rewrite E3. cbn [hkind_eqb]. exists cs3. split; [reflexivity | assumption].
  Qed.

  (* ------------------------------------------------------------ bodies *)
  Definition body_is (res : res body_result) (bt len : N) (data rest : bytes) : Prop :=
    exists r, res = Ok (BBody bt len data true r) /\ concat (chunks r) = rest.

  Lemma read_body_type_ok cs e t rest :
    (t = bt_empty \/ t = bt_fixed \/ t = bt_stream) -> concat cs = [t] ++ rest ->
    exists cs', read_body_type (mkR cs e) = Ok (t, mkR cs' e) /\ concat cs' = rest.
  Proof.
    intros Ht Hcat. unfold read_body_type.
    destruct (ensure_read_ok cs e [t] rest) as [eof [cs' [E [Hc He]]]]; [reflexivity | exact Hcat |].
    change (lenN [t]) with 1 in E. rewrite E.
    exists cs'. split; [|assumption].
    destruct Ht as [-> | [-> | ->]]; reflexivity.
  Qed.

  Lemma body_empty_roundtrip cs e w rest :
    write_body bt_empty 0 None = Some w -> concat cs = w ++ rest ->
    body_is (read_body_all enc_known kind_of (mkR cs e)) bt_empty 0 [] rest.
  Proof.
    intros Hw Hcat. apply write_body_empty_some in Hw. subst w. unfold read_body_all.
    pose proof (read_data_type_ok cs e dt_body _ (or_intror (or_introl eq_refl)) Hcat) as X.
    specialize (X ltac:(discriminate)). destruct X as [cs1 [E1 Hc1]].
    rewrite E1. cbn [N.eqb dt_body dt_response Pos.eqb].
    destruct (read_body_type_ok cs1 e bt_empty rest ltac:(auto) Hc1) as [cs2 [E2 Hc2]].
    rewrite E2. cbn [N.eqb bt_empty Pos.eqb]. exists (mkR cs2 e). split; [reflexivity | assumption].
  Qed.

  Lemma read_all_fixed_ok cs e data rest :
    concat cs = data ++ rest ->
    exists r, read_all_fixed (lenN data) (mkR cs e) = (data, true, r) /\ concat (chunks r) = rest.
  Proof.
    intros Hcat. unfold read_all_fixed. cbn [chunks fin]. rewrite Hcat, splitN_spec.
    rewrite to_nat_lenN, firstn_len_app, skipn_len_app.
    replace (lenN data - lenN (data ++ rest)) with 0 by (rewrite lenN_app; lia).
    eexists. split; [reflexivity|]. cbn [chunks]. destruct rest; cbn; [reflexivity | now rewrite app_nil_r].
  Qed.

  Lemma body_fixed_roundtrip cs e data w rest :
    write_body bt_fixed (lenN data) (Some data) = Some w -> lenN data < two64 ->
    concat cs = w ++ rest ->
    body_is (read_body_all enc_known kind_of (mkR cs e)) bt_fixed (lenN data) data rest.
  Proof.
    intros Hw Hlen Hcat. apply write_body_fixed_some in Hw. subst w. rewrite <- !app_assoc in Hcat. unfold read_body_all.
    pose proof (read_data_type_ok cs e dt_body _ (or_intror (or_introl eq_refl)) Hcat) as X.
    specialize (X ltac:(discriminate)). destruct X as [cs1 [E1 Hc1]].
    rewrite E1. cbn [N.eqb dt_body dt_response Pos.eqb].
    destruct (read_body_type_ok cs1 e bt_fixed _ ltac:(auto) Hc1) as [cs2 [E2 Hc2]].
    rewrite E2. cbn [N.eqb bt_fixed bt_empty Pos.eqb].
    destruct (read_length_ok cs2 e (lenN data) _ Hlen Hc2) as [cs3 [E3 Hc3]].
    rewrite E3.
    destruct (N.ltb_spec 0 (lenN data)) as [Hpos|Hz].
    - destruct (read_all_fixed_ok cs3 e data rest Hc3) as [r [E4 Hr]]. rewrite E4.
      exists r. split; [reflexivity | assumption].
    - assert (data = []) by (apply lenN_zero; lia). subst data. cbn [app] in Hc3.
      exists (mkR cs3 e). split; [reflexivity | assumption].
  Qed.

  Lemma body_stream_roundtrip cs e data w :
    write_body bt_stream 0 (Some data) = Some w -> e <> EndErr ->
    concat cs = w ->
    body_is (read_body_all enc_known kind_of (mkR cs e)) bt_stream 0 data [].
  Proof.
    intros Hw He Hcat. apply write_body_stream_some in Hw. subst w. unfold read_body_all.
    pose proof (read_data_type_ok cs e dt_body _ (or_intror (or_introl eq_refl)) Hcat) as X.
    specialize (X ltac:(discriminate)). destruct X as [cs1 [E1 Hc1]].
    rewrite E1. cbn [N.eqb dt_body dt_response Pos.eqb].
    destruct (read_body_type_ok cs1 e bt_stream _ ltac:(auto) Hc1) as [cs2 [E2 Hc2]].
    rewrite E2. cbn [N.eqb bt_stream bt_fixed bt_empty Pos.eqb].
    unfold read_all_stream. cbn [chunks fin]. rewrite Hc2.
    exists (mkR [] e). split; [|reflexivity]. destruct e; [reflexivity | reflexivity | congruence].
  Qed.

  (* a response head arriving where a body is expected is handed out as a response head *)
  Lemma body_response_roundtrip cs e hint hdr rest :
    enc_known hint = true -> kind_of hdr = KResp ->
    lenN hint <= max_lengthed -> lenN hdr <= max_lengthed ->
    concat cs = write_response_head hint hdr ++ rest -> lenN (concat cs) < two63 ->
    exists cs', read_body_all enc_known kind_of (mkR cs e) = Ok (BResp hint hdr (mkR cs' e)) /\ concat cs' = rest.
  Proof.
    intros Hek Hk Hs1 Hs2 Hcat Hlt. pose proof two63_lt_two64.
    unfold write_response_head in Hcat. rewrite <- !app_assoc in Hcat.
    unfold read_body_all.
    pose proof (read_data_type_ok cs e dt_response _ (or_intror (or_intror eq_refl)) Hcat (wl_nonempty _ _)) as [cs2 [E2 Hc2]].
    rewrite E2. cbn [N.eqb dt_response Pos.eqb].
    destruct (read_head_ok cs2 e dt_response hint hdr rest KResp ltac:(auto) Hek Hk Hs1 Hs2 Hc2) as [cs3 [E3 Hc3]].
    { rewrite Hc2. rewrite Hcat, !lenN_app in Hlt. rewrite !lenN_app. lia. }
    rewrite E3. cbn [hkind_eqb]. exists cs3. split; [reflexivity | assumption].
  Qed.

  (* a fixed-length body that the stream cuts short is reported (io.ReadAll returns an error), never accepted *)
  Lemma body_fixed_truncated cs e len p :
    0 < len -> len < two64 -> lenN p < len ->
    concat cs = [dt_body; bt_fixed] ++ u64be len ++ p ->
    exists r, read_body_all enc_known kind_of (mkR cs e) = Ok (BBody bt_fixed len p false r).
  Proof.
    intros Hpos Hlen Hp Hcat. unfold read_body_all.
    pose proof (read_data_type_ok cs e dt_body _ (or_intror (or_introl eq_refl)) Hcat) as X.
    specialize (X ltac:(discriminate)). destruct X as [cs1 [E1 Hc1]].
    rewrite E1. cbn [N.eqb dt_body dt_response Pos.eqb].
    destruct (read_body_type_ok cs1 e bt_fixed _ ltac:(auto) Hc1) as [cs2 [E2 Hc2]].
    rewrite E2. cbn [N.eqb bt_fixed bt_empty Pos.eqb].
    destruct (read_length_ok cs2 e len _ Hlen Hc2) as [cs3 [E3 Hc3]].
    rewrite E3. destruct (N.ltb_spec 0 len); [|lia].
    unfold read_all_fixed. cbn [chunks fin]. rewrite Hc3, splitN_spec.
    rewrite firstn_all2 by (unfold lenN in Hp; lia).
    destruct (len - lenN p) eqn:Ed; [lia|].
    eexists. reflexivity.
  Qed.

  (* ------------------------------------------------------------ truncated heads *)
  Lemma ensure_read_short cs e k : lenN (concat cs) < k -> ensure_read k (mkR cs e) = Err.
  Proof.
    intros H. unfold ensure_read. cbn [chunks fin].
    destruct (N.ltb_spec k 1); [lia|]. apply ensure_go_short; lia.
  Qed.

  (* after the data type byte: every strict prefix of lengthed(hint) ++ lengthed(hdr) is rejected by readHead *)
  Lemma read_head_trunc cs e dt hint hdr s :
    lenN hint <= max_lengthed -> lenN hdr <= max_lengthed ->
    write_lengthed hint ++ write_lengthed hdr = concat cs ++ s -> s <> [] ->
    lenN (write_lengthed hint ++ write_lengthed hdr) < two64 ->
    read_head enc_known kind_of dt (mkR cs e) = Err.
  Proof.
    intros Hs1 Hs2 Hcat Hs Hlt. pose proof max_lengthed_lt.
    unfold read_head. destruct (negb _); [reflexivity|]. unfold read_encoder.
    assert (Hp : lenN (concat cs) < two64). { rewrite Hcat, lenN_app in Hlt. lia. }
    destruct (Nat.lt_ge_cases (length (concat cs)) (length (write_lengthed hint))) as [Hc|Hc].
    - destruct (app_split_lt _ _ _ _ Hcat Hc) as [l [Hl [Hw _]]].
      rewrite (read_lengthed_trunc cs e hint l Hw Hl ltac:(lia) Hp). reflexivity.
    - destruct (app_split_le _ _ _ _ Hcat Hc) as [p3 [Hp3 Hh]].
      destruct (read_lengthed_ok2 cs e hint p3 Hp3 Hs1 Hp) as [eof [cs3 [E [Hc3 _]]]].
      rewrite E. destruct eof; [reflexivity|]. destruct (enc_known hint); [|reflexivity].
      rewrite <- Hc3 in Hh.
      rewrite (read_lengthed_trunc cs3 e hdr s Hh Hs ltac:(lia)); [reflexivity|].
      rewrite Hc3. rewrite Hp3, lenN_app in Hp. lia.
  Qed.

  Lemma request_truncation cs e prefix hint hdr w p s :
    write_request_head prefix hint hdr = Some w -> lenN prefix = prefix_len ->
    lenN hint <= max_lengthed -> lenN hdr <= max_lengthed ->
    w = p ++ s -> s <> [] -> concat cs = p -> lenN w < two63 ->
    read_request enc_known kind_of (mkR cs e) = Err.
  Proof.
    intros Hw Hpl Hs1 Hs2 Hp Hs Hcat Hlt. pose proof two63_lt_two64.
    destruct (write_request_head_some _ _ _ _ Hw) as [Ez Hw2]. rewrite Hw2 in Hp, Hlt. clear Hw Hw2.
    unfold read_request, read_prefix.
    destruct (Nat.lt_ge_cases (length p) (length prefix)) as [Hc|Hc].
    - rewrite (ensure_read_short cs e prefix_len); [reflexivity|]. rewrite Hcat. unfold lenN in *. lia.
    - destruct (app_split_le _ _ _ _ Hp Hc) as [p1 [Hp1 Hrest]]. rewrite Hp1 in Hcat.
      destruct (ensure_read_ok cs e prefix p1 ltac:(rewrite Hpl; reflexivity) Hcat) as [eof [cs1 [E1 [Hc1 _]]]].
      rewrite Hpl in E1. rewrite E1, Ez. unfold read_request_head, read_data_type.
      destruct p1 as [|t p2].
      + rewrite (ensure_read_short cs1 e 1); [reflexivity|]. rewrite Hc1. reflexivity.
      + cbn [app] in Hrest. injection Hrest as Ht Hrest. subst t.
        destruct (ensure_read_ok cs1 e [dt_request] p2 ltac:(reflexivity) Hc1) as [eof2 [cs2 [E2 [Hc2 _]]]].
        change (lenN [dt_request]) with 1 in E2. rewrite E2. destruct eof2; [reflexivity|].
        cbn [orb N.eqb dt_request Pos.eqb negb].
        rewrite <- Hc2 in Hrest.
        rewrite (read_head_trunc cs2 e dt_request hint hdr s Hs1 Hs2 Hrest Hs); [reflexivity|].
        rewrite !lenN_app in Hlt. rewrite lenN_app. lia.
  Qed.

  Lemma response_truncation cs e hint hdr p s :
    lenN hint <= max_lengthed -> lenN hdr <= max_lengthed ->
    write_response_head hint hdr = p ++ s -> s <> [] -> concat cs = p ->
    lenN (write_response_head hint hdr) < two63 ->
    read_response_head enc_known kind_of (mkR cs e) = Err /\ read_body_all enc_known kind_of (mkR cs e) = Err.
  Proof.
    intros Hs1 Hs2 Hp Hs Hcat Hlt. pose proof two63_lt_two64.
    unfold write_response_head in *. unfold read_response_head, read_body_all, read_data_type.
    destruct p as [|t p2].
    - rewrite (ensure_read_short cs e 1); [split; reflexivity|]. rewrite Hcat. reflexivity.
    - cbn [app] in Hp. injection Hp as Ht Hrest. subst t.
      destruct (ensure_read_ok cs e [dt_response] p2 ltac:(reflexivity) Hcat) as [eof2 [cs2 [E2 [Hc2 _]]]].
      change (lenN [dt_response]) with 1 in E2. rewrite E2. destruct eof2; [split; reflexivity|].
      cbn [orb N.eqb dt_response dt_request dt_body Pos.eqb negb].
      rewrite <- Hc2 in Hrest.
      rewrite (read_head_trunc cs2 e dt_response hint hdr s Hs1 Hs2 Hrest Hs); [split; reflexivity|].
      cbn [app] in Hlt. rewrite lenN_cons in Hlt. lia.
  Qed.

  (* ------------------------------------------------------------ totality *)
  Lemma read_head_kind dt r h b k r' :
    read_head enc_known kind_of dt r = Ok (h, b, k, r') ->
    (dt = dt_request -> k = KReq) /\ (dt = dt_response -> k = KResp).
  Proof.
    unfold read_head. destruct (negb _) eqn:Edt; [discriminate|].
    destruct (read_encoder enc_known r) as [[h1 r1]| |]; try discriminate.
    destruct (read_lengthed r1) as [[[b1 f] r2]| |]; try discriminate.
    destruct (kind_of b1) eqn:Ek; try discriminate.
    all: destruct (N.eqb_spec dt dt_request) as [->|Hne]; cbn [hkind_eqb]; try discriminate.
    all: intros H; injection H as <- <- <- <-; split; intros Hd; try reflexivity; try discriminate; try congruence.
  Qed.

  Lemma read_head_nopanic dt r : read_head enc_known kind_of dt r <> Panic.
  Proof.
    unfold read_head. destruct (negb _); [discriminate|].
    unfold read_encoder. pose proof (read_lengthed_nopanic r).
    destruct (read_lengthed r) as [[[h [|]] r1]| |]; try discriminate; try congruence.
    destruct (enc_known h); [|discriminate].
    pose proof (read_lengthed_nopanic r1).
    destruct (read_lengthed r1) as [[[b f] r2]| |]; try discriminate; try congruence.
    destruct (kind_of b); try discriminate; destruct (dt =? dt_request); cbn [hkind_eqb]; discriminate.
  Qed.

  Lemma read_data_type_nopanic r : read_data_type r <> Panic.
  Proof.
    unfold read_data_type. pose proof (ensure_read_nopanic 1 r).
    destruct (ensure_read 1 r) as [[[[|t [|? ?]] [|]] r']| |]; try discriminate; try congruence.
    destruct (_ || _); discriminate.
  Qed.

  Lemma read_body_type_nopanic r : read_body_type r <> Panic.
  Proof.
    unfold read_body_type. pose proof (ensure_read_nopanic 1 r).
    destruct (ensure_read 1 r) as [[[[|t [|? ?]] f] r']| |]; try discriminate; try congruence.
    destruct (_ || _); discriminate.
  Qed.

  Lemma read_request_head_total r : read_request_head enc_known kind_of r <> Panic.
  Proof.
    unfold read_request_head. pose proof (read_data_type_nopanic r).
    destruct (read_data_type r) as [[t r1]| |]; try discriminate; try congruence.
    destruct (N.eqb_spec t dt_request) as [->|]; cbn [negb]; [|discriminate].
    pose proof (read_head_nopanic dt_request r1).
    destruct (read_head enc_known kind_of dt_request r1) as [[[[h b] k] r2]| |] eqn:E; try discriminate; try congruence.
    destruct (read_head_kind _ _ _ _ _ _ E) as [Hk _]. rewrite (Hk eq_refl). discriminate.
  Qed.

  Lemma read_response_head_total r : read_response_head enc_known kind_of r <> Panic.
  Proof.
    unfold read_response_head. pose proof (read_data_type_nopanic r).
    destruct (read_data_type r) as [[t r1]| |]; try discriminate; try congruence.
    destruct (N.eqb_spec t dt_response) as [->|]; cbn [negb]; [|discriminate].
    pose proof (read_head_nopanic dt_response r1).
    destruct (read_head enc_known kind_of dt_response r1) as [[[[h b] k] r2]| |] eqn:E; try discriminate; try congruence.
    destruct (read_head_kind _ _ _ _ _ _ E) as [_ Hk]. rewrite (Hk eq_refl). discriminate.
  Qed.

  Lemma read_request_total r : read_request enc_known kind_of r <> Panic.
  Proof.
    unfold read_request, read_prefix. pose proof (ensure_read_nopanic prefix_len r).
    destruct (ensure_read prefix_len r) as [[[p f] r1]| |]; try discriminate; try congruence.
    destruct (all_zero p); [discriminate|].
    pose proof (read_request_head_total r1).
    destruct (read_request_head enc_known kind_of r1) as [[[h b] r2]| |]; try discriminate; congruence.
  Qed.

  Lemma read_body_all_total r : read_body_all enc_known kind_of r <> Panic.
  Proof.
    unfold read_body_all. pose proof (read_data_type_nopanic r).
    destruct (read_data_type r) as [[t r1]| |]; try discriminate; try congruence.
    destruct (N.eqb_spec t dt_response) as [->|].
    - pose proof (read_head_nopanic dt_response r1).
      destruct (read_head enc_known kind_of dt_response r1) as [[[[h b] k] r2]| |] eqn:E; try discriminate; try congruence.
      destruct (read_head_kind _ _ _ _ _ _ E) as [_ Hk]. rewrite (Hk eq_refl). discriminate.
    - destruct (t =? dt_body); [|discriminate].
      pose proof (read_body_type_nopanic r1).
      destruct (read_body_type r1) as [[bt r2]| |]; try discriminate; try congruence.
      destruct (bt =? bt_empty); [discriminate|].
      destruct (bt =? bt_fixed).
      + pose proof (read_length_nopanic r2).
        destruct (read_length r2) as [[len r3]| |]; try discriminate; try congruence.
        destruct (0 <? len); [|discriminate].
        destruct (read_all_fixed len r3) as [[d ok] r4]. discriminate.
      + destruct (read_all_stream r2) as [[d ok] r3]. discriminate.
  Qed.
End Codec.
