(* C30 -- Stream header protocol round-trips and survives hostile peers
   (network/quicstream/header/broker.go, header.go; quicstream.readPrefix/WritePrefix; util/bytes.go via C29).
   Property theorems only.

   Model: C30/Model.v over the io.Reader model of C29 (chunk list + ending policy).  The encoder layer is opaque:
   every theorem holds for ALL functions enc_known (is the encoder hint registered) and kind_of (what decoding
   the header bytes yields: error / RequestHeader / ResponseHeader / other Header).
   read_request = PrefixHandler's readPrefix followed by HandlerBroker.ReadRequestHead;
   read_response_head = ClientBroker.ReadResponseHead; read_body_all = ReadBody followed by io.ReadAll(body). *)
From Coq Require Import String.
From Coq Require Import List NArith ZArith Bool.
From MV Require Import Gen.C29 C29.Model C29.ProofsBuf C30.Model C30.Proofs.
Import ListNotations.
Close Scope string_scope.
Open Scope list_scope.
Open Scope N_scope.

(* Request head: what WriteRequestHead writes (followed by anything) is read back identically by the handler
   side under ANY chunking and ending policy; exactly the bytes after the head stay in the stream. *)
Theorem C30_roundtrip_request : forall enc_known kind_of cs e prefix hint hdr w rest,
  write_request_head prefix hint hdr = Some w -> lenN prefix = prefix_len ->
  enc_known hint = true -> kind_of hdr = KReq ->
  lenN hint <= max_lengthed -> lenN hdr <= max_lengthed ->
  concat cs = w ++ rest -> lenN (w ++ rest) < two63 ->
  exists cs', read_request enc_known kind_of (mkR cs e) = Ok (prefix, hint, hdr, mkR cs' e) /\ concat cs' = rest.
Proof. exact request_roundtrip. Qed.

(* Response head, read by ReadResponseHead ... *)
Theorem C30_roundtrip_response : forall enc_known kind_of cs e hint hdr rest,
  enc_known hint = true -> kind_of hdr = KResp ->
  lenN hint <= max_lengthed -> lenN hdr <= max_lengthed ->
  concat cs = write_response_head hint hdr ++ rest -> lenN (concat cs) < two63 ->
  exists cs', read_response_head enc_known kind_of (mkR cs e) = Ok (hint, hdr, mkR cs' e) /\ concat cs' = rest.
Proof. exact response_roundtrip. Qed.

(* ... and by ReadBody (an error response arriving where a body is expected). *)
Theorem C30_roundtrip_response_as_body : forall enc_known kind_of cs e hint hdr rest,
  enc_known hint = true -> kind_of hdr = KResp ->
  lenN hint <= max_lengthed -> lenN hdr <= max_lengthed ->
  concat cs = write_response_head hint hdr ++ rest -> lenN (concat cs) < two63 ->
  exists cs', read_body_all enc_known kind_of (mkR cs e) = Ok (BResp hint hdr (mkR cs' e)) /\ concat cs' = rest.
Proof. exact body_response_roundtrip. Qed.

(* Bodies of every kind under any chunking.  body_is res bt len data rest: ReadBody succeeded with body type bt and
   announced length len, io.ReadAll(body) returned exactly data without error, rest is still in the stream. *)
Theorem C30_roundtrip_body_empty : forall enc_known kind_of cs e w rest,
  write_body bt_empty 0 None = Some w -> concat cs = w ++ rest ->
  body_is (read_body_all enc_known kind_of (mkR cs e)) bt_empty 0 [] rest.
Proof. exact body_empty_roundtrip. Qed.

Theorem C30_roundtrip_body_fixed : forall enc_known kind_of cs e data w rest,
  write_body bt_fixed (lenN data) (Some data) = Some w -> lenN data < two64 ->
  concat cs = w ++ rest ->
  body_is (read_body_all enc_known kind_of (mkR cs e)) bt_fixed (lenN data) data rest.
Proof. exact body_fixed_roundtrip. Qed.

Theorem C30_roundtrip_body_stream : forall enc_known kind_of cs e data w,
  write_body bt_stream 0 (Some data) = Some w -> e <> EndErr -> concat cs = w ->
  body_is (read_body_all enc_known kind_of (mkR cs e)) bt_stream 0 data [].
Proof. exact body_stream_roundtrip. Qed.

(* A fixed-length body cut short by the peer is never handed out as complete: io.ReadAll(body) fails. *)
Theorem C30_fixed_body_truncation : forall enc_known kind_of cs e len p,
  0 < len -> len < two64 -> lenN p < len ->
  concat cs = [dt_body; bt_fixed] ++ u64be len ++ p ->
  exists r, read_body_all enc_known kind_of (mkR cs e) = Ok (BBody bt_fixed len p false r).
Proof. exact body_fixed_truncated. Qed.

(* Every strict prefix of a request head / response head is rejected, however chunked, however the stream ends
   and whatever the encoder layer answers. *)
Theorem C30_request_truncation : forall enc_known kind_of cs e prefix hint hdr w p s,
  write_request_head prefix hint hdr = Some w -> lenN prefix = prefix_len ->
  lenN hint <= max_lengthed -> lenN hdr <= max_lengthed ->
  w = p ++ s -> s <> [] -> concat cs = p -> lenN w < two63 ->
  read_request enc_known kind_of (mkR cs e) = Err.
Proof. exact request_truncation. Qed.

Theorem C30_response_truncation : forall enc_known kind_of cs e hint hdr p s,
  lenN hint <= max_lengthed -> lenN hdr <= max_lengthed ->
  write_response_head hint hdr = p ++ s -> s <> [] -> concat cs = p ->
  lenN (write_response_head hint hdr) < two63 ->
  read_response_head enc_known kind_of (mkR cs e) = Err /\ read_body_all enc_known kind_of (mkR cs e) = Err.
Proof. exact response_truncation. Qed.

(* Totality: EVERY byte stream, chunking, ending policy and encoder behaviour yields Ok or Err; the type
   assertions header.(RequestHeader) / header.(ResponseHeader) can never panic. *)
Theorem C30_total : forall enc_known kind_of r,
  read_request enc_known kind_of r <> Panic /\
  read_request_head enc_known kind_of r <> Panic /\
  read_response_head enc_known kind_of r <> Panic /\
  read_body_all enc_known kind_of r <> Panic.
Proof.
  intros. repeat split.
  - apply read_request_total.
  - apply read_request_head_total.
  - apply read_response_head_total.
  - apply read_body_all_total.
Qed.

(* A head is only ever accepted with the kind the call asks for. *)
Theorem C30_head_kind : forall enc_known kind_of dt r h b k r',
  read_head enc_known kind_of dt r = Ok (h, b, k, r') ->
  (dt = dt_request -> k = KReq) /\ (dt = dt_response -> k = KResp).
Proof. exact read_head_kind. Qed.

(* non-vacuity: a request head and a fixed body on one stream, delivered one byte at a time *)
Example C30_ex :
  let prefix := repeat 7 32 in
  let w := prefix ++ [dt_request] ++ write_lengthed [106] ++ write_lengthed [123; 125] ++ [dt_body; bt_fixed] ++ u64be 3 ++ [1; 2; 3] ++ [9] in
  match read_request (fun _ => true) (fun _ => KReq) (mkR (map (fun x => [x]) w) EndEOFWithLast) with
  | Ok (p, h, b, r) =>
      p = prefix /\ h = [106] /\ b = [123; 125] /\
      match read_body_all (fun _ => true) (fun _ => KReq) r with
      | Ok (BBody bt len d ok r') => bt = bt_fixed /\ len = 3 /\ d = [1; 2; 3] /\ ok = true /\ concat (chunks r') = [9]
      | _ => False
      end
  | _ => False
  end.
Proof. vm_compute. repeat split; reflexivity. Qed.

Example C30_ex_wrong_kind :
  read_response_head (fun _ => true) (fun _ => KReq) (mkR [write_response_head [106] [123; 125]] EndEOF) = Err.
Proof. vm_compute. reflexivity. Qed.
