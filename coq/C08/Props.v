(* C08 -- The local node never equivocates.  Property theorems only.

   [run init l] is the state after ANY sequence [l] of atomic steps of any number of threads, each of which
   may try to send ANY ballot at any time ([ASet t b]: the region of DefaultBallotBroadcaster.Broadcast under
   its mutex; [ABcast t]: the call of broadcastFunc; [ALookup]: a caller's pool lookup).  The consensus
   handlers' broadcast, the timers' re-broadcast and the mimic-ballot deliveries are all threads of this
   shape, so every interleaving of them is such a sequence. *)
From Coq Require Import NArith List Bool.
From MV Require Import C08.Model C08.Proofs.
Import ListNotations.
Open Scope N_scope.

(* For each key (stage point and suffrage-confirm flag) all ballots of the local node handed to
   broadcastFunc are one and the same ballot -- in particular one fact. *)
Theorem C08_single_fact : forall l b1 b2,
  In b1 (log (run init l)) -> In b2 (log (run init l)) ->
  blocal b1 = true -> blocal b2 = true -> bkey b1 = bkey b2 -> bfact b1 = bfact b2.
Proof. intros l b1 b2 H1 H2 L1 L2 E. rewrite (single_ballot l b1 b2 H1 H2 L1 L2 E). reflexivity. Qed.

(* ... because every broadcast local ballot is the ballot the pool holds for its key ... *)
Theorem C08_broadcast_is_pooled : forall l b, In b (log (run init l)) -> blocal b = true ->
  get (bkey b) (pl (run init l)) = Some b.
Proof. intros l b H L. destruct (run_inv l init inv_init) as (_ & _ & X). apply X; assumption. Qed.

(* ... and the pool never replaces the ballot of a key (first writer wins), whatever runs afterwards. *)
Theorem C08_pool_first_writer_wins : forall l l' k b,
  get k (pl (run init l)) = Some b -> get k (pl (run init (l ++ l'))) = Some b.
Proof. intros l l' k b H. unfold run. rewrite fold_left_app. apply run_pool_stable. exact H. Qed.

(* What the local node SIGNS (produces for voting and sending), on the prepare-ballot paths of the handlers
   (makeINITBallot / makeACCEPTBallot / makeSuffrageConfirmBallot) and the mimic path alike: a thread whose pool
   lookup found a ballot for the key prepares that very ballot; no second fact is signed. *)
Theorem C08_prepare_reuses_pooled : forall s t k f h, getp t (seen s) = Some h ->
  getp t (prep (step s (APrepare t k f))) = Some h /\
  (blocal h = true -> signed (step s (APrepare t k f)) = signed s ++ [h]).
Proof. exact prepare_reuses. Qed.

(* Hence, when prepare paths run one after the other (mimic while syncing, then the consensus handler for the
   same point -- any number of them, any keys, any facts they would sign), all ballots the local node produces
   for one key are one ballot.  (Two paths that are both past their lookup before either stores still sign two
   facts, of which only the first is broadcast: C08_single_fact.) *)
Theorem C08_signed_single_fact_serial : forall l b1 b2,
  In b1 (signed (run init (txns l))) -> In b2 (signed (run init (txns l))) -> bkey b1 = bkey b2 -> bfact b1 = bfact b2.
Proof. intros l b1 b2 H1 H2 E. rewrite (serial_signed_single l b1 b2 H1 H2 E). reflexivity. Qed.

(* The code before the fix (SetBallot's "already exists" ignored, the second ballot broadcast anyway) does
   equivocate: two deliveries for one key, both past their pool lookup before either stores. *)
Theorem C08_ignore_set_result_refuted :
  exists l b1 b2, In b1 (log (run_old init l)) /\ In b2 (log (run_old init l)) /\
    blocal b1 = true /\ blocal b2 = true /\ bkey b1 = bkey b2 /\ bfact b1 <> bfact b2.
Proof.
  exists [ALookup 1 7; ALookup 2 7; ASet 1 (mkB 7 100 true); ASet 2 (mkB 7 200 true); ABcast 1; ABcast 2],
         (mkB 7 100 true), (mkB 7 200 true).
  vm_compute. repeat split; auto. discriminate.
Qed.

(* Pool errors are steps of the schedules above ([ALookupErr], [ASetErr], [ASetPreparedErr]: the call fails, Broadcast
   returns the error and sends nothing), so C08_single_fact holds through any pool failure.  A broadcaster that
   "keeps going" after a failed set and sends the given ballot as it is equivocates: fact 100 pooled and sent, the
   pool fails (closed while the node stops), a ballot with fact 200 for the same key reaches Broadcast. *)
Theorem C08_keep_going_after_pool_error_refuted :
  exists l b1 b2, In b1 (log (run_keep_going init l)) /\ In b2 (log (run_keep_going init l)) /\
    blocal b1 = true /\ blocal b2 = true /\ bkey b1 = bkey b2 /\ bfact b1 <> bfact b2.
Proof.
  exists [ASet 1 (mkB 7 100 true); ABcast 1; ASetErr 2 (mkB 7 200 true); ABcast 2], (mkB 7 100 true), (mkB 7 200 true).
  vm_compute. repeat split; auto. discriminate.
Qed.

(* ---- non-vacuity *)

(* the same schedule on the code as it is: nothing is sent after the failed set *)
Example C08_ex_pool_error_sends_nothing :
  log (run init [ASet 1 (mkB 7 100 true); ABcast 1; ASetErr 2 (mkB 7 200 true); ABcast 2]) = [mkB 7 100 true].
Proof. vm_compute. reflexivity. Qed.


(* the same schedule on the fixed code: the second thread broadcasts the first ballot *)
Example C08_ex_second_sends_first :
  log (run init [ALookup 1 7; ALookup 2 7; ASet 1 (mkB 7 100 true); ASet 2 (mkB 7 200 true); ABcast 1; ABcast 2])
  = [mkB 7 100 true; mkB 7 100 true].
Proof. vm_compute. reflexivity. Qed.

(* mimic pooled fact 100 for key 7; the handler, which would sign fact 200, reuses it *)
Example C08_ex_handler_after_mimic :
  map bfact (signed (run init (txns [(1, 7, 100); (2, 7, 200)]))) = [100; 100].
Proof. vm_compute. reflexivity. Qed.

(* different keys are independent; a ballot of another node is passed through untouched *)
Example C08_ex_other_keys :
  log (run init [ASet 1 (mkB 7 100 true); ASet 2 (mkB 8 200 true); ASet 3 (mkB 7 300 false); ABcast 3; ABcast 2; ABcast 1])
  = [mkB 7 300 false; mkB 8 200 true; mkB 7 100 true].
Proof. vm_compute. reflexivity. Qed.
