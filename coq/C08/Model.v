(* C08 -- the local node never equivocates.

   Transcribes (after the fix: commit that makes Broadcast send the ballot the pool holds):
     isaac/states/ballot.go   DefaultBallotBroadcaster.Broadcast / set
     isaac/states/states.go   States.mimicBallotFunc (pool lookup, sign, Broadcast)
     isaac/database/pool.go   TempPool.SetBallot (first writer wins), TempPool.Ballot

   Every path on which the local node sends a ballot -- the consensus handlers' own broadcast, the timers'
   re-broadcast, the mimic-ballot path taken while syncing -- ends in DefaultBallotBroadcaster.Broadcast(b):
       set(b)            under the broadcaster's mutex bb.l: pool.SetBallot (exists-then-put: atomic HERE because
                         bb.l is held and nothing else writes ballots), then read back what the pool holds
       broadcastFunc(h)  outside the mutex, with the ballot h the pool holds
   Atomic steps are exactly: the pool lookup of the callers, the region under bb.l, and broadcastFunc.
   A ballot is (key, fact, local?) where key stands for (point, stage, is-suffrage-confirm).  No proofs here. *)
From Coq Require Import NArith List Bool.
Import ListNotations.
Open Scope N_scope.

Record ballot := mkB { bkey : N; bfact : N; blocal : bool }.

Definition ballot_eqb (a b : ballot) : bool :=
  N.eqb (bkey a) (bkey b) && N.eqb (bfact a) (bfact b) && Bool.eqb (blocal a) (blocal b).

Definition pool := list (N * ballot).

Fixpoint get (k : N) (p : pool) : option ballot :=
  match p with
  | [] => None
  | (k', b) :: r => if N.eqb k k' then Some b else get k r
  end.

(* per-thread ballot on its way from set() to broadcastFunc *)
Fixpoint getp (t : N) (p : list (N * ballot)) : option ballot :=
  match p with
  | [] => None
  | (t', b) :: r => if N.eqb t t' then Some b else getp t r
  end.

Fixpoint delp (t : N) (p : list (N * ballot)) : list (N * ballot) :=
  match p with
  | [] => []
  | (t', b) :: r => if N.eqb t t' then delp t r else (t', b) :: delp t r
  end.

(* seen: what a preparing thread found in the pool at its lookup; prep: the ballot it then decided to send;
   signed: every ballot of the local node a thread has produced for sending or voting (reused or newly signed) *)
Record st := mkSt { pl : pool; pend : list (N * ballot); log : list ballot;
                    seen : list (N * ballot); prep : list (N * ballot); signed : list ballot }.

Definition init : st := mkSt [] [] [] [] [] [].

(* atomic steps of any number of threads; the ballot a thread tries to send is arbitrary (a superset of what
   the callers can produce after their pool lookup) *)
Inductive astep :=
| ALookup (t : N) (k : N)        (* pool.Ballot by a caller: reads the pool, remembers what it found *)
| ASet (t : N) (b : ballot)      (* DefaultBallotBroadcaster.set(b), under bb.l, with ANY ballot b the thread produced *)
| ABcast (t : N)                 (* broadcastFunc(held) *)
| APrepare (t : N) (k f : N)     (* the prepare-ballot paths (baseBallotHandler.makeINITBallot / makeACCEPTBallot /
                                    makeSuffrageConfirmBallot): reuse the ballot found at the lookup, else sign fact f *)
| ASetPrepared (t : N)           (* Broadcast of the prepared ballot: the region under bb.l *)
(* the pool fails (closed while the node stops, storage error): the call returns an error *)
| ALookupErr (t : N)             (* pool.Ballot of a caller fails: the caller gives up, nothing remembered *)
| ASetErr (t : N) (b : ballot)   (* set(b) fails (SetBallot or the read-back): Broadcast returns the error, NOTHING is sent *)
| ASetPreparedErr (t : N).       (* the same for a prepared ballot *)

(* set: a ballot not signed by the local node is passed through; a local one is stored unless the pool
   already holds one for its key; what goes on is what the pool holds *)
Definition do_set (s : st) (t : N) (b : ballot) : st :=
  if blocal b then
    match get (bkey b) (pl s) with
    | Some h => mkSt (pl s) ((t, h) :: delp t (pend s)) (log s) (seen s) (prep s) (signed s)
    | None => mkSt ((bkey b, b) :: pl s) ((t, b) :: delp t (pend s)) (log s) (seen s) (prep s) (signed s)
    end
  else mkSt (pl s) ((t, b) :: delp t (pend s)) (log s) (seen s) (prep s) (signed s).

(* the code before the fix: SetBallot's "already exists" ignored, b itself goes on *)
Definition do_set_old (s : st) (t : N) (b : ballot) : st :=
  if blocal b then
    match get (bkey b) (pl s) with
    | Some _ => mkSt (pl s) ((t, b) :: delp t (pend s)) (log s) (seen s) (prep s) (signed s)
    | None => mkSt ((bkey b, b) :: pl s) ((t, b) :: delp t (pend s)) (log s) (seen s) (prep s) (signed s)
    end
  else mkSt (pl s) ((t, b) :: delp t (pend s)) (log s) (seen s) (prep s) (signed s).

Definition do_bcast (s : st) (t : N) : st :=
  match getp t (pend s) with
  | Some h => mkSt (pl s) (delp t (pend s)) (log s ++ [h]) (seen s) (prep s) (signed s)
  | None => s
  end.

Definition note_signed (s : st) (b : ballot) : st :=
  if blocal b then mkSt (pl s) (pend s) (log s) (seen s) (prep s) (signed s ++ [b]) else s.

Definition do_lookup (s : st) (t k : N) : st :=
  mkSt (pl s) (pend s) (log s)
       (match get k (pl s) with Some h => (t, h) :: delp t (seen s) | None => delp t (seen s) end)
       (prep s) (signed s).

Definition do_prepare (s : st) (t k f : N) : st :=
  let b := match getp t (seen s) with Some h => h | None => mkB k f true end in
  note_signed (mkSt (pl s) (pend s) (log s) (seen s) ((t, b) :: delp t (prep s)) (signed s)) b.

Definition do_set_prepared (s : st) (t : N) : st :=
  match getp t (prep s) with Some b => do_set s t b | None => s end.

Definition step (s : st) (a : astep) : st :=
  match a with
  | ALookup t k => do_lookup s t k
  | ASet t b => note_signed (do_set s t b) b
  | ABcast t => do_bcast s t
  | APrepare t k f => do_prepare s t k f
  | ASetPrepared t => do_set_prepared s t
  | ALookupErr t => mkSt (pl s) (pend s) (log s) (delp t (seen s)) (prep s) (signed s)
  | ASetErr t b => note_signed (mkSt (pl s) (delp t (pend s)) (log s) (seen s) (prep s) (signed s)) b
  | ASetPreparedErr t => mkSt (pl s) (delp t (pend s)) (log s) (seen s) (prep s) (signed s)
  end.

(* the variant that keeps going after a pool error and sends the given ballot as it is *)
Definition step_keep_going (s : st) (a : astep) : st :=
  match a with
  | ASetErr t b => note_signed (mkSt (pl s) ((t, b) :: delp t (pend s)) (log s) (seen s) (prep s) (signed s)) b
  | _ => step s a
  end.
Definition run_keep_going (s : st) (l : list astep) : st := fold_left step_keep_going l s.

Definition step_old (s : st) (a : astep) : st :=
  match a with
  | ASet t b => note_signed (do_set_old s t b) b
  | _ => step s a
  end.

(* one uninterrupted run of a prepare-ballot path by thread t for key k, signing fact f if nothing is pooled *)
Definition txn (t k f : N) : list astep := [ALookup t k; APrepare t k f; ASetPrepared t; ABcast t].

Definition run (s : st) (l : list astep) : st := fold_left step l s.
Definition run_old (s : st) (l : list astep) : st := fold_left step_old l s.

(* ------------------------------------------------------------------ correspondence *)

(* observation after a step: result of the lookup (for ALookup), the facts the pool holds for the watched
   keys, the broadcast log as (key, fact, local), the local ballots produced so far as (key, fact) *)
Definition obs := (option (option N) * list (option N) * list (N * N * bool) * list (N * N))%type.

Definition observe (keys : list N) (s : st) (a : astep) : obs :=
  (match a with ALookup _ k => Some (option_map bfact (get k (pl s))) | _ => None end,
   map (fun k => option_map bfact (get k (pl s))) keys,
   map (fun b => (bkey b, bfact b, blocal b)) (log s),
   map (fun b => (bkey b, bfact b)) (signed s)).

Fixpoint run_obs (keys : list N) (s : st) (l : list astep) : list obs :=
  match l with
  | [] => []
  | a :: r => let s' := step s a in observe keys s' a :: run_obs keys s' r
  end.

Definition optN_eqb (a b : option N) : bool :=
  match a, b with None, None => true | Some x, Some y => N.eqb x y | _, _ => false end.

Fixpoint list_eqb' {A} (eqb : A -> A -> bool) (a b : list A) : bool :=
  match a, b with
  | [], [] => true
  | x :: a', y :: b' => eqb x y && list_eqb' eqb a' b'
  | _, _ => false
  end.

Definition obs_eqb (a b : obs) : bool :=
  match a, b with
  | (la, pa, ga, sa), (lb, pb, gb, sb) =>
      list_eqb' (fun x y => N.eqb (fst x) (fst y) && N.eqb (snd x) (snd y)) sa sb &&
      match la, lb with None, None => true | Some x, Some y => optN_eqb x y | _, _ => false end &&
      list_eqb' optN_eqb pa pb &&
      list_eqb' (fun x y => match x, y with (k, f, l), (k', f', l') => N.eqb k k' && N.eqb f f' && Bool.eqb l l' end) ga gb
  end.

(* a case: watched keys, the forced schedule (as atomic steps), the observations of the real objects *)
Definition case := (list N * list astep * list obs)%type.

Definition check (c : case) : bool :=
  match c with (keys, l, ob) => list_eqb' obs_eqb (run_obs keys init l) ob end.
