(* C08 -- lemmas: every logged local ballot is the one the pool holds; the pool never changes a key once set. *)
From Coq Require Import NArith List Bool.
From MV Require Import C08.Model.
Import ListNotations.
Open Scope N_scope.

Ltac inv H := inversion H; subst; clear H.

(* pool entries are filed under their own key *)
Definition keyed (p : pool) : Prop := forall k b, get k p = Some b -> bkey b = k.

Definition inv (s : st) : Prop :=
  keyed (pl s) /\
  (forall t h, getp t (pend s) = Some h -> blocal h = true -> get (bkey h) (pl s) = Some h) /\
  (forall b, In b (log s) -> blocal b = true -> get (bkey b) (pl s) = Some b).

Lemma getp_delp_same : forall t p, getp t (delp t p) = None.
Proof.
  induction p as [|[t' b] p IH]; simpl; auto.
  destruct (N.eqb t t') eqn:E; auto. simpl. rewrite E. exact IH.
Qed.

Lemma getp_delp_other : forall t u p, u <> t -> getp u (delp t p) = getp u p.
Proof.
  induction p as [|[t' b] p IH]; intros H; simpl; auto.
  destruct (N.eqb t t') eqn:E.
  - apply N.eqb_eq in E. subst t'. destruct (N.eqb u t) eqn:F; [apply N.eqb_eq in F; congruence|auto].
  - simpl. destruct (N.eqb u t'); auto.
Qed.

Lemma note_signed_same : forall s b, pl (note_signed s b) = pl s /\ pend (note_signed s b) = pend s /\ log (note_signed s b) = log s.
Proof. intros s b. unfold note_signed. destruct (blocal b); simpl; auto. Qed.

Lemma do_set_pool_stable : forall s t b' k b, get k (pl s) = Some b -> get k (pl (do_set s t b')) = Some b.
Proof.
  intros s t b' k b H. unfold do_set. destruct (blocal b'); [|exact H].
  destruct (get (bkey b') (pl s)) eqn:G; simpl; [exact H|].
  destruct (N.eqb k (bkey b')) eqn:E; [apply N.eqb_eq in E; subst k; congruence|exact H].
Qed.

(* first writer wins: a step never changes what the pool holds for a key that is set *)
Lemma step_pool_stable : forall s a k b, get k (pl s) = Some b -> get k (pl (step s a)) = Some b.
Proof.
  intros s a k b H. destruct a as [t k'|t b'|t|t k' f|t|t|t b'|t]; simpl; auto.
  - destruct (note_signed_same (do_set s t b') b') as (E & _). rewrite E. apply do_set_pool_stable. exact H.
  - unfold do_bcast. destruct (getp t (pend s)); exact H.
  - unfold do_prepare. match goal with |- context [note_signed ?x ?y] => destruct (note_signed_same x y) as (E & _); rewrite E end. exact H.
  - unfold do_set_prepared. destruct (getp t (prep s)); [apply do_set_pool_stable|]; exact H.
  - match goal with |- context [note_signed ?x ?y] => destruct (note_signed_same x y) as (E & _); rewrite E end. exact H.
Qed.

Lemma run_pool_stable : forall l s k b, get k (pl s) = Some b -> get k (pl (run s l)) = Some b.
Proof.
  induction l as [|a l IH]; intros s k b H; simpl; auto. apply IH. apply step_pool_stable. exact H.
Qed.

Lemma inv_ext : forall s s', pl s' = pl s -> pend s' = pend s -> log s' = log s -> inv s -> inv s'.
Proof. intros s s' A B C (K & P & L). unfold inv. rewrite A, B, C. auto. Qed.

Lemma do_set_inv : forall s t b, inv s -> inv (do_set s t b).
Proof.
  intros s t b (K & P & L).
    unfold do_set. destruct (blocal b) eqn:Lb.
    + destruct (get (bkey b) (pl s)) as [h|] eqn:G; simpl.
      * split; [exact K|]. split; [|exact L].
        intros u x Hx Lx. simpl in Hx. destruct (N.eqb u t) eqn:E.
        -- inv Hx. rewrite (K _ _ G). exact G.
        -- apply N.eqb_neq in E. rewrite getp_delp_other in Hx by exact E. eapply P; eauto.
      * assert (forall k x, get k (pl s) = Some x -> get k ((bkey b, b) :: pl s) = Some x) as W.
        { intros k x Hk. simpl. destruct (N.eqb k (bkey b)) eqn:E; [apply N.eqb_eq in E; subst k; congruence|exact Hk]. }
        split.
        { intros k x Hk. simpl in Hk. destruct (N.eqb k (bkey b)) eqn:E; [inv Hk; apply N.eqb_eq in E; auto|apply K; auto]. }
        split.
        { intros u x Hx Lx. simpl in Hx. destruct (N.eqb u t) eqn:E.
          - inv Hx. simpl. rewrite N.eqb_refl. reflexivity.
          - apply N.eqb_neq in E. rewrite getp_delp_other in Hx by exact E. apply W. eapply P; eauto. }
        intros x Hx Lx. apply W. apply L; auto.
    + simpl. split; [exact K|]. split; [|exact L].
      intros u x Hx Lx. simpl in Hx. destruct (N.eqb u t) eqn:E.
      * inv Hx. congruence.
      * apply N.eqb_neq in E. rewrite getp_delp_other in Hx by exact E. eapply P; eauto.
Qed.

Lemma do_bcast_inv : forall s t, inv s -> inv (do_bcast s t).
Proof.
  intros s t (K & P & L).
    unfold do_bcast. destruct (getp t (pend s)) as [h|] eqn:G; [|repeat split; auto]. simpl.
    split; [exact K|]. split.
    + intros u x Hx Lx. simpl in Hx. destruct (N.eq_dec u t) as [E|E].
      * subst u. rewrite getp_delp_same in Hx. discriminate.
      * rewrite getp_delp_other in Hx by exact E. eapply P; eauto.
    + intros x Hx Lx. simpl in Hx. apply in_app_or in Hx. destruct Hx as [Hx|[Hx|[]]]; [apply L; auto|subst x; eapply P; eauto].
Qed.

Lemma getp_delp_some : forall t u p h, getp u (delp t p) = Some h -> getp u p = Some h.
Proof.
  intros t u p h H. destruct (N.eq_dec u t) as [E|E].
  - subst u. rewrite getp_delp_same in H. discriminate.
  - rewrite getp_delp_other in H by exact E. exact H.
Qed.

Lemma drop_pend_inv : forall s t, inv s -> inv (mkSt (pl s) (delp t (pend s)) (log s) (seen s) (prep s) (signed s)).
Proof.
  intros s t (K & P & L). split; [exact K|]. split; [|exact L].
  intros u h Hu Lh. simpl in Hu. apply getp_delp_some in Hu. eapply P; eauto.
Qed.

Lemma step_inv : forall s a, inv s -> inv (step s a).
Proof.
  intros s a H. destruct a as [t k|t b|t|t k f|t|t|t b|t]; simpl.
  - eapply inv_ext; [| | |exact H]; reflexivity.
  - destruct (note_signed_same (do_set s t b) b) as (A & B & C). eapply inv_ext; eauto. apply do_set_inv. exact H.
  - apply do_bcast_inv. exact H.
  - unfold do_prepare. match goal with |- context [note_signed ?x ?y] => destruct (note_signed_same x y) as (A & B & C) end.
    eapply inv_ext; eauto.
  - unfold do_set_prepared. destruct (getp t (prep s)); [apply do_set_inv|]; exact H.
  - eapply inv_ext; [| | |exact H]; reflexivity.
  - match goal with |- context [note_signed ?x ?y] => destruct (note_signed_same x y) as (A & B & C) end.
    eapply inv_ext; eauto. apply drop_pend_inv. exact H.
  - apply drop_pend_inv. exact H.
Qed.

Lemma inv_init : inv init.
Proof. repeat split; simpl; intros; try discriminate; try contradiction. Qed.

Lemma run_inv : forall l s, inv s -> inv (run s l).
Proof. induction l as [|a l IH]; intros s H; simpl; auto. apply IH. apply step_inv. exact H. Qed.

Lemma single_ballot : forall l b1 b2, In b1 (log (run init l)) -> In b2 (log (run init l)) ->
  blocal b1 = true -> blocal b2 = true -> bkey b1 = bkey b2 -> b1 = b2.
Proof.
  intros l b1 b2 H1 H2 L1 L2 E. destruct (run_inv l init inv_init) as (_ & _ & L).
  pose proof (L _ H1 L1) as G1. pose proof (L _ H2 L2) as G2. rewrite E in G1. congruence.
Qed.

(* ------------------------------------------------------------------ signed ballots of the prepare paths *)

(* a thread whose lookup found a pooled ballot prepares that very ballot: no second fact is signed *)
Lemma prepare_reuses : forall s t k f h, getp t (seen s) = Some h ->
  getp t (prep (do_prepare s t k f)) = Some h /\
  (blocal h = true -> signed (do_prepare s t k f) = signed s ++ [h]).
Proof.
  intros s t k f h H. unfold do_prepare. rewrite H. unfold note_signed.
  destruct (blocal h) eqn:L; simpl; rewrite N.eqb_refl; split; auto; discriminate.
Qed.

(* serial prepare paths: every pooled ballot is local and filed under its key, every produced ballot is pooled *)
Definition sinv (s : st) : Prop :=
  keyed (pl s) /\ (forall k b, get k (pl s) = Some b -> blocal b = true) /\
  (forall b, In b (signed s) -> get (bkey b) (pl s) = Some b).

Lemma txn_sinv : forall s t k f, sinv s -> sinv (run s (txn t k f)).
Proof.
  intros s t k f (K & A & S). unfold run, txn, fold_left, step.
  unfold do_lookup. destruct (get k (pl s)) as [h|] eqn:G.
  - (* reuse h *)
    pose proof (A _ _ G) as Lh. pose proof (K _ _ G) as Kh.
    unfold do_prepare. simpl. rewrite N.eqb_refl. unfold note_signed. rewrite Lh. simpl.
    unfold do_set_prepared. simpl. rewrite N.eqb_refl. unfold do_set. rewrite Lh. simpl. rewrite Kh, G.
    unfold do_bcast. simpl. rewrite N.eqb_refl. simpl.
    split; [exact K|]. split; [exact A|]. intros b Hb. apply in_app_or in Hb.
    destruct Hb as [Hb|[Hb|[]]]; [apply S; auto|subst b; rewrite Kh; exact G].
  - (* sign a new one *)
    unfold do_prepare. simpl. rewrite getp_delp_same. unfold note_signed. simpl.
    unfold do_set_prepared. simpl. rewrite N.eqb_refl. unfold do_set. simpl. rewrite G.
    unfold do_bcast. simpl. rewrite N.eqb_refl. simpl.
    assert (forall k' x, get k' (pl s) = Some x -> get k' ((k, mkB k f true) :: pl s) = Some x) as W.
    { intros k' x Hk. simpl. destruct (N.eqb k' k) eqn:E; [apply N.eqb_eq in E; subst k'; congruence|exact Hk]. }
    split.
    { intros k' x Hk. simpl in Hk. destruct (N.eqb k' k) eqn:E; [inv Hk; apply N.eqb_eq in E; auto|apply K; auto]. }
    split.
    { intros k' x Hk. simpl in Hk. destruct (N.eqb k' k) eqn:E; [inv Hk; reflexivity|eapply A; eauto]. }
    intros b Hb. apply in_app_or in Hb.
    destruct Hb as [Hb|[Hb|[]]]; [apply W; apply S; auto|subst b; simpl; rewrite N.eqb_refl; reflexivity].
Qed.

Fixpoint txns (l : list (N * N * N)) : list astep :=
  match l with
  | [] => []
  | (t, k, f) :: r => txn t k f ++ txns r
  end.

Lemma txns_sinv : forall l s, sinv s -> sinv (run s (txns l)).
Proof.
  induction l as [|[[t k] f] l IH]; intros s H; [exact H|].
  change (txns ((t, k, f) :: l)) with (txn t k f ++ txns l).
  unfold run. rewrite fold_left_app. apply IH. apply txn_sinv. exact H.
Qed.

Lemma sinv_init : sinv init.
Proof. repeat split; simpl; intros; try discriminate; try contradiction. Qed.

Lemma serial_signed_single : forall l b1 b2, In b1 (signed (run init (txns l))) -> In b2 (signed (run init (txns l))) ->
  bkey b1 = bkey b2 -> b1 = b2.
Proof.
  intros l b1 b2 H1 H2 E. destruct (txns_sinv l init sinv_init) as (_ & _ & S).
  pose proof (S _ H1) as G1. pose proof (S _ H2) as G2. rewrite E in G1. congruence.
Qed.
