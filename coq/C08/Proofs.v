(* C08 -- lemmas: every logged local ballot is the one the pool holds; the pool never changes a key once set. *)
From Coq Require Import NArith List Bool.
From MV Require Import C08.Model.
Import ListNotations.
Open Scope N_scope.

Ltac inv H := inversion H; subst; clear H.

(* pool entries are filed under their own key *)
Definition keyed (p : pool) : Prop := forall k b, get k p = Some b -> bkey b = k.

Definition inv (s : st) : Prop :=
  keyed (pl s) /\
  (forall t h, getp t (pend s) = Some h -> blocal h = true -> get (bkey h) (pl s) = Some h) /\
  (forall b, In b (log s) -> blocal b = true -> get (bkey b) (pl s) = Some b).

Lemma getp_delp_same : forall t p, getp t (delp t p) = None.
Proof.
  induction p as [|[t' b] p IH]; simpl; auto.
  destruct (N.eqb t t') eqn:E; auto. simpl. rewrite E. exact IH.
Qed.

Lemma getp_delp_other : forall t u p, u <> t -> getp u (delp t p) = getp u p.
Proof.
  induction p as [|[t' b] p IH]; intros H; simpl; auto.
  destruct (N.eqb t t') eqn:E.
  - apply N.eqb_eq in E. subst t'. destruct (N.eqb u t) eqn:F; [apply N.eqb_eq in F; congruence|auto].
  - simpl. destruct (N.eqb u t'); auto.
Qed.

(* first writer wins: a step never changes what the pool holds for a key that is set *)
Lemma step_pool_stable : forall s a k b, get k (pl s) = Some b -> get k (pl (step s a)) = Some b.
Proof.
  intros s a k b H. destruct a as [t k'|t b'|t]; simpl; auto.
  - unfold do_set. destruct (blocal b'); [|exact H].
    destruct (get (bkey b') (pl s)) eqn:G; simpl; [exact H|].
    destruct (N.eqb k (bkey b')) eqn:E; [apply N.eqb_eq in E; subst k; congruence|exact H].
  - unfold do_bcast. destruct (getp t (pend s)); exact H.
Qed.

Lemma run_pool_stable : forall l s k b, get k (pl s) = Some b -> get k (pl (run s l)) = Some b.
Proof.
  induction l as [|a l IH]; intros s k b H; simpl; auto. apply IH. apply step_pool_stable. exact H.
Qed.

Lemma step_inv : forall s a, inv s -> inv (step s a).
Proof.
  intros s a (K & P & L). destruct a as [t k|t b|t]; simpl; [repeat split; auto| |].
  - (* set *)
    unfold do_set. destruct (blocal b) eqn:Lb.
    + destruct (get (bkey b) (pl s)) as [h|] eqn:G; simpl.
      * split; [exact K|]. split; [|exact L].
        intros u x Hx Lx. simpl in Hx. destruct (N.eqb u t) eqn:E.
        -- inv Hx. rewrite (K _ _ G). exact G.
        -- apply N.eqb_neq in E. rewrite getp_delp_other in Hx by exact E. eapply P; eauto.
      * assert (forall k x, get k (pl s) = Some x -> get k ((bkey b, b) :: pl s) = Some x) as W.
        { intros k x Hk. simpl. destruct (N.eqb k (bkey b)) eqn:E; [apply N.eqb_eq in E; subst k; congruence|exact Hk]. }
        split.
        { intros k x Hk. simpl in Hk. destruct (N.eqb k (bkey b)) eqn:E; [inv Hk; apply N.eqb_eq in E; auto|apply K; auto]. }
        split.
        { intros u x Hx Lx. simpl in Hx. destruct (N.eqb u t) eqn:E.
          - inv Hx. simpl. rewrite N.eqb_refl. reflexivity.
          - apply N.eqb_neq in E. rewrite getp_delp_other in Hx by exact E. apply W. eapply P; eauto. }
        intros x Hx Lx. apply W. apply L; auto.
    + simpl. split; [exact K|]. split; [|exact L].
      intros u x Hx Lx. simpl in Hx. destruct (N.eqb u t) eqn:E.
      * inv Hx. congruence.
      * apply N.eqb_neq in E. rewrite getp_delp_other in Hx by exact E. eapply P; eauto.
  - (* broadcast *)
    unfold do_bcast. destruct (getp t (pend s)) as [h|] eqn:G; [|repeat split; auto]. simpl.
    split; [exact K|]. split.
    + intros u x Hx Lx. simpl in Hx. destruct (N.eq_dec u t) as [E|E].
      * subst u. rewrite getp_delp_same in Hx. discriminate.
      * rewrite getp_delp_other in Hx by exact E. eapply P; eauto.
    + intros x Hx Lx. simpl in Hx. apply in_app_or in Hx. destruct Hx as [Hx|[Hx|[]]]; [apply L; auto|subst x; eapply P; eauto].
Qed.

Lemma inv_init : inv init.
Proof. repeat split; simpl; intros; try discriminate; try contradiction. Qed.

Lemma run_inv : forall l s, inv s -> inv (run s l).
Proof. induction l as [|a l IH]; intros s H; simpl; auto. apply IH. apply step_inv. exact H. Qed.

Lemma single_ballot : forall l b1 b2, In b1 (log (run init l)) -> In b2 (log (run init l)) ->
  blocal b1 = true -> blocal b2 = true -> bkey b1 = bkey b2 -> b1 = b2.
Proof.
  intros l b1 b2 H1 H2 L1 L2 E. destruct (run_inv l init inv_init) as (_ & _ & L).
  pose proof (L _ H1 L1) as G1. pose proof (L _ H2 L2) as G2. rewrite E in G1. congruence.
Qed.

(* the log only grows *)
Lemma step_log_prefix : forall s a, exists x, log (step s a) = log s ++ x.
Proof.
  intros s a. destruct a as [t k|t b|t]; simpl.
  - exists []. rewrite app_nil_r. reflexivity.
  - exists []. rewrite app_nil_r. unfold do_set. destruct (blocal b); [destruct (get (bkey b) (pl s))|]; reflexivity.
  - unfold do_bcast. destruct (getp t (pend s)) as [h|]; [exists [h]|exists []; rewrite app_nil_r]; reflexivity.
Qed.
