(* C37 -- lemmas: the modelled membersPool refines the specification "present members" for every history. *)
From Coq Require Import NArith List Bool Lia Permutation.
From MV Require Import C37.Model.
Import ListNotations.
Open Scope N_scope.

(* ------------------------------------------------------------------ finite map *)
Section AMap.
  Context {V : Type}.

  Lemma aget_aremove : forall (m : amap V) k k', aget k' (aremove k m) = if k' =? k then None else aget k' m.
  Proof.
    induction m as [|[k0 v] m IH]; intros k k'; simpl.
    - destruct (k' =? k); reflexivity.
    - destruct (k0 =? k) eqn:E0; simpl.
      + apply N.eqb_eq in E0; subst k0. rewrite IH.
        destruct (k' =? k) eqn:E1.
        * reflexivity.
        * rewrite N.eqb_sym, E1. reflexivity.
      + rewrite IH. destruct (k0 =? k') eqn:E2.
        * apply N.eqb_eq in E2; subst k0. rewrite E0. reflexivity.
        * reflexivity.
  Qed.

  Lemma aget_aset : forall (m : amap V) k v k', aget k' (aset k v m) = if k' =? k then Some v else aget k' m.
  Proof.
    intros. unfold aset. simpl. rewrite aget_aremove, (N.eqb_sym k k').
    destruct (k' =? k); reflexivity.
  Qed.

  Lemma in_keys_aget : forall (m : amap V) k, In k (keys m) <-> aget k m <> None.
  Proof.
    induction m as [|[k0 v] m IH]; intros k; simpl.
    - split; [tauto | congruence].
    - destruct (k0 =? k) eqn:E.
      + apply N.eqb_eq in E. split; [congruence | auto].
      + apply N.eqb_neq in E. rewrite <- IH. split; [intros [H|H]; [congruence | exact H] | auto].
  Qed.

  Lemma keys_aremove : forall (m : amap V) k, keys (aremove k m) = filter (fun x => negb (x =? k)) (keys m).
  Proof.
    induction m as [|[k0 v] m IH]; intros k; simpl; [reflexivity|].
    destruct (k0 =? k); simpl; rewrite IH; reflexivity.
  Qed.

  Lemma NoDup_keys_aremove : forall (m : amap V) k, NoDup (keys m) -> NoDup (keys (aremove k m)).
  Proof. intros. rewrite keys_aremove. apply NoDup_filter. assumption. Qed.

  Lemma NoDup_keys_aset : forall (m : amap V) k v, NoDup (keys m) -> NoDup (keys (aset k v m)).
  Proof.
    intros m k v H. unfold aset. simpl. constructor.
    - rewrite keys_aremove, filter_In. rewrite N.eqb_refl. simpl. intros [_ F]. discriminate.
    - apply NoDup_keys_aremove. assumption.
  Qed.

  Lemma length_keys : forall (m : amap V), length (keys m) = length m.
  Proof. intros. apply map_length. Qed.
End AMap.

(* ------------------------------------------------------------------ list helpers *)
Lemma filter_id : forall {A} (f : A -> bool) l, (forall x, In x l -> f x = true) -> filter f l = l.
Proof.
  induction l as [|x l IH]; intros H; simpl; [reflexivity|].
  rewrite (H x (or_introl eq_refl)). f_equal. apply IH. intros; apply H; right; assumption.
Qed.

Lemma NoDup_map_filter : forall {A B} (g : A -> B) (f : A -> bool) l,
  NoDup (map g l) -> NoDup (map g (filter f l)).
Proof.
  induction l as [|x l IH]; intros H; simpl; [constructor|].
  inversion H; subst. destruct (f x); simpl.
  - constructor; [|auto]. intros Hin. apply H2. apply in_map_iff in Hin. destruct Hin as [y [Hy Hin]].
    apply filter_In in Hin. apply in_map_iff. exists y. tauto.
  - auto.
Qed.

Lemma NoDup_snoc : forall {A} (l : list A) a, NoDup l -> ~ In a l -> NoDup (l ++ [a]).
Proof.
  induction l as [|x l IH]; intros a H Hn; simpl.
  - constructor; [tauto | constructor].
  - inversion H; subst. constructor.
    + rewrite in_app_iff. simpl. intros [F|[F|[]]]; [contradiction | subst; apply Hn; left; reflexivity].
    + apply IH; [assumption | intros F; apply Hn; right; assumption].
Qed.

Lemma NoDup_same_length : forall (l1 l2 : list N),
  NoDup l1 -> NoDup l2 -> (forall x, In x l1 <-> In x l2) -> length l1 = length l2.
Proof. intros. apply Permutation_length. apply NoDup_Permutation; assumption. Qed.

(* ------------------------------------------------------------------ specification *)
Lemma present_app : forall h o, present (h ++ [o]) = spec_step (present h) o.
Proof. intros. unfold present. rewrite fold_left_app. reflexivity. Qed.

Lemma run_app : forall h o, run (h ++ [o]) = fst (step (run h) o).
Proof. intros. unfold run. rewrite fold_left_app. reflexivity. Qed.

Lemma present_addr : forall h a m, present h a = Some m -> m_addr m = a.
Proof.
  induction h as [|o h IH] using rev_ind; intros a m H.
  - discriminate.
  - rewrite present_app in H. destruct o as [m0|k|]; simpl in H.
    + destruct (a =? m_addr m0) eqn:E.
      * apply N.eqb_eq in E. congruence.
      * eauto.
    + destruct (a =? k); [discriminate | eauto].
    + discriminate.
Qed.

(* what `present` means in terms of the history: the last op touching the address is the join of m *)
Lemma present_meaning : forall h a m,
  present h a = Some m <->
  exists h1 h2, h = h1 ++ OSet m :: h2 /\ m_addr m = a /\ forallb (fun o => negb (touches a o)) h2 = true.
Proof.
  induction h as [|o h IH] using rev_ind; intros a m.
  - split; [discriminate|]. intros [h1 [h2 [H _]]]. destruct h1; discriminate.
  - rewrite present_app. split.
    + intros H. destruct o as [m0|k|]; simpl in H.
      * destruct (a =? m_addr m0) eqn:E.
        -- apply N.eqb_eq in E. inversion H; subst. exists h, []. auto.
        -- apply IH in H. destruct H as [h1 [h2 [H1 [H2 H3]]]]. exists h1, (h2 ++ [OSet m0]).
           subst h. rewrite <- app_assoc. simpl. repeat split; auto.
           rewrite forallb_app, H3. simpl. rewrite N.eqb_sym, E. reflexivity.
      * destruct (a =? k) eqn:E; [discriminate|].
        apply IH in H. destruct H as [h1 [h2 [H1 [H2 H3]]]]. exists h1, (h2 ++ [ORemove k]).
        subst h. rewrite <- app_assoc. simpl. repeat split; auto.
        rewrite forallb_app, H3. simpl. rewrite N.eqb_sym, E. reflexivity.
      * discriminate.
    + intros [h1 [h2 [H1 [H2 H3]]]].
      destruct h2 as [|o2 h2] using rev_ind.
      * replace (h1 ++ [OSet m]) with (h1 ++ [OSet m]) in H1 by reflexivity.
        apply app_inj_tail in H1. destruct H1 as [_ H1]. subst o. simpl. subst a. rewrite N.eqb_refl. reflexivity.
      * clear IHh2. rewrite app_comm_cons, app_assoc in H1. apply app_inj_tail in H1. destruct H1 as [H1 H1'].
        subst o2. rewrite forallb_app in H3. apply andb_true_iff in H3. destruct H3 as [H3 H4].
        simpl in H4. rewrite andb_true_r in H4. apply negb_true_iff in H4.
        assert (P : present h a = Some m) by (apply IH; exists h1, h2; auto).
        destruct o as [m0|k|]; simpl in *.
        -- rewrite N.eqb_sym, H4. exact P.
        -- rewrite N.eqb_sym, H4. exact P.
        -- discriminate.
Qed.

(* ------------------------------------------------------------------ per-node lists *)
Lemma nodelist_remove_from_node : forall ms n id n',
  nodelist (remove_from_node n id ms) n' =
  if n' =? n then filter (fun x => negb (m_addr x =? id)) (nodelist ms n') else nodelist ms n'.
Proof.
  intros ms n id n'. unfold remove_from_node, nodelist.
  destruct (aget n ms) as [l|] eqn:E.
  - destruct (filter (fun x => negb (m_addr x =? id)) l) as [|y l'] eqn:F.
    + rewrite aget_aremove. destruct (n' =? n) eqn:En.
      * apply N.eqb_eq in En; subst n'. rewrite E, F. reflexivity.
      * reflexivity.
    + rewrite aget_aset. destruct (n' =? n) eqn:En.
      * apply N.eqb_eq in En; subst n'. rewrite E, F. reflexivity.
      * reflexivity.
  - destruct (n' =? n) eqn:En.
    + apply N.eqb_eq in En; subst n'. rewrite E. reflexivity.
    + reflexivity.
Qed.

(* ------------------------------------------------------------------ the invariant *)
Record Inv (f : spec) (s : pool) : Prop := {
  inv_nodup : NoDup (keys (addrs s));
  inv_addrs : forall a, aget a (addrs s) = f a;
  inv_node_nodup : forall n, NoDup (map m_addr (nodelist (members s) n));
  inv_node : forall n m, In m (nodelist (members s) n) <-> (f (m_addr m) = Some m /\ m_node m = n)
}.

(* dropping the member of address id from the list of "its" node is the same as dropping it everywhere *)
Lemma drop_everywhere : forall f ms id p n',
  (forall n m, In m (nodelist ms n) <-> (f (m_addr m) = Some m /\ m_node m = n)) ->
  f id = Some p ->
  nodelist (remove_from_node (m_node p) id ms) n' = filter (fun x => negb (m_addr x =? id)) (nodelist ms n').
Proof.
  intros f ms id p n' H Hp. rewrite nodelist_remove_from_node.
  destruct (n' =? m_node p) eqn:E; [reflexivity|].
  symmetry. apply filter_id. intros x Hx. apply H in Hx. destruct Hx as [Hx1 Hx2].
  apply negb_true_iff, N.eqb_neq. intros Heq. rewrite Heq, Hp in Hx1. inversion Hx1; subst x.
  apply N.eqb_neq in E. congruence.
Qed.

Lemma drop_nothing : forall f ms id n',
  (forall n m, In m (nodelist ms n) <-> (f (m_addr m) = Some m /\ m_node m = n)) ->
  f id = None ->
  nodelist ms n' = filter (fun x => negb (m_addr x =? id)) (nodelist ms n').
Proof.
  intros f ms id n' H Hp. symmetry. apply filter_id. intros x Hx. apply H in Hx. destruct Hx as [Hx1 _].
  apply negb_true_iff, N.eqb_neq. intros Heq. rewrite Heq, Hp in Hx1. discriminate.
Qed.

Lemma inv_init : Inv (fun _ => None) init.
Proof.
  constructor; simpl; intros.
  - constructor.
  - reflexivity.
  - constructor.
  - split; [tauto | intros [H _]; discriminate].
Qed.

Lemma inv_empty : forall s, Inv (fun _ => None) (p_empty s).
Proof. intros. apply inv_init. Qed.

Lemma inv_remove : forall f s k, (forall a m, f a = Some m -> m_addr m = a) ->
  Inv f s -> Inv (spec_step f (ORemove k)) (fst (p_remove s k)).
Proof.
  intros f s k Hf I. destruct I as [I1 I2 I3 I4]. unfold p_remove.
  destruct (aget k (addrs s)) as [p|] eqn:E; simpl.
  - assert (Hp : f k = Some p) by (rewrite <- I2; exact E).
    assert (NL : forall n', nodelist (remove_from_node (m_node p) k (members s)) n'
                            = filter (fun x => negb (m_addr x =? k)) (nodelist (members s) n'))
      by (intros; eapply drop_everywhere; eauto).
    constructor; simpl.
    + apply NoDup_keys_aremove; assumption.
    + intros a. rewrite aget_aremove, I2. reflexivity.
    + intros n. rewrite NL. apply NoDup_map_filter. apply I3.
    + intros n m. rewrite NL, filter_In, I4. destruct (m_addr m =? k) eqn:Em; simpl.
      * split; [intros [_ F]; discriminate | intros [F _]; discriminate].
      * tauto.
  - assert (Hp : f k = None) by (rewrite <- I2; exact E).
    constructor; simpl.
    + assumption.
    + intros a. rewrite I2. destruct (a =? k) eqn:Ea; [apply N.eqb_eq in Ea; subst; assumption | reflexivity].
    + assumption.
    + intros n m. rewrite I4. destruct (m_addr m =? k) eqn:Em.
      * apply N.eqb_eq in Em. rewrite Em, Hp. split; [intros [F _]; discriminate | intros [F _]; discriminate].
      * tauto.
Qed.

Lemma inv_set : forall f s m, (forall a x, f a = Some x -> m_addr x = a) ->
  Inv f s -> Inv (spec_step f (OSet m)) (fst (p_set s m)).
Proof.
  intros f s m Hf I. destruct I as [I1 I2 I3 I4]. unfold p_set. cbn [fst].
  set (id := m_addr m).
  set (ms1 := match aget id (addrs s) with
              | Some p => remove_from_node (m_node p) id (members s)
              | None => members s
              end).
  assert (NL1 : forall n', nodelist ms1 n' = filter (fun x => negb (m_addr x =? id)) (nodelist (members s) n')).
  { intros n'. unfold ms1. destruct (aget id (addrs s)) as [p|] eqn:E.
    - eapply drop_everywhere; eauto. rewrite <- I2. exact E.
    - eapply drop_nothing; eauto. rewrite <- I2. exact E. }
  assert (NL2 : forall n', nodelist (aset (m_node m) (nodelist ms1 (m_node m) ++ [m]) ms1) n'
                           = if n' =? m_node m then nodelist ms1 n' ++ [m] else nodelist ms1 n').
  { intros n'. unfold nodelist at 1. rewrite aget_aset. destruct (n' =? m_node m) eqn:E.
    - apply N.eqb_eq in E; subst n'. reflexivity.
    - reflexivity. }
  constructor; cbn [addrs members].
  - apply NoDup_keys_aset; assumption.
  - intros a. rewrite aget_aset, I2. reflexivity.
  - intros n. rewrite NL2. destruct (n =? m_node m).
    + rewrite map_app. simpl. apply NoDup_snoc.
      * rewrite NL1. apply NoDup_map_filter. apply I3.
      * rewrite NL1. intros Hin. apply in_map_iff in Hin. destruct Hin as [y [Hy Hin]].
        apply filter_In in Hin. destruct Hin as [_ Hin]. fold id in Hy. rewrite Hy, N.eqb_refl in Hin. discriminate.
    + rewrite NL1. apply NoDup_map_filter. apply I3.
  - intros n x. rewrite NL2.
    assert (Base : In x (nodelist ms1 n) <-> (f (m_addr x) = Some x /\ m_node x = n) /\ m_addr x <> id).
    { rewrite NL1, filter_In, I4, negb_true_iff, N.eqb_neq. tauto. }
    cbn [spec_step]. fold id. destruct (m_addr x =? id) eqn:Ex.
    + apply N.eqb_eq in Ex. destruct (n =? m_node m) eqn:En.
      * apply N.eqb_eq in En. subst n. rewrite in_app_iff, Base. simpl. split.
        -- intros [[_ F]|[H|[]]]; [contradiction | subst x; auto].
        -- intros [H _]. inversion H. auto.
      * apply N.eqb_neq in En. rewrite Base. split.
        -- intros [_ F]. contradiction.
        -- intros [H H']. inversion H. subst x. congruence.
    + assert (Ex' := Ex). apply N.eqb_neq in Ex'. destruct (n =? m_node m) eqn:En.
      * apply N.eqb_eq in En. subst n. rewrite in_app_iff, Base. simpl. split.
        -- intros [[H _]|[H|[]]]; [exact H | subst x; unfold id in Ex'; congruence].
        -- intros H. left. auto.
      * rewrite Base. tauto.
Qed.

(* ------------------------------------------------------------------ every history *)
Lemma inv_step : forall f s o, (forall a m, f a = Some m -> m_addr m = a) ->
  Inv f s -> Inv (spec_step f o) (fst (step s o)).
Proof.
  intros f s o Hf I. destruct o as [m|k|]; cbn [step].
  - apply inv_set; assumption.
  - apply inv_remove; assumption.
  - apply inv_empty.
Qed.

Lemma inv_run : forall h, Inv (present h) (run h).
Proof.
  induction h as [|o h IH] using rev_ind.
  - apply inv_init.
  - rewrite present_app, run_app. apply inv_step; [apply present_addr | exact IH].
Qed.

Lemma exists_iff_present : forall h a, p_exists (run h) a = true <-> present h a <> None.
Proof.
  intros h a. unfold p_exists. rewrite (inv_addrs _ _ (inv_run h)).
  destruct (present h a); simpl; split; congruence.
Qed.

Lemma get_found : forall h a,
  p_get (run h) a = match present h a with Some m => (Some m, true) | None => (None, false) end.
Proof. intros h a. unfold p_get. rewrite (inv_addrs _ _ (inv_run h)). reflexivity. Qed.

Lemma per_node_exact : forall h n,
  NoDup (map m_addr (nodelist (members (run h)) n)) /\
  NoDup (nodelist (members (run h)) n) /\
  forall m, In m (nodelist (members (run h)) n) <-> (present h (m_addr m) = Some m /\ m_node m = n).
Proof.
  intros h n. pose proof (inv_run h) as I. split; [apply (inv_node_nodup _ _ I)|]. split.
  - eapply NoDup_map_inv. apply (inv_node_nodup _ _ I).
  - apply (inv_node _ _ I).
Qed.

Lemma len_exact : forall h U, NoDup U -> (forall a, present h a <> None -> In a U) ->
  p_len (run h) = N.of_nat (length (filter (fun a => is_some (present h a)) U)).
Proof.
  intros h U HU Hc. pose proof (inv_run h) as I. unfold p_len. f_equal.
  rewrite <- length_keys. apply NoDup_same_length.
  - apply (inv_nodup _ _ I).
  - apply NoDup_filter. assumption.
  - intros a. rewrite in_keys_aget, (inv_addrs _ _ I), filter_In. split.
    + intros H. split; [auto|]. destruct (present h a); [reflexivity | congruence].
    + intros [_ H]. destruct (present h a); [congruence | discriminate].
Qed.

Lemma members_len_exact : forall h U n, NoDup U -> (forall a, present h a <> None -> In a U) ->
  p_members_len (run h) n = N.of_nat (length (filter (fun a => node_is n (present h a)) U)).
Proof.
  intros h U n HU Hc. pose proof (inv_run h) as I. unfold p_members_len. f_equal.
  rewrite <- (map_length m_addr). apply NoDup_same_length.
  - apply (inv_node_nodup _ _ I).
  - apply NoDup_filter. assumption.
  - intros a. rewrite in_map_iff, filter_In. split.
    + intros [x [Hx Hin]]. apply (inv_node _ _ I) in Hin. destruct Hin as [H1 H2]. subst a. split.
      * apply Hc. congruence.
      * rewrite H1. simpl. apply N.eqb_eq. assumption.
    + intros [_ H]. destruct (present h a) as [x|] eqn:E; [|discriminate]. simpl in H. apply N.eqb_eq in H.
      exists x. pose proof (present_addr _ _ _ E) as Ha. split; [assumption|].
      apply (inv_node _ _ I). rewrite Ha. auto.
Qed.

Lemma members_len_others_exact : forall h U n a, NoDup U -> (forall a, present h a <> None -> In a U) ->
  p_members_len_others (run h) n a =
  (N.of_nat (length (filter (fun b => node_is n (present h b)) U)),
   N.of_nat (length (filter (fun b => node_is n (present h b) && negb (b =? a)) U)),
   node_is n (present h a)).
Proof.
  intros h U n a HU Hc. pose proof (inv_run h) as I. unfold p_members_len_others.
  pose proof (members_len_exact h U n HU Hc) as HL. unfold p_members_len in HL. rewrite HL. f_equal; [f_equal|].
  - f_equal. rewrite <- (map_length m_addr). apply NoDup_same_length.
    + apply NoDup_map_filter. apply (inv_node_nodup _ _ I).
    + apply NoDup_filter. assumption.
    + intros b. rewrite in_map_iff, filter_In. split.
      * intros [x [Hx Hin]]. apply filter_In in Hin. destruct Hin as [Hin Hne].
        apply (inv_node _ _ I) in Hin. destruct Hin as [H1 H2]. subst b. split.
        -- apply Hc. congruence.
        -- rewrite H1. simpl. rewrite Hne, andb_true_r. apply N.eqb_eq. assumption.
      * intros [_ H]. apply andb_true_iff in H. destruct H as [H Hne].
        destruct (present h b) as [x|] eqn:E; [|discriminate]. simpl in H. apply N.eqb_eq in H.
        exists x. pose proof (present_addr _ _ _ E) as Ha. split; [assumption|].
        apply filter_In. split; [|rewrite Ha; assumption].
        apply (inv_node _ _ I). rewrite Ha. auto.
  - destruct (existsb (fun x => m_addr x =? a) (nodelist (members (run h)) n)) eqn:Ex.
    + apply existsb_exists in Ex. destruct Ex as [x [Hin Hx]]. apply N.eqb_eq in Hx.
      apply (inv_node _ _ I) in Hin. destruct Hin as [H1 H2]. subst a. rewrite H1. simpl. symmetry.
      apply N.eqb_eq. assumption.
    + destruct (present h a) as [x|] eqn:E; [|reflexivity]. simpl.
      destruct (m_node x =? n) eqn:En; [|reflexivity]. apply N.eqb_eq in En.
      pose proof (present_addr _ _ _ E) as Ha.
      assert (Hin : In x (nodelist (members (run h)) n)) by (apply (inv_node _ _ I); rewrite Ha; auto).
      assert (existsb (fun x => m_addr x =? a) (nodelist (members (run h)) n) = true).
      { apply existsb_exists. exists x. split; [assumption | apply N.eqb_eq; assumption]. }
      congruence.
Qed.

Lemma set_result : forall h m, snd (step (run h) (OSet m)) = negb (is_some (present h (m_addr m))).
Proof. intros. cbn [step]. unfold p_set. cbn [snd]. rewrite (inv_addrs _ _ (inv_run h)). reflexivity. Qed.

Lemma remove_result : forall h k, snd (step (run h) (ORemove k)) = is_some (present h k).
Proof.
  intros. cbn [step]. unfold p_remove. rewrite (inv_addrs _ _ (inv_run h)).
  destruct (present h k); reflexivity.
Qed.

Lemma traverse_exact : forall h m, In m (p_all (run h)) <-> present h (m_addr m) = Some m.
Proof.
  intros h m. pose proof (inv_run h) as I. unfold p_all. rewrite <- (inv_addrs _ _ I).
  assert (G : forall (l : amap member) k v, NoDup (keys l) -> (In (k, v) l <-> aget k l = Some v)).
  { induction l as [|[k0 v0] l IH]; intros k v Hn; simpl.
    - split; [tauto | discriminate].
    - inversion Hn; subst. destruct (k0 =? k) eqn:E.
      + apply N.eqb_eq in E. subst k0. split.
        * intros [H|H]; [congruence|]. exfalso. apply H1. apply in_map_iff. exists (k, v). auto.
        * intros H. left. congruence.
      + apply N.eqb_neq in E. rewrite <- IH by assumption. split; [intros [H|H]; [congruence | exact H] | auto]. }
  rewrite in_map_iff. split.
  - intros [[k v] [Hv Hin]]. simpl in Hv. subst v. apply G in Hin; [|apply (inv_nodup _ _ I)].
    assert (present h k = Some m) by (rewrite <- (inv_addrs _ _ I); exact Hin).
    rewrite (present_addr _ _ _ H). exact Hin.
  - intros H. exists (m_addr m, m). split; [reflexivity|]. apply G; [apply (inv_nodup _ _ I) | exact H].
Qed.
