(* C37 -- Memberlist member table stays consistent.  Property theorems only.
   [run h] is the modelled membersPool after the history h of joins (OSet, also re-joins), leaves (ORemove)
   and resets (OEmpty); [present h a] is the specification: the member that joined address a last and has
   not left since (C37_present_meaning says exactly that). *)
From Coq Require Import NArith List Bool.
From MV Require Import C37.Model C37.Proofs.
Import ListNotations.
Open Scope N_scope.

(* the specification itself, in terms of the history: m is present at a iff the last op touching a is the
   join of m *)
Theorem C37_present_meaning : forall h a m,
  present h a = Some m <->
  exists h1 h2, h = h1 ++ OSet m :: h2 /\ m_addr m = a /\ forallb (fun o => negb (touches a o)) h2 = true.
Proof. exact present_meaning. Qed.

(* Exists reports a member exactly when it has joined and not yet left *)
Theorem C37_exists_iff_present : forall h a, p_exists (run h) a = true <-> present h a <> None.
Proof. exact exists_iff_present. Qed.

(* lookup by address reports found (and returns the latest joined member) exactly for present members *)
Theorem C37_get_found : forall h a,
  p_get (run h) a = match present h a with Some m => (Some m, true) | None => (None, false) end.
Proof. exact get_found. Qed.

(* the per-node list holds exactly the present members of the node; no address (hence no member) twice *)
Theorem C37_per_node_exact : forall h n,
  NoDup (map m_addr (nodelist (members (run h)) n)) /\
  NoDup (nodelist (members (run h)) n) /\
  forall m, In m (nodelist (members (run h)) n) <-> (present h (m_addr m) = Some m /\ m_node m = n).
Proof. exact per_node_exact. Qed.

(* Len / MembersLen / MembersLenOthers count the present members (U: any duplicate-free list of addresses
   covering the present ones) *)
Theorem C37_len : forall h U, NoDup U -> (forall a, present h a <> None -> In a U) ->
  p_len (run h) = N.of_nat (length (filter (fun a => is_some (present h a)) U)) /\
  forall n,
    p_members_len (run h) n = N.of_nat (length (filter (fun a => node_is n (present h a)) U)) /\
    forall a, p_members_len_others (run h) n a =
      (N.of_nat (length (filter (fun b => node_is n (present h b)) U)),
       N.of_nat (length (filter (fun b => node_is n (present h b) && negb (b =? a)) U)),
       node_is n (present h a)).
Proof.
  intros h U HU Hc. split; [apply len_exact; assumption|]. intros n. split.
  - apply members_len_exact; assumption.
  - intros a. apply members_len_others_exact; assumption.
Qed.

(* Traverse (Memberlist.Members) visits exactly the present members *)
Theorem C37_traverse_exact : forall h m, In m (p_all (run h)) <-> present h (m_addr m) = Some m.
Proof. exact traverse_exact. Qed.

(* Set reports "added" exactly for an absent address, Remove "removed" exactly for a present one *)
Theorem C37_set_remove_results : forall h,
  (forall m, snd (step (run h) (OSet m)) = negb (is_some (present h (m_addr m)))) /\
  (forall k, snd (step (run h) (ORemove k)) = is_some (present h k)).
Proof. intros h. split; [apply set_result | apply remove_result]. Qed.

(* non-vacuity: the three formerly failing histories *)
Example C37_example_get : p_get (run [OSet (mkMember 0 0 1)]) 0 = (Some (mkMember 0 0 1), true).
Proof. vm_compute. reflexivity. Qed.

Example C37_example_rejoin :
  nodelist (members (run [OSet (mkMember 0 0 1); OSet (mkMember 0 0 2)])) 0 = [mkMember 0 0 2].
Proof. vm_compute. reflexivity. Qed.

Example C37_example_leave :
  nodelist (members (run [OSet (mkMember 0 0 1); OSet (mkMember 1 0 2); ORemove 0])) 0 = [mkMember 1 0 2]
  /\ present [OSet (mkMember 0 0 1); OSet (mkMember 1 0 2); ORemove 0] 1 = Some (mkMember 1 0 2).
Proof. vm_compute. split; reflexivity. Qed.
