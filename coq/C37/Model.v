(* C37 -- memberlist member table.  Transcribes network/quicmemberlist/memberlist.go `membersPool`
   (after the fix: commit):

     type membersPool struct {
         addrs   *util.ShardedMap[string, Member]    // by memberid(addr) = "ip:port"
         members *util.ShardedMap[string, []Member]  // by node address
     }

   The two util.ShardedMap are modelled as finite maps (association lists with unique keys): Value/Exists =
   [aget], SetValue/Set = [aset], RemoveValue/Remove = [aremove], Len = number of keys, Empty = [].  Sharding,
   locking and the atomic length counter of ShardedMap are not modelled here (C32 is about them).
   A member is (addr id, node id, tag); the tag stands for the identity of the Member object (its name /
   joinedAt), so that "replaced by the re-joined member" is observable.  No proofs in this file. *)
From Coq Require Import NArith List Bool.
Import ListNotations.
Open Scope N_scope.

Record member := mkMember { m_addr : N; m_node : N; m_tag : N }.

Definition member_eqb (a b : member) : bool :=
  (m_addr a =? m_addr b) && (m_node a =? m_node b) && (m_tag a =? m_tag b).

(* ------------------------------------------------------------------ finite map *)
Definition amap (V : Type) := list (N * V).

Fixpoint aget {V} (k : N) (m : amap V) : option V :=
  match m with
  | [] => None
  | (k', v) :: r => if k' =? k then Some v else aget k r
  end.

Definition aremove {V} (k : N) (m : amap V) : amap V := filter (fun p => negb (fst p =? k)) m.
Definition aset {V} (k : N) (v : V) (m : amap V) : amap V := (k, v) :: aremove k m.
Definition keys {V} (m : amap V) : list N := map fst m.

Definition is_some {A} (o : option A) : bool := match o with Some _ => true | None => false end.

(* ------------------------------------------------------------------ membersPool *)
Record pool := mkPool { addrs : amap member; members : amap (list member) }.

Definition init : pool := mkPool [] [].                       (* newMembersPool *)

Definition p_empty (s : pool) : pool := mkPool [] [].         (* Empty *)

Definition p_exists (s : pool) (k : N) : bool := is_some (aget k (addrs s)).   (* Exists *)

(* Get: (member, found); `case !found, i == nil: return nil, false; default: return i, true` *)
Definition p_get (s : pool) (k : N) : option member * bool :=
  match aget k (addrs s) with
  | Some m => (Some m, true)
  | None => (None, false)
  end.

Definition nodelist (ms : amap (list member)) (n : N) : list member :=
  match aget n ms with Some l => l | None => [] end.

(* MembersLen *)
Definition p_members_len (s : pool) (n : N) : N := N.of_nat (length (nodelist (members s) n)).

(* MembersLenOthers(node, addr) = (memberslen, others, found) *)
Definition p_members_len_others (s : pool) (n a : N) : N * N * bool :=
  let l := nodelist (members s) n in
  (N.of_nat (length l),
   N.of_nat (length (filter (fun x => negb (m_addr x =? a)) l)),
   existsb (fun x => m_addr x =? a) l).

(* removeFromNode(node, id): SetOrRemove on the node's list, dropping only the member of addr id; the key is
   removed when the list becomes empty *)
Definition remove_from_node (n id : N) (ms : amap (list member)) : amap (list member) :=
  match aget n ms with
  | None => ms
  | Some l =>
      match filter (fun x => negb (m_addr x =? id)) l with
      | [] => aremove n ms
      | l' => aset n l' ms
      end
  end.

(* Set(member) (added bool) *)
Definition p_set (s : pool) (m : member) : pool * bool :=
  let id := m_addr m in
  let prev := aget id (addrs s) in
  let ms1 := match prev with
             | Some p => remove_from_node (m_node p) id (members s)
             | None => members s
             end in
  let ms2 := aset (m_node m) (nodelist ms1 (m_node m) ++ [m]) ms1 in
  (mkPool (aset id m (addrs s)) ms2, negb (is_some prev)).

(* Remove(addr) (removed bool) *)
Definition p_remove (s : pool) (k : N) : pool * bool :=
  match aget k (addrs s) with
  | None => (s, false)
  | Some p => (mkPool (aremove k (addrs s)) (remove_from_node (m_node p) k (members s)), true)
  end.

Definition p_len (s : pool) : N := N.of_nat (length (addrs s)).      (* Len *)
Definition p_all (s : pool) : list member := map snd (addrs s).       (* Traverse (order unspecified) *)

(* ------------------------------------------------------------------ histories *)
Inductive op := OSet (m : member) | ORemove (k : N) | OEmpty.

Definition step (s : pool) (o : op) : pool * bool :=
  match o with
  | OSet m => p_set s m
  | ORemove k => p_remove s k
  | OEmpty => (p_empty s, true)
  end.

Definition run (h : list op) : pool := fold_left (fun s o => fst (step s o)) h init.

(* ------------------------------------------------------------------ specification: the present members *)
Definition spec := N -> option member.

Definition spec_step (f : spec) (o : op) : spec :=
  match o with
  | OSet m => fun a => if a =? m_addr m then Some m else f a
  | ORemove k => fun a => if a =? k then None else f a
  | OEmpty => fun _ => None
  end.

Definition present (h : list op) : spec := fold_left spec_step h (fun _ => None).

(* an op that changes what is present at address a *)
Definition touches (a : N) (o : op) : bool :=
  match o with
  | OSet m => m_addr m =? a
  | ORemove k => k =? a
  | OEmpty => true
  end.

Definition node_is (n : N) (o : option member) : bool :=
  match o with Some m => m_node m =? n | None => false end.

(* ------------------------------------------------------------------ correspondence *)
(* A case is a history with the implementation's observations after every op; to keep the generated files
   small every step is a flat list of small numbers (written by harness/cmd/c37):
     [ op; masks; lens; misc; entries... ]
   op      = kind + 3*(addr + 16*(node + 4*tag))          kind 0 Set, 1 Remove, 2 Empty
   masks   = ret + 2*(E + 1024*F)     E = sum 2^a over uaddrs with Exists(a), F same with Get's found flag
   lens    = base-64 digits MembersLen(node 0..3)
   misc    = base-64 digits Len, pn, pa, then MembersLenOthers(node pn, addr pa) = (len, others, found)
   entries = sorted: 2*(a + 16*(node + 4*tag)) for every a in uaddrs where Get(a) returned a member,
                     1 + 2*(n + 4*(addr + 16*tag)) for every member of the per-node list of n in unodes *)
Definition uaddrs : list N := [0; 1; 2; 3; 4; 5; 6; 7; 8; 9].   (* 9 used addresses + 1 never used *)
Definition unodes : list N := [0; 1; 2; 3].                      (* 3 used nodes + 1 never used *)

Fixpoint insert_n (x : N) (l : list N) : list N :=
  match l with
  | [] => [x]
  | y :: r => if x <=? y then x :: l else y :: insert_n x r
  end.
Definition sort_n (l : list N) : list N := fold_right insert_n [] l.

Definition b2n (b : bool) : N := if b then 1 else 0.

Fixpoint mask (f : N -> bool) (l : list N) : N :=
  match l with
  | [] => 0
  | a :: r => (if f a then 2 ^ a else 0) + mask f r
  end.

Fixpoint digits64 (l : list N) : N :=
  match l with
  | [] => 0
  | d :: r => d + 64 * digits64 r
  end.

Definition enc_member (x : member) : N := m_addr x + 16 * (m_node x + 4 * m_tag x).

Definition decode_op (c : N) : op :=
  let k := c mod 3 in
  let r := c / 3 in
  let a := r mod 16 in
  let r2 := r / 16 in
  if k =? 0 then OSet (mkMember a (r2 mod 4) (r2 / 4))
  else if k =? 1 then ORemove a
  else OEmpty.

Definition observe (ret : bool) (s : pool) (pn pa : N) : list N :=
  let '(ol, oo, of) := p_members_len_others s pn pa in
  (b2n ret + 2 * (mask (p_exists s) uaddrs + 1024 * mask (fun a => snd (p_get s a)) uaddrs))
  :: digits64 (map (p_members_len s) unodes)
  :: digits64 [p_len s; pn; pa; ol; oo; b2n of]
  :: sort_n (flat_map (fun a => match fst (p_get s a) with
                                | Some x => [2 * (a + 16 * (m_node x + 4 * m_tag x))]
                                | None => []
                                end) uaddrs
             ++ flat_map (fun n => map (fun x => 1 + 2 * (n + 4 * (m_addr x + 16 * m_tag x)))
                                       (nodelist (members s) n)) unodes).

Fixpoint list_eqb' {A} (eqb : A -> A -> bool) (a b : list A) : bool :=
  match a, b with
  | [], [] => true
  | x :: a', y :: b' => eqb x y && list_eqb' eqb a' b'
  | _, _ => false
  end.

Fixpoint check_from (s : pool) (c : list (list N)) : bool :=
  match c with
  | [] => true
  | (opc :: masks :: lens :: misc :: entries) :: r =>
      let '(s', ret) := step s (decode_op opc) in
      let pn := (misc / 64) mod 64 in
      let pa := (misc / 4096) mod 64 in
      list_eqb' N.eqb (observe ret s' pn pa) (masks :: lens :: misc :: entries) && check_from s' r
  | _ => false
  end.

Definition check (c : list (list N)) : bool := check_from init c.
