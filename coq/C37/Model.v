(* C37 -- memberlist member table.  Transcribes network/quicmemberlist/memberlist.go `membersPool`
   (after the fix: commit):

     type membersPool struct {
         addrs   *util.ShardedMap[string, Member]    // by memberid(addr) = "ip:port"
         members *util.ShardedMap[string, []Member]  // by node address
     }

   The two util.ShardedMap are modelled as finite maps (association lists with unique keys): Value/Exists =
   [aget], SetValue/Set = [aset], RemoveValue/Remove = [aremove], Len = number of keys, Empty = [].  Sharding,
   locking and the atomic length counter of ShardedMap are not modelled here (C32 is about them).
   A member is (addr id, node id, tag); the tag stands for the identity of the Member object (its name /
   joinedAt), so that "replaced by the re-joined member" is observable.  No proofs in this file. *)
From Coq Require Import NArith List Bool.
Import ListNotations.
Open Scope N_scope.

Record member := mkMember { m_addr : N; m_node : N; m_tag : N }.

Definition member_eqb (a b : member) : bool :=
  (m_addr a =? m_addr b) && (m_node a =? m_node b) && (m_tag a =? m_tag b).

(* ------------------------------------------------------------------ finite map *)
Definition amap (V : Type) := list (N * V).

Fixpoint aget {V} (k : N) (m : amap V) : option V :=
  match m with
  | [] => None
  | (k', v) :: r => if k' =? k then Some v else aget k r
  end.

Definition aremove {V} (k : N) (m : amap V) : amap V := filter (fun p => negb (fst p =? k)) m.
Definition aset {V} (k : N) (v : V) (m : amap V) : amap V := (k, v) :: aremove k m.
Definition keys {V} (m : amap V) : list N := map fst m.

Definition is_some {A} (o : option A) : bool := match o with Some _ => true | None => false end.

(* ------------------------------------------------------------------ membersPool *)
Record pool := mkPool { addrs : amap member; members : amap (list member) }.

Definition init : pool := mkPool [] [].                       (* newMembersPool *)

Definition p_empty (s : pool) : pool := mkPool [] [].         (* Empty *)

Definition p_exists (s : pool) (k : N) : bool := is_some (aget k (addrs s)).   (* Exists *)

(* Get: (member, found); `case !found, i == nil: return nil, false; default: return i, true` *)
Definition p_get (s : pool) (k : N) : option member * bool :=
  match aget k (addrs s) with
  | Some m => (Some m, true)
  | None => (None, false)
  end.

Definition nodelist (ms : amap (list member)) (n : N) : list member :=
  match aget n ms with Some l => l | None => [] end.

(* MembersLen *)
Definition p_members_len (s : pool) (n : N) : N := N.of_nat (length (nodelist (members s) n)).

(* MembersLenOthers(node, addr) = (memberslen, others, found) *)
Definition p_members_len_others (s : pool) (n a : N) : N * N * bool :=
  let l := nodelist (members s) n in
  (N.of_nat (length l),
   N.of_nat (length (filter (fun x => negb (m_addr x =? a)) l)),
   existsb (fun x => m_addr x =? a) l).

(* removeFromNode(node, id): SetOrRemove on the node's list, dropping only the member of addr id; the key is
   removed when the list becomes empty *)
Definition remove_from_node (n id : N) (ms : amap (list member)) : amap (list member) :=
  match aget n ms with
  | None => ms
  | Some l =>
      match filter (fun x => negb (m_addr x =? id)) l with
      | [] => aremove n ms
      | l' => aset n l' ms
      end
  end.

(* Set(member) (added bool) *)
Definition p_set (s : pool) (m : member) : pool * bool :=
  let id := m_addr m in
  let prev := aget id (addrs s) in
  let ms1 := match prev with
             | Some p => remove_from_node (m_node p) id (members s)
             | None => members s
             end in
  let ms2 := aset (m_node m) (nodelist ms1 (m_node m) ++ [m]) ms1 in
  (mkPool (aset id m (addrs s)) ms2, negb (is_some prev)).

(* Remove(addr) (removed bool) *)
Definition p_remove (s : pool) (k : N) : pool * bool :=
  match aget k (addrs s) with
  | None => (s, false)
  | Some p => (mkPool (aremove k (addrs s)) (remove_from_node (m_node p) k (members s)), true)
  end.

Definition p_len (s : pool) : N := N.of_nat (length (addrs s)).      (* Len *)
Definition p_all (s : pool) : list member := map snd (addrs s).       (* Traverse (order unspecified) *)

(* ------------------------------------------------------------------ histories *)
Inductive op := OSet (m : member) | ORemove (k : N) | OEmpty.

Definition step (s : pool) (o : op) : pool * bool :=
  match o with
  | OSet m => p_set s m
  | ORemove k => p_remove s k
  | OEmpty => (p_empty s, true)
  end.

Definition run (h : list op) : pool := fold_left (fun s o => fst (step s o)) h init.

(* ------------------------------------------------------------------ specification: the present members *)
Definition spec := N -> option member.

Definition spec_step (f : spec) (o : op) : spec :=
  match o with
  | OSet m => fun a => if a =? m_addr m then Some m else f a
  | ORemove k => fun a => if a =? k then None else f a
  | OEmpty => fun _ => None
  end.

Definition present (h : list op) : spec := fold_left spec_step h (fun _ => None).

(* an op that changes what is present at address a *)
Definition touches (a : N) (o : op) : bool :=
  match o with
  | OSet m => m_addr m =? a
  | ORemove k => k =? a
  | OEmpty => true
  end.

Definition node_is (n : N) (o : option member) : bool :=
  match o with Some m => m_node m =? n | None => false end.

(* ------------------------------------------------------------------ correspondence *)
(* canonical order for lists the property does not order: insertion sort on (key1, key2) *)
Definition pair_leb (a b : N * N) : bool :=
  (fst a <? fst b) || ((fst a =? fst b) && (snd a <=? snd b)).

Fixpoint insert_pair (x : N * N) (l : list (N * N)) : list (N * N) :=
  match l with
  | [] => [x]
  | y :: r => if pair_leb x y then x :: l else y :: insert_pair x r
  end.

Definition sort_pairs (l : list (N * N)) : list (N * N) := fold_right insert_pair [] l.

Definition uaddrs : list N := [0; 1; 2; 3; 4; 5; 6; 7; 8; 9].   (* 9 used addresses + 1 never used *)
Definition unodes : list N := [0; 1; 2; 3].                      (* 3 used nodes + 1 never used *)

(* what the harness observes after every op *)
Record obs := mkObs {
  o_ret : bool;                                (* Set: added / Remove: removed / Empty: true *)
  o_exists : list bool;                        (* Exists(a), a in uaddrs *)
  o_get : list (option (N * N) * bool);        (* Get(a) = (Some (node, tag), found) *)
  o_mlen : list N;                             (* MembersLen(n), n in unodes *)
  o_nodes : list (list (N * N));               (* per-node list as sorted (addr, tag) *)
  o_len : N;                                   (* Len *)
  o_all : list (N * N);                        (* Traverse as sorted (addr, tag) *)
  o_probe : N * N;                             (* (node, addr) given to MembersLenOthers *)
  o_others : N * N * bool
}.

Definition observe (ret : bool) (s : pool) (probe : N * N) : obs :=
  mkObs ret
    (map (p_exists s) uaddrs)
    (map (fun a => let '(m, f) := p_get s a in
                   (match m with Some x => Some (m_node x, m_tag x) | None => None end, f)) uaddrs)
    (map (p_members_len s) unodes)
    (map (fun n => sort_pairs (map (fun x => (m_addr x, m_tag x)) (nodelist (members s) n))) unodes)
    (p_len s)
    (sort_pairs (map (fun x => (m_addr x, m_tag x)) (p_all s)))
    probe
    (p_members_len_others s (fst probe) (snd probe)).

Definition pair_eqb (a b : N * N) : bool := (fst a =? fst b) && (snd a =? snd b).

Fixpoint list_eqb' {A} (eqb : A -> A -> bool) (a b : list A) : bool :=
  match a, b with
  | [], [] => true
  | x :: a', y :: b' => eqb x y && list_eqb' eqb a' b'
  | _, _ => false
  end.

Definition opt_pair_eqb (a b : option (N * N)) : bool :=
  match a, b with
  | Some x, Some y => pair_eqb x y
  | None, None => true
  | _, _ => false
  end.

Definition obs_eqb (a b : obs) : bool :=
  Bool.eqb (o_ret a) (o_ret b)
  && list_eqb' Bool.eqb (o_exists a) (o_exists b)
  && list_eqb' (fun x y => opt_pair_eqb (fst x) (fst y) && Bool.eqb (snd x) (snd y)) (o_get a) (o_get b)
  && list_eqb' N.eqb (o_mlen a) (o_mlen b)
  && list_eqb' (list_eqb' pair_eqb) (o_nodes a) (o_nodes b)
  && (o_len a =? o_len b)
  && list_eqb' pair_eqb (o_all a) (o_all b)
  && pair_eqb (o_probe a) (o_probe b)
  && (let '(x1, x2, x3) := o_others a in let '(y1, y2, y3) := o_others b in
      (x1 =? y1) && (x2 =? y2) && Bool.eqb x3 y3).

(* a case = a history with the implementation's observations after every op *)
Fixpoint check_from (s : pool) (c : list (op * obs)) : bool :=
  match c with
  | [] => true
  | (o, ob) :: r =>
      let '(s', ret) := step s o in
      obs_eqb (observe ret s' (o_probe ob)) ob && check_from s' r
  end.

Definition check (c : list (op * obs)) : bool := check_from init c.
