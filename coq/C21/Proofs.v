(* C21 -- lemmas: writes that do not reach the commit record are invisible after recovery *)
From Coq Require Import List ZArith NArith Bool Lia.
Import ListNotations.
From MV Require Import Common.Cases C21.Model.
Local Open Scope Z_scope.

(* ------------------------------------------------------------------ keys, stores *)

Lemma key_eqb_eq : forall a b, key_eqb a b = true -> a = b.
Proof.
  destruct a, b; simpl; intros; try discriminate;
    try (apply Z.eqb_eq in H; subst; reflexivity); try (apply N.eqb_eq in H; subst; reflexivity).
Qed.

Lemma key_eqb_refl : forall a, key_eqb a a = true.
Proof. destruct a; simpl; try apply Z.eqb_refl; apply N.eqb_refl. Qed.

Lemma sget_app_skip : forall k (extra p : store),
  (forall kv, In kv extra -> key_eqb k (fst kv) = false) -> sget k (extra ++ p) = sget k p.
Proof.
  induction extra as [|[k' v] r]; simpl; intros; auto.
  assert (E := H (k', v) (or_introl eq_refl)). simpl in E. rewrite E. auto.
Qed.

Lemma sget_sdel_none : forall k k' s, sget k s = None -> sget k (sdel k' s) = None.
Proof.
  unfold sdel. induction s as [|[k2 v] r]; simpl; intros; auto.
  destruct (key_eqb k k2) eqn:E; try discriminate.
  destruct (negb (key_eqb k' k2)); simpl; auto. rewrite E. auto.
Qed.

Definition is_marker_key (k : key) : bool := match k with KMerged _ => true | _ => false end.

Lemma apply_ops_no_marker : forall ops s x,
  existsb is_marker_put ops = false -> sget (KMerged x) s = None -> sget (KMerged x) (apply_ops ops s) = None.
Proof.
  unfold apply_ops. induction ops as [|o r]; simpl; intros; auto.
  apply orb_false_iff in H. destruct H as [H1 H2].
  apply IHr; auto. destruct o; simpl.
  - destruct k; simpl in *; auto; discriminate.
  - apply sget_sdel_none. auto.
  - auto.
Qed.

(* ------------------------------------------------------------------ temps on disk *)

Definition no_pid (pid : nat) (ts : list (nat * Z * store)) : Prop :=
  forall e, In e ts -> Nat.eqb (fst (fst e)) pid = false.

Lemma pid_known_false : forall pid d, pid_known pid d = false -> no_pid pid (d_temps d).
Proof.
  unfold pid_known, no_pid. intros. destruct (Nat.eqb (fst (fst e)) pid) eqn:E; auto.
  assert (existsb (fun e0 => Nat.eqb (fst (fst e0)) pid) (d_temps d) = true).
  { apply existsb_exists. exists e. auto. }
  congruence.
Qed.

Lemma upd_temp_fresh : forall pid h ops ts, no_pid pid ts ->
  upd_temp pid h ops ts = ts ++ [(pid, h, apply_ops ops [])].
Proof.
  induction ts as [|[[p h'] s] r]; simpl; intros; auto.
  assert (E := H (p, h', s) (or_introl eq_refl)). simpl in E. rewrite E. f_equal. apply IHr. intros e I. apply H. right. auto.
Qed.

Lemma upd_temp_last : forall pid h ops ts h0 s, no_pid pid ts ->
  upd_temp pid h ops (ts ++ [(pid, h0, s)]) = ts ++ [(pid, h0, apply_ops ops s)].
Proof.
  induction ts as [|[[p h'] s'] r]; simpl; intros.
  - rewrite Nat.eqb_refl. auto.
  - assert (E := H (p, h', s') (or_introl eq_refl)). simpl in E. rewrite E. f_equal. apply IHr. intros e I. apply H. right. auto.
Qed.

Definition unmarked (s : store) : Prop := forall x, sget (KMerged x) s = None.

Lemma load_temp_extra : forall ts pid h0 s h, unmarked s ->
  load_temp (ts ++ [(pid, h0, s)]) h = load_temp ts h.
Proof.
  intros. unfold load_temp. rewrite rev_app_distr. simpl.
  destruct (Z.eqb h0 h); auto.
  destruct (temp_load s) as [t|] eqn:E; auto.
  unfold temp_load in E. destruct (max_map s) as [[hh m]|]; try discriminate. inversion E; subst.
  unfold is_merged. simpl. rewrite H. auto.
Qed.

Lemma load_temps_ext : forall ts ts', (forall h, load_temp ts' h = load_temp ts h) ->
  forall fuel h, load_temps fuel ts' h = load_temps fuel ts h.
Proof.
  induction fuel; simpl; intros; auto. rewrite H. destruct (load_temp ts h); auto. rewrite IHfuel. auto.
Qed.

Lemma load_temps_mono : forall ts fuel h l, load_temps fuel ts h = Some l -> load_temps (S fuel) ts h = Some l.
Proof.
  induction fuel; intros h l H. { discriminate. }
  simpl in H. change (load_temps (S (S fuel)) ts h) with
    (match load_temp ts h with
     | None => Some []
     | Some t => match load_temps (S fuel) ts (t_h t + 1) with Some l => Some (t :: l) | None => None end
     end).
  destruct (load_temp ts h); auto.
  destruct (load_temps fuel ts (t_h t + 1)) eqn:E; try discriminate.
  rewrite (IHfuel _ _ E). auto.
Qed.

(* ------------------------------------------------------------------ block write: records into a fresh prefix *)

(* the records of a sublist applied to a disk whose temps end with the (unmarked) prefix pid, or do not have it *)
Inductive fresh_state (d0 : disk) (pid : nat) : disk -> Prop :=
| fs_none : fresh_state d0 pid d0
| fs_some : forall h s, unmarked s -> fresh_state d0 pid (mkDisk (d_perm d0) (d_temps d0 ++ [(pid, h, s)])).

Lemma fresh_step : forall d0 pid d r, no_pid pid (d_temps d0) -> fresh_state d0 pid d ->
  in_temp_area pid r = true -> existsb is_marker_put (snd r) = false ->
  fresh_state d0 pid (apply_record d r).
Proof.
  intros d0 pid d [a ops] NP FS IA NM. simpl in *. unfold in_temp_area in IA. simpl in IA.
  destruct a as [|p h]; try discriminate. apply Nat.eqb_eq in IA. subst p.
  unfold apply_record. simpl. inversion FS; subst; simpl.
  - rewrite upd_temp_fresh; auto. apply fs_some. intros x. apply apply_ops_no_marker; auto.
  - rewrite upd_temp_last; auto. apply fs_some. intros x. apply apply_ops_no_marker; auto.
Qed.

Lemma fresh_steps : forall d0 pid rs d, no_pid pid (d_temps d0) -> fresh_state d0 pid d ->
  forallb (in_temp_area pid) rs = true -> forallb (fun r => negb (existsb is_marker_put (snd r))) rs = true ->
  fresh_state d0 pid (apply_records rs d).
Proof.
  unfold apply_records. induction rs; simpl; intros; auto.
  apply andb_true_iff in H1. apply andb_true_iff in H2. destruct H1, H2.
  apply IHrs; auto. apply fresh_step; auto. apply negb_true_iff. auto.
Qed.

Lemma fresh_recover : forall d0 pid d v0, fresh_state d0 pid d -> recover d0 = Some v0 -> recover d = Some v0.
Proof.
  intros. inversion H; subst; auto.
  unfold recover in *. cbn [d_perm d_temps] in *.
  set (last := match max_map (d_perm d0) with Some (h1, _) => if h1 >=? 0 then h1 else -1 | None => -1 end) in *.
  rewrite app_length. cbn [length]. replace (length (d_temps d0) + 1)%nat with (S (length (d_temps d0))) by lia.
  rewrite (load_temps_ext (d_temps d0) (d_temps d0 ++ [(pid, h, s)])).
  2: { intros. apply load_temp_extra. auto. }
  destruct (load_temps (S (length (d_temps d0))) (d_temps d0) (last + 1)) eqn:E; try discriminate.
  rewrite (load_temps_mono _ _ _ _ E). auto.
Qed.

(* sublists *)
Inductive sublist {A} : list A -> list A -> Prop :=
| sl_nil : sublist [] []
| sl_skip : forall x l l', sublist l l' -> sublist l (x :: l')
| sl_take : forall x l l', sublist l l' -> sublist (x :: l) (x :: l').

Lemma forallb_sublist : forall {A} (f : A -> bool) l l', sublist l l' -> forallb f l' = true -> forallb f l = true.
Proof.
  induction 1; simpl; intros; auto.
  - apply andb_true_iff in H0. destruct H0. auto.
  - apply andb_true_iff in H0. destruct H0. rewrite H0. simpl. auto.
Qed.

Lemma forallb_removelast : forall {A} (f : A -> bool) l, forallb f l = true -> forallb f (removelast l) = true.
Proof.
  induction l; intros; auto. destruct l as [|b r]; auto.
  change (removelast (a :: b :: r)) with (a :: removelast (b :: r)).
  cbn [forallb] in *. apply andb_true_iff in H. destruct H as [A1 A2]. rewrite A1. cbn [andb]. apply IHl. auto.
Qed.

Lemma block_write_invisible : forall d0 recs sub v0,
  block_write_ok d0 recs = true -> sublist sub (removelast recs) -> recover d0 = Some v0 ->
  recover (apply_records sub d0) = Some v0.
Proof.
  intros d0 recs sub v0 OK SL R.
  destruct recs as [|[a ops] rest]. { simpl in SL. inversion SL. subst. simpl. auto. }
  unfold block_write_ok in OK. destruct a as [|pid h]; try discriminate.
  apply andb_true_iff in OK. destruct OK as [OK NM]. apply andb_true_iff in OK. destruct OK as [FR AR].
  apply negb_true_iff in FR. apply pid_known_false in FR.
  assert (AR' := forallb_removelast _ _ AR).
  apply (fresh_recover d0 pid); auto.
  apply fresh_steps; auto.
  - constructor.
  - apply (forallb_sublist _ _ _ SL). auto.
  - apply (forallb_sublist _ _ _ SL). auto.
Qed.

(* ------------------------------------------------------------------ permanent merge: copies of the oldest temp *)

Definition binding_of (o : wop) : list (key * val) := match o with Put k v => [(k, v)] | _ => [] end.

Lemma val_eq_of_copy : forall (v v' : val),
  N.eqb (fst v) (fst v') && match snd v, snd v' with
                            | Some a, Some b => Z.eqb a b | None, None => true | _, _ => false end = true -> v = v'.
Proof.
  intros [i a] [j b]. simpl. intros H. apply andb_true_iff in H. destruct H as [H1 H2]. apply N.eqb_eq in H1. subst.
  destruct a, b; try discriminate; auto. apply Z.eqb_eq in H2. subst. auto.
Qed.

(* what copy_of guarantees about a written binding *)
Definition shadowed (t : temp) (kv : key * val) : Prop :=
  sget (fst kv) (t_store t) = Some (snd kv) /\
  match fst kv with KMap _ | KProof _ | KProofBH _ => False | _ => True end.

Lemma copy_of_shadowed : forall t o, copy_of t o = true -> exists k v, o = Put k v /\ shadowed t (k, v).
Proof.
  intros t o H. destruct o as [k v| |]; simpl in H; try discriminate.
  exists k, v. split; auto. unfold shadowed. simpl.
  destruct k; try discriminate; (destruct (sget _ (t_store t)) as [v'|] eqn:E; try discriminate;
    apply val_eq_of_copy in H; subst; split; auto).
Qed.

Lemma apply_copies : forall t ops s, forallb (copy_of t) ops = true ->
  exists extra, apply_ops ops s = extra ++ s /\ forall kv, In kv extra -> shadowed t kv.
Proof.
  unfold apply_ops. induction ops as [|o r]; simpl; intros.
  - exists []. split; auto. intros. contradiction.
  - apply andb_true_iff in H. destruct H as [H1 H2].
    destruct (copy_of_shadowed _ _ H1) as [k [v [-> SH]]]. simpl.
    destruct (IHr ((k, v) :: s) H2) as [extra [E1 E2]].
    exists (extra ++ [(k, v)]). split.
    + rewrite E1. rewrite <- app_assoc. auto.
    + intros kv I. apply in_app_or in I. destruct I as [I|[<-|[]]]; auto.
Qed.

Lemma apply_perm_copies : forall t rs d, forallb is_perm_area rs = true ->
  forallb (fun r => forallb (copy_of t) (snd r)) rs = true ->
  exists extra, apply_records rs d = mkDisk (extra ++ d_perm d) (d_temps d) /\ forall kv, In kv extra -> shadowed t kv.
Proof.
  unfold apply_records. induction rs as [|[a ops] r]; simpl; intros.
  - exists []. destruct d; auto. split; auto. intros. contradiction.
  - apply andb_true_iff in H. apply andb_true_iff in H0. destruct H as [A1 A2]. destruct H0 as [B1 B2].
    unfold is_perm_area in A1. simpl in A1. destruct a; try discriminate.
    destruct (apply_copies t ops (d_perm d) B1) as [e1 [E1 S1]].
    unfold apply_record at 2. simpl. rewrite E1.
    destruct (IHr (mkDisk (e1 ++ d_perm d) (d_temps d)) A2 B2) as [e2 [E2 S2]].
    exists (e2 ++ e1). split.
    + rewrite E2. simpl. rewrite <- app_assoc. auto.
    + intros kv I. apply in_app_or in I. destruct I; auto.
Qed.

(* extra bindings without KMap / KProof keys do not change what the permanent loader finds *)
Lemma max_map_h_extra : forall extra p, (forall kv, In kv extra -> match fst kv with KMap _ => False | _ => True end) ->
  max_map_h (extra ++ p) = max_map_h p.
Proof.
  induction extra as [|[k v] r]; simpl; intros; auto.
  assert (K := H (k, v) (or_introl eq_refl)). simpl in K.
  destruct k; try contradiction; apply IHr; intros; apply H; auto.
Qed.

Lemma max_proof_h_extra : forall extra p, (forall kv, In kv extra -> match fst kv with KProof _ => False | _ => True end) ->
  max_proof_h (extra ++ p) = max_proof_h p.
Proof.
  induction extra as [|[k v] r]; simpl; intros; auto.
  assert (K := H (k, v) (or_introl eq_refl)). simpl in K.
  destruct k; try contradiction; apply IHr; intros; apply H; auto.
Qed.

Section PermExtra.
  Variable t : temp.
  Variable extra p : store.
  Hypothesis SH : forall kv, In kv extra -> shadowed t kv.

  Lemma extra_not_map : forall g, sget (KMap g) (extra ++ p) = sget (KMap g) p.
  Proof.
    intros. apply sget_app_skip. intros kv I. destruct (SH kv I) as [_ K].
    destruct (fst kv); simpl; auto; contradiction.
  Qed.
  Lemma extra_not_proof : forall g, sget (KProof g) (extra ++ p) = sget (KProof g) p.
  Proof.
    intros. apply sget_app_skip. intros kv I. destruct (SH kv I) as [_ K].
    destruct (fst kv); simpl; auto; contradiction.
  Qed.
  Lemma extra_max_map : max_map (extra ++ p) = max_map p.
  Proof.
    unfold max_map. rewrite max_map_h_extra.
    - destruct (max_map_h p); auto. rewrite extra_not_map. auto.
    - intros kv I. destruct (SH kv I) as [_ K]. destruct (fst kv); auto.
  Qed.
  Lemma extra_max_proof : max_proof (extra ++ p) = max_proof p.
  Proof.
    unfold max_proof. rewrite max_proof_h_extra.
    - destruct (max_proof_h p); auto. rewrite extra_not_proof. auto.
    - intros kv I. destruct (SH kv I) as [_ K]. destruct (fst kv); auto.
  Qed.
  (* a key the temp does not have is not among the extra bindings *)
  Lemma extra_unseen : forall k, sget k (t_store t) = None -> sget k (extra ++ p) = sget k p.
  Proof.
    intros. apply sget_app_skip. intros kv I. destruct (SH kv I) as [G _].
    destruct (key_eqb k (fst kv)) eqn:E; auto. apply key_eqb_eq in E. subst. congruence.
  Qed.
End PermExtra.

Lemma first_some_none : forall {A B} (f : A -> option B) l x, first_some f l = None -> In x l -> f x = None.
Proof.
  induction l; simpl; intros. contradiction.
  destruct (f a) eqn:E; try discriminate. destruct H0; subst; auto.
Qed.

Lemma existsb_false_in : forall {A} (f : A -> bool) l x, existsb f l = false -> In x l -> f x = false.
Proof.
  induction l; simpl; intros. contradiction.
  apply orb_false_iff in H. destruct H. destruct H0; subst; auto.
Qed.

Lemma last_in : forall (ts : list temp) t, last (map Some ts) None = Some t -> In t ts.
Proof.
  induction ts; simpl; intros. discriminate.
  destruct ts; simpl in *. inversion H. auto. right. apply IHts. auto.
Qed.

Lemma read_perm_extra : forall t ts p extra q, In t ts -> (forall kv, In kv extra -> shadowed t kv) ->
  read (mkView (extra ++ p) ts) q = read (mkView p ts) q.
Proof.
  intros t ts p extra q IN SH. destruct q; simpl.
  - (* last map *) destruct ts; auto. rewrite (extra_max_map t); auto.
  - (* map *) unfold perm_map. rewrite (extra_max_map t); auto. rewrite (extra_not_map t); auto.
  - (* state *)
    destruct (first_some (fun t0 => sget (KState k) (t_store t0)) ts) eqn:F; simpl; auto.
    rewrite (extra_unseen t); auto. apply (first_some_none _ _ _ F IN).
  - (* in-state operation *)
    destruct (existsb (fun t0 => has (KInOp o) (t_store t0)) ts) eqn:F; simpl; auto.
    unfold has. rewrite (extra_unseen t); auto.
    assert (G := existsb_false_in _ _ _ F IN). unfold has in G. destruct (sget (KInOp o) (t_store t)); auto; discriminate.
  - (* known operation *)
    destruct (existsb (fun t0 => has (KKnown o) (t_store t0)) ts) eqn:F; simpl; auto.
    unfold has. rewrite (extra_unseen t); auto.
    assert (G := existsb_false_in _ _ _ F IN). unfold has in G. destruct (sget (KKnown o) (t_store t)); auto; discriminate.
  - (* proof *) rewrite (extra_max_proof t); auto. rewrite (extra_not_proof t); auto.
  - (* last proof *) rewrite (extra_max_proof t); auto.
  - (* policy *)
    destruct (first_some t_pol ts) eqn:F; simpl; auto.
    rewrite (extra_unseen t); auto. apply (first_some_none _ _ _ F IN).
Qed.

Lemma perm_merge_invisible : forall d0 recs sub v0,
  recs <> [] -> perm_merge_ok d0 recs = true -> sublist sub (removelast recs) -> recover d0 = Some v0 ->
  exists v, recover (apply_records sub d0) = Some v /\ forall q, read v q = read v0 q.
Proof.
  intros d0 recs sub v0 NE OK SL R.
  unfold perm_merge_ok in OK. destruct recs as [|r0 rest]; try congruence.
  rewrite R in OK. destruct (last (map Some (v_temps v0)) None) as [t|] eqn:L; try discriminate.
  apply andb_true_iff in OK. destruct OK as [PA CP].
  assert (PA' := forallb_removelast _ _ PA).
  destruct (apply_perm_copies t sub d0) as [extra [E SH]].
  { eapply forallb_sublist; eauto. }
  { eapply forallb_sublist; eauto. }
  rewrite E. unfold recover in *. cbn [d_perm d_temps] in *.
  rewrite (extra_max_map t); auto.
  destruct (load_temps (S (length (d_temps d0))) (d_temps d0)
              (match max_map (d_perm d0) with Some (h, _) => if h >=? 0 then h else -1 | None => -1 end + 1)) eqn:LT;
    try discriminate.
  inversion R; subst. cbn [v_temps] in L. eexists. split. reflexivity.
  intros q. apply (read_perm_extra t); auto. apply last_in. auto.
Qed.
