(* C21 -- Block commit is atomic across crashes.  Property theorems only (lemmas in Proofs.v).
   Model: coq/C21/Model.v.  A run of an operation of the commit path is the list [recs] of its atomic storage
   writes (one leveldb Put/Delete/Batch each).  The last record is the commit record (the merged marker of the
   temp database; the batch with the block map and suffrage proofs of the permanent merge); the records before
   it may be written in any order and in parallel, so a crash state is ANY sub-list of them (or everything).
   [op_ok] is the discipline of the records (checked on the records of every real run by the harness):
     block write + temp merge: all records go to one fresh prefix, no record but the last puts the merged marker;
     permanent merge: every record but the last copies entries of the oldest loaded temp database other
                      than block map / suffrage proof keys into the permanent storage. *)
From Coq Require Import List ZArith NArith Bool.
Import ListNotations.
From MV Require Import C21.Model C21.Proofs.
Local Open Scope Z_scope.

Definition crash_state (recs s : list record) : Prop := sublist s (removelast recs) \/ s = recs.

(* After a crash at any point of a block write, temp merge, permanent merge or temp removal, startup shows
   either exactly what it showed before the operation (the block is not visible at all, the last height is
   the old one) or exactly what it shows after the complete operation: every read of the database
   (last block map, block map by height, every state, operation records, suffrage proofs, policy). *)
Theorem C21_atomic : forall kind d0 recs s,
  op_ok kind d0 recs = true -> recover d0 <> None -> crash_state recs s ->
  (forall q, reads (apply_records s d0) q = reads d0 q) \/
  (forall q, reads (apply_records s d0) q = reads (apply_records recs d0) q).
Proof.
  intros kind d0 recs s OK R [SL | ->]; auto. left.
  destruct (recover d0) as [v0|] eqn:RV; try congruence.
  destruct kind; simpl in OK.
  - intros q. unfold reads. rewrite (block_write_invisible d0 recs s v0 OK SL RV). rewrite RV. auto.
  - destruct recs as [|r0 rest]. { simpl in SL. inversion SL. subst. auto. }
    destruct (perm_merge_invisible d0 (r0 :: rest) s v0) as [v [E Q]]; auto; try discriminate.
    intros q. unfold reads. rewrite E, RV. auto.
  - apply andb_true_iff in OK. destruct OK as [OK _].
    destruct recs as [|r0 [|r1 rest]]; simpl in OK; try discriminate; simpl in SL; inversion SL; subst; auto.
Qed.

(* in particular the recovered storage never fails to load, and the temps/permanent last height is the one
   before the operation as long as the commit record is missing *)
Theorem C21_block_invisible_before_commit : forall d0 recs s v0,
  block_write_ok d0 recs = true -> recover d0 = Some v0 -> sublist s (removelast recs) ->
  recover (apply_records s d0) = Some v0.
Proof. intros. eapply block_write_invisible; eauto. Qed.

Theorem C21_perm_merge_invisible_before_commit : forall d0 recs s v0,
  recs <> [] -> perm_merge_ok d0 recs = true -> recover d0 = Some v0 -> sublist s (removelast recs) ->
  exists v, recover (apply_records s d0) = Some v /\ v_temps v = v_temps v0 /\ forall q, read v q = read v0 q.
Proof.
  intros d0 recs s v0 NE OK R SL.
  destruct (perm_merge_invisible d0 recs s v0 NE OK SL R) as [v [E Q]].
  exists v. split; auto. split; auto.
  (* the same temps are loaded: only the permanent part differs *)
  unfold perm_merge_ok in OK. destruct recs as [|r0 rest]; try congruence. rewrite R in OK.
  destruct (last (map Some (v_temps v0)) None) as [t|]; try discriminate.
  apply andb_true_iff in OK. destruct OK as [PA CP].
  destruct (apply_perm_copies t s d0) as [extra [EE SH]].
  { eapply forallb_sublist; eauto. apply forallb_removelast. auto. }
  { eapply forallb_sublist; eauto. }
  rewrite EE in E. unfold recover in *. cbn [d_perm d_temps] in *. rewrite (extra_max_map t) in E; auto.
  destruct (load_temps (S (length (d_temps d0))) (d_temps d0) _); try discriminate.
  inversion E; inversion R; subst. auto.
Qed.

(* ---- the order the permanent merge used before fix 7a4a160 (block map in the first of the parallel batches):
   a crash after that batch shows block 1 with a state of block 0 -- neither before nor after; the discipline
   [perm_merge_ok] rejects such a run *)
Definition old_d0 : disk :=
  mkDisk [(KState 2, V 1 None); (KMap 0, V 10 None)]
         [(0%nat, 1, [(KMerged 1, V 0 None); (KMap 1, V 11 None); (KState 3, V 6 None); (KState 2, V 5 None)]);
          (1%nat, 2, [(KMerged 2, V 0 None); (KMap 2, V 12 None)])].
Definition old_recs : list record :=
  [(APerm, [Put (KMap 1) (V 11 None); Put (KState 3) (V 6 None)]); (APerm, [Put (KState 2) (V 5 None)])].

Theorem C21_old_perm_merge_order_refuted :
  perm_merge_ok old_d0 old_recs = false /\
  sublist [nth 0 old_recs (APerm, [])] (removelast old_recs) /\
  reads (apply_records [nth 0 old_recs (APerm, [])] old_d0) (QState 2) = 1 /\
  reads old_d0 (QState 2) = 5 /\ reads (apply_records old_recs old_d0) (QState 2) = 5 /\
  reads (apply_records [nth 0 old_recs (APerm, [])] old_d0) (QMap 1) = 11.
Proof. repeat split; try (vm_compute; reflexivity). simpl. apply sl_take. apply sl_nil. Qed.

(* non-vacuity: runs that satisfy the discipline, with a commit that changes what is visible *)
Definition new_recs : list record :=
  [(APerm, [Put (KState 2) (V 5 None); Put (KMerged 1) (V 0 None)]); (APerm, [Put (KState 3) (V 6 None)]);
   (APerm, [Put (KMap 1) (V 11 None)])].
Definition bw_recs : list record :=
  [(ATemp 2 3, [Put (KState 2) (V 7 None)]); (ATemp 2 3, [Put (KMap 3) (V 13 None)]); (ATemp 2 3, [Put (KMerged 3) (V 0 None)])].

Example C21_example_disciplined :
  op_ok SPermMerge old_d0 new_recs = true /\ op_ok SBlockWrite old_d0 bw_recs = true /\
  reads old_d0 QLastMap = 12 /\ reads (apply_records bw_recs old_d0) QLastMap = 13 /\
  reads (apply_records (removelast bw_recs) old_d0) QLastMap = 12 /\
  reads (apply_records bw_recs old_d0) (QState 2) = 7 /\
  reads (apply_records [nth 1 new_recs (APerm, [])] old_d0) (QState 2) = 5.
Proof. repeat split; vm_compute; reflexivity. Qed.
