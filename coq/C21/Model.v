(* C21 -- block commit is atomic across crashes.  Executable store-level model, no proofs.

   Storage = the permanent prefix storage plus one prefix storage per block-write/temp database
   (isaac/database: leveldbLabelPermanent, leveldbLabelBlockWrite+height+ULID).  One leveldb Put/Delete/Batch
   = one [record] = one atomic write (trusted: goleveldb journal).  A crash state = the storage after some of
   the records of a run.  Startup is transcribed from
     perm_leveldb.go  NewLeveldbPermanent: loadLastBlockMap, loadLastSuffrageProof, loadNetworkPolicy
     temp_leveldb.go  NewTempLeveldbFromPrefix (loadLastBlockMap, loadSuffrageState, loadSuffrageProof,
                      loadNetworkPolicy, loadInStateOperations), isMerged
     center.go        Center.load, loadTemps, loadTemp (merged marker, consecutive heights from last+1)
   and the reads of Center (temps newest first, then the permanent database) from center.go. *)
From Coq Require Import List ZArith NArith Bool.
Import ListNotations.
From MV Require Import Common.Cases.
Local Open Scope Z_scope.

Inductive key :=
| KMap (h : Z)          (* leveldbKeyPrefixBlockMap + height *)
| KState (k : N)        (* leveldbKeyPrefixState + state key; 0 = suffrage state key, 1 = network policy key *)
| KInOp (o : N)         (* leveldbKeyPrefixInStateOperation + fact hash *)
| KKnown (o : N)        (* leveldbKeyPrefixKnownOperation + operation hash *)
| KProof (sh : Z)       (* leveldbKeySuffrageProof + suffrage height *)
| KProofBH (h : Z)      (* leveldbKeySuffrageProofByBlockHeight + block height *)
| KMerged (h : Z).      (* leveldbKeyTempMerged + height *)

(* a stored object: its identity and, for a suffrage state / suffrage proof, the suffrage height inside *)
Definition val := (N * option Z)%type.
Definition V (id : N) (sh : option Z) : val := (id, sh).

Definition key_eqb (a b : key) : bool :=
  match a, b with
  | KMap x, KMap y => Z.eqb x y
  | KState x, KState y => N.eqb x y
  | KInOp x, KInOp y => N.eqb x y
  | KKnown x, KKnown y => N.eqb x y
  | KProof x, KProof y => Z.eqb x y
  | KProofBH x, KProofBH y => Z.eqb x y
  | KMerged x, KMerged y => Z.eqb x y
  | _, _ => false
  end.

Definition store := list (key * val).     (* newest binding first *)
Fixpoint sget (k : key) (s : store) : option val :=
  match s with
  | [] => None
  | (k', v) :: r => if key_eqb k k' then Some v else sget k r
  end.
Definition sdel (k : key) (s : store) : store := filter (fun kv => negb (key_eqb k (fst kv))) s.

Inductive wop := Put (k : key) (v : val) | Del (k : key)
  | Clear.   (* a batch deleting every key of the prefix storage (RemoveByPrefix) *)
Definition apply_op (s : store) (o : wop) : store :=
  match o with Put k v => (k, v) :: s | Del k => sdel k s | Clear => [] end.
Definition apply_ops (ops : list wop) (s : store) : store := fold_left apply_op ops s.

Inductive area := APerm | ATemp (pid : nat) (h : Z).   (* prefix id (creation order), height in the prefix *)
Definition record := (area * list wop)%type.

Record disk := mkDisk { d_perm : store; d_temps : list (nat * Z * store) }.

Fixpoint upd_temp (pid : nat) (h : Z) (ops : list wop) (ts : list (nat * Z * store)) : list (nat * Z * store) :=
  match ts with
  | [] => [(pid, h, apply_ops ops [])]
  | (p, h', s) :: r => if Nat.eqb p pid then (p, h', apply_ops ops s) :: r else (p, h', s) :: upd_temp pid h ops r
  end.

Definition apply_record (d : disk) (r : record) : disk :=
  match fst r with
  | APerm => mkDisk (apply_ops (snd r) (d_perm d)) (d_temps d)
  | ATemp pid h => mkDisk (d_perm d) (upd_temp pid h (snd r) (d_temps d))
  end.
Definition apply_records (rs : list record) (d : disk) : disk := fold_left apply_record rs d.
Definition empty_disk : disk := mkDisk [] [].

(* ---- loading *)

(* the binding of the greatest KMap height (loadLastBlockMap: last key under the blockmap prefix) *)
Fixpoint max_map_h (s : store) : option Z :=
  match s with
  | [] => None
  | (KMap h, _) :: r => match max_map_h r with Some h' => Some (Z.max h h') | None => Some h end
  | _ :: r => max_map_h r
  end.
Definition max_map (s : store) : option (Z * val) :=
  match max_map_h s with
  | Some h => match sget (KMap h) s with Some v => Some (h, v) | None => None end
  | None => None
  end.
Fixpoint max_proof_h (s : store) : option Z :=
  match s with
  | [] => None
  | (KProof h, _) :: r => match max_proof_h r with Some h' => Some (Z.max h h') | None => Some h end
  | _ :: r => max_proof_h r
  end.
Definition max_proof (s : store) : option val :=
  match max_proof_h s with Some h => sget (KProof h) s | None => None end.

Record temp := mkTemp { t_h : Z; t_map : val; t_store : store }.
Definition t_suf (t : temp) : option val := sget (KState 0) (t_store t).
Definition t_pol (t : temp) : option val := sget (KState 1) (t_store t).
Definition t_proof (t : temp) : option val := max_proof (t_store t).

(* NewTempLeveldbFromPrefix: fails without a block map *)
Definition temp_load (s : store) : option temp :=
  match max_map s with Some (h, m) => Some (mkTemp h m s) | None => None end.
Definition is_merged (t : temp) : bool :=
  match sget (KMerged (t_h t)) (t_store t) with Some _ => true | None => false end.

(* loadTemp(height): prefixes of that height, newest prefix first; the first that loads and is merged *)
Fixpoint load_temp_in (cands : list (nat * Z * store)) (h : Z) : option temp :=
  match cands with
  | [] => None
  | (_, h', s) :: r =>
      if Z.eqb h' h then
        match temp_load s with
        | Some t => if is_merged t then Some t else load_temp_in r h
        | None => load_temp_in r h
        end
      else load_temp_in r h
  end.
Definition load_temp (ts : list (nat * Z * store)) (h : Z) : option temp := load_temp_in (rev ts) h.

(* loadTemps: heights last+1, last+2, ... while a temp is found; result oldest first.  None = out of fuel *)
Fixpoint load_temps (fuel : nat) (ts : list (nat * Z * store)) (h : Z) : option (list temp) :=
  match fuel with
  | O => None
  | S f =>
      match load_temp ts h with
      | None => Some []
      | Some t => match load_temps f ts (t_h t + 1) with Some l => Some (t :: l) | None => None end
      end
  end.

Record view := mkView { v_perm : store; v_temps : list temp }.   (* temps newest first *)

Definition recover (d : disk) : option view :=
  let last := match max_map (d_perm d) with Some (h, _) => if h >=? 0 then h else -1 | None => -1 end in
  match load_temps (S (length (d_temps d))) (d_temps d) (last + 1) with
  | Some l => Some (mkView (d_perm d) (rev l))
  | None => None
  end.

(* ---- reads of Center *)
Inductive query := QLastMap | QMap (g : Z) | QState (k : N) | QInOp (o : N) | QKnown (o : N)
                 | QProof (sh : Z) | QLastProof | QPolicy.

Definition idz (v : option val) : Z := match v with Some (i, _) => Z.of_N i | None => -1 end.
Definition boolz (b : bool) : Z := if b then 1 else 0.
Definition has (k : key) (s : store) : bool := match sget k s with Some _ => true | None => false end.

Definition perm_map (p : store) (g : Z) : option val :=
  match max_map p with
  | None => None
  | Some (h, m) => if Z.eqb h g then Some m else sget (KMap g) p
  end.

Fixpoint first_some {A B} (f : A -> option B) (l : list A) : option B :=
  match l with
  | [] => None
  | x :: r => match f x with Some y => Some y | None => first_some f r end
  end.

Definition or_else {A} (a b : option A) : option A := match a with Some _ => a | None => b end.

Definition read (v : view) (q : query) : Z :=
  let ts := v_temps v in
  let p := v_perm v in
  match q with
  | QLastMap =>
      match ts with
      | t :: _ => idz (Some (t_map t))
      | [] => idz (option_map snd (max_map p))
      end
  | QMap g =>
      match ts with
      | [] => idz (perm_map p g)
      | top :: _ =>
          if t_h top <? g then -1
          else
            let i := t_h top - g in
            if andb (0 <=? i) (i <? Z.of_nat (length ts)) then
              match nth_error ts (Z.to_nat i) with Some t => idz (Some (t_map t)) | None => -1 end
            else idz (perm_map p g)
      end
  | QState k => idz (or_else (first_some (fun t => sget (KState k) (t_store t)) ts) (sget (KState k) p))
  | QInOp o => boolz (orb (existsb (fun t => has (KInOp o) (t_store t)) ts) (has (KInOp o) p))
  | QKnown o => boolz (orb (existsb (fun t => has (KKnown o) (t_store t)) ts) (has (KKnown o) p))
  | QProof sh =>
      let in_temps := first_some (fun t =>
          match t_suf t with
          | Some (_, Some s) => if Z.eqb s sh then t_proof t else None
          | _ => None
          end) ts in
      let in_perm :=
          match max_proof p with
          | Some (i, Some s) => if Z.eqb s sh then Some (i, Some s) else sget (KProof sh) p
          | _ => sget (KProof sh) p
          end in
      idz (or_else in_temps in_perm)
  | QLastProof => idz (or_else (first_some t_proof ts) (max_proof p))
  | QPolicy => idz (or_else (first_some t_pol ts) (sget (KState 1) p))
  end.

Definition reads (d : disk) (q : query) : Z :=
  match recover d with Some v => read v q | None => -9 end.

(* ---- the write discipline the atomicity theorems rest on, checked on every observed run *)
Definition is_marker_put (o : wop) : bool := match o with Put (KMerged _) _ => true | _ => false end.
Definition in_temp_area (pid : nat) (r : record) : bool :=
  match fst r with ATemp p _ => Nat.eqb p pid | APerm => false end.
Definition pid_known (pid : nat) (d : disk) : bool := existsb (fun e => Nat.eqb (fst (fst e)) pid) (d_temps d).

(* block write + temp merge into a fresh prefix: every record goes to that prefix, the merged marker is put by
   no record but the last *)
Definition block_write_ok (d0 : disk) (recs : list record) : bool :=
  match recs with
  | [] => true
  | (ATemp pid _, _) :: _ =>
      negb (pid_known pid d0) &&
      forallb (in_temp_area pid) recs &&
      forallb (fun r => negb (existsb is_marker_put (snd r))) (removelast recs)
  | _ => false
  end.

(* permanent merge: every record but the last copies state / operation / marker entries of the oldest loaded
   temp into the permanent storage (the block map and the proofs come in the last record) *)
Definition copy_of (t : temp) (o : wop) : bool :=
  match o with
  | Put (KMap _) _ | Put (KProof _) _ | Put (KProofBH _) _ => false
  | Put k v =>
      match sget k (t_store t) with
      | Some v' => N.eqb (fst v) (fst v') && match snd v, snd v' with
                                             | Some a, Some b => Z.eqb a b | None, None => true | _, _ => false end
      | None => false
      end
  | Del _ | Clear => false
  end.
Definition is_perm_area (r : record) : bool := match fst r with APerm => true | _ => false end.
Definition perm_merge_ok (d0 : disk) (recs : list record) : bool :=
  match recs with
  | [] => true
  | _ =>
      match recover d0 with
      | Some v =>
          match last (map Some (v_temps v)) None with
          | Some t => forallb is_perm_area recs && forallb (fun r => forallb (copy_of t) (snd r)) (removelast recs)
          | None => false
          end
      | None => false
      end
  end.

(* removal of a temp database (cleanRemoved, RemoveBlocks -> TempLeveldb.Remove -> RemoveByPrefix): ONE batch that
   deletes every key of the prefix *)
Definition is_clear_record (r : record) : bool :=
  match r with (ATemp _ _, [Clear]) => true | _ => false end.

(* an operation of the commit path and the discipline of its records *)
Inductive span_kind := SBlockWrite | SPermMerge | SRemoveTemp.
Definition op_ok (kind : span_kind) (d0 : disk) (recs : list record) : bool :=
  match kind with
  | SBlockWrite => block_write_ok d0 recs
  | SPermMerge => perm_merge_ok d0 recs
  | SRemoveTemp => Nat.leb (length recs) 1 && forallb is_clear_record recs
  end.

(* ---- correspondence: the records of a real run, the operation spans, and crash states with observed reads *)
Fixpoint drop_idx (i : nat) (drop : list nat) (l : list record) : list record :=
  match l with
  | [] => []
  | x :: r => if existsb (Nat.eqb i) drop then drop_idx (S i) drop r else x :: drop_idx (S i) drop r
  end.

Definition crash_disk (recs : list record) (k : nat) (drop : list nat) : disk :=
  apply_records (drop_idx 0 drop (firstn k recs)) empty_disk.

Definition span_ok (recs : list record) (sp : span_kind * nat * nat) : bool :=
  let '(kind, a, b) := sp in
  let d0 := apply_records (firstn a recs) empty_disk in
  let rs := firstn (b - a) (skipn a recs) in
  match kind with
  | SBlockWrite => block_write_ok d0 rs
  | SPermMerge => perm_merge_ok d0 rs
  | SRemoveTemp => forallb is_clear_record rs   (* each record removes one whole temp prefix *)
  end.

Definition point := (nat * list nat * list (query * Z))%type.
Definition point_ok (recs : list record) (p : point) : bool :=
  let '(k, drop, qs) := p in
  let d := crash_disk recs k drop in
  match recover d with
  | Some v => forallb (fun qz => Z.eqb (read v (fst qz)) (snd qz)) qs
  | None => false
  end.

Definition case := (list record * list (span_kind * nat * nat) * list point)%type.
Definition check (c : case) : bool :=
  let '(recs, spans, pts) := c in
  forallb (span_ok recs) spans && forallb (point_ok recs) pts.
