(* C38 -- The local node proposes at most one proposal per position.  Property theorems only.
   A history is a list of atomic steps (each Make / PreferEmpty call holds the maker's mutex from start to end):
   Make with whatever the operation source returns at that moment, PreferEmpty, a new last block, the pool's
   periodic proposal clean-up.  [snd (mrun h)] is the log of (point key, answer) of the calls of h. *)
From Coq Require Import ZArith NArith List Bool.
From MV Require Import C24.Model C38.Model C38.Proofs.
From MV Require C22.Model C22.Proofs C22.Props.
Import ListNotations.
Open Scope Z_scope.

(* For a given point and previous block (point key), however often the node is asked, through Make or PreferEmpty,
   with whatever operations are pending and whatever blocks are saved in between: all answers that are proposals are
   the same signed proposal (same fact, same signed object).  Histories without the pool's clean-up step. *)
Theorem C38_same_proposal : forall h pk f1 v1 f2 v2, Forall (fun o => o <> MClean) h ->
  In (pk, RProp f1 v1) (snd (mrun h)) -> In (pk, RProp f2 v2) (snd (mrun h)) -> f1 = f2 /\ v1 = v2.
Proof. exact same_proposal. Qed.

(* every answer is the pooled proposal of that position at the end of the history *)
Theorem C38_answer_is_pooled : forall h pk f v, Forall (fun o => o <> MClean) h ->
  In (pk, RProp f v) (snd (mrun h)) -> by_point pk (m_pool (fst (mrun h))) = Some (f, v).
Proof.
  intros h pk f v Hf Hin.
  destruct (mrun_from_inv h minit [] Hf wf_init ltac:(intros ? ? ? [])) as [_ L]. exact (L _ _ _ Hin).
Qed.

(* The proposal lists operations with distinct operation hashes and distinct facts, provided every list handed
   over by the operation source has that property (every history, clean-up included). *)
Theorem C38_distinct_ops_facts : forall h pk f v,
  Forall (fun o => match o with MMake _ _ ops => good ops | _ => True end) h ->
  In (pk, RProp f v) (snd (mrun h)) ->
  exists c, content_of f (fst (mrun h)) = Some c /\ NoDup (map fst c) /\ NoDup (map snd c).
Proof. exact distinct_ops_facts. Qed.

(* ... which is C22's conclusion about the operation pool: a hand-out of any reachable operation pool is good *)
Theorem C38_pool_handout_good : forall hops limit flt res st',
  C22.Model.operation_hashes limit flt (C22.Model.run hops) = (C22.Model.Ok res, st') -> good res.
Proof.
  intros hops limit flt res st' H. split.
  - exact (C22.Props.C22_distinct_ops hops limit flt res st' H).
  - exact (C22.Props.C22_distinct_facts hops limit flt res st' H).
Qed.

(* composition: when every Make is fed with a hand-out of the (reachable) operation pool, every proposal answered
   lists distinct operations and distinct facts *)
Theorem C38_with_pool : forall h pk f v,
  Forall (fun o => match o with
                   | MMake _ _ ops => exists hops limit flt st',
                       C22.Model.operation_hashes limit flt (C22.Model.run hops) = (C22.Model.Ok ops, st')
                   | _ => True end) h ->
  In (pk, RProp f v) (snd (mrun h)) ->
  exists c, content_of f (fst (mrun h)) = Some c /\ NoDup (map fst c) /\ NoDup (map snd c).
Proof.
  intros h pk f v Hf Hin. apply (distinct_ops_facts h pk f v); auto.
  eapply Forall_impl; [|exact Hf]. intros [pk0 prev ops|pk0|pk0|m mh|]; cbn; auto.
  intros [hops [limit [flt [st' H]]]]. eapply C38_pool_handout_good; eauto.
Qed.

(* "too old" positions are refused, never answered with a proposal; a refusal changes nothing *)
Theorem C38_too_old_refused : forall pk prev ops st m mh, m_last st = Some (m, mh) -> fst pk < m - 1 ->
  make pk prev ops st = (RTooOld, st) /\ prefer_empty pk st = (RTooOld, st).
Proof.
  intros pk prev ops st m mh H Hlt. unfold make, prefer_empty. rewrite H.
  assert (E : (fst pk <? m - 1) = true) by now apply Z.ltb_lt. now rewrite E.
Qed.

(* A call during which the pool's SetProposal fails (MCallFail: write error, storage closed) hands out nothing new:
   it changes nothing and answers "too old", the pool error, or the proposal already pooled for the position.
   Such calls are steps of the histories of C38_same_proposal, so a failing pool never makes the node sign a second
   proposal for a position. *)
Theorem C38_pool_error_hands_out_nothing : forall pk st,
  snd (make_fail pk st) = st /\
  (fst (make_fail pk st) = RTooOld \/ fst (make_fail pk st) = RPoolErr \/
   exists f v, fst (make_fail pk st) = RProp f v /\ by_point pk (m_pool st) = Some (f, v)).
Proof.
  intros pk st. destruct (make_fail_cases pk st) as [C|[C|[f [v [C B]]]]]; rewrite C; cbn [fst snd]; split; auto.
  right; right. eauto.
Qed.

(* REFUTED once the pool's clean-up step is part of the history (open known finding
   proposal-forgotten-after-cleanup): a request for a far-future point stores an empty proposal at a great height,
   the clean-up (newest height - 3) then deletes the proposal of the current position, the next request for it is
   answered with a different proposal *)
Theorem C38_same_proposal_with_cleanup_refuted : exists h pk f1 v1 f2 v2,
  In (pk, RProp f1 v1) (snd (mrun h)) /\ In (pk, RProp f2 v2) (snd (mrun h)) /\ f1 <> f2.
Proof.
  exists [MSetLast 10 0%N; MMake (11, 0%N) 0%N [(1%N, 1%N)]; MMake (40, 0%N) 0%N []; MClean; MMake (11, 0%N) 0%N [(2%N, 2%N)]],
         (11, 0%N), ((11, 0%N), 0%N), 0%N, ((11, 0%N), 2%N), 2%N.
  vm_compute. split; [left; reflexivity|]. split; [right; right; left; reflexivity|discriminate].
Qed.

(* ---------------------------------------------------------------- non-vacuity *)

Example C38_example_pool_error :
  snd (mrun [MCallFail (11, 0%N); MMake (11, 0%N) 0%N [(1%N, 1%N)]; MCallFail (11, 0%N)]) =
  [((11, 0%N), RPoolErr); ((11, 0%N), RProp ((11, 0%N), 0%N) 0%N); ((11, 0%N), RProp ((11, 0%N), 0%N) 0%N)].
Proof. vm_compute. reflexivity. Qed.

Example C38_example :
  snd (mrun [MMake (11, 0%N) 0%N [(1%N, 1%N); (2%N, 2%N)]; MSetLast 10 0%N; MMake (11, 0%N) 0%N [(3%N, 3%N)];
             MPreferEmpty (11, 0%N); MMake (11, 17%N) 1%N [(3%N, 3%N)]; MMake (8, 0%N) 0%N []]) =
  [((11, 0%N), RProp ((11, 0%N), 0%N) 0%N); ((11, 0%N), RProp ((11, 0%N), 0%N) 0%N);
   ((11, 0%N), RProp ((11, 0%N), 0%N) 0%N); ((11, 17%N), RProp ((11, 17%N), 1%N) 1%N); ((8, 0%N), RTooOld)].
Proof. vm_compute. reflexivity. Qed.
