(* C38 -- lemmas about the proposal maker model. *)
From Coq Require Import ZArith NArith List Bool Lia ZifyBool ZifyNat ZifyN.
From MV Require Import C24.Model C24.Proofs C38.Model.
Import ListNotations.
Open Scope Z_scope.

Lemma by_point_set_other : forall st f' v' pk, PI st -> fst f' <> pk ->
  by_point pk (snd (set_proposal f' v' st)) = by_point pk st.
Proof.
  intros st f' v' pk HPI Hne. unfold set_proposal.
  destruct (get fact_eqb f' (props st)) eqn:G; cbn [snd]; auto.
  unfold by_point. cbn [points]. rewrite (get_put_other key_eqb key_eqb_spec); auto.
  destruct (get key_eqb pk (points st)) as [f|] eqn:P; auto.
  unfold get_proposal. cbn [props].
  rewrite (get_put_other fact_eqb fact_eqb_spec); auto.
  intros ->. apply (get_in key_eqb key_eqb_spec) in P. destruct (HPI pk f P) as [A _]. contradiction.
Qed.

Lemma get_proposal_set_other : forall st f' v' f, f' <> f ->
  get_proposal f (snd (set_proposal f' v' st)) = get_proposal f st.
Proof.
  intros st f' v' f H. unfold set_proposal. destruct (get fact_eqb f' (props st)); cbn [snd]; auto.
  unfold get_proposal. cbn [props]. now apply (get_put_other fact_eqb fact_eqb_spec).
Qed.

(* every fact stored in the pool or listed in the content table was numbered before m_next *)
Definition fresh (st : mstate) : Prop :=
  (forall f v, In (f, v) (props (m_pool st)) -> (snd f < m_next st)%N) /\
  (forall f ops, In (f, ops) (m_content st) -> (snd f < m_next st)%N).

Definition has_content (st : mstate) : Prop :=
  forall f v, get_proposal f (m_pool st) = Some v -> exists ops, content_of f st = Some ops.

Definition all_good (st : mstate) : Prop := forall f ops, In (f, ops) (m_content st) -> good ops.

Record WF (st : mstate) : Prop := mkWF {
  wf_pi : PI (m_pool st); wf_fresh : fresh st; wf_content : has_content st }.

Lemma get_none_fresh : forall st pk, fresh st -> get_proposal (pk, m_next st) (m_pool st) = None.
Proof.
  intros st pk [F _]. unfold get_proposal. destruct (get fact_eqb (pk, m_next st) (props (m_pool st))) eqn:G; auto.
  apply (get_in fact_eqb fact_eqb_spec) in G. specialize (F _ _ G). cbn [snd] in F. lia.
Qed.

Lemma in_put : forall {K V} (eqb : K -> K -> bool) k v (l : list (K * V)) e, In e (put eqb k v l) -> e = (k, v) \/ In e l.
Proof.
  intros K V eqb k v l e H. unfold put in H. destruct H as [<-|H]; auto. right. unfold del in H. apply filter_In in H. tauto.
Qed.

Lemma wf_init : WF minit.
Proof.
  constructor; [apply PI_init| |].
  - split; intros ? ? [].
  - intros f v H. discriminate.
Qed.

(* the heart: what find_or_make does *)
Lemma find_or_make_spec : forall pk ops st, WF st ->
  let '(r, st') := find_or_make pk ops st in
  WF st' /\ m_last st' = m_last st /\ (m_next st <= m_next st')%N /\
  (exists f v, r = RProp f v /\ by_point pk (m_pool st') = Some (f, v) /\
               (exists c, content_of f st' = Some c /\ (c = ops \/ In (f, c) (m_content st)))) /\
  (forall pk0, pk0 <> pk -> by_point pk0 (m_pool st') = by_point pk0 (m_pool st)) /\
  (by_point pk (m_pool st) <> None -> st' = st) /\
  (forall f c, In (f, c) (m_content st') -> In (f, c) (m_content st) \/ c = ops) /\
  (forall f c, content_of f st = Some c -> content_of f st' = Some c).
Proof.
  intros pk ops st W. unfold find_or_make.
  destruct (by_point pk (m_pool st)) as [[f v]|] eqn:B.
  - split; auto. split; auto. split; [lia|]. split.
    + exists f, v. split; auto. split; auto.
      unfold by_point in B. destruct (get key_eqb pk (points (m_pool st))) as [f0|] eqn:P; [|discriminate].
      destruct (get_proposal f0 (m_pool st)) as [v0|] eqn:G; [|discriminate]. inversion B; subst.
      destruct (wf_content _ W _ _ G) as [c Hc]. exists c. split; auto. right.
      now apply (get_in fact_eqb fact_eqb_spec).
    + repeat split; auto.
  - pose proof (get_none_fresh st pk (wf_fresh _ W)) as Hnone.
    destruct (set_proposal_first (pk, m_next st) (m_next st) _ Hnone) as [_ [Hget Hby]]. cbn [fst] in Hby.
    assert (Hc_same : content_of (pk, m_next st)
              (mkM (snd (set_proposal (pk, m_next st) (m_next st) (m_pool st))) (m_last st) (N.succ (m_next st))
                   (((pk, m_next st), ops) :: m_content st)) = Some ops).
    { unfold content_of. cbn [m_content get]. now rewrite (eqb_refl fact_eqb fact_eqb_spec). }
    assert (Hc_keep : forall f c, content_of f st = Some c ->
              content_of f (mkM (snd (set_proposal (pk, m_next st) (m_next st) (m_pool st))) (m_last st) (N.succ (m_next st))
                   (((pk, m_next st), ops) :: m_content st)) = Some c).
    { intros f c H. unfold content_of in *. cbn [m_content get].
      destruct (fact_eqb (pk, m_next st) f) eqn:E; auto. apply fact_eqb_spec in E. subst f.
      apply (get_in fact_eqb fact_eqb_spec) in H. destruct (wf_fresh _ W) as [_ F2]. specialize (F2 _ _ H). cbn [snd] in F2. lia. }
    split; [constructor; cbn [m_pool m_next m_content]|].
    + apply PI_set_proposal. exact (wf_pi _ W).
    + destruct (wf_fresh _ W) as [F1 F2]. split.
      * intros f v Hin. unfold set_proposal in Hin. unfold get_proposal in Hnone. rewrite Hnone in Hin. cbn [snd props] in Hin.
        apply in_put in Hin. destruct Hin as [E|Hin]; [inversion E; subst; cbn [snd]; apply N.lt_succ_diag_r|specialize (F1 _ _ Hin); apply N.lt_lt_succ_r; exact F1].
      * intros f c [E|Hin]; [inversion E; subst; cbn [snd]; apply N.lt_succ_diag_r|specialize (F2 _ _ Hin); apply N.lt_lt_succ_r; exact F2].
    + intros f v G. cbn [m_pool] in G.
      destruct (fact_eqb (pk, m_next st) f) eqn:E.
      * apply fact_eqb_spec in E. subst f. eauto.
      * assert (Hne : (pk, m_next st) <> f) by (intros Q; rewrite <- Q, (eqb_refl fact_eqb fact_eqb_spec) in E; discriminate).
        rewrite get_proposal_set_other in G; auto.
        destruct (wf_content _ W f v G) as [c Hc]. exists c. now apply Hc_keep.
    + cbn [m_last m_next m_pool]. split; auto. split; [lia|]. split.
      * exists (pk, m_next st), (m_next st). split; auto. split; auto. exists ops. split; auto.
      * split; [intros pk0 Hne; apply by_point_set_other; [exact (wf_pi _ W)|cbn [fst]; auto]|].
        split; [intros H; congruence|]. split; auto.
        intros f c [E|Hin]; [inversion E; auto|auto].
Qed.

(* Make / PreferEmpty: either "too old" without any change, or find_or_make with some operation list that is the
   given one or empty *)
Lemma make_cases : forall pk prev ops st,
  make pk prev ops st = (RTooOld, st) \/ make pk prev ops st = find_or_make pk ops st \/ make pk prev ops st = find_or_make pk [] st.
Proof.
  intros pk prev ops st. unfold make. destruct (m_last st) as [[m mh]|]; auto.
  destruct (fst pk <? m - 1); auto. destruct (m + 1 <? fst pk); auto.
  destruct ((fst pk =? m + 1) && negb (N.eqb prev mh)); auto.
Qed.

Lemma prefer_empty_cases : forall pk st,
  prefer_empty pk st = (RTooOld, st) \/ prefer_empty pk st = find_or_make pk [] st.
Proof.
  intros pk st. unfold prefer_empty. destruct (m_last st) as [[m mh]|]; auto. destruct (fst pk <? m - 1); auto.
Qed.

Definition no_clean (o : mop) : Prop := o <> MClean.

(* invariant of histories without clean-up: every answer given so far is what the pool returns for that position *)
Definition Logged (st : mstate) (log : list (key * mres)) : Prop :=
  forall pk f v, In (pk, RProp f v) log -> by_point pk (m_pool st) = Some (f, v).

Lemma call_step : forall pk ops st log r st', WF st -> Logged st log -> find_or_make pk ops st = (r, st') ->
  WF st' /\ Logged st' (log ++ [(pk, r)]).
Proof.
  intros pk ops st log r st' W L E. pose proof (find_or_make_spec pk ops st W) as S. rewrite E in S.
  destruct S as [W' [_ [_ [[f [v [-> [B _]]]] [Hother [Hsame _]]]]]]. split; auto.
  intros pk0 f0 v0 Hin. apply in_app_or in Hin. destruct Hin as [Hin|[Hin|[]]].
  - destruct (key_eqb pk0 pk) eqn:K.
    + apply key_eqb_spec in K. subst pk0. pose proof (L _ _ _ Hin) as B0.
      rewrite (Hsame ltac:(congruence)). exact B0.
    + rewrite Hother; [now apply L|]. intros ->. rewrite (eqb_refl key_eqb key_eqb_spec) in K. discriminate.
  - inversion Hin; subst. exact B.
Qed.

Lemma tooold_step : forall pk st log, Logged st log -> Logged st (log ++ [(pk, RTooOld)]).
Proof.
  intros pk st log L pk0 f v Hin. apply in_app_or in Hin. destruct Hin as [Hin|[Hin|[]]]; [now apply L|discriminate].
Qed.

(* a call during which the pool write fails: the state is unchanged; it answers the pooled proposal or an error *)
Lemma make_fail_cases : forall pk st,
  make_fail pk st = (RTooOld, st) \/ make_fail pk st = (RPoolErr, st) \/
  exists f v, make_fail pk st = (RProp f v, st) /\ by_point pk (m_pool st) = Some (f, v).
Proof.
  intros pk st. unfold make_fail, find_or_fail.
  destruct (m_last st) as [[m mh]|]; [destruct (fst pk <? m - 1); auto|];
    (destruct (by_point pk (m_pool st)) as [[f v]|] eqn:B; [right; right; exists f, v; auto|auto]).
Qed.

Lemma fail_step : forall pk st log r st', Logged st log -> make_fail pk st = (r, st') ->
  st' = st /\ Logged st (log ++ [(pk, r)]).
Proof.
  intros pk st log r st' L E.
  destruct (make_fail_cases pk st) as [C|[C|[f [v [C B]]]]]; rewrite E in C; inversion C; subst; split; auto;
    intros pk0 f0 v0 Hin; apply in_app_or in Hin; destruct Hin as [Hin|[Hin|[]]]; try (now apply L); try discriminate.
  inversion Hin; subst. exact B.
Qed.

Lemma mrun_from_inv : forall ops st log, Forall no_clean ops -> WF st -> Logged st log ->
  WF (fst (mrun_from st log ops)) /\ Logged (fst (mrun_from st log ops)) (snd (mrun_from st log ops)).
Proof.
  induction ops as [|o t IH]; intros st log Hf W L; cbn [mrun_from fst snd]; auto.
  inversion Hf as [|? ? Ho Ht]; subst.
  destruct o as [pk prev ops|pk|pk|m mh|]; cbn [mstep].
  - destruct (make pk prev ops st) as [r st'] eqn:E.
    destruct (make_cases pk prev ops st) as [C|[C|C]]; rewrite E in C.
    + inversion C; subst. apply IH; auto. now apply tooold_step.
    + symmetry in C. destruct (call_step _ _ _ _ _ _ W L C). now apply IH.
    + symmetry in C. destruct (call_step _ _ _ _ _ _ W L C). now apply IH.
  - destruct (prefer_empty pk st) as [r st'] eqn:E.
    destruct (prefer_empty_cases pk st) as [C|C]; rewrite E in C.
    + inversion C; subst. apply IH; auto. now apply tooold_step.
    + symmetry in C. destruct (call_step _ _ _ _ _ _ W L C). now apply IH.
  - destruct (make_fail pk st) as [r st'] eqn:E. destruct (fail_step _ _ _ _ _ L E) as [-> L']. now apply IH.
  - apply IH; auto. destruct W as [A [B1 B2] C]. constructor; auto. split; auto.
  - contradiction Ho; reflexivity.
Qed.

Lemma same_proposal : forall ops pk f1 v1 f2 v2, Forall no_clean ops ->
  In (pk, RProp f1 v1) (snd (mrun ops)) -> In (pk, RProp f2 v2) (snd (mrun ops)) -> f1 = f2 /\ v1 = v2.
Proof.
  intros ops pk f1 v1 f2 v2 Hf H1 H2.
  destruct (mrun_from_inv ops minit [] Hf wf_init ltac:(intros ? ? ? [])) as [_ L].
  pose proof (L _ _ _ H1) as B1. pose proof (L _ _ _ H2) as B2. unfold mrun in *. rewrite B1 in B2. inversion B2; auto.
Qed.

(* ---------------------------------------------------------------- the operations listed (any history, clean-up included) *)

Definition ops_good (o : mop) : Prop := match o with MMake _ _ ops => good ops | _ => True end.

Definition Listed (st : mstate) (log : list (key * mres)) : Prop :=
  forall pk f v, In (pk, RProp f v) log -> exists c, content_of f st = Some c /\ good c.

Lemma good_nil : good [].
Proof. split; constructor. Qed.

Lemma WF_clean : forall st, WF st ->
  WF (mkM (snd (clean_proposals deep_proposal guard_literal (m_pool st))) (m_last st) (m_next st) (m_content st)).
Proof.
  intros st [A [B1 B2] C]. constructor; cbn [m_pool m_next m_content].
  - now apply PI_clean_proposals.
  - split; auto. intros f v Hin. apply (B1 f v). unfold clean_proposals in Hin.
    destruct (clean_threshold deep_proposal guard_literal (points (m_pool st))); cbn [snd props] in Hin; auto.
    apply filter_In in Hin. tauto.
  - intros f v G. cbn [m_pool] in G. unfold content_of. cbn [m_content]. apply (C f v). unfold clean_proposals in G.
    destruct (clean_threshold deep_proposal guard_literal (points (m_pool st))) as [h|]; cbn [snd] in G; auto.
    unfold get_proposal in *. cbn [props] in G.
    rewrite (get_filter_key fact_eqb fact_eqb_spec (fun x => negb (existsb (fun q : key * fact => fact_eqb (snd q) x)
      (filter (fun p0 : key * fact => fst (fst p0) <=? h) (points (m_pool st)))))) in G.
    destruct (negb _); [exact G|discriminate].
Qed.

Lemma listed_call : forall pk ops st log r st', WF st -> all_good st -> good ops -> Listed st log ->
  find_or_make pk ops st = (r, st') -> WF st' /\ all_good st' /\ Listed st' (log ++ [(pk, r)]).
Proof.
  intros pk ops st log r st' W G Hg L E. pose proof (find_or_make_spec pk ops st W) as S. rewrite E in S.
  destruct S as [W' [_ [_ [[f [v [-> [_ [c [Hc Hor]]]]]] [_ [_ [Hin Hkeep]]]]]]].
  assert (G' : all_good st') by (intros f0 c0 H0; destruct (Hin _ _ H0) as [H1| ->]; [eapply G; eauto|auto]).
  split; auto. split; auto.
  intros pk0 f0 v0 H0. apply in_app_or in H0. destruct H0 as [H0|[H0|[]]].
  - destruct (L _ _ _ H0) as [c0 [A B]]. exists c0. split; auto.
  - inversion H0; subst. exists c. split; auto. destruct Hor as [->|Hi]; [auto|eapply G; eauto].
Qed.

Lemma listed_tooold : forall pk st log, Listed st log -> Listed st (log ++ [(pk, RTooOld)]).
Proof.
  intros pk st log L pk0 f v Hin. apply in_app_or in Hin. destruct Hin as [Hin|[Hin|[]]]; [exact (L _ _ _ Hin)|discriminate].
Qed.

Lemma listed_fail : forall pk st log r st', WF st -> Listed st log -> all_good st -> make_fail pk st = (r, st') ->
  st' = st /\ Listed st (log ++ [(pk, r)]).
Proof.
  intros pk st log r st' W L G E.
  destruct (make_fail_cases pk st) as [C|[C|[f [v [C B]]]]]; rewrite E in C; inversion C; subst; split; auto;
    intros pk0 f0 v0 Hin; apply in_app_or in Hin; destruct Hin as [Hin|[Hin|[]]]; try (exact (L _ _ _ Hin)); try discriminate.
  inversion Hin; subst.
  unfold by_point in B. destruct (get key_eqb pk0 (points (m_pool st))) as [f1|] eqn:P; [|discriminate].
  destruct (get_proposal f1 (m_pool st)) as [v1|] eqn:Gp; [|discriminate]. inversion B; subst.
  destruct (wf_content _ W _ _ Gp) as [c Hc]. exists c. split; auto.
  apply (G f0 c). now apply (get_in fact_eqb fact_eqb_spec).
Qed.

Lemma mrun_from_listed : forall ops st log, Forall ops_good ops -> WF st -> all_good st -> Listed st log ->
  Listed (fst (mrun_from st log ops)) (snd (mrun_from st log ops)).
Proof.
  induction ops as [|o t IH]; intros st log Hf W G L; cbn [mrun_from fst snd]; auto.
  inversion Hf as [|? ? Ho Ht]; subst.
  destruct o as [pk prev ops|pk|pk|m mh|]; cbn [mstep].
  - cbn [ops_good] in Ho. destruct (make pk prev ops st) as [r st'] eqn:E.
    destruct (make_cases pk prev ops st) as [C|[C|C]]; rewrite E in C.
    + inversion C; subst. apply IH; auto. now apply listed_tooold.
    + symmetry in C. destruct (listed_call _ _ _ _ _ _ W G Ho L C) as [A [B D]]. now apply IH.
    + symmetry in C. destruct (listed_call _ _ _ _ _ _ W G good_nil L C) as [A [B D]]. now apply IH.
  - destruct (prefer_empty pk st) as [r st'] eqn:E.
    destruct (prefer_empty_cases pk st) as [C|C]; rewrite E in C.
    + inversion C; subst. apply IH; auto. now apply listed_tooold.
    + symmetry in C. destruct (listed_call _ _ _ _ _ _ W G good_nil L C) as [A [B D]]. now apply IH.
  - destruct (make_fail pk st) as [r st'] eqn:E. destruct (listed_fail _ _ _ _ _ W L G E) as [-> L']. now apply IH.
  - apply IH; auto. destruct W as [A [B1 B2] C]. constructor; auto. split; auto.
  - apply IH; auto. now apply WF_clean.
Qed.

Lemma distinct_ops_facts : forall ops pk f v, Forall ops_good ops -> In (pk, RProp f v) (snd (mrun ops)) ->
  exists c, content_of f (fst (mrun ops)) = Some c /\ good c.
Proof.
  intros ops pk f v Hf Hin.
  exact (mrun_from_listed ops minit [] Hf wf_init ltac:(intros ? ? []) ltac:(intros ? ? ? []) pk f v Hin).
Qed.
