(* C38 -- the local proposal maker.  Transcribes isaac/proposal_maker.go over the proposal pool model of C24
   (isaac/database/pool.go SetProposal / ProposalByPoint / cleanProposals).

     Make(ctx, point, previousBlock)         p.l.Lock(); last block map checks; makeNew / preferEmpty
     PreferEmpty(ctx, point, previousBlock)  p.l.Lock(); too-old check; preferEmpty
     makeNew      pool.ProposalByPoint(point, local, prev) found ? return it : makeProposal(getOperations(...))
     preferEmpty  pool.ProposalByPoint(...) found ? return it : makeProposal(nil)
     makeProposal NewProposalFact(point, local, prev, ops) (hash covers the operations and the time: a fresh fact);
                  sign; pool.SetProposal (result ignored); return the signed fact

   Each Make / PreferEmpty call holds the maker's mutex from start to end: one atomic step; a history is a list of
   such steps (every interleaving of concurrent calls is one of these lists).
   Point key (C24.key) = (height, rest) where rest identifies (round, previous block) -- the proposer is the local
   node.  Facts and signed proposals created by the maker are numbered by a counter (freshness of the fact hash). *)
From Coq Require Import ZArith NArith List Bool.
From MV Require Import Common.Cases C24.Model.
Import ListNotations.
Open Scope Z_scope.

Definition oplist := list (N * N).    (* (operation, fact) pairs listed by a proposal *)

Record mstate := mkM {
  m_pool : state;                      (* C24 pool *)
  m_last : option (Z * N);             (* last block map: (height, block hash id) *)
  m_next : N;                          (* fresh id *)
  m_content : list (fact * oplist) }.  (* operations listed by each fact made here *)

Definition minit : mstate := mkM init None 0%N [].

Inductive mres := RTooOld | RPoolErr | RProp (f : fact) (v : N).

(* makeNew (ops from getOperations) / preferEmpty (ops = []) *)
Definition find_or_make (pk : key) (ops : oplist) (st : mstate) : mres * mstate :=
  match by_point pk (m_pool st) with
  | Some (f, v) => (RProp f v, st)
  | None =>
      let f : fact := (pk, m_next st) in
      let v := m_next st in
      (RProp f v,
       mkM (snd (set_proposal f v (m_pool st))) (m_last st) (N.succ (m_next st)) ((f, ops) :: m_content st))
  end.

(* the same with a pool whose SetProposal fails (leveldb write error, storage closed): makeProposal returns the error,
   nothing is handed out and nothing is remembered; a pooled proposal is still found and returned *)
Definition find_or_fail (pk : key) (st : mstate) : mres * mstate :=
  match by_point pk (m_pool st) with
  | Some (f, v) => (RProp f v, st)
  | None => (RPoolErr, st)
  end.

(* prev = identifier of the previousBlock argument *)
Definition make (pk : key) (prev : N) (ops : oplist) (st : mstate) : mres * mstate :=
  match m_last st with
  | None => find_or_make pk ops st
  | Some (m, mh) =>
      if fst pk <? m - 1 then (RTooOld, st)
      else if m + 1 <? fst pk then find_or_make pk [] st                       (* unreachable point: empty *)
      else if (fst pk =? m + 1) && negb (N.eqb prev mh) then find_or_make pk [] st
      else find_or_make pk ops st
  end.

Definition prefer_empty (pk : key) (st : mstate) : mres * mstate :=
  match m_last st with
  | None => find_or_make pk [] st
  | Some (m, _) => if fst pk <? m - 1 then (RTooOld, st) else find_or_make pk [] st
  end.

Definition make_fail (pk : key) (st : mstate) : mres * mstate :=
  match m_last st with
  | None => find_or_fail pk st
  | Some (m, _) => if fst pk <? m - 1 then (RTooOld, st) else find_or_fail pk st
  end.

Inductive mop :=
| MMake (pk : key) (prev : N) (ops : oplist)      (* ops = what getOperations would return at that moment *)
| MPreferEmpty (pk : key)
| MCallFail (pk : key)                            (* a Make / PreferEmpty call during which the pool write fails *)
| MSetLast (m : Z) (mh : N)                       (* the node saved a block *)
| MClean.                                         (* TempPool.cleanProposals (periodic) *)

Definition mstep (st : mstate) (o : mop) : option (key * mres) * mstate :=
  match o with
  | MMake pk prev ops => let (r, st') := make pk prev ops st in (Some (pk, r), st')
  | MPreferEmpty pk => let (r, st') := prefer_empty pk st in (Some (pk, r), st')
  | MCallFail pk => let (r, st') := make_fail pk st in (Some (pk, r), st')
  | MSetLast m mh => (None, mkM (m_pool st) (Some (m, mh)) (m_next st) (m_content st))
  | MClean => (None, mkM (snd (clean_proposals deep_proposal guard_literal (m_pool st))) (m_last st) (m_next st) (m_content st))
  end.

(* the state after a history and the log of (point key, result) of its calls, oldest first *)
Fixpoint mrun_from (st : mstate) (log : list (key * mres)) (ops : list mop) : mstate * list (key * mres) :=
  match ops with
  | [] => (st, log)
  | o :: t => let (r, st') := mstep st o in
              mrun_from st' (match r with Some x => log ++ [x] | None => log end) t
  end.

Definition mrun (ops : list mop) : mstate * list (key * mres) := mrun_from minit [] ops.

Definition content_of (f : fact) (st : mstate) : option oplist := get fact_eqb f (m_content st).

Definition good (ops : oplist) : Prop := NoDup (map fst ops) /\ NoDup (map snd ops).

(* ---------------------------------------------------------------- correspondence *)

Inductive obs := OTooOld | OPoolErr | OProp (id : N) (ops : oplist).   (* id: order of first appearance of the fact; ops sorted *)

Inductive item :=
| IMake (pk : key) (prev : N) (ops : oplist) (r : obs)
| IPreferEmpty (pk : key) (r : obs)
| ICallFail (pk : key) (r : obs)                  (* Make or PreferEmpty with the pool's SetProposal failing *)
| ISetLast (m : Z) (mh : N)
| IClean.

Definition pair_eqb (a b : N * N) : bool := N.eqb (fst a) (fst b) && N.eqb (snd a) (snd b).
Definition pair_leb (a b : N * N) : bool := N.ltb (fst a) (fst b) || (N.eqb (fst a) (fst b) && N.leb (snd a) (snd b)).
Fixpoint insert_p (x : N * N) (l : oplist) : oplist :=
  match l with [] => [x] | y :: t => if pair_leb x y then x :: l else y :: insert_p x t end.
Definition sort_p (l : oplist) : oplist := fold_right insert_p [] l.

Definition res_ok (r : mres) (st : mstate) (o : obs) : bool :=
  match r, o with
  | RTooOld, OTooOld => true
  | RPoolErr, OPoolErr => true
  | RProp f v, OProp id ops =>
      N.eqb (snd f) id && N.eqb v id &&
      match content_of f st with Some c => list_eqb pair_eqb ops (sort_p c) | None => false end
  | _, _ => false
  end.

Definition check_item (st : mstate) (i : item) : bool * mstate :=
  match i with
  | IMake pk prev ops r => let (x, st') := make pk prev ops st in (res_ok x st' r, st')
  | IPreferEmpty pk r => let (x, st') := prefer_empty pk st in (res_ok x st' r, st')
  | ICallFail pk r => let (x, st') := make_fail pk st in (res_ok x st' r, st')
  | ISetLast m mh => (true, snd (mstep st (MSetLast m mh)))
  | IClean => (true, snd (mstep st MClean))
  end.

Fixpoint check_from (st : mstate) (l : list item) : bool :=
  match l with
  | [] => true
  | i :: t => let (b, st') := check_item st i in b && check_from st' t
  end.

Definition check (c : list item) : bool := check_from minit c.
