(* C01 -- Vote tally decides majority, draw and not-yet correctly.  Property theorems only.
   Vocabulary (C01/Model.v): count f votes = number of votes for fact f; total = number of votes;
   missing q votes = max 0 (q - total) = nodes that have not voted yet; eff_th q th = min th q is the
   required count (FindVoteResult clamps the threshold to the quorum). Quantified over every quorum
   q < 2^64, every required count th >= 0 and every vote list, including more votes than the quorum. *)
From Coq Require Import ZArith List.
From MV Require Import C01.Model C01.Proofs.
Import ListNotations.
Open Scope Z_scope.

(* MAJORITY is reported exactly when some voted fact reaches the required count, and the reported fact
   (any member of the candidate list; the implementation's key is checked to be a member) reaches it. *)
Theorem C01_majority_iff : forall q th votes, 0 <= q < two64 -> 0 <= th -> total votes < two64 ->
  ((exists l, find_vote_result q th votes = Majority l) <->
     (exists f, eff_th q th <= count f votes /\ 1 <= count f votes)) /\
  (forall l, find_vote_result q th votes = Majority l -> l <> [] /\ forall f, In f l -> eff_th q th <= count f votes).
Proof. exact fvr_majority. Qed.

(* DRAW exactly when no fact can still reach the count even if every missing node voted for it. *)
Theorem C01_draw_iff : forall q th votes, 0 <= q < two64 -> 0 <= th -> total votes < two64 ->
  (find_vote_result q th votes = Draw <-> forall f, count f votes + missing q votes < eff_th q th).
Proof. exact fvr_draw. Qed.

(* NOT YET otherwise: nobody has reached the count, but somebody still can. *)
Theorem C01_notyet_iff : forall q th votes, 0 <= q < two64 -> 0 <= th -> total votes < two64 ->
  (find_vote_result q th votes = NotYet <->
     (forall f, 1 <= count f votes -> count f votes < eff_th q th) /\
     (exists f, eff_th q th <= count f votes + missing q votes)).
Proof. exact fvr_notyet. Qed.

(* At most one fact can be reported as majority (no over-vote, required count a strict majority). *)
Theorem C01_majority_unique : forall q th votes f g, total votes <= q -> q < 2 * th ->
  th <= count f votes -> th <= count g votes -> f = g.
Proof. exact majority_unique. Qed.

(* FindMajority itself, on any argument list (not only the sorted one FindVoteResult passes) *)
Theorem C01_find_majority_draw : forall q th set, 0 <= q < two64 -> 0 <= th ->
  Forall (fun x => 0 <= x) set -> lsum set < two64 -> set <> [] ->
  (find_majority q th set = -2 <->
     Forall (fun y => y < Z.min th q) set /\ lmax set + Z.max 0 (q - lsum set) < Z.min th q).
Proof. exact fm_draw. Qed.

Theorem C01_find_majority_index : forall q th set, 0 <= q < two64 -> 0 <= th ->
  Forall (fun x => 0 <= x) set -> lsum set < two64 -> forall i, 0 <= i -> find_majority q th set = i ->
  exists x, nth_error set (Z.to_nat i) = Some x /\ Z.min th q <= x /\
            Forall (fun y => y < Z.min th q) (firstn (Z.to_nat i) set).
Proof. exact fm_index. Qed.

(* non-vacuity: the formerly mis-tallied over-vote (q=4, th=3, six different single votes) is a DRAW *)
Example C01_overvote_draw : find_vote_result 4 3 [1;2;3;4;5;6] = Draw.
Proof. vm_compute. reflexivity. Qed.
Example C01_majority_ex : find_vote_result 4 3 [7;7;8;7] = Majority [7].
Proof. vm_compute. reflexivity. Qed.
