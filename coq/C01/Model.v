(* C01 -- vote tally.  Transcribes base/vote.go (after the "fix:" commit for over-votes):

   func FindMajority(quorum, threshold uint, set ...uint) int        -> find_majority
   func FindVoteResult(quorum, threshold uint, s []string) (VoteResult, string) -> find_vote_result

   Go uint arithmetic is written with explicit wrap-around mod 2^64.  sort.Slice(descending) is
   modelled by insertion sort (trusted: sort.Slice sorts).  Go's map iteration order is irrelevant
   for the sorted `set`; the map `keys` (count -> some fact having that count) is modelled by the list
   of all facts having the winning count: the implementation's key must be a member. *)
From Coq Require Import ZArith List Bool.
Import ListNotations.
Open Scope Z_scope.

Definition two64 : Z := 2 ^ 64.
Definition wrap (z : Z) : Z := z mod two64.

(* the loop: first index whose count reaches quorum or threshold, else the (wrapping) sum *)
Fixpoint scan (q th i sum : Z) (set : list Z) : Z + Z :=
  match set with
  | [] => inr sum
  | n :: r => if (n >=? q) || (n >=? th) then inl i else scan q th (i + 1) (wrap (sum + n)) r
  end.

Fixpoint insert_desc (x : Z) (l : list Z) : list Z :=
  match l with
  | [] => [x]
  | y :: r => if y <? x then x :: y :: r else y :: insert_desc x r
  end.
Definition sort_desc (l : list Z) : list Z := fold_right insert_desc [] l.

(* 0..N = index, -1 = not yet, -2 = draw *)
Definition find_majority (q th0 : Z) (set : list Z) : Z :=
  let th := if th0 >? q then q else th0 in
  match set with
  | [] => -1
  | _ =>
      match scan q th 0 0 set with
      | inl i => i
      | inr sum =>
          let s0 := hd 0 (sort_desc set) in
          let remain := if q >? sum then q - sum else 0 in
          if wrap (remain + s0) <? th then -2 else -1
      end
  end.

Inductive vres := NotYet | Draw | Majority (candidates : list Z).

Fixpoint incr (f : Z) (cs : list (Z * Z)) : list (Z * Z) :=
  match cs with
  | [] => [(f, 1)]
  | (g, c) :: r => if g =? f then (g, c + 1) :: r else (g, c) :: incr f r
  end.
Definition counts (votes : list Z) : list (Z * Z) := fold_left (fun cs f => incr f cs) votes [].

Definition find_vote_result (q th0 : Z) (votes : list Z) : vres :=
  let th := if th0 >? q then q else th0 in
  match votes with
  | [] => NotYet
  | _ =>
      let cs := counts votes in
      let set := sort_desc (map snd cs) in
      let idx := find_majority q th set in
      if idx =? -1 then NotYet
      else if idx =? -2 then Draw
      else let c := nth (Z.to_nat idx) set 0 in
           Majority (map fst (filter (fun p => snd p =? c) cs))
  end.

(* ---- specification vocabulary *)
Definition count (f : Z) (votes : list Z) : Z := Z.of_nat (count_occ Z.eq_dec votes f).
Definition total (votes : list Z) : Z := Z.of_nat (length votes).
Definition missing (q : Z) (votes : list Z) : Z := Z.max 0 (q - total votes).
Definition eff_th (q th0 : Z) : Z := Z.min th0 q.

(* ---- correspondence.  Result code: 0 = NOT YET, 1 = DRAW, 2 = MAJORITY (key = fact id, else -1) *)
Definition check_fvr (c : Z * Z * list Z * Z * Z) : bool :=
  let '(q, th, votes, code, key) := c in
  match find_vote_result q th votes with
  | NotYet => (code =? 0) && (key =? -1)
  | Draw => (code =? 1) && (key =? -1)
  | Majority l => (code =? 2) && existsb (Z.eqb key) l
  end.

Definition check_fm (c : Z * Z * list Z * Z) : bool :=
  let '(q, th, set, r) := c in find_majority q th set =? r.

(* one case type for both entry points: inl = FindVoteResult / Threshold.VoteResult, inr = FindMajority *)
Definition check (c : (Z * Z * list Z * Z * Z) + (Z * Z * list Z * Z)) : bool :=
  match c with inl a => check_fvr a | inr b => check_fm b end.
