From Coq Require Import ZArith List Bool Lia Permutation.
From MV Require Import C01.Model.
Import ListNotations.
Open Scope Z_scope.

Definition lsum (l : list Z) : Z := fold_right Z.add 0 l.
Definition lmax (l : list Z) : Z := fold_right Z.max 0 l.

Lemma wrap_small z : 0 <= z < two64 -> wrap z = z.
Proof. intros H. unfold wrap. apply Z.mod_small. exact H. Qed.

(* ---------------- counts *)
Fixpoint lookup (f : Z) (cs : list (Z * Z)) : Z :=
  match cs with
  | [] => 0
  | (g, c) :: r => if g =? f then c else lookup f r
  end.

Lemma lookup_incr f g cs : lookup g (incr f cs) = lookup g cs + (if f =? g then 1 else 0).
Proof.
  induction cs as [|[h c] r IH]; cbn [incr lookup].
  - destruct (Z.eqb_spec f g); lia.
  - destruct (Z.eqb_spec h f); cbn [lookup].
    + subst h. destruct (Z.eqb_spec f g); lia.
    + destruct (Z.eqb_spec h g).
      * subst h. destruct (Z.eqb_spec f g); [congruence|lia].
      * exact IH.
Qed.

Lemma count_app_one f g votes : count g (votes ++ [f]) = count g votes + (if f =? g then 1 else 0).
Proof.
  unfold count. rewrite count_occ_app. cbn [count_occ].
  destruct (Z.eq_dec f g) as [e|n].
  - subst. rewrite Z.eqb_refl. lia.
  - destruct (f =? g) eqn:E; [apply Z.eqb_eq in E; contradiction|]. lia.
Qed.

Lemma counts_snoc votes f : counts (votes ++ [f]) = incr f (counts votes).
Proof. unfold counts. rewrite fold_left_app. reflexivity. Qed.

Lemma lookup_counts votes : forall g, lookup g (counts votes) = count g votes.
Proof.
  induction votes as [|f votes IH] using rev_ind; intros g.
  - reflexivity.
  - rewrite counts_snoc, lookup_incr, count_app_one, IH. reflexivity.
Qed.

Lemma incr_keys f cs : NoDup (map fst cs) -> NoDup (map fst (incr f cs)) /\
  (forall g, In g (map fst (incr f cs)) <-> g = f \/ In g (map fst cs)).
Proof.
  induction cs as [|[h c] r IH]; cbn [incr map fst]; intros ND.
  - split; [constructor; [intros []|constructor]|]. intros g; cbn. intuition.
  - inversion ND as [|? ? Hn ND']; subst. destruct (h =? f) eqn:E; cbn [map fst].
    + apply Z.eqb_eq in E. subst h. split; [exact ND|]. intros g; cbn. intuition.
    + destruct (IH ND') as [N1 I1]. split.
      * constructor; [|exact N1]. rewrite I1. intros [e|i]; [|contradiction].
        subst h. rewrite Z.eqb_refl in E. discriminate.
      * intros g; cbn. rewrite I1. intuition.
Qed.

Lemma counts_nodup votes : NoDup (map fst (counts votes)).
Proof.
  induction votes as [|f votes IH] using rev_ind; [constructor|].
  rewrite counts_snoc. apply incr_keys. exact IH.
Qed.

Lemma incr_pos f cs : Forall (fun p => 1 <= snd p) cs -> Forall (fun p => 1 <= snd p) (incr f cs).
Proof.
  induction cs as [|[h c] r IH]; cbn [incr]; intros F.
  - repeat constructor. cbn. lia.
  - inversion F as [|? ? Hc F']; subst. destruct (h =? f); constructor; cbn in *; auto; lia.
Qed.

Lemma counts_pos votes : Forall (fun p => 1 <= snd p) (counts votes).
Proof.
  induction votes as [|f votes IH] using rev_ind; [constructor|].
  rewrite counts_snoc. apply incr_pos. exact IH.
Qed.

Lemma lookup_in f c cs : NoDup (map fst cs) -> In (f, c) cs -> lookup f cs = c.
Proof.
  induction cs as [|[h d] r IH]; cbn [map fst lookup]; intros ND I; [contradiction|].
  inversion ND as [|? ? Hn ND']; subst. destruct I as [e|I].
  - inversion e; subst. rewrite Z.eqb_refl. reflexivity.
  - destruct (h =? f) eqn:E.
    + apply Z.eqb_eq in E. subst h. exfalso. apply Hn. apply in_map_iff. exists (f, c). auto.
    + apply IH; assumption.
Qed.

Lemma in_lookup f cs : lookup f cs <> 0 -> In (f, lookup f cs) cs.
Proof.
  induction cs as [|[h d] r IH]; cbn [lookup]; intros H; [contradiction|].
  destruct (h =? f) eqn:E.
  - apply Z.eqb_eq in E. subst. left. reflexivity.
  - right. apply IH. exact H.
Qed.

Lemma counts_in votes f c : In (f, c) (counts votes) <-> c = count f votes /\ 1 <= c.
Proof.
  split.
  - intros I. split.
    + rewrite <- lookup_counts. symmetry. apply lookup_in; [apply counts_nodup|exact I].
    + pose proof (counts_pos votes) as F. rewrite Forall_forall in F. apply (F _ I).
  - intros [E P]. subst c. rewrite <- lookup_counts in *. apply in_lookup. lia.
Qed.

Lemma lsum_incr f cs : lsum (map snd (incr f cs)) = lsum (map snd cs) + 1.
Proof.
  induction cs as [|[h c] r IH]; cbn [incr map snd lsum fold_right]; [lia|].
  destruct (h =? f); cbn [map snd lsum fold_right]; [lia|]. unfold lsum in IH. rewrite IH. lia.
Qed.

Lemma lsum_counts votes : lsum (map snd (counts votes)) = total votes.
Proof.
  unfold total. induction votes as [|f votes IH] using rev_ind; [reflexivity|].
  rewrite counts_snoc, lsum_incr, IH, app_length. cbn [length]. lia.
Qed.

Lemma counts_nonempty votes : votes <> [] -> counts votes <> [].
Proof.
  intros H E. pose proof (lsum_counts votes) as S. rewrite E in S. cbn in S.
  unfold total in S. destruct votes; [contradiction|]. cbn [length] in S. lia.
Qed.

(* ---------------- sorting: only the head (= maximum) and the multiset matter *)
Lemma hd_insert x l : 0 <= x -> hd 0 (insert_desc x l) = Z.max x (hd 0 l).
Proof.
  intros Hx. destruct l as [|y r]; cbn [insert_desc hd]; [lia|].
  destruct (y <? x) eqn:E; cbn [hd]; lia.
Qed.

Lemma hd_sort l : Forall (fun x => 0 <= x) l -> hd 0 (sort_desc l) = lmax l.
Proof.
  induction l as [|x l IH]; intros F; [reflexivity|].
  inversion F as [|? ? Hx F']; subst. cbn [sort_desc fold_right lmax].
  fold (sort_desc l). rewrite hd_insert by exact Hx. rewrite IH by exact F'. reflexivity.
Qed.

Lemma insert_perm x l : Permutation (x :: l) (insert_desc x l).
Proof.
  induction l as [|y r IH]; cbn [insert_desc]; [reflexivity|].
  destruct (y <? x); [reflexivity|]. rewrite perm_swap. constructor. exact IH.
Qed.

Lemma sort_perm l : Permutation l (sort_desc l).
Proof.
  induction l as [|x l IH]; cbn [sort_desc fold_right]; [constructor|].
  fold (sort_desc l). rewrite <- insert_perm. constructor. exact IH.
Qed.

Lemma lsum_perm l l' : Permutation l l' -> lsum l = lsum l'.
Proof. induction 1; cbn [lsum fold_right] in *; unfold lsum in *; lia. Qed.

Lemma lmax_perm l l' : Permutation l l' -> lmax l = lmax l'.
Proof. induction 1; cbn [lmax fold_right] in *; unfold lmax in *; lia. Qed.

Lemma lmax_ge l x : In x l -> x <= lmax l.
Proof.
  induction l as [|y l IH]; cbn [lmax fold_right]; intros I; [contradiction|].
  destruct I as [e|I]; [subst; lia|]. specialize (IH I). unfold lmax in IH. lia.
Qed.

Lemma lmax_in l : l <> [] -> Forall (fun x => 0 <= x) l -> In (lmax l) l.
Proof.
  induction l as [|y l IH]; intros NE F; [contradiction|].
  inversion F as [|? ? Hy F']; subst. cbn [lmax fold_right]. fold (lmax l).
  destruct l as [|z l'].
  - cbn. left. lia.
  - assert (In (lmax (z :: l')) (z :: l')) as I by (apply IH; [discriminate|exact F']).
    destruct (Z.max_spec y (lmax (z :: l'))) as [[_ E]|[_ E]]; rewrite E; [right; exact I|left; reflexivity].
Qed.

(* ---------------- the scan loop *)
Lemma scan_spec q th : th <= q -> forall set i sum,
  match scan q th i sum set with
  | inl j => i <= j /\ exists x, nth_error set (Z.to_nat (j - i)) = Some x /\ th <= x /\
             Forall (fun y => y < th) (firstn (Z.to_nat (j - i)) set)
  | inr s => Forall (fun y => y < th) set
  end.
Proof.
  intros Hq. induction set as [|n r IH]; intros i sum; cbn [scan]; [constructor|].
  destruct ((n >=? q) || (n >=? th)) eqn:E.
  - split; [lia|]. exists n. replace (i - i) with 0 by lia. cbn. split; [reflexivity|]. split; [lia|constructor].
  - assert (n < th) as Hn by lia.
    specialize (IH (i + 1) (wrap (sum + n))). destruct (scan q th (i + 1) (wrap (sum + n)) r) as [j|s].
    + destruct IH as [Hj [x [Hx [Hth Hf]]]]. split; [lia|]. exists x.
      replace (Z.to_nat (j - i)) with (S (Z.to_nat (j - (i + 1)))) by lia. cbn [nth_error firstn].
      split; [exact Hx|]. split; [exact Hth|]. constructor; assumption.
    + constructor; assumption.
Qed.

Lemma scan_sum q th : forall set i sum, Forall (fun x => 0 <= x) set -> 0 <= sum -> sum + lsum set < two64 ->
  forall s, scan q th i sum set = inr s -> s = sum + lsum set.
Proof.
  induction set as [|n r IH]; intros i sum F Hs Hb s; cbn [scan lsum fold_right].
  - intros E. inversion E. lia.
  - inversion F as [|? ? Hn F']; subst. fold (lsum r) in *. cbn [lsum fold_right] in Hb. fold (lsum r) in Hb.
    assert (0 <= lsum r) as Hr by (clear - F'; induction F'; cbn [lsum fold_right]; unfold lsum in *; lia).
    destruct ((n >=? q) || (n >=? th)); [discriminate|]. intros E.
    rewrite wrap_small in E by lia. apply IH in E; try assumption; lia.
Qed.

Lemma lsum_nonneg l : Forall (fun x => 0 <= x) l -> 0 <= lsum l.
Proof. induction 1; cbn [lsum fold_right]; unfold lsum in *; lia. Qed.

Lemma lmax_le_lsum l : Forall (fun x => 0 <= x) l -> lmax l <= lsum l.
Proof.
  induction 1 as [|x l Hx F IH]; cbn [lsum lmax fold_right]; [lia|].
  fold (lsum l) (lmax l). pose proof (lsum_nonneg l F). lia.
Qed.

(* ---------------- FindMajority on an arbitrary argument list *)
Section FM.
  Variables (q th0 : Z) (set : list Z).
  Hypothesis Hq : 0 <= q < two64.
  Hypothesis Hth : 0 <= th0.
  Hypothesis Hset : Forall (fun x => 0 <= x) set.
  Hypothesis Hsum : lsum set < two64.
  Let th := Z.min th0 q.

  Lemma eff_th_eq : (if th0 >? q then q else th0) = th.
  Proof using All. unfold eff_th. destruct (th0 >? q) eqn:E; lia. Qed.

  Lemma fm_index i : 0 <= i -> find_majority q th0 set = i ->
    exists x, nth_error set (Z.to_nat i) = Some x /\ th <= x /\ Forall (fun y => y < th) (firstn (Z.to_nat i) set).
  Proof using All.
    intros Hi. unfold find_majority. rewrite eff_th_eq. destruct set as [|n r] eqn:Es; [lia|]. rewrite <- Es.
    pose proof (scan_spec q th ltac:(unfold th; lia) set 0 0) as S.
    destruct (scan q th 0 0 set) as [j|s].
    - intros E. subst j. destruct S as [_ [x Hx]]. replace (i - 0) with i in Hx by lia. exists x. exact Hx.
    - destruct (wrap _ <? th); lia.
  Qed.

  Lemma fm_draw : set <> [] ->
    (find_majority q th0 set = -2 <-> Forall (fun y => y < th) set /\ lmax set + Z.max 0 (q - lsum set) < th).
  Proof using All.
    intros NE. unfold find_majority. rewrite eff_th_eq. destruct set as [|n r] eqn:Es; [contradiction|]. rewrite <- Es in *.
    pose proof (scan_spec q th ltac:(unfold th; lia) set 0 0) as S.
    pose proof (scan_sum q th set 0 0 Hset ltac:(lia) ltac:(lia)) as SS.
    pose proof (lsum_nonneg set Hset) as Hs0. pose proof (lmax_le_lsum set Hset) as Hml.
    assert (0 <= lmax set) as Hm0 by (apply Z.le_trans with n; [subst set; inversion Hset; assumption|apply lmax_ge; subst set; left; reflexivity]).
    destruct (scan q th 0 0 set) as [j|s].
    - destruct S as [Hj [x [Hx [Hge _]]]]. split; [lia|]. intros [F _]. exfalso.
      apply nth_error_In in Hx. rewrite Forall_forall in F. specialize (F x Hx). lia.
    - specialize (SS s eq_refl). rewrite hd_sort by exact Hset.
      assert (wrap ((if q >? s then q - s else 0) + lmax set) = lmax set + Z.max 0 (q - lsum set)) as W.
      { subst s. replace (0 + lsum set) with (lsum set) by lia. destruct (q >? lsum set) eqn:E; rewrite wrap_small; lia. }
      rewrite W. destruct (_ <? th) eqn:E; split; try lia; intuition lia.
  Qed.
End FM.

(* ---------------- FindVoteResult *)
Section FVR.
  Variables (q th0 : Z) (votes : list Z).
  Hypothesis Hq : 0 <= q < two64.
  Hypothesis Hth : 0 <= th0.
  Hypothesis Htot : total votes < two64.
  Local Notation th := (eff_th q th0).
  Local Notation cs := (counts votes).
  Local Notation set := (sort_desc (map snd (counts votes))).

  Lemma votes_case : votes = [] \/ votes <> [].
  Proof. case votes; [left; reflexivity|right; discriminate]. Qed.

  Lemma set_nonneg : Forall (fun x => 0 <= x) set.
  Proof.
    unfold set. rewrite Forall_forall. intros x I. apply (Permutation_in _ (Permutation_sym (sort_perm _))) in I.
    apply in_map_iff in I. destruct I as [[f c] [E I]]. cbn in E. subst c. apply counts_in in I. lia.
  Qed.

  Lemma set_sum : lsum set = total votes.
  Proof. unfold set. rewrite <- (lsum_perm _ _ (sort_perm _)). apply lsum_counts. Qed.

  Lemma in_set x : In x set <-> exists f, x = count f votes /\ 1 <= x.
  Proof.
    unfold set. split.
    - intros I. apply (Permutation_in _ (Permutation_sym (sort_perm _))) in I.
      apply in_map_iff in I. destruct I as [[f c] [E I]]. cbn in E. subst c. exists f. apply counts_in. exact I.
    - intros [f H]. apply (Permutation_in _ (sort_perm _)). apply in_map_iff. exists (f, x). split; [reflexivity|].
      apply counts_in. exact H.
  Qed.

  Lemma th_min : th = Z.min (Z.min th0 q) q.
  Proof. unfold eff_th. lia. Qed.

  Lemma th_inner : (if th0 >? q then q else th0) = th.
  Proof. unfold eff_th. destruct (th0 >? q) eqn:E; lia. Qed.

  Lemma fvr_unfold : votes <> [] ->
    find_vote_result q th0 votes =
      let idx := find_majority q th set in
      if idx =? -1 then NotYet else if idx =? -2 then Draw
      else Majority (map fst (filter (fun p => snd p =? nth (Z.to_nat idx) set 0) cs)).
  Proof.
    unfold find_vote_result. rewrite th_inner. case votes; [contradiction|reflexivity].
  Qed.

  Lemma set_nonempty : votes <> [] -> set <> [].
  Proof.
    intros NE E. apply counts_nonempty in NE. fold cs in NE. unfold set in E.
    apply (f_equal (@length Z)) in E. rewrite <- (Permutation_length (sort_perm _)), map_length in E.
    destruct cs; [contradiction|discriminate].
  Qed.

  Lemma fm_range : let idx := find_majority q th set in idx = -1 \/ idx = -2 \/ 0 <= idx.
  Proof.
    cbn zeta. unfold find_majority. destruct set as [|n r] eqn:Es; [lia|]. rewrite <- Es.
    pose proof (scan_spec q (if th >? q then q else th) ltac:(destruct (th >? q) eqn:E; lia) set 0 0) as S.
    destruct (scan q _ 0 0 set) as [j|s]; [lia|]. destruct (_ <? _); lia.
  Qed.

  Lemma th_th : Z.min th q = th.
  Proof. unfold eff_th. lia. Qed.

  Lemma th_nonneg : 0 <= th.
  Proof. unfold eff_th. lia. Qed.

  (* MAJORITY: reported iff some fact reaches the required count; every candidate reaches it *)
  Lemma fvr_majority : 
    ((exists l, find_vote_result q th0 votes = Majority l) <-> exists f, th <= count f votes /\ 1 <= count f votes) /\
    (forall l, find_vote_result q th0 votes = Majority l -> l <> [] /\ forall f, In f l -> th <= count f votes).
  Proof.
    destruct votes_case as [Ev|NE].
    { rewrite Ev. cbn. split; [split|].
      - intros [l H]. discriminate.
      - intros [f [_ H]]. unfold count in H. cbn in H. lia.
      - intros l H. discriminate. }
    rewrite (fvr_unfold NE). cbn zeta.
    pose proof fm_range as R. cbn zeta in R.
    pose proof (fm_index q th set Hq th_nonneg set_nonneg ltac:(rewrite set_sum; exact Htot)) as FI.
    pose proof (fm_draw q th set Hq th_nonneg set_nonneg ltac:(rewrite set_sum; exact Htot) (set_nonempty NE)) as FD.
    rewrite th_th in FI, FD.
    set (idx := find_majority q th set) in *.
    assert (forall x, In x set -> x < th -> True) as _ by auto.
    (* when no index: all below th *)
    assert (idx < 0 -> Forall (fun y => y < th) set) as Below.
    { intros Hneg. unfold idx, find_majority in *. destruct set as [|n r] eqn:Es; [constructor|]. rewrite <- Es in *.
      pose proof (scan_spec q (if th >? q then q else th) ltac:(destruct (th >? q) eqn:E; lia) set 0 0) as S.
      assert ((if th >? q then q else th) = th) as Eth by (destruct (th >? q) eqn:E; pose proof th_th; lia).
      rewrite Eth in *. destruct (scan q th 0 0 set) as [j|s]; [lia|exact S]. }
    split; [split|].
    - intros [l H]. destruct (idx =? -1) eqn:E1; [discriminate|]. destruct (idx =? -2) eqn:E2; [discriminate|].
      assert (0 <= idx) as Hi by lia. destruct (FI idx Hi eq_refl) as [x [Hx [Hge _]]].
      apply nth_error_In in Hx. apply in_set in Hx. destruct Hx as [f [Ex Hp]]. exists f. subst x. split; assumption.
    - intros [f [Hf Hp]]. destruct (Z_lt_ge_dec idx 0) as [Hneg|Hpos].
      + exfalso. specialize (Below Hneg). rewrite Forall_forall in Below.
        assert (In (count f votes) set) as I by (apply in_set; exists f; split; [reflexivity|assumption]).
        specialize (Below _ I). lia.
      + destruct (idx =? -1) eqn:E1; [lia|]. destruct (idx =? -2) eqn:E2; [lia|]. eexists. reflexivity.
    - intros l H. destruct (idx =? -1) eqn:E1; [discriminate|]. destruct (idx =? -2) eqn:E2; [discriminate|].
      inversion H as [El]. clear H. assert (0 <= idx) as Hi by lia.
      destruct (FI idx Hi eq_refl) as [x [Hx [Hge _]]].
      assert (nth (Z.to_nat idx) set 0 = x) as En by (apply nth_error_nth; exact Hx). rewrite En.
      split.
      + apply nth_error_In in Hx. apply in_set in Hx. destruct Hx as [f [Ex Hp]].
        assert (In (f, x) cs) as I by (apply counts_in; split; [exact Ex|exact Hp]).
        intros E. assert (In f (map fst (filter (fun p => snd p =? x) cs))) as I2.
        { apply in_map_iff. exists (f, x). split; [reflexivity|]. apply filter_In. split; [exact I|]. cbn. apply Z.eqb_refl. }
        rewrite E in I2. contradiction.
      + intros f I. apply in_map_iff in I. destruct I as [[g c] [Eg I]]. cbn in Eg. subst g.
        apply filter_In in I. destruct I as [I Ec]. cbn in Ec. apply Z.eqb_eq in Ec. subst c.
        apply counts_in in I. lia.
  Qed.

  Lemma lmax_set_count f : count f votes <= lmax set.
  Proof.
    destruct (Z_le_gt_dec 1 (count f votes)) as [H|H].
    - apply lmax_ge. apply in_set. exists f. split; [reflexivity|exact H].
    - assert (0 <= lmax set).
      { unfold lmax. clear. induction set; cbn [fold_right]; lia. }
      lia.
  Qed.

  (* DRAW: exactly when no fact can still reach the count even if every missing vote went to it *)
  Lemma fvr_draw : find_vote_result q th0 votes = Draw <-> (forall f, count f votes + missing q votes < th).
  Proof.
    destruct votes_case as [Ev|NE].
    { rewrite Ev. cbn. split; [discriminate|]. intros H. specialize (H 0). unfold count, missing, total in H. cbn in H.
      unfold eff_th in H. lia. }
    rewrite (fvr_unfold NE). cbn zeta.
    pose proof (fm_draw q th set Hq th_nonneg set_nonneg ltac:(rewrite set_sum; exact Htot) (set_nonempty NE)) as FD.
    rewrite th_th, set_sum in FD. pose proof fm_range as R. cbn zeta in R.
    set (idx := find_majority q th set) in *. unfold missing.
    split.
    - intros H. destruct (idx =? -1) eqn:E1; [discriminate|]. destruct (idx =? -2) eqn:E2; [|discriminate].
      apply Z.eqb_eq in E2. apply FD in E2. destruct E2 as [_ D]. intros f. pose proof (lmax_set_count f). lia.
    - intros H. assert (idx = -2) as E.
      { apply FD. split.
        - rewrite Forall_forall. intros x I. apply in_set in I. destruct I as [f [Ex _]]. subst x. specialize (H f). lia.
        - pose proof (lmax_in set (set_nonempty NE) set_nonneg) as I. apply in_set in I. destruct I as [f [Ex _]].
          rewrite Ex. apply H. }
      rewrite E. reflexivity.
  Qed.

  Lemma fvr_notyet : find_vote_result q th0 votes = NotYet <->
    (forall f, 1 <= count f votes -> count f votes < th) /\ (exists f, th <= count f votes + missing q votes).
  Proof.
    pose proof fvr_majority as [[M1 M2] _]. pose proof fvr_draw as D.
    destruct (find_vote_result q th0 votes) as [| |l] eqn:E.
    - split; [|reflexivity]. intros _. split.
      + intros f Hp. destruct (Z_lt_ge_dec (count f votes) th) as [H|H]; [exact H|].
        destruct M2 as [l Hl]; [exists f; split; lia|discriminate].
      + destruct (Z_lt_ge_dec (lmax set + missing q votes) th) as [H|H].
        * assert (Draw = NotYet) as X; [|discriminate]. symmetry. apply D. intros f. pose proof (lmax_set_count f). lia.
        * destruct votes_case as [Ev|NE].
          { exists 0. rewrite Ev. unfold count, missing, total. cbn. unfold eff_th. lia. }
          pose proof (lmax_in set (set_nonempty NE) set_nonneg) as I. apply in_set in I. destruct I as [f [Ex _]].
          exists f. rewrite <- Ex. lia.
    - split; [discriminate|]. intros [_ [f Hf]]. destruct D as [D _]. specialize (D eq_refl f). lia.
    - split; [discriminate|]. intros [H _]. destruct M1 as [f [Hf Hp]]; [exists l; reflexivity|]. specialize (H f Hp). lia.
  Qed.
End FVR.

(* at most one fact can reach the required count when nobody over-votes and the count is a strict majority *)
Lemma count_two_le f g votes : f <> g -> count f votes + count g votes <= total votes.
Proof.
  intros N. unfold count, total. induction votes as [|v vs IH]; cbn [count_occ length]; [lia|].
  destruct (Z.eq_dec v f), (Z.eq_dec v g); subst; try contradiction; lia.
Qed.

Lemma majority_unique q th votes f g : total votes <= q -> q < 2 * th ->
  th <= count f votes -> th <= count g votes -> f = g.
Proof.
  intros Ht Hm Hf Hg. destruct (Z.eq_dec f g) as [e|n]; [exact e|].
  pose proof (count_two_le f g votes n). lia.
Qed.
