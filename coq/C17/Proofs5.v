(* C17 -- lemmas, part 5: the join condition with the exact-rational threshold. *)
From Coq Require Import ZArith NArith List Bool Lia Permutation.
From MV Require Import C17.Model C17.Proofs C17.Proofs1 C17.Proofs2 C17.Proofs3 C17.ProofsSweep C17.Proofs4.
Import ListNotations.
Open Scope Z_scope.

(* BaseNodeOperation.IsValid: no two signs of one node in an operation *)
Definition signs_distinct (o : op) : Prop :=
  match o with
  | OJoin _ _ sg | ODisjoin _ _ sg | OPolicy _ sg => NoDup (map fst sg)
  | _ => True
  end.

Lemma join_threshold E ops o n : block E ops = Some o -> Forall signs_distinct ops ->
  1 <= Z.of_nat (length (nodes_of E)) <= max_n -> 510 <= e_k E <= 1000 ->
  In n (snd (suffrage_after E o)) -> ~ In (n_addr n) (addrs (nodes_of E)) ->
  exists start signs, In (OJoin (n_addr n) start signs) ops /\
    e_k E * Z.of_nat (length (nodes_of E)) <= 1000 * Z.of_nat (length (signers (nodes_of E) signs)).
Proof.
  intros B D Hn Hk Hin Nm.
  destruct (join_only_if E ops o n B Hin Nm) as [start [signs [c [cl [sn [Hop [_ [_ [_ [_ [_ [_ [_ [_ [_ C]]]]]]]]]]]]]]].
  exists start, signs. split; [exact Hop|].
  rewrite Forall_forall in D. specialize (D _ Hop). simpl in D.
  apply check_signs_exact; auto.
Qed.

(* a network policy change needs the same *)
Lemma policy_threshold E ops i p signs : In (i, OPolicy p signs) (accepted E ops) -> Forall signs_distinct ops ->
  1 <= Z.of_nat (length (nodes_of E)) <= max_n -> 510 <= e_k E <= 1000 ->
  e_k E * Z.of_nat (length (nodes_of E)) <= 1000 * Z.of_nat (length (signers (nodes_of E) signs)).
Proof.
  intros Hin D Hn Hk.
  assert (Hop : In (OPolicy p signs) ops) by (eapply accepted_in_ops; eauto).
  rewrite Forall_forall in D. specialize (D _ Hop). simpl in D.
  apply check_signs_exact; auto.
  clear -Hin. unfold accepted in Hin. revert Hin. generalize pst0, 0%nat.
  induction ops as [|a r IH]; intros st i0 Hin; [destruct Hin|].
  rewrite accepted_from_cons in Hin. destruct (fst (step E st a)) eqn:F; [|eapply IH; eauto].
  destruct Hin as [Hin|Hin]; [|eapply IH; eauto]. inversion Hin; subst.
  simpl in F. destruct (pol_new st); [discriminate|]. unfold policy_valid in F.
  destruct (check_signs (nodes_of E) (e_k E) signs); [reflexivity|discriminate].
Qed.
