(* C17 -- Suffrage changes preserve suffrage well-formedness.  Property theorems only.

   [block E ops] is one block of operations (any list: any mix of join / candidate / disjoin / expel /
   network-policy operations, valid or not, duplicated or conflicting, in any order) processed over the
   prior state [e_prior E] at height [e_h E]; [None] = the code produces no block (panic / error).
   [suffrage_after E o] is the suffrage state value after the block (height, nodes). *)
From Coq Require Import ZArith NArith List Bool Permutation.
From MV Require Import C17.Model C17.Proofs C17.Proofs1 C17.Proofs2 C17.Proofs3 C17.ProofsSweep C17.Proofs4 C17.Proofs5 Gen.C17.
Import ListNotations.
Open Scope Z_scope.

(* Unique members are preserved by every block of operations. *)
Theorem C17_unique_members : forall E ops o,
  NoDup (addrs (nodes_of E)) -> block E ops = Some o -> NoDup (addrs (snd (suffrage_after E o))).
Proof. exact unique_members. Qed.

(* A new suffrage value has the prior suffrage height + 1; there is a new value exactly when a join,
   disjoin or expel operation was accepted (otherwise the suffrage state is left untouched). *)
Theorem C17_height_plus_one : forall E ops o, block E ops = Some o ->
  (forall s, o_suf o = Some s -> fst s = p_sufheight (e_prior E) + 1) /\
  (o_suf o = None <-> forall i op, In (i, op) (accepted E ops) -> tgt_join op = None /\ tgt_leave op = None).
Proof. exact height_plus_one. Qed.

(* "accepted" is what the block's operations tree shows: the operation at position i is in state *)
Theorem C17_accepted_is_in_state_flag : forall E ops i op,
  In (i, op) (accepted E ops) <->
  nth_error ops i = Some op /\ nth_error (flags_from E pst0 ops) i = Some (Some true).
Proof. intros E ops i op. exact (flags_accepted E ops pst0 0%nat i op). Qed.

(* Only candidates can join: a node that is in the suffrage after the block and was not before was put
   there by a join operation of the block naming it, for a candidate registered in the prior candidates
   state, not expired at this height, with the registered start; the operation's first sign for the
   candidate's address carries the candidate's registered key; the new member has that key, starts at
   height+1; and CheckFactSignsBySuffrage accepted the signs. *)
Theorem C17_join_only_if : forall E ops o n, block E ops = Some o ->
  In n (snd (suffrage_after E o)) -> ~ In (n_addr n) (addrs (nodes_of E)) ->
  exists start signs c cl sn,
    In (OJoin (n_addr n) start signs) ops /\
    p_cands (e_prior E) = Some cl /\ In c cl /\ c_addr c = n_addr n /\ e_h E <= c_deadline c /\
    start = c_start c /\ n_key n = c_key c /\ n_start n = e_h E + 1 /\
    find (fun s => N.eqb (fst s) (n_addr n)) signs = Some sn /\ snd sn = c_key c /\
    check_signs (nodes_of E) (e_k E) signs = true.
Proof. exact join_only_if. Qed.

(* ... signed by at least the threshold of DISTINCT current members, in exact rational arithmetic:
   t/100 * n <= #members that signed with their registered key  (t = k/10), for suffrages of up to 128
   nodes and every one-decimal threshold of the code's range, given that no node signs an operation
   twice (BaseNodeOperation.IsValid). *)
Theorem C17_join_threshold_exact : forall E ops o n, block E ops = Some o -> Forall signs_distinct ops ->
  1 <= Z.of_nat (length (nodes_of E)) <= 128 -> 510 <= e_k E <= 1000 ->
  In n (snd (suffrage_after E o)) -> ~ In (n_addr n) (addrs (nodes_of E)) ->
  exists start signs, In (OJoin (n_addr n) start signs) ops /\
    e_k E * Z.of_nat (length (nodes_of E)) <= 1000 * Z.of_nat (length (signers (nodes_of E) signs)).
Proof. exact join_threshold. Qed.

(* The float64 comparison of base.CheckFactSignsBySuffrage, (s/n)*100 < t, against exact rationals:
   it never accepts below the threshold, and rejects at or above it only when s/n*100 = t exactly
   (e.g. 57 of 100 at 57.0%: a false rejection, which the property's "only ... can join" allows). *)
Theorem C17_float_test_exact : forall s n k, 0 <= s <= n -> 1 <= n <= 128 -> 510 <= k <= 1000 ->
  (ratio_lt s n k = false -> k * n <= 1000 * s) /\ (ratio_lt s n k = true -> 1000 * s <= k * n).
Proof. intros s n k Hs Hn Hk. split; [apply ratio_accept_exact|apply ratio_reject_tight]; assumption. Qed.

Theorem C17_float_false_rejection_exists : ratio_lt 57 100 570 = true /\ 570 * 100 <= 1000 * 57.
Proof. split; [vm_compute; reflexivity|discriminate]. Qed.

(* Only current members can leave or be expelled: an accepted disjoin names a member, with the member's
   start, signed (first sign) with the member's key; an accepted expel names a member inside the
   operation's height window; and a member missing after the block was removed by such an operation. *)
Theorem C17_leave_only_members : forall E ops o, NoDup (addrs (nodes_of E)) -> block E ops = Some o ->
  (forall i x s sg, In (i, ODisjoin x s sg) (accepted E ops) ->
     exists n s0 rest, In n (nodes_of E) /\ n_addr n = x /\ s = n_start n /\ sg = s0 :: rest /\ snd s0 = n_key n) /\
  (forall i x s e, In (i, OExpel x s e) (accepted E ops) -> In x (addrs (nodes_of E)) /\ s <= e_h E <= e) /\
  (forall n, In n (nodes_of E) -> ~ In (n_addr n) (addrs (snd (suffrage_after E o))) ->
     (exists i s sg, In (i, ODisjoin (n_addr n) s sg) (accepted E ops)) \/
     (exists i s e, In (i, OExpel (n_addr n) s e) (accepted E ops))).
Proof. exact leave_only_members. Qed.

(* The resulting suffrage does not depend on the order of the block's operations.  (Which of two
   conflicting operations is recorded as accepted may differ -- see the example below -- and so may the
   candidates / policy values, where the first of two competing operations wins.) *)
Theorem C17_order_independent : forall E ops ops' o, Permutation ops ops' -> block E ops = Some o ->
  exists o', block E ops' = Some o' /\ o_suf o' = o_suf o.
Proof. exact order_independent. Qed.

(* the literals of the code the model depends on (regenerated from the Go source on every run) *)
Theorem C17_code_constants :
  check_fact_signs_ints = [100] /\ c17_threshold_min10 = 510 /\ c17_threshold_max10 = 1000.
Proof. repeat split; reflexivity. Qed.

(* ---------------------------------------------------------------- non-vacuity *)
Definition exE : env :=
  mkEnv 10 670 3 (mkPrior 4 [mkNode 1 1 0; mkNode 2 2 0; mkNode 3 3 0] (Some [mkCand 5 5 9 12; mkCand 6 6 2 9]) 1).

(* candidate 5 joins with 3 of 3 member signs, member 2 disjoins and is also expelled; the expired
   candidate 6 cannot join although all members signed *)
Example C17_example_block :
  exists o, block exE [OJoin 5 9 [(1, 1); (5, 5); (2, 2); (3, 3)]%N; ODisjoin 2 0 [(2, 2)%N]; OExpel 2 8 12;
                       OJoin 6 2 [(6, 6); (1, 1); (2, 2); (3, 3)]%N] = Some o /\
            o_flags o = [Some true; Some true; Some true; Some false] /\
            o_suf o = Some (5, [mkNode 1 1 0; mkNode 3 3 0; mkNode 5 5 11]).
Proof. eexists. split; [vm_compute; reflexivity|]. split; reflexivity. Qed.

(* 2 of 3 signs are below 67% *)
Example C17_example_below_threshold :
  exists o, block exE [OJoin 5 9 [(5, 5); (1, 1); (2, 2)]%N] = Some o /\ o_flags o = [Some false] /\ o_suf o = None.
Proof. eexists. split; [vm_compute; reflexivity|]. split; reflexivity. Qed.

(* order changes which operation is recorded as accepted, not the suffrage *)
Example C17_example_order :
  exists o1 o2, block exE [ODisjoin 2 0 [(2, 2)%N]; OExpel 2 8 12] = Some o1 /\
                block exE [OExpel 2 8 12; ODisjoin 2 0 [(2, 2)%N]] = Some o2 /\
                o_flags o1 = [Some true; Some true] /\ o_flags o2 = [Some true; Some false] /\
                o_suf o1 = o_suf o2 /\ o_suf o1 = Some (5, [mkNode 1 1 0; mkNode 3 3 0]).
Proof. do 2 eexists. split; [vm_compute; reflexivity|]. split; [vm_compute; reflexivity|]. repeat split; reflexivity. Qed.
