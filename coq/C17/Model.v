(* C17 / C10 -- shared executable model of the suffrage / candidate / network-policy operation
   processors, their state-value mergers and the per-block driver.  No proofs here.

   Transcribes (files under /repo):
     isaac/operation/suffrage_join_processor.go       SuffrageJoinProcessor.PreProcess/Process,
                                                      SuffrageJoinStateValueMerger.Merge/closeValue
     isaac/operation/suffrage_candidate_processor.go  SuffrageCandidateProcessor.PreProcess/Process,
                                                      SuffrageCandidatesStateValueMerger.Merge/closeValue
     isaac/operation/suffrage_disjoin_processor.go    SuffrageDisjoinProcessor.PreProcess/Process
     isaac/operation/suffrage_expel_processor.go      SuffrageExpelProcessor.PreProcess/Process
     isaac/operation/policy_network_processor.go      NetworkPolicyProcessor.PreProcess/Process
     base/sign.go                                     CheckFactSignsBySuffrage (float64, Flocq binary64)
     isaac/suffrage_state.go                          FilterCandidates / LastCandidatesFromState
     base/base_state.go                               BaseStateValueMerger (last value wins, ops set)
     isaac/proposal_processor.go                      processOperations: PreProcess sequentially in
                                                      proposal order (then the INIT voteproof's expels),
                                                      threading the context; Process of accepted
                                                      operations as parallel jobs

   Abstractions.  Addresses are numbers whose order is the order of Address().String() (the harness
   ranks the strings); public keys and network policies are opaque numbers (equality only).  A node
   sign is (node address, signer key); signature verification itself is BaseNodeOperation.IsValid's
   business (done when an operation enters the pool / is fetched), not the processors'.
   The maps the Go processors build from the suffrage state are modelled by [find] (first match):
   equal to Go's last-write-wins map for a suffrage without duplicate addresses, which NewSuffrage
   enforces (processor creation fails otherwise) and C17_unique_members preserves.  The candidates
   map IS modelled last-write-wins ([find] on the reversed list). *)
From Coq Require Import ZArith NArith List Bool.
From Flocq Require Import IEEE754.BinarySingleNaN IEEE754.Binary IEEE754.Bits Core.Zaux.
Import ListNotations.
Open Scope Z_scope.

(* ------------------------------------------------------------------ data *)

Record node := mkNode { n_addr : N; n_key : N; n_start : Z }.
Record cand := mkCand { c_addr : N; c_key : N; c_start : Z; c_deadline : Z }.
Definition sign := (N * N)%type.

Inductive op :=
| OJoin (x : N) (start : Z) (signs : list sign)      (* SuffrageJoin: candidate, start, node signs *)
| OCandidate (x k : N)                               (* SuffrageCandidate: address, publickey *)
| ODisjoin (x : N) (start : Z) (signs : list sign)   (* SuffrageDisjoin: node, start, node signs *)
| OExpel (x : N) (start end_ : Z)                    (* SuffrageExpelOperation: node, start, end *)
| OPolicy (p : N) (signs : list sign)                (* NetworkPolicy: policy, node signs *)
| ONil                                               (* getOperation gave nil: skipped, no tree slot *)
| OInvalid.                                          (* ReasonProcessedOperation: not in state *)

Record prior := mkPrior {
  p_sufheight : Z;                 (* SuffrageNodesStateValue.Height() *)
  p_nodes : list node;             (* SuffrageNodesStateValue.Nodes() *)
  p_cands : option (list cand);    (* the candidates state, None = no such state yet *)
  p_policy : N                     (* NetworkPolicyStateValue.Policy() *)
}.

Record env := mkEnv {
  e_h : Z;          (* height of the block being processed (proposal point height) *)
  e_k : Z;          (* threshold in tenths of a percent *)
  e_life : Z;       (* policy.SuffrageCandidateLifespan() *)
  e_prior : prior
}.

Definition addrs (l : list node) : list N := map n_addr l.
Definition memN (x : N) (l : list N) : bool := existsb (N.eqb x) l.
Definition find_node (x : N) (l : list node) : option node := find (fun n => N.eqb (n_addr n) x) l.
(* Go: for i := range candidates { m[addr] = candidates[i] }  -- the last one wins *)
Definition find_cand (x : N) (l : list cand) : option cand := find (fun c => N.eqb (c_addr c) x) (rev l).

(* isaac.FilterCandidates / LastCandidatesFromState: only candidates with Deadline() >= height *)
Definition live_cands (E : env) : list cand :=
  match p_cands (e_prior E) with
  | None => []
  | Some l => filter (fun c => e_h E <=? c_deadline c) l
  end.

Definition nodes_of (E : env) : list node := p_nodes (e_prior E).

(* ------------------------------------------------------------------ base.CheckFactSignsBySuffrage *)

Definition b64_of_Z (z : Z) : binary64 := binary_normalize 53 1024 eq_refl eq_refl mode_NE z 0 false.
Definition b64_of_tenths (k : Z) : binary64 := b64_div mode_NE (b64_of_Z k) (b64_of_Z 10).

(* suf.ExistsPublickey(node, signer) *)
Definition exists_pub (suf : list node) (s : sign) : bool :=
  match find_node (fst s) suf with
  | Some n => N.eqb (n_key n) (snd s)
  | None => false
  end.

(* `sign++` for every sign (no de-duplication in the code) *)
Definition count_signs (suf : list node) (signs : list sign) : Z :=
  Z.of_nat (length (filter (exists_pub suf) signs)).

(* (sign/float64(suf.Len()))*100 < threshold.Float64() *)
Definition ratio_lt (s n k : Z) : bool :=
  match b64_compare (b64_mult mode_NE (b64_div mode_NE (b64_of_Z s) (b64_of_Z n)) (b64_of_Z 100)) (b64_of_tenths k) with
  | Some Lt => true
  | _ => false
  end.

Definition check_signs (suf : list node) (k : Z) (signs : list sign) : bool :=
  negb (ratio_lt (count_signs suf signs) (Z.of_nat (length suf)) k).

(* ------------------------------------------------------------------ PreProcess *)

Record pst := mkPst {
  join_pre : list N;     (* SuffrageJoinProcessor.preprocessed *)
  cand_pre : list N;     (* SuffrageCandidateProcessor.preprocessed *)
  disj_pre : list N;     (* SuffrageDisjoinProcessor.preprocessed *)
  expel_pre : list N;    (* SuffrageExpelProcessor.preprocessed = ExpelPreProcessedContextKey list *)
  pol_new : bool         (* NetworkPolicyProcessor.newop != nil *)
}.

Definition pst0 : pst := mkPst [] [] [] [] false.

(* the state-independent part of SuffrageJoinProcessor.PreProcess, in the order of the code:
   len(candidates) >= 1; not already in the suffrage; registered (unexpired) candidate; start
   matches; deadline >= height; the first sign whose node is the candidate carries the candidate's
   registered key; enough signs of suffrage members *)
Definition join_valid (E : env) (x : N) (start : Z) (signs : list sign) : bool :=
  negb (Nat.eqb (length (live_cands E)) 0) &&
  negb (memN x (addrs (nodes_of E))) &&
  match find_cand x (live_cands E) with
  | None => false
  | Some c =>
      (start =? c_start c) &&
      negb (c_deadline c <? e_h E) &&
      match find (fun s => N.eqb (fst s) x) signs with
      | None => false
      | Some s => N.eqb (snd s) (c_key c)
      end &&
      check_signs (nodes_of E) (e_k E) signs
  end.

(* SuffrageDisjoinProcessor.PreProcess without the preprocessed / expel-context tests *)
Definition disjoin_valid (E : env) (x : N) (start : Z) (signs : list sign) : bool :=
  match signs, find_node x (nodes_of E) with
  | s0 :: _, Some n => (start =? n_start n) && N.eqb (snd s0) (n_key n)
  | _, _ => false
  end.

(* SuffrageExpelProcessor.PreProcess without the preprocessed test *)
Definition expel_valid (E : env) (x : N) (start end_ : Z) : bool :=
  negb (e_h E <? start) && negb (end_ <? e_h E) && memN x (addrs (nodes_of E)).

(* NetworkPolicyProcessor.PreProcess without the newop test *)
Definition policy_valid (E : env) (p : N) (signs : list sign) : bool :=
  check_signs (nodes_of E) (e_k E) signs && negb (N.eqb p (p_policy (e_prior E))).

(* one PreProcess call: (accepted?, new processor state) *)
Definition step (E : env) (st : pst) (o : op) : bool * pst :=
  match o with
  | OJoin x start signs =>
      if memN x (join_pre st) then (false, st)
      else if join_valid E x start signs
           then (true, mkPst (x :: join_pre st) (cand_pre st) (disj_pre st) (expel_pre st) (pol_new st))
           else (false, st)
  | OCandidate x _ =>
      if memN x (cand_pre st) then (false, st)
      else if memN x (addrs (nodes_of E)) then (false, st)
      else
        let st' := mkPst (join_pre st) (x :: cand_pre st) (disj_pre st) (expel_pre st) (pol_new st) in
        match find_cand x (live_cands E) with
        | None => (true, st')
        | Some c => if e_h E <=? c_deadline c then (false, st') else (true, st)
        end
  | ODisjoin x start signs =>
      if memN x (disj_pre st) then (false, st)
      else if memN x (expel_pre st) then (false, st)
      else if disjoin_valid E x start signs
           then (true, mkPst (join_pre st) (cand_pre st) (x :: disj_pre st) (expel_pre st) (pol_new st))
           else (false, st)
  | OExpel x start end_ =>
      if negb (e_h E <? start) && negb (end_ <? e_h E) then
        if memN x (expel_pre st) then (false, st)
        else if memN x (addrs (nodes_of E))
             then (true, mkPst (join_pre st) (cand_pre st) (disj_pre st) (x :: expel_pre st) (pol_new st))
             else (false, st)
      else (false, st)
  | OPolicy p signs =>
      if pol_new st then (false, st)
      else if policy_valid E p signs
           then (true, mkPst (join_pre st) (cand_pre st) (disj_pre st) (expel_pre st) true)
           else (false, st)
  | ONil => (false, st)
  | OInvalid => (false, st)
  end.

(* Go panics (index out of range) in SuffrageDisjoinProcessor.PreProcess on NodeSigns()[0] when an
   operation has no signs; BaseOperation.IsValid rejects such operations ("empty signs").  The block
   function below returns None (= panic) when the list holds such an operation. *)
Definition op_wf (o : op) : bool :=
  match o with
  | ODisjoin _ _ [] => false
  | _ => true
  end.

(* accepted operations with their position, in PreProcess order *)
Fixpoint accepted_from (E : env) (st : pst) (i : nat) (ops : list op) : list (nat * op) :=
  match ops with
  | [] => []
  | o :: r =>
      let '(b, st') := step E st o in
      if b then (i, o) :: accepted_from E st' (S i) r else accepted_from E st' (S i) r
  end.

(* the slot of each entry in the writer's operations tree: None = no slot (skipped operation),
   Some true = in state, Some false = not in state (rejected by PreProcess, or invalid) *)
Definition slot_of (o : op) (b : bool) : option bool :=
  match o with
  | ONil => None
  | _ => Some b
  end.

Fixpoint flags_from (E : env) (st : pst) (ops : list op) : list (option bool) :=
  match ops with
  | [] => []
  | o :: r => let '(b, st') := step E st o in slot_of o b :: flags_from E st' r
  end.

Definition accepted (E : env) (ops : list op) : list (nat * op) := accepted_from E pst0 0 ops.

(* ------------------------------------------------------------------ Process: state merge values *)

Inductive mval :=
| MJoin (x k : N)        (* suffrageJoinNodeStateValue{node} on key "suffrage" *)
| MDisjoin (x : N)       (* suffrageDisjoinNodeStateValue on key "suffrage" *)
| MCandAdd (c : cand)    (* SuffrageCandidatesStateValue{node} on key "suffrage_candidate" *)
| MCandRemove (x : N)    (* suffrageRemoveCandidateStateValue on key "suffrage_candidate" *)
| MPolicy (p : N).       (* NetworkPolicyStateValue on key "network_policy" *)

Definition process (E : env) (o : op) : list mval :=
  match o with
  | OJoin x _ _ =>
      match find_cand x (live_cands E) with
      | Some c => [MCandRemove (c_addr c); MJoin (c_addr c) (c_key c)]
      | None => []   (* Go: nil candidate, nil dereference; unreachable after an accepted PreProcess *)
      end
  | OCandidate x k => [MCandAdd (mkCand x k (e_h E + 1) (e_h E + 1 + e_life E))]
  | ODisjoin x _ _ => [MDisjoin x]
  | OExpel x _ _ => [MDisjoin x]
  | OPolicy p _ => [MPolicy p]
  | ONil => []
  | OInvalid => []
  end.

(* what the writer's StatesMerger receives: (operation index, merge value); one SetStates call per
   accepted operation, the calls arrive in the completion order of the worker jobs *)
Definition merge_values (E : env) (acc : list (nat * op)) : list (nat * mval) :=
  flat_map (fun io => map (fun v => (fst io, v)) (process E (snd io))) acc.

(* ------------------------------------------------------------------ mergers *)

Fixpoint insert_by {A} (key : A -> N) (a : A) (l : list A) : list A :=
  match l with
  | [] => [a]
  | b :: r => if N.leb (key a) (key b) then a :: l else b :: insert_by key a r
  end.
Definition sort_by {A} (key : A -> N) (l : list A) : list A := fold_right (insert_by key) [] l.

Record merged := mkMerged {
  m_joined : list (N * N);    (* SuffrageJoinStateValueMerger.joined, append order *)
  m_disjoined : list N;       (* .disjoined *)
  m_suf_ops : list nat;       (* operations recorded by the "suffrage" merger *)
  m_added : list cand;        (* SuffrageCandidatesStateValueMerger.added *)
  m_removes : list N;         (* .removes *)
  m_cand_ops : list nat;
  m_policies : list N;        (* BaseStateValueMerger.value history: the last one is kept *)
  m_pol_ops : list nat
}.

Definition merged0 : merged := mkMerged [] [] [] [] [] [] [] [].

Definition merge1 (m : merged) (iv : nat * mval) : merged :=
  let '(i, v) := iv in
  match v with
  | MJoin x k => mkMerged (m_joined m ++ [(x, k)]) (m_disjoined m) (m_suf_ops m ++ [i]) (m_added m) (m_removes m) (m_cand_ops m) (m_policies m) (m_pol_ops m)
  | MDisjoin x => mkMerged (m_joined m) (m_disjoined m ++ [x]) (m_suf_ops m ++ [i]) (m_added m) (m_removes m) (m_cand_ops m) (m_policies m) (m_pol_ops m)
  | MCandAdd c => mkMerged (m_joined m) (m_disjoined m) (m_suf_ops m) (m_added m ++ [c]) (m_removes m) (m_cand_ops m ++ [i]) (m_policies m) (m_pol_ops m)
  | MCandRemove x => mkMerged (m_joined m) (m_disjoined m) (m_suf_ops m) (m_added m) (m_removes m ++ [x]) (m_cand_ops m ++ [i]) (m_policies m) (m_pol_ops m)
  | MPolicy p => mkMerged (m_joined m) (m_disjoined m) (m_suf_ops m) (m_added m) (m_removes m) (m_cand_ops m) (m_policies m ++ [p]) (m_pol_ops m ++ [i])
  end.

Definition merge_all (ms : list (nat * mval)) : merged := fold_left merge1 ms merged0.

(* SuffrageJoinStateValueMerger.closeValue: None = ErrIgnoreStateValue (state untouched) *)
Definition close_suffrage (E : env) (m : merged) : option (Z * list node) :=
  match m_joined m, m_disjoined m with
  | [], [] => None
  | _, _ =>
      Some (p_sufheight (e_prior E) + 1,
            filter (fun n => negb (memN (n_addr n) (m_disjoined m))) (nodes_of E)
            ++ map (fun xk => mkNode (fst xk) (snd xk) (e_h E + 1)) (sort_by fst (m_joined m)))
  end.

(* SuffrageCandidatesStateValueMerger.closeValue *)
Definition close_cands (E : env) (m : merged) : option (list cand) :=
  match m_added m, m_removes m with
  | [], [] => None
  | _, _ =>
      let ex := match p_cands (e_prior E) with Some l => l | None => [] end in
      let ex1 := filter (fun c => negb (memN (c_addr c) (m_removes m))) ex in
      let ex2 := filter (fun c => negb (memN (c_addr c) (map c_addr (m_added m)))) ex1 in
      Some (ex2 ++ sort_by c_addr (m_added m))
  end.

(* BaseStateValueMerger.CloseValue for "network_policy": the value of the last Merge *)
Definition close_policy (m : merged) : option N :=
  match rev (m_policies m) with
  | [] => None
  | p :: _ => Some p
  end.

(* BaseStateValueMerger.CloseValue sorts the operations (by hash); the harness sorts by index *)
Definition sort_nat (l : list nat) : list nat := map N.to_nat (sort_by (fun x => x) (map N.of_nat l)).

Record outcome := mkOutcome {
  o_flags : list (option bool);        (* per entry: slot in the operations tree *)
  o_suf : option (Z * list node);
  o_cands : option (list cand);
  o_policy : option N;
  o_suf_ops : list nat;
  o_cand_ops : list nat;
  o_pol_ops : list nat
}.

Definition close_all (E : env) (flags : list (option bool)) (m : merged) : outcome :=
  mkOutcome flags (close_suffrage E m) (close_cands E m) (close_policy m)
            (sort_nat (m_suf_ops m)) (sort_nat (m_cand_ops m)) (sort_nat (m_pol_ops m)).

(* Writer.Manifest fails ("empty nodes") when the operations tree was sized for n > 0 entries but no
   entry got a slot (every operation of the proposal skipped): no block is produced *)
Definition no_slot (ops : list op) (flags : list (option bool)) : bool :=
  match ops with
  | [] => false
  | _ => forallb (fun f => match f with None => true | Some _ => false end) flags
  end.

(* one block: PreProcess in list order, Process, merge in list order (the canonical schedule; C10
   proves every other completion order gives the same outcome), close.
   None = no block: Go panic (op_wf) or Process returns an error (no_slot). *)
Definition block (E : env) (ops : list op) : option outcome :=
  if forallb op_wf ops
  then let flags := flags_from E pst0 ops in
       if no_slot ops flags then None
       else Some (close_all E flags (merge_all (merge_values E (accepted E ops))))
  else None.

(* the resulting suffrage: the new value if the block changed it, else the prior one *)
Definition suffrage_after (E : env) (o : outcome) : Z * list node :=
  match o_suf o with
  | Some s => s
  | None => (p_sufheight (e_prior E), nodes_of E)
  end.

(* ------------------------------------------------------------------ correspondence *)

Definition node_eqb (a b : node) : bool :=
  N.eqb (n_addr a) (n_addr b) && N.eqb (n_key a) (n_key b) && Z.eqb (n_start a) (n_start b).
Definition cand_eqb (a b : cand) : bool :=
  N.eqb (c_addr a) (c_addr b) && N.eqb (c_key a) (c_key b) && Z.eqb (c_start a) (c_start b) && Z.eqb (c_deadline a) (c_deadline b).

Fixpoint list_eqb {A} (eqb : A -> A -> bool) (a b : list A) : bool :=
  match a, b with
  | [], [] => true
  | x :: a', y :: b' => eqb x y && list_eqb eqb a' b'
  | _, _ => false
  end.
Definition opt_eqb {A} (eqb : A -> A -> bool) (a b : option A) : bool :=
  match a, b with
  | None, None => true
  | Some x, Some y => eqb x y
  | _, _ => false
  end.

Definition outcome_eqb (a b : outcome) : bool :=
  list_eqb (opt_eqb Bool.eqb) (o_flags a) (o_flags b) &&
  opt_eqb (fun x y => Z.eqb (fst x) (fst y) && list_eqb node_eqb (snd x) (snd y)) (o_suf a) (o_suf b) &&
  opt_eqb (list_eqb cand_eqb) (o_cands a) (o_cands b) &&
  opt_eqb N.eqb (o_policy a) (o_policy b) &&
  list_eqb Nat.eqb (o_suf_ops a) (o_suf_ops b) &&
  list_eqb Nat.eqb (o_cand_ops a) (o_cand_ops b) &&
  list_eqb Nat.eqb (o_pol_ops a) (o_pol_ops b).

Inductive tcase :=
(* environment, operations, the implementation's observed outcome (None = it panicked) *)
| CBlock (E : env) (ops : list op) (obs : option outcome)
(* CheckFactSignsBySuffrage alone: signs counted, suffrage size, threshold tenths, rejected? *)
| CRatio (s n k : Z) (rej : bool).

Definition check (c : tcase) : bool :=
  match c with
  | CBlock E ops obs => opt_eqb outcome_eqb (block E ops) obs
  | CRatio s n k rej => Bool.eqb (ratio_lt s n k) rej
  end.
