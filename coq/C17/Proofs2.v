(* C17 -- lemmas, part 2: what the mergers receive and produce. *)
From Coq Require Import ZArith NArith List Bool Lia Permutation Sorted.
From MV Require Import C17.Model C17.Proofs C17.Proofs1.
Import ListNotations.

(* ---------------------------------------------------------------- projections of a merge-value list *)
Definition mj (ms : list (nat * mval)) : list (N * N) :=
  flat_map (fun iv => match snd iv with MJoin x k => [(x, k)] | _ => [] end) ms.
Definition md (ms : list (nat * mval)) : list N :=
  flat_map (fun iv => match snd iv with MDisjoin x => [x] | _ => [] end) ms.
Definition ma (ms : list (nat * mval)) : list cand :=
  flat_map (fun iv => match snd iv with MCandAdd c => [c] | _ => [] end) ms.
Definition mr (ms : list (nat * mval)) : list N :=
  flat_map (fun iv => match snd iv with MCandRemove x => [x] | _ => [] end) ms.
Definition mp (ms : list (nat * mval)) : list N :=
  flat_map (fun iv => match snd iv with MPolicy p => [p] | _ => [] end) ms.
Definition so (ms : list (nat * mval)) : list nat :=
  flat_map (fun iv => match snd iv with MJoin _ _ | MDisjoin _ => [fst iv] | _ => [] end) ms.
Definition co (ms : list (nat * mval)) : list nat :=
  flat_map (fun iv => match snd iv with MCandAdd _ | MCandRemove _ => [fst iv] | _ => [] end) ms.
Definition po (ms : list (nat * mval)) : list nat :=
  flat_map (fun iv => match snd iv with MPolicy _ => [fst iv] | _ => [] end) ms.

Lemma fold_merge ms : forall m, fold_left merge1 ms m =
  mkMerged (m_joined m ++ mj ms) (m_disjoined m ++ md ms) (m_suf_ops m ++ so ms)
           (m_added m ++ ma ms) (m_removes m ++ mr ms) (m_cand_ops m ++ co ms)
           (m_policies m ++ mp ms) (m_pol_ops m ++ po ms).
Proof.
  induction ms as [|[i v] r IH]; intros m.
  - simpl. rewrite !app_nil_r. destruct m; reflexivity.
  - simpl fold_left. rewrite IH. destruct v; simpl; rewrite <- ?app_assoc; reflexivity.
Qed.

Lemma merge_all_spec ms : merge_all ms = mkMerged (mj ms) (md ms) (so ms) (ma ms) (mr ms) (co ms) (mp ms) (po ms).
Proof. unfold merge_all. rewrite fold_merge. reflexivity. Qed.

(* ---------------------------------------------------------------- merge values of accepted operations *)
Definition tgt_leave (o : op) := match o with ODisjoin x _ _ | OExpel x _ _ => Some x | _ => None end.

Lemma targets_in tgt acc x : In x (targets tgt acc) <-> exists i o, In (i, o) acc /\ tgt o = Some x.
Proof.
  unfold targets. rewrite in_flat_map. split.
  - intros [[i o] [Hin H]]. simpl in H. destruct (tgt o) eqn:T; [|destruct H]. destruct H as [->|[]]. eauto.
  - intros [i [o [Hin T]]]. exists (i, o). split; [exact Hin|]. simpl. rewrite T. left. reflexivity.
Qed.

Lemma mv_app E a b : merge_values E (a ++ b) = merge_values E a ++ merge_values E b.
Proof. unfold merge_values. apply flat_map_app. Qed.

Lemma mj_app a b : mj (a ++ b) = mj a ++ mj b. Proof. apply flat_map_app. Qed.
Lemma md_app a b : md (a ++ b) = md a ++ md b. Proof. apply flat_map_app. Qed.
Lemma ma_app a b : ma (a ++ b) = ma a ++ ma b. Proof. apply flat_map_app. Qed.
Lemma mr_app a b : mr (a ++ b) = mr a ++ mr b. Proof. apply flat_map_app. Qed.
Lemma mp_app a b : mp (a ++ b) = mp a ++ mp b. Proof. apply flat_map_app. Qed.

Lemma mv_cons E io r : merge_values E (io :: r) = map (fun v => (fst io, v)) (process E (snd io)) ++ merge_values E r.
Proof. reflexivity. Qed.

(* joined pairs: exactly the (address, registered key) of accepted join operations *)
Lemma mj_in E acc x k : In (x, k) (mj (merge_values E acc)) <->
  exists i x' s sg c, In (i, OJoin x' s sg) acc /\ find_cand x' (live_cands E) = Some c /\ x = c_addr c /\ k = c_key c.
Proof.
  induction acc as [|[i o] r IH].
  - simpl. split; [intros []|intros [? [? [? [? [? [[] _]]]]]]].
  - rewrite mv_cons, mj_app, in_app_iff, IH. simpl fst; simpl snd. split.
    + intros [H|[i' [x' [s [sg [c [Hin R]]]]]]].
      * destruct o; simpl in H; try (destruct H; fail).
        destruct (find_cand x0 (live_cands E)) as [c|] eqn:F; simpl in H; [|destruct H].
        destruct H as [H|[]]. inversion H; subst.
        exists i, x0, start, signs, c. split; [left; reflexivity|auto].
      * exists i', x', s, sg, c. split; [right; exact Hin|exact R].
    + intros [i' [x' [s [sg [c [[Hin|Hin] [F [-> ->]]]]]]]].
      * inversion Hin; subst. left. simpl. rewrite F. simpl. left. reflexivity.
      * right. exists i', x', s, sg, c. auto.
Qed.

Lemma mj_targets E acc :
  (forall i o x, In (i, o) acc -> tgt_join o = Some x -> valid_join E o = true) ->
  map fst (mj (merge_values E acc)) = targets tgt_join acc.
Proof.
  induction acc as [|[i o] r IH]; intros V; [reflexivity|].
  rewrite mv_cons, mj_app, map_app, IH by (intros; eapply V; [right|]; eauto).
  unfold targets at 2. simpl flat_map. fold (targets tgt_join r). f_equal.
  destruct o; simpl; try reflexivity.
  specialize (V i (OJoin x start signs) x (or_introl eq_refl) eq_refl). simpl in V.
  unfold join_valid in V. destruct (find_cand x (live_cands E)) as [c|] eqn:F.
  - simpl. apply find_cand_live in F. destruct F as [-> _]. reflexivity.
  - rewrite andb_false_r in V. discriminate.
Qed.

Lemma md_targets E acc : md (merge_values E acc) = targets tgt_leave acc.
Proof.
  induction acc as [|[i o] r IH]; [reflexivity|].
  rewrite mv_cons, md_app, IH. unfold targets at 2. simpl flat_map. fold (targets tgt_leave r). f_equal.
  destruct o; simpl; try reflexivity.
  destruct (find_cand x (live_cands E)); reflexivity.
Qed.

Lemma ma_targets E acc : map c_addr (ma (merge_values E acc)) = targets tgt_cand acc.
Proof.
  induction acc as [|[i o] r IH]; [reflexivity|].
  rewrite mv_cons, ma_app, map_app, IH. unfold targets at 2. simpl flat_map. fold (targets tgt_cand r). f_equal.
  destruct o; simpl; try reflexivity.
  destruct (find_cand x (live_cands E)); reflexivity.
Qed.

Lemma mp_length E acc : length (mp (merge_values E acc)) = length (filter (fun io => is_policy (snd io)) acc).
Proof.
  induction acc as [|[i o] r IH]; [reflexivity|].
  rewrite mv_cons, mp_app, app_length, IH. simpl filter.
  destruct o; simpl; try reflexivity.
  destruct (find_cand x (live_cands E)); reflexivity.
Qed.

Lemma leave_split acc x : In x (targets tgt_leave acc) <-> In x (targets tgt_disj acc) \/ In x (targets tgt_expel acc).
Proof.
  rewrite !targets_in. split.
  - intros [i [o [Hin T]]]. destruct o; simpl in T; try discriminate; inversion T; subst; [left|right]; eauto.
  - intros [[i [o [Hin T]]]|[i [o [Hin T]]]]; exists i, o; split; auto; destruct o; simpl in *; congruence.
Qed.

(* ---------------------------------------------------------------- small list facts *)
Lemma nodup_app {A} (l1 l2 : list A) : NoDup l1 -> NoDup l2 -> (forall x, In x l1 -> In x l2 -> False) -> NoDup (l1 ++ l2).
Proof.
  induction l1 as [|a r IH]; intros N1 N2 D; [exact N2|].
  simpl. inversion N1 as [|? ? Nin N1']; subst. constructor.
  - rewrite in_app_iff. intros [H|H]; [auto|]. eapply D; [left; reflexivity|exact H].
  - apply IH; auto. intros x Hx1 Hx2. eapply D; [right; exact Hx1|exact Hx2].
Qed.

Lemma nodup_filter_map {A B} (f : A -> B) (p : A -> bool) l : NoDup (map f l) -> NoDup (map f (filter p l)).
Proof.
  induction l as [|a r IH]; simpl; intros ND; [constructor|].
  inversion ND as [|? ? Nin ND']; subst. destruct (p a); simpl; [constructor|]; auto.
  intro H. apply Nin. apply in_map_iff in H. destruct H as [b [E Hb]]. apply filter_In in Hb.
  rewrite <- E. apply in_map. apply Hb.
Qed.

Lemma find_node_nodup x l n : NoDup (addrs l) -> In n l -> n_addr n = x -> find_node x l = Some n.
Proof.
  unfold find_node, addrs. induction l as [|a r IH]; intros ND Hin E; [destruct Hin|].
  simpl in ND. inversion ND as [|? ? Nin ND']; subst. simpl. destruct Hin as [->|Hin].
  - rewrite N.eqb_refl. reflexivity.
  - destruct (N.eqb (n_addr a) (n_addr n)) eqn:Q.
    + apply N.eqb_eq in Q. exfalso. apply Nin. rewrite Q. apply in_map. exact Hin.
    + apply IH; auto.
Qed.

Lemma find_node_some x l n : find_node x l = Some n -> In n l /\ n_addr n = x.
Proof. unfold find_node. intros H. apply find_some in H. destruct H as [H Q]. apply N.eqb_eq in Q. auto. Qed.
