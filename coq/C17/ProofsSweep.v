(* C17 -- lemmas, part 4a: base.CheckFactSignsBySuffrage, the finite sweep (slow: ~1 min; kept in its own file).
   Part 4:  The float64 test against exact rationals
   (finite sweep by vm_compute, the bound is in the statement) and counted signs vs distinct members. *)
From Coq Require Import ZArith NArith List Bool Lia Permutation.
From Flocq Require Import IEEE754.BinarySingleNaN IEEE754.Binary IEEE754.Bits.
From MV Require Import C17.Model C17.Proofs.
Import ListNotations.
Open Scope Z_scope.

Definition ratio (s n : Z) : binary64 := b64_mult mode_NE (b64_div mode_NE (b64_of_Z s) (b64_of_Z n)) (b64_of_Z 100).
Definition b64_ltb (a b : binary64) : bool := match b64_compare a b with Some Lt => true | _ => false end.

Lemma ratio_lt_eq s n k : ratio_lt s n k = b64_ltb (ratio s n) (b64_of_tenths k).
Proof. reflexivity. Qed.

Definition max_n : Z := 128.
Definition kgrid : list Z := map (fun i => 510 + Z.of_nat i) (seq 0 491).
Definition ngrid : list Z := map (fun i => 1 + Z.of_nat i) (seq 0 (Z.to_nat max_n)).
Definition sgrid (n : Z) : list Z := map Z.of_nat (seq 0 (S (Z.to_nat n))).

(* for every suffrage size n <= max_n, every count s <= n and every one-decimal threshold k/10 in
   [51.0, 100.0]: the float test rejects only when s/n*100 <= k/10 and accepts only when s/n*100 >= k/10 *)
Definition sweep_one (s n : Z) (r : binary64) (kt : Z * binary64) : bool :=
  if b64_ltb r (snd kt) then 1000 * s <=? fst kt * n else fst kt * n <=? 1000 * s.
Definition sweep_sn (ths : list (Z * binary64)) (n s : Z) : bool := forallb (sweep_one s n (ratio s n)) ths.
Definition sweep_n (ths : list (Z * binary64)) (n : Z) : bool := forallb (sweep_sn ths n) (sgrid n).
Definition sweep_with (ths : list (Z * binary64)) (ng : list Z) : bool := forallb (sweep_n ths) ng.
Definition thresholds : list (Z * binary64) := map (fun k => (k, b64_of_tenths k)) kgrid.

(* the statement keeps [sweep_with thresholds ngrid] folded: users go through [sweep_with_spec] (proved for
   abstract lists) so that the kernel never has to re-evaluate the sweep outside the VM *)
Lemma sweep_true : sweep_with thresholds ngrid = true.
Proof. vm_compute. reflexivity. Qed.

Lemma sweep_with_spec ths ng : sweep_with ths ng = true ->
  forall n s kt, In n ng -> In s (sgrid n) -> In kt ths -> sweep_one s n (ratio s n) kt = true.
Proof.
  unfold sweep_with. intros W n s kt Hn Hs Hk.
  rewrite forallb_forall in W. specialize (W n Hn). unfold sweep_n in W.
  rewrite forallb_forall in W. specialize (W s Hs). unfold sweep_sn in W.
  rewrite forallb_forall in W. exact (W kt Hk).
Qed.
