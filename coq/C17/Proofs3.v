(* C17 -- lemmas, part 3: the property theorems (Props.v only re-exports them). *)
From Coq Require Import ZArith NArith List Bool Lia Permutation Sorted.
From MV Require Import C17.Model C17.Proofs C17.Proofs1 C17.Proofs2.
Import ListNotations.

Definition mvs (E : env) (ops : list op) := merge_values E (accepted E ops).
Definition mk_joined (E : env) (xk : N * N) : node := mkNode (fst xk) (snd xk) (e_h E + 1).

Lemma close_suffrage_spec E ms : close_suffrage E (merge_all ms) =
  match mj ms, md ms with
  | [], [] => None
  | _, _ => Some (p_sufheight (e_prior E) + 1,
                  filter (fun n => negb (memN (n_addr n) (md ms))) (nodes_of E) ++ map (mk_joined E) (sort_by fst (mj ms)))
  end.
Proof. rewrite merge_all_spec. reflexivity. Qed.

Lemma block_some E ops o : block E ops = Some o ->
  forallb op_wf ops = true /\ no_slot ops (flags_from E pst0 ops) = false /\
  o = close_all E (flags_from E pst0 ops) (merge_all (mvs E ops)).
Proof.
  unfold block. destruct (forallb op_wf ops); [|discriminate].
  destruct (no_slot ops (flags_from E pst0 ops)); [discriminate|].
  intros H. inversion H. auto.
Qed.

(* ---------------------------------------------------------------- accepted joins *)
Lemma acc_join_valid E ops i o x : In (i, o) (accepted E ops) -> tgt_join o = Some x -> valid_join E o = true.
Proof. apply (targets_sound E tgt_join join_pre (valid_join E) (join_rule E)). Qed.

Lemma acc_expel_valid E ops i o x : In (i, o) (accepted E ops) -> tgt_expel o = Some x -> valid_expel E o = true.
Proof. apply (targets_sound E tgt_expel expel_pre (valid_expel E) (expel_rule E)). Qed.

Lemma joined_keys E ops : map fst (mj (mvs E ops)) = targets tgt_join (accepted E ops).
Proof. apply mj_targets. intros i o x. apply acc_join_valid. Qed.

Lemma joined_nodup E ops : NoDup (map fst (mj (mvs E ops))).
Proof. rewrite joined_keys. apply (targets_nodup E tgt_join join_pre (join_grow E) (join_acc E)). Qed.

Lemma added_nodup E ops : NoDup (map c_addr (ma (mvs E ops))).
Proof. unfold mvs. rewrite ma_targets. apply (targets_nodup E tgt_cand cand_pre (cand_grow E) (cand_acc E)). Qed.

Lemma policies_le1 E ops : (length (mp (mvs E ops)) <= 1)%nat.
Proof. unfold mvs. rewrite mp_length. apply pol_once. Qed.

Lemma join_valid_not_member E x s sg : join_valid E x s sg = true -> ~ In x (addrs (nodes_of E)).
Proof.
  unfold join_valid. intros H. apply andb_true_iff in H. destruct H as [H _].
  apply andb_true_iff in H. destruct H as [_ H]. apply negb_true_iff in H. apply memN_false. exact H.
Qed.

(* everything PreProcess demanded of an accepted join *)
Lemma join_valid_inv E x s sg : join_valid E x s sg = true ->
  ~ In x (addrs (nodes_of E)) /\
  exists c, find_cand x (live_cands E) = Some c /\ s = c_start c /\ (e_h E <= c_deadline c)%Z /\
    (exists sn, find (fun sn => N.eqb (fst sn) x) sg = Some sn /\ snd sn = c_key c) /\
    check_signs (nodes_of E) (e_k E) sg = true.
Proof.
  intros V. split; [eapply join_valid_not_member; eauto|].
  unfold join_valid in V. destruct (find_cand x (live_cands E)) as [c|] eqn:F; [|rewrite andb_false_r in V; discriminate].
  exists c. split; [reflexivity|].
  repeat (apply andb_true_iff in V; destruct V as [V ?]).
  repeat match goal with H : _ && _ = true |- _ => apply andb_true_iff in H; destruct H end.
  split; [apply Z.eqb_eq; assumption|].
  split; [match goal with H : negb (_ <? _)%Z = true |- _ => apply negb_true_iff in H; apply Z.ltb_ge in H; exact H end|].
  split; [|assumption].
  destruct (find (fun sn => N.eqb (fst sn) x) sg) as [sn|]; [|discriminate].
  exists sn. split; [reflexivity|]. apply N.eqb_eq. assumption.
Qed.

Lemma joined_in E ops x k : In (x, k) (mj (mvs E ops)) <->
  exists s sg c, In (OJoin x s sg) ops /\ join_valid E x s sg = true /\
                 find_cand x (live_cands E) = Some c /\ k = c_key c.
Proof.
  unfold mvs. rewrite mj_in. split.
  - intros [i [x' [s [sg [c [Hin [F [-> ->]]]]]]]].
    assert (V := acc_join_valid E ops i _ x' Hin eq_refl). simpl in V.
    destruct (find_cand_live E x' c F) as [Ea _]. subst x'.
    exists s, sg, c. repeat split; auto. eapply accepted_in_ops; eauto.
  - intros [s [sg [c [Hin [V [F ->]]]]]].
    assert (T : In x (targets tgt_join (accepted E ops))).
    { apply (targets_complete E tgt_join join_pre (valid_join E) (join_rule E) (join_new E) ops pst0 0%nat (OJoin x s sg) x); auto. }
    apply targets_in in T. destruct T as [i [o [Hacc To]]].
    destruct o; simpl in To; try discriminate. inversion To; subst.
    exists i, x, start, signs, c. destruct (find_cand_live E x c F) as [Ea _]. auto.
Qed.

(* ---------------------------------------------------------------- accepted disjoins / expels *)
Lemma left_in E ops x : In x (md (mvs E ops)) <->
  (exists s sg, In (ODisjoin x s sg) ops /\ disjoin_valid E x s sg = true) \/
  (exists s e, In (OExpel x s e) ops /\ expel_valid E x s e = true).
Proof.
  unfold mvs. rewrite md_targets, leave_split, !targets_in. split.
  - intros [[i [o [Hin T]]]|[i [o [Hin T]]]]; destruct o; simpl in T; try discriminate; inversion T; subst.
    + left. exists start, signs. split; [eapply accepted_in_ops; eauto|eapply disj_sound; eauto].
    + right. exists start, end_. split; [eapply accepted_in_ops; eauto|].
      apply (acc_expel_valid E ops i _ x Hin eq_refl).
  - intros [[s [sg [Hin V]]]|[s [e [Hin V]]]].
    + rewrite <- !targets_in. apply (disj_complete E ops pst0 0%nat x s sg Hin V); simpl; auto.
    + right. rewrite <- targets_in.
      apply (targets_complete E tgt_expel expel_pre (valid_expel E) (expel_rule E) (expel_new E) ops pst0 0%nat (OExpel x s e) x); auto.
Qed.

Lemma disjoin_valid_inv E x s sg : disjoin_valid E x s sg = true ->
  exists n s0 rest, find_node x (nodes_of E) = Some n /\ sg = s0 :: rest /\ s = n_start n /\ snd s0 = n_key n.
Proof.
  unfold disjoin_valid. destruct sg as [|s0 rest]; [discriminate|].
  destruct (find_node x (nodes_of E)) as [n|]; [|discriminate].
  intros H. apply andb_true_iff in H. destruct H as [H1 H2]. apply Z.eqb_eq in H1. apply N.eqb_eq in H2.
  exists n, s0, rest. auto.
Qed.

Lemma expel_valid_inv E x s e : expel_valid E x s e = true -> (s <= e_h E <= e)%Z /\ In x (addrs (nodes_of E)).
Proof.
  unfold expel_valid. intros H. apply andb_true_iff in H. destruct H as [H H3].
  apply andb_true_iff in H. destruct H as [H1 H2].
  apply negb_true_iff in H1, H2. apply Z.ltb_ge in H1, H2. apply memN_In in H3. split; [lia|exact H3].
Qed.

(* ---------------------------------------------------------------- closing depends on sets only *)
Lemma nil_iff_no_elem {A} (l : list A) : l = [] <-> forall x, ~ In x l.
Proof. split; [intros -> x []|]. destruct l as [|a r]; [reflexivity|]. intros H. exfalso. apply (H a). left. reflexivity. Qed.

Lemma close_suffrage_ext E ms ms' :
  (forall p, In p (mj ms) <-> In p (mj ms')) -> NoDup (map fst (mj ms)) -> NoDup (map fst (mj ms')) ->
  (forall x, In x (md ms) <-> In x (md ms')) ->
  close_suffrage E (merge_all ms) = close_suffrage E (merge_all ms').
Proof.
  intros HJ N1 N2 HD. rewrite !close_suffrage_spec.
  assert (P : Permutation (mj ms) (mj ms')).
  { apply NoDup_Permutation; auto; eapply NoDup_map_inv; eauto. }
  assert (S : sort_by fst (mj ms) = sort_by fst (mj ms')) by (apply sort_by_nodup_eq; auto).
  assert (F : filter (fun n => negb (memN (n_addr n) (md ms))) (nodes_of E) =
              filter (fun n => negb (memN (n_addr n) (md ms'))) (nodes_of E)).
  { apply filter_ext. intros n. f_equal.
    destruct (memN (n_addr n) (md ms)) eqn:A; symmetry.
    - apply memN_In. apply HD. apply memN_In. exact A.
    - apply memN_false. intro H. apply HD in H. apply memN_In in H. congruence. }
  assert (EJ : mj ms = [] <-> mj ms' = []).
  { rewrite !nil_iff_no_elem. split; intros H x Hx; apply (H x); apply HJ; exact Hx. }
  assert (ED : md ms = [] <-> md ms' = []).
  { rewrite !nil_iff_no_elem. split; intros H x Hx; apply (H x); apply HD; exact Hx. }
  rewrite S, F.
  destruct (mj ms) as [|j1 jr] eqn:Q1, (mj ms') as [|j1' jr'] eqn:Q1';
    try (destruct EJ as [EJ1 EJ2]; (specialize (EJ1 eq_refl) || specialize (EJ2 eq_refl)); discriminate);
  destruct (md ms) as [|d1 dr] eqn:Q2, (md ms') as [|d1' dr'] eqn:Q2';
    try (destruct ED as [ED1 ED2]; (specialize (ED1 eq_refl) || specialize (ED2 eq_refl)); discriminate);
  reflexivity.
Qed.

(* ---------------------------------------------------------------- C17_unique_members *)
Lemma unique_members E ops o : NoDup (addrs (nodes_of E)) -> block E ops = Some o ->
  NoDup (addrs (snd (suffrage_after E o))).
Proof.
  intros ND B. apply block_some in B. destruct B as [_ [_ ->]].
  unfold suffrage_after, close_all. simpl o_suf. rewrite close_suffrage_spec.
  set (J := mj (mvs E ops)). set (D := md (mvs E ops)).
  assert (R : NoDup (addrs (filter (fun n => negb (memN (n_addr n) D)) (nodes_of E) ++ map (mk_joined E) (sort_by fst J)))).
  { unfold addrs. rewrite map_app. apply nodup_app.
    - apply nodup_filter_map. exact ND.
    - rewrite map_map. simpl. change (fun x : N * N => fst x) with (@fst N N).
      eapply Permutation_NoDup; [apply Permutation_map; symmetry; apply sort_by_perm|]. apply joined_nodup.
    - intros x H1 H2. rewrite map_map in H2. simpl in H2.
      apply in_map_iff in H1. destruct H1 as [n [<- Hn]]. apply filter_In in Hn. destruct Hn as [Hn _].
      apply in_map_iff in H2. destruct H2 as [[x' k] [Ex Hin]]. simpl in Ex. subst x'.
      apply (Permutation_in _ (sort_by_perm fst J)) in Hin. apply joined_in in Hin.
      destruct Hin as [s [sg [c [_ [V _]]]]]. apply join_valid_not_member in V. apply V.
      apply in_map. exact Hn. }
  destruct J, D; simpl; auto.
Qed.

(* ---------------------------------------------------------------- C17_height_plus_one *)
Lemma height_plus_one E ops o : block E ops = Some o ->
  (forall s, o_suf o = Some s -> fst s = (p_sufheight (e_prior E) + 1)%Z) /\
  (o_suf o = None <-> forall i op, In (i, op) (accepted E ops) -> tgt_join op = None /\ tgt_leave op = None).
Proof.
  intros B. apply block_some in B. destruct B as [_ [_ ->]]. simpl o_suf. rewrite close_suffrage_spec. split.
  - intros s. destruct (mj (mvs E ops)), (md (mvs E ops)); intros H; inversion H; reflexivity.
  - assert (EJ : mj (mvs E ops) = [] <-> targets tgt_join (accepted E ops) = []).
    { rewrite <- joined_keys. split; [intros ->; reflexivity|]. destruct (mj (mvs E ops)); [reflexivity|discriminate]. }
    assert (ED : md (mvs E ops) = targets tgt_leave (accepted E ops)) by apply md_targets.
    split.
    + intros H i op Hin.
      assert (mj (mvs E ops) = [] /\ md (mvs E ops) = []) as [Q1 Q2].
      { destruct (mj (mvs E ops)), (md (mvs E ops)); try discriminate; auto. }
      apply EJ in Q1. rewrite ED in Q2. split.
      * destruct (tgt_join op) as [x|] eqn:T; [|reflexivity].
        assert (In x (targets tgt_join (accepted E ops))) by (apply targets_in; eauto). rewrite Q1 in H0. destruct H0.
      * destruct (tgt_leave op) as [x|] eqn:T; [|reflexivity].
        assert (In x (targets tgt_leave (accepted E ops))) by (apply targets_in; eauto). rewrite Q2 in H0. destruct H0.
    + intros H.
      assert (Q1 : mj (mvs E ops) = []).
      { apply EJ. apply nil_iff_no_elem. intros x Hx. apply targets_in in Hx. destruct Hx as [i [op [Hin T]]].
        destruct (H i op Hin) as [T' _]. congruence. }
      assert (Q2 : md (mvs E ops) = []).
      { rewrite ED. apply nil_iff_no_elem. intros x Hx. apply targets_in in Hx. destruct Hx as [i [op [Hin T]]].
        destruct (H i op Hin) as [_ T']. congruence. }
      rewrite Q1, Q2. reflexivity.
Qed.

(* ---------------------------------------------------------------- C17_join_only_if *)
Lemma new_member_joined E ops o n : block E ops = Some o -> In n (snd (suffrage_after E o)) ->
  ~ In (n_addr n) (addrs (nodes_of E)) ->
  exists k, In (n_addr n, k) (mj (mvs E ops)) /\ n = mk_joined E (n_addr n, k).
Proof.
  intros B Hin Nm. apply block_some in B. destruct B as [_ [_ ->]].
  unfold suffrage_after, close_all in Hin. simpl o_suf in Hin. rewrite close_suffrage_spec in Hin.
  assert (G : In n (filter (fun n => negb (memN (n_addr n) (md (mvs E ops)))) (nodes_of E) ++ map (mk_joined E) (sort_by fst (mj (mvs E ops)))) ->
          exists k, In (n_addr n, k) (mj (mvs E ops)) /\ n = mk_joined E (n_addr n, k)).
  { intros H. apply in_app_or in H. destruct H as [H|H].
    - apply filter_In in H. destruct H as [H _]. exfalso. apply Nm. apply in_map. exact H.
    - apply in_map_iff in H. destruct H as [[x k] [<- H]]. simpl.
      exists k. split; [|reflexivity]. eapply Permutation_in; [apply sort_by_perm|exact H]. }
  destruct (mj (mvs E ops)) eqn:Q1, (md (mvs E ops)) eqn:Q2; simpl in Hin; auto.
  exfalso. apply Nm. apply in_map. exact Hin.
Qed.

Lemma join_only_if E ops o n : block E ops = Some o -> In n (snd (suffrage_after E o)) ->
  ~ In (n_addr n) (addrs (nodes_of E)) ->
  exists start signs c cl sn,
    In (OJoin (n_addr n) start signs) ops /\
    p_cands (e_prior E) = Some cl /\ In c cl /\ c_addr c = n_addr n /\ (e_h E <= c_deadline c)%Z /\
    start = c_start c /\ n_key n = c_key c /\ n_start n = (e_h E + 1)%Z /\
    find (fun s => N.eqb (fst s) (n_addr n)) signs = Some sn /\ snd sn = c_key c /\
    check_signs (nodes_of E) (e_k E) signs = true.
Proof.
  intros B Hin Nm. destruct (new_member_joined E ops o n B Hin Nm) as [k [HJ En]].
  apply joined_in in HJ. destruct HJ as [s [sg [c [Hop [V [F ->]]]]]].
  destruct (join_valid_inv E _ s sg V) as [_ [c' [F' [Es [Dl [[sn [Fs Ks]] Cs]]]]]].
  rewrite F in F'. inversion F'; subst c'.
  destruct (find_cand_live E _ c F) as [Ea [_ [cl [Pc Hc]]]].
  exists s, sg, c, cl, sn. rewrite En. simpl. repeat split; auto.
Qed.

(* ---------------------------------------------------------------- C17_leave_only_members *)
Lemma leave_only_members E ops o : NoDup (addrs (nodes_of E)) -> block E ops = Some o ->
  (forall i x s sg, In (i, ODisjoin x s sg) (accepted E ops) ->
     exists n s0 rest, In n (nodes_of E) /\ n_addr n = x /\ s = n_start n /\ sg = s0 :: rest /\ snd s0 = n_key n) /\
  (forall i x s e, In (i, OExpel x s e) (accepted E ops) -> In x (addrs (nodes_of E)) /\ (s <= e_h E <= e)%Z) /\
  (forall n, In n (nodes_of E) -> ~ In (n_addr n) (addrs (snd (suffrage_after E o))) ->
     (exists i s sg, In (i, ODisjoin (n_addr n) s sg) (accepted E ops)) \/
     (exists i s e, In (i, OExpel (n_addr n) s e) (accepted E ops))).
Proof.
  intros ND B. split; [|split].
  - intros i x s sg Hin. apply disj_sound in Hin. apply disjoin_valid_inv in Hin.
    destruct Hin as [n [s0 [rest [F [-> [-> K]]]]]]. apply find_node_some in F. destruct F as [Hn <-].
    exists n, s0, rest. auto.
  - intros i x s e Hin. apply (acc_expel_valid E ops i _ x) in Hin; [|reflexivity]. simpl in Hin.
    apply expel_valid_inv in Hin. tauto.
  - intros n Hn Gone. apply block_some in B. destruct B as [_ [_ ->]].
    unfold suffrage_after, close_all in Gone. simpl o_suf in Gone. rewrite close_suffrage_spec in Gone.
    assert (M : In (n_addr n) (md (mvs E ops))).
    { destruct (memN (n_addr n) (md (mvs E ops))) eqn:Q; [apply memN_In; exact Q|]. exfalso. apply Gone.
      assert (In n (filter (fun n => negb (memN (n_addr n) (md (mvs E ops)))) (nodes_of E))) by (apply filter_In; rewrite Q; auto).
      destruct (mj (mvs E ops)), (md (mvs E ops)); simpl; try (apply in_map; assumption);
        unfold addrs; rewrite map_app; apply in_or_app; left; apply in_map; assumption. }
    unfold mvs in M. rewrite md_targets in M. apply targets_in in M. destruct M as [i [op [Hin T]]].
    destruct op; simpl in T; try discriminate; inversion T; subst; [left|right]; eauto.
Qed.

(* ---------------------------------------------------------------- C17_order_independent *)
Lemma flags_none E : forall ops st,
  forallb (fun f => match f with None => true | Some _ => false end) (flags_from E st ops) =
  forallb (fun o => match o with ONil => true | _ => false end) ops.
Proof.
  induction ops as [|a r IH]; intros st; [reflexivity|].
  rewrite flags_from_cons. simpl. rewrite IH. f_equal. destruct a; reflexivity.
Qed.

Lemma forallb_perm {A} (p : A -> bool) l l' : Permutation l l' -> forallb p l = forallb p l'.
Proof. induction 1; simpl; try congruence. rewrite !andb_assoc, (andb_comm (p y)). reflexivity. Qed.

Lemma no_slot_perm E ops ops' : Permutation ops ops' ->
  no_slot ops (flags_from E pst0 ops) = no_slot ops' (flags_from E pst0 ops').
Proof.
  intros P. unfold no_slot. rewrite !flags_none, (forallb_perm _ _ _ P).
  destruct ops, ops'; auto.
  - apply Permutation_nil in P. discriminate.
  - apply Permutation_sym, Permutation_nil in P. discriminate.
Qed.

Lemma order_independent E ops ops' o : Permutation ops ops' -> block E ops = Some o ->
  exists o', block E ops' = Some o' /\ o_suf o' = o_suf o.
Proof.
  intros P B. apply block_some in B. destruct B as [W [NS ->]].
  unfold block. rewrite <- (forallb_perm _ _ _ P), W, <- (no_slot_perm E _ _ P), NS.
  eexists. split; [reflexivity|]. simpl. fold (mvs E ops) (mvs E ops').
  assert (P' : Permutation ops' ops) by (symmetry; exact P).
  apply close_suffrage_ext; try apply joined_nodup.
  - intros [x k]. rewrite !joined_in. split; intros [s [sg [c [Hin R]]]]; exists s, sg, c; split; auto;
      eapply Permutation_in; eassumption.
  - intros x. rewrite !left_in.
    split; (intros [[s [sg [Hin V]]]|[s [e [Hin V]]]]; [left; exists s, sg|right; exists s, e]; split; auto;
      eapply Permutation_in; eassumption).
Qed.

(* ---------------------------------------------------------------- the flags are the accepted set *)
Lemma flags_accepted E : forall ops st i0 j o,
  In ((i0 + j)%nat, o) (accepted_from E st i0 ops) <->
  nth_error ops j = Some o /\ nth_error (flags_from E st ops) j = Some (Some true).
Proof.
  induction ops as [|a r IH]; intros st i0 j o.
  - simpl. split; [intros []|]. destruct j; simpl; intros [H _]; discriminate.
  - rewrite accepted_from_cons, flags_from_cons. destruct j as [|j].
    + rewrite Nat.add_0_r. simpl nth_error. split.
      * intros H. destruct (fst (step E st a)) eqn:F.
        -- destruct H as [H|H].
           ++ inversion H; subst. split; [reflexivity|]. destruct o; simpl in *; try reflexivity.
              exfalso. revert F. simpl. discriminate.
           ++ apply accepted_index in H. lia.
        -- apply accepted_index in H. lia.
      * intros [Ha Hf]. inversion Ha; subst a. destruct (fst (step E st o)) eqn:F.
        -- left. reflexivity.
        -- destruct o; simpl in Hf; discriminate.
    + replace (i0 + S j)%nat with (S i0 + j)%nat by lia. simpl nth_error. rewrite <- IH.
      destruct (fst (step E st a)); [|reflexivity]. split; [intros [H|H]; [inversion H; lia|exact H]|intros H; right; exact H].
Qed.
