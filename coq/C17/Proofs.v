(* C17 -- lemmas, part 0: list / sorting facts used by C17 and C10. *)
From Coq Require Import ZArith NArith List Bool Lia Permutation Sorted.
From MV Require Import C17.Model.
Import ListNotations.

Lemma memN_In x l : memN x l = true <-> In x l.
Proof.
  unfold memN. rewrite existsb_exists. split.
  - intros [y [Hy E]]. apply N.eqb_eq in E. subst. exact Hy.
  - intros H. exists x. split; [exact H|apply N.eqb_refl].
Qed.

Lemma memN_false x l : memN x l = false <-> ~ In x l.
Proof. rewrite <- memN_In. destruct (memN x l); split; congruence. Qed.

Lemma memN_perm x l l' : Permutation l l' -> memN x l = memN x l'.
Proof.
  intros P. destruct (memN x l) eqn:A; symmetry.
  - apply memN_In. apply memN_In in A. eapply Permutation_in; eauto.
  - apply memN_false. apply memN_false in A. intro H. apply A. eapply Permutation_in; [symmetry|]; eauto.
Qed.

(* ---------------------------------------------------------------- insertion sort *)
Section Sort.
  Context {A : Type} (key : A -> N).

  Lemma insert_by_perm a l : Permutation (insert_by key a l) (a :: l).
  Proof.
    induction l as [|b r IH]; simpl; [reflexivity|].
    destruct (N.leb (key a) (key b)); [reflexivity|].
    rewrite IH. apply perm_swap.
  Qed.

  Lemma sort_by_perm l : Permutation (sort_by key l) l.
  Proof.
    induction l as [|a r IH]; simpl; [reflexivity|].
    unfold sort_by in *. simpl. rewrite insert_by_perm. constructor. exact IH.
  Qed.

  Definition sorted (l : list A) : Prop := StronglySorted (fun a b => (key a <= key b)%N) l.

  Lemma insert_by_sorted a l : sorted l -> sorted (insert_by key a l).
  Proof.
    induction l as [|b r IH]; intros S; simpl.
    - constructor; constructor.
    - destruct (N.leb (key a) (key b)) eqn:Le.
      + apply N.leb_le in Le. constructor; [exact S|].
        constructor; [exact Le|].
        inversion S as [|? ? S' F]; subst.
        rewrite Forall_forall in *. intros c Hc. specialize (F c Hc). lia.
      + apply N.leb_gt in Le. inversion S as [|? ? S' F]; subst.
        constructor; [apply IH; exact S'|].
        rewrite Forall_forall in *. intros c Hc.
        apply (Permutation_in _ (insert_by_perm a r)) in Hc. destruct Hc as [->|Hc]; [lia|auto].
  Qed.

  Lemma sort_by_sorted l : sorted (sort_by key l).
  Proof.
    induction l as [|a r IH]; unfold sort_by in *; simpl; [constructor|].
    apply insert_by_sorted. exact IH.
  Qed.

  (* two sorted lists with the same elements are equal when equal keys mean equal elements *)
  Lemma sorted_perm_eq l : forall l', sorted l -> sorted l' -> Permutation l l' ->
    (forall a b, In a l -> In b l -> key a = key b -> a = b) -> l = l'.
  Proof.
    induction l as [|a r IH]; intros l' S S' P U.
    - apply Permutation_nil in P. congruence.
    - destruct l' as [|b r']; [apply Permutation_sym, Permutation_nil in P; discriminate|].
      inversion S as [|? ? Sr Fa]; subst. inversion S' as [|? ? Sr' Fb]; subst.
      rewrite Forall_forall in Fa, Fb.
      assert (Hb : In b (a :: r)) by (eapply Permutation_in; [symmetry; exact P|left; reflexivity]).
      assert (Ha : In a (b :: r')) by (eapply Permutation_in; [exact P|left; reflexivity]).
      assert (E : a = b).
      { destruct Hb as [->|Hb]; [reflexivity|]. destruct Ha as [->|Ha]; [reflexivity|].
        apply U; [left; reflexivity|right; exact Hb|].
        specialize (Fa b Hb). specialize (Fb a Ha). lia. }
      subst b. f_equal. apply IH; auto.
      + eapply Permutation_cons_inv; exact P.
      + intros x y Hx Hy. apply U; right; assumption.
  Qed.

  Lemma sort_by_perm_eq l l' : Permutation l l' ->
    (forall a b, In a l -> In b l -> key a = key b -> a = b) -> sort_by key l = sort_by key l'.
  Proof.
    intros P U. apply sorted_perm_eq; try apply sort_by_sorted.
    - rewrite !sort_by_perm. exact P.
    - intros a b Ha Hb. apply U; eapply Permutation_in; try apply sort_by_perm; assumption.
  Qed.

  Lemma nodup_key_unique l : NoDup (map key l) -> forall a b, In a l -> In b l -> key a = key b -> a = b.
  Proof.
    induction l as [|c r IH]; intros ND a b Ha Hb E; [destruct Ha|].
    simpl in ND. inversion ND as [|? ? Nin ND']; subst.
    destruct Ha as [->|Ha], Hb as [->|Hb]; auto.
    - exfalso. apply Nin. rewrite E. apply in_map. exact Hb.
    - exfalso. apply Nin. rewrite <- E. apply in_map. exact Ha.
  Qed.

  Lemma sort_by_nodup_eq l l' : Permutation l l' -> NoDup (map key l) -> sort_by key l = sort_by key l'.
  Proof. intros P ND. apply sort_by_perm_eq; [exact P|apply nodup_key_unique; exact ND]. Qed.
End Sort.

Lemma sort_nat_perm l l' : Permutation l l' -> sort_nat l = sort_nat l'.
Proof.
  intros P. unfold sort_nat. f_equal. apply sort_by_perm_eq.
  - apply Permutation_map. exact P.
  - intros a b _ _ E. exact E.
Qed.
