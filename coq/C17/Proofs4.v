(* C17 -- lemmas, part 4b: base.CheckFactSignsBySuffrage against exact rationals; counted signs vs distinct members. *)
From Coq Require Import ZArith NArith List Bool Lia ZifyBool ZifyNat ZifyN Permutation.
From Flocq Require Import IEEE754.BinarySingleNaN IEEE754.Binary IEEE754.Bits.
From MV Require Import C17.Model C17.Proofs C17.ProofsSweep.
Import ListNotations.
Open Scope Z_scope.

Lemma in_kgrid k : 510 <= k <= 1000 -> In k kgrid.
Proof. intros H. apply in_map_iff. exists (Z.to_nat (k - 510)). split; [cbv beta; rewrite Z2Nat.id by lia; lia|]. apply in_seq. lia. Qed.
Lemma in_thresholds k : 510 <= k <= 1000 -> In (k, b64_of_tenths k) thresholds.
Proof. intros H. unfold thresholds. apply in_map_iff. exists k. split; [reflexivity|apply in_kgrid; exact H]. Qed.
Lemma in_ngrid n : 1 <= n <= max_n -> In n ngrid.
Proof.
  unfold max_n. intros H. apply in_map_iff. exists (Z.to_nat (n - 1)). split; [cbv beta; rewrite Z2Nat.id by lia; lia|]. apply in_seq.
  unfold max_n. lia.
Qed.
Lemma in_sgrid s n : 0 <= s <= n -> In s (sgrid n).
Proof. intros H. apply in_map_iff. exists (Z.to_nat s). split; [cbv beta; rewrite Z2Nat.id by lia; lia|]. apply in_seq. lia. Qed.

Lemma ratio_sweep s n k : 0 <= s <= n -> 1 <= n <= max_n -> 510 <= k <= 1000 ->
  if ratio_lt s n k then 1000 * s <= k * n else k * n <= 1000 * s.
Proof.
  intros Hs Hn Hk.
  assert (W : sweep_one s n (ratio s n) (k, b64_of_tenths k) = true).
  { apply (sweep_with_spec thresholds ngrid sweep_true n s (k, b64_of_tenths k)).
    - apply in_ngrid; exact Hn.
    - apply in_sgrid; exact Hs.
    - apply in_thresholds; exact Hk. }
  rewrite ratio_lt_eq. unfold sweep_one in W.
  change (snd (k, b64_of_tenths k)) with (b64_of_tenths k) in W.
  change (fst (k, b64_of_tenths k)) with k in W.
  destruct (b64_ltb (ratio s n) (b64_of_tenths k)); apply Z.leb_le; exact W.
Qed.

(* accepted => at least the threshold, exactly (no rounding slack in the accepting direction) *)
Lemma ratio_accept_exact s n k : 0 <= s <= n -> 1 <= n <= max_n -> 510 <= k <= 1000 ->
  ratio_lt s n k = false -> k * n <= 1000 * s.
Proof. intros Hs Hn Hk H. pose proof (ratio_sweep s n k Hs Hn Hk) as R. rewrite H in R. exact R. Qed.

(* rejected => at most the threshold: the float test can wrongly reject only when s/n*100 = k/10 exactly *)
Lemma ratio_reject_tight s n k : 0 <= s <= n -> 1 <= n <= max_n -> 510 <= k <= 1000 ->
  ratio_lt s n k = true -> 1000 * s <= k * n.
Proof. intros Hs Hn Hk H. pose proof (ratio_sweep s n k Hs Hn Hk) as R. rewrite H in R. exact R. Qed.

(* ---------------------------------------------------------------- counted signs vs distinct members *)
Definition signed_by (signs : list sign) (m : node) : bool :=
  existsb (fun s => N.eqb (fst s) (n_addr m) && N.eqb (snd s) (n_key m)) signs.
(* the current members that signed with their registered key *)
Definition signers (suf : list node) (signs : list sign) : list node := filter (signed_by signs) suf.

Lemma filter_len_le {A} (p : A -> bool) l : (length (filter p l) <= length l)%nat.
Proof. induction l as [|a r IH]; simpl; [lia|]. destruct (p a); simpl; lia. Qed.

Lemma count_le_length suf signs : 0 <= count_signs suf signs <= Z.of_nat (length signs).
Proof. unfold count_signs. pose proof (filter_len_le (exists_pub suf) signs). lia. Qed.

Definition sign_node (s : sign) : N := fst s.

Lemma count_le_signers suf signs : NoDup (map fst signs) ->
  count_signs suf signs <= Z.of_nat (length (signers suf signs)).
Proof.
  intros ND. unfold count_signs. apply (proj1 (Nat2Z.inj_le _ _)).
  change (map fst signs) with (map sign_node signs) in ND.
  rewrite <- (map_length sign_node (filter (exists_pub suf) signs)).
  rewrite <- (map_length n_addr (signers suf signs)).
  apply NoDup_incl_length.
  - clear -ND. induction signs as [|a r IH]; simpl; [constructor|].
    simpl in ND. inversion ND as [|? ? Nin ND']; subst.
    destruct (exists_pub suf a); simpl; [constructor|]; auto.
    intro H. apply Nin. apply in_map_iff in H. destruct H as [b [E Hb]]. apply filter_In in Hb.
    rewrite <- E. apply in_map. apply Hb.
  - intros a Ha. apply in_map_iff in Ha. destruct Ha as [s [<- Hs]]. apply filter_In in Hs.
    destruct Hs as [Hs Ex]. unfold exists_pub in Ex. unfold sign_node.
    destruct (find_node (fst s) suf) as [m|] eqn:F; [|discriminate].
    unfold find_node in F. apply find_some in F. destruct F as [Hm Em]. apply N.eqb_eq in Em.
    apply in_map_iff. exists m. split; [exact Em|]. apply filter_In. split; [exact Hm|].
    unfold signed_by. apply existsb_exists. exists s. split; [exact Hs|].
    rewrite Em, N.eqb_refl. simpl. rewrite N.eqb_sym. exact Ex.
Qed.

Lemma signers_le suf signs : (length (signers suf signs) <= length suf)%nat.
Proof. apply filter_len_le. Qed.

(* enough signs, in exact arithmetic, by distinct current members *)
Lemma check_signs_exact suf k signs : NoDup (map fst signs) ->
  1 <= Z.of_nat (length suf) <= max_n -> 510 <= k <= 1000 ->
  check_signs suf k signs = true ->
  k * Z.of_nat (length suf) <= 1000 * Z.of_nat (length (signers suf signs)).
Proof.
  intros ND Hn Hk C. unfold check_signs in C. apply negb_true_iff in C.
  pose proof (count_le_signers suf signs ND) as L1.
  pose proof (signers_le suf signs) as L2.
  destruct (count_le_length suf signs) as [L0 _].
  assert (R : k * Z.of_nat (length suf) <= 1000 * count_signs suf signs).
  { apply ratio_accept_exact; auto. lia. }
  lia.
Qed.
