(* C17 -- lemmas, part 4: base.CheckFactSignsBySuffrage.  The float64 test against exact rationals
   (finite sweep by vm_compute, the bound is in the statement) and counted signs vs distinct members. *)
From Coq Require Import ZArith NArith List Bool Lia Permutation.
From Flocq Require Import IEEE754.BinarySingleNaN IEEE754.Binary IEEE754.Bits.
From MV Require Import C17.Model C17.Proofs.
Import ListNotations.
Open Scope Z_scope.

Definition ratio (s n : Z) : binary64 := b64_mult mode_NE (b64_div mode_NE (b64_of_Z s) (b64_of_Z n)) (b64_of_Z 100).
Definition b64_ltb (a b : binary64) : bool := match b64_compare a b with Some Lt => true | _ => false end.

Lemma ratio_lt_eq s n k : ratio_lt s n k = b64_ltb (ratio s n) (b64_of_tenths k).
Proof. reflexivity. Qed.

Definition max_n : Z := 100.
Definition kgrid : list Z := map (fun i => 510 + Z.of_nat i) (seq 0 491).
Definition ngrid : list Z := map (fun i => 1 + Z.of_nat i) (seq 0 (Z.to_nat max_n)).
Definition sgrid (n : Z) : list Z := map Z.of_nat (seq 0 (S (Z.to_nat n))).

(* for every suffrage size n <= 100, every count s <= n and every one-decimal threshold k/10 in
   [51.0, 100.0]: the float test rejects only when s/n*100 <= k/10 and accepts only when s/n*100 >= k/10 *)
Definition sweep : bool :=
  let ths := map (fun k => (k, b64_of_tenths k)) kgrid in
  forallb (fun n =>
    forallb (fun s =>
      let r := ratio s n in
      forallb (fun kt => if b64_ltb r (snd kt) then 1000 * s <=? fst kt * n else fst kt * n <=? 1000 * s) ths)
      (sgrid n))
    ngrid.

Lemma sweep_true : sweep = true.
Proof. vm_compute. reflexivity. Qed.

Lemma in_kgrid k : 510 <= k <= 1000 -> In k kgrid.
Proof. intros H. apply in_map_iff. exists (Z.to_nat (k - 510)). split; [lia|]. apply in_seq. lia. Qed.
Lemma in_ngrid n : 1 <= n <= max_n -> In n ngrid.
Proof. unfold max_n. intros H. apply in_map_iff. exists (Z.to_nat (n - 1)). split; [lia|]. apply in_seq. simpl. lia. Qed.
Lemma in_sgrid s n : 0 <= s <= n -> In s (sgrid n).
Proof. intros H. apply in_map_iff. exists (Z.to_nat s). split; [lia|]. apply in_seq. lia. Qed.

Lemma ratio_sweep s n k : 0 <= s <= n -> 1 <= n <= max_n -> 510 <= k <= 1000 ->
  if ratio_lt s n k then 1000 * s <= k * n else k * n <= 1000 * s.
Proof.
  intros Hs Hn Hk. pose proof sweep_true as W. unfold sweep in W.
  rewrite forallb_forall in W. specialize (W n (in_ngrid n Hn)).
  rewrite forallb_forall in W. specialize (W s (in_sgrid s n Hs)).
  cbv zeta in W. rewrite forallb_forall in W.
  specialize (W (k, b64_of_tenths k)). simpl in W. rewrite ratio_lt_eq.
  assert (I : In (k, b64_of_tenths k) (map (fun k => (k, b64_of_tenths k)) kgrid)).
  { apply in_map_iff. exists k. split; [reflexivity|apply in_kgrid; exact Hk]. }
  specialize (W I). destruct (b64_ltb (ratio s n) (b64_of_tenths k)); [apply Z.leb_le|apply Z.leb_le]; exact W.
Qed.

(* accepted => at least the threshold, exactly (no rounding slack in the accepting direction) *)
Lemma ratio_accept_exact s n k : 0 <= s <= n -> 1 <= n <= max_n -> 510 <= k <= 1000 ->
  ratio_lt s n k = false -> k * n <= 1000 * s.
Proof. intros Hs Hn Hk H. pose proof (ratio_sweep s n k Hs Hn Hk) as R. rewrite H in R. exact R. Qed.

(* rejected => at most the threshold: the float test can wrongly reject only when s/n*100 = k/10 exactly *)
Lemma ratio_reject_tight s n k : 0 <= s <= n -> 1 <= n <= max_n -> 510 <= k <= 1000 ->
  ratio_lt s n k = true -> 1000 * s <= k * n.
Proof. intros Hs Hn Hk H. pose proof (ratio_sweep s n k Hs Hn Hk) as R. rewrite H in R. exact R. Qed.

(* ---------------------------------------------------------------- counted signs vs distinct members *)
Definition signed_by (signs : list sign) (m : node) : bool :=
  existsb (fun s => N.eqb (fst s) (n_addr m) && N.eqb (snd s) (n_key m)) signs.
(* the current members that signed with their registered key *)
Definition signers (suf : list node) (signs : list sign) : list node := filter (signed_by signs) suf.

Lemma count_le_length suf signs : 0 <= count_signs suf signs <= Z.of_nat (length signs).
Proof. unfold count_signs. pose proof (filter_length_le (exists_pub suf) signs). lia. Qed.

Lemma count_le_signers suf signs : NoDup (map fst signs) ->
  count_signs suf signs <= Z.of_nat (length (signers suf signs)).
Proof.
  intros ND. unfold count_signs. apply inj_le.
  rewrite <- (map_length fst (filter (exists_pub suf) signs)).
  rewrite <- (map_length n_addr (signers suf signs)).
  apply NoDup_incl_length.
  - clear -ND. induction signs as [|a r IH]; simpl; [constructor|].
    simpl in ND. inversion ND as [|? ? Nin ND']; subst.
    destruct (exists_pub suf a); simpl; [constructor|]; auto.
    intro H. apply Nin. apply in_map_iff in H. destruct H as [b [E Hb]]. apply filter_In in Hb.
    rewrite <- E. apply in_map. apply Hb.
  - intros a Ha. apply in_map_iff in Ha. destruct Ha as [s [<- Hs]]. apply filter_In in Hs.
    destruct Hs as [Hs Ex]. unfold exists_pub in Ex.
    destruct (find_node (fst s) suf) as [m|] eqn:F; [|discriminate].
    unfold find_node in F. apply find_some in F. destruct F as [Hm Em]. apply N.eqb_eq in Em.
    apply in_map_iff. exists m. split; [exact Em|]. apply filter_In. split; [exact Hm|].
    unfold signed_by. apply existsb_exists. exists s. split; [exact Hs|].
    rewrite Em, N.eqb_refl. simpl. rewrite N.eqb_sym. exact Ex.
Qed.

Lemma signers_le suf signs : (length (signers suf signs) <= length suf)%nat.
Proof. apply filter_length_le. Qed.

(* enough signs, in exact arithmetic, by distinct current members *)
Lemma check_signs_exact suf k signs : NoDup (map fst signs) ->
  1 <= Z.of_nat (length suf) <= max_n -> 510 <= k <= 1000 ->
  check_signs suf k signs = true ->
  k * Z.of_nat (length suf) <= 1000 * Z.of_nat (length (signers suf signs)).
Proof.
  intros ND Hn Hk C. unfold check_signs in C. apply negb_true_iff in C.
  pose proof (count_le_signers suf signs ND) as L1.
  pose proof (signers_le suf signs) as L2.
  destruct (count_le_length suf signs) as [L0 _].
  assert (R : k * Z.of_nat (length suf) <= 1000 * count_signs suf signs).
  { apply ratio_accept_exact; auto. lia. }
  lia.
Qed.
