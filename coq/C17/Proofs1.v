(* C17 -- lemmas, part 1: which operations PreProcess accepts (by induction over the operation list,
   for an arbitrary starting processor state). *)
From Coq Require Import ZArith NArith List Bool Lia Permutation Sorted.
From MV Require Import C17.Model C17.Proofs.
Import ListNotations.

Lemma accepted_from_cons E st i o r :
  accepted_from E st i (o :: r) =
  if fst (step E st o) then (i, o) :: accepted_from E (snd (step E st o)) (S i) r
  else accepted_from E (snd (step E st o)) (S i) r.
Proof. simpl. destruct (step E st o) as [b st']. reflexivity. Qed.

Lemma flags_from_cons E st o r :
  flags_from E st (o :: r) = slot_of o (fst (step E st o)) :: flags_from E (snd (step E st o)) r.
Proof. simpl. destruct (step E st o) as [b st']. reflexivity. Qed.

Lemma accepted_in_ops E : forall ops st i0 i o, In (i, o) (accepted_from E st i0 ops) -> In o ops.
Proof.
  induction ops as [|a r IH]; intros st i0 i o H; [destruct H|].
  rewrite accepted_from_cons in H. destruct (fst (step E st a)).
  - destruct H as [H|H]; [inversion H; subst; left; reflexivity|right; eapply IH; eauto].
  - right; eapply IH; eauto.
Qed.

(* the index recorded with an accepted operation is its position in the list *)
Lemma accepted_index E : forall ops st i0 i o, In (i, o) (accepted_from E st i0 ops) ->
  (i0 <= i)%nat /\ nth_error ops (i - i0) = Some o.
Proof.
  induction ops as [|a r IH]; intros st i0 i o H; [destruct H|].
  rewrite accepted_from_cons in H.
  assert (T : In (i, o) (accepted_from E (snd (step E st a)) (S i0) r) -> (i0 <= i)%nat /\ nth_error (a :: r) (i - i0) = Some o).
  { intros H'. apply IH in H'. destruct H' as [L N]. split; [lia|].
    replace (i - i0)%nat with (S (i - S i0)) by lia. exact N. }
  destruct (fst (step E st a)); [|auto].
  destruct H as [H|H]; [|auto]. inversion H; subst. split; [lia|]. rewrite Nat.sub_diag. reflexivity.
Qed.

Lemma accepted_indices_increasing E : forall ops st i0,
  StronglySorted lt (map fst (accepted_from E st i0 ops)) /\
  Forall (fun i => i0 <= i)%nat (map fst (accepted_from E st i0 ops)).
Proof.
  induction ops as [|a r IH]; intros st i0; simpl; [split; constructor|].
  destruct (step E st a) as [b st'] eqn:St. destruct (IH st' (S i0)) as [SS F].
  assert (F' : Forall (fun i => (i0 <= i)%nat) (map fst (accepted_from E st' (S i0) r))).
  { eapply Forall_impl; [|exact F]. simpl. intros; lia. }
  destruct b; simpl; split; auto.
  - constructor; [exact SS|]. eapply Forall_impl; [|exact F]. simpl. intros; lia.
Qed.

(* ---------------------------------------------------------------- one "preprocessed" set at a time *)
Section Component.
  Variables (E : env) (tgt : op -> option N) (pre : pst -> list N).

  Definition targets (acc : list (nat * op)) : list N :=
    flat_map (fun io => match tgt (snd io) with Some x => [x] | None => [] end) acc.

  Hypothesis Hgrow : forall st o x, In x (pre st) -> In x (pre (snd (step E st o))).
  Hypothesis Hacc : forall st o x, tgt o = Some x -> fst (step E st o) = true ->
    ~ In x (pre st) /\ In x (pre (snd (step E st o))).

  Lemma targets_fresh : forall ops st i0 x, In x (targets (accepted_from E st i0 ops)) -> ~ In x (pre st).
  Proof.
    induction ops as [|a r IH]; intros st i0 x H; [destruct H|].
    rewrite accepted_from_cons in H.
    assert (T : In x (targets (accepted_from E (snd (step E st a)) (S i0) r)) -> ~ In x (pre st)).
    { intros H' Hin. eapply IH; [exact H'|]. apply Hgrow. exact Hin. }
    destruct (fst (step E st a)) eqn:F; [|auto].
    unfold targets in H. simpl in H. apply in_app_or in H. destruct H as [H|H]; [|auto].
    destruct (tgt a) as [y|] eqn:Ta; [|destruct H]. destruct H as [->|[]].
    apply (Hacc st a x Ta F).
  Qed.

  Lemma targets_nodup : forall ops st i0, NoDup (targets (accepted_from E st i0 ops)).
  Proof.
    induction ops as [|a r IH]; intros st i0; [constructor|].
    rewrite accepted_from_cons. destruct (fst (step E st a)) eqn:F; [|apply IH].
    unfold targets. simpl. fold (targets (accepted_from E (snd (step E st a)) (S i0) r)).
    destruct (tgt a) as [y|] eqn:Ta; simpl; [|apply IH].
    constructor; [|apply IH].
    intro H. apply targets_fresh in H. apply H. apply (Hacc st a y Ta F).
  Qed.

  Variable valid : op -> bool.
  Hypothesis Hrule : forall st o x, tgt o = Some x -> fst (step E st o) = negb (memN x (pre st)) && valid o.
  Hypothesis Hnew : forall st o x, In x (pre (snd (step E st o))) ->
    In x (pre st) \/ (tgt o = Some x /\ fst (step E st o) = true).

  Lemma targets_sound : forall ops st i0 i o x, In (i, o) (accepted_from E st i0 ops) -> tgt o = Some x ->
    valid o = true.
  Proof.
    induction ops as [|a r IH]; intros st i0 i o x H T; [destruct H|].
    rewrite accepted_from_cons in H. destruct (fst (step E st a)) eqn:F; [|eapply IH; eauto].
    destruct H as [H|H]; [|eapply IH; eauto]. inversion H; subst.
    rewrite (Hrule st o x T) in F. apply andb_true_iff in F. apply F.
  Qed.

  Lemma targets_complete : forall ops st i0 o x, In o ops -> tgt o = Some x -> valid o = true ->
    ~ In x (pre st) -> In x (targets (accepted_from E st i0 ops)).
  Proof.
    induction ops as [|a r IH]; intros st i0 o x H T V Nin; [destruct H|].
    rewrite accepted_from_cons.
    destruct H as [->|H].
    - rewrite (Hrule st o x T), V. apply memN_false in Nin. rewrite Nin. simpl.
      unfold targets. simpl. rewrite T. left. reflexivity.
    - destruct (in_dec N.eq_dec x (pre (snd (step E st a)))) as [Hin|Hnin].
      + apply Hnew in Hin. destruct Hin as [Hin|[Ta Fa]]; [contradiction|].
        rewrite Fa. unfold targets. simpl. rewrite Ta. left. reflexivity.
      + assert (R := IH (snd (step E st a)) (S i0) o x H T V Hnin).
        destruct (fst (step E st a)); [|exact R].
        unfold targets. simpl. apply in_or_app. right. exact R.
  Qed.
End Component.

(* ---------------------------------------------------------------- the five processors *)

Definition tgt_join (o : op) := match o with OJoin x _ _ => Some x | _ => None end.
Definition tgt_cand (o : op) := match o with OCandidate x _ => Some x | _ => None end.
Definition tgt_disj (o : op) := match o with ODisjoin x _ _ => Some x | _ => None end.
Definition tgt_expel (o : op) := match o with OExpel x _ _ => Some x | _ => None end.

Definition valid_join E (o : op) := match o with OJoin x s sg => join_valid E x s sg | _ => false end.
Definition valid_expel E (o : op) := match o with OExpel x s e => expel_valid E x s e | _ => false end.
Definition valid_disj E (o : op) := match o with ODisjoin x s sg => disjoin_valid E x s sg | _ => false end.

Ltac step_cases :=
  repeat match goal with
  | |- context [if ?b then _ else _] => destruct b eqn:?; simpl
  | |- context [match find_cand ?x ?l with _ => _ end] => destruct (find_cand x l) eqn:?; simpl
  end.

(* the candidates the processors see are unexpired *)
Lemma find_cand_live E x c : find_cand x (live_cands E) = Some c ->
  c_addr c = x /\ (e_h E <=? c_deadline c)%Z = true /\
  exists l, p_cands (e_prior E) = Some l /\ In c l.
Proof.
  unfold find_cand, live_cands. intros H. apply find_some in H. destruct H as [Hin Heq].
  apply N.eqb_eq in Heq. apply in_rev in Hin.
  destruct (p_cands (e_prior E)) as [l|]; [|destruct Hin].
  apply filter_In in Hin. destruct Hin as [Hin Hd]. repeat split; auto. exists l. auto.
Qed.

Lemma join_grow E st o x : In x (join_pre st) -> In x (join_pre (snd (step E st o))).
Proof. intros H. destruct o; simpl; step_cases; simpl; auto. Qed.
Lemma join_rule E st o x : tgt_join o = Some x ->
  fst (step E st o) = negb (memN x (join_pre st)) && valid_join E o.
Proof. destruct o; simpl; intros T; inversion T; subst. step_cases; reflexivity. Qed.
Lemma join_new E st o x : In x (join_pre (snd (step E st o))) ->
  In x (join_pre st) \/ (tgt_join o = Some x /\ fst (step E st o) = true).
Proof.
  destruct o; simpl; step_cases; simpl; auto.
  intros [->|H]; auto.
Qed.
Lemma join_acc E st o x : tgt_join o = Some x -> fst (step E st o) = true ->
  ~ In x (join_pre st) /\ In x (join_pre (snd (step E st o))).
Proof.
  destruct o; simpl; intros T; inversion T; subst. step_cases; simpl; try discriminate.
  intros _. split; [apply memN_false; assumption|left; reflexivity].
Qed.

Lemma expel_grow E st o x : In x (expel_pre st) -> In x (expel_pre (snd (step E st o))).
Proof. intros H. destruct o; simpl; step_cases; simpl; auto. Qed.
Lemma expel_rule E st o x : tgt_expel o = Some x ->
  fst (step E st o) = negb (memN x (expel_pre st)) && valid_expel E o.
Proof.
  destruct o; simpl; intros T; inversion T; subst. unfold expel_valid.
  step_cases; simpl; try reflexivity; rewrite ?andb_false_r; reflexivity.
Qed.
Lemma expel_new E st o x : In x (expel_pre (snd (step E st o))) ->
  In x (expel_pre st) \/ (tgt_expel o = Some x /\ fst (step E st o) = true).
Proof.
  destruct o; simpl; step_cases; simpl; auto.
  intros [->|H]; auto.
Qed.
Lemma expel_acc E st o x : tgt_expel o = Some x -> fst (step E st o) = true ->
  ~ In x (expel_pre st) /\ In x (expel_pre (snd (step E st o))).
Proof.
  destruct o; simpl; intros T; inversion T; subst. step_cases; simpl; try discriminate.
  intros _. split; [apply memN_false; assumption|left; reflexivity].
Qed.

Lemma cand_grow E st o x : In x (cand_pre st) -> In x (cand_pre (snd (step E st o))).
Proof. intros H. destruct o; simpl; step_cases; simpl; auto. Qed.
Lemma cand_acc E st o x : tgt_cand o = Some x -> fst (step E st o) = true ->
  ~ In x (cand_pre st) /\ In x (cand_pre (snd (step E st o))).
Proof.
  destruct o; simpl; intros T; inversion T; subst.
  destruct (memN x (cand_pre st)) eqn:M; simpl; [discriminate|].
  destruct (memN x (addrs (nodes_of E))) eqn:M2; simpl; [discriminate|].
  destruct (find_cand x (live_cands E)) as [c|] eqn:F; simpl.
  - apply find_cand_live in F. destruct F as [_ [D _]]. rewrite D. simpl. discriminate.
  - intros _. split; [apply memN_false; assumption|left; reflexivity].
Qed.

Lemma disj_grow E st o x : In x (disj_pre st) -> In x (disj_pre (snd (step E st o))).
Proof. intros H. destruct o; simpl; step_cases; simpl; auto. Qed.
Lemma disj_acc E st o x : tgt_disj o = Some x -> fst (step E st o) = true ->
  ~ In x (disj_pre st) /\ In x (disj_pre (snd (step E st o))).
Proof.
  destruct o; simpl; intros T; inversion T; subst. step_cases; simpl; try discriminate.
  intros _. split; [apply memN_false; assumption|left; reflexivity].
Qed.
Lemma disj_new E st o x : In x (disj_pre (snd (step E st o))) ->
  In x (disj_pre st) \/ (tgt_disj o = Some x /\ fst (step E st o) = true).
Proof.
  destruct o; simpl; step_cases; simpl; auto.
  intros [->|H]; auto.
Qed.
Lemma disj_rule E st o x : tgt_disj o = Some x ->
  fst (step E st o) = negb (memN x (disj_pre st)) && negb (memN x (expel_pre st)) && valid_disj E o.
Proof. destruct o; simpl; intros T; inversion T; subst. step_cases; reflexivity. Qed.

(* accepted disjoin operations are valid *)
Lemma disj_sound E : forall ops st i0 i x s sg, In (i, ODisjoin x s sg) (accepted_from E st i0 ops) ->
  disjoin_valid E x s sg = true.
Proof.
  induction ops as [|a r IH]; intros st i0 i x s sg H; [destruct H|].
  rewrite accepted_from_cons in H. destruct (fst (step E st a)) eqn:F; [|eapply IH; eauto].
  destruct H as [H|H]; [|eapply IH; eauto]. inversion H; subst.
  rewrite (disj_rule E st (ODisjoin x s sg) x eq_refl) in F. apply andb_true_iff in F. apply F.
Qed.

(* a valid disjoin in the list is accepted unless the node was already disjoined or expelled by an
   accepted operation *)
Lemma disj_complete E : forall ops st i0 x s sg, In (ODisjoin x s sg) ops -> disjoin_valid E x s sg = true ->
  ~ In x (disj_pre st) -> ~ In x (expel_pre st) ->
  In x (targets tgt_disj (accepted_from E st i0 ops)) \/ In x (targets tgt_expel (accepted_from E st i0 ops)).
Proof.
  induction ops as [|a r IH]; intros st i0 x s sg H V N1 N2; [destruct H|].
  rewrite accepted_from_cons. destruct H as [->|H].
  - rewrite (disj_rule E st (ODisjoin x s sg) x eq_refl). simpl. rewrite V.
    apply memN_false in N1. apply memN_false in N2. rewrite N1, N2. simpl.
    left. unfold targets. simpl. left. reflexivity.
  - destruct (in_dec N.eq_dec x (disj_pre (snd (step E st a)))) as [Hin|Hnin].
    { apply disj_new in Hin. destruct Hin as [Hin|[Ta Fa]]; [contradiction|].
      rewrite Fa. left. unfold targets. simpl. rewrite Ta. left. reflexivity. }
    destruct (in_dec N.eq_dec x (expel_pre (snd (step E st a)))) as [Hin2|Hnin2].
    { apply expel_new in Hin2. destruct Hin2 as [Hin2|[Ta Fa]]; [contradiction|].
      rewrite Fa. right. unfold targets. simpl. rewrite Ta. left. reflexivity. }
    destruct (IH (snd (step E st a)) (S i0) x s sg H V Hnin Hnin2) as [R|R];
      destruct (fst (step E st a)); auto.
    + left. unfold targets. simpl. apply in_or_app. right. exact R.
    + right. unfold targets. simpl. apply in_or_app. right. exact R.
Qed.

(* at most one network-policy operation is accepted *)
Definition is_policy (o : op) := match o with OPolicy _ _ => true | _ => false end.
Lemma pol_once E : forall ops st i0,
  (length (filter (fun io => is_policy (snd io)) (accepted_from E st i0 ops)) <= 1)%nat /\
  (pol_new st = true -> filter (fun io => is_policy (snd io)) (accepted_from E st i0 ops) = []).
Proof.
  induction ops as [|a r IH]; intros st i0; [simpl; split; auto|].
  rewrite accepted_from_cons.
  assert (G : pol_new st = true -> pol_new (snd (step E st a)) = true).
  { intros P. destruct a; simpl; step_cases; simpl; auto; congruence. }
  assert (G2 : pol_new st = true -> is_policy a = true -> fst (step E st a) = false).
  { intros P I. destruct a; try discriminate. simpl. rewrite P. reflexivity. }
  assert (G3 : is_policy a = true -> fst (step E st a) = true -> pol_new (snd (step E st a)) = true).
  { intros I. destruct a; try discriminate. simpl. step_cases; simpl; auto; discriminate. }
  destruct (IH (snd (step E st a)) (S i0)) as [L Z].
  destruct (fst (step E st a)) eqn:F; simpl.
  - destruct (is_policy a) eqn:I; simpl.
    + rewrite (Z (G3 eq_refl eq_refl)). simpl. split; [lia|]. intros P. specialize (G2 P eq_refl). discriminate.
    + split; [exact L|]. intros P. apply Z. auto.
  - split; [exact L|]. intros P. apply Z. auto.
Qed.
