(* C20 -- Reopening storage returns exactly what was stored.  Property theorems only.

   Model: C19.Model + C20.Model.reopen (close, then NewLeveldbPermanent + NewCenter rebuilt from the
   key-value storage by the transcribed load functions).  Histories are any lists of Write / MergePerm /
   RemoveBlocks / CleanRemoved / Reopen steps (Reopen at any quiescent point, any number of times) in
   which every written block is well-formed for the chain it is put on (write_ok: ordinary state keys
   differ from the two reserved ones, the first block of a chain has height 0, suffrage heights grow). *)
From Coq Require Import ZArith NArith List Bool Lia.
From MV Require Import C19.Model C19.Proofs C19.Refine C20.Model C20.Proofs.
Import ListNotations.
Open Scope Z_scope.

(* reopen succeeds and rebuilds EXACTLY the in-memory state: the permanent database (storage, last block
   map with its bytes, last suffrage proof with meta AND body, network policy) and the list of temps
   (each with block map, suffrage state, proof, policy, in-state operations); only the list of removed,
   not yet cleaned temps is forgotten (no read looks at it). *)
Theorem C20_reopen_id : forall ops, valid20 center_init ops ->
  let c := run20 ops in reopen c = Some (mkCenter (c_perm c) (c_temps c) []).
Proof. intros ops H. apply reopen_id. apply Inv20_run. exact H. Qed.

(* hence every read -- objects and *Bytes triples (object, meta present, body present), every key,
   height and suffrage height -- answers the same after the reopen as before *)
Theorem C20_reopen_reads : forall ops, valid20 center_init ops ->
  exists c', reopen (run20 ops) = Some c' /\ forall r, eval_read c' r = eval_read (run20 ops) r.
Proof. intros ops H. apply reopen_reads. apply Inv20_run. exact H. Qed.

(* reopening does not change the committed chain, and with reopen steps anywhere in the history every
   read still agrees with the committed chain (C19's refinement extends to histories with reopen) *)
Theorem C20_reopen_keeps_chain : forall ops, valid20 center_init ops ->
  abs (fst (step20 (run20 ops) Reopen)) = abs (run20 ops).
Proof. intros ops H. apply reopen_abs. apply Inv20_run. exact H. Qed.

Theorem C20_reads_refine : forall ops, valid20 center_init ops ->
  forall r, eval_read (run20 ops) r = spec_read (abs (run20 ops)) r.
Proof. intros ops H r. apply read_refines. apply Inv20_Inv. apply Inv20_run. exact H. Qed.

(* ------------------------------------------------------------------ non-vacuity *)

Definition ex_b0 : block := mkBlock 0 10 [(2%N, 20%N)] (Some (0, 30%N, 40%N)) (Some (31%N, 50%N)) [1%N] [2%N].
Definition ex_b1 : block := mkBlock 1 11 [(2%N, 21%N); (3%N, 22%N)] None None [] [3%N].
Definition ex_b2 : block := mkBlock 2 12 [(3%N, 23%N)] (Some (1, 32%N, 41%N)) None [4%N] [].
Definition ex_ops : list op20 :=
  [Base (Write ex_b0); Reopen; Base (Write ex_b1); Base MergePerm; Reopen; Base (Write ex_b2); Base MergePerm;
   Base MergePerm; Base (CleanRemoved 0); Reopen].

Ltac wok :=
  split; [repeat constructor; simpl; lia|];
  split; [simpl; lia|];
  split; [intros H; try discriminate H; try reflexivity|];
  intros p b' p' Hp Hin Hp'; simpl in Hin;
  repeat (destruct Hin as [<-|Hin];
          [vm_compute in Hp, Hp'; try discriminate; inversion Hp; inversion Hp'; subst; simpl; lia|]);
  try contradiction.

Example C20_example_valid : valid20 center_init ex_ops.
Proof.
  unfold ex_ops. cbn [valid20].
  repeat match goal with
         | |- write_ok _ _ => vm_compute (abs _); wok
         | |- True => exact I
         | |- _ /\ _ => split
         end.
Qed.

(* after the last reopen the last suffrage proof (id 41, merged into the permanent store) is served with
   meta and body: 4*41 + 2 + 1 *)
Example C20_example_reads :
  map (eval_read (run20 ex_ops)) [RLastSufB; RSufB 1; RSufB 0; RLastMapB; RPolicy; RState 3] = [167; 167; 163; 51; 50; 23].
Proof. vm_compute. reflexivity. Qed.
