(* C20 -- lemmas: under the invariant, reopen rebuilds exactly the permanent database and the temps. *)
From Coq Require Import ZArith NArith List Bool Lia ZifyBool ZifyNat.
From MV Require Import C19.Model C19.Proofs C19.Refine C19.Conc C20.Model.
Import ListNotations.
Open Scope Z_scope.

(* ------------------------------------------------------------------ well-formed blocks and chains *)

(* ordinary states use keys >= 2 (0 and 1 are the suffrage and network policy state keys) *)
Definition wf_block (b : block) : Prop := Forall (fun e => (2 <= fst e)%N) (b_states b).

(* suffrage heights grow with the chain (strictly decrease going down) *)
Fixpoint suf_sorted (ch : list block) : Prop :=
  match ch with
  | [] => True
  | b :: r => (forall p b' p', block_proof b = Some p -> In b' r -> block_proof b' = Some p' -> pf_sh p' < pf_sh p) /\ suf_sorted r
  end.

Definition chain_ok (ch : list block) : Prop :=
  consec ch /\ Forall wf_block ch /\ suf_sorted ch /\ (forall d, ch <> [] -> b_h (last ch d) = 0).

Lemma suf_sorted_app_r : forall l1 l2, suf_sorted (l1 ++ l2) -> suf_sorted l2.
Proof. induction l1; intros l2 H; [exact H|]. apply IHl1. simpl in H. tauto. Qed.

Lemma last_app_r : forall A (l1 l2 : list A) d, l2 <> [] -> last (l1 ++ l2) d = last l2 d.
Proof.
  induction l1 as [|a l1 IH]; intros l2 d H; [reflexivity|].
  simpl. destruct (l1 ++ l2) eqn:E; [apply app_eq_nil in E; tauto|]. rewrite <- E. apply IH. exact H.
Qed.

Lemma chain_ok_app_r : forall l1 l2, chain_ok (l1 ++ l2) -> chain_ok l2.
Proof.
  intros l1 l2 (H1 & H2 & H3 & H4). repeat split.
  - eapply consec_app_r; eauto.
  - apply Forall_app in H2. tauto.
  - eapply suf_sorted_app_r; eauto.
  - intros d Hne. rewrite <- (last_app_r _ l1 l2 d Hne). apply H4. intros E. apply app_eq_nil in E. tauto.
Qed.

(* what a written block must satisfy, given the committed chain *)
Definition write_ok (ch : list block) (b : block) : Prop :=
  wf_block b /\ 0 <= b_h b /\ (ch = [] -> b_h b = 0) /\
  (forall p b' p', block_proof b = Some p -> In b' ch -> block_proof b' = Some p' -> pf_sh p' < pf_sh p).

Lemma chain_ok_cons : forall ch b, chain_ok ch -> write_ok ch b ->
  (ch = [] \/ exists b0 r, ch = b0 :: r /\ b_h b = b_h b0 + 1) -> chain_ok (b :: ch).
Proof.
  intros ch b (H1 & H2 & H3 & H4) (W1 & W2 & W3 & W4) Hacc. repeat split.
  - exact W2.
  - destruct ch as [|b0 r]; [exact I|]. destruct Hacc as [E|(b0' & r' & E & Hh)]; [discriminate|]. inversion E; subst. exact Hh.
  - exact H1.
  - constructor; assumption.
  - exact W4.
  - exact H3.
  - intros d _. destruct ch as [|b0 r]; [simpl; auto|].
    change (last (b :: b0 :: r) d) with (last (b0 :: r) d). apply H4. discriminate.
Qed.

(* ------------------------------------------------------------------ loading one block's storage *)

Lemma lookup_plain_none : forall (l : list (N * N)) h k, Forall (fun e => (2 <= fst e)%N) l -> (k < 2)%N ->
  lookupN k (map (fun e => (fst e, mkStatev (snd e) h SPlain)) l) = None.
Proof.
  induction l as [|[k' i] l IH]; intros h k Hf Hk; [reflexivity|].
  inversion Hf; subst. simpl in *. replace (N.eqb k k') with false by lia. apply IH; assumption.
Qed.

Lemma lookup_block_suf : forall b, wf_block b ->
  lookupN key_suf (block_states b) =
  match b_suf b with Some (sh, sid, _) => Some (mkStatev sid (b_h b) (SSuf sh)) | None => None end.
Proof.
  intros b Hw. unfold block_states. destruct (b_suf b) as [[[sh sid] pid]|]; [reflexivity|].
  rewrite app_nil_l, lookupN_app.
  destruct (b_pol b) as [[sid p]|]; simpl; apply lookup_plain_none; auto; reflexivity.
Qed.

Lemma lookup_block_pol : forall b, wf_block b ->
  lookupN key_pol (block_states b) =
  match b_pol b with Some (sid, p) => Some (mkStatev sid (b_h b) (SPol p)) | None => None end.
Proof.
  intros b Hw. unfold block_states. rewrite !lookupN_app.
  assert (E : lookupN key_pol (match b_suf b with Some (sh, sid, _) => [(key_suf, mkStatev sid (b_h b) (SSuf sh))] | None => [] end) = None)
    by (destruct (b_suf b) as [[[sh sid] pid]|]; reflexivity).
  rewrite E. destruct (b_pol b) as [[sid p]|]; [reflexivity|]. simpl. apply lookup_plain_none; auto; reflexivity.
Qed.

Lemma temp_load_block : forall b, wf_block b -> temp_load (store_of_block b) = Some (temp_of_block b).
Proof.
  intros b Hw. unfold temp_load, load_sufst, load_policy. cbn [store_of_block s_maps s_states s_proofs s_instate amax].
  rewrite (lookup_block_suf b Hw), (lookup_block_pol b Hw).
  unfold temp_of_block, block_proof, block_policy.
  destruct (b_suf b) as [[[sh sid] pid]|]; destruct (b_pol b) as [[sid' p]|]; reflexivity.
Qed.

(* ------------------------------------------------------------------ loading the permanent store *)

Lemma store_maps_keys : forall pc k v, In (k, v) (s_maps (store_of_chain pc)) -> exists x, In x pc /\ b_h x = k.
Proof.
  induction pc as [|b r IH]; intros k v H; [destruct H|].
  simpl in H. destruct H as [H|H].
  - inversion H; subst. exists b. split; [left|]; reflexivity.
  - destruct (IH _ _ H) as (x & Hx & Hk). exists x. split; [right|]; assumption.
Qed.

Lemma store_proofs_keys : forall pc k v, In (k, v) (s_proofs (store_of_chain pc)) ->
  exists x, In x pc /\ block_proof x = Some v /\ pf_sh v = k.
Proof.
  induction pc as [|b r IH]; intros k v H; [destruct H|].
  simpl in H. apply in_app_or in H. destruct H as [H|H].
  - destruct (block_proof b) eqn:E; [|destruct H]. destruct H as [H|[]]. inversion H; subst.
    exists b. split; [left; reflexivity|]. split; [exact E|reflexivity].
  - destruct (IH _ _ H) as (x & Hx & Hk). exists x. split; [right|]; assumption.
Qed.

Lemma amax_maps_chain : forall pc, consec pc ->
  amax (s_maps (store_of_chain pc)) = match pc with b :: _ => Some (b_h b, block_map b) | [] => None end.
Proof.
  intros [|b r] Hc; [reflexivity|].
  change (s_maps (store_of_chain (b :: r))) with ((b_h b, block_map b) :: s_maps (store_of_chain r)).
  apply amax_cons_top. intros k' v' Hin. destruct (store_maps_keys _ _ _ Hin) as (x & Hx & <-).
  eapply consec_lt; eauto.
Qed.

Lemma amax_proofs_chain : forall pc, suf_sorted pc ->
  option_map snd (amax (s_proofs (store_of_chain pc))) = spec_lastsuf pc.
Proof.
  induction pc as [|b r IH]; intros Hs; [reflexivity|].
  simpl in Hs. destruct Hs as (Hb & Hr).
  change (s_proofs (store_of_chain (b :: r))) with
    ((match block_proof b with Some p => [(pf_sh p, p)] | None => [] end) ++ s_proofs (store_of_chain r)).
  simpl spec_lastsuf. destruct (block_proof b) as [p|] eqn:E.
  - cbn [app]. rewrite amax_cons_top; [reflexivity|].
    intros k' v' Hin. destruct (store_proofs_keys _ _ _ Hin) as (x & Hx & Hp & <-).
    eapply Hb; eauto.
  - cbn [app]. apply IH. exact Hr.
Qed.

Lemma spec_state_pol : forall pc, Forall wf_block pc ->
  match spec_state pc key_pol with
  | Some st => exists p, st_kind st = SPol p /\ spec_policy pc = Some p
  | None => spec_policy pc = None
  end.
Proof.
  induction pc as [|b r IH]; intros Hf; [reflexivity|].
  inversion Hf; subst. simpl. rewrite (lookup_block_pol b H1). unfold block_policy.
  destruct (b_pol b) as [[sid p]|]; [exists p; split; reflexivity|]. apply IH. assumption.
Qed.

Lemma perm_load_chain : forall pc, consec pc -> Forall wf_block pc -> suf_sorted pc ->
  perm_load (store_of_chain pc) = Some (perm_of_chain pc).
Proof.
  intros pc Hc Hf Hs. rewrite perm_of_chain_closed by exact Hc.
  unfold perm_load, load_policy. rewrite store_states_chain.
  pose proof (spec_state_pol pc Hf) as Hp.
  assert (Hm : option_map (fun e : Z * mapv => full (snd e)) (amax (s_maps (store_of_chain pc))) =
               match pc with b :: _ => Some (full (block_map b)) | [] => None end)
    by (rewrite amax_maps_chain by exact Hc; destruct pc; reflexivity).
  assert (Hpr : option_map (fun e : Z * proofv => full (snd e)) (amax (s_proofs (store_of_chain pc))) =
                option_map full (spec_lastsuf pc)).
  { rewrite <- (amax_proofs_chain pc Hs). destruct (amax (s_proofs (store_of_chain pc))) as [[k v]|]; reflexivity. }
  destruct (spec_state pc key_pol) as [st|].
  - destruct Hp as (p & -> & Hpol). unfold perm_closed. rewrite Hm, Hpr, Hpol. reflexivity.
  - unfold perm_closed. rewrite Hm, Hpr, Hp. reflexivity.
Qed.

(* ------------------------------------------------------------------ loading the temps *)

Definition disk_of (l : list block) : list (Z * store) := map (fun b => (b_h b, store_of_block b)) l.

Lemma load_temp_blocks : forall l h, Forall wf_block l ->
  load_temp (disk_of l) h = option_map temp_of_block (find (fun b => b_h b =? h) l).
Proof.
  induction l as [|b l IH]; intros h Hf; [reflexivity|].
  inversion Hf; subst. simpl. destruct (b_h b =? h) eqn:E; [|apply IH; assumption].
  rewrite (temp_load_block b H1). rewrite t_h_temp_of_block.
  unfold memZ. simpl. rewrite Z.eqb_refl. reflexivity.
Qed.

Lemma find_height_unique : forall l x, NoDup (map b_h l) -> In x l -> find (fun b => b_h b =? b_h x) l = Some x.
Proof.
  induction l as [|a l IH]; intros x Hnd Hin; [destruct Hin|].
  simpl in Hnd. inversion Hnd; subst. simpl. destruct Hin as [->|Hin].
  - rewrite Z.eqb_refl. reflexivity.
  - destruct (b_h a =? b_h x) eqn:E; [|apply IH; assumption].
    exfalso. apply H1. apply in_map_iff. exists x. split; [lia|exact Hin].
Qed.

(* in a consecutive chain with the block x at height h: the blocks at or above h = those above h, then x *)
Lemma filter_ge_split : forall tb x h, consec tb -> In x tb -> b_h x = h ->
  filter (fun b => h <=? b_h b) tb = filter (fun b => h + 1 <=? b_h b) tb ++ [x].
Proof.
  induction tb as [|a r IH]; intros x h Hc Hin Hh; [destruct Hin|].
  simpl. destruct Hin as [->|Hin].
  - replace (h <=? b_h x) with true by lia. replace (h + 1 <=? b_h x) with false by lia.
    rewrite !filter_all_false; [reflexivity| |].
    + intros y Hy. pose proof (consec_lt _ _ Hc y Hy). lia.
    + intros y Hy. pose proof (consec_lt _ _ Hc y Hy). lia.
  - pose proof (consec_lt _ _ Hc x Hin).
    replace (h <=? b_h a) with true by lia. replace (h + 1 <=? b_h a) with true by lia.
    simpl. f_equal. apply IH; [eapply consec_tail; eauto|assumption|assumption].
Qed.

(* loadTemps from height h (between the bottom of the temps and one above their top) returns the temps
   at or above h, ascending; rb are the other prefixes on disk (removed, not yet cleaned), all below h *)
Lemma load_temps_range : forall n tb rb fuel h b0,
  consec tb -> Forall wf_block (tb ++ rb) -> (forall b, In b rb -> b_h b < h) ->
  (tb <> [] -> b_h (last tb b0) <= h /\ h <= b_h (hd b0 tb) + 1) ->
  n = Z.to_nat (match tb with b :: _ => b_h b + 1 - h | [] => 0 end) -> (n < fuel)%nat ->
  load_temps fuel (disk_of (tb ++ rb)) h =
  Some (map temp_of_block (rev (filter (fun b => h <=? b_h b) tb))).
Proof.
  induction n as [|n IH]; intros tb rb fuel h b0 Hc Hf Hrb Hrange Hn Hfuel.
  - (* nothing at height h *)
    destruct fuel as [|fuel]; [lia|]. cbn [load_temps].
    rewrite load_temp_blocks by exact Hf.
    assert (Hnone : find (fun b => b_h b =? h) (tb ++ rb) = None).
    { rewrite find_app.
      assert (F1 : find (fun b => b_h b =? h) tb = None).
      { destruct tb as [|a r]; [reflexivity|]. destruct (Hrange ltac:(discriminate)) as (_ & Hhi). simpl in Hhi.
        apply find_none_above. intros x Hx. destruct Hx as [<-|Hx]; [lia|]. pose proof (consec_lt _ _ Hc x Hx). lia. }
      rewrite F1. clear F1. induction rb as [|a r IHr]; [reflexivity|]. simpl.
      pose proof (Hrb a (or_introl eq_refl)). replace (b_h a =? h) with false by lia.
      apply IHr.
      - apply Forall_app in Hf. destruct Hf as (Hf1 & Hf2). inversion Hf2; subst. apply Forall_app. split; assumption.
      - intros b Hb. apply Hrb. right. exact Hb. }
    rewrite Hnone. simpl.
    rewrite filter_all_false; [reflexivity|].
    intros x Hx. destruct tb as [|a r]; [destruct Hx|]. destruct (Hrange ltac:(discriminate)) as (_ & Hhi). simpl in Hhi.
    destruct Hx as [<-|Hx]; [lia|]. pose proof (consec_lt _ _ Hc x Hx). lia.
  - (* the temp at height h, then the rest from h + 1 *)
    destruct tb as [|a r]; [simpl in Hn; lia|].
    destruct (Hrange ltac:(discriminate)) as (Hlo & Hhi). simpl hd in Hhi.
    assert (Hfind : find (fun b => b_h b =? h) (a :: r) <> None).
    { apply (consec_find_range (a :: r) b0 h Hc); [discriminate|exact Hlo|simpl; lia]. }
    destruct (find (fun b => b_h b =? h) (a :: r)) as [x|] eqn:Ex; [|congruence]. clear Hfind.
    destruct (find_some _ _ _ _ Ex) as (Hin & Hh).
    destruct fuel as [|fuel]; [lia|]. cbn [load_temps].
    rewrite load_temp_blocks by exact Hf. rewrite find_app, Ex. cbn [option_map]. rewrite t_h_temp_of_block.
    replace (b_h x) with h by lia.
    rewrite (IH (a :: r) rb fuel (h + 1) b0); try assumption.
    + rewrite (filter_ge_split (a :: r) x h Hc Hin ltac:(lia)). rewrite rev_app_distr. reflexivity.
    + intros b Hb. specialize (Hrb b Hb). lia.
    + intros _. split; [lia|simpl; lia].
    + lia.
    + lia.
Qed.

(* ------------------------------------------------------------------ invariant and reopen *)

Definition Inv20 (c : center) : Prop :=
  exists tb pc rb,
    c_temps c = map temp_of_block tb /\ c_perm c = perm_of_chain pc /\ chain_ok (tb ++ pc) /\
    c_removed c = map temp_of_block rb /\ incl rb pc.

Lemma Inv20_Inv : forall c, Inv20 c -> Inv c.
Proof. intros c (tb & pc & rb & Ht & Hp & (Hc & _) & _). exists tb, pc. auto. Qed.

Lemma disk_blocks : forall c tb rb, c_temps c = map temp_of_block tb -> c_removed c = map temp_of_block rb ->
  disk c = disk_of (tb ++ rb).
Proof. intros c tb rb Ht Hr. unfold disk, disk_of. rewrite Ht, Hr, <- map_app, map_map. reflexivity. Qed.

Lemma reopen_id : forall c, Inv20 c -> reopen c = Some (mkCenter (c_perm c) (c_temps c) []).
Proof.
  intros c (tb & pc & rb & Ht & Hp & (Hc & Hf & Hs & Hg) & Hr & Hincl).
  pose proof (consec_app_l _ _ Hc) as Hct. pose proof (consec_app_r _ _ Hc) as Hcp.
  assert (Hfp : Forall wf_block pc) by (apply Forall_app in Hf; tauto).
  assert (Hft : Forall wf_block tb) by (apply Forall_app in Hf; tauto).
  unfold reopen. rewrite (disk_blocks c tb rb Ht Hr). rewrite Hp.
  replace (p_store (perm_of_chain pc)) with (store_of_chain pc) by (rewrite perm_of_chain_closed by exact Hcp; reflexivity).
  rewrite (perm_load_chain pc Hcp Hfp (suf_sorted_app_r _ _ Hs)).
  rewrite perm_of_chain_closed by exact Hcp. cbn [p_mp perm_closed].
  set (h0 := (let last := match match pc with b :: _ => Some (full (block_map b)) | [] => None end with
                          | Some lm => m_h (fv lm) | None => -1 end in
              if last >=? 0 then last else -1) + 1).
  assert (Hh0 : h0 = match pc with b :: _ => b_h b + 1 | [] => 0 end).
  { unfold h0. destruct pc as [|b r]; [reflexivity|]. unfold fv, full, block_map. cbn [fst m_h].
    pose proof (consec_nonneg _ Hcp b (or_introl eq_refl)). replace (b_h b >=? 0) with true by lia. reflexivity. }
  assert (Hbelow : forall b, In b rb -> b_h b < h0).
  { intros b Hb. apply Hincl in Hb. rewrite Hh0. destruct pc as [|p0 r]; [destruct Hb|].
    destruct Hb as [<-|Hb]; [lia|]. pose proof (consec_lt _ _ Hcp b Hb). lia. }
  assert (Hfr : Forall wf_block (tb ++ rb)).
  { apply Forall_app. split; [exact Hft|]. apply Forall_forall. intros b Hb. apply Hincl in Hb.
    rewrite Forall_forall in Hfp. apply Hfp. exact Hb. }
  assert (Hbot : tb <> [] -> b_h (last tb (mkBlock 0 0 [] None None [] [])) = h0).
  { intros Hne. rewrite Hh0. destruct pc as [|p0 r].
    - rewrite app_nil_r in Hg. apply Hg. exact Hne.
    - apply (consec_last_hd tb _ p0 r Hne Hc). }
  rewrite (load_temps_range (length tb) tb rb (S (length (disk_of (tb ++ rb)))) h0 (mkBlock 0 0 [] None None [] []) Hct Hfr Hbelow).
  - rewrite filter_all_true.
    + rewrite map_rev, rev_involutive, <- Ht. reflexivity.
    + intros x Hx. destruct tb as [|a r]; [destruct Hx|].
      pose proof (consec_ge_last (a :: r) (mkBlock 0 0 [] None None [] []) Hct x Hx). rewrite Hbot in H by discriminate. lia.
  - intros Hne. rewrite (Hbot Hne). split; [lia|].
    destruct tb as [|a r]; [congruence|]. simpl hd.
    pose proof (consec_ge_last (a :: r) (mkBlock 0 0 [] None None [] []) Hct a (or_introl eq_refl)).
    rewrite Hbot in H by discriminate. lia.
  - destruct tb as [|a r]; [reflexivity|].
    pose proof (consec_top_bottom a r (mkBlock 0 0 [] None None [] []) Hct). rewrite Hbot in H by discriminate.
    simpl length. lia.
  - unfold disk_of. rewrite map_length, app_length. lia.
Qed.

(* ------------------------------------------------------------------ preservation *)

Fixpoint valid20 (c : center) (ops : list op20) : Prop :=
  match ops with
  | [] => True
  | o :: r =>
      (match o with Base (Write b) => write_ok (abs c) b | _ => True end) /\ valid20 (fst (step20 c o)) r
  end.

Lemma incl_skipn : forall A n (l m : list A), incl l m -> incl (skipn n l) m.
Proof.
  intros A n l m H x Hx. apply H. rewrite <- (firstn_skipn n l). apply in_or_app. right. exact Hx.
Qed.

Lemma Inv20_step : forall c o, Inv20 c ->
  (match o with Base (Write b) => write_ok (abs c) b | _ => True end) -> Inv20 (fst (step20 c o)).
Proof.
  intros c o HI Hpre.
  pose proof (Inv20_Inv c HI) as HI19.
  destruct HI as (tb & pc & rb & Ht & Hp & Hok & Hr & Hincl).
  pose proof Hok as (Hc & _).
  assert (Habs := Inv_abs _ _ _ Ht Hp).
  destruct o as [[b| |h|n]|]; cbn [step20 step].
  - (* Write *)
    destruct (abs_write c b HI19) as (Hiff & _).
    unfold step_write in *.
    destruct ((pre_height c >? -1) && negb (b_h b =? pre_height c + 1)); cbn [fst snd] in *.
    + exists tb, pc, rb. auto.
    + exists (b :: tb), pc, rb. cbn [c_temps c_perm c_removed]. rewrite Ht.
      split; [reflexivity|]. split; [exact Hp|]. split; [|split; assumption].
      change ((b :: tb) ++ pc) with (b :: (tb ++ pc)). rewrite <- Habs.
      apply chain_ok_cons; [rewrite Habs; exact Hok|exact Hpre|]. apply Hiff. reflexivity.
  - (* MergePerm *)
    destruct (step_merge_cases c tb pc Ht Hp Hc) as [(-> & _)|(tb' & x & E & Hne & ->)].
    + exists tb, pc, rb. auto.
    + exists tb', (x :: pc), (rb ++ [x]). cbn [c_temps c_perm c_removed].
      split; [reflexivity|]. split; [reflexivity|]. split.
      * rewrite E, <- app_assoc in Hok. exact Hok.
      * split; [rewrite Hr, map_app; reflexivity|].
        intros y Hy. apply in_app_or in Hy. destruct Hy as [Hy|[<-|[]]]; [right; apply Hincl; exact Hy|left; reflexivity].
  - (* RemoveBlocks *)
    assert (Hsame : Inv20 c) by (exists tb, pc, rb; auto).
    unfold step_remove. rewrite Ht.
    destruct (map temp_of_block tb) as [|t0 tl] eqn:E; [exact Hsame|].
    destruct (h >? t_h t0); [exact Hsame|].
    destruct (index_of_height h (t0 :: tl)) as [i|]; [|exact Hsame].
    cbn [fst]. exists (skipn (S i) tb), pc, rb. cbn [c_temps c_perm c_removed].
    split; [rewrite <- E, skipn_map; reflexivity|]. split; [exact Hp|]. split; [|split; assumption].
    rewrite <- (firstn_skipn (S i) tb), <- app_assoc in Hok. eapply chain_ok_app_r. exact Hok.
  - (* CleanRemoved *)
    assert (Hsame : Inv20 c) by (exists tb, pc, rb; auto).
    unfold step_clean. destruct (Nat.leb (length (c_removed c)) n); cbn [fst]; [exact Hsame|].
    exists tb, pc, (skipn (length (c_removed c) - n) rb). cbn [c_temps c_perm c_removed].
    split; [exact Ht|]. split; [exact Hp|]. split; [exact Hok|].
    split; [rewrite Hr, skipn_map; reflexivity|apply incl_skipn; exact Hincl].
  - (* Reopen *)
    rewrite (reopen_id c) by (exists tb, pc, rb; auto). cbn [fst].
    exists tb, pc, []. cbn [c_temps c_perm c_removed].
    split; [exact Ht|]. split; [exact Hp|]. split; [exact Hok|]. split; [reflexivity|intros x []].
Qed.

Lemma Inv20_init : Inv20 center_init.
Proof.
  exists [], [], []. split; [reflexivity|]. split; [reflexivity|]. split.
  - split; [exact I|]. split; [constructor|]. split; [exact I|]. intros d H. exfalso. apply H. reflexivity.
  - split; [reflexivity|intros x []].
Qed.

Lemma Inv20_run_from : forall ops c, Inv20 c -> valid20 c ops -> Inv20 (run20_from c ops).
Proof.
  induction ops as [|o ops IH]; intros c HI Hv; [exact HI|].
  destruct Hv as (Hpre & Hv). unfold run20_from. simpl. apply IH; [apply Inv20_step; assumption|exact Hv].
Qed.

Lemma Inv20_run : forall ops, valid20 center_init ops -> Inv20 (run20 ops).
Proof. intros. apply Inv20_run_from; [apply Inv20_init|assumption]. Qed.

Lemma reopen_reads : forall c, Inv20 c ->
  exists c', reopen c = Some c' /\ forall r, eval_read c' r = eval_read c r.
Proof.
  intros c HI. exists (mkCenter (c_perm c) (c_temps c) []). split; [apply reopen_id; exact HI|].
  intros r. destruct r; reflexivity.
Qed.

Lemma reopen_abs : forall c, Inv20 c -> abs (fst (step20 c Reopen)) = abs c.
Proof. intros c HI. cbn [step20]. rewrite (reopen_id c HI). reflexivity. Qed.
