(* C20 -- reopening storage returns exactly what was stored.  Executable model, no proofs.

   C19's model plus close/reopen: everything held in memory is dropped and rebuilt from the key-value
   storage by the transcribed load functions
     isaac/database/perm_leveldb.go  NewLeveldbPermanent: loadLastBlockMap, loadLastSuffrageProof
                                     (after the fix: meta and body), loadNetworkPolicy   = C19.Model.perm_load
     isaac/database/temp_leveldb.go  NewTempLeveldbFromPrefix: loadLastBlockMap, loadSuffrageState,
                                     loadSuffrageProof, loadNetworkPolicy, loadInStateOperations
     isaac/database/center.go        Center.load, loadTemps, loadTemp (merged marker, consecutive heights
                                     from the last permanent height + 1)

   What is on disk: the permanent prefix storage, and one prefix storage per temp that has not been
   removed from disk (active temps; removed-but-not-cleaned temps).  Prefix storages left by refused or
   aborted block writes carry no merged marker and are deleted by loadTemp; they are not modelled (the
   harness produces them; the correspondence checks that they do not matter). *)
From Coq Require Import ZArith NArith List Bool.
From MV Require Import Common.Cases C19.Model.
Import ListNotations.
Open Scope Z_scope.

Definition memZ (x : Z) (l : list Z) : bool := existsb (Z.eqb x) l.

(* TempLeveldb.loadSuffrageState: None = error "not suffrage state" *)
Definition load_sufst (s : store) : option (option Z) :=
  match lookupN key_suf (s_states s) with
  | Some st => match st_kind st with SSuf sh => Some (Some sh) | _ => None end
  | None => Some None
  end.

(* NewTempLeveldbFromPrefix; None = error (the prefix is "useless" for loadTemp) *)
Definition temp_load (s : store) : option temp :=
  match amax (s_maps s) with
  | None => None                                  (* "last BlockMap not found" *)
  | Some (_, m) =>
      match load_sufst s, load_policy s with
      | Some su, Some pol =>
          Some (mkTemp s (full m) su (option_map (fun e => full (snd e)) (amax (s_proofs s))) pol (s_instate s))
      | _, _ => None
      end
  end.

(* the prefix storages under leveldbLabelBlockWrite: (height in the prefix, storage) *)
Definition disk (c : center) : list (Z * store) :=
  map (fun t => (t_h t, t_store t)) (c_temps c ++ c_removed c).

(* loadTemp(height): the first prefix of that height that loads and carries the merged marker *)
Fixpoint load_temp (d : list (Z * store)) (h : Z) : option temp :=
  match d with
  | [] => None
  | (h', s) :: r =>
      if h' =? h then
        match temp_load s with
        | Some t => if memZ (t_h t) (s_merged s) then Some t else load_temp r h
        | None => load_temp r h
        end
      else load_temp r h
  end.

(* loadTemps: heights last+1, last+2, ... while a temp is found (ascending).  None = out of fuel. *)
Fixpoint load_temps (fuel : nat) (d : list (Z * store)) (h : Z) : option (list temp) :=
  match fuel with
  | O => None
  | S f =>
      match load_temp d h with
      | None => Some []
      | Some t =>
          match load_temps f d (t_h t + 1) with
          | Some ts => Some (t :: ts)
          | None => None
          end
      end
  end.

(* close + NewLeveldbPermanent + NewCenter(load).  None = an error is returned. *)
Definition reopen (c : center) : option center :=
  match perm_load (p_store (c_perm c)) with
  | None => None
  | Some p =>
      let last := match p_mp p with Some lm => m_h (fv lm) | None => -1 end in
      let last := if last >=? 0 then last else -1 in
      match load_temps (S (length (disk c))) (disk c) (last + 1) with
      | None => None
      | Some ts => Some (mkCenter p (rev ts) [])   (* sorted by height, descending *)
      end
  end.

Inductive op20 := Base (o : op) | Reopen.

Definition step20 (c : center) (o : op20) : center * bool :=
  match o with
  | Base o => step c o
  | Reopen => match reopen c with Some c' => (c', true) | None => (c, false) end
  end.

Definition run20_from (c : center) (ops : list op20) : center := fold_left (fun c o => fst (step20 c o)) ops c.
Definition run20 (ops : list op20) : center := run20_from center_init ops.

(* ------------------------------------------------------------------ correspondence *)

Record case := mkCase { cs_cfg : cfg; cs_init : list Z; cs_steps : list (op20 * bool * list (Z * Z)) }.

Fixpoint check_steps (g : cfg) (c : center) (prev : list Z) (steps : list (op20 * bool * list (Z * Z))) : bool :=
  match steps with
  | [] => true
  | (o, ok, d) :: r =>
      let c' := fst (step20 c o) in
      let obs := patch prev d in
      Bool.eqb ok (snd (step20 c o)) &&
      list_eqb Z.eqb (map (eval_read c') (all_reads g)) obs &&
      check_steps g c' obs r
  end.

Definition check (cs : case) : bool :=
  list_eqb Z.eqb (map (eval_read center_init) (all_reads (cs_cfg cs))) (cs_init cs) &&
  check_steps (cs_cfg cs) center_init (cs_init cs) (cs_steps cs).
