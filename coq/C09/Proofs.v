(* C09 -- lemmas about the model of the States machine. *)
From Coq Require Import List Bool Arith Lia.
From MV Require Import C09.Model.
Import ListNotations.

Ltac inv H := inversion H; subst; clear H.
Ltac splits := repeat match goal with |- _ /\ _ => split end.

Lemma state_eqb_eq : forall a b, state_eqb a b = true <-> a = b.
Proof. intros a b; split; [destruct a, b; simpl; intro H; try discriminate; reflexivity | intros ->; destruct b; reflexivity]. Qed.

Lemma state_eqb_refl : forall a, state_eqb a a = true.
Proof. destruct a; reflexivity. Qed.

(* ------------------------------------------------------------------ the check *)

(* everything the properties need to know about a context that passed the check (finite case analysis) *)
Lemma check_pass : forall m c c', check_ctx m c = ChkPass c' ->
  edge (cur m) (cnext c') = true /\
  cfrom c = cur m /\
  (allowed m = false -> cur m <> Handover -> consensus_like (cnext c') = false) /\
  (cnext c' = cnext c \/ cnext c' = Handover \/ cnext c' = Syncing).
Proof.
  intros [cu al y] [f n] c'.
  destruct cu, n, f, al, y; vm_compute; intro H; try discriminate; inv H;
    (split; [reflexivity|split; [reflexivity|split; [intros; try reflexivity; try discriminate; try congruence|auto]]]).
Qed.

Lemma check_from_mismatch : forall m c, cfrom c <> cur m -> check_ctx m c = ChkIgnore \/ check_ctx m c = ChkErr.
Proof.
  intros [cu al y] [f n] H. simpl in H.
  destruct cu, n, f, al, y; vm_compute; auto; exfalso; apply H; reflexivity.
Qed.

(* ------------------------------------------------------------------ one locked region *)

Lemma exit_and_enter_cur : forall m c o m' r rep, exit_and_enter m c o = (m', r, rep) ->
  allowed m' = allowed m /\ yb m' = yb m /\
  (cur m' = cur m \/ cur m' = cnext c) /\
  (forall s, rep = Some s -> cur m' = s /\ s = cnext c /\ r = SNil) /\
  (rep = None -> r = SNil -> m' = m).
Proof.
  intros m c [x nw e] m' r rep H. unfold exit_and_enter in H. simpl in H.
  destruct x, nw, e, (state_eqb (cnext c) Broken); inv H; simpl;
    (split; [reflexivity|split; [reflexivity|split; [auto|split; [intros s E; try discriminate; inv E; auto|intros; try discriminate; auto]]]]).
Qed.

Lemma switch_state_facts : forall m c o m' r rep u, switch_state m c o = (m', r, rep, u) ->
  allowed m' = allowed m /\ yb m' = yb m /\
  (cur m' = cur m \/ edge (cur m) (cur m') = true) /\
  (cur m' <> cur m -> cfrom c = cur m) /\
  (cur m' <> cur m -> consensus_like (cur m') = true -> allowed m = true \/ cur m = Handover) /\
  (cur m' <> cur m -> cur m' = cnext c \/ cur m' = Handover \/ cur m' = Syncing) /\
  (forall s, rep = Some s -> cur m' = s).
Proof.
  intros m c o m' r rep u H. unfold switch_state in H.
  destruct (check_ctx m c) as [c'| |] eqn:C.
  - destruct (exit_and_enter m c' o) as [[m1 r1] rep1] eqn:E. inv H.
    apply check_pass in C. destruct C as (C1 & C2 & C3 & C4).
    apply exit_and_enter_cur in E. destruct E as (E1 & E2 & E3 & E4 & _).
    split; [exact E1|]. split; [exact E2|].
    split; [destruct E3 as [E3|E3]; [left; exact E3|right; rewrite E3; exact C1]|].
    split; [intros _; exact C2|].
    split.
    { intros NE CL. destruct E3 as [E3|E3]; [congruence|]. rewrite E3 in CL.
      destruct (allowed m) eqn:A; [left; reflexivity|right].
      destruct (state_eqb (cur m) Handover) eqn:Hh; [apply state_eqb_eq in Hh; exact Hh|].
      exfalso. assert (cur m <> Handover) as NH by (intro X; rewrite X in Hh; discriminate).
      rewrite (C3 eq_refl NH) in CL. discriminate. }
    split; [intros NE; destruct E3 as [E3|E3]; [congruence|rewrite E3; exact C4]|].
    intros s Es. destruct (E4 s Es) as (X & _). exact X.
  - inv H. splits; auto; try congruence; try (intros; congruence); try (intros s E; discriminate).
  - inv H. splits; auto; try congruence; try (intros; congruence); try (intros s E; discriminate).
Qed.

Lemma switch_from_mismatch : forall m c o, cfrom c <> cur m ->
  exists r, switch_state m c o = (m, r, None, false) /\ (r = SNil \/ r = SErr).
Proof.
  intros m c o H. unfold switch_state. destruct (check_from_mismatch m c H) as [E|E]; rewrite E; eauto.
Qed.

(* ensureSwitchState with a context whose origin is not the current state: no effect at all *)
Lemma ensure_from_mismatch : forall fuel m c n os reps, cfrom c <> cur m ->
  exists r, ensure fuel m c n os reps = (m, r, reps, os).
Proof.
  induction fuel as [|fuel IH]; intros m c n os reps H; simpl; [eauto|].
  destruct (Nat.ltb 3 n).
  - apply IH. simpl. exact H.
  - destruct (switch_from_mismatch m c (hd_outs os) H) as (r & E & [R|R]); rewrite E; subst r.
    + eauto.
    + destruct (state_eqb (cnext c) Broken); [eauto|]. apply IH. simpl. exact H.
Qed.

Lemma set_allow_cur : forall m b m' i nt, set_allow m b = (m', i, nt) -> cur m' = cur m.
Proof. intros m b m' i nt H. unfold set_allow in H. destruct (Bool.eqb (allowed m) b); inv H; reflexivity. Qed.

(* ------------------------------------------------------------------ all schedules *)

Definition good_event (e : cevent) : Prop :=
  match e with
  | CEntered a b al => edge a b = true /\ (consensus_like b = true -> al = true \/ a = Handover)
  | _ => True
  end.

Lemma astep_good : forall s a s' e, astep_run s a = (s', e) -> good_event e.
Proof.
  intros s a s' e H. destruct a as [c o|i|b|v]; simpl in H.
  - destruct (switch_state (cm s) c o) as [[[m' r] rep] u] eqn:S. inv H.
    apply switch_state_facts in S. destruct S as (_ & _ & S3 & _ & S5 & _).
    destruct (state_eqb (cur m') (cur (cm s))) eqn:Q; simpl; [exact I|].
    assert (cur m' <> cur (cm s)) as NE by (intro X; rewrite X, state_eqb_refl in Q; discriminate).
    split; [destruct S3; [congruence|assumption]|]. intros CL. apply S5; assumption.
  - destruct (nth_error (pending s) i); inv H; exact I.
  - destruct (set_allow (cm s) b) as [[m' x] y]. inv H. exact I.
  - inv H. exact I.
Qed.

Lemma arun_good : forall l s e, In e (arun s l) -> good_event e.
Proof.
  induction l as [|a l IH]; intros s e H; simpl in H; [destruct H|].
  destruct (astep_run s a) as [s' e0] eqn:A. destruct H as [H|H]; [subst; eapply astep_good; eauto|eapply IH; eauto].
Qed.

(* single switching thread: the pending report, if any, is the current state *)
Definition pinv (s : cstate) : Prop := pending s = [] \/ pending s = [cur (cm s)].

Lemma astep_pinv : forall s a s' e, astep_run s a = (s', e) -> pinv s ->
  (match a with ASwitch _ _ => pending s = [] | _ => True end) ->
  pinv s' /\ (forall x y, e = CReported x y -> x = y).
Proof.
  intros s a s' e H P W. destruct a as [c o|i|b|v]; simpl in H.
  - destruct (switch_state (cm s) c o) as [[[m' r] rep] u] eqn:S. inv H.
    apply switch_state_facts in S. destruct S as (_ & _ & _ & _ & _ & _ & S7).
    split; [|intros x y E; destruct (state_eqb (cur m') (cur (cm s))); discriminate].
    unfold pinv. simpl. rewrite W. destruct rep as [x|]; [right; simpl; rewrite (S7 x eq_refl); reflexivity|left; reflexivity].
  - destruct (nth_error (pending s) i) as [x|] eqn:N.
    + inv H. destruct P as [P|P]; rewrite P in N.
      * destruct i; discriminate.
      * destruct i as [|i]; simpl in N; [inv N|destruct i; discriminate].
        split; [left; simpl; rewrite P; reflexivity|]. intros x y E. inv E. reflexivity.
    + inv H. split; [exact P|intros; discriminate].
  - destruct (set_allow (cm s) b) as [[m' x] y] eqn:SA. inv H.
    split; [|intros; discriminate]. unfold pinv. simpl. rewrite (set_allow_cur _ _ _ _ _ SA). exact P.
  - inv H. split; [exact P|intros; discriminate].
Qed.

Lemma arun_reported : forall l s, pinv s -> single_switcher s l = true ->
  forall x y, In (CReported x y) (arun s l) -> x = y.
Proof.
  induction l as [|a l IH]; intros s P W x y H; simpl in *; [destruct H|].
  destruct (astep_run s a) as [s' e] eqn:A. simpl in W. apply andb_true_iff in W. destruct W as [W1 W2].
  assert (match a with ASwitch _ _ => pending s = [] | _ => True end) as W1'.
  { destruct a; auto. destruct (pending s); [reflexivity|discriminate]. }
  destruct (astep_pinv _ _ _ _ A P W1') as [P' R].
  destruct H as [H|H]; [apply R; exact H|eapply IH; eauto].
Qed.

(* every delivered report is a report some locked region has produced: reports never invent a state *)
Lemma switch_report_entered : forall m c o m' r s u, switch_state m c o = (m', r, Some s, u) ->
  cur m' = s /\ r = SNil.
Proof.
  intros m c o m' r s u H. unfold switch_state in H.
  destruct (check_ctx m c) as [c'| |]; [|inv H|inv H].
  destruct (exit_and_enter m c' o) as [[m1 r1] rep1] eqn:E. inv H.
  apply exit_and_enter_cur in E. destruct E as (_ & _ & _ & E4 & _). destruct (E4 s eq_refl) as (X & _ & Y). auto.
Qed.
