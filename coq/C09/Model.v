(* C09 -- the node state machine takes only allowed transitions.

   Transcribes isaac/states/states.go (after the fix: commit that moves the check of the switch context
   into the region protected by States.stateLock):

     checkStateSwitchContext + checkHandoverStateSwitchContext   -> check_ctx
     exitAndEnter (handler outcomes are arguments)               -> exit_and_enter
     switchState: [stateLock.Lock; check; exitAndEnter; Unlock]  -> switch_state   (ONE atomic step)
                  then WhenStateSwitchedFunc(next)               -> a pending report, delivered later
     ensureSwitchState (retry loop, n > 3 => broken)             -> ensure
     AskMoveState (pre-check, then the states loop runs ensureSwitchState) -> ask
     SetAllowConsensus (holds stateLock.RLock throughout)        -> set_allow      (ONE atomic step)

   Atomic steps are exactly the regions the code protects with stateLock.  The handover y broker is
   abstracted to what checkHandoverStateSwitchContext reads of it (absent / not yet asked / asked).
   "Unknown" stands for any StateType without a registered handler.  No proofs in this file. *)
From Coq Require Import List Bool.
Import ListNotations.

Inductive state := Stopped | Booting | Joining | Consensus | Syncing | Handover | Broken | Unknown.

Definition state_eqb (a b : state) : bool :=
  match a, b with
  | Stopped, Stopped | Booting, Booting | Joining, Joining | Consensus, Consensus
  | Syncing, Syncing | Handover, Handover | Broken, Broken | Unknown, Unknown => true
  | _, _ => false
  end.

Inductive ybroker := YNone | YNotAsked | YAsked.

Record sctx := mkCtx { cfrom : state; cnext : state }.

Record mach := mkM { cur : state; allowed : bool; yb : ybroker }.

Definition consensus_like (s : state) : bool :=
  match s with Consensus | Joining => true | _ => false end.

(* result of the check: go on with a (possibly replaced) context / ignore / plain error *)
Inductive chk := ChkPass (c : sctx) | ChkIgnore | ChkErr.

(* checkHandoverStateSwitchContext *)
Definition check_handover (m : mach) (c : sctx) : chk :=
  match yb m with
  | YNone => if state_eqb (cnext c) Handover then ChkIgnore else ChkPass c
  | YNotAsked => ChkIgnore
  | YAsked =>
      if state_eqb (cur m) Handover then ChkPass c
      else if consensus_like (cnext c) then ChkPass (mkCtx (cfrom c) Handover)   (* newHandoverSwitchContextFromOther *)
      else ChkPass c
  end.

(* checkStateSwitchContext (current != nil) *)
Definition check_ctx (m : mach) (c : sctx) : chk :=
  let next := cnext c in
  if state_eqb (cur m) Stopped && negb (state_eqb next Booting || state_eqb next Broken) then ChkIgnore
  else if state_eqb next Unknown then ChkErr                       (* unknown next state *)
  else if state_eqb next (cur m) then ChkIgnore                    (* same next state *)
  else if negb (state_eqb (cfrom c) (cur m)) then ChkIgnore        (* current != from *)
  else if state_eqb next Broken then ChkPass c
  else match check_handover m c with
       | ChkIgnore => ChkIgnore
       | ChkErr => ChkErr
       | ChkPass c' =>
           if negb (state_eqb (cnext c') next) then ChkPass c'     (* handover redirect: returned at once *)
           else if allowed m then
             (if state_eqb next Handover then ChkIgnore else ChkPass c)
           else if state_eqb (cur m) Handover then ChkPass c
           else if consensus_like next then
             (if state_eqb (cur m) Syncing then ChkIgnore           (* keep syncing *)
              else ChkPass (mkCtx (cur m) Syncing))                 (* moves to syncing instead *)
           else ChkPass c
       end.

(* scripted outcomes of the handlers during one exitAndEnter *)
Inductive xout := XOk | XErr | XIgnore.                 (* current.exit: nil / error / ErrIgnoreSwitchingState *)
Inductive eout := EOk | EErr | ERedirect (c : sctx).    (* next.enter: nil / error / another switch context *)
Record outs := mkO { ox : xout; onew : bool; oe : eout }.

Definition default_outs : outs := mkO XOk true EOk.

Inductive sres := SNil | SErr | SRedirect (c : sctx).   (* what switchState returns: nil / plain error / switch context *)

Definition with_cur (m : mach) (s : state) : mach := mkM s (allowed m) (yb m).

(* exitAndEnter: (machine, result, entered-and-to-be-reported) *)
Definition exit_and_enter (m : mach) (c : sctx) (o : outs) : mach * sres * option state :=
  let after_exit :=
    match oe o with
    | EOk => (with_cur m (cnext c), SNil, Some (cnext c))
    | EErr => (m, SErr, None)
    | ERedirect c' => (with_cur m (cnext c), SRedirect c', None)   (* st.cs = nextHandler; nothing reported *)
    end in
  let after_new := if onew o then after_exit else (m, SErr, None) in
  match ox o with
  | XOk => after_new
  | XErr => if state_eqb (cnext c) Broken then after_new else (m, SErr, None)
  | XIgnore => if state_eqb (cnext c) Broken then after_new else (m, SNil, None)
  end.

(* the locked region of switchState; the bool tells whether the scripted outcome was consumed *)
Definition switch_state (m : mach) (c : sctx) (o : outs) : mach * sres * option state * bool :=
  match check_ctx m c with
  | ChkIgnore => (m, SNil, None, false)
  | ChkErr => (m, SErr, None, false)
  | ChkPass c' => match exit_and_enter m c' o with (m', r, rep) => (m', r, rep, true) end
  end.

(* ensureSwitchState *)
Inductive eres := EnsOk | EnsStopped | EnsErr | EnsFuel.

Definition hd_outs (l : list outs) : outs := match l with [] => default_outs | o :: _ => o end.
Definition tl_outs (l : list outs) : list outs := match l with [] => [] | _ :: r => r end.

Fixpoint ensure (fuel : nat) (m : mach) (c : sctx) (n : nat) (os : list outs) (reps : list state)
  : mach * eres * list state * list outs :=
  match fuel with
  | O => (m, EnsFuel, reps, os)
  | S fuel' =>
      if Nat.ltb 3 n then ensure fuel' m (mkCtx (cfrom c) Broken) 0 os reps      (* n > 3: move to broken *)
      else
        match switch_state m c (hd_outs os) with
        | (m', r, rep, used) =>
            let os' := if used then tl_outs os else os in
            let reps' := match rep with Some s => reps ++ [s] | None => reps end in
            match r with
            | SNil => (m', if state_eqb (cnext c) Stopped then EnsStopped else EnsOk, reps', os')
            | SErr => if state_eqb (cnext c) Broken then (m', EnsErr, reps', os')
                      else ensure fuel' m' (mkCtx (cfrom c) Broken) 0 os' reps'
            | SRedirect c' => ensure fuel' m' c' (S n) os' reps'
            end
        end
  end.

Definition ensure_fuel (os : list outs) : nat := 4 * length os + 16.

(* SetAllowConsensus *)
Definition set_allow (m : mach) (b : bool) : mach * bool * option (state * bool) :=
  if Bool.eqb (allowed m) b then (m, false, None)
  else
    let notified := if consensus_like (cur m) then Some (cur m, b) else None in   (* current.whenSetAllowConsensus(allow) *)
    let yb' := if b then YNone else yb m in                                        (* allow: y broker cancelled, cleanHandovers *)
    (mkM (cur m) b yb', true, notified).

(* ------------------------------------------------------------------ sequential operations (correspondence) *)

Inductive op :=
| OEnsure (c : sctx) (os : list outs)
| OSwitch (c : sctx) (o : outs)
| OAsk (c : sctx) (os : list outs)
| OSetAllow (b : bool)
| OYBroker (v : ybroker).

Inductive res :=
| REnsure (r : eres)
| RSwitch (r : sres)
| RAskIgnored | RAskErr
| RSet (isset : bool)
| RUnit.

Record obs := mkObs {
  o_res : res; o_cur : state; o_allowed : bool; o_yb : ybroker;
  o_reports : list state;                 (* WhenStateSwitchedFunc calls during the op *)
  o_notified : option (state * bool)      (* whenSetAllowConsensus call during the op *)
}.

Definition step (m : mach) (o : op) : mach * obs :=
  match o with
  | OEnsure c os =>
      match ensure (ensure_fuel os) m c 0 os [] with
      | (m', r, reps, _) => (m', mkObs (REnsure r) (cur m') (allowed m') (yb m') reps None)
      end
  | OSwitch c o =>
      match switch_state m c o with
      | (m', r, rep, _) => (m', mkObs (RSwitch r) (cur m') (allowed m') (yb m')
                                      (match rep with Some s => [s] | None => [] end) None)
      end
  | OAsk c os =>
      match check_ctx m c with
      | ChkIgnore => (m, mkObs RAskIgnored (cur m) (allowed m) (yb m) [] None)
      | ChkErr => (m, mkObs RAskErr (cur m) (allowed m) (yb m) [] None)
      | ChkPass c' =>
          match ensure (ensure_fuel os) m c' 0 os [] with
          | (m', r, reps, _) => (m', mkObs (REnsure r) (cur m') (allowed m') (yb m') reps None)
          end
      end
  | OSetAllow b =>
      match set_allow m b with
      | (m', isset, nt) => (m', mkObs (RSet isset) (cur m') (allowed m') (yb m') [] nt)
      end
  | OYBroker v => let m' := mkM (cur m) (allowed m) v in (m', mkObs RUnit (cur m') (allowed m') (yb m') [] None)
  end.

Fixpoint run (m : mach) (ops : list op) : list obs :=
  match ops with
  | [] => []
  | o :: r => match step m o with (m', ob) => ob :: run m' r end
  end.

(* ------------------------------------------------------------------ all schedules: atomic steps of any number of threads *)

(* A switching thread performs [ASwitch] (the locked region) and later delivers its report, if any, with
   [AReport]; togglers perform [ASetAllow]; the handover machinery changes the broker with [AYBroker].
   [pending] holds the reports not yet delivered.  Any concurrent execution of switchState /
   ensureSwitchState / AskMoveState / Hold / SetAllowConsensus calls is a sequence of these steps. *)
Inductive astep :=
| ASwitch (c : sctx) (o : outs)
| AReport (i : nat)          (* deliver the i-th pending report *)
| ASetAllow (b : bool)
| AYBroker (v : ybroker).

Record cstate := mkC { cm : mach; pending : list state }.

Fixpoint remove_nth {A} (i : nat) (l : list A) : list A :=
  match l, i with
  | [], _ => []
  | _ :: r, O => r
  | x :: r, S i' => x :: remove_nth i' r
  end.

(* an event of the concurrent run: the machine entered a state / a report was delivered while in a state *)
Inductive cevent :=
| CEntered (from to : state) (was_allowed : bool)
| CReported (s : state) (cur_then : state)
| CNone.

Definition astep_run (s : cstate) (a : astep) : cstate * cevent :=
  match a with
  | ASwitch c o =>
      match switch_state (cm s) c o with
      | (m', _, rep, _) =>
          (mkC m' (match rep with Some x => pending s ++ [x] | None => pending s end),
           if state_eqb (cur m') (cur (cm s)) then CNone else CEntered (cur (cm s)) (cur m') (allowed (cm s)))
      end
  | AReport i =>
      match nth_error (pending s) i with
      | Some x => (mkC (cm s) (remove_nth i (pending s)), CReported x (cur (cm s)))
      | None => (s, CNone)
      end
  | ASetAllow b => match set_allow (cm s) b with (m', _, _) => (mkC m' (pending s), CNone) end
  | AYBroker v => (mkC (mkM (cur (cm s)) (allowed (cm s)) v) (pending s), CNone)
  end.

Fixpoint arun (s : cstate) (l : list astep) : list cevent :=
  match l with
  | [] => []
  | a :: r => match astep_run s a with (s', e) => e :: arun s' r end
  end.

Fixpoint afinal (s : cstate) (l : list astep) : cstate :=
  match l with
  | [] => s
  | a :: r => afinal (fst (astep_run s a)) r
  end.

(* the states daemon has ONE switching thread (the states loop): it delivers its report before it
   switches again.  [single_switcher] says the schedule respects that. *)
Fixpoint single_switcher (s : cstate) (l : list astep) : bool :=
  match l with
  | [] => true
  | a :: r =>
      (match a with ASwitch _ _ => match pending s with [] => true | _ => false end | _ => true end)
      && single_switcher (fst (astep_run s a)) r
  end.

(* the allowed edges of the machine *)
Definition edge (a b : state) : bool :=
  negb (state_eqb a b) && negb (state_eqb b Unknown) &&
  (negb (state_eqb a Stopped) || state_eqb b Booting || state_eqb b Broken).

(* the composition the code had before the fix: check, then (another thread toggles), then exitAndEnter *)
Definition split_switch (m : mach) (c : sctx) (o : outs) (toggle : option bool) : mach * bool :=
  match check_ctx m c with
  | ChkPass c' =>
      let m1 := match toggle with Some b => fst (fst (set_allow m b)) | None => m end in
      match exit_and_enter m1 c' o with (m', _, _) => (m', allowed m1) end
  | _ => (m, allowed m)
  end.

(* ------------------------------------------------------------------ correspondence *)

Definition ybroker_eqb (a b : ybroker) : bool :=
  match a, b with YNone, YNone | YNotAsked, YNotAsked | YAsked, YAsked => true | _, _ => false end.

Definition sctx_eqb (a b : sctx) : bool := state_eqb (cfrom a) (cfrom b) && state_eqb (cnext a) (cnext b).

Definition eres_eqb (a b : eres) : bool :=
  match a, b with EnsOk, EnsOk | EnsStopped, EnsStopped | EnsErr, EnsErr | EnsFuel, EnsFuel => true | _, _ => false end.

Definition sres_eqb (a b : sres) : bool :=
  match a, b with
  | SNil, SNil | SErr, SErr => true
  | SRedirect x, SRedirect y => sctx_eqb x y
  | _, _ => false
  end.

Definition res_eqb (a b : res) : bool :=
  match a, b with
  | REnsure x, REnsure y => eres_eqb x y
  | RSwitch x, RSwitch y => sres_eqb x y
  | RAskIgnored, RAskIgnored | RAskErr, RAskErr | RUnit, RUnit => true
  | RSet x, RSet y => Bool.eqb x y
  | _, _ => false
  end.

Fixpoint list_eqb' {A} (eqb : A -> A -> bool) (a b : list A) : bool :=
  match a, b with
  | [], [] => true
  | x :: a', y :: b' => eqb x y && list_eqb' eqb a' b'
  | _, _ => false
  end.

Definition obs_eqb (a b : obs) : bool :=
  res_eqb (o_res a) (o_res b) && state_eqb (o_cur a) (o_cur b) && Bool.eqb (o_allowed a) (o_allowed b) &&
  ybroker_eqb (o_yb a) (o_yb b) && list_eqb' state_eqb (o_reports a) (o_reports b) &&
  match o_notified a, o_notified b with
  | None, None => true
  | Some (s, x), Some (t, y) => state_eqb s t && Bool.eqb x y
  | _, _ => false
  end.

(* a case: initial machine (after the harness has brought the real States there), ops, observations *)
Definition case := (mach * list op * list obs)%type.

Definition check (c : case) : bool :=
  match c with (m, ops, ob) => list_eqb' obs_eqb (run m ops) ob end.
