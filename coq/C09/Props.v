(* C09 -- State machine takes only allowed transitions.  Property theorems only.

   [arun s l] is the sequence of events of ANY sequence [l] of atomic steps -- locked regions of switchState
   issued by any number of threads with any handler outcomes ([ASwitch]), deliveries of their pending
   WhenStateSwitched reports ([AReport]), SetAllowConsensus calls ([ASetAllow]) and handover-broker changes
   ([AYBroker]) -- from ANY machine state [s]: every concurrent execution of AskMoveState /
   ensureSwitchState / switchState / Hold / SetAllowConsensus is such a sequence, because the check of
   the switch context and exitAndEnter run inside one stateLock region and SetAllowConsensus holds the
   same lock.  [CEntered a b al]: the machine moved from a to b while allow-consensus was al. *)
From Coq Require Import List Bool.
From MV Require Import C09.Model C09.Proofs.
From MV Require Gen.C09.
From Coq Require Import ZArith.
Import ListNotations.

(* Every change of the current state, in every schedule, is along an allowed edge: to a different state
   that has a handler, and from Stopped only to Booting or Broken. *)
Theorem C09_edges : forall s l a b al, In (CEntered a b al) (arun s l) ->
  a <> b /\ b <> Unknown /\ (a = Stopped -> b = Booting \/ b = Broken).
Proof.
  intros s l a b al H. destruct (arun_good _ _ _ H) as [E _]. unfold edge in E.
  apply andb_true_iff in E. destruct E as [E E3]. apply andb_true_iff in E. destruct E as [E1 E2].
  split; [intro X; subst; rewrite state_eqb_refl in E1; discriminate|].
  split; [intro X; subst; discriminate|].
  intros X. subst a. simpl in E3. apply orb_true_iff in E3. destruct E3 as [E3|E3]; apply state_eqb_eq in E3; auto.
Qed.

(* A request whose origin is not the current state has no effect: one switchState attempt leaves the
   machine unchanged, reports nothing and consumes no handler outcome ... *)
Theorem C09_from_mismatch_noop : forall m c o, cfrom c <> cur m ->
  exists r, switch_state m c o = (m, r, None, false) /\ (r = SNil \/ r = SErr).
Proof. exact switch_from_mismatch. Qed.

(* ... and so does the whole retry loop of ensureSwitchState, whatever the handlers would answer. *)
Theorem C09_from_mismatch_noop_ensure : forall fuel m c n os reps, cfrom c <> cur m ->
  exists r, ensure fuel m c n os reps = (m, r, reps, os).
Proof. exact ensure_from_mismatch. Qed.

(* Every state handed to WhenStateSwitchedFunc is the state the locked region has just made current (the
   enter-redirect path changes the current state without reporting; it never reports a state it did not enter)... *)
Theorem C09_reported_is_entered : forall m c o m' r s u, switch_state m c o = (m', r, Some s, u) -> cur m' = s.
Proof. intros m c o m' r s u H. exact (proj1 (switch_report_entered _ _ _ _ _ _ _ H)). Qed.

(* ... and with the single switching thread of the states daemon (no locked region starts while a report
   is pending; toggles and broker changes interleave freely) the machine is still in the reported state when
   the report is delivered.  [CReported x y]: x reported while the current state was y. *)
Theorem C09_reported_is_current : forall l m x y, single_switcher (mkC m []) l = true ->
  In (CReported x y) (arun (mkC m []) l) -> x = y.
Proof. intros l m x y W H. eapply arun_reported; eauto. left. reflexivity. Qed.

(* A node that is not allowed to take part in consensus never enters Joining or Consensus, except out of
   Handover -- in every schedule: allow-consensus is the value at the moment of entering. *)
Theorem C09_not_allowed : forall s l a b, In (CEntered a b false) (arun s l) ->
  (b = Joining \/ b = Consensus) -> a = Handover.
Proof.
  intros s l a b H B. destruct (arun_good _ _ _ H) as [_ E].
  assert (consensus_like b = true) as CL by (destruct B; subst; reflexivity).
  destruct (E CL) as [X|X]; [discriminate|exact X].
Qed.

(* ... it goes to (or stays in) Syncing, or into Handover, instead: where a step can lead *)
Theorem C09_redirect_targets : forall m c o m' r rep u, switch_state m c o = (m', r, rep, u) ->
  cur m' <> cur m -> cur m' = cnext c \/ cur m' = Handover \/ cur m' = Syncing.
Proof. intros m c o m' r rep u H. apply switch_state_facts in H. tauto. Qed.

(* The composition the code had before the fix (check outside stateLock, then exitAndEnter) does NOT
   have that property: a toggle between the two parts lets the node enter Consensus while not allowed. *)
Theorem C09_not_allowed_split_check_refuted :
  exists m c o t, let '(m', al) := split_switch m c o t in
    cur m = Syncing /\ cur m' = Consensus /\ al = false.
Proof.
  exists (mkM Syncing true YNone), (mkCtx Syncing Consensus), default_outs, (Some false).
  vm_compute. repeat split.
Qed.

(* the retry bound of the modelled ensureSwitchState (n > 3 => broken, n reset to 0) is the code's: the integer
   literals of States.ensureSwitchState, regenerated from the Go source on every run *)
Theorem C09_retry_limit_is_code : Gen.C09.ensure_switch_ints = [3]%Z.
Proof. reflexivity. Qed.

(* ---- non-vacuity *)

(* allowed: Syncing -> Consensus is taken and reported *)
Example C09_ex_enter_consensus :
  arun (mkC (mkM Syncing true YNone) []) [ASwitch (mkCtx Syncing Consensus) default_outs; AReport 0]
  = [CEntered Syncing Consensus true; CReported Consensus Consensus].
Proof. vm_compute. reflexivity. Qed.

(* not allowed, in Booting: the request for Joining ends in Syncing *)
Example C09_ex_redirect_to_syncing :
  arun (mkC (mkM Booting false YNone) []) [ASwitch (mkCtx Booting Joining) default_outs]
  = [CEntered Booting Syncing false].
Proof. vm_compute. reflexivity. Qed.

(* not allowed but completing a handover: Handover -> Consensus is taken *)
Example C09_ex_handover :
  arun (mkC (mkM Handover false YAsked) []) [ASwitch (mkCtx Handover Consensus) default_outs]
  = [CEntered Handover Consensus false].
Proof. vm_compute. reflexivity. Qed.

(* toggling first: the same request as in the refuted composition now stays in Syncing *)
Example C09_ex_toggle_then_switch :
  arun (mkC (mkM Syncing true YNone) []) [ASetAllow false; ASwitch (mkCtx Syncing Consensus) default_outs]
  = [CNone; CNone].
Proof. vm_compute. reflexivity. Qed.

(* ensureSwitchState: enter of Joining redirects to Syncing; only Syncing is reported *)
Example C09_ex_ensure_redirect :
  ensure 20 (mkM Booting true YNone) (mkCtx Booting Joining) 0
         [mkO XOk true (ERedirect (mkCtx Joining Syncing))] []
  = (mkM Syncing true YNone, EnsOk, [Syncing], []).
Proof. vm_compute. reflexivity. Qed.

(* two switching threads: a report can be delivered late (why C09_reported_is_current needs its hypothesis) *)
Example C09_ex_two_switchers_late_report :
  arun (mkC (mkM Syncing true YNone) [])
       [ASwitch (mkCtx Syncing Consensus) default_outs; ASwitch (mkCtx Consensus Stopped) default_outs; AReport 0]
  = [CEntered Syncing Consensus true; CEntered Consensus Stopped true; CReported Consensus Stopped].
Proof. vm_compute. reflexivity. Qed.
