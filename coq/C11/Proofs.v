(* C11 -- lemmas about the model of ProposalProcessors / DefaultProposalProcessor. *)
From Coq Require Import ZArith NArith List Bool Lia Sorted.
From Coq Require Import ZifyBool ZifyN.
From MV Require Import C11.Model.
Import ListNotations.
Open Scope Z_scope.

Ltac inv H := inversion H; subst; clear H.
Ltac splits := repeat match goal with |- _ /\ _ => split end.

(* case analysis on every match / if that blocks a hypothesis of the form  _ = (_, _, _) *)
Ltac split_step :=
  repeat match goal with
         | H : (_, _) = (_, _) |- _ => inv H
         | H : context [match ?x with _ => _ end] |- _ =>
             match type of H with
             | _ = _ => destruct x eqn:?
             end
         end.

(* ------------------------------------------------------------------ generic list facts *)

Lemma saves_app : forall a b, saves (a ++ b) = saves a ++ saves b.
Proof. induction a as [|[e|q] a IH]; intros; simpl; rewrite ?IH; reflexivity. Qed.

Lemma in_saves : forall l e, In e (saves l) <-> In (EvSave e) l.
Proof.
  induction l as [|[x|q] l IH]; intros; simpl; [tauto | | ].
  - rewrite IH. split; intros [H|H]; auto; [left; congruence | inv H; auto].
  - rewrite IH. split; intros H; auto. destruct H as [H|H]; [discriminate | auto].
Qed.

(* ------------------------------------------------------------------ what one op can emit *)

Lemma do_cancel_events : forall cok p p' ok ev, do_cancel cok p = (p', ok, ev) ->
  saves ev = [] /\ pid p' = pid p /\ stub p' = stub p /\ pfact p' = pfact p /\
  (ok = true -> ev = [EvCancel (pid p)] /\ canceled p' = true) /\ (ok = false -> ev = [] /\ p' = p) /\
  (canceled p = true -> canceled p' = true) /\ (stub p = false -> ok = true).
Proof.
  unfold do_cancel; intros. destruct (stub p) eqn:S; [destruct cok|]; inv H; simpl; rewrite ?S;
    splits; auto; try discriminate; try congruence.
Qed.

Lemma cancel_branch : forall cok p c p' r ev,
  match do_cancel cok p with
  | (p'', true, ev) => (p'', RErr c, ev)
  | (p'', false, ev) => (p'', RErr EOther, ev)
  end = (p', r, ev) ->
  saves ev = [] /\ pid p' = pid p /\ stub p' = stub p /\
  (forall z, In (EvCancel z) ev -> z = pid p /\ canceled p' = true).
Proof.
  intros cok p c p' r ev H.
  destruct (do_cancel cok p) as [[p2 ok] ev2] eqn:C. apply do_cancel_events in C.
  destruct C as (C1 & C2 & C3 & _ & C5 & C6 & _).
  destruct ok; inv H; (splits; auto); intros z Hz.
  - destruct (C5 eq_refl) as [E K]. rewrite E in Hz. destruct Hz as [Hz|[]]. inv Hz. auto.
  - destruct (C6 eq_refl) as [E K]. rewrite E in Hz. destruct Hz.
Qed.

Lemma run_processor_events : forall p po cok p' r ev, run_processor p po cok = (p', r, ev) ->
  saves ev = [] /\ pid p' = pid p /\ stub p' = stub p /\
  (forall z, In (EvCancel z) ev -> z = pid p /\ canceled p' = true).
Proof.
  unfold run_processor, proc_process; intros p po cok p' r ev H.
  destruct (negb (stub p) && (isprocessed p || canceled p)) eqn:G.
  - eapply cancel_branch; eauto.
  - destruct po; simpl in H.
    + inv H. simpl. splits; auto. intros z [].
    + eapply cancel_branch; eauto.
    + inv H. simpl. splits; auto. intros z [].
    + eapply cancel_branch; eauto.
Qed.

(* the save events of ProposalProcessor.Save *)
Lemma proc_save_events : forall p fact h nb wo p' r ev, proc_save p fact h nb wo = (p', r, ev) ->
  pid p' = pid p /\ stub p' = stub p /\
  (forall q, ~ In (EvCancel q) ev) /\
  (forall e, In (EvSave e) ev ->
     ev = [EvSave e] /\
     s_pid e = pid p /\ s_stub e = stub p /\ s_reqfact e = fact /\ s_pfact e = pfact p /\ s_avph e = h /\
     s_ph e = pheight p /\ s_nb e = nb /\ s_pm e = pmanifest p /\
     (stub p = false -> pmanifest p = Some nb /\ canceled p = false /\ issaved p = false)).
Proof.
  unfold proc_save; intros p fact h nb wo p' r ev H.
  assert (forall (x : event), ~ In x []) as NIL by (intros x []).
  destruct (stub p) eqn:S.
  - inv H. splits; auto.
    + intros q [Hq|[]]; discriminate.
    + intros e [He|[]]. inv He. simpl. splits; auto. discriminate.
  - destruct (issaved p) eqn:I; [inv H; splits; auto; intros; exfalso; eapply NIL; eauto|].
    destruct (canceled p) eqn:K; [inv H; splits; auto; intros; exfalso; eapply NIL; eauto|].
    destruct (pmanifest p) as [m|] eqn:M; [|inv H; splits; auto; intros; exfalso; eapply NIL; eauto].
    destruct (N.eqb m nb) eqn:E; [|inv H; splits; auto; intros; exfalso; eapply NIL; eauto].
    apply N.eqb_eq in E. subst m. inv H. splits; auto.
    + intros q [Hq|[]]; discriminate.
    + intros e [He|[]]. inv He. simpl. splits; auto.
Qed.

(* ------------------------------------------------------------------ 1. only the matching proposal / manifest is saved *)

Definition matching (e : saveev) : Prop :=
  s_pfact e = s_reqfact e /\ (s_stub e = false -> s_pm e = Some (s_nb e)).

Lemma step_save_matching : forall s o s' r ev e, step s o = (s', r, ev) -> In (EvSave e) ev -> matching e.
Proof.
  intros s o s' r ev e H Hin. apply in_saves in Hin. destruct o as [f gp mk cok po | f h nb wo cok | cok]; simpl in H.
  - (* Process: no save at all *)
    exfalso. unfold step_process in H.
    destruct (cur s) as [p|] eqn:C.
    + destruct (N.eqb (pfact p) f); [inv H; destruct Hin|].
      destruct (do_cancel cok p) as [[p1 ok] ev1] eqn:D. apply do_cancel_events in D. destruct D as (D1 & _).
      destruct ok; [|inv H; destruct Hin].
      destruct gp as [[f' h']|]; [|inv H; rewrite D1 in Hin; destruct Hin].
      destruct mk as [sb|]; [|inv H; rewrite D1 in Hin; destruct Hin].
      destruct (run_processor _ po cok) as [[p2 r2] ev2] eqn:R. apply run_processor_events in R. destruct R as (R1 & _).
      inv H. rewrite saves_app, D1, R1 in Hin. destruct Hin.
    + destruct gp as [[f' h']|]; [|inv H; destruct Hin].
      destruct mk as [sb|]; [|inv H; destruct Hin].
      destruct (run_processor _ po cok) as [[p2 r2] ev2] eqn:R. apply run_processor_events in R. destruct R as (R1 & _).
      inv H. simpl in Hin. rewrite R1 in Hin. destruct Hin.
  - (* Save *)
    unfold step_save in H.
    destruct (save_inner s f h nb wo) as [[s1 r1] ev1] eqn:SI.
    assert (In e (saves ev1)) as Hin1.
    { destruct r1 as [c|].
      - destruct (cur s1) as [p|]; [|inv H; auto].
        destruct (do_cancel cok p) as [[p1 ok] ev2] eqn:D. apply do_cancel_events in D. destruct D as (D1 & _).
        inv H. rewrite saves_app, D1, app_nil_r in Hin. auto.
      - inv H. auto. }
    clear H Hin. unfold save_inner in SI.
    destruct (h <=? prev_saved s); [inv SI; destruct Hin1|].
    destruct (cur s) as [p|]; [|inv SI; destruct Hin1].
    destruct (negb (N.eqb (pfact p) f)) eqn:F; [inv SI; destruct Hin1|].
    apply negb_false_iff, N.eqb_eq in F.
    destruct (proc_save p f h nb wo) as [[p' r'] ev'] eqn:PS. injection SI as E1' E2' E3'. subst s1 r1 ev1.
    apply proc_save_events in PS. destruct PS as (_ & _ & _ & PS).
    apply in_saves in Hin1. destruct (PS _ Hin1) as (_ & _ & E2 & E3 & E4 & _ & _ & E7 & E8 & E9).
    split; [congruence|]. intros Hs. rewrite E2 in Hs. destruct (E9 Hs) as (M & _). congruence.
  - (* Cancel *)
    exfalso. unfold step_cancel in H. destruct (cur s) as [p|]; [|inv H; destruct Hin].
    destruct (do_cancel cok p) as [[p1 ok] ev1] eqn:D. apply do_cancel_events in D. destruct D as (D1 & _).
    destruct ok; inv H; [rewrite D1 in Hin|]; destruct Hin.
Qed.

Lemma trace_matching : forall ops s e, In (EvSave e) (trace s ops) -> matching e.
Proof.
  induction ops as [|o r IH]; intros s e H; simpl in H; [destruct H|].
  destruct (step s o) as [[s' rs] ev] eqn:S. apply in_app_or in H. destruct H as [H|H].
  - eapply step_save_matching; eauto.
  - eapply IH; eauto.
Qed.

(* ------------------------------------------------------------------ 2. heights of the saved blocks strictly increase *)

Definition hs (l : list event) : list Z := map s_avph (saves l).

Lemma hs_app : forall a b, hs (a ++ b) = hs a ++ hs b.
Proof. intros. unfold hs. rewrite saves_app, map_app. reflexivity. Qed.

(* one op: previousSaved never decreases, and a save happens only at a height above the old previousSaved,
   which becomes the new previousSaved *)
Lemma step_heights : forall s o s' r ev, step s o = (s', r, ev) ->
  prev_saved s <= prev_saved s' /\
  (hs ev = [] \/ (hs ev = [prev_saved s'] /\ prev_saved s < prev_saved s')).
Proof.
  intros s o s' r ev H. destruct o as [f gp mk cok po | f h nb wo cok | cok]; simpl in H.
  - unfold step_process in H.
    destruct (cur s) as [p|] eqn:C.
    + destruct (N.eqb (pfact p) f); [inv H; split; [lia|left; reflexivity]|].
      destruct (do_cancel cok p) as [[p1 ok] ev1] eqn:D. apply do_cancel_events in D. destruct D as (D1 & _).
      destruct ok; [|inv H; split; [lia|left; reflexivity]].
      destruct gp as [[f' h']|]; [|inv H; simpl; split; [lia|left; unfold hs; rewrite D1; reflexivity]].
      destruct mk as [sb|]; [|inv H; simpl; split; [lia|left; unfold hs; rewrite D1; reflexivity]].
      destruct (run_processor _ po cok) as [[p2 r2] ev2] eqn:R. apply run_processor_events in R. destruct R as (R1 & _).
      inv H. simpl. split; [lia|left]. unfold hs. rewrite saves_app, D1, R1. reflexivity.
    + destruct gp as [[f' h']|]; [|inv H; simpl; split; [lia|left; reflexivity]].
      destruct mk as [sb|]; [|inv H; simpl; split; [lia|left; reflexivity]].
      destruct (run_processor _ po cok) as [[p2 r2] ev2] eqn:R. apply run_processor_events in R. destruct R as (R1 & _).
      inv H. simpl. split; [lia|left]. unfold hs. rewrite R1. reflexivity.
  - unfold step_save in H.
    destruct (save_inner s f h nb wo) as [[s1 r1] ev1] eqn:SI.
    assert (prev_saved s' = prev_saved s1 /\ hs ev = hs ev1) as [P1 P2].
    { destruct r1 as [c|].
      - destruct (cur s1) as [p|]; [|inv H; auto].
        destruct (do_cancel cok p) as [[p1 ok] ev2] eqn:D. apply do_cancel_events in D. destruct D as (D1 & _).
        inv H. simpl. split; auto. unfold hs. rewrite saves_app, D1, app_nil_r. reflexivity.
      - inv H. auto. }
    rewrite P1, P2. clear H P1 P2. unfold save_inner in SI.
    destruct (h <=? prev_saved s) eqn:LE; [inv SI; split; [lia|left; reflexivity]|].
    apply Z.leb_gt in LE.
    destruct (cur s) as [p|]; [|inv SI; split; [lia|left; reflexivity]].
    destruct (negb (N.eqb (pfact p) f)); [inv SI; split; [lia|left; reflexivity]|].
    destruct (proc_save p f h nb wo) as [[p' r'] ev'] eqn:PS. injection SI as E1 E2 E3. subst s1 r1 ev1. simpl.
    split; [lia|].
    apply proc_save_events in PS. destruct PS as (_ & _ & _ & PS).
    destruct (saves ev') as [|e l] eqn:SV; [left; unfold hs; rewrite SV; reflexivity|right].
    assert (In (EvSave e) ev') as Hin by (apply in_saves; rewrite SV; left; reflexivity).
    destruct (PS _ Hin) as (E0 & _ & _ & _ & _ & E5 & _).
    split; [|lia]. unfold hs. rewrite E0. simpl. rewrite E5. reflexivity.
  - unfold step_cancel in H. destruct (cur s) as [p|]; [|inv H; split; [lia|left; reflexivity]].
    destruct (do_cancel cok p) as [[p1 ok] ev1] eqn:D. apply do_cancel_events in D. destruct D as (D1 & _).
    destruct ok; inv H; simpl; (split; [lia|left]); [unfold hs; rewrite D1|]; reflexivity.
Qed.

Lemma trace_heights : forall ops s,
  Forall (fun h => prev_saved s < h) (hs (trace s ops)) /\ StronglySorted Z.lt (hs (trace s ops)).
Proof.
  induction ops as [|o r IH]; intros s; simpl; [split; constructor|].
  destruct (step s o) as [[s' rs] ev] eqn:S.
  destruct (step_heights _ _ _ _ _ S) as (M & E). destruct (IH s') as (F & SS).
  rewrite hs_app.
  assert (Forall (fun h => prev_saved s < h) (hs (trace s' r))) as F'.
  { eapply Forall_impl; [|exact F]. simpl. intros; lia. }
  destruct E as [E|[E LT]]; rewrite E; simpl; [split; assumption|].
  split; constructor; auto.
Qed.

Lemma sorted_lt_NoDup : forall l, StronglySorted Z.lt l -> NoDup l.
Proof.
  induction 1; constructor; auto. intro Hin. rewrite Forall_forall in H0. specialize (H0 _ Hin). lia.
Qed.

Lemma sorted_lt_nth : forall l, StronglySorted Z.lt l ->
  forall i j a b, (i < j)%nat -> nth_error l i = Some a -> nth_error l j = Some b -> a < b.
Proof.
  induction 1; intros i j x y Hij Hi Hj; [destruct i; discriminate|].
  destruct j; [lia|]. destruct i; simpl in *.
  - inv Hi. rewrite Forall_forall in H0. apply H0. eapply nth_error_In; eauto.
  - eapply IHStronglySorted; [|eauto|eauto]. lia.
Qed.

(* block heights: when every saved event's voteproof height is the height of its proposal *)
Lemma consistent_block_heights : forall l, Forall (fun e => s_ph e = s_avph e) (saves l) ->
  map s_ph (saves l) = hs l.
Proof.
  intros l. unfold hs. induction (saves l); intros F; simpl; [reflexivity|]. inv F. f_equal; auto.
Qed.

(* ------------------------------------------------------------------ 3. a cancelled processor never saves *)

(* scanning form: C = pids whose Cancel() has returned *)
Fixpoint ok_trace (C : list N) (l : list event) : bool :=
  match l with
  | [] => true
  | EvCancel q :: r => ok_trace (q :: C) r
  | EvSave e :: r => (s_stub e || negb (existsb (N.eqb (s_pid e)) C)) && ok_trace C r
  end.

Fixpoint cancels (l : list event) : list N :=
  match l with
  | [] => []
  | EvCancel q :: r => cancels r ++ [q]
  | EvSave _ :: r => cancels r
  end.

Lemma existsb_eqb_in : forall x C, existsb (N.eqb x) C = true <-> In x C.
Proof.
  intros. rewrite existsb_exists. split.
  - intros (y & Hy & E). apply N.eqb_eq in E. subst. auto.
  - intros H. exists x. split; auto. apply N.eqb_refl.
Qed.

Lemma ok_trace_perm : forall l C C', (forall x, In x C <-> In x C') -> ok_trace C l = ok_trace C' l.
Proof.
  induction l as [|[e|q] l IH]; intros C C' H; simpl; auto.
  - rewrite (IH C C' H). f_equal. f_equal. f_equal.
    destruct (existsb (N.eqb (s_pid e)) C) eqn:A, (existsb (N.eqb (s_pid e)) C') eqn:B; auto.
    + apply existsb_eqb_in, H, existsb_eqb_in in A. congruence.
    + apply existsb_eqb_in, H, existsb_eqb_in in B. congruence.
  - apply IH. intros x. simpl. rewrite H. tauto.
Qed.

Lemma ok_trace_app : forall a C b, ok_trace C (a ++ b) = ok_trace C a && ok_trace (cancels a ++ C) b.
Proof.
  induction a as [|[e|q] a IH]; intros C b; simpl; auto.
  - rewrite IH, andb_assoc. reflexivity.
  - rewrite IH. f_equal. apply ok_trace_perm. intros x. rewrite <- app_assoc. simpl.
    rewrite !in_app_iff. simpl. tauto.
Qed.

Lemma ok_trace_no_save : forall l2 D e, ok_trace D l2 = true -> In (EvSave e) l2 -> s_stub e = false ->
  ~ In (s_pid e) D.
Proof.
  induction l2 as [|[x|z] l2 IH]; intros D e H Hin Hs; simpl in *; [destruct Hin| |].
  - apply andb_true_iff in H. destruct H as [H1 H2]. destruct Hin as [Hin|Hin].
    + inv Hin. rewrite Hs in H1. simpl in H1. apply negb_true_iff in H1.
      intro Hq. apply existsb_eqb_in in Hq. congruence.
    + eapply IH; eauto.
  - destruct Hin as [Hin|Hin]; [discriminate|]. intro Hq. eapply (IH (z :: D)); eauto. right. auto.
Qed.

Lemma ok_trace_split : forall l1 C q l2 e, ok_trace C (l1 ++ EvCancel q :: l2) = true ->
  In (EvSave e) l2 -> s_stub e = false -> s_pid e <> q.
Proof.
  intros l1 C q l2 e H Hin Hs. rewrite ok_trace_app in H. apply andb_true_iff in H. destruct H as [_ H]. simpl in H.
  intro E. eapply ok_trace_no_save; eauto. left. auto.
Qed.

(* invariant linking the set C of pids whose Cancel() has returned to the state *)
Definition wf (s : st) : Prop := match cur s with Some p => (pid p < next_pid s)%N | None => True end.

Definition cinv (s : st) (C : list N) : Prop :=
  wf s /\ forall q, In q C -> (q < next_pid s)%N /\
                            (forall p, cur s = Some p -> pid p = q -> stub p = false -> canceled p = true).

Lemma saves_nil_ok : forall ev C, saves ev = [] -> ok_trace C ev = true.
Proof. induction ev as [|[e|q] ev IH]; intros; simpl in *; auto; discriminate. Qed.

Lemma in_cancels : forall ev q, In q (cancels ev) <-> In (EvCancel q) ev.
Proof.
  induction ev as [|[e|z] ev IH]; intros; simpl; [tauto| |].
  - rewrite IH. split; auto. intros [H|H]; [discriminate|auto].
  - rewrite in_app_iff, IH. simpl. split; [intros [H|[H|[]]]; subst; auto | intros [H|H]; [inv H; auto|auto]].
Qed.

Lemma save_inner_facts : forall s f h nb wo s1 r1 ev1, save_inner s f h nb wo = (s1, r1, ev1) ->
  next_pid s1 = next_pid s /\
  (forall q, ~ In (EvCancel q) ev1) /\
  match cur s1 with
  | None => cur s = None
  | Some p' => exists p, cur s = Some p /\ pid p' = pid p
  end /\
  (forall e, In (EvSave e) ev1 ->
     ev1 = [EvSave e] /\
     exists p, cur s = Some p /\ s_pid e = pid p /\ s_stub e = stub p /\ (stub p = false -> canceled p = false)).
Proof.
  unfold save_inner; intros s f h nb wo s1 r1 ev1 H.
  assert (forall (x : event), ~ In x []) as NIL by (intros x []).
  destruct (h <=? prev_saved s).
  { inv H. splits; auto. - destruct (cur s1) eqn:E; eauto. - intros; exfalso; eapply NIL; eauto. }
  destruct (cur s) as [p|] eqn:Cs.
  2:{ inv H. rewrite Cs. splits; auto. intros; exfalso; eapply NIL; eauto. }
  destruct (negb (N.eqb (pfact p) f)).
  { inv H. rewrite Cs. splits; eauto. intros; exfalso; eapply NIL; eauto. }
  destruct (proc_save p f h nb wo) as [[p' r'] ev'] eqn:PS. injection H as E1 E2 E3. subst s1 r1 ev1.
  apply proc_save_events in PS. destruct PS as (P1 & P2 & P3 & P4). simpl.
  splits; eauto.
  intros e He. destruct (P4 _ He) as (Q0 & Q1 & Q2 & _ & _ & _ & _ & _ & _ & Q9).
  split; auto. exists p. splits; auto. intros Hs. destruct (Q9 Hs) as (_ & K & _). exact K.
Qed.

Lemma step_cinv : forall s o s' r ev C, step s o = (s', r, ev) -> cinv s C ->
  ok_trace C ev = true /\ cinv s' (cancels ev ++ C).
Proof.
  intros s o s' r ev C H [W I]. unfold wf in W.
  destruct o as [f gp mk cok po | f h nb wo cok | cok]; simpl in H.
  - (* Process *)
    unfold step_process in H.
    destruct (cur s) as [p|] eqn:Cs.
    + destruct (N.eqb (pfact p) f).
      { inv H. split; [reflexivity|]. split; [unfold wf; rewrite Cs; auto|]. simpl. rewrite Cs. exact I. }
      destruct (do_cancel cok p) as [[p1 ok] ev1] eqn:D. apply do_cancel_events in D.
      destruct D as (D1 & D2 & D3 & _ & D5 & D6 & D7 & _).
      destruct ok.
      2:{ inv H. split; [reflexivity|]. split; [unfold wf; rewrite Cs; auto|]. simpl. rewrite Cs. exact I. }
      destruct (D5 eq_refl) as [E K]. subst ev1.
      assert (cinv (with_cur s (Some p1)) (pid p :: C)) as I1.
      { split; [unfold wf; simpl; rewrite D2; auto|]. intros q [Hq|Hq].
        - subst q. split; [simpl; auto|]. simpl. intros p0 E0 _ _. inv E0. auto.
        - destruct (I q Hq) as [I1 I2]. split; [simpl; auto|]. simpl. intros p0 E0 E1 E2. inv E0.
          apply D7. apply (I2 p); auto; congruence. }
      destruct gp as [[f' h']|]; [|inv H; split; [reflexivity|exact I1]].
      destruct mk as [sb|]; [|inv H; split; [reflexivity|exact I1]].
      destruct (run_processor _ po cok) as [[p2 r2] ev2] eqn:R. apply run_processor_events in R.
      destruct R as (R1 & R2 & R3 & R4). simpl in R2.
      inv H. split.
      { apply saves_nil_ok. simpl. exact R1. }
      destruct I1 as [_ I1].
      split; [unfold wf; simpl; rewrite R2; lia|].
      intros q Hq. rewrite in_app_iff in Hq. rewrite in_cancels in Hq.
      assert (In (EvCancel q) ev2 \/ In q (pid p :: C)) as Hq'.
      { destruct Hq as [Hq|Hq]; [|right; right; auto]. destruct Hq as [Hq|Hq]; [inv Hq; right; left; auto|left; auto]. }
      clear Hq. destruct Hq' as [Hq|Hq].
      * destruct (R4 _ Hq) as [E K']. simpl in E. subst q. split; [simpl; lia|]. simpl. intros p0 E0 _ _. inv E0. auto.
      * destruct (I1 q Hq) as [J1 _]. simpl in J1. split; [simpl; lia|]. simpl. intros p0 E0 E1 _. inv E0. lia.
    + assert (forall q, In q C -> (q < next_pid s)%N) as IC by (intros q Hq; destruct (I q Hq); auto).
      destruct gp as [[f' h']|].
      2:{ inv H. split; [reflexivity|]. split; [unfold wf; simpl; auto|]. simpl. intros q Hq. split; auto. intros; discriminate. }
      destruct mk as [sb|].
      2:{ inv H. split; [reflexivity|]. split; [unfold wf; simpl; auto|]. simpl. intros q Hq. split; auto. intros; discriminate. }
      destruct (run_processor _ po cok) as [[p2 r2] ev2] eqn:R. apply run_processor_events in R.
      destruct R as (R1 & R2 & R3 & R4). simpl in R2.
      inv H. simpl. split; [apply saves_nil_ok; auto|].
      split; [unfold wf; simpl; rewrite R2; lia|].
      intros q Hq. rewrite in_app_iff, in_cancels in Hq. destruct Hq as [Hq|Hq].
      * destruct (R4 _ Hq) as [E K]. simpl in E. subst q. split; [simpl; lia|]. simpl. intros p0 E0 _ _. inv E0. auto.
      * specialize (IC q Hq). split; [simpl; lia|]. simpl. intros p0 E0 E1 _. inv E0. lia.
  - (* Save: afterwards no processor is held; a save is emitted only by a processor whose Cancel() was never called *)
    unfold step_save in H.
    destruct (save_inner s f h nb wo) as [[s1 r1] ev1] eqn:SI.
    apply save_inner_facts in SI. destruct SI as (N1 & NC & CU & SV).
    assert (ok_trace C ev1 = true) as O1.
    { destruct (saves ev1) as [|e l] eqn:E; [apply saves_nil_ok; auto|].
      assert (In (EvSave e) ev1) as Hin by (apply in_saves; rewrite E; left; auto).
      destruct (SV _ Hin) as (E1 & p & Cs & Q1 & Q2 & Q3). rewrite E1. clear E. simpl. rewrite andb_true_r.
      destruct (s_stub e) eqn:Sb; [reflexivity|]. simpl. apply negb_true_iff.
      destruct (existsb (N.eqb (s_pid e)) C) eqn:X; [|reflexivity]. exfalso.
      apply existsb_eqb_in in X. destruct (I _ X) as [_ I2].
      symmetry in Q2. rewrite (I2 p Cs (eq_sym Q1) Q2) in Q3. specialize (Q3 Q2). discriminate. }
    assert (forall ev2, (forall q, In (EvCancel q) ev2 -> (q < next_pid s)%N) ->
              saves ev2 = [] -> ev = ev1 ++ ev2 -> cur s' = None -> next_pid s' = next_pid s ->
              ok_trace C ev = true /\ cinv s' (cancels ev ++ C)) as FIN.
    { intros ev2 A S2 E Cn Nn. subst ev. split.
      - rewrite ok_trace_app, O1. simpl. apply saves_nil_ok; auto.
      - split; [unfold wf; rewrite Cn; auto|]. intros q Hq. rewrite Cn, Nn. split; [|intros; discriminate].
        rewrite in_app_iff, in_cancels, in_app_iff in Hq. destruct Hq as [[Hq|Hq]|Hq].
        + exfalso. eapply NC; eauto.
        + auto.
        + destruct (I q Hq); auto. }
    destruct r1 as [c|].
    + destruct (cur s1) as [p'|] eqn:C1.
      * destruct CU as (p & Cs & Pp). rewrite Cs in W.
        destruct (do_cancel cok p') as [[p1 ok] ev2] eqn:D. apply do_cancel_events in D.
        destruct D as (D1 & _ & _ & _ & D5 & D6 & _).
        inv H. apply (FIN ev2); auto.
        intros q Hq. destruct ok; [destruct (D5 eq_refl) as [E _]|destruct (D6 eq_refl) as [E _]]; rewrite E in Hq.
        -- destruct Hq as [Hq|[]]. inv Hq. rewrite Pp. auto.
        -- destruct Hq.
      * inv H. apply (FIN []); auto; try (rewrite app_nil_r; auto). intros q [].
    + inv H. apply (FIN []); auto; try (rewrite app_nil_r; auto). intros q [].
  - (* Cancel *)
    unfold step_cancel in H.
    destruct (cur s) as [p|] eqn:Cs.
    2:{ inv H. split; [reflexivity|]. split; [unfold wf; rewrite Cs; auto|]. simpl. rewrite Cs. exact I. }
    destruct (do_cancel cok p) as [[p1 ok] ev1] eqn:D. apply do_cancel_events in D.
    destruct D as (D1 & D2 & D3 & _ & D5 & D6 & D7 & _).
    destruct ok.
    2:{ inv H. split; [reflexivity|]. split; [unfold wf; rewrite Cs; auto|]. simpl. rewrite Cs. exact I. }
    destruct (D5 eq_refl) as [E K]. subst ev1. inv H. split; [reflexivity|].
    split; [unfold wf; simpl; auto|]. simpl. intros q Hq. split; [|intros; discriminate].
    destruct Hq as [Hq|Hq]; [subst q; auto|]. destruct (I q Hq); auto.
Qed.

Lemma trace_cinv : forall ops s C, cinv s C -> ok_trace C (trace s ops) = true.
Proof.
  induction ops as [|o r IH]; intros s C H; simpl; [reflexivity|].
  destruct (step s o) as [[s' rs] ev] eqn:S.
  destruct (step_cinv _ _ _ _ _ _ S H) as [O I]. rewrite ok_trace_app, O. simpl. apply IH. exact I.
Qed.

Lemma cinv_init : cinv init [].
Proof. split; [exact Logic.I|]. intros q []. Qed.

Lemma trace_no_save_after_cancel : forall ops l1 q l2 e,
  trace init ops = l1 ++ EvCancel q :: l2 -> In (EvSave e) l2 -> s_stub e = false -> s_pid e <> q.
Proof.
  intros ops l1 q l2 e H. eapply ok_trace_split. rewrite <- H. apply trace_cinv. apply cinv_init.
Qed.

