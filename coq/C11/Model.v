(* C11 -- a block is saved only for the agreed manifest, once per height.

   Transcribes (no proofs here):
     isaac/proposal_processors.go   ProposalProcessors.{Process,newProcessor,runProcessor,Save,save,Cancel}
     isaac/proposal_processor.go    DefaultProposalProcessor.{Process,Save,save,Cancel,close,isCanceled}

   Every exported operation of ProposalProcessors holds pps.l for its whole duration (Process keeps it
   until the asynchronous runProcessor has finished: the goroutine does `defer pps.l.Unlock()`), so under
   ANY interleaving of callers the object behaves as a sequence of atomic operations: a schedule is a
   list of ops.  The outcomes of the injected dependencies (getproposal, makenew, the BlockWriter's
   Manifest/Save, a foreign processor's Cancel) are arguments of the op: the theorems quantify over them.

   Two kinds of ProposalProcessor are modelled:
     stub = false : isaac.DefaultProposalProcessor (own guards: issaved, isCanceled, manifest == new block)
     stub = true  : an arbitrary foreign processor that saves whenever it is asked to (no guard at all);
                    what is proved for it is what ProposalProcessors guarantees by itself.

   Identifiers: proposal fact hashes and manifest hashes are opaque N; heights are Z; a processor gets the
   serial number of its creation (makenew success) as pid. *)
From Coq Require Import ZArith NArith List Bool.
From MV Require Gen.C11.
Import ListNotations.
Open Scope Z_scope.

(* error classes (the harness maps Go errors with errors.Is) *)
Inductive errc := ENotProcessed   (* isaac.ErrNotProposalProcessorProcessed *)
                | EAlreadySaved   (* isaac.ErrProcessorAlreadySaved *)
                | EOther.

(* outcome of the processing proper (for the default processor: of BlockWriter.Manifest / NewWriterFunc) *)
Inductive pout := PoOk (m : N)     (* manifest with hash m *)
                | PoErr            (* some error *)
                | PoIgnore         (* error wrapping ErrIgnoreErrorProposalProcessor *)
                | PoNotProc.       (* error wrapping ErrNotProposalProcessorProcessed *)

(* outcome of BlockWriter.Save (for a stub: of its Save) once it is reached *)
Inductive wout := WOk | WErr | WCtxCanceled.

Record proc := mkProc {
  pid : N; stub : bool;
  pfact : N;                (* Proposal().Fact().Hash() *)
  pheight : Z;              (* Proposal().Point().Height() *)
  pmanifest : option N;     (* p.manifest (hash) *)
  isprocessed : bool; issaved : bool;
  canceled : bool           (* p.getctx().Err() != nil *)
}.

Definition set_canceled (p : proc) : proc :=
  mkProc (pid p) (stub p) (pfact p) (pheight p) (pmanifest p) (isprocessed p) (issaved p) true.
Definition set_processed (p : proc) (m : N) : proc :=
  mkProc (pid p) (stub p) (pfact p) (pheight p) (Some m) true (issaved p) (canceled p).
Definition set_saved (p : proc) : proc :=   (* issaved = true; deferred close() cancels the context *)
  mkProc (pid p) (stub p) (pfact p) (pheight p) (pmanifest p) (isprocessed p) true true.

(* what the block writer (or a stub's Save) sees when a block is written *)
Record saveev := mkSave {
  s_pid : N; s_stub : bool;
  s_reqfact : N;            (* the fact hash Save was called with (= avp.BallotMajority().Proposal()) *)
  s_pfact : N;              (* fact of the proposal the writer was made for *)
  s_avph : Z;               (* avp.Point().Height() *)
  s_ph : Z;                 (* height of the proposal = height of the written block *)
  s_nb : N;                 (* avp.BallotMajority().NewBlock() *)
  s_pm : option N           (* manifest computed by this processor *)
}.

Inductive event := EvSave (e : saveev) | EvCancel (p : N).   (* EvCancel: ProposalProcessor.Cancel() returned nil *)

Record st := mkSt { cur : option proc; prev_saved : Z; next_pid : N }.

Definition init : st := mkSt None Gen.C11.nil_height 0.   (* previousSaved: base.NilHeight (regenerated from base/point.go) *)

Inductive op :=
| OProcess (fact : N)
           (gp : option (N * Z))   (* getproposal (after retries): None = error / nil; Some (fact', height) of the proposal returned *)
           (mk : option bool)      (* makenew (after retries): None = error; Some stub? *)
           (cok : bool)            (* whether a stub's Cancel() succeeds during this op (the default one never fails) *)
           (po : pout)
| OSave (fact : N) (h : Z) (nb : N) (wo : wout) (cok : bool)
| OCancel (cok : bool).

Inductive res :=
| RNil                 (* Process: (nil, nil): same proposal already there *)
| RErr (c : errc)
| RManifest (m : N)    (* Process: manifest returned by the process func *)
| RIgnored             (* Process: process func returned (nil, nil) *)
| ROk.                 (* Save / Cancel succeeded *)

(* ProposalProcessor.Cancel(): (processor after, ok?, events) *)
Definition do_cancel (cok : bool) (p : proc) : proc * bool * list event :=
  if stub p then
    if cok then (set_canceled p, true, [EvCancel (pid p)]) else (p, false, [])
  else (set_canceled p, true, [EvCancel (pid p)]).

(* ProposalProcessor.Process: (processor after, Some manifest | None with error class / ignore) *)
Inductive presult := PrOk (m : N) | PrIgnore | PrErr (c : errc).

Definition proc_process (p : proc) (po : pout) : proc * presult :=
  if negb (stub p) && (isprocessed p || canceled p) then (p, PrErr EOther)   (* "already processed" / "already canceled" *)
  else match po with
       | PoOk m => (set_processed p m, PrOk m)
       | PoErr => (p, PrErr EOther)
       | PoIgnore => (p, PrIgnore)
       | PoNotProc => (p, PrErr ENotProcessed)
       end.

(* ProposalProcessors.runProcessor *)
Definition run_processor (p : proc) (po : pout) (cok : bool) : proc * res * list event :=
  match proc_process p po with
  | (p', PrOk m) => (p', RManifest m, [])
  | (p', PrIgnore) => (p', RIgnored, [])
  | (p', PrErr c) =>
      match do_cancel cok p' with
      | (p'', true, ev) => (p'', RErr c, ev)
      | (p'', false, ev) => (p'', RErr EOther, ev)
      end
  end.

Definition with_cur (s : st) (c : option proc) : st := mkSt c (prev_saved s) (next_pid s).

(* ProposalProcessors.Process + newProcessor (+ the returned process func, called at once) *)
Definition step_process (s : st) (fact : N) (gp : option (N * Z)) (mk : option bool) (cok : bool) (po : pout)
  : st * res * list event :=
  let continue (c1 : option proc) (ev1 : list event) :=
    match gp with
    | None => (with_cur s c1, RErr ENotProcessed, ev1)        (* pps.p keeps the (cancelled) old processor *)
    | Some (f', h') =>
        match mk with
        | None => (with_cur s c1, RErr EOther, ev1)
        | Some sb =>
            let p := mkProc (next_pid s) sb f' h' None false false false in
            match run_processor p po cok with
            | (p', r, ev2) => (mkSt (Some p') (prev_saved s) (N.succ (next_pid s)), r, ev1 ++ ev2)
            end
        end
    end in
  match cur s with
  | None => continue None []
  | Some p =>
      if N.eqb (pfact p) fact then (s, RNil, [])
      else match do_cancel cok p with
           | (p', true, ev) => continue (Some p') ev
           | (_, false, _) => (s, RErr EOther, [])
           end
  end.

(* ProposalProcessor.Save *)
Definition proc_save (p : proc) (fact : N) (h : Z) (nb : N) (wo : wout) : proc * option errc * list event :=
  let ev := EvSave (mkSave (pid p) (stub p) fact (pfact p) h (pheight p) nb (pmanifest p)) in
  let wres := match wo with WOk => None | WErr => Some EOther | WCtxCanceled => Some ENotProcessed end in
  if stub p then (p, wres, [ev])
  else if issaved p then (p, Some EAlreadySaved, [])
  else if canceled p then (p, Some EOther, [])
  else
    let p' := set_saved p in
    match pmanifest p with
    | None => (p', Some ENotProcessed, [])
    | Some m => if N.eqb m nb then (p', wres, [ev]) else (p', Some ENotProcessed, [])
    end.

(* ProposalProcessors.save *)
Definition save_inner (s : st) (fact : N) (h : Z) (nb : N) (wo : wout) : st * option errc * list event :=
  if h <=? prev_saved s then (s, Some EAlreadySaved, [])
  else match cur s with
       | None => (s, Some ENotProcessed, [])
       | Some p =>
           if negb (N.eqb (pfact p) fact) then (s, Some ENotProcessed, [])
           else match proc_save p fact h nb wo with
                | (p', r, ev) => (mkSt (Some p') h (next_pid s), r, ev)
                end
       end.

(* ProposalProcessors.Save *)
Definition step_save (s : st) (fact : N) (h : Z) (nb : N) (wo : wout) (cok : bool) : st * res * list event :=
  match save_inner s fact h nb wo with
  | (s1, Some c, ev) =>
      match cur s1 with
      | Some p => match do_cancel cok p with (_, _, ev2) => (with_cur s1 None, RErr c, ev ++ ev2) end
      | None => (s1, RErr c, ev)
      end
  | (s1, None, ev) => (with_cur s1 None, ROk, ev)
  end.

(* ProposalProcessors.Cancel *)
Definition step_cancel (s : st) (cok : bool) : st * res * list event :=
  match cur s with
  | None => (s, ROk, [])
  | Some p => match do_cancel cok p with
              | (_, true, ev) => (with_cur s None, ROk, ev)
              | (_, false, _) => (s, RErr EOther, [])
              end
  end.

Definition step (s : st) (o : op) : st * res * list event :=
  match o with
  | OProcess f gp mk cok po => step_process s f gp mk cok po
  | OSave f h nb wo cok => step_save s f h nb wo cok
  | OCancel cok => step_cancel s cok
  end.

(* the trace of writer saves / cancels of a history, from state s *)
Fixpoint trace (s : st) (ops : list op) : list event :=
  match ops with
  | [] => []
  | o :: r => match step s o with (s', _, ev) => ev ++ trace s' r end
  end.

Fixpoint final (s : st) (ops : list op) : st :=
  match ops with
  | [] => s
  | o :: r => match step s o with (s', _, _) => final s' r end
  end.

Fixpoint saves (l : list event) : list saveev :=
  match l with
  | [] => []
  | EvSave e :: r => e :: saves r
  | EvCancel _ :: r => saves r
  end.

(* ------------------------------------------------------------------ correspondence *)

(* observation after each op: result, and the processor currently held (pid, Cancel() seen) *)
Definition obs := (res * option (N * bool))%type.

Fixpoint run_obs (s : st) (ops : list op) : list obs * list event :=
  match ops with
  | [] => ([], [])
  | o :: r =>
      match step s o with
      | (s', rs, ev) =>
          let ob := (rs, match cur s' with Some p => Some (pid p, canceled p) | None => None end) in
          match run_obs s' r with (obs, evs) => (ob :: obs, ev ++ evs) end
      end
  end.

Definition errc_eqb (a b : errc) : bool :=
  match a, b with
  | ENotProcessed, ENotProcessed | EAlreadySaved, EAlreadySaved | EOther, EOther => true
  | _, _ => false
  end.

Definition res_eqb (a b : res) : bool :=
  match a, b with
  | RNil, RNil | RIgnored, RIgnored | ROk, ROk => true
  | RErr x, RErr y => errc_eqb x y
  | RManifest x, RManifest y => N.eqb x y
  | _, _ => false
  end.

Definition optN_eqb (a b : option N) : bool :=
  match a, b with
  | None, None => true
  | Some x, Some y => N.eqb x y
  | _, _ => false
  end.

Definition obs_eqb (a b : obs) : bool :=
  res_eqb (fst a) (fst b) &&
  match snd a, snd b with
  | None, None => true
  | Some (p, c), Some (q, d) => N.eqb p q && Bool.eqb c d
  | _, _ => false
  end.

Definition saveev_eqb (a b : saveev) : bool :=
  N.eqb (s_pid a) (s_pid b) && Bool.eqb (s_stub a) (s_stub b) && N.eqb (s_reqfact a) (s_reqfact b) &&
  N.eqb (s_pfact a) (s_pfact b) && Z.eqb (s_avph a) (s_avph b) && Z.eqb (s_ph a) (s_ph b) &&
  N.eqb (s_nb a) (s_nb b) && optN_eqb (s_pm a) (s_pm b).

Definition event_eqb (a b : event) : bool :=
  match a, b with
  | EvSave x, EvSave y => saveev_eqb x y
  | EvCancel x, EvCancel y => N.eqb x y
  | _, _ => false
  end.

Fixpoint list_eqb' {A} (eqb : A -> A -> bool) (a b : list A) : bool :=
  match a, b with
  | [], [] => true
  | x :: a', y :: b' => eqb x y && list_eqb' eqb a' b'
  | _, _ => false
  end.

(* a case: the scripted history, the per-op observations of the real objects, the blocks the real
   writers wrote (in order).  Cancel() calls are compared through the per-op [canceled] flag only, so that
   a redundant or a dropped redundant Cancel() of an already dead processor is not a mismatch. *)
Definition case := (list op * list obs * list saveev)%type.

Definition check (c : case) : bool :=
  match c with
  | (ops, ob, evs) =>
      match run_obs init ops with
      | (ob', evs') => list_eqb' obs_eqb ob' ob && list_eqb' saveev_eqb (saves evs') evs
      end
  end.
