(* C11 -- A block is saved only for the agreed manifest, once per height.  Property theorems only.

   [trace init ops] is the sequence of block-writer saves (EvSave) and processor cancellations (EvCancel)
   produced by ANY sequence [ops] of Process / Save / Cancel calls on one ProposalProcessors object, with ANY
   outcomes of the injected dependencies (the outcomes are arguments of the ops).  Because every exported
   method holds pps.l for its whole duration, every interleaving of concurrent callers is such a sequence. *)
From Coq Require Import ZArith NArith List Sorted.
From MV Require Import C11.Model C11.Proofs.
From MV Require Gen.C11.
Import ListNotations.
Open Scope Z_scope.

(* A block is written only by the processor of the very proposal named by the ACCEPT majority (the fact hash
   Save was called with), and -- for isaac.DefaultProposalProcessor -- only if the manifest that processor
   computed is the ACCEPT majority's new block. *)
Theorem C11_save_only_matching : forall ops e, In (EvSave e) (trace init ops) ->
  s_pfact e = s_reqfact e /\ (s_stub e = false -> s_pm e = Some (s_nb e)).
Proof. intros ops e. exact (trace_matching ops init e). Qed.

(* The heights (of the ACCEPT voteproofs) of the written blocks are strictly increasing in time:
   never a height at or below one already saved -- whatever the processors do (stub or default). *)
Theorem C11_heights_increase : forall ops, StronglySorted Z.lt (map s_avph (saves (trace init ops))).
Proof. intros ops. exact (proj2 (trace_heights ops init)). Qed.

(* ... hence at most one block per height: two saves at the same height are the same save *)
Theorem C11_once_per_height : forall ops i j a b,
  nth_error (saves (trace init ops)) i = Some a -> nth_error (saves (trace init ops)) j = Some b ->
  s_avph a = s_avph b -> i = j.
Proof.
  intros ops i j a b Hi Hj E.
  pose proof (sorted_lt_nth _ (proj2 (trace_heights ops init))) as S. unfold hs in S.
  assert (forall k x, nth_error (saves (trace init ops)) k = Some x ->
                      nth_error (map s_avph (saves (trace init ops))) k = Some (s_avph x)) as M
    by (intros k x Hk; apply map_nth_error; exact Hk).
  destruct (Nat.lt_trichotomy i j) as [L|[L|L]]; [|exact L|]; exfalso.
  - specialize (S i j _ _ L (M _ _ Hi) (M _ _ Hj)). rewrite E in S. apply (Z.lt_irrefl _ S).
  - specialize (S j i _ _ L (M _ _ Hj) (M _ _ Hi)). rewrite E in S. apply (Z.lt_irrefl _ S).
Qed.

(* The height of the block itself is that of its proposal.  ProposalProcessors never compares it with the
   voteproof's height (the fact hash binds them: hypothesis); when they agree for the saved events, the
   block heights are strictly increasing too. *)
Theorem C11_block_heights_increase : forall ops,
  Forall (fun e => s_ph e = s_avph e) (saves (trace init ops)) ->
  StronglySorted Z.lt (map s_ph (saves (trace init ops))).
Proof.
  intros ops F. rewrite (consistent_block_heights _ F). exact (proj2 (trace_heights ops init)).
Qed.

(* Once Cancel() of a default processor has returned, that processor never writes a block. *)
Theorem C11_no_save_after_cancel : forall ops l1 q l2 e,
  trace init ops = l1 ++ EvCancel q :: l2 -> In (EvSave e) l2 -> s_stub e = false -> s_pid e <> q.
Proof. exact trace_no_save_after_cancel. Qed.

(* the initial previousSaved of the model is the code's base.NilHeight, below every valid height *)
Theorem C11_initial_previous_saved_is_code : prev_saved init = Gen.C11.nil_height /\ Gen.C11.nil_height = -1.
Proof. split; reflexivity. Qed.

(* ---- non-vacuity: histories in which blocks are written, refused and cancelled *)

(* process proposal 7 (height 3, manifest 40), save with the matching voteproof: one block, at height 3 *)
Example C11_ex_saved :
  saves (trace init [OProcess 7 (Some (7%N, 3)) (Some false) true (PoOk 40); OSave 7 3 40 WOk true])
  = [mkSave 0 false 7 7 3 3 40 (Some 40%N)].
Proof. vm_compute. reflexivity. Qed.

(* mismatching new block, then a second attempt at the same height: nothing is written at all *)
Example C11_ex_refused :
  saves (trace init [OProcess 7 (Some (7%N, 3)) (Some false) true (PoOk 40); OSave 7 3 41 WOk true;
                     OProcess 7 (Some (7%N, 3)) (Some false) true (PoOk 40); OSave 7 3 40 WOk true]) = [].
Proof. vm_compute. reflexivity. Qed.

(* a processor cancelled because a different proposal was asked for (whose fetch failed) stays reachable
   and refuses to save: this is where the default processor's own isCanceled guard is needed *)
Example C11_ex_cancelled_reachable :
  trace init [OProcess 7 (Some (7%N, 3)) (Some false) true (PoOk 40); OProcess 8 None None true PoErr;
              OSave 7 3 40 WOk true] = [EvCancel 0; EvCancel 0].
Proof. vm_compute. reflexivity. Qed.

(* the same history with a guard-less (stub) processor does write after Cancel: the theorem's restriction to
   default processors is necessary *)
Example C11_ex_stub_saves_after_cancel :
  trace init [OProcess 7 (Some (7%N, 3)) (Some true) true (PoOk 40); OProcess 8 None None true PoErr;
              OSave 7 3 40 WOk true] = [EvCancel 0; EvSave (mkSave 0 true 7 7 3 3 40 (Some 40%N))].
Proof. vm_compute. reflexivity. Qed.
