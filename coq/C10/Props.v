(* C10 -- Block production is deterministic.  Property theorems only.

   One block = PreProcess of the proposal's operations (and the INIT voteproof's expels) sequentially in
   proposal order (C17.Model.step), then one worker job per operation that has a result: Process ->
   merge values into the writer's state mergers, and the process result into slot [index] of the
   operations tree.  A schedule is the order [ms'] in which the merge values reach the mergers and the
   order [ws'] in which the results are written: any worker count and any goroutine interleaving gives
   some pair of permutations of the canonical lists [block_mvs E ops], [block_results E ops]. *)
From Coq Require Import ZArith NArith List Bool Permutation String.
From MV Require Import C17.Model C17.Proofs3 C10.Model C10.Proofs Gen.C17.
Import ListNotations.
Open Scope list_scope.

(* Closing the mergers gives the same new states whatever the order the merge values arrived in
   (= whatever the completion order of the worker jobs). *)
Theorem C10_merge_perm : forall E ops ms' flags, Permutation (block_mvs E ops) ms' ->
  close_all E flags (merge_all ms') = close_all E flags (merge_all (block_mvs E ops)).
Proof. exact merge_perm. Qed.

(* Whatever the completion order, slot i of the operations tree holds the result of proposal entry i;
   the tree's leaves are the entries that have a result, in proposal order. *)
Theorem C10_index_stable : forall E ops ws', Permutation (block_results E ops) ws' ->
  write_slots (List.length ops) ws' = flags_from E pst0 ops /\
  leaves_from 0 (write_slots (List.length ops) ws') = block_results E ops.
Proof.
  intros E ops ws' P. split; [exact (index_stable E ops ws' P)|].
  rewrite (index_stable E ops ws' P). apply leaves_results.
Qed.

(* The three commitments of the manifest -- operations-tree leaves, states-tree leaves (key, new value,
   operations), new suffrage value -- are the same under every schedule: a function of (prior state,
   proposal, operations) alone. *)
Theorem C10_manifest_fun : forall E ops ms' ws',
  Permutation (block_mvs E ops) ms' -> Permutation (block_results E ops) ws' ->
  produce E (List.length ops) ms' ws' = produce_canonical E ops.
Proof. exact manifest_fun. Qed.

(* ... and these are the block's outcome of C17 (whose theorems therefore hold of every schedule) *)
Theorem C10_canonical_is_block : forall E ops o, block E ops = Some o ->
  cm_suffrage (produce_canonical E ops) = o_suf o /\
  cm_ops (produce_canonical E ops) = results_from 0 (o_flags o).
Proof.
  intros E ops o B. split; [exact (canonical_suffrage E ops o B)|].
  rewrite canonical_ops. apply block_some in B. destruct B as [_ [_ ->]]. reflexivity.
Qed.

(* the states tree lists the states in the order of sort.Strings over the code's own state keys *)
Theorem C10_state_key_order :
  sort_strings [suffrage_state_key; suffrage_candidate_state_key; network_policy_state_key] =
  [network_policy_state_key; suffrage_state_key; suffrage_candidate_state_key].
Proof. exact key_order. Qed.

(* ---------------------------------------------------------------- non-vacuity *)
Definition exE : env :=
  mkEnv 10 670 3 (mkPrior 4 [mkNode 1 1 0; mkNode 2 2 0; mkNode 3 3 0] (Some [mkCand 7 7 9 12; mkCand 5 5 9 12]) 1).
Definition exOps : list op :=
  [OJoin 7 9 [(7, 7); (1, 1); (2, 2); (3, 3)]%N; ONil; OCandidate 9 9; OJoin 5 9 [(5, 5); (1, 1); (2, 2); (3, 3)]%N;
   OPolicy 2 [(1, 1); (2, 2); (3, 3)]%N; OInvalid; ODisjoin 2 0 [(2, 2)%N]].

(* two joins, a candidate, a policy change and a disjoin: 7 merge values, 6 results; a schedule that
   reverses both gives the same commitments, with the joined nodes sorted by address *)
Example C10_example :
  List.length (block_mvs exE exOps) = 7%nat /\ List.length (block_results exE exOps) = 6%nat /\
  produce exE 7 (rev (block_mvs exE exOps)) (rev (block_results exE exOps)) = produce_canonical exE exOps /\
  cm_suffrage (produce_canonical exE exOps) = Some (5%Z, [mkNode 1 1 0; mkNode 3 3 0; mkNode 5 5 11; mkNode 7 7 11]) /\
  cm_ops (produce_canonical exE exOps) = [(0, true); (2, true); (3, true); (4, true); (5, false); (6, true)]%nat /\
  map (fun s => fst (fst s)) (cm_states (produce_canonical exE exOps)) = [network_policy_state_key; suffrage_state_key; suffrage_candidate_state_key].
Proof. vm_compute. repeat split; reflexivity. Qed.

(* the permutation hypothesis matters: without the sort in closeValue the result would follow the
   arrival order -- the canonical and the reversed arrival orders of the joined nodes differ *)
Example C10_example_orders_differ :
  m_joined (merge_all (block_mvs exE exOps)) <> m_joined (merge_all (rev (block_mvs exE exOps))).
Proof. vm_compute. discriminate. Qed.
