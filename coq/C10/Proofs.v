(* C10 -- lemmas: closing the mergers and filling the operations tree do not depend on the schedule. *)
From Coq Require Import ZArith NArith List Bool Lia Permutation Sorted String.
From MV Require Import C17.Model C17.Proofs C17.Proofs1 C17.Proofs2 C17.Proofs3 C10.Model Gen.C17.
Import ListNotations.
Open Scope list_scope.

(* ---------------------------------------------------------------- projections under permutation *)
Lemma mj_perm ms ms' : Permutation ms ms' -> Permutation (mj ms) (mj ms').
Proof. intros P. unfold mj. apply Permutation_flat_map. exact P. Qed.
Lemma md_perm ms ms' : Permutation ms ms' -> Permutation (md ms) (md ms').
Proof. intros P. unfold md. apply Permutation_flat_map. exact P. Qed.
Lemma ma_perm ms ms' : Permutation ms ms' -> Permutation (ma ms) (ma ms').
Proof. intros P. unfold ma. apply Permutation_flat_map. exact P. Qed.
Lemma mr_perm ms ms' : Permutation ms ms' -> Permutation (mr ms) (mr ms').
Proof. intros P. unfold mr. apply Permutation_flat_map. exact P. Qed.
Lemma mp_perm ms ms' : Permutation ms ms' -> Permutation (mp ms) (mp ms').
Proof. intros P. unfold mp. apply Permutation_flat_map. exact P. Qed.
Lemma so_perm ms ms' : Permutation ms ms' -> Permutation (so ms) (so ms').
Proof. intros P. unfold so. apply Permutation_flat_map. exact P. Qed.
Lemma co_perm ms ms' : Permutation ms ms' -> Permutation (co ms) (co ms').
Proof. intros P. unfold co. apply Permutation_flat_map. exact P. Qed.
Lemma po_perm ms ms' : Permutation ms ms' -> Permutation (po ms) (po ms').
Proof. intros P. unfold po. apply Permutation_flat_map. exact P. Qed.

Lemma perm_nil_iff {A} (l l' : list A) : Permutation l l' -> (l = [] <-> l' = []).
Proof.
  intros P. split; intros ->.
  - apply Permutation_nil. exact P.
  - apply Permutation_nil. symmetry. exact P.
Qed.

Lemma perm_le1 {A} (l l' : list A) : Permutation l l' -> (List.length l <= 1)%nat -> l = l'.
Proof.
  intros P L. destruct l as [|a [|b r]]; simpl in L; try lia.
  - symmetry. apply Permutation_nil. exact P.
  - symmetry. apply Permutation_length_1_inv. exact P.
Qed.

(* ---------------------------------------------------------------- suffrage merger *)
Lemma close_suffrage_perm E ms ms' : Permutation ms ms' -> NoDup (map fst (mj ms)) ->
  close_suffrage E (merge_all ms') = close_suffrage E (merge_all ms).
Proof.
  intros P ND. symmetry. apply close_suffrage_ext; auto.
  - intros p. split; apply Permutation_in; [|symmetry]; apply mj_perm; exact P.
  - eapply Permutation_NoDup; [|exact ND]. apply Permutation_map. apply mj_perm. exact P.
  - intros x. split; apply Permutation_in; [|symmetry]; apply md_perm; exact P.
Qed.

(* ---------------------------------------------------------------- candidates merger *)
Definition prior_cands (E : env) : list cand := match p_cands (e_prior E) with Some l => l | None => [] end.

Lemma close_cands_spec E ms : close_cands E (merge_all ms) =
  match ma ms, mr ms with
  | [], [] => None
  | _, _ =>
      Some (filter (fun c => negb (memN (c_addr c) (map c_addr (ma ms))))
              (filter (fun c => negb (memN (c_addr c) (mr ms))) (prior_cands E)) ++ sort_by c_addr (ma ms))
  end.
Proof. rewrite merge_all_spec. reflexivity. Qed.

Lemma close_cands_perm E ms ms' : Permutation ms ms' -> NoDup (map c_addr (ma ms)) ->
  close_cands E (merge_all ms') = close_cands E (merge_all ms).
Proof.
  intros P ND. rewrite !close_cands_spec.
  pose proof (ma_perm _ _ P) as PA. pose proof (mr_perm _ _ P) as PR.
  assert (S : sort_by c_addr (ma ms) = sort_by c_addr (ma ms')) by (apply sort_by_nodup_eq; auto).
  assert (F1 : forall l, filter (fun c => negb (memN (c_addr c) (mr ms))) l = filter (fun c => negb (memN (c_addr c) (mr ms'))) l).
  { intros l. apply filter_ext. intros c. f_equal. apply memN_perm. exact PR. }
  assert (F2 : forall l, filter (fun c => negb (memN (c_addr c) (map c_addr (ma ms)))) l =
                         filter (fun c => negb (memN (c_addr c) (map c_addr (ma ms')))) l).
  { intros l. apply filter_ext. intros c. f_equal. apply memN_perm. apply Permutation_map. exact PA. }
  rewrite <- S, <- F1, <- F2.
  pose proof (perm_nil_iff _ _ PA) as EA. pose proof (perm_nil_iff _ _ PR) as ER.
  destruct (ma ms) as [|a1 ar] eqn:Q1, (ma ms') as [|a1' ar'] eqn:Q1';
    try (destruct EA as [EA1 EA2]; (specialize (EA1 eq_refl) || specialize (EA2 eq_refl)); discriminate);
  destruct (mr ms) as [|r1 rr] eqn:Q2, (mr ms') as [|r1' rr'] eqn:Q2';
    try (destruct ER as [ER1 ER2]; (specialize (ER1 eq_refl) || specialize (ER2 eq_refl)); discriminate);
  reflexivity.
Qed.

(* ---------------------------------------------------------------- policy merger *)
Lemma close_policy_perm ms ms' : Permutation ms ms' -> (List.length (mp ms) <= 1)%nat ->
  close_policy (merge_all ms') = close_policy (merge_all ms).
Proof.
  intros P L. rewrite !merge_all_spec. unfold close_policy. simpl.
  rewrite (perm_le1 _ _ (mp_perm _ _ P) L). reflexivity.
Qed.

(* ---------------------------------------------------------------- all mergers *)
Lemma close_all_perm E ms ms' flags : Permutation ms ms' ->
  NoDup (map fst (mj ms)) -> NoDup (map c_addr (ma ms)) -> (List.length (mp ms) <= 1)%nat ->
  close_all E flags (merge_all ms') = close_all E flags (merge_all ms).
Proof.
  intros P N1 N2 L. unfold close_all.
  rewrite (close_suffrage_perm E ms ms' P N1), (close_cands_perm E ms ms' P N2), (close_policy_perm ms ms' P L).
  rewrite !merge_all_spec. simpl.
  rewrite (sort_nat_perm _ _ (so_perm _ _ P)), (sort_nat_perm _ _ (co_perm _ _ P)), (sort_nat_perm _ _ (po_perm _ _ P)).
  reflexivity.
Qed.

Lemma merge_perm E ops ms' flags : Permutation (block_mvs E ops) ms' ->
  close_all E flags (merge_all ms') = close_all E flags (merge_all (block_mvs E ops)).
Proof.
  intros P. apply close_all_perm; auto.
  - apply joined_nodup.
  - apply added_nodup.
  - apply policies_le1.
Qed.

(* ---------------------------------------------------------------- states tree *)
Lemma touched_keys_perm ms ms' : Permutation ms ms' -> touched_keys (merge_all ms') = touched_keys (merge_all ms).
Proof.
  intros P. rewrite !merge_all_spec. unfold touched_keys. simpl.
  pose proof (perm_nil_iff _ _ (mj_perm _ _ P)) as E1. pose proof (perm_nil_iff _ _ (md_perm _ _ P)) as E2.
  pose proof (perm_nil_iff _ _ (ma_perm _ _ P)) as E3. pose proof (perm_nil_iff _ _ (mr_perm _ _ P)) as E4.
  pose proof (perm_nil_iff _ _ (mp_perm _ _ P)) as E5.
  f_equal; [|f_equal].
  - destruct (mj ms), (mj ms'); try (destruct E1 as [A B]; (specialize (A eq_refl) || specialize (B eq_refl)); discriminate);
    destruct (md ms), (md ms'); try (destruct E2 as [A B]; (specialize (A eq_refl) || specialize (B eq_refl)); discriminate); reflexivity.
  - destruct (ma ms), (ma ms'); try (destruct E3 as [A B]; (specialize (A eq_refl) || specialize (B eq_refl)); discriminate);
    destruct (mr ms), (mr ms'); try (destruct E4 as [A B]; (specialize (A eq_refl) || specialize (B eq_refl)); discriminate); reflexivity.
  - destruct (mp ms), (mp ms'); try (destruct E5 as [A B]; (specialize (A eq_refl) || specialize (B eq_refl)); discriminate); reflexivity.
Qed.

Lemma state_leaves_perm E ms ms' : Permutation ms ms' ->
  NoDup (map fst (mj ms)) -> NoDup (map c_addr (ma ms)) -> (List.length (mp ms) <= 1)%nat ->
  state_leaves E (merge_all ms') = state_leaves E (merge_all ms).
Proof.
  intros P N1 N2 L. unfold state_leaves. rewrite (touched_keys_perm _ _ P).
  apply flat_map_ext. intros k. unfold state_of_key.
  rewrite (close_suffrage_perm E ms ms' P N1), (close_cands_perm E ms ms' P N2), (close_policy_perm ms ms' P L).
  rewrite !merge_all_spec. simpl.
  rewrite (sort_nat_perm _ _ (so_perm _ _ P)), (sort_nat_perm _ _ (co_perm _ _ P)), (sort_nat_perm _ _ (po_perm _ _ P)).
  reflexivity.
Qed.

(* ---------------------------------------------------------------- operations tree *)
Definition wr (arr : list (option bool)) (w : nat * bool) : list (option bool) := set_nth (fst w) (Some (snd w)) arr.

Lemma set_nth_comm {A} i j (a b : A) : forall l, i <> j -> set_nth i a (set_nth j b l) = set_nth j b (set_nth i a l).
Proof.
  revert j. induction i as [|i IH]; intros j l Hij; destruct l as [|x r]; destruct j as [|j]; simpl; try reflexivity; try lia.
  f_equal. apply IH. lia.
Qed.

Lemma fold_wr_perm ws ws' : Permutation ws ws' -> NoDup (map fst ws) ->
  forall arr, fold_left wr ws arr = fold_left wr ws' arr.
Proof.
  induction 1 as [|x l l' P IH|x y l|l l' l'' P1 IH1 P2 IH2]; intros ND arr.
  - reflexivity.
  - simpl. apply IH. inversion ND; assumption.
  - simpl. f_equal. unfold wr. apply set_nth_comm.
    simpl in ND. inversion ND as [|? ? Nin _]; subst. intro E. apply Nin. left. exact E.
  - rewrite IH1 by exact ND. apply IH2. eapply Permutation_NoDup; [|exact ND]. apply Permutation_map. exact P1.
Qed.

Lemma results_indices i flags : Forall (fun w => i <= fst w)%nat (results_from i flags) /\ NoDup (map fst (results_from i flags)).
Proof.
  revert i. induction flags as [|[b|] r IH]; intros i; simpl.
  - split; constructor.
  - destruct (IH (S i)) as [F N]. split.
    + constructor; [simpl; lia|]. eapply Forall_impl; [|exact F]. simpl. intros; lia.
    + constructor; [|exact N]. intro H. apply in_map_iff in H. destruct H as [w [E Hw]].
      rewrite Forall_forall in F. specialize (F w Hw). lia.
  - destruct (IH (S i)) as [F N]. split; [|exact N]. eapply Forall_impl; [|exact F]. simpl. intros; lia.
Qed.

Lemma set_nth_app {A} (pre : list A) a v r : set_nth (List.length pre) v (pre ++ a :: r) = pre ++ v :: r.
Proof. induction pre as [|x p IH]; simpl; [reflexivity|]. f_equal. exact IH. Qed.

(* writing the results in proposal order fills the slots with the flags *)
Lemma write_canonical : forall flags pre,
  fold_left wr (results_from (List.length pre) flags) (pre ++ repeat None (List.length flags)) = pre ++ flags.
Proof.
  induction flags as [|[b|] r IH]; intros pre; simpl.
  - reflexivity.
  - unfold wr at 2. simpl fst; simpl snd. rewrite set_nth_app.
    change (pre ++ Some b :: repeat None (List.length r)) with (pre ++ [Some b] ++ repeat None (List.length r)).
    rewrite app_assoc. replace (S (List.length pre)) with (List.length (pre ++ [Some b])) by (rewrite app_length; simpl; lia).
    rewrite IH. rewrite <- app_assoc. reflexivity.
  - change (pre ++ None :: repeat None (List.length r)) with (pre ++ [None] ++ repeat None (List.length r)).
    rewrite app_assoc. replace (S (List.length pre)) with (List.length (pre ++ [None])) by (rewrite app_length; simpl; lia).
    rewrite IH. rewrite <- app_assoc. reflexivity.
Qed.

Lemma flags_length E : forall ops st, List.length (flags_from E st ops) = List.length ops.
Proof. induction ops as [|a r IH]; intros st; [reflexivity|]. rewrite flags_from_cons. simpl. rewrite IH. reflexivity. Qed.

Lemma leaves_results i flags : leaves_from i flags = results_from i flags.
Proof. revert i. induction flags as [|[b|] r IH]; intros i; simpl; rewrite ?IH; reflexivity. Qed.

(* whatever the completion order of the jobs, slot i holds the result of proposal entry i *)
Lemma index_stable E ops ws' : Permutation (block_results E ops) ws' ->
  write_slots (List.length ops) ws' = flags_from E pst0 ops.
Proof.
  intros P. unfold write_slots. change (fun arr w => set_nth (fst w) (Some (snd w)) arr) with wr.
  rewrite <- (fold_wr_perm _ _ P) by apply results_indices.
  unfold block_results. rewrite <- (flags_length E ops pst0).
  apply (write_canonical (flags_from E pst0 ops) []).
Qed.

(* ---------------------------------------------------------------- the commitments *)
Lemma manifest_fun E ops ms' ws' : Permutation (block_mvs E ops) ms' -> Permutation (block_results E ops) ws' ->
  produce E (List.length ops) ms' ws' = produce_canonical E ops.
Proof.
  intros PM PW. unfold produce_canonical, produce.
  rewrite (index_stable E ops ws' PW), (index_stable E ops _ (Permutation_refl _)).
  rewrite (state_leaves_perm E _ _ PM), (close_suffrage_perm E _ _ PM); auto;
    try apply joined_nodup; try apply added_nodup; try apply policies_le1.
Qed.

(* the canonical commitments are the block's outcome: leaves = the entries with a slot, in proposal order *)
Lemma canonical_ops E ops : cm_ops (produce_canonical E ops) = results_from 0 (flags_from E pst0 ops).
Proof.
  unfold produce_canonical, produce. simpl. rewrite (index_stable E ops _ (Permutation_refl _)). apply leaves_results.
Qed.

Lemma canonical_suffrage E ops o : block E ops = Some o -> cm_suffrage (produce_canonical E ops) = o_suf o.
Proof. intros B. apply block_some in B. destruct B as [_ [_ ->]]. reflexivity. Qed.

(* ---------------------------------------------------------------- key order *)
Lemma key_order : sort_strings [suffrage_state_key; suffrage_candidate_state_key; network_policy_state_key] =
                  [network_policy_state_key; suffrage_state_key; suffrage_candidate_state_key].
Proof. vm_compute. reflexivity. Qed.
