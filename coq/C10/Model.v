(* C10 -- block production is deterministic.  Executable model of what the block writer does with the
   results of the operation processors under an arbitrary schedule.  No proofs here.
   The processors, merge values and mergers are those of C17.Model.

   Transcribes (files under /repo):
     isaac/proposal_processor.go  processOperations: PreProcess sequentially; for every operation that has a
                                  result, one worker job: Process -> writer.SetStates (merge) and
                                  writer.SetProcessResult(index, ...) -- the jobs complete in any order
     isaac/block/writer.go        SetProcessResult: opstreeg.Add(index, node); Manifest: opstreeg.Tree(),
                                  closeStateValues, NewManifest(opsroot, statesroot, suffrage)
     util/fixedtree/writer.go     Writer.Add (slot write), Tree(): shrinkNodes drops the empty slots
     isaac/block/states_merger.go DefaultStatesMerger.SetStates (GetOrCreate merger per key, Merge),
                                  CloseStates: sort.Strings(keys), state i of the sorted keys gets tree index i
     base/base_state.go           BaseStateValueMerger.CloseValue: operations sorted

   A schedule is (ms, ws): the order in which the merge values reach the mergers and the order in
   which the process results are written into the operations tree.  Every real execution (any worker
   count, any goroutine interleaving; each Merge and each slot write is atomic: mutex / distinct
   array cell) corresponds to one pair of permutations of the canonical lists. *)
From Coq Require Import ZArith NArith List Bool String.
From MV Require Import C17.Model Gen.C17.
Import ListNotations.
Open Scope list_scope.

(* ---------------------------------------------------------------- operations tree *)

(* (index, in state?) for every entry that gets a SetProcessResult call, proposal order *)
Fixpoint results_from (i : nat) (flags : list (option bool)) : list (nat * bool) :=
  match flags with
  | [] => []
  | Some b :: r => (i, b) :: results_from (S i) r
  | None :: r => results_from (S i) r
  end.

Fixpoint set_nth {A} (i : nat) (v : A) (l : list A) : list A :=
  match l, i with
  | [], _ => []                      (* Go: "add to Tree; out of range" error -- never for indices < size *)
  | _ :: r, O => v :: r
  | a :: r, S j => a :: set_nth j v r
  end.

(* fixedtree.Writer: nodes = make([]Node, size); Add(index, node) in the order of the schedule *)
Definition write_slots (size : nat) (ws : list (nat * bool)) : list (option bool) :=
  fold_left (fun arr w => set_nth (fst w) (Some (snd w)) arr) ws (repeat None size).

(* Tree(): shrinkNodes removes the nil slots; leaf j = the j-th filled slot, tagged with its entry *)
Fixpoint leaves_from (i : nat) (slots : list (option bool)) : list (nat * bool) :=
  match slots with
  | [] => []
  | Some b :: r => (i, b) :: leaves_from (S i) r
  | None :: r => leaves_from (S i) r
  end.

(* ---------------------------------------------------------------- states tree *)

Definition str_leb (a b : string) : bool := String.leb a b.
Fixpoint insert_str (a : string) (l : list string) : list string :=
  match l with
  | [] => [a]
  | b :: r => if str_leb a b then a :: l else b :: insert_str a r
  end.
Definition sort_strings (l : list string) : list string := fold_right insert_str [] l.

(* keys that have a merger, in the order the mergers were created (schedule dependent) *)
Definition touched_keys (m : merged) : list string :=
  (match m_joined m, m_disjoined m with [], [] => [] | _, _ => [suffrage_state_key] end) ++
  (match m_added m, m_removes m with [], [] => [] | _, _ => [suffrage_candidate_state_key] end) ++
  (match m_policies m with [] => [] | _ => [network_policy_state_key] end).

(* what one new state commits to: its key, the new value, the operations that touched it *)
Inductive stval :=
| VSuffrage (height : Z) (nodes : list node)
| VCands (cs : list cand)
| VPolicy (p : N).

Definition state_of_key (E : env) (m : merged) (k : string) : option (string * stval * list nat) :=
  if String.eqb k suffrage_state_key then
    match close_suffrage E m with Some (h, ns) => Some (k, VSuffrage h ns, sort_nat (m_suf_ops m)) | None => None end
  else if String.eqb k suffrage_candidate_state_key then
    match close_cands E m with Some cs => Some (k, VCands cs, sort_nat (m_cand_ops m)) | None => None end
  else if String.eqb k network_policy_state_key then
    match close_policy m with Some p => Some (k, VPolicy p, sort_nat (m_pol_ops m)) | None => None end
  else None.

(* CloseStates: sorted keys; ignored values leave an empty slot, removed by Tree() *)
Definition state_leaves (E : env) (m : merged) : list (string * stval * list nat) :=
  flat_map (fun k => match state_of_key E m k with Some s => [s] | None => [] end) (sort_strings (touched_keys m)).

(* ---------------------------------------------------------------- the manifest's three commitments *)

Record commitments := mkCommit {
  cm_ops : list (nat * bool);                       (* operations tree leaves: (proposal entry, in state?) *)
  cm_states : list (string * stval * list nat);     (* states tree leaves *)
  cm_suffrage : option (Z * list node)              (* new suffrage state (None: previous manifest's hash) *)
}.

(* the merge values and results of one block, canonical order *)
Definition block_mvs (E : env) (ops : list op) : list (nat * mval) := merge_values E (accepted E ops).
Definition block_results (E : env) (ops : list op) : list (nat * bool) := results_from 0 (flags_from E pst0 ops).

(* production under a schedule (ms, ws) *)
Definition produce (E : env) (nops : nat) (ms : list (nat * mval)) (ws : list (nat * bool)) : commitments :=
  let m := merge_all ms in
  mkCommit (leaves_from 0 (write_slots nops ws)) (state_leaves E m) (close_suffrage E m).

(* the canonical production: everything in proposal order *)
Definition produce_canonical (E : env) (ops : list op) : commitments :=
  produce E (List.length ops) (block_mvs E ops) (block_results E ops).

(* ---------------------------------------------------------------- correspondence *)

Definition nb_eqb (a b : nat * bool) : bool := Nat.eqb (fst a) (fst b) && Bool.eqb (snd a) (snd b).

(* a case: environment, operations, the implementation's observed outcome (identical over all the
   schedules the harness ran), the observed states-tree key order, the observed operations-tree leaves *)
Definition check (c : env * list op * option outcome * list string * list (nat * bool)) : bool :=
  let '(E, ops, obs, keys, leaves) := c in
  opt_eqb outcome_eqb (block E ops) obs &&
  match obs with
  | None => true
  | Some _ =>
      let cm := produce_canonical E ops in
      list_eqb String.eqb (map (fun s => fst (fst s)) (cm_states cm)) keys &&
      list_eqb nb_eqb (cm_ops cm) leaves
  end.
