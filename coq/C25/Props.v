(* C25 -- Prefix storage isolates prefixes.  Property theorems only (proofs in Proofs.v). *)
From Coq Require Import List NArith ZArith String Bool.
Import ListNotations.
From MV Require Import C25.Model C25.Proofs.

(* goleveldb's BytesPrefix range is exactly "has the prefix", for every prefix (empty, all-0xff, ...) and
   every key made of bytes *)
Theorem C25_prefix_range : forall p k, wf_key k ->
  (in_range (bytes_prefix p) k = true <-> is_prefix p k = true).
Proof. intros. rewrite prefix_range; tauto. Qed.

(* RemoveByPrefix deletes exactly the keys under the prefix *)
Theorem C25_remove_by_prefix_exact : forall p s, wf_store s ->
  remove_by_prefix p s = filter (fun kv => negb (is_prefix p (fst kv))) s.
Proof. exact remove_by_prefix_filter. Qed.

Example C25_example_limit : prefix_limit [97; 98; 255]%N = Some [97; 99]%N /\ prefix_limit [255; 255]%N = None.
Proof. split; reflexivity. Qed.
