(* C25 -- Prefix storage isolates prefixes.  Property theorems only (lemmas in Proofs.v, Proofs2.v).
   Model: coq/C25/Model.v (transcription of storage/leveldb/prefix.go and BatchRemove / Iter of db.go).
   A state is the raw leveldb content (ascending list of key/value) plus the handles (prefix, or None
   after Close).  [good st] = keys are byte strings, the raw content is strictly ascending, handles' prefixes
   are byte strings; it holds in every state reachable from an empty storage (C25_reachable_good), so the
   per-step theorems below hold along every history of operations. *)
From Coq Require Import List NArith ZArith String Bool.
Import ListNotations.
From MV Require Import C25.Model C25.Proofs C25.Proofs2.

(* goleveldb's BytesPrefix range is exactly "has the prefix": for every prefix (empty, all-0xff, ...) and
   every byte-string key *)
Theorem C25_prefix_range : forall p k, wf_key k ->
  (in_range (bytes_prefix p) k = true <-> is_prefix p k = true).
Proof. intros. rewrite prefix_range; tauto. Qed.

(* every reachable state is good, and the model's loop fuel is never exhausted *)
Theorem C25_reachable_good : forall prefixes ops, Forall wf_key prefixes -> Forall wf_op ops ->
  good (run (init prefixes) ops) /\ forall o, snd (step (run (init prefixes) ops) o) <> RFuel.
Proof. intros. assert (good (run (init prefixes) ops)) by (apply run_good; auto; apply init_good; auto).
  split; auto. intros. apply no_fuel. auto. Qed.

(* writes and removals through a handle with prefix p (Put, Delete, Batch/BatchFunc, Remove; also the reads)
   leave every key that does not start with p untouched *)
Theorem C25_outside_unchanged : forall st o h p, good st -> through o = Some h -> handle st h = Some p ->
  filter (fun kv => negb (is_prefix p (fst kv))) (raw (fst (step st o))) =
  filter (fun kv => negb (is_prefix p (fst kv))) (raw st).
Proof. intros st o h p [W _] T H. exact (outside_unchanged st o h p T H W). Qed.

(* ... in particular the content under any prefix q unrelated to p (neither extends the other) *)
Theorem C25_isolation : forall st o h p q, good st -> through o = Some h -> handle st h = Some p ->
  is_prefix p q = false -> is_prefix q p = false ->
  filter (fun kv => is_prefix q (fst kv)) (raw (fst (step st o))) = filter (fun kv => is_prefix q (fst kv)) (raw st).
Proof. intros st o h p q [W _] T H A B. exact (isolation st o h p q T H W A B). Qed.

(* nothing outside the prefix is observed: the output of an operation through p, and the content under p
   afterwards, are functions of the content under p alone *)
Theorem C25_observe_only_inside : forall st1 st2 o h p, good st1 -> good st2 -> through o = Some h ->
  handles st1 = handles st2 -> handle st1 h = Some p ->
  filter (fun kv => is_prefix p (fst kv)) (raw st1) = filter (fun kv => is_prefix p (fst kv)) (raw st2) ->
  snd (step st1 o) = snd (step st2 o) /\
  filter (fun kv => is_prefix p (fst kv)) (raw (fst (step st1 o))) =
  filter (fun kv => is_prefix p (fst kv)) (raw (fst (step st2 o))).
Proof. intros st1 st2 o h p [W1 [S1 _]] [W2 [S2 _]] T HS H E. exact (observe_only_inside st1 st2 o h p T HS H W1 W2 S1 S2 E). Qed.

(* a closed handle changes nothing and every operation but Close fails *)
Theorem C25_closed_handle_inert : forall st o h, through o = Some h -> handle st h = None ->
  raw (fst (step st o)) = raw st /\ (snd (step st o) = RErr \/ o = OClose h).
Proof. exact closed_inert. Qed.

(* a writer made by BatchFunc writes under the prefix captured when it was made (the handle's prefix at that
   moment; none if the handle was closed: then add and done fail and change nothing).  Whatever happens to the
   handles afterwards (Close) and however often its batch is renewed, add / done leave every key outside the
   captured prefix unchanged, and the captured prefix never changes along a history. *)
Theorem C25_writer_isolation : forall st o w p, writer_of o = Some w ->
  w_prefix (nth w (writers st) dead_writer) = Some p ->
  filter (fun kv => negb (is_prefix p (fst kv))) (raw (fst (step st o))) =
  filter (fun kv => negb (is_prefix p (fst kv))) (raw st).
Proof. exact writer_outside_unchanged. Qed.

Theorem C25_writer_prefix_stable : forall st o w h size,
  (w < List.length (writers st))%nat ->
  w_prefix (nth w (writers (fst (step st o))) dead_writer) = w_prefix (nth w (writers st) dead_writer) /\
  w_prefix (nth (List.length (writers st)) (writers (fst (step st (OWOpen h size)))) dead_writer) = handle st h.
Proof.
  intros. split. apply writer_prefix_stable; auto.
  unfold step. simpl. rewrite app_nth2; auto. rewrite PeanoNat.Nat.sub_diag. auto.
Qed.

Theorem C25_writer_closed_inert : forall st o w, writer_of o = Some w ->
  w_prefix (nth w (writers st) dead_writer) = None -> step st o = (st, RErr).
Proof. intros st o w T H. destruct o; simpl in T; inversion T; subst; unfold step; simpl; rewrite H; auto. Qed.

(* Iter visits exactly the entries under p whose key, with p cut off, lies in the caller's range; in storage
   order (ascending) or reversed, up to the callback's stop; the keys handed out have p cut off *)
Theorem C25_iter_exact : forall st h p r nr asc stop, good st -> handle st h = Some p ->
  rewrite_range p r = Some nr ->
  snd (step st (OIter h r asc stop)) =
  RKVs (stop_at stop (dir asc
     (map (fun kv => (skipn (List.length p) (fst kv), snd kv))
          (filter (fun kv => is_prefix p (fst kv) && user_in_range r (skipn (List.length p) (fst kv))) (raw st))))).
Proof. intros st h p r nr asc stop [W _] H R. unfold step. simpl. rewrite H. apply p_iter_exact with nr; auto. Qed.

(* the only ranges Iter refuses are those with an empty non-nil bound *)
Theorem C25_iter_range_accepted : forall p r,
  rewrite_range p r = None <-> exists r0, r = Some r0 /\ (rstart r0 = Some [] \/ rlimit r0 = Some []).
Proof.
  intros p r. split.
  - destruct r as [[st li]|]; simpl; intros; try discriminate. exists (mkRange st li). split; auto. simpl.
    destruct st as [[|]|]; destruct li as [[|]|]; simpl in H; try discriminate; auto.
  - intros [r0 [-> [E|E]]]; destruct r0 as [st li]; simpl in *; subst; auto. destruct st as [[|]|]; auto.
Qed.

(* RemoveByPrefix, and Remove through a handle, delete exactly the keys under the prefix *)
Theorem C25_remove_by_prefix_exact : forall st p, good st ->
  raw (fst (step st (ORawRemoveByPrefix p))) = filter (fun kv => negb (is_prefix p (fst kv))) (raw st) /\
  forall h, handle st h = Some p ->
    raw (fst (step st (ORemove h))) = filter (fun kv => negb (is_prefix p (fst kv))) (raw st).
Proof.
  intros st p [W _]. split.
  - unfold step. simpl. apply remove_by_prefix_filter. auto.
  - intros h H. unfold step. simpl. rewrite H. simpl. apply remove_by_prefix_filter. auto.
Qed.

(* BatchRemove with any batch limit other than 0 (positive: several rounds with a restart key; negative: one
   round) deletes exactly the keys in [Start, Limit) and returns their number; limit 0 deletes nothing *)
Theorem C25_batch_remove_exact : forall st r limit, good st ->
  let rr := match r with Some r => r | None => mkRange None None end in
  step st (ORawBatchRemove r limit) =
    if Z.eqb limit 0 then (st, RNum 0)
    else (mkState (filter (fun kv => negb (in_range rr (fst kv))) (raw st)) (handles st) (writers st),
          RNum (Z.of_nat (List.length (filter (fun kv => in_range rr (fst kv)) (raw st))))).
Proof.
  intros st r limit [W [S _]] rr. unfold step. fold rr.
  destruct (Z.eqb limit 0) eqn:E.
  - apply Z.eqb_eq in E. subst. rewrite batch_remove_zero. destruct st; auto.
  - apply Z.eqb_neq in E. rewrite batch_remove_exact; auto.
Qed.

(* non-vacuity *)
Local Open Scope string_scope.
Example C25_example_limit : prefix_limit [97; 98; 255]%N = Some [97; 99]%N /\ prefix_limit [255; 255]%N = None.
Proof. split; reflexivity. Qed.

Example C25_example_history :
  let st := run (init [[97; 98]; [97]; [255; 255]]%N)
     [ORawPut [97; 99]%N "01"; OPut 0 [0]%N "02"; OPut 1 [98; 0]%N "03"; OPut 2 [255]%N "04"; OPut 0 [255]%N "05"] in
  raw st = [([97; 98; 0], "03"); ([97; 98; 255], "05"); ([97; 99], "01"); ([255; 255; 255], "04")]%N /\
  snd (step st (OIter 0 None true None)) = RKVs [([0], "03"); ([255], "05")]%N /\
  raw (fst (step st (ORemove 0))) = [([97; 99], "01"); ([255; 255; 255], "04")]%N /\
  snd (step st (ORawBatchRemove (Some (mkRange (Some [97]%N) (Some [98]%N))) 2)) = RNum 3.
Proof. vm_compute. repeat split. Qed.

(* a writer opened through "ab" (batch size 2), the handle closed, then four more adds (two roll-overs) and done:
   everything lands under "ab" *)
Example C25_example_writer_after_close :
  raw (run (init [[97; 98]; [97]]%N)
        [OWOpen 0 2; OWAdd 0 (BPut [1]%N "01"); OClose 0; OWAdd 0 (BPut [2]%N "02"); OWAdd 0 (BPut [3]%N "03");
         OWAdd 0 (BPut [4]%N "04"); OWAdd 0 (BPut [5]%N "05"); OWDone 0; OPut 0 [9]%N "09"])
  = [([97; 98; 1], "01"); ([97; 98; 2], "02"); ([97; 98; 3], "03"); ([97; 98; 4], "04"); ([97; 98; 5], "05")]%N.
Proof. vm_compute. reflexivity. Qed.
