(* C25 -- BatchRemove loop, isolation of handles, invariants of the reachable states *)
From Coq Require Import List NArith ZArith String Bool Lia ZifyBool ZifyNat ZifyN.
Import ListNotations.
From MV Require Import Common.Cases C25.Model C25.Proofs.

Local Notation length := List.length.

(* ------------------------------------------------------------------ collect (the callback of BatchRemove) *)

Lemma collect_never : forall limit ks n, (limit < n)%Z -> collect limit n ks = (ks, None).
Proof.
  induction ks; simpl; intros; auto.
  assert (E : Z.eqb n limit = false) by lia. rewrite E. rewrite IHks by lia. auto.
Qed.

Lemma collect_upto : forall limit ks n, (n <= limit)%Z ->
  collect limit n ks = (firstn (Z.to_nat (limit - n)) ks, nth_error ks (Z.to_nat (limit - n))).
Proof.
  induction ks; simpl; intros.
  - destruct (Z.to_nat (limit - n)); auto.
  - destruct (Z.eqb n limit) eqn:E.
    + assert (n = limit) by lia. subst. rewrite Z.sub_diag. simpl. auto.
    + assert (n < limit)%Z by lia. rewrite IHks by lia.
      replace (Z.to_nat (limit - n)) with (S (Z.to_nat (limit - (n + 1)))) by lia. simpl. auto.
Qed.

(* ------------------------------------------------------------------ BatchRemove *)

Definition inr (start lim : option key) : key * val -> bool := fkey (in_range (mkRange start lim)).
Definition notinr (start lim : option key) : key * val -> bool := fkey (fun k => negb (in_range (mkRange start lim) k)).

Lemma batch_remove_zero : forall fuel start lim s removed,
  batch_remove (S fuel) start lim 0 s removed = Some (s, removed).
Proof.
  intros. cbn [batch_remove]. destruct (map fst (raw_iter (mkRange start lim) true s)); reflexivity.
Qed.

(* one round that takes every key in range *)
Lemma sdel_all_range : forall start lim s,
  sdel_all (map fst (filter (inr start lim) s)) s = filter (notinr start lim) s.
Proof. intros. unfold inr, notinr. apply sdel_all_selected. Qed.

Lemma filter_inr_notinr : forall start lim s, filter (inr start lim) (filter (notinr start lim) s) = [].
Proof.
  intros. rewrite filter_filter. apply filter_nothing. intros. unfold inr, notinr, fkey.
  destruct (in_range (mkRange start lim) (fst x)); auto.
Qed.

Lemma filter_notinr_idem : forall start lim s, filter (notinr start lim) (filter (notinr start lim) s) = filter (notinr start lim) s.
Proof.
  intros. rewrite filter_filter. apply filter_ext. intros. destruct (notinr start lim a); auto.
Qed.

Lemma nth_error_map_skipn : forall (F : store) m k, nth_error (map fst F) m = Some k ->
  exists b B', skipn m F = b :: B' /\ fst b = k /\ F = firstn m F ++ b :: B'.
Proof.
  induction F; destruct m; simpl; intros; try discriminate.
  - inversion H; subst. exists a, F. auto.
  - destruct (IHF _ _ H) as [b [B' [E1 [E2 E3]]]]. exists b, B'. repeat split; auto. f_equal. auto.
Qed.

Lemma existsb_key_in : forall (A : store) (kv : key * val), In kv A -> existsb (fun k => keqb k (fst kv)) (map fst A) = true.
Proof.
  intros. apply existsb_exists. exists (fst kv). split. apply in_map. auto. apply keqb_eq. auto.
Qed.

Lemma existsb_key_out : forall (A : store) (kv : key * val), (forall a, In a A -> klt (fst a) (fst kv) = true) ->
  existsb (fun k => keqb k (fst kv)) (map fst A) = false.
Proof.
  intros. destruct (existsb (fun k => keqb k (fst kv)) (map fst A)) eqn:E; auto.
  apply existsb_exists in E. destruct E as [k [I1 I2]]. apply keqb_eq in I2. subst.
  apply in_map_iff in I1. destruct I1 as [a [E1 E2]]. apply H in E2. rewrite E1 in E2. rewrite klt_irrefl in E2. discriminate.
Qed.

Lemma firstn_skipn_len : forall {A} m (l : list A), m <= length l -> length (firstn m l) = m.
Proof. intros. apply firstn_length_le. auto. Qed.

Lemma batch_remove_spec : forall lim limit, limit <> 0%Z ->
  forall fuel start s removed, sorted s -> length (filter (inr start lim) s) < fuel ->
  batch_remove fuel start lim limit s removed =
    Some (filter (notinr start lim) s, (removed + Z.of_nat (length (filter (inr start lim) s)))%Z).
Proof.
  intros lim limit NZ. induction fuel; intros start s removed SO LT. { lia. }
  cbn [batch_remove]. unfold raw_iter.
  change (fun kv : key * val => in_range (mkRange start lim) (fst kv)) with (inr start lim).
  set (F := filter (inr start lim) s) in *.
  (* the round that takes everything: used twice *)
  assert (ALL : F <> [] ->
     batch_remove fuel start lim limit (sdel_all (map fst F) s) (removed + Z.of_nat (length (map fst F))) =
     Some (filter (notinr start lim) s, (removed + Z.of_nat (length F))%Z)).
  { intros NE. unfold F. rewrite sdel_all_range. rewrite IHfuel.
    - rewrite filter_notinr_idem. rewrite filter_inr_notinr. rewrite map_length. simpl. f_equal. f_equal. lia.
    - apply sorted_filter. auto.
    - rewrite filter_inr_notinr. simpl. fold F in LT. destruct F; try congruence. simpl in LT. lia. }
  destruct F as [|f0 F0] eqn:EF.
  - (* nothing in range *)
    simpl. f_equal. f_equal.
    + symmetry. unfold notinr, fkey. apply (filter_none (inr start lim)). auto.
    + simpl. lia.
  - rewrite <- EF in *. assert (NE : F <> []) by (rewrite EF; discriminate).
    destruct (Z.ltb limit 0) eqn:NEG.
    + (* negative limit: never equal, one batch *)
      rewrite collect_never by lia.
      destruct (map fst F) eqn:EM. { rewrite EF in EM. discriminate. }
      apply ALL. auto.
    + rewrite collect_upto by lia. rewrite Z.sub_0_r.
      set (m := Z.to_nat limit). assert (M1 : 1 <= m) by lia.
      destruct (nth_error (map fst F) m) as [k|] eqn:NX.
      * (* a full batch; restart from the key that did not fit *)
        destruct (nth_error_map_skipn _ _ _ NX) as [b [B' [E1 [E2 E3]]]].
        set (A := firstn m F) in *.
        assert (LA : length A = m).
        { unfold A. apply firstn_length_le. assert (m < length (map fst F)) by (apply nth_error_Some; congruence). rewrite map_length in H. lia. }
        rewrite firstn_map. fold A.
        destruct (map fst A) eqn:EA. { destruct A; simpl in *; try discriminate. lia. }
        rewrite <- EA. clear EA.
        (* order facts from sortedness of F = A ++ b :: B' *)
        assert (SF : sorted F) by (apply sorted_filter; auto).
        rewrite E3 in SF. apply sorted_app in SF. destruct SF as [SA [SB AB]].
        destruct SB as [SB1 SB2]. rewrite Forall_forall in SB1.
        assert (INF : forall x, In x F -> inr start lim x = true).
        { intros x I. unfold F in I. apply filter_In in I. tauto. }
        assert (INFs : forall x, In x F -> In x s).
        { intros x I. unfold F in I. apply filter_In in I. tauto. }
        assert (KB : in_range (mkRange start lim) k = true).
        { rewrite <- E2. apply (INF b). rewrite E3. apply in_or_app. right. left. auto. }
        unfold in_range in KB. simpl in KB. apply andb_true_iff in KB. destruct KB as [KB1 KB2].
        (* pointwise description of the new range on elements of s *)
        assert (R2 : forall x, inr (Some k) lim x = true -> inr start lim x = true).
        { intros x. unfold inr, fkey, in_range. simpl. intros Hx. apply andb_true_iff in Hx. destruct Hx as [X1 X2].
          rewrite X2. rewrite andb_true_r. destruct start as [st|]; simpl in *; auto. eapply kle_trans; eauto. }
        assert (RB : forall x, In x (b :: B') -> inr (Some k) lim x = true).
        { intros x I. assert (IF : inr start lim x = true). { apply INF. rewrite E3. apply in_or_app. auto. }
          unfold inr, fkey, in_range in *. simpl in *. apply andb_true_iff in IF. destruct IF as [_ IF]. rewrite IF.
          rewrite andb_true_r. destruct I as [<-|I]. rewrite E2. apply kle_refl.
          apply klt_kle. rewrite <- E2. apply SB1. auto. }
        set (P' := fun kv : key * val => negb (existsb (fun k0 => keqb k0 (fst kv)) (map fst A))).
        assert (S' : sdel_all (map fst A) s = filter P' s) by apply sdel_all_filter.
        rewrite S'.
        assert (Q1 : filter (inr (Some k) lim) (filter P' s) = b :: B').
        { rewrite filter_filter.
          assert (QF : filter (fun x => inr (Some k) lim x && P' x) s = filter (fun x => inr (Some k) lim x && P' x) F).
          { unfold F. rewrite filter_filter. apply filter_ext_in. intros x I.
            destruct (inr (Some k) lim x) eqn:X; simpl; auto. rewrite (R2 _ X). rewrite andb_true_r. auto. }
          rewrite QF. rewrite E3. rewrite filter_app.
          rewrite (filter_nothing _ A).
          2: { intros x I. unfold P'. rewrite existsb_key_in; auto. simpl. apply andb_false_r. }
          rewrite app_nil_l. apply filter_all. intros x I. rewrite (RB _ I). simpl. unfold P'.
          rewrite existsb_key_out. auto. intros a Ia. apply AB; auto. }
        assert (Q2 : filter (notinr (Some k) lim) (filter P' s) = filter (notinr start lim) s).
        { rewrite filter_filter. apply filter_ext_in. intros x I.
          assert (N1 : notinr (Some k) lim x = negb (inr (Some k) lim x)) by reflexivity.
          assert (N2 : notinr start lim x = negb (inr start lim x)) by reflexivity.
          rewrite N1, N2. clear N1 N2.
          destruct (inr start lim x) eqn:X.
          - assert (IFx : In x F). { unfold F. apply filter_In. auto. }
            rewrite E3 in IFx. apply in_app_or in IFx. destruct IFx as [IA|IB].
            + unfold P'. rewrite existsb_key_in; auto. simpl. apply andb_false_r.
            + rewrite (RB _ IB). auto.
          - destruct (inr (Some k) lim x) eqn:Y. { apply R2 in Y. congruence. }
            simpl. unfold P'.
            destruct (existsb (fun k0 => keqb k0 (fst x)) (map fst A)) eqn:Z; auto.
            apply existsb_exists in Z. destruct Z as [kz [Z1 Z2]]. apply keqb_eq in Z2. subst kz.
            apply in_map_iff in Z1. destruct Z1 as [a [Z3 Z4]].
            assert (inr start lim a = true). { apply INF. rewrite E3. apply in_or_app. auto. }
            unfold inr, fkey in *. rewrite Z3 in H. congruence. }
        rewrite IHfuel.
        -- rewrite Q1, Q2. f_equal. f_equal. rewrite map_length.
           assert (length F = length A + length (b :: B')). { rewrite E3 at 1. rewrite app_length. auto. }
           lia.
        -- apply sorted_filter. auto.
        -- rewrite Q1. assert (length F = length A + length (b :: B')). { rewrite E3 at 1. rewrite app_length. auto. }
           lia.
      * (* fewer than limit keys left: everything goes *)
        apply nth_error_None in NX. rewrite firstn_all2 by auto.
        destruct (map fst F) eqn:EM. { rewrite EF in EM. discriminate. }
        apply ALL. auto.
Qed.


Lemma filter_len_le : forall {A} (f : A -> bool) l, length (filter f l) <= length l.
Proof. induction l; simpl; auto. destruct (f a); simpl; lia. Qed.

(* BatchRemove as called by [step] (fuel = number of keys + 1): never out of fuel, removes exactly the range *)
Lemma batch_remove_exact : forall start lim limit s, sorted s -> limit <> 0%Z ->
  batch_remove (S (length s)) start lim limit s 0 =
    Some (filter (notinr start lim) s, Z.of_nat (length (filter (inr start lim) s))).
Proof.
  intros. rewrite batch_remove_spec; auto.
  assert (length (filter (inr start lim) s) <= length s) by apply filter_len_le. lia.
Qed.

(* ------------------------------------------------------------------ isolation *)

Definition through (o : op) : option nat :=
  match o with
  | OGet h _ | OExists h _ | OPut h _ _ | ODelete h _ | OBatch h _ | OIter h _ _ _ | ORemove h | OClose h => Some h
  | _ => None
  end.

Definition inside (p : key) : key * val -> bool := fkey (is_prefix p).
Definition outside (p : key) : key * val -> bool := fkey (fun k => negb (is_prefix p k)).

Lemma filter_outside_idem : forall p s, filter (outside p) (filter (outside p) s) = filter (outside p) s.
Proof. intros. rewrite filter_filter. apply filter_ext. intros. destruct (outside p a); auto. Qed.

Lemma filter_inside_outside : forall p s, filter (inside p) (filter (outside p) s) = [].
Proof.
  intros. rewrite filter_filter. apply filter_nothing. intros. unfold inside, outside, fkey.
  destruct (is_prefix p (fst x)); auto.
Qed.

Lemma pbatch_keys : forall p b r, In r (pbatch p b) ->
  negb (is_prefix p (match r with BPut k _ => k | BDel k => k end)) = false.
Proof.
  unfold pbatch. intros. apply in_map_iff in H. destruct H as [x [E I]]. subst.
  destruct x; rewrite is_prefix_app; auto.
Qed.

(* an operation through an open handle with prefix p changes nothing outside p *)
Lemma outside_unchanged : forall st o h p, through o = Some h -> handle st h = Some p -> wf_store (raw st) ->
  filter (outside p) (raw (fst (step st o))) = filter (outside p) (raw st).
Proof.
  intros st o h p T H W. destruct o; simpl in T; inversion T; subst; unfold step; simpl; rewrite ?H; auto.
  - (* put *) unfold p_put, pkey. destruct k; simpl; auto. unfold outside.
    apply sput_filter_other. change (n :: k) with ([] ++ n :: k). rewrite is_prefix_app. auto.
  - (* delete *) unfold p_delete, pkey. destruct k; simpl; auto. unfold outside.
    apply sdel_filter_other. rewrite is_prefix_app. auto.
  - (* batch *) unfold p_batch. simpl. unfold outside. apply apply_batch_filter_other. apply pbatch_keys.
  - (* remove *) unfold p_remove. simpl. rewrite remove_by_prefix_filter; auto. apply filter_outside_idem.
Qed.

(* a closed handle does nothing and reports an error *)
Lemma closed_inert : forall st o h, through o = Some h -> handle st h = None ->
  raw (fst (step st o)) = raw st /\ (snd (step st o) = RErr \/ o = OClose h).
Proof.
  intros st o h T H. destruct o; simpl in T; inversion T; subst; unfold step; simpl; rewrite ?H; auto.
Qed.

(* keys under q are outside p when neither prefix extends the other *)
Lemma incomparable_outside : forall p q k, is_prefix p q = false -> is_prefix q p = false ->
  is_prefix q k = true -> is_prefix p k = false.
Proof.
  intros. destruct (is_prefix p k) eqn:E; auto.
  destruct (prefixes_comparable _ _ _ E H1); congruence.
Qed.

Lemma isolation : forall st o h p q, through o = Some h -> handle st h = Some p -> wf_store (raw st) ->
  is_prefix p q = false -> is_prefix q p = false ->
  filter (inside q) (raw (fst (step st o))) = filter (inside q) (raw st).
Proof.
  intros.
  assert (G : forall s, filter (inside q) s = filter (inside q) (filter (outside p) s)).
  { intros. rewrite filter_filter. apply filter_ext. intros [k v]. unfold inside, outside, fkey. simpl.
    destruct (is_prefix q k) eqn:E; auto. rewrite (incomparable_outside p q k); auto. }
  rewrite G. rewrite (G (raw st)). f_equal. eapply outside_unchanged; eauto.
Qed.

(* ------------------------------------------------------------------ nothing outside the prefix is observed *)

Lemma sput_head : forall k v s, Forall (fun kv => klt k (fst kv) = true) s -> sput k v s = (k, v) :: s.
Proof.
  intros. destruct s as [|[k' v'] r]; simpl; auto. inversion H; subst. simpl in H2. unfold klt in H2.
  destruct (kcmp k k'); auto; discriminate.
Qed.

Lemma sput_filter_same : forall f k v s, sorted s -> f k = true ->
  filter (fkey f) (sput k v s) = sput k v (filter (fkey f) s).
Proof.
  unfold fkey. induction s as [|[k' v'] r]; simpl; intros SO F.
  - rewrite F. auto.
  - destruct SO as [S1 S2]. destruct (kcmp k k') eqn:E.
    + apply kcmp_eq in E. subst. simpl. rewrite F. simpl. rewrite kcmp_refl. auto.
    + simpl. rewrite F. destruct (f k') eqn:F'; simpl.
      * rewrite E. auto.
      * symmetry. apply sput_head. apply Forall_filter. eapply Forall_impl; [|exact S1]. simpl. intros.
        apply klt_trans with k'; auto. unfold klt. rewrite E. auto.
    + simpl. destruct (f k') eqn:F'; simpl.
      * rewrite E. f_equal. auto.
      * auto.
Qed.

Lemma sdel_filter_comm : forall f k s, filter f (sdel k s) = sdel k (filter f s).
Proof.
  intros. unfold sdel. rewrite !filter_filter. apply filter_ext. intros. apply andb_comm.
Qed.

Lemma sorted_apply_batch : forall b s, sorted s -> sorted (apply_batch b s).
Proof.
  unfold apply_batch. induction b; simpl; intros; auto. apply IHb. destruct a; simpl.
  apply sorted_sput; auto. apply sorted_filter; auto.
Qed.

Lemma apply_batch_filter_same : forall f b s,
  (forall r, In r b -> f (match r with BPut k _ => k | BDel k => k end) = true) -> sorted s ->
  filter (fkey f) (apply_batch b s) = apply_batch b (filter (fkey f) s).
Proof.
  unfold apply_batch. induction b; simpl; intros; auto.
  rewrite IHb; auto.
  - f_equal. destruct a; simpl.
    + apply sput_filter_same; auto. apply (H (BPut k v)). auto.
    + apply sdel_filter_comm.
  - destruct a; simpl. apply sorted_sput; auto. apply sorted_filter; auto.
Qed.

Lemma observe_only_inside : forall st1 st2 o h p, through o = Some h ->
  handles st1 = handles st2 -> handle st1 h = Some p ->
  wf_store (raw st1) -> wf_store (raw st2) -> sorted (raw st1) -> sorted (raw st2) ->
  filter (inside p) (raw st1) = filter (inside p) (raw st2) ->
  snd (step st1 o) = snd (step st2 o) /\
  filter (inside p) (raw (fst (step st1 o))) = filter (inside p) (raw (fst (step st2 o))).
Proof.
  intros st1 st2 o h p T HS H W1 W2 S1 S2 E.
  assert (H' : handle st2 h = Some p). { unfold handle in *. rewrite <- HS. auto. }
  destruct o; simpl in T; inversion T; subst; unfold step; simpl; rewrite ?H, ?H'; auto.
  - (* get *) split; auto. unfold p_get, pkey. destruct k; auto. f_equal.
    rewrite <- (sget_filter (is_prefix p) _ (raw st1)) by apply is_prefix_app.
    rewrite <- (sget_filter (is_prefix p) _ (raw st2)) by apply is_prefix_app.
    unfold inside in E. rewrite E. auto.
  - (* exists *) split; auto. unfold p_exists, pkey. destruct k; auto. f_equal.
    rewrite <- (sget_filter (is_prefix p) _ (raw st1)) by apply is_prefix_app.
    rewrite <- (sget_filter (is_prefix p) _ (raw st2)) by apply is_prefix_app.
    unfold inside in E. rewrite E. auto.
  - (* put *) unfold p_put, pkey. destruct k; simpl; auto. split; auto. unfold inside.
    rewrite !sput_filter_same by (auto; apply is_prefix_app). unfold inside in E. rewrite E. auto.
  - (* delete *) unfold p_delete, pkey. destruct k; simpl; auto. split; auto.
    rewrite !sdel_filter_comm. rewrite E. auto.
  - (* batch *) unfold p_batch. simpl. split; auto. unfold inside.
    rewrite !apply_batch_filter_same; auto.
    + unfold inside in E. rewrite E. auto.
    + intros r I. apply pbatch_keys in I. destruct (is_prefix p match r with BPut k _ => k | BDel k => k end); auto.
    + intros r I. apply pbatch_keys in I. destruct (is_prefix p match r with BPut k _ => k | BDel k => k end); auto.
  - (* iter *) split; auto. destruct (rewrite_range p r) as [nr|] eqn:R.
    2: { unfold p_iter. rewrite R. auto. }
    rewrite !(p_iter_exact p r nr); auto.
    assert (G : forall s, filter (fun kv : key * val => is_prefix p (fst kv) && user_in_range r (skipn (length p) (fst kv))) s =
                          filter (fun kv => user_in_range r (skipn (length p) (fst kv))) (filter (inside p) s)).
    { intros. rewrite filter_filter. apply filter_ext. intros. unfold inside, fkey. apply andb_comm. }
    rewrite !G. rewrite E. auto.
  - (* remove *) unfold p_remove. simpl. split; auto. rewrite !remove_by_prefix_filter; auto.
    fold (outside p). rewrite !filter_inside_outside. auto.
Qed.

(* ------------------------------------------------------------------ invariants of every reachable state *)

Definition wf_brec (r : brec) : Prop := match r with BPut k _ => wf_key k | BDel k => wf_key k end.
Definition wf_op (o : op) : Prop :=
  match o with
  | OGet _ k | OExists _ k | OPut _ k _ | ODelete _ k | ORawPut k _ => wf_key k
  | OBatch _ b => Forall wf_brec b
  | OWAdd _ r => wf_brec r
  | _ => True
  end.
Definition wf_handle (h : option key) : Prop := match h with Some p => wf_key p | None => True end.
Definition wf_writer (w : writer) : Prop := wf_handle (w_prefix w) /\ Forall wf_brec (w_pending w).
Definition good (st : state) : Prop :=
  wf_store (raw st) /\ sorted (raw st) /\ Forall wf_handle (handles st) /\ Forall wf_writer (writers st).

Lemma wf_apply_batch : forall b s, Forall wf_brec b -> wf_store s -> wf_store (apply_batch b s).
Proof.
  unfold apply_batch. induction b; simpl; intros; auto. inversion H; subst. apply IHb; auto.
  destruct a; simpl in *. apply wf_sput; auto. apply wf_filter; auto.
Qed.

Lemma wf_pbatch : forall p b, wf_key p -> Forall wf_brec b -> Forall wf_brec (pbatch p b).
Proof.
  unfold pbatch. intros. rewrite Forall_forall in *. intros x I. apply in_map_iff in I. destruct I as [y [E I]].
  subst. specialize (H0 _ I). destruct y; simpl in *; apply wf_app; auto.
Qed.

Lemma wf_handle_nth : forall hs h, Forall wf_handle hs -> wf_handle (nth h hs None).
Proof.
  induction hs; destruct h; simpl; intros; auto; inversion H; subst; auto.
Qed.

Lemma wf_set_nth : forall hs h, Forall wf_handle hs -> Forall wf_handle (set_nth h None hs).
Proof.
  induction hs; destruct h; simpl; intros; auto; inversion H; subst; constructor; simpl; auto.
Qed.

Lemma Forall_set_nth : forall {A} (P : A -> Prop) n x l, Forall P l -> P x -> Forall P (set_nth n x l).
Proof.
  induction n; destruct l; simpl; intros; auto; inversion H; subst; constructor; auto.
Qed.

Lemma wf_writer_nth : forall ws w, Forall wf_writer ws -> wf_writer (nth w ws dead_writer).
Proof.
  induction ws; destruct w; simpl; intros; try (split; simpl; auto; fail); inversion H; subst; auto.
Qed.

Lemma sdel_all_sorted : forall ks s, sorted s -> sorted (sdel_all ks s).
Proof. intros. rewrite sdel_all_filter. apply sorted_filter. auto. Qed.
Lemma sdel_all_wf : forall ks s, wf_store s -> wf_store (sdel_all ks s).
Proof. intros. rewrite sdel_all_filter. apply wf_filter. auto. Qed.

Opaque batch_remove.
Lemma step_good : forall st o, good st -> wf_op o -> good (fst (step st o)).
Proof.
  intros st o [W [S [HS HW]]] WO. unfold good.
  assert (WH : forall h, wf_handle (handle st h)) by (intros; apply wf_handle_nth; auto).
  destruct o; unfold step; simpl; auto.
  - (* put *) specialize (WH h). unfold p_put, pkey. destruct (handle st h); simpl; auto. destruct k; simpl; auto.
    repeat split; auto. apply wf_sput; auto. apply wf_app; auto. apply sorted_sput; auto.
  - (* delete *) unfold p_delete, pkey. destruct (handle st h); simpl; auto. destruct k; simpl; auto.
    repeat split; auto. apply wf_filter; auto. apply sorted_filter; auto.
  - (* batch *) specialize (WH h). unfold p_batch. destruct (handle st h); simpl; auto.
    repeat split; auto. apply wf_apply_batch; auto. apply wf_pbatch; auto. apply sorted_apply_batch; auto.
  - (* remove *) unfold p_remove. destruct (handle st h); simpl; auto. unfold remove_by_prefix.
    repeat split; auto. apply sdel_all_wf; auto. apply sdel_all_sorted; auto.
  - (* close *) repeat split; auto. apply wf_set_nth; auto.
  - (* raw put *) repeat split; auto. apply wf_sput; auto. apply sorted_sput; auto.
  - (* raw remove by prefix *) unfold remove_by_prefix. repeat split; auto. apply sdel_all_wf; auto. apply sdel_all_sorted; auto.
  - (* raw batch remove *)
    set (rr := match r with Some r0 => r0 | None => mkRange None None end).
    destruct (Z.eq_dec limit 0) as [->|NZ].
    + rewrite batch_remove_zero. simpl. auto.
    + rewrite batch_remove_exact; auto. simpl. repeat split; auto. apply wf_filter; auto. apply sorted_filter; auto.
  - (* writer open *) repeat split; auto. apply Forall_app. split; auto. constructor; auto. split; simpl; auto.
  - (* writer add *)
    assert (WW := wf_writer_nth (writers st) w HW). destruct WW as [WP WQ].
    destruct (w_prefix (nth w (writers st) dead_writer)) as [p|] eqn:EP; simpl; auto.
    destruct (w_live (nth w (writers st) dead_writer)); simpl; auto.
    assert (WPend : Forall wf_brec (w_pending (nth w (writers st) dead_writer) ++ [r])).
    { apply Forall_app. split; auto. }
    destruct (Nat.leb _ _); simpl.
    + repeat split; auto. apply wf_apply_batch; auto. apply wf_pbatch; auto. apply sorted_apply_batch; auto.
      apply Forall_set_nth; auto. split; simpl; auto.
    + repeat split; auto. apply Forall_set_nth; auto. split; simpl; auto.
  - (* writer done *)
    assert (WW := wf_writer_nth (writers st) w HW). destruct WW as [WP WQ].
    destruct (w_prefix (nth w (writers st) dead_writer)) as [p|] eqn:EP; simpl; auto.
    destruct (w_live (nth w (writers st) dead_writer)); simpl; auto.
    repeat split; auto. apply wf_apply_batch; auto. apply wf_pbatch; auto. apply sorted_apply_batch; auto.
    apply Forall_set_nth; auto. split; simpl; auto.
Qed.

Definition run (st : state) (ops : list op) : state := fold_left (fun st o => fst (step st o)) ops st.
Definition init (prefixes : list key) : state := mkState [] (map Some prefixes) [].

Lemma run_good : forall ops st, good st -> Forall wf_op ops -> good (run st ops).
Proof.
  unfold run. induction ops; simpl; intros; auto. inversion H0; subst. apply IHops; auto. apply step_good; auto.
Qed.

Lemma init_good : forall prefixes, Forall wf_key prefixes -> good (init prefixes).
Proof.
  intros. unfold good, init. simpl. repeat split; auto. constructor.
  induction H; simpl; constructor; auto.
Qed.

Lemma no_fuel : forall st o, good st -> snd (step st o) <> RFuel.
Proof.
  intros st o [W [S [HS HW]]]. destruct o; unfold step; simpl; try discriminate.
  - unfold p_get. destruct (pkey _ _); discriminate.
  - unfold p_exists. destruct (pkey _ _); discriminate.
  - unfold p_put. destruct (pkey _ _); discriminate.
  - unfold p_delete. destruct (pkey _ _); discriminate.
  - unfold p_batch. destruct (handle st h); discriminate.
  - unfold p_iter. destruct (handle st h); try discriminate. destruct (rewrite_range _ _); discriminate.
  - unfold p_remove. destruct (handle st h); discriminate.
  - set (rr := match r with Some r0 => r0 | None => mkRange None None end).
    destruct (Z.eq_dec limit 0) as [->|NZ].
    + rewrite batch_remove_zero. discriminate.
    + rewrite batch_remove_exact; auto. discriminate.
  - destruct (w_prefix _); try discriminate. destruct (w_live _); try discriminate. destruct (Nat.leb _ _); discriminate.
  - destruct (w_prefix _); try discriminate. destruct (w_live _); discriminate.
Qed.

(* ------------------------------------------------------------------ writers (BatchFunc) keep their captured prefix *)

Definition writer_of (o : op) : option nat := match o with OWAdd w _ | OWDone w => Some w | _ => None end.

Lemma writer_outside_unchanged : forall st o w p, writer_of o = Some w ->
  w_prefix (nth w (writers st) dead_writer) = Some p ->
  filter (outside p) (raw (fst (step st o))) = filter (outside p) (raw st).
Proof.
  intros st o w p T H. destruct o; simpl in T; inversion T; subst; unfold step; simpl; rewrite H.
  - destruct (w_live _); simpl; auto. destruct (Nat.leb _ _); simpl; auto.
    unfold outside. apply apply_batch_filter_other. apply pbatch_keys.
  - destruct (w_live _); simpl; auto. unfold outside. apply apply_batch_filter_other. apply pbatch_keys.
Qed.

(* the prefix of a writer never changes, whatever happens to the handles (Close) or the other writers *)
Lemma nth_set_nth_prefix : forall ws w w' wr, w_prefix wr = w_prefix (nth w' ws dead_writer) ->
  w_prefix (nth w (set_nth w' wr ws) dead_writer) = w_prefix (nth w ws dead_writer).
Proof.
  induction ws; intros; simpl.
  - destruct w'; simpl; auto.
  - destruct w'; destruct w; simpl in *; auto.
Qed.

Lemma writer_prefix_stable : forall st o w, (w < List.length (writers st))%nat ->
  w_prefix (nth w (writers (fst (step st o))) dead_writer) = w_prefix (nth w (writers st) dead_writer).
Proof.
  intros st o w L. destruct o; unfold step; simpl; auto.
  - match goal with |- context [match ?x with Some _ => _ | None => _ end] => destruct x as [[s' n]|] end; auto.
  - rewrite app_nth1; auto.
  - destruct (w_prefix (nth w0 (writers st) dead_writer)) eqn:E; simpl; auto. destruct (w_live _); simpl; auto.
    destruct (Nat.leb _ _); simpl; apply nth_set_nth_prefix; simpl; auto.
  - destruct (w_prefix (nth w0 (writers st) dead_writer)) eqn:E; simpl; auto. destruct (w_live _); simpl; auto.
    apply nth_set_nth_prefix; simpl; auto.
Qed.
