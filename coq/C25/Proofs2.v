(* C25 -- BatchRemove loop, isolation of handles, invariants of the reachable states *)
From Coq Require Import List NArith ZArith String Bool Lia ZifyBool ZifyNat ZifyN.
Import ListNotations.
From MV Require Import Common.Cases C25.Model C25.Proofs.

Local Notation length := List.length.

(* ------------------------------------------------------------------ collect (the callback of BatchRemove) *)

Lemma collect_never : forall limit ks n, (limit < n)%Z -> collect limit n ks = (ks, None).
Proof.
  induction ks; simpl; intros; auto.
  assert (E : Z.eqb n limit = false) by lia. rewrite E. rewrite IHks by lia. auto.
Qed.

Lemma collect_upto : forall limit ks n, (n <= limit)%Z ->
  collect limit n ks = (firstn (Z.to_nat (limit - n)) ks, nth_error ks (Z.to_nat (limit - n))).
Proof.
  induction ks; simpl; intros.
  - destruct (Z.to_nat (limit - n)); auto.
  - destruct (Z.eqb n limit) eqn:E.
    + assert (n = limit) by lia. subst. rewrite Z.sub_diag. simpl. auto.
    + assert (n < limit)%Z by lia. rewrite IHks by lia.
      replace (Z.to_nat (limit - n)) with (S (Z.to_nat (limit - (n + 1)))) by lia. simpl. auto.
Qed.

(* ------------------------------------------------------------------ BatchRemove *)

Definition inr (start lim : option key) : key * val -> bool := fkey (in_range (mkRange start lim)).
Definition notinr (start lim : option key) : key * val -> bool := fkey (fun k => negb (in_range (mkRange start lim) k)).

Lemma batch_remove_zero : forall fuel start lim s removed,
  batch_remove (S fuel) start lim 0 s removed = Some (s, removed).
Proof.
  intros. cbn [batch_remove]. destruct (map fst (raw_iter (mkRange start lim) true s)); reflexivity.
Qed.

(* one round that takes every key in range *)
Lemma sdel_all_range : forall start lim s,
  sdel_all (map fst (filter (inr start lim) s)) s = filter (notinr start lim) s.
Proof. intros. unfold inr, notinr. apply sdel_all_selected. Qed.

Lemma filter_inr_notinr : forall start lim s, filter (inr start lim) (filter (notinr start lim) s) = [].
Proof.
  intros. rewrite filter_filter. apply filter_nothing. intros. unfold inr, notinr, fkey.
  destruct (in_range (mkRange start lim) (fst x)); auto.
Qed.

Lemma filter_notinr_idem : forall start lim s, filter (notinr start lim) (filter (notinr start lim) s) = filter (notinr start lim) s.
Proof.
  intros. rewrite filter_filter. apply filter_ext. intros. destruct (notinr start lim a); auto.
Qed.

Lemma nth_error_map_skipn : forall (F : store) m k, nth_error (map fst F) m = Some k ->
  exists b B', skipn m F = b :: B' /\ fst b = k /\ F = firstn m F ++ b :: B'.
Proof.
  induction F; destruct m; simpl; intros; try discriminate.
  - inversion H; subst. exists a, F. auto.
  - destruct (IHF _ _ H) as [b [B' [E1 [E2 E3]]]]. exists b, B'. repeat split; auto. f_equal. auto.
Qed.

Lemma existsb_key_in : forall (A : store) (kv : key * val), In kv A -> existsb (fun k => keqb k (fst kv)) (map fst A) = true.
Proof.
  intros. apply existsb_exists. exists (fst kv). split. apply in_map. auto. apply keqb_eq. auto.
Qed.

Lemma existsb_key_out : forall (A : store) (kv : key * val), (forall a, In a A -> klt (fst a) (fst kv) = true) ->
  existsb (fun k => keqb k (fst kv)) (map fst A) = false.
Proof.
  intros. destruct (existsb (fun k => keqb k (fst kv)) (map fst A)) eqn:E; auto.
  apply existsb_exists in E. destruct E as [k [I1 I2]]. apply keqb_eq in I2. subst.
  apply in_map_iff in I1. destruct I1 as [a [E1 E2]]. apply H in E2. rewrite E1 in E2. rewrite klt_irrefl in E2. discriminate.
Qed.

Lemma firstn_skipn_len : forall {A} m (l : list A), m <= length l -> length (firstn m l) = m.
Proof. intros. apply firstn_length_le. auto. Qed.

Lemma batch_remove_spec : forall lim limit, limit <> 0%Z ->
  forall fuel start s removed, sorted s -> length (filter (inr start lim) s) < fuel ->
  batch_remove fuel start lim limit s removed =
    Some (filter (notinr start lim) s, (removed + Z.of_nat (length (filter (inr start lim) s)))%Z).
Proof.
  intros lim limit NZ. induction fuel; intros start s removed SO LT. { lia. }
  cbn [batch_remove]. unfold raw_iter.
  change (fun kv : key * val => in_range (mkRange start lim) (fst kv)) with (inr start lim).
  set (F := filter (inr start lim) s) in *.
  (* the round that takes everything: used twice *)
  assert (ALL : F <> [] ->
     batch_remove fuel start lim limit (sdel_all (map fst F) s) (removed + Z.of_nat (length (map fst F))) =
     Some (filter (notinr start lim) s, (removed + Z.of_nat (length F))%Z)).
  { intros NE. unfold F. rewrite sdel_all_range. rewrite IHfuel.
    - rewrite filter_notinr_idem. rewrite filter_inr_notinr. rewrite map_length. simpl. f_equal. f_equal. lia.
    - apply sorted_filter. auto.
    - rewrite filter_inr_notinr. simpl. fold F in LT. destruct F; try congruence. simpl in LT. lia. }
  destruct F as [|f0 F0] eqn:EF.
  - (* nothing in range *)
    simpl. f_equal. f_equal.
    + symmetry. unfold notinr, fkey. apply (filter_none (inr start lim)). auto.
    + simpl. lia.
  - rewrite <- EF in *. assert (NE : F <> []) by (rewrite EF; discriminate).
    destruct (Z.ltb limit 0) eqn:NEG.
    + (* negative limit: never equal, one batch *)
      rewrite collect_never by lia.
      destruct (map fst F) eqn:EM. { rewrite EF in EM. discriminate. }
      apply ALL. auto.
    + rewrite collect_upto by lia. rewrite Z.sub_0_r.
      set (m := Z.to_nat limit). assert (M1 : 1 <= m) by lia.
      destruct (nth_error (map fst F) m) as [k|] eqn:NX.
      * (* a full batch; restart from the key that did not fit *)
        destruct (nth_error_map_skipn _ _ _ NX) as [b [B' [E1 [E2 E3]]]].
        set (A := firstn m F) in *.
        assert (LA : length A = m).
        { unfold A. apply firstn_length_le. assert (m < length (map fst F)) by (apply nth_error_Some; congruence). rewrite map_length in H. lia. }
        rewrite firstn_map. fold A.
        destruct (map fst A) eqn:EA. { destruct A; simpl in *; try discriminate. lia. }
        rewrite <- EA. clear EA.
        (* order facts from sortedness of F = A ++ b :: B' *)
        assert (SF : sorted F) by (apply sorted_filter; auto).
        rewrite E3 in SF. apply sorted_app in SF. destruct SF as [SA [SB AB]].
        destruct SB as [SB1 SB2]. rewrite Forall_forall in SB1.
        assert (INF : forall x, In x F -> inr start lim x = true).
        { intros x I. unfold F in I. apply filter_In in I. tauto. }
        assert (INFs : forall x, In x F -> In x s).
        { intros x I. unfold F in I. apply filter_In in I. tauto. }
        assert (KB : in_range (mkRange start lim) k = true).
        { rewrite <- E2. apply (INF b). rewrite E3. apply in_or_app. right. left. auto. }
        unfold in_range in KB. simpl in KB. apply andb_true_iff in KB. destruct KB as [KB1 KB2].
        (* pointwise description of the new range on elements of s *)
        assert (R2 : forall x, inr (Some k) lim x = true -> inr start lim x = true).
        { intros x. unfold inr, fkey, in_range. simpl. intros Hx. apply andb_true_iff in Hx. destruct Hx as [X1 X2].
          rewrite X2. rewrite andb_true_r. destruct start as [st|]; simpl in *; auto. eapply kle_trans; eauto. }
        assert (RB : forall x, In x (b :: B') -> inr (Some k) lim x = true).
        { intros x I. assert (IF : inr start lim x = true). { apply INF. rewrite E3. apply in_or_app. auto. }
          unfold inr, fkey, in_range in *. simpl in *. apply andb_true_iff in IF. destruct IF as [_ IF]. rewrite IF.
          rewrite andb_true_r. destruct I as [<-|I]. rewrite E2. apply kle_refl.
          apply klt_kle. rewrite <- E2. apply SB1. auto. }
        set (P' := fun kv : key * val => negb (existsb (fun k0 => keqb k0 (fst kv)) (map fst A))).
        assert (S' : sdel_all (map fst A) s = filter P' s) by apply sdel_all_filter.
        rewrite S'.
        assert (Q1 : filter (inr (Some k) lim) (filter P' s) = b :: B').
        { rewrite filter_filter.
          assert (QF : filter (fun x => inr (Some k) lim x && P' x) s = filter (fun x => inr (Some k) lim x && P' x) F).
          { unfold F. rewrite filter_filter. apply filter_ext_in. intros x I.
            destruct (inr (Some k) lim x) eqn:X; simpl; auto. rewrite (R2 _ X). rewrite andb_true_r. auto. }
          rewrite QF. rewrite E3. rewrite filter_app.
          rewrite (filter_nothing _ A).
          2: { intros x I. unfold P'. rewrite existsb_key_in; auto. simpl. apply andb_false_r. }
          simpl app. apply filter_all. intros x I. rewrite (RB _ I). simpl. unfold P'.
          rewrite existsb_key_out; auto. intros a Ia. apply AB; auto. }
        assert (Q2 : filter (notinr (Some k) lim) (filter P' s) = filter (notinr start lim) s).
        { rewrite filter_filter. apply filter_ext_in. intros x I.
          unfold notinr, fkey. fold (inr (Some k) lim x). fold (inr start lim x).
          destruct (inr start lim x) eqn:X.
          - assert (IFx : In x F). { unfold F. apply filter_In. auto. }
            rewrite E3 in IFx. apply in_app_or in IFx. destruct IFx as [IA|IB].
            + unfold P'. rewrite existsb_key_in; auto. simpl. apply andb_false_r.
            + rewrite (RB _ IB). auto.
          - destruct (inr (Some k) lim x) eqn:Y. { apply R2 in Y. congruence. }
            simpl. unfold P'.
            destruct (existsb (fun k0 => keqb k0 (fst x)) (map fst A)) eqn:Z; auto.
            apply existsb_exists in Z. destruct Z as [k0 [Z1 Z2]]. apply keqb_eq in Z2. subst k0.
            apply in_map_iff in Z1. destruct Z1 as [a [Z3 Z4]].
            assert (inr start lim a = true). { apply INF. rewrite E3. apply in_or_app. auto. }
            unfold inr, fkey in *. rewrite Z3 in H. congruence. }
        rewrite IHfuel.
        -- rewrite Q1, Q2. f_equal. f_equal. rewrite map_length.
           assert (length F = length A + length (b :: B')). { rewrite E3 at 1. rewrite app_length. auto. }
           lia.
        -- apply sorted_filter. auto.
        -- rewrite Q1. assert (length F = length A + length (b :: B')). { rewrite E3 at 1. rewrite app_length. auto. }
           lia.
      * (* fewer than limit keys left: everything goes *)
        apply nth_error_None in NX. rewrite firstn_all2 by auto.
        destruct (map fst F) eqn:EM. { rewrite EF in EM. discriminate. }
        apply ALL. auto.
Qed.

