(* C25 -- lemmas about the model of prefix.go / db.go *)
From Coq Require Import List NArith ZArith String Bool Lia ZifyBool ZifyNat ZifyN.
Import ListNotations.
From MV Require Import Common.Cases C25.Model.

Local Notation length := List.length.

(* ------------------------------------------------------------------ bytewise order *)

Lemma ncmp_lt : forall a b, N.compare a b = Lt -> (a < b)%N.
Proof. intros. exact H. Qed.
Lemma ncmp_gt : forall a b, N.compare a b = Gt -> (b < a)%N.
Proof. intros. apply N.compare_gt_iff. exact H. Qed.
Lemma lt_ncmp : forall a b, (a < b)%N -> N.compare a b = Lt.
Proof. intros. exact H. Qed.
Lemma gt_ncmp : forall a b, (b < a)%N -> N.compare a b = Gt.
Proof. intros. apply N.compare_gt_iff. exact H. Qed.

Lemma kcmp_refl : forall a, kcmp a a = Eq.
Proof. induction a; simpl; auto. rewrite N.compare_refl. auto. Qed.

Lemma kcmp_eq : forall a b, kcmp a b = Eq -> a = b.
Proof.
  induction a; destruct b; simpl; intros; try discriminate; auto.
  destruct (N.compare a n) eqn:E; try discriminate.
  apply N.compare_eq in E. subst. f_equal. auto.
Qed.

Lemma kcmp_antisym : forall a b, kcmp b a = CompOpp (kcmp a b).
Proof.
  induction a; destruct b; simpl; auto.
  rewrite (N.compare_antisym a n). destruct (N.compare a n); simpl; auto.
Qed.

Lemma kcmp_lt_trans : forall a b c, kcmp a b = Lt -> kcmp b c = Lt -> kcmp a c = Lt.
Proof.
  induction a; destruct b; destruct c; simpl; intros; try discriminate; auto.
  destruct (N.compare a n) eqn:E1; destruct (N.compare n n0) eqn:E2; try discriminate.
  - apply N.compare_eq in E1. apply N.compare_eq in E2. subst. rewrite N.compare_refl. eauto.
  - apply N.compare_eq in E1. subst. rewrite E2. auto.
  - apply N.compare_eq in E2. subst. rewrite E1. auto.
  - apply ncmp_lt in E1. apply ncmp_lt in E2. assert (Q : (a < n0)%N) by lia. apply lt_ncmp in Q. rewrite Q. auto.
Qed.

Lemma kcmp_app : forall p a b, kcmp (p ++ a) (p ++ b) = kcmp a b.
Proof. induction p; simpl; intros; auto. rewrite N.compare_refl. auto. Qed.

Lemma keqb_eq : forall a b, keqb a b = true <-> a = b.
Proof.
  unfold keqb. split; intros.
  - destruct (kcmp a b) eqn:E; try discriminate. apply kcmp_eq; auto.
  - subst. rewrite kcmp_refl. auto.
Qed.

Lemma kle_refl : forall a, kle a a = true.
Proof. intros. unfold kle. rewrite kcmp_refl. auto. Qed.

Lemma klt_irrefl : forall a, klt a a = false.
Proof. intros. unfold klt. rewrite kcmp_refl. auto. Qed.

Lemma klt_trans : forall a b c, klt a b = true -> klt b c = true -> klt a c = true.
Proof.
  unfold klt. intros a b c H1 H2.
  destruct (kcmp a b) eqn:E1; try discriminate. destruct (kcmp b c) eqn:E2; try discriminate.
  rewrite (kcmp_lt_trans _ _ _ E1 E2). auto.
Qed.

Lemma kle_lt_trans : forall a b c, kle a b = true -> klt b c = true -> klt a c = true.
Proof.
  unfold kle, klt. intros a b c H1 H2.
  destruct (kcmp a b) eqn:E1; try discriminate.
  - apply kcmp_eq in E1. subst. auto.
  - destruct (kcmp b c) eqn:E2; try discriminate. rewrite (kcmp_lt_trans _ _ _ E1 E2). auto.
Qed.

Lemma klt_le_trans : forall a b c, klt a b = true -> kle b c = true -> klt a c = true.
Proof.
  unfold kle, klt. intros a b c H1 H2.
  destruct (kcmp b c) eqn:E2; try discriminate.
  - apply kcmp_eq in E2. subst. auto.
  - destruct (kcmp a b) eqn:E1; try discriminate. rewrite (kcmp_lt_trans _ _ _ E1 E2). auto.
Qed.

Lemma kle_trans : forall a b c, kle a b = true -> kle b c = true -> kle a c = true.
Proof.
  intros a b c H1 H2. unfold kle in H2. destruct (kcmp b c) eqn:E; try discriminate.
  - apply kcmp_eq in E. subst. auto.
  - assert (klt a c = true). { apply kle_lt_trans with b; auto. unfold klt. rewrite E. auto. }
    unfold klt in H. unfold kle. destruct (kcmp a c); auto; discriminate.
Qed.

Lemma klt_kle : forall a b, klt a b = true -> kle a b = true.
Proof. unfold klt, kle. intros. destruct (kcmp a b); auto; discriminate. Qed.

Lemma klt_not_kle : forall a b, klt a b = negb (kle b a).
Proof. intros. unfold klt, kle. rewrite (kcmp_antisym a b). destruct (kcmp a b); auto. Qed.

Lemma kle_app : forall p a b, kle (p ++ a) (p ++ b) = kle a b.
Proof. intros. unfold kle. rewrite kcmp_app. auto. Qed.
Lemma klt_app : forall p a b, klt (p ++ a) (p ++ b) = klt a b.
Proof. intros. unfold klt. rewrite kcmp_app. auto. Qed.

Lemma kle_nil : forall k, kle [] k = true.
Proof. destruct k; auto. Qed.

Lemma kle_prefix_app : forall p a, kle p (p ++ a) = true.
Proof. intros. rewrite <- (app_nil_r p) at 1. rewrite kle_app. apply kle_nil. Qed.

(* ------------------------------------------------------------------ prefixes *)

Lemma is_prefix_app : forall p t, is_prefix p (p ++ t) = true.
Proof. induction p; simpl; intros; auto. rewrite N.eqb_refl. simpl. auto. Qed.

Lemma is_prefix_split : forall p k, is_prefix p k = true -> k = p ++ skipn (length p) k.
Proof.
  induction p; destruct k; simpl; intros; auto; try discriminate.
  apply andb_true_iff in H. destruct H as [H1 H2]. apply N.eqb_eq in H1. subst. f_equal. auto.
Qed.

Lemma is_prefix_iff : forall p k, is_prefix p k = true <-> exists t, k = p ++ t.
Proof.
  split; intros.
  - eexists. apply is_prefix_split. auto.
  - destruct H as [t ->]. apply is_prefix_app.
Qed.

Lemma skipn_app_exact : forall (p t : key), skipn (length p) (p ++ t) = t.
Proof. induction p; simpl; auto. Qed.

(* two prefixes of one key are comparable *)
Lemma prefixes_comparable : forall p q k, is_prefix p k = true -> is_prefix q k = true ->
  is_prefix p q = true \/ is_prefix q p = true.
Proof.
  induction p; simpl; intros; auto.
  destruct q; simpl; auto. destruct k; try discriminate. simpl in H0.
  apply andb_true_iff in H. apply andb_true_iff in H0. destruct H as [A B]. destruct H0 as [C D].
  apply N.eqb_eq in A. apply N.eqb_eq in C. subst. rewrite N.eqb_refl. simpl.
  eapply IHp; eauto.
Qed.

Lemma kle_cons : forall a p y k, kle (a :: p) (y :: k) = match N.compare a y with Eq => kle p k | Lt => true | Gt => false end.
Proof. intros. unfold kle. simpl. destruct (N.compare a y); auto. Qed.
Lemma klt_cons : forall a p y k, klt (a :: p) (y :: k) = match N.compare a y with Eq => klt p k | Lt => true | Gt => false end.
Proof. intros. unfold klt. simpl. destruct (N.compare a y); auto. Qed.

(* the heart of BytesPrefix: k in [p, limit p)  <->  p is a prefix of k   (bytes of k below 256) *)
Lemma prefix_range : forall p k, wf_key k ->
  in_range (bytes_prefix p) k = is_prefix p k.
Proof.
  unfold in_range, bytes_prefix. cbn [rstart rlimit ge_start].
  induction p; intros k W.
  - simpl. rewrite kle_nil. auto.
  - destruct k as [|y k'].
    + simpl. auto.
    + inversion W; subst. specialize (IHp k' H2).
      cbn [is_prefix prefix_limit]. rewrite kle_cons.
      destruct (N.compare a y) eqn:E.
      * apply N.compare_eq in E. subst. rewrite N.eqb_refl. cbn [andb].
        destruct (prefix_limit p) eqn:L.
        -- cbn [lt_limit] in *. rewrite klt_cons. rewrite N.compare_refl. auto.
        -- cbn [lt_limit] in IHp. rewrite andb_true_r in IHp.
           destruct (y <? 255)%N eqn:F.
           ++ cbn [lt_limit]. rewrite klt_cons.
              assert (Q : N.compare y (y + 1) = Lt) by (apply lt_ncmp; lia). rewrite Q.
              rewrite andb_true_r. auto.
           ++ cbn [lt_limit]. rewrite andb_true_r. auto.
      * assert (Q : N.eqb a y = false) by (apply N.eqb_neq; apply ncmp_lt in E; lia). rewrite Q.
        cbn [andb]. apply ncmp_lt in E.
        destruct (prefix_limit p) eqn:L.
        -- cbn [lt_limit]. rewrite klt_cons.
           assert (Q2 : N.compare y a = Gt) by (apply gt_ncmp; lia). rewrite Q2. auto.
        -- destruct (a <? 255)%N eqn:F.
           ++ cbn [lt_limit]. rewrite klt_cons. destruct (N.compare y (a + 1)) eqn:G; auto.
              ** destruct k'; auto.
              ** apply ncmp_lt in G. lia.
           ++ apply N.ltb_ge in F. lia.
      * assert (Q : N.eqb a y = false) by (apply N.eqb_neq; apply ncmp_gt in E; lia). rewrite Q. auto.
Qed.

(* between p and p++b lies only what starts with p (no byte bound needed) *)
Lemma between_prefix : forall p b k, kle p k = true -> klt k (p ++ b) = true -> is_prefix p k = true.
Proof.
  induction p; simpl; intros; auto.
  destruct k as [|y k']. { discriminate. }
  unfold kle, klt in *. simpl in *.
  destruct (N.compare a y) eqn:E.
  - apply N.compare_eq in E. subst. rewrite N.eqb_refl. simpl. rewrite N.compare_refl in H0. eapply IHp; eauto.
  - rewrite (N.compare_antisym a y) in H0. rewrite E in H0. simpl in H0. discriminate.
  - discriminate.
Qed.

(* ------------------------------------------------------------------ generic list facts *)

Lemma filter_filter : forall {A} (f g : A -> bool) l, filter f (filter g l) = filter (fun x => f x && g x) l.
Proof.
  induction l; simpl; auto. destruct (g a) eqn:G; simpl.
  - destruct (f a); simpl; rewrite IHl; auto.
  - rewrite andb_false_r. auto.
Qed.

Lemma filter_none : forall {A} (f : A -> bool) l, filter f l = [] -> filter (fun x => negb (f x)) l = l.
Proof.
  induction l; simpl; intros; auto. destruct (f a); simpl in *; try discriminate. f_equal. auto.
Qed.

Lemma filter_all : forall {A} (f : A -> bool) l, (forall x, In x l -> f x = true) -> filter f l = l.
Proof.
  induction l; simpl; intros; auto. rewrite H; auto. f_equal. auto.
Qed.

Lemma filter_nothing : forall {A} (f : A -> bool) l, (forall x, In x l -> f x = false) -> filter f l = [].
Proof.
  induction l; simpl; intros; auto. rewrite H; auto.
Qed.

(* ------------------------------------------------------------------ raw store operations *)

Definition fkey (f : key -> bool) : key * val -> bool := fun kv => f (fst kv).

Lemma sput_filter_other : forall f k v s, f k = false ->
  filter (fkey f) (sput k v s) = filter (fkey f) s.
Proof.
  unfold fkey. induction s as [|[k' v'] r]; simpl; intros.
  - rewrite H. auto.
  - destruct (kcmp k k') eqn:E; simpl.
    + apply kcmp_eq in E. subst. rewrite H. auto.
    + rewrite H. auto.
    + rewrite IHr; auto.
Qed.

Lemma sdel_filter_other : forall f k s, f k = false ->
  filter (fkey f) (sdel k s) = filter (fkey f) s.
Proof.
  unfold sdel, fkey. intros. rewrite filter_filter. apply filter_ext_in. intros [k' v'] _. simpl.
  destruct (keqb k k') eqn:E; simpl.
  - apply keqb_eq in E. subst. rewrite H. auto.
  - rewrite andb_true_r. auto.
Qed.

Lemma sdel_all_filter : forall ks s,
  sdel_all ks s = filter (fun kv => negb (existsb (fun k => keqb k (fst kv)) ks)) s.
Proof.
  unfold sdel_all. induction ks; simpl; intros.
  - symmetry. apply filter_all. auto.
  - rewrite IHks. unfold sdel. rewrite filter_filter. apply filter_ext. intros.
    destruct (keqb a (fst a0)); destruct (existsb (fun k : key => keqb k (fst a0)) ks); auto.
Qed.

(* deleting the keys selected by a predicate on keys = filtering them out *)
Lemma sdel_all_selected : forall f s,
  sdel_all (map fst (filter (fkey f) s)) s = filter (fkey (fun k => negb (f k))) s.
Proof.
  intros. rewrite sdel_all_filter. apply filter_ext_in. intros [k v] Hin. unfold fkey. simpl. f_equal.
  destruct (f k) eqn:F.
  - apply existsb_exists. exists k. split. 2: apply keqb_eq; auto.
    apply in_map_iff. exists (k, v). split; auto. apply filter_In. split; auto.
  - destruct (existsb (fun k0 => keqb k0 k) (map fst (filter (fun kv => f (fst kv)) s))) eqn:X; auto.
    apply existsb_exists in X. destruct X as [k0 [I1 I2]]. apply keqb_eq in I2. subst.
    apply in_map_iff in I1. destruct I1 as [[k1 v1] [I3 I4]]. simpl in I3. subst. apply filter_In in I4.
    simpl in I4. destruct I4. congruence.
Qed.

Lemma apply_batch_filter_other : forall f b s, (forall r, In r b -> f (match r with BPut k _ => k | BDel k => k end) = false) ->
  filter (fkey f) (apply_batch b s) = filter (fkey f) s.
Proof.
  unfold apply_batch. induction b; simpl; intros; auto.
  rewrite IHb; auto. destruct a; simpl.
  - apply sput_filter_other. apply (H (BPut k v)). auto.
  - apply sdel_filter_other. apply (H (BDel k)). auto.
Qed.

Lemma sget_filter : forall f k s, f k = true -> sget k (filter (fkey f) s) = sget k s.
Proof.
  unfold fkey. induction s as [|[k' v'] r]; simpl; intros; auto.
  destruct (f k') eqn:F; simpl.
  - rewrite IHr; auto.
  - destruct (keqb k k') eqn:E.
    + apply keqb_eq in E. subst. congruence.
    + auto.
Qed.

(* ------------------------------------------------------------------ well-formed (byte) keys, sorted stores *)

Definition wf_store (s : store) : Prop := Forall (fun kv => wf_key (fst kv)) s.

Fixpoint sorted (s : store) : Prop :=
  match s with
  | [] => True
  | kv :: r => Forall (fun kv' => klt (fst kv) (fst kv') = true) r /\ sorted r
  end.

Lemma Forall_filter : forall {A} (P : A -> Prop) f l, Forall P l -> Forall P (filter f l).
Proof. induction l; simpl; intros; auto. inversion H; subst. destruct (f a); auto. Qed.

Lemma sorted_filter : forall f s, sorted s -> sorted (filter f s).
Proof.
  induction s; simpl; intros; auto. destruct H. destruct (f a); simpl; auto. split; auto. apply Forall_filter. auto.
Qed.

Lemma sorted_sput : forall k v s, sorted s -> sorted (sput k v s).
Proof.
  induction s as [|[k' v'] r]; simpl; intros.
  - auto.
  - destruct H as [H1 H2]. destruct (kcmp k k') eqn:E; simpl.
    + apply kcmp_eq in E. subst. auto.
    + split; auto. constructor.
      * simpl. unfold klt. rewrite E. auto.
      * eapply Forall_impl; [|exact H1]. simpl. intros. apply klt_trans with k'; auto. unfold klt. rewrite E. auto.
    + split; auto.
      assert (G : klt k' k = true). { unfold klt. rewrite (kcmp_antisym k k'). rewrite E. auto. }
      clear IHr H2 E. induction r as [|[k2 v2] r2]; simpl.
      * constructor; auto.
      * inversion H1; subst. simpl in *. destruct (kcmp k k2).
        -- constructor; auto.
        -- constructor; auto.
        -- constructor; auto.
Qed.

Lemma wf_filter : forall f s, wf_store s -> wf_store (filter f s).
Proof. intros. apply Forall_filter. auto. Qed.

Lemma wf_sput : forall k v s, wf_key k -> wf_store s -> wf_store (sput k v s).
Proof.
  unfold wf_store. induction s as [|[k' v'] r]; simpl; intros.
  - constructor; auto.
  - inversion H0; subst. destruct (kcmp k k'); constructor; auto.
Qed.

Lemma wf_app : forall a b, wf_key a -> wf_key b -> wf_key (a ++ b).
Proof. unfold wf_key. intros. apply Forall_app. auto. Qed.

Lemma sorted_app : forall a b, sorted (a ++ b) ->
  sorted a /\ sorted b /\ forall x y, In x a -> In y b -> klt (fst x) (fst y) = true.
Proof.
  induction a; simpl; intros.
  - intuition.
  - destruct H as [H1 H2]. apply IHa in H2. destruct H2 as [S1 [S2 S3]].
    apply Forall_app in H1. destruct H1 as [F1 F2].
    repeat split; auto. intros x y [->|I] J.
    + rewrite Forall_forall in F2. auto.
    + auto.
Qed.

(* ------------------------------------------------------------------ RemoveByPrefix *)

Lemma remove_by_prefix_filter : forall p s, wf_store s ->
  remove_by_prefix p s = filter (fkey (fun k => negb (is_prefix p k))) s.
Proof.
  intros. unfold remove_by_prefix, raw_iter.
  change (fun kv : key * val => in_range (bytes_prefix p) (fst kv)) with (fkey (in_range (bytes_prefix p))).
  rewrite sdel_all_selected. apply filter_ext_in. intros [k v] I. unfold fkey. simpl.
  rewrite prefix_range; auto. unfold wf_store in H. rewrite Forall_forall in H. apply (H _ I).
Qed.

(* ------------------------------------------------------------------ Iter range rewrite *)

Definition user_in_range (r : option range) (k : key) : bool :=
  match r with None => true | Some r => in_range r k end.

Lemma rewrite_range_spec : forall p r nr k, wf_key k -> rewrite_range p r = Some nr ->
  in_range nr k = is_prefix p k && user_in_range r (skipn (length p) k).
Proof.
  intros p r nr k W H.
  destruct r as [[st li]|]; simpl in *.
  2: { inversion H; subst. rewrite prefix_range; auto. rewrite andb_true_r. auto. }
  assert (nr = mkRange (match st with Some a => Some (p ++ a) | None => Some p end)
                       (match li with Some b => Some (p ++ b) | None => prefix_limit p end)).
  { destruct st as [[|]|]; destruct li as [[|]|]; simpl in H; try discriminate; inversion H; auto. }
  clear H. subst nr.
  destruct (is_prefix p k) eqn:P.
  - apply is_prefix_split in P. remember (skipn (length p) k) as t. rewrite P. simpl.
    unfold in_range. simpl. f_equal.
    + destruct st; simpl. apply kle_app. apply kle_prefix_app.
    + destruct li; simpl. apply klt_app.
      assert (in_range (bytes_prefix p) (p ++ t) = true).
      { rewrite prefix_range. apply is_prefix_app. rewrite <- P. auto. }
      unfold in_range in H. apply andb_true_iff in H. destruct H. auto.
  - simpl. unfold in_range. simpl.
    destruct (ge_start (match st with Some a => Some (p ++ a) | None => Some p end) k) eqn:G; auto. simpl.
    assert (LE : kle p k = true).
    { destruct st; simpl in G; auto. eapply kle_trans; [|exact G]. apply kle_prefix_app. }
    destruct li; simpl.
    + destruct (klt k (p ++ k0)) eqn:L; auto. rewrite (between_prefix _ _ _ LE L) in P. discriminate.
    + destruct (lt_limit (prefix_limit p) k) eqn:L; auto.
      assert (in_range (bytes_prefix p) k = true). { unfold in_range. simpl. rewrite LE, L. auto. }
      rewrite prefix_range in H; auto. congruence.
Qed.

Lemma firstn_map : forall {A B} (f : A -> B) n l, firstn n (map f l) = map f (firstn n l).
Proof. induction n; destruct l; simpl; auto. f_equal. auto. Qed.

Definition dir {A} (asc : bool) (l : list A) : list A := if asc then l else rev l.

Lemma p_iter_exact : forall p r nr asc stop s, wf_store s -> rewrite_range p r = Some nr ->
  p_iter (Some p) r asc stop s =
  RKVs (stop_at stop (dir asc
     (map (fun kv => (skipn (length p) (fst kv), snd kv))
          (filter (fun kv => is_prefix p (fst kv) && user_in_range r (skipn (length p) (fst kv))) s)))).
Proof.
  intros. unfold p_iter. rewrite H0. f_equal. unfold raw_iter, origkey.
  assert (E : filter (fun kv => in_range nr (fst kv)) s =
              filter (fun kv => is_prefix p (fst kv) && user_in_range r (skipn (length p) (fst kv))) s).
  { apply filter_ext_in. intros [k v] I. simpl. eapply rewrite_range_spec; eauto.
    unfold wf_store in H. rewrite Forall_forall in H. apply (H _ I). }
  rewrite E. unfold dir.
  destruct stop; simpl; destruct asc; auto.
  - rewrite firstn_map. auto.
  - rewrite <- map_rev. rewrite firstn_map. auto.
  - rewrite map_rev. auto.
Qed.

