(* C25 -- prefix storage isolation.  Executable model of
     /repo/storage/leveldb/prefix.go  (PrefixStorage: key, origkey, Get, Exists, Put, Delete, Batch, Iter,
                                        Remove, Close, PrefixStorageBatch, RemoveByPrefix)
     /repo/storage/leveldb/db.go      (Storage.Iter, BatchRemove)
     goleveldb util.BytesPrefix / util.Range (trusted: bytewise comparator, half-open ranges).
   No proofs here. *)
From Coq Require Import List NArith ZArith String Bool.
Import ListNotations.
From MV Require Import Common.Cases.

Definition key := list N.          (* a byte string; every element < 256 (wf_key) *)
Definition val := string.          (* values are opaque (hex text as written by the harness) *)
Definition store := list (key * val).   (* raw leveldb content in iteration (ascending bytewise) order *)

(* bytes.Compare *)
Fixpoint kcmp (a b : key) : comparison :=
  match a, b with
  | [], [] => Eq
  | [], _ :: _ => Lt
  | _ :: _, [] => Gt
  | x :: a', y :: b' => match N.compare x y with Eq => kcmp a' b' | c => c end
  end.
Definition klt (a b : key) : bool := match kcmp a b with Lt => true | _ => false end.
Definition kle (a b : key) : bool := match kcmp a b with Gt => false | _ => true end.
Definition keqb (a b : key) : bool := match kcmp a b with Eq => true | _ => false end.

Fixpoint is_prefix (p k : key) : bool :=
  match p, k with
  | [], _ => true
  | x :: p', y :: k' => N.eqb x y && is_prefix p' k'
  | _ :: _, [] => false
  end.

Definition wf_key (k : key) : Prop := Forall (fun b => (b < 256)%N) k.

(* goleveldb util.BytesPrefix(prefix).Limit: the prefix up to its last byte below 0xff, that byte
   incremented; nil (no upper bound) when every byte is 0xff or the prefix is empty *)
Fixpoint prefix_limit (p : key) : option key :=
  match p with
  | [] => None
  | x :: r =>
      match prefix_limit r with
      | Some l => Some (x :: l)
      | None => if (x <? 255)%N then Some [(x + 1)%N] else None
      end
  end.

(* util.Range: Start nil = no lower bound, Limit nil = no upper bound; [Start, Limit) *)
Record range := mkRange { rstart : option key; rlimit : option key }.
Definition ge_start (s : option key) (k : key) : bool := match s with None => true | Some s => kle s k end.
Definition lt_limit (l : option key) (k : key) : bool := match l with None => true | Some l => klt k l end.
Definition in_range (r : range) (k : key) : bool := ge_start (rstart r) k && lt_limit (rlimit r) k.
Definition bytes_prefix (p : key) : range := mkRange (Some p) (prefix_limit p).

(* ---- raw storage (db.go) *)
Fixpoint sput (k : key) (v : val) (s : store) : store :=
  match s with
  | [] => [(k, v)]
  | (k', v') :: r =>
      match kcmp k k' with
      | Lt => (k, v) :: s
      | Eq => (k, v) :: r
      | Gt => (k', v') :: sput k v r
      end
  end.
Definition sdel (k : key) (s : store) : store := filter (fun kv => negb (keqb k (fst kv))) s.
Fixpoint sget (k : key) (s : store) : option val :=
  match s with
  | [] => None
  | (k', v) :: r => if keqb k k' then Some v else sget k r
  end.
Definition sdel_all (ks : list key) (s : store) : store := fold_left (fun s k => sdel k s) ks s.

(* one leveldb.Batch: records applied in order *)
Inductive brec := BPut (k : key) (v : val) | BDel (k : key).
Definition apply_rec (s : store) (b : brec) : store :=
  match b with BPut k v => sput k v s | BDel k => sdel k s end.
Definition apply_batch (b : list brec) (s : store) : store := fold_left apply_rec b s.

(* Storage.Iter: the entries in range, ascending (sort=true) or descending; the callback of the harness
   stops (returns keep=false) at its n-th call when stop = Some n (n >= 1) *)
Definition stop_at {A} (stop : option nat) (l : list A) : list A :=
  match stop with None => l | Some n => firstn n l end.
Definition raw_iter (r : range) (asc : bool) (s : store) : list (key * val) :=
  let l := filter (fun kv => in_range r (fst kv)) s in if asc then l else rev l.

(* RemoveByPrefix (prefix.go): collect every key of BytesPrefix(prefix), delete them in one batch *)
Definition remove_by_prefix (p : key) (s : store) : store :=
  sdel_all (map fst (raw_iter (bytes_prefix p) true s)) s.

(* BatchRemove (db.go): loop { iterate [start, Limit) ascending; the callback adds keys to the batch until
   batch.Len() == limit, then remembers that key as the next start and stops; empty batch => done;
   write the batch }.  limit is a Go int (negative: never equal).  fuel bounds the number of rounds. *)
Fixpoint collect (limit : Z) (n : Z) (ks : list key) : list key * option key :=
  match ks with
  | [] => ([], None)
  | k :: r =>
      if Z.eqb n limit then ([], Some k)
      else let '(b, nx) := collect limit (n + 1)%Z r in (k :: b, nx)
  end.

Fixpoint batch_remove (fuel : nat) (start lim : option key) (limit : Z) (s : store) (removed : Z)
  : option (store * Z) :=
  match fuel with
  | O => None
  | S f =>
      let ks := map fst (raw_iter (mkRange start lim) true s) in
      let '(b, nx) := collect limit 0 ks in
      match b with
      | [] => Some (s, removed)
      | _ =>
          batch_remove f (match nx with Some k => Some k | None => start end) lim limit
            (sdel_all b s) (removed + Z.of_nat (List.length b))
      end
  end.

(* ---- PrefixStorage (prefix.go).  A handle's prefix is None after Close. *)
Definition pkey (p : option key) (k : key) : option key :=
  match p, k with
  | None, _ => None
  | Some _, [] => None
  | Some p, _ => Some (p ++ k)
  end.

Inductive out :=
| RErr                         (* any error (ErrClosed) *)
| ROk
| RVal (v : option val)
| RBool (b : bool)
| RKVs (l : list (key * val))
| RNum (n : Z)
| RFuel.                       (* model ran out of fuel: never a legal observation *)

Definition p_get (p : option key) (k : key) (s : store) : out :=
  match pkey p k with None => RErr | Some rk => RVal (sget rk s) end.
Definition p_exists (p : option key) (k : key) (s : store) : out :=
  match pkey p k with None => RErr | Some rk => RBool (match sget rk s with Some _ => true | None => false end) end.
Definition p_put (p : option key) (k : key) (v : val) (s : store) : store * out :=
  match pkey p k with None => (s, RErr) | Some rk => (sput rk v s, ROk) end.
Definition p_delete (p : option key) (k : key) (s : store) : store * out :=
  match pkey p k with None => (s, RErr) | Some rk => (sdel rk s, ROk) end.

(* PrefixStorageBatch.Put/Delete prepend the prefix (no empty-key check); PrefixStorage.Batch refuses when closed *)
Definition pbatch (p : key) (b : list brec) : list brec :=
  map (fun r => match r with BPut k v => BPut (p ++ k) v | BDel k => BDel (p ++ k) end) b.
Definition p_batch (p : option key) (b : list brec) (s : store) : store * out :=
  match p with None => (s, RErr) | Some p => (apply_batch (pbatch p b) s, ROk) end.

(* PrefixStorage.Iter: nr := BytesPrefix(prefix); r.Start/r.Limit (when non-nil) replace nr.Start/nr.Limit by
   prefix++Start / prefix++Limit (an empty non-nil bound is refused by key()); keys handed to the callback
   have the first len(prefix) bytes cut off (origkey) *)
Definition rewrite_range (p : key) (r : option range) : option range :=
  match r with
  | None => Some (bytes_prefix p)
  | Some r =>
      match rstart r, rlimit r with
      | Some [], _ => None
      | _, Some [] => None
      | st, li =>
          Some (mkRange (match st with Some a => Some (p ++ a) | None => Some p end)
                        (match li with Some b => Some (p ++ b) | None => prefix_limit p end))
      end
  end.
Definition origkey (plen : nat) (k : key) : key := skipn plen k.
Definition p_iter (p : option key) (r : option range) (asc : bool) (stop : option nat) (s : store) : out :=
  match p with
  | None => RErr
  | Some p =>
      match rewrite_range p r with
      | None => RErr
      | Some nr => RKVs (map (fun kv => (origkey (List.length p) (fst kv), snd kv)) (stop_at stop (raw_iter nr asc s)))
      end
  end.
Definition p_remove (p : option key) (s : store) : store * out :=
  match p with None => (s, RErr) | Some p => (remove_by_prefix p s, ROk) end.

(* ---- the state machine driven by the harness *)
(* a writer returned by PrefixStorage.BatchFunc(ctx, batchsize, wo): the prefix is captured ONCE when the writer is
   made (None: the storage was closed then -- add/done fail); the pending batch is written when it holds batchsize
   records, and by done; done cancels the writer.  A later Close of the PrefixStorage does not touch the writer:
   its batches keep the captured prefix (db.go BatchFuncWithNewBatch, prefix.go BatchFunc) *)
Record writer := mkWriter { w_prefix : option key; w_size : nat; w_pending : list brec; w_live : bool }.
Definition dead_writer : writer := mkWriter None 0 [] false.

Record state := mkState { raw : store; handles : list (option key); writers : list writer }.

Inductive op :=
| OGet (h : nat) (k : key)
| OExists (h : nat) (k : key)
| OPut (h : nat) (k : key) (v : val)
| ODelete (h : nat) (k : key)
| OBatch (h : nat) (b : list brec)
| OIter (h : nat) (r : option range) (asc : bool) (stop : option nat)
| ORemove (h : nat)
| OClose (h : nat)
| ORawPut (k : key) (v : val)
| ORawRemoveByPrefix (p : key)
| ORawBatchRemove (r : option range) (limit : Z)
| ODump
| OWOpen (h : nat) (size : nat)       (* BatchFunc through handle h; the writer gets the next index *)
| OWAdd (w : nat) (r : brec)          (* the writer's add function with one Put / Delete *)
| OWDone (w : nat).                   (* the writer's done function *)

Definition handle (st : state) (h : nat) : option key := nth h (handles st) None.
Fixpoint set_nth {A} (n : nat) (x : A) (l : list A) : list A :=
  match l, n with
  | [], _ => []
  | _ :: r, O => x :: r
  | y :: r, S n' => y :: set_nth n' x r
  end.

Definition step (st : state) (o : op) : state * out :=
  let s := raw st in
  let upd (x : store * out) := (mkState (fst x) (handles st) (writers st), snd x) in
  match o with
  | OGet h k => (st, p_get (handle st h) k s)
  | OExists h k => (st, p_exists (handle st h) k s)
  | OPut h k v => upd (p_put (handle st h) k v s)
  | ODelete h k => upd (p_delete (handle st h) k s)
  | OBatch h b => upd (p_batch (handle st h) b s)
  | OIter h r asc stop => (st, p_iter (handle st h) r asc stop s)
  | ORemove h => upd (p_remove (handle st h) s)
  | OClose h => (mkState s (set_nth h None (handles st)) (writers st), ROk)
  | ORawPut k v => upd (sput k v s, ROk)
  | ORawRemoveByPrefix p => upd (remove_by_prefix p s, ROk)
  | ORawBatchRemove r limit =>
      let r := match r with Some r => r | None => mkRange None None end in
      match batch_remove (S (List.length s)) (rstart r) (rlimit r) limit s 0 with
      | Some (s', n) => upd (s', RNum n)
      | None => (st, RFuel)
      end
  | ODump => (st, RKVs s)
  | OWOpen h size => (mkState s (handles st) (writers st ++ [mkWriter (handle st h) size [] true]), ROk)
  | OWAdd w r =>
      let wr := nth w (writers st) dead_writer in
      match w_prefix wr, w_live wr with
      | Some p, true =>
          let pend := w_pending wr ++ [r] in
          if Nat.leb (w_size wr) (List.length pend)
          then (mkState (apply_batch (pbatch p pend) s) (handles st)
                        (set_nth w (mkWriter (Some p) (w_size wr) [] true) (writers st)), ROk)
          else (mkState s (handles st) (set_nth w (mkWriter (Some p) (w_size wr) pend true) (writers st)), ROk)
      | _, _ => (st, RErr)
      end
  | OWDone w =>
      let wr := nth w (writers st) dead_writer in
      match w_prefix wr, w_live wr with
      | Some p, true =>
          (mkState (apply_batch (pbatch p (w_pending wr)) s) (handles st)
                   (set_nth w (mkWriter (Some p) (w_size wr) [] false) (writers st)), ROk)
      | _, _ => (st, RErr)
      end
  end.

(* ---- correspondence: a case = prefixes of the handles, then (op, observed output) in order *)
Definition key_eqb (a b : key) : bool := list_eqb N.eqb a b.
Definition kv_eqb (a b : key * val) : bool := key_eqb (fst a) (fst b) && String.eqb (snd a) (snd b).
Definition out_eqb (a b : out) : bool :=
  match a, b with
  | RErr, RErr => true
  | ROk, ROk => true
  | RVal x, RVal y => option_eqb String.eqb x y
  | RBool x, RBool y => Bool.eqb x y
  | RKVs x, RKVs y => list_eqb kv_eqb x y
  | RNum x, RNum y => Z.eqb x y
  | _, _ => false
  end.

Fixpoint run_check (st : state) (l : list (op * out)) : bool :=
  match l with
  | [] => true
  | (o, want) :: r => let '(st', got) := step st o in out_eqb got want && run_check st' r
  end.

Definition case := (list key * list (op * out))%type.
Definition check (c : case) : bool := run_check (mkState [] (map Some (fst c)) []) (snd c).

(* shorthand used by the generated case files *)
Definition K := unhex.
