package vh

import (
	"strconv"
	"strings"
)

// BInts renders a byte string as a Coq term of type (int * list int) over primitive 63-bit integers:
// (length, big-endian words of 7 bytes, the last word holding the remaining 1..7 bytes).
// Coq elaborates primitive integer literals ~50x faster than string or N literals.
// Decode with MV.C12.Model.unb.
func BInts(b []byte) string {
	var sb strings.Builder
	sb.WriteString("(")
	sb.WriteString(strconv.Itoa(len(b)))
	sb.WriteString(", [")
	for i := 0; i < len(b); i += 7 {
		j := i + 7
		if j > len(b) {
			j = len(b)
		}
		var w uint64
		for _, c := range b[i:j] {
			w = w<<8 | uint64(c)
		}
		if i > 0 {
			sb.WriteString(";")
		}
		sb.WriteString(strconv.FormatUint(w, 10))
	}
	sb.WriteString("])%uint63")
	return sb.String()
}
