package vh

import "sync"

// Parallel runs f(0..n-1) on `workers` goroutines (the callee stores results by index; no randomness inside).
func Parallel(n, workers int, f func(i int)) {
	if workers < 1 {
		workers = 1
	}
	var wg sync.WaitGroup
	ch := make(chan int)
	for w := 0; w < workers; w++ {
		wg.Add(1)
		go func() {
			defer wg.Done()
			for i := range ch {
				f(i)
			}
		}()
	}
	for i := 0; i < n; i++ {
		ch <- i
	}
	close(ch)
	wg.Wait()
}
