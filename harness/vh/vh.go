// Package vh: shared helpers for the per-property correspondence harnesses.
// Contract with /verif/lib/driver.py: see /verif/CONVENTIONS.md.
package vh

import (
	"encoding/hex"
	"encoding/json"
	"flag"
	"fmt"
	"os"
	"path/filepath"
	"sort"
	"strings"
)

// ---------------------------------------------------------------- flags

type Opts struct {
	Seed   uint64
	Tier   string
	Out    string
	Replay string
	N      int // generic case-count knob (0 = harness default for the tier)
}

func ParseFlags() *Opts {
	o := &Opts{}
	flag.Uint64Var(&o.Seed, "seed", 1, "PRNG seed")
	flag.StringVar(&o.Tier, "tier", "quick", "quick|thorough")
	flag.StringVar(&o.Out, "out", ".", "output directory")
	flag.StringVar(&o.Replay, "replay", "", "replay file")
	flag.IntVar(&o.N, "n", 0, "number of generated cases")
	flag.Parse()
	return o
}

func (o *Opts) Thorough() bool { return o.Tier == "thorough" }

// Pick returns q for the quick tier and t for thorough, unless -n was given.
func (o *Opts) Pick(q, t int) int {
	if o.N > 0 {
		return o.N
	}
	if o.Thorough() {
		return t
	}
	return q
}

// ---------------------------------------------------------------- PRNG (splitmix64): every random choice derives from one state

type Rand struct{ s uint64 }

func NewRand(seed uint64) *Rand { return &Rand{s: seed*0x9E3779B97F4A7C15 + 0x1234567} }

func (r *Rand) U64() uint64 {
	r.s += 0x9E3779B97F4A7C15
	z := r.s
	z = (z ^ (z >> 30)) * 0xBF58476D1CE4E5B9
	z = (z ^ (z >> 27)) * 0x94D049BB133111EB
	return z ^ (z >> 31)
}

// Intn returns a value in [0,n).
func (r *Rand) Intn(n int) int {
	if n <= 0 {
		return 0
	}
	return int(r.U64() % uint64(n))
}

// Range returns a value in [lo,hi].
func (r *Rand) Range(lo, hi int) int { return lo + r.Intn(hi-lo+1) }
func (r *Rand) Bool() bool         { return r.U64()&1 == 1 }
func (r *Rand) Chance(num, den int) bool {
	return r.Intn(den) < num
}
func (r *Rand) Bytes(n int) []byte {
	b := make([]byte, n)
	for i := range b {
		b[i] = byte(r.U64())
	}
	return b
}
func (r *Rand) Perm(n int) []int {
	p := make([]int, n)
	for i := range p {
		p[i] = i
	}
	for i := n - 1; i > 0; i-- {
		j := r.Intn(i + 1)
		p[i], p[j] = p[j], p[i]
	}
	return p
}

// ---------------------------------------------------------------- Coq term rendering

func Z(n int64) string {
	if n < 0 {
		return fmt.Sprintf("(%d)%%Z", n)
	}
	return fmt.Sprintf("%d%%Z", n)
}
func ZU(n uint64) string { return fmt.Sprintf("%d%%Z", n) }
func N(n uint64) string  { return fmt.Sprintf("%d%%N", n) }
func Nat(n int) string   { return fmt.Sprintf("%d%%nat", n) }
func Bool(b bool) string {
	if b {
		return "true"
	}
	return "false"
}
func List(items []string) string { return "[" + strings.Join(items, "; ") + "]" }
func Tuple(items ...string) string {
	return "(" + strings.Join(items, ", ") + ")"
}
func Some(s string) string { return "(Some " + s + ")" }

// Hex renders bytes as a Coq string literal of hex digits: decode with MV.Common.Hex.unhex.
func Hex(b []byte) string { return "\"" + hex.EncodeToString(b) + "\"%string" }

// Str renders an ASCII string as a Coq string literal (only printable ASCII without '"').
func Str(s string) string {
	for _, c := range []byte(s) {
		if c < 32 || c > 126 || c == '"' {
			panic("vh.Str: unsupported char in " + fmt.Sprintf("%q", s))
		}
	}
	return "\"" + s + "\"%string"
}
func ZList(xs []int64) string {
	ss := make([]string, len(xs))
	for i, x := range xs {
		ss[i] = fmt.Sprintf("%d", x)
	}
	return "[" + strings.Join(ss, "; ") + "]%Z"
}

// ---------------------------------------------------------------- cases.v writer

// Cases collects (Coq term, JSON descriptor) pairs and writes sharded cases_NNN.v files.
// The model side must define `check : case -> bool` (named by CheckFn); the file computes the
// indices of cases for which check = false.
type Cases struct {
	Import  string // e.g. "From MV Require Import C02.Model."
	Type    string // Coq type of one case
	CheckFn string // Coq function : Type -> bool
	Shard   int    // cases per file (default 500)
	terms   []string
	descs   []any
}

func (c *Cases) Add(term string, desc any) {
	c.terms = append(c.terms, term)
	c.descs = append(c.descs, desc)
}
func (c *Cases) Len() int { return len(c.terms) }

func (c *Cases) Write(dir string) error {
	shard := c.Shard
	if shard <= 0 {
		shard = 500
	}
	jf, err := os.Create(filepath.Join(dir, "cases.jsonl"))
	if err != nil {
		return err
	}
	defer jf.Close()
	for k := 0; k*shard < len(c.terms) || (k == 0 && len(c.terms) == 0); k++ {
		lo, hi := k*shard, (k+1)*shard
		if hi > len(c.terms) {
			hi = len(c.terms)
		}
		name := fmt.Sprintf("cases_%03d.v", k)
		var sb strings.Builder
		sb.WriteString("From Coq Require Import List ZArith NArith String Bool.\nImport ListNotations.\n")
		sb.WriteString("From MV Require Import Common.Cases.\n")
		sb.WriteString(c.Import + "\n")
		sb.WriteString("Open Scope string_scope.\n")
		sb.WriteString(fmt.Sprintf("Definition cases : list (%s) := [\n", c.Type))
		for i := lo; i < hi; i++ {
			sb.WriteString("  " + c.terms[i])
			if i+1 < hi {
				sb.WriteString(";")
			}
			sb.WriteString("\n")
			b, _ := json.Marshal(map[string]any{"file": name, "idx": i - lo, "case": c.descs[i]})
			jf.Write(append(b, '\n'))
		}
		sb.WriteString("].\n")
		sb.WriteString(fmt.Sprintf("Definition M := Eval vm_compute in (bad_indices (%s) cases).\nPrint M.\n", c.CheckFn))
		if err := os.WriteFile(filepath.Join(dir, name), []byte(sb.String()), 0o644); err != nil {
			return err
		}
	}
	return nil
}

// ---------------------------------------------------------------- result.json

type Failure struct {
	Class  string `json:"class"`
	Desc   string `json:"desc"`
	Replay any    `json:"replay"`
}

type Result struct {
	Evaluations        int            `json:"evaluations"`
	DistinctNontrivial int            `json:"distinct_nontrivial"`
	Rule               string         `json:"rule"`
	Samples            []any          `json:"samples"`
	Distribution       map[string]int `json:"distribution"`
	Exhaustive         bool           `json:"exhaustive"`
	ModelCases         int            `json:"model_cases"`
	Failures           []Failure      `json:"failures"`
	Notes              []string       `json:"notes"`
	distinct           map[string]struct{}
}

func NewResult(rule string) *Result {
	return &Result{Rule: rule, Distribution: map[string]int{}, distinct: map[string]struct{}{}, Failures: []Failure{}, Notes: []string{}, Samples: []any{}}
}

// Count records one evaluation; key identifies the case for distinctness; nontrivial per the stated rule.
func (r *Result) Count(key string, nontrivial bool) {
	r.Evaluations++
	if nontrivial {
		if _, ok := r.distinct[key]; !ok {
			r.distinct[key] = struct{}{}
			r.DistinctNontrivial = len(r.distinct)
		}
	}
}
func (r *Result) Dist(k string) { r.Distribution[k]++ }
func (r *Result) Sample(s any) {
	if len(r.Samples) < 6 {
		r.Samples = append(r.Samples, s)
	}
}
// Fail records an oracle failure. At most 25 failures are kept per class (and 600 in total) so that a
// frequent (e.g. known) class can never crowd a new class out of the report; all are counted in Distribution.
func (r *Result) Fail(class, desc string, replay any) {
	r.Distribution["oracle_fail:"+class]++
	if r.Distribution["oracle_fail:"+class] <= 25 && len(r.Failures) < 600 {
		r.Failures = append(r.Failures, Failure{class, desc, replay})
	}
}
func (r *Result) Note(s string) { r.Notes = append(r.Notes, s) }

func (r *Result) Write(dir string) {
	b, err := json.MarshalIndent(r, "", " ")
	if err != nil {
		panic(err)
	}
	if err := os.WriteFile(filepath.Join(dir, "result.json"), b, 0o644); err != nil {
		panic(err)
	}
}

func SortedKeys[V any](m map[string]V) []string {
	ks := make([]string, 0, len(m))
	for k := range m {
		ks = append(ks, k)
	}
	sort.Strings(ks)
	return ks
}

// ReadReplay loads the replay JSON written by the driver and returns the "replay" payload of the
// failing input (or the raw document when it is not a driver file).
func ReadReplay(path string, into any) error {
	b, err := os.ReadFile(path)
	if err != nil {
		return err
	}
	var doc struct {
		FailingInput *struct {
			Replay json.RawMessage `json:"replay"`
		} `json:"failing_input"`
	}
	if json.Unmarshal(b, &doc) == nil && doc.FailingInput != nil && len(doc.FailingInput.Replay) > 0 {
		return json.Unmarshal(doc.FailingInput.Replay, into)
	}
	return json.Unmarshal(b, into)
}
