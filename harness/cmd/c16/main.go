// c16: imported blocks are consistent with their manifest.
//
// Every case is a block written to local fs by the repository's own LocalFSWriter (which signs the block
// map and computes the item checksums, so only the *semantic* inconsistency of a tamper remains), fed
// (1) item by item through the real BlockImporter (WriteMap / WriteItem / Save / merge callback) into a
// fresh root and (2) through the real validator IsValidBlockFromLocalFS (on the source and, when the
// import succeeded, on the imported root). Oracle = the property: Save succeeded => the stored block
// passes the validator, and its voteproofs are for the manifest with an ACCEPT majority for the manifest hash.
package main

import (
	"bytes"
	"compress/gzip"
	"context"
	"crypto/sha256"
	"fmt"
	"os"
	"path/filepath"
	"regexp"
	"strings"
	"sync"
	"time"

	"github.com/spikeekips/mitum/base"
	"github.com/spikeekips/mitum/isaac"
	isaacblock "github.com/spikeekips/mitum/isaac/block"
	"github.com/spikeekips/mitum/util"
	"github.com/spikeekips/mitum/util/fixedtree"
	"github.com/spikeekips/mitum/util/valuehash"
	"verifharness/vh"
)

// ---------------------------------------------------------------- recipe of one block

type opSpec struct {
	op      base.Operation
	valid   bool
	gsigned bool
}

type stSpec struct {
	st       base.State
	valid    bool
	suffrage bool
}

type treeSpec struct {
	present bool // item in the map
	keys    []string
	tr      fixedtree.Tree
	valid   bool
}

type vpSpec struct {
	vp       base.Voteproof
	kindOK   bool
	valid    bool
	height   base.Height
	round    base.Round
	newblock util.Hash
}

type recipe struct {
	Kinds  []int  `json:"kinds"`
	Height int64  `json:"height"`
	NOps   int    `json:"nops"`
	NSts   int    `json:"nsts"`
	Suf    bool   `json:"suffrage_state"`
	Seed   uint64 `json:"seed"`

	point base.Point
	prev  util.Hash
	ophs  [][2]util.Hash

	ops     []opSpec
	opstree treeSpec
	sts     []stSpec
	ststree treeSpec

	pr       base.ProposalSignFact
	prValid  bool
	prHeight base.Height

	// manifest fields
	mProposal util.Hash
	mOpsRoot  util.Hash
	mStsRoot  util.Hash
	manifest  base.Manifest

	vps [2]vpSpec

	// byte level / map level
	garble      map[base.BlockItemType]bool
	emptied     map[base.BlockItemType]bool // item file reduced to its header line with count 0 (decodes to nothing)
	badChecksum map[base.BlockItemType]bool
	dropItem    map[base.BlockItemType]bool
	mapOtherNet bool
	swapWrite   bool
	notFed      map[base.BlockItemType]bool // items of the map the caller does not hand to WriteItem
}

var itemOrder = []base.BlockItemType{
	base.BlockItemProposal, base.BlockItemOperations, base.BlockItemOperationsTree,
	base.BlockItemStates, base.BlockItemStatesTree, base.BlockItemVoteproofs,
}

type gen struct {
	e *env
	r *vh.Rand
}

func (g *gen) newOp(valid bool, signer base.LocalNode) opSpec {
	token := util.UUID().Bytes()
	if !valid {
		token = nil // base.Token.IsValid: empty token
	}
	fact := isaac.NewDummyOperationFact(token, valuehash.RandomSHA256())
	op, err := isaac.NewDummyOperation(fact, signer.Privatekey(), g.e.networkID)
	must(err)

	return opSpec{op: op, valid: valid, gsigned: signer.Address().Equal(g.e.local.Address())}
}

func (g *gen) newState(height base.Height, valid bool) stSpec {
	key := "k-" + util.UUID().String()
	if !valid {
		key = "" // BaseState.IsValid: empty state key
	}
	st := base.NewBaseState(height, key, base.NewDummyStateValue(util.UUID().String()), valuehash.RandomSHA256(),
		[]util.Hash{valuehash.RandomSHA256()})

	return stSpec{st: st, valid: valid}
}

func (g *gen) newSuffrageState(height base.Height) stSpec {
	node := base.RandomNode()
	sv := isaac.NewSuffrageNodesStateValue(base.Height(g.r.Intn(5)), []base.SuffrageNodeStateValue{isaac.NewSuffrageNodeStateValue(node, height)})
	st := base.NewBaseState(height, isaac.SuffrageStateKey, sv, valuehash.RandomSHA256(), []util.Hash{valuehash.RandomSHA256()})

	return stSpec{st: st, valid: true, suffrage: true}
}

func opsTree(keys []string) treeSpec {
	if len(keys) < 1 {
		return treeSpec{valid: true}
	}
	w, err := fixedtree.NewWriter(base.OperationFixedtreeHint, uint64(len(keys)))
	must(err)
	for i, k := range keys {
		var n base.OperationFixedtreeNode
		if strings.HasSuffix(k, "-") {
			n = base.NewNotInStateOperationFixedtreeNode(hashOf(k[:len(k)-1]), "reason")
		} else {
			n = base.NewInStateOperationFixedtreeNode(hashOf(k), "")
		}
		must(w.Add(uint64(i), n))
	}
	tr, err := w.Tree()
	must(err)

	return treeSpec{present: true, keys: keys, tr: tr, valid: true}
}

func hashOf(s string) util.Hash {
	h, err := valuehash.NewBytesFromString(s)
	must(err)

	return h
}

func stsTree(keys []string) treeSpec {
	if len(keys) < 1 {
		return treeSpec{valid: true}
	}
	w, err := fixedtree.NewWriter(base.StateFixedtreeHint, uint64(len(keys)))
	must(err)
	for i, k := range keys {
		must(w.Add(uint64(i), fixedtree.NewBaseNode(k)))
	}
	tr, err := w.Tree()
	must(err)

	return treeSpec{present: true, keys: keys, tr: tr, valid: true}
}

func opKeys(ops []opSpec) []string {
	ks := make([]string, len(ops))
	for i := range ops {
		ks[i] = ops[i].op.Fact().Hash().String()
	}

	return ks
}

func stKeys(sts []stSpec) []string {
	ks := make([]string, len(sts))
	for i := range sts {
		ks[i] = sts[i].st.Hash().String()
	}

	return ks
}

func root(t treeSpec) util.Hash {
	if t.tr.Len() < 1 {
		return nil
	}

	return t.tr.Root()
}

// corrupt the hash of one node: Tree.IsValid fails ("hash does not match"); index 0 also changes Root()
func corruptTree(t *treeSpec, index int) {
	n := t.tr.Node(uint64(index))
	must(t.tr.Set(uint64(index), n.SetHash(valuehash.RandomSHA256())))
	t.valid = false
}

// base (untampered) recipe
func (g *gen) base(height int64, nops, nsts int, suf bool) *recipe {
	rc := &recipe{Height: height, NOps: nops, NSts: nsts, Suf: suf,
		garble: map[base.BlockItemType]bool{}, emptied: map[base.BlockItemType]bool{}, badChecksum: map[base.BlockItemType]bool{}, dropItem: map[base.BlockItemType]bool{}}
	rc.point = base.NewPoint(base.Height(height), base.Round(g.r.Intn(3)))
	if height > 0 {
		rc.prev = valuehash.RandomSHA256()
	} else {
		rc.point = base.GenesisPoint // the genesis point is (0, 0)
	}
	for i := 0; i < nops; i++ {
		rc.ops = append(rc.ops, g.newOp(true, g.e.local))
	}
	// the proposal names the operations the block was made from (before any tamper)
	rc.ophs = make([][2]util.Hash, len(rc.ops))
	for i := range rc.ops {
		rc.ophs[i] = [2]util.Hash{rc.ops[i].op.Hash(), rc.ops[i].op.Fact().Hash()}
	}
	rc.opstree = opsTree(opKeys(rc.ops))
	for i := 0; i < nsts; i++ {
		if i == 0 && suf {
			rc.sts = append(rc.sts, g.newSuffrageState(base.Height(height)))
		} else {
			rc.sts = append(rc.sts, g.newState(base.Height(height), true))
		}
	}
	rc.ststree = stsTree(stKeys(rc.sts))
	rc.prHeight = base.Height(height)
	rc.prValid = true

	return rc
}

// finish: proposal -> manifest -> voteproofs, honouring what the tampers already fixed
func (g *gen) finish(rc *recipe, kinds map[int]bool) {
	e := g.e
	ophs := rc.ophs
	prnet := e.networkID
	if kinds[kPrOtherNet] {
		prnet = e.otherNet
		rc.prValid = false
	}
	prpoint := rc.point
	if kinds[kPrOtherHeight] {
		rc.prHeight = rc.point.Height() + 1
		prpoint = base.NewPoint(rc.prHeight, rc.point.Round())
	}
	prev := rc.prev
	if prev == nil && prpoint.Height() > base.GenesisHeight {
		prev = valuehash.RandomSHA256()
	}
	rc.pr = e.proposal(prpoint, prev, ophs, prnet) // (genesis proposal: previous block nil)
	if prev == nil {
		prev = valuehash.RandomSHA256() // the INIT ballot fact wants a previous block hash
	}

	rc.mProposal = rc.pr.Fact().Hash()
	if kinds[kManifestProposalRandom] {
		rc.mProposal = valuehash.RandomSHA256()
	}
	if !kinds[kManifestOpsRootKeep] {
		rc.mOpsRoot = root(rc.opstree)
	}
	if kinds[kManifestOpsRootRandom] {
		rc.mOpsRoot = valuehash.RandomSHA256()
	}
	if !kinds[kManifestStsRootKeep] {
		rc.mStsRoot = root(rc.ststree)
	}
	if kinds[kManifestStsRootRandom] {
		rc.mStsRoot = valuehash.RandomSHA256()
	}
	var suffrage util.Hash
	if rc.point.Height() > 0 {
		suffrage = valuehash.RandomSHA256()
	}
	for i := range rc.sts {
		if rc.sts[i].suffrage {
			suffrage = rc.sts[i].st.Hash()
		}
	}
	if suffrage == nil {
		suffrage = valuehash.RandomSHA256()
	}
	rc.manifest = isaac.NewManifest(rc.point.Height(), rc.prev, rc.mProposal, rc.mOpsRoot, rc.mStsRoot, suffrage,
		rc.pr.ProposalFact().ProposedAt())

	ipoint, apoint := rc.point, rc.point
	if kinds[kVpsOtherHeight] {
		ipoint = base.NewPoint(rc.point.Height()+1, rc.point.Round())
		apoint = ipoint
	}
	if kinds[kAvpOtherRound] {
		apoint = base.NewPoint(apoint.Height(), apoint.Round()+1)
	}
	inet, anet := e.networkID, e.networkID
	if kinds[kIvpOtherNet] {
		inet = e.otherNet
	}
	if kinds[kAvpOtherNet] {
		anet = e.otherNet
	}
	newblock := rc.manifest.Hash()
	if kinds[kAvpOtherBlock] {
		newblock = valuehash.RandomSHA256()
	}
	ivp := e.initVoteproof(ipoint, prev, rc.mProposal, inet)
	avp := e.acceptVoteproof(apoint, rc.mProposal, newblock, anet)
	if kinds[kIvpDraw] && !kinds[kIvpOtherNet] {
		ivp = e.initVoteproofDraw(ipoint, prev, rc.mProposal)
	}
	if kinds[kAvpDraw] && !kinds[kAvpOtherNet] {
		avp = e.acceptVoteproofDraw(apoint, rc.mProposal, newblock)
		newblock = nil // no majority
	}
	rc.vps[0] = vpSpec{vp: ivp, kindOK: true, valid: !kinds[kIvpOtherNet], height: ipoint.Height(), round: ipoint.Round()}
	rc.vps[1] = vpSpec{vp: avp, kindOK: true, valid: !kinds[kAvpOtherNet], height: apoint.Height(), round: apoint.Round(), newblock: newblock}
}

// ---------------------------------------------------------------- tamper kinds

const (
	kNone = 0
	// states
	kStsForeignTreeConsistent = 1 // tree of other states; manifest names the foreign root
	kStsForeignTree           = 2 // tree of other states; manifest keeps the root of the real states
	kStsExtra                 = 3
	kStsMissing               = 4
	kStsReplaced              = 5
	kStsOtherHeight           = 6
	kStsDup                   = 7
	kManifestStsRootRandom    = 8
	kStsInvalid               = 9
	kStsTreeCorruptLeaf       = 10
	kStsNoTree                = 11 // states item present, no tree item, manifest without states root
	kStsSuffrageNotInTree     = 12
	kStsTreeCorruptRoot       = 13
	kManifestStsRootKeep      = 14 // (internal)
	kStsItemDropped           = 15 // no states item in the (re-signed) map; tree and manifest still commit to the states
	kStsEmptied               = 16 // states item with count 0; tree and manifest still commit to the states
	kStsTreeEmptied           = 17 // states tree item with count 0; states and manifest root kept
	// operations
	kOpsExtra                 = 20
	kOpsMissing               = 21
	kOpsReplaced              = 22
	kManifestOpsRootRandom    = 23
	kOpsDup                   = 24
	kOpsInvalid               = 25
	kOpsGenesisOtherSigner    = 26
	kOpsTreeGarbled           = 27
	kOpsForeignTreeConsistent = 28
	kOpsNotInStateNode        = 29 // what the real Writer produces for a failed operation: node in the tree, no operation in the file
	kManifestOpsRootKeep      = 30 // (internal)
	kOpsTreeCorruptLeaf       = 31
	kOpsItemDropped           = 32
	kOpsEmptied               = 33
	kOpsTreeEmptied           = 34
	kOpsNoTree                = 35 // operations item present, no tree item, manifest without operations root
	// proposal
	kManifestProposalRandom = 40
	kPrOtherHeight          = 41
	kPrOtherNet             = 42
	kPrGarbled              = 43
	// voteproofs
	kVpsOtherHeight = 50
	kAvpOtherRound  = 51
	kAvpOtherBlock  = 52
	kIvpOtherNet    = 53
	kAvpOtherNet    = 54
	kVpsSwapped     = 55
	kVpsGarbled     = 56
	kAvpDraw        = 57 // ACCEPT voteproof is a finished, valid DRAW at the manifest's point: no majority at all
	kIvpDraw        = 58 // INIT voteproof is a draw (the code does not look at the INIT majority)
	// checksums / map
	kBadChecksum    = 60 // + index in itemOrder (60..65)
	kStsGarbled     = 70
	kOpsGarbled     = 71
	kStsTreeGarbled = 72
	kMapOtherNet    = 80
	kItemNotFed     = 85 // one item of the map is never written to the importer
	// not tampers: the block is produced by the repository's block Writer (isaacblock.NewWriter) on top of LocalFSWriter
	kWriter           = 90
	kWriterNotInState = 91 // one more operation that failed processing (SetProcessResult instate=false)
)

var kindName = map[int]string{
	kNone: "none", kStsForeignTreeConsistent: "sts-foreign-tree+manifest", kStsForeignTree: "sts-foreign-tree", kStsExtra: "sts-extra",
	kStsMissing: "sts-missing", kStsReplaced: "sts-replaced", kStsOtherHeight: "sts-other-height", kStsDup: "sts-dup",
	kManifestStsRootRandom: "manifest-stsroot-random", kStsInvalid: "sts-invalid", kStsTreeCorruptLeaf: "ststree-corrupt-leaf",
	kStsNoTree: "sts-without-tree", kStsSuffrageNotInTree: "suffrage-state-not-in-tree", kStsTreeCorruptRoot: "ststree-corrupt-root",
	kOpsExtra: "ops-extra", kOpsMissing: "ops-missing", kOpsReplaced: "ops-replaced", kManifestOpsRootRandom: "manifest-opsroot-random",
	kOpsDup: "ops-dup", kOpsInvalid: "ops-invalid", kOpsGenesisOtherSigner: "ops-genesis-other-signer", kOpsTreeGarbled: "opstree-garbled",
	kOpsForeignTreeConsistent: "ops-foreign-tree+manifest", kOpsNotInStateNode: "ops-not-in-state-node(genuine)", kOpsTreeCorruptLeaf: "opstree-corrupt-leaf",
	kManifestProposalRandom: "manifest-proposal-random", kPrOtherHeight: "proposal-other-height", kPrOtherNet: "proposal-invalid-sign", kPrGarbled: "proposal-garbled",
	kVpsOtherHeight: "vps-other-height", kAvpOtherRound: "avp-other-round", kAvpOtherBlock: "avp-majority-other-block", kIvpOtherNet: "ivp-invalid",
	kAvpOtherNet: "avp-invalid", kVpsSwapped: "vps-written-in-swapped-order(harmless)", kVpsGarbled: "vps-garbled", kAvpDraw: "avp-draw-no-majority", kIvpDraw: "ivp-draw",
	60: "bad-checksum-proposal", 61: "bad-checksum-operations", 62: "bad-checksum-operations_tree", 63: "bad-checksum-states",
	64: "bad-checksum-states_tree", 65: "bad-checksum-voteproofs", kStsGarbled: "sts-garbled", kOpsGarbled: "ops-garbled",
	kStsTreeGarbled: "ststree-garbled", kMapOtherNet: "map-signed-other-network", kItemNotFed: "item-not-written-to-importer",
	kStsItemDropped: "sts-item-dropped", kStsEmptied: "sts-item-emptied", kStsTreeEmptied: "ststree-emptied",
	kOpsItemDropped: "ops-item-dropped", kOpsEmptied: "ops-item-emptied", kOpsTreeEmptied: "opstree-emptied", kOpsNoTree: "ops-without-tree",
	kWriter: "genuine(block-writer)", kWriterNotInState: "genuine(block-writer,failed-operation)",
}

var allKinds = []int{
	kStsForeignTreeConsistent, kStsForeignTree, kStsExtra, kStsMissing, kStsReplaced, kStsOtherHeight, kStsDup, kManifestStsRootRandom,
	kStsInvalid, kStsTreeCorruptLeaf, kStsNoTree, kStsSuffrageNotInTree, kStsTreeCorruptRoot,
	kOpsExtra, kOpsMissing, kOpsReplaced, kManifestOpsRootRandom, kOpsDup, kOpsInvalid, kOpsGenesisOtherSigner, kOpsTreeGarbled,
	kOpsForeignTreeConsistent, kOpsNotInStateNode, kOpsTreeCorruptLeaf,
	kManifestProposalRandom, kPrOtherHeight, kPrOtherNet, kPrGarbled,
	kVpsOtherHeight, kAvpOtherRound, kAvpOtherBlock, kIvpOtherNet, kAvpOtherNet, kVpsSwapped, kVpsGarbled, kAvpDraw, kIvpDraw,
	60, 61, 62, 63, 64, 65, kStsGarbled, kOpsGarbled, kStsTreeGarbled, kMapOtherNet, kItemNotFed,
	kStsItemDropped, kStsEmptied, kStsTreeEmptied, kOpsItemDropped, kOpsEmptied, kOpsTreeEmptied, kOpsNoTree,
}

func group(k int) int { return k / 20 * 20 } // 0 states, 20 ops, 40 proposal(+vps 50..), 60 checksums...

// apply the content tampers (before finish); returns the effective kinds (a tamper that does not apply to this
// block, e.g. "missing state" with no states, is dropped)
func (g *gen) tamper(rc *recipe, want []int) map[int]bool {
	kinds := map[int]bool{}
	h := rc.point.Height()
	for _, k := range want {
		switch k {
		case kStsForeignTreeConsistent, kStsForeignTree:
			if len(rc.sts) < 1 {
				continue
			}
			foreign := make([]stSpec, len(rc.sts))
			for i := range foreign {
				foreign[i] = g.newState(h, true)
			}
			if k == kStsForeignTree {
				rc.mStsRoot = root(rc.ststree)
				kinds[kManifestStsRootKeep] = true
			}
			rc.ststree = stsTree(stKeys(foreign))
		case kStsExtra:
			rc.sts = append(rc.sts, g.newState(h, true))
		case kStsMissing:
			if len(rc.sts) < 1 {
				continue
			}
			rc.sts = rc.sts[:len(rc.sts)-1]
		case kStsReplaced:
			if len(rc.sts) < 1 {
				continue
			}
			rc.sts[len(rc.sts)-1] = g.newState(h, true)
		case kStsOtherHeight:
			if len(rc.sts) < 1 {
				continue
			}
			rc.sts[len(rc.sts)-1] = g.newState(h+1, true)
			rc.ststree = stsTree(stKeys(rc.sts))
		case kStsDup:
			if len(rc.sts) < 1 {
				continue
			}
			rc.sts = append(rc.sts, rc.sts[len(rc.sts)-1])
			rc.ststree = stsTree(stKeys(rc.sts))
		case kManifestStsRootRandom, kManifestOpsRootRandom, kManifestProposalRandom, kPrOtherHeight, kPrOtherNet,
			kVpsOtherHeight, kAvpOtherRound, kAvpOtherBlock, kIvpOtherNet, kAvpOtherNet, kAvpDraw, kIvpDraw:
			// handled in finish
		case kStsInvalid:
			rc.sts = append(rc.sts, g.newState(h, false))
			rc.ststree = stsTree(stKeys(rc.sts))
		case kStsTreeCorruptLeaf:
			if rc.ststree.tr.Len() < 2 {
				continue
			}
			corruptTree(&rc.ststree, rc.ststree.tr.Len()-1)
		case kStsTreeCorruptRoot:
			if rc.ststree.tr.Len() < 1 {
				continue
			}
			corruptTree(&rc.ststree, 0)
		case kStsItemDropped:
			if len(rc.sts) < 1 {
				continue
			}
			rc.dropItem[base.BlockItemStates] = true
		case kStsEmptied:
			if len(rc.sts) < 1 {
				continue
			}
			rc.emptied[base.BlockItemStates] = true
		case kStsTreeEmptied:
			if !rc.ststree.present {
				continue
			}
			rc.emptied[base.BlockItemStatesTree] = true
		case kOpsItemDropped:
			if len(rc.ops) < 1 {
				continue
			}
			rc.dropItem[base.BlockItemOperations] = true
		case kOpsEmptied:
			if len(rc.ops) < 1 {
				continue
			}
			rc.emptied[base.BlockItemOperations] = true
		case kOpsTreeEmptied:
			if !rc.opstree.present {
				continue
			}
			rc.emptied[base.BlockItemOperationsTree] = true
		case kOpsNoTree:
			if len(rc.ops) < 1 {
				continue
			}
			rc.dropItem[base.BlockItemOperationsTree] = true
			rc.mOpsRoot = nil
			kinds[kManifestOpsRootKeep] = true
		case kStsNoTree:
			if len(rc.sts) < 1 {
				continue
			}
			rc.dropItem[base.BlockItemStatesTree] = true
			rc.mStsRoot = nil
			kinds[kManifestStsRootKeep] = true
		case kStsSuffrageNotInTree:
			var found bool
			var others []stSpec
			for i := range rc.sts {
				if rc.sts[i].suffrage {
					found = true
					others = append(others, g.newState(h, true))
				} else {
					others = append(others, rc.sts[i])
				}
			}
			if !found {
				continue
			}
			rc.ststree = stsTree(stKeys(others))
		case kOpsExtra:
			rc.ops = append(rc.ops, g.newOp(true, g.e.local))
		case kOpsMissing:
			if len(rc.ops) < 1 {
				continue
			}
			rc.ops = rc.ops[:len(rc.ops)-1]
		case kOpsReplaced:
			if len(rc.ops) < 1 {
				continue
			}
			rc.ops[len(rc.ops)-1] = g.newOp(true, g.e.local)
		case kOpsDup:
			if len(rc.ops) < 1 {
				continue
			}
			rc.ops = append(rc.ops, rc.ops[len(rc.ops)-1])
			rc.opstree = opsTree(opKeys(rc.ops))
		case kOpsInvalid:
			rc.ops = append(rc.ops, g.newOp(false, g.e.local))
			rc.opstree = opsTree(opKeys(rc.ops))
		case kOpsGenesisOtherSigner:
			rc.ops = append(rc.ops, g.newOp(true, g.e.other))
			rc.opstree = opsTree(opKeys(rc.ops))
		case kOpsTreeGarbled:
			if !rc.opstree.present {
				continue
			}
			rc.garble[base.BlockItemOperationsTree] = true
		case kOpsForeignTreeConsistent:
			if len(rc.ops) < 1 {
				continue
			}
			foreign := make([]opSpec, len(rc.ops))
			for i := range foreign {
				foreign[i] = g.newOp(true, g.e.local)
			}
			rc.opstree = opsTree(opKeys(foreign))
		case kOpsNotInStateNode:
			keys := append(opKeys(rc.ops), valuehash.RandomSHA256().String()+"-")
			rc.opstree = opsTree(keys)
		case kOpsTreeCorruptLeaf:
			if rc.opstree.tr.Len() < 2 {
				continue
			}
			corruptTree(&rc.opstree, rc.opstree.tr.Len()-1)
		case kPrGarbled:
			rc.garble[base.BlockItemProposal] = true
		case kVpsSwapped, kVpsGarbled:
			// after finish
		case 60, 61, 62, 63, 64, 65:
			rc.badChecksum[itemOrder[k-60]] = true
		case kStsGarbled:
			if len(rc.sts) < 1 {
				continue
			}
			rc.garble[base.BlockItemStates] = true
		case kOpsGarbled:
			if len(rc.ops) < 1 {
				continue
			}
			rc.garble[base.BlockItemOperations] = true
		case kStsTreeGarbled:
			if !rc.ststree.present {
				continue
			}
			rc.garble[base.BlockItemStatesTree] = true
		case kMapOtherNet:
			rc.mapOtherNet = true
		case kItemNotFed:
			// decided in runCase once the map is known
		default:
			continue
		}
		kinds[k] = true
	}

	return kinds
}

func (g *gen) build(height int64, nops, nsts int, suf bool, want []int) *recipe {
	rc := g.base(height, nops, nsts, suf)
	kinds := g.tamper(rc, want)
	g.finish(rc, kinds)
	if kinds[kVpsSwapped] {
		// harmless: the ACCEPT voteproof is written first, the INIT voteproof second; the item reader sorts them by type
		rc.swapWrite = true
	}
	if kinds[kVpsGarbled] {
		rc.garble[base.BlockItemVoteproofs] = true
	}
	// the effective kinds in the order they were applied (the order matters: dup then replaced != replaced then dup)
	seen := map[int]bool{}
	for _, k := range want {
		if _, ok := kindName[k]; ok && kinds[k] && !seen[k] {
			seen[k] = true
			rc.Kinds = append(rc.Kinds, k)
		}
	}

	return rc
}

func sortInts(a []int) {
	for i := 1; i < len(a); i++ {
		for j := i; j > 0 && a[j] < a[j-1]; j-- {
			a[j], a[j-1] = a[j-1], a[j]
		}
	}
}

// ---------------------------------------------------------------- writing the source block with the real LocalFSWriter

func (g *gen) write(rc *recipe, root string) base.BlockMap {
	e := g.e
	ctx := context.Background()
	must(os.MkdirAll(root, 0o700))
	fs, err := isaacblock.NewLocalFSWriter(root, rc.point.Height(), e.enc, e.enc, e.local, e.networkID)
	must(err)

	for i := range rc.ops {
		must(fs.SetOperation(ctx, uint64(len(rc.ops)), uint64(i), rc.ops[i].op))
	}
	switch {
	case rc.opstree.present:
		must(fs.SetOperationsTree(ctx, rc.opstree.tr))
	case len(rc.ops) > 0:
		// the operations item is registered by SetOperationsTree: go through a one-node tree, drop the tree item afterwards
		must(fs.SetOperationsTree(ctx, opsTree([]string{valuehash.RandomSHA256().String()}).tr))
		rc.dropItem[base.BlockItemOperationsTree] = true
	}
	must(fs.SetProposal(ctx, rc.pr))
	for i := range rc.sts {
		must(fs.SetState(ctx, uint64(len(rc.sts)), uint64(i), rc.sts[i].st))
	}
	switch {
	case rc.ststree.present:
		must(fs.SetStatesTree(ctx, rc.ststree.tr))
	case len(rc.sts) > 0:
		// the states item is registered by SetStatesTree: go through a one-node tree, drop the tree item afterwards
		must(fs.SetStatesTree(ctx, stsTree([]string{"dummy"}).tr))
		rc.dropItem[base.BlockItemStatesTree] = true
	}
	if rc.swapWrite {
		must(fs.SetINITVoteproof(ctx, asINIT(rc.vps[1].vp)))
		must(fs.SetACCEPTVoteproof(ctx, asACCEPT(rc.vps[0].vp)))
	} else {
		must(fs.SetINITVoteproof(ctx, asINIT(rc.vps[0].vp)))
		must(fs.SetACCEPTVoteproof(ctx, asACCEPT(rc.vps[1].vp)))
	}
	must(fs.SetManifest(ctx, rc.manifest))
	m, err := fs.Save(ctx)
	must(err)

	if len(rc.garble) > 0 || len(rc.emptied) > 0 || len(rc.badChecksum) > 0 || len(rc.dropItem) > 0 || rc.mapOtherNet {
		m = g.rewrite(rc, root, m)
	}

	return m
}

// the LocalFSWriter API takes typed voteproofs; a swapped pair is passed through wrappers that only satisfy the
// static type (the file content is whatever the wrapped voteproof encodes to)
type initWrap struct{ base.Voteproof }

func (initWrap) BallotMajority() base.INITBallotFact        { return nil }
func (initWrap) BallotSignFacts() []base.INITBallotSignFact { return nil }

type acceptWrap struct{ base.Voteproof }

func (acceptWrap) BallotMajority() base.ACCEPTBallotFact        { return nil }
func (acceptWrap) BallotSignFacts() []base.ACCEPTBallotSignFact { return nil }

func (w initWrap) MarshalJSON() ([]byte, error)   { return util.MarshalJSON(w.Voteproof) }
func (w acceptWrap) MarshalJSON() ([]byte, error) { return util.MarshalJSON(w.Voteproof) }

func asINIT(vp base.Voteproof) base.INITVoteproof {
	if i, ok := vp.(base.INITVoteproof); ok {
		return i
	}

	return initWrap{vp}
}

func asACCEPT(vp base.Voteproof) base.ACCEPTVoteproof {
	if i, ok := vp.(base.ACCEPTVoteproof); ok {
		return i
	}

	return acceptWrap{vp}
}

var countRe = regexp.MustCompile(`"count":\d+`)

func checksum(b []byte) string {
	cw := util.NewHashChecksumWriter(sha256.New())
	_, _ = cw.Write(b)
	_ = cw.Close()

	return cw.Checksum()
}

func heightDir(root string, height base.Height) string {
	return filepath.Join(root, isaac.BlockHeightDirectory(height))
}

func (g *gen) itemPath(root string, height base.Height, t base.BlockItemType) (string, bool) {
	name, err := isaacblock.DefaultBlockItemFileName(t, g.e.enc.Hint().Type())
	must(err)

	return filepath.Join(heightDir(root, height), name), strings.HasSuffix(name, ".gz")
}

func readItemFile(p string, gz bool) []byte {
	b, err := os.ReadFile(p)
	must(err)
	if !gz {
		return b
	}
	zr, err := gzip.NewReader(bytes.NewReader(b))
	must(err)
	var out bytes.Buffer
	_, err = out.ReadFrom(zr)
	must(err)

	return out.Bytes()
}

func writeItemFile(p string, gz bool, b []byte) {
	if !gz {
		must(os.WriteFile(p, b, 0o600))

		return
	}
	var out bytes.Buffer
	zw := gzip.NewWriter(&out)
	_, err := zw.Write(b)
	must(err)
	must(zw.Close())
	must(os.WriteFile(p, out.Bytes(), 0o600))
}

// rewrite: byte-level edits of item files (header line kept, body replaced by bytes that do not decode) and the
// consistent re-issue of the block map: new checksums, dropped items, signature by the local node
func (g *gen) rewrite(rc *recipe, root string, old base.BlockMap) base.BlockMap {
	e := g.e
	height := rc.point.Height()
	nm := isaacblock.NewBlockMap()
	nm.SetManifest(old.Manifest())
	old.Items(func(item base.BlockMapItem) bool {
		t := item.Type()
		if rc.dropItem[t] {
			return true
		}
		cks := item.Checksum()
		if rc.garble[t] {
			p, gz := g.itemPath(root, height, t)
			b := readItemFile(p, gz)
			i := bytes.IndexByte(b, '\n')
			nb := append(append([]byte{}, b[:i+1]...), []byte("{\"_hint\":\"no-such-thing-v0.0.1\",\"x\":[1,2\n")...)
			writeItemFile(p, gz, nb)
			cks = checksum(nb)
		}
		if rc.emptied[t] && !rc.garble[t] {
			p, gz := g.itemPath(root, height, t)
			b := readItemFile(p, gz)
			i := bytes.IndexByte(b, '\n')
			nb := countRe.ReplaceAll(append([]byte{}, b[:i+1]...), []byte(`"count":0`))
			writeItemFile(p, gz, nb)
			cks = checksum(nb)
		}
		if rc.badChecksum[t] {
			cks = checksum([]byte(cks)) // a well-formed checksum of something else
		}
		must(nm.SetItem(isaacblock.NewBlockMapItem(t, cks)))

		return true
	})
	net := e.networkID
	if rc.mapOtherNet {
		net = e.otherNet
	}
	must(nm.Sign(e.local.Address(), e.local.Privatekey(), net))

	p, gz := g.itemPath(root, height, base.BlockItemMap)
	b := readItemFile(p, gz)
	i := bytes.IndexByte(b, '\n')
	body, err := e.enc.Marshal(nm)
	must(err)
	writeItemFile(p, gz, append(append(append([]byte{}, b[:i+1]...), body...), '\n'))

	return nm
}

// ---------------------------------------------------------------- genuine blocks through the repository's block Writer

// recFS passes everything to the real LocalFSWriter and records what the Writer handed over
type recFS struct {
	*isaacblock.LocalFSWriter
	mu      sync.Mutex
	ops     []base.Operation
	sts     []base.State
	opstree fixedtree.Tree
	ststree fixedtree.Tree
}

func (r *recFS) SetOperation(ctx context.Context, total, index uint64, op base.Operation) error {
	r.mu.Lock()
	r.ops = append(r.ops, op)
	r.mu.Unlock()

	return r.LocalFSWriter.SetOperation(ctx, total, index, op)
}

func (r *recFS) SetState(ctx context.Context, total, index uint64, st base.State) error {
	r.mu.Lock()
	r.sts = append(r.sts, st)
	r.mu.Unlock()

	return r.LocalFSWriter.SetState(ctx, total, index, st)
}

func (r *recFS) SetOperationsTree(ctx context.Context, tr fixedtree.Tree) error {
	r.opstree = tr

	return r.LocalFSWriter.SetOperationsTree(ctx, tr)
}

func (r *recFS) SetStatesTree(ctx context.Context, tr fixedtree.Tree) error {
	r.ststree = tr

	return r.LocalFSWriter.SetStatesTree(ctx, tr)
}

func treeKeys(tr fixedtree.Tree) []string {
	var ks []string
	_ = tr.Traverse(func(_ uint64, n fixedtree.Node) (bool, error) {
		ks = append(ks, n.Key())

		return true, nil
	})

	return ks
}

// nin operations that produce states (nsts states in total, spread over them), nnot operations that failed
func (g *gen) viaWriter(height int64, nin, nnot, nsts int, suf bool, root string) (*recipe, base.BlockMap) {
	e := g.e
	ctx := context.Background()
	must(os.MkdirAll(root, 0o700))
	if nin < 1 {
		nsts = 0
	} else if nsts < nin {
		nsts = nin // an in-state operation produces at least one state
	}
	rc := &recipe{Height: height, NOps: nin, NSts: nsts, Suf: suf,
		garble: map[base.BlockItemType]bool{}, emptied: map[base.BlockItemType]bool{}, badChecksum: map[base.BlockItemType]bool{}, dropItem: map[base.BlockItemType]bool{}}
	rc.point = base.NewPoint(base.Height(height), base.Round(g.r.Intn(3)))
	var previous base.Manifest
	if height > 0 {
		previous = isaac.NewManifest(base.Height(height-1), valuehash.RandomSHA256(), valuehash.RandomSHA256(), nil, nil, valuehash.RandomSHA256(), time.Now())
		rc.prev = previous.Hash()
	} else {
		rc.point = base.GenesisPoint
	}
	ops := make([]opSpec, nin+nnot)
	rc.ophs = make([][2]util.Hash, len(ops))
	for i := range ops {
		ops[i] = g.newOp(true, e.local)
		rc.ophs[i] = [2]util.Hash{ops[i].op.Hash(), ops[i].op.Fact().Hash()}
	}
	prev := rc.prev
	pr := e.proposal(rc.point, prev, rc.ophs, e.networkID)
	if prev == nil {
		prev = valuehash.RandomSHA256()
	}

	fs, err := isaacblock.NewLocalFSWriter(root, rc.point.Height(), e.enc, e.enc, e.local, e.networkID)
	must(err)
	rec := &recFS{LocalFSWriter: fs}
	bw := e.bwdb(rc.point.Height())
	defer bw.DeepClose()
	w := isaacblock.NewWriter(pr, base.NilGetState, bw, func(isaac.BlockWriteDatabase) error { return nil }, rec, 4)
	if len(ops) > 0 {
		w.SetOperationsSize(uint64(len(ops)))
	}
	given := 0
	for i := range ops {
		op := ops[i].op
		if i >= nin {
			must(w.SetProcessResult(ctx, uint64(i), op.Hash(), op.Fact().Hash(), false, base.NewBaseOperationProcessReason("failed")))

			continue
		}
		n := nsts / nin
		if i == nin-1 {
			n = nsts - given
		}
		stvs := make([]base.StateMergeValue, n)
		for j := range stvs {
			if i == 0 && j == 0 && suf {
				sv := isaac.NewSuffrageNodesStateValue(base.Height(g.r.Intn(5)), []base.SuffrageNodeStateValue{isaac.NewSuffrageNodeStateValue(base.RandomNode(), rc.point.Height())})
				stvs[j] = base.NewBaseStateMergeValue(isaac.SuffrageStateKey, sv, nil)
			} else {
				stvs[j] = base.NewBaseStateMergeValue("k-"+util.UUID().String(), base.NewDummyStateValue(util.UUID().String()), nil)
			}
		}
		given += n
		must(w.SetStates(ctx, uint64(i), stvs, op))
		must(w.SetProcessResult(ctx, uint64(i), op.Hash(), op.Fact().Hash(), true, nil))
	}
	manifest, err := w.Manifest(ctx, previous)
	must(err)
	ivp := e.initVoteproof(rc.point, prev, pr.Fact().Hash(), e.networkID)
	avp := e.acceptVoteproof(rc.point, pr.Fact().Hash(), manifest.Hash(), e.networkID)
	must(w.SetINITVoteproof(ctx, ivp))
	must(w.SetACCEPTVoteproof(ctx, avp))
	m, err := w.Save(ctx)
	must(err)

	// describe what was written
	for _, op := range rec.ops {
		rc.ops = append(rc.ops, opSpec{op: op, valid: true, gsigned: true})
	}
	for _, st := range rec.sts {
		rc.sts = append(rc.sts, stSpec{st: st, valid: true, suffrage: base.IsSuffrageNodesState(st)})
	}
	rc.opstree = treeSpec{present: rec.opstree.Len() > 0, keys: treeKeys(rec.opstree), tr: rec.opstree, valid: true}
	rc.ststree = treeSpec{present: rec.ststree.Len() > 0, keys: treeKeys(rec.ststree), tr: rec.ststree, valid: true}
	rc.pr, rc.prValid, rc.prHeight = pr, true, rc.point.Height()
	rc.manifest = manifest
	rc.mProposal, rc.mOpsRoot, rc.mStsRoot = manifest.Proposal(), manifest.OperationsTree(), manifest.StatesTree()
	rc.vps[0] = vpSpec{vp: ivp, kindOK: true, valid: true, height: rc.point.Height(), round: rc.point.Round()}
	rc.vps[1] = vpSpec{vp: avp, kindOK: true, valid: true, height: rc.point.Height(), round: rc.point.Round(), newblock: manifest.Hash()}

	return rc, m
}

// ---------------------------------------------------------------- running the real importer and validator

type observed struct {
	Items          []bool  `json:"import_items"`
	Save           bool    `json:"import_save"`
	Valid          bool    `json:"validator"`
	HasSub         bool    `json:"has_sub"`
	Sub            [4]bool `json:"validator_sub"` // proposal, operations, states, voteproofs
	ValidImp       *bool   `json:"validator_on_imported,omitempty"`
	AvpForManifest bool    `json:"avp_for_manifest"`
	OpsMatch       bool    `json:"ops_match_tree_and_manifest"` // the property's second clause, evaluated by the harness itself
	StsMatch       bool    `json:"sts_match_tree_and_manifest"`
	DupTreeNodes   [2]bool `json:"tree_has_duplicate_nodes"` // (ops, sts)
	EmptyWithRoot  [2]bool `json:"empty_with_root"`          // (ops, sts): nothing stored, empty tree, yet the manifest names a root
	OpsAllValid    bool    `json:"ops_all_valid"`
	StsAllValid    bool    `json:"sts_all_valid"`
	errs           []string
}

func (g *gen) runImporter(srcroot, dstroot string, m base.BlockMap, height base.Height, notFed map[base.BlockItemType]bool, ob *observed) {
	e := g.e
	must(os.MkdirAll(dstroot, 0o700))
	bwdb := e.bwdb(height)
	defer bwdb.DeepClose()
	merged := false
	im, err := isaacblock.NewBlockImporter(dstroot, e.encs, m, bwdb, func(context.Context) error {
		merged = true

		return nil
	}, e.networkID)
	must(err)
	readers := e.readers(srcroot)
	ob.Items = make([]bool, len(itemOrder))
	for i, t := range itemOrder {
		if _, found := m.Item(t); !found {
			ob.Items[i] = true

			continue
		}
		if notFed[t] {
			continue // the caller never hands this item over: ob.Items[i] stays false
		}
		_, found, err := readers.Item(height, t, func(ir isaac.BlockItemReader) error {
			return im.WriteItem(t, ir)
		})
		ob.Items[i] = err == nil && found
		if err != nil {
			ob.errs = append(ob.errs, fmt.Sprintf("import %s: %v", t, err))
		}
	}
	mergef, err := im.Save(context.Background())
	if err != nil {
		ob.errs = append(ob.errs, fmt.Sprintf("save: %v", err))
		_ = im.CancelImport(context.Background())

		return
	}
	must(mergef(context.Background()))
	if !merged {
		panic("merge callback not called")
	}
	ob.Save = true
}

func (g *gen) runValidator(root string, height base.Height) (bool, string) {
	readers := g.e.readers(root)
	err := isaacblock.IsValidBlockFromLocalFS(readers.Item, height, g.e.networkID, nil, nil, nil)
	if err != nil {
		return false, err.Error()
	}

	return true, ""
}

// the exported sub-checks of the validator on the decoded items of the block under root
func (g *gen) runSubChecks(root string, height base.Height, m base.BlockMap, ob *observed) {
	e := g.e
	itemf := e.readers(root).Item
	ok := true
	var pr base.ProposalSignFact
	var ops []base.Operation
	var sts []base.State
	var opstree, ststree fixedtree.Tree
	var vps [2]base.Voteproof
	has := func(t base.BlockItemType) bool { _, f := m.Item(t); return f }
	chk := func(found bool, err error) {
		if err != nil || !found {
			ok = false
		}
	}
	if has(base.BlockItemProposal) {
		i, f, err := isaac.BlockItemReadersDecode[base.ProposalSignFact](itemf, height, base.BlockItemProposal, nil)
		chk(f, err)
		pr = i
	}
	if has(base.BlockItemOperations) {
		_, i, f, err := isaac.BlockItemReadersDecodeItems[base.Operation](itemf, height, base.BlockItemOperations, nil, nil)
		chk(f, err)
		ops = i
	}
	if has(base.BlockItemStates) {
		_, i, f, err := isaac.BlockItemReadersDecodeItems[base.State](itemf, height, base.BlockItemStates, nil, nil)
		chk(f, err)
		sts = i
	}
	if has(base.BlockItemOperationsTree) {
		i, f, err := isaac.BlockItemReadersDecode[fixedtree.Tree](itemf, height, base.BlockItemOperationsTree, nil)
		chk(f, err)
		opstree = i
	}
	if has(base.BlockItemStatesTree) {
		i, f, err := isaac.BlockItemReadersDecode[fixedtree.Tree](itemf, height, base.BlockItemStatesTree, nil)
		chk(f, err)
		ststree = i
	}
	if has(base.BlockItemVoteproofs) {
		i, f, err := isaac.BlockItemReadersDecode[[2]base.Voteproof](itemf, height, base.BlockItemVoteproofs, nil)
		chk(f, err)
		vps = i
	}
	if !ok {
		return
	}
	ob.HasSub = true
	mf := m.Manifest()
	ob.Sub[0] = pr != nil && pr.IsValid(e.networkID) == nil && base.IsValidProposalWithManifest(pr, mf) == nil
	ob.Sub[1] = isaacblock.IsValidOperationsOfBlock(opstree, ops, mf, e.networkID, nil) == nil
	ob.Sub[2] = isaacblock.IsValidStatesOfBlock(ststree, sts, mf, e.networkID, nil) == nil
	// "its operations and states must match the manifest's tree roots", not through base/block.go:
	// same number, the tree's node keys are exactly the operations' fact hashes / the states' hashes, the tree's root is the manifest's
	match := func(tr fixedtree.Tree, ids []string, root util.Hash, isops bool) bool {
		if tr.Len() != len(ids) {
			return false
		}
		if len(ids) == 0 {
			return root == nil
		}
		set := map[string]int{}
		for _, id := range ids {
			set[id]++
		}
		ok := true
		_ = tr.Traverse(func(_ uint64, n fixedtree.Node) (bool, error) {
			k := n.Key()
			if isops {
				k = strings.TrimSuffix(k, "-")
			}
			if set[k] != 1 {
				ok = false
			}
			set[k]--

			return true, nil
		})

		return ok && root != nil && tr.Root().Equal(root)
	}
	opids := make([]string, len(ops))
	for i := range ops {
		opids[i] = ops[i].Fact().Hash().String()
	}
	stids := make([]string, len(sts))
	for i := range sts {
		stids[i] = sts[i].Hash().String()
	}
	dupNodes := func(tr fixedtree.Tree, isops bool) bool {
		seen, dup := map[string]bool{}, false
		_ = tr.Traverse(func(_ uint64, n fixedtree.Node) (bool, error) {
			k := n.Key()
			if isops {
				k = strings.TrimSuffix(k, "-")
			}
			if seen[k] {
				dup = true
			}
			seen[k] = true

			return true, nil
		})

		return dup
	}
	ob.DupTreeNodes = [2]bool{dupNodes(opstree, true), dupNodes(ststree, false)}
	ob.OpsMatch = match(opstree, opids, mf.OperationsTree(), true)
	ob.StsMatch = match(ststree, stids, mf.StatesTree(), false)
	ob.EmptyWithRoot = [2]bool{len(ops) == 0 && opstree.Len() == 0 && mf.OperationsTree() != nil, len(sts) == 0 && ststree.Len() == 0 && mf.StatesTree() != nil}
	ob.OpsAllValid, ob.StsAllValid = true, true
	for i := range ops {
		if ops[i].IsValid(e.networkID) != nil {
			ob.OpsAllValid = false
		}
	}
	for i := range sts {
		if sts[i].IsValid(e.networkID) != nil {
			ob.StsAllValid = false
		}
	}
	ob.Sub[3] = isaacblock.IsValidVoteproofsFromLocalFSVerif(e.networkID, vps, mf) == nil
	if avp, ok := vps[1].(base.ACCEPTVoteproof); ok && avp.BallotMajority() != nil {
		ob.AvpForManifest = avp.BallotMajority().NewBlock().Equal(mf.Hash()) && avp.Point().Height() == mf.Height() &&
			avp.Result() == base.VoteResultMajority
	}
}

// ---------------------------------------------------------------- Coq rendering of the recipe

type interner struct{ m map[string]uint64 }

func (in *interner) id(s string) string {
	if v, ok := in.m[s]; ok {
		return vh.N(v)
	}
	v := uint64(len(in.m) + 1)
	in.m[s] = v

	return vh.N(v)
}

func (in *interner) hash(h util.Hash) string { return in.id(h.String()) }

func (in *interner) opt(h util.Hash) string {
	if h == nil {
		return "None"
	}

	return vh.Some(in.hash(h))
}

func item(present, cks bool, decodes bool, content string) string {
	if !present {
		return "Absent"
	}
	if !decodes {
		return fmt.Sprintf("(Present %s None)", vh.Bool(cks))
	}

	return fmt.Sprintf("(Present %s (Some %s))", vh.Bool(cks), content)
}

// BlockMap.IsValid: signature under the network id; proposal and voteproofs items; a tree item for every root the manifest names
func (rc *recipe) mapValid(m base.BlockMap) bool {
	present := func(t base.BlockItemType) bool { _, f := m.Item(t); return f }

	return !rc.mapOtherNet && present(base.BlockItemProposal) && present(base.BlockItemVoteproofs) &&
		(rc.mOpsRoot == nil || present(base.BlockItemOperationsTree)) && (rc.mStsRoot == nil || present(base.BlockItemStatesTree))
}

func (rc *recipe) coq(m base.BlockMap) string {
	in := &interner{m: map[string]uint64{}}
	present := func(t base.BlockItemType) bool { _, f := m.Item(t); return f }
	it := func(t base.BlockItemType, content string) string {
		decodes := !rc.garble[t]
		if t == base.BlockItemStates && len(rc.sts) < 1 {
			decodes = false // a states item over an empty file (no header line)
		}

		return item(present(t), !rc.badChecksum[t], decodes, content)
	}
	tree := func(ts treeSpec, isops bool) string {
		t := base.BlockItemStatesTree
		if isops {
			t = base.BlockItemOperationsTree
		}
		if rc.emptied[t] {
			return "(mkTree [] 0%N true)" // header with count 0: decodes to the empty tree
		}
		keys := make([]string, len(ts.keys))
		for i, k := range ts.keys {
			if isops {
				k = strings.TrimSuffix(k, "-")
			}
			keys[i] = in.id(k)
		}
		rt := "0%N"
		if ts.tr.Len() > 0 {
			rt = in.hash(ts.tr.Root())
		}

		return fmt.Sprintf("(mkTree %s %s %s)", vh.List(keys), rt, vh.Bool(ts.valid))
	}
	ops := make([]string, len(rc.ops))
	for i, o := range rc.ops {
		ops[i] = fmt.Sprintf("(mkOp %s %s %s)", in.hash(o.op.Fact().Hash()), vh.Bool(o.valid), vh.Bool(o.gsigned))
	}
	sts := make([]string, len(rc.sts))
	for i, s := range rc.sts {
		sts[i] = fmt.Sprintf("(mkSt %s %s %s %s)", in.hash(s.st.Hash()), vh.Z(int64(s.st.Height())), vh.Bool(s.valid), vh.Bool(s.suffrage))
	}
	if rc.emptied[base.BlockItemOperations] {
		ops = nil // header with count 0: decodes to no operation
	}
	if rc.emptied[base.BlockItemStates] {
		sts = nil
	}
	vp := func(v vpSpec) string {
		nb := "None"
		if v.newblock != nil {
			nb = vh.Some(in.hash(v.newblock))
		}

		return fmt.Sprintf("(mkVp %s %s %s %s %s)", vh.Bool(v.kindOK), vh.Bool(v.valid), vh.Z(int64(v.height)), vh.Z(int64(v.round)), nb)
	}
	pr := fmt.Sprintf("(mkPr %s %s %s)", vh.Bool(rc.prValid), vh.Z(int64(rc.prHeight)), in.hash(rc.pr.Fact().Hash()))

	return fmt.Sprintf("(mkBlk %s %s %s %s %s %s %s %s %s %s %s %s)",
		vh.Bool(!rc.mapOtherNet), vh.Z(int64(rc.point.Height())), in.hash(rc.manifest.Hash()), in.hash(rc.mProposal),
		in.opt(rc.mOpsRoot), in.opt(rc.mStsRoot),
		it(base.BlockItemProposal, pr),
		it(base.BlockItemOperations, vh.List(ops)),
		it(base.BlockItemOperationsTree, tree(rc.opstree, true)),
		it(base.BlockItemStates, vh.List(sts)),
		it(base.BlockItemStatesTree, tree(rc.ststree, false)),
		it(base.BlockItemVoteproofs, vh.Tuple(vp(rc.vps[0]), vp(rc.vps[1]))),
	)
}

func (ob *observed) coq() string {
	items := make([]string, len(ob.Items))
	for i := range ob.Items {
		items[i] = vh.Bool(ob.Items[i])
	}
	sub := "None"
	if ob.HasSub {
		sub = vh.Some(vh.Tuple(vh.Bool(ob.Sub[0]), vh.Bool(ob.Sub[1]), vh.Bool(ob.Sub[2]), vh.Bool(ob.Sub[3])))
	}

	return fmt.Sprintf("(mkObs %s %s %s %s)", vh.List(items), vh.Bool(ob.Save), vh.Bool(ob.Valid), sub)
}

// ---------------------------------------------------------------- one case

type spec struct {
	Sub    uint64   `json:"sub"` // seed of the case's own random choices (round, suffrage height)
	Height int64    `json:"height"`
	NOps   int      `json:"nops"`
	NSts   int      `json:"nsts"`
	Suf    bool     `json:"suffrage_state"`
	Kinds  []int    `json:"kinds"`
	Names  []string `json:"names,omitempty"`
}

// caseOut: what one case contributes to result.json / cases.v (cases run in parallel, merged in order)
type caseOut struct {
	key        string
	nontrivial bool
	dists      []string
	fails      []vh.Failure
	term       string
	desc       any
	sample     any
}

func (c *caseOut) Dist(k string) { c.dists = append(c.dists, k) }
func (c *caseOut) Fail(class, desc string, replay any) {
	c.fails = append(c.fails, vh.Failure{Class: class, Desc: desc, Replay: replay})
}

func runCase(e *env, sp spec, dir string) *caseOut {
	g := &gen{e: e, r: vh.NewRand(sp.Sub)}
	res := &caseOut{}
	src := filepath.Join(dir, "src")
	dst := filepath.Join(dir, "dst")
	defer os.RemoveAll(dir)
	var rc *recipe
	var m base.BlockMap
	genuine := len(sp.Kinds) == 0
	switch {
	case len(sp.Kinds) == 1 && (sp.Kinds[0] == kWriter || sp.Kinds[0] == kWriterNotInState):
		nnot := 0
		if sp.Kinds[0] == kWriterNotInState {
			nnot = 1
		}
		rc, m = g.viaWriter(sp.Height, sp.NOps, nnot, sp.NSts, sp.Suf, src)
		rc.Kinds = sp.Kinds
		genuine = true
	default:
		rc = g.build(sp.Height, sp.NOps, sp.NSts, sp.Suf, sp.Kinds)
		m = g.write(rc, src)
	}
	sp.Kinds = rc.Kinds
	sp.Names = nil
	for _, k := range rc.Kinds {
		sp.Names = append(sp.Names, kindName[k])
	}
	height := rc.point.Height()

	ob := &observed{}
	fed := make([]string, len(itemOrder))
	for i := range fed {
		fed[i] = "true"
	}
	for _, k := range rc.Kinds {
		if k != kItemNotFed {
			continue
		}
		var present []int
		for i, t := range itemOrder {
			if _, found := m.Item(t); found {
				present = append(present, i)
			}
		}
		i := present[g.r.Intn(len(present))]
		rc.notFed = map[base.BlockItemType]bool{itemOrder[i]: true}
		fed[i] = "false"
	}
	g.runImporter(src, dst, m, height, rc.notFed, ob)
	var verr string
	ob.Valid, verr = g.runValidator(src, height)
	g.runSubChecks(src, height, m, ob)

	key := fmt.Sprintf("%v/%d/%d/%d/%v", sp.Kinds, sp.Height, sp.NOps, sp.NSts, sp.Suf)
	res.key, res.nontrivial = key, len(sp.Kinds) > 0
	if len(sp.Kinds) == 0 {
		res.Dist("tamper:none")
	}
	for _, n := range sp.Names {
		res.Dist("tamper:" + n)
	}
	res.Dist(fmt.Sprintf("verdict:import=%v,validator=%v", ob.Save, ob.Valid))

	// ---- the property oracle (on the real code only)
	if ob.Save && rc.mapValid(m) { // (the block map itself is validated by the importer's caller: syncer / import command)
		vi, vierr := g.runValidator(dst, height)
		ob.ValidImp = &vi
		if vi != ob.Valid {
			res.Fail("imported-block-differs-from-source", fmt.Sprintf("validator on source=%v, on imported=%v (%s)", ob.Valid, vi, vierr), sp)
		}
		if !vi {
			explained := false
			if ob.HasSub {
				for i, cls := range []string{"import-proposal-vs-manifest", "import-operations-vs-tree-vs-manifest", "import-states-vs-tree-vs-manifest", "import-voteproofs-vs-manifest"} {
					if !ob.Sub[i] {
						explained = true
						// the known classes are about consistency with the trees / the manifest, not about storing invalid objects
						if i == 1 && !ob.OpsAllValid {
							cls = "import-invalid-operation-stored"
						}
						if i == 2 && !ob.StsAllValid {
							cls = "import-invalid-state-stored"
						}
						res.Fail(cls, fmt.Sprintf("importer stored a block the validator rejects: %s [%s]", vierr, strings.Join(sp.Names, ",")), sp)
					}
				}
			} else {
				// some item does not decode; the importer only lets the two items through that it never decodes
				if rc.garble[base.BlockItemProposal] {
					explained = true
					res.Fail("import-proposal-vs-manifest", fmt.Sprintf("importer stored a block whose proposal does not decode: %s", vierr), sp)
				}
				if rc.garble[base.BlockItemOperationsTree] {
					explained = true
					res.Fail("import-operations-vs-tree-vs-manifest", fmt.Sprintf("importer stored a block whose operations tree does not decode: %s", vierr), sp)
				}
			}
			if !explained {
				res.Fail("import-stored-but-validator-rejects", fmt.Sprintf("%s [%s]", vierr, strings.Join(sp.Names, ",")), sp)
			}
		}
		// second clause of the property on the stored block, independent of the validator's own tree checks
		if vi && ob.HasSub {
			for i, what := range []string{"operations", "states"} {
				matched := []bool{ob.OpsMatch, ob.StsMatch}[i]
				switch {
				case matched:
				case ob.EmptyWithRoot[i]:
					res.Fail("validator-skips-root-comparison-when-empty", fmt.Sprintf("stored and accepted by the validator: no %s, empty %s tree, but the manifest names a %s root [%s]", what, what, what, strings.Join(sp.Names, ",")), sp)
				case ob.DupTreeNodes[i]:
					res.Fail("validator-accepts-tree-with-duplicate-nodes", fmt.Sprintf("stored and accepted by the validator: the %s tree names one of the %s twice, another one of the block is in no node [%s]", what, what, strings.Join(sp.Names, ",")), sp)
				default:
					res.Fail("validator-accepts-"+what+"-not-matching-tree", fmt.Sprintf("stored and accepted by the validator although the %s do not match the %s tree / the manifest's root [%s]", what, what, strings.Join(sp.Names, ",")), sp)
				}
			}
		}
		// the stored files are the ones the signed map names
		m.Items(func(item base.BlockMapItem) bool {
			p, gz := g.itemPath(dst, height, item.Type())
			if _, err := os.Stat(p); err != nil {
				res.Fail("import-stored-block-incomplete", fmt.Sprintf("Save succeeded but item %s of the block map is not stored [%s]", item.Type(), strings.Join(sp.Names, ",")), sp)

				return true
			}
			if got := checksum(readItemFile(p, gz)); got != item.Checksum() {
				res.Fail("import-checksum-mismatch", fmt.Sprintf("stored item %s has checksum %s, the block map says %s [%s]", item.Type(), got, item.Checksum(), strings.Join(sp.Names, ",")), sp)
			}

			return true
		})
		if ob.HasSub && !ob.AvpForManifest {
			res.Fail("import-accept-majority-not-manifest", fmt.Sprintf("importer stored a block whose ACCEPT voteproof is not a majority for the manifest hash at the manifest height [%s]", strings.Join(sp.Names, ",")), sp)
		}
	}
	if genuine {
		// a block as the repository itself produces it must be importable and valid
		cls := "genuine-block-rejected"
		if len(sp.Kinds) == 1 && sp.Kinds[0] == kWriterNotInState && ob.Save && ob.HasSub && ob.Sub[0] && !ob.Sub[1] && ob.Sub[2] && ob.Sub[3] {
			cls = "validator-rejects-genuine-block-with-failed-operation"
		}
		if !ob.Save || !ob.Valid {
			res.Fail(cls, fmt.Sprintf("import=%v validator=%v %v %s", ob.Save, ob.Valid, ob.errs, verr), sp)
		}
	}

	res.term = vh.Tuple(rc.coq(m), vh.List(fed), ob.coq())
	res.desc = map[string]any{"spec": sp, "observed": ob, "validator_err": verr, "import_errs": ob.errs}
	res.sample = map[string]any{"spec": sp, "observed": ob}

	return res
}

func main() {
	o := vh.ParseFlags()
	res := vh.NewResult("blocks written by the real LocalFSWriter / block Writer (signed map, real checksums): untampered and with 1-2 semantic tampers; each imported by the real BlockImporter and validated by IsValidBlockFromLocalFS; non-trivial = at least one tamper applied")
	e := newEnv()
	r := vh.NewRand(o.Seed)
	cases := &vh.Cases{Import: "From MV Require Import C16.Model.", Type: "blk * list bool * obs", CheckFn: "check", Shard: 150}
	work := filepath.Join(o.Out, "c16-scratch")
	must(os.MkdirAll(work, 0o700))
	defer os.RemoveAll(work)
	var specs []spec
	run := func(sp spec) {
		if sp.Sub == 0 {
			sp.Sub = r.U64() | 1
		}
		specs = append(specs, sp)
	}

	if o.Replay != "" {
		var sp spec
		must(vh.ReadReplay(o.Replay, &sp))
		run(sp)
	}

	// corpus: every tamper kind once on a fixed shape (height 7, 3 ops, 3 states incl. a suffrage state), and on genesis
	for _, h := range []int64{7, 0} {
		run(spec{Height: h, NOps: 3, NSts: 3, Suf: true})
		for _, k := range allKinds {
			run(spec{Height: h, NOps: 3, NSts: 3, Suf: true, Kinds: []int{k}})
		}
	}
	// boundary: nothing stored but tree / manifest still commit (and the reverse), singly (above) and in the pairs that meet
	for _, ks := range [][]int{{kStsEmptied, kStsTreeEmptied}, {kStsItemDropped, kStsTreeEmptied}, {kOpsEmptied, kOpsTreeEmptied},
		{kOpsItemDropped, kOpsTreeEmptied}, {kStsItemDropped, kOpsItemDropped}, {kStsEmptied, kOpsEmptied}, {kStsNoTree, kOpsNoTree},
		{kOpsDup, kOpsReplaced}, {kStsDup, kStsReplaced}, {kOpsReplaced, kOpsDup}, {kStsReplaced, kStsDup}} {
		for _, h := range []int64{7, 0} {
			run(spec{Height: h, NOps: 3, NSts: 3, Suf: h == 7, Kinds: ks})
			run(spec{Height: h, NOps: 1, NSts: 1, Kinds: ks})
		}
	}
	// genuine blocks through the repository's block Writer
	for _, h := range []int64{0, 5} {
		for _, sh := range [][2]int{{0, 0}, {1, 1}, {3, 5}, {2, 2}} {
			run(spec{Height: h, NOps: sh[0], NSts: sh[1], Suf: sh[1] > 1, Kinds: []int{kWriter}})
			run(spec{Height: h, NOps: sh[0], NSts: sh[1], Suf: sh[1] > 1, Kinds: []int{kWriterNotInState}})
		}
	}
	// empty shapes
	for _, sh := range [][2]int{{0, 0}, {0, 2}, {2, 0}, {1, 1}} {
		run(spec{Height: 3, NOps: sh[0], NSts: sh[1]})
		for _, k := range allKinds {
			run(spec{Height: 3, NOps: sh[0], NSts: sh[1], Kinds: []int{k}})
		}
	}

	blocks := o.Pick(20, 600)
	for b := 0; b < blocks; b++ {
		height := int64(r.Range(1, 40))
		if r.Chance(1, 6) {
			height = 0
		}
		nops, nsts := r.Intn(5), r.Intn(5)
		suf := nsts > 0 && r.Chance(1, 3)
		run(spec{Height: height, NOps: nops, NSts: nsts, Suf: suf})
		run(spec{Height: height, NOps: nops, NSts: nsts, Suf: suf, Kinds: []int{kWriter}})
		if r.Chance(1, 3) {
			run(spec{Height: height, NOps: nops, NSts: nsts, Suf: suf, Kinds: []int{kWriterNotInState}})
		}
		for t := 0; t < 10; t++ {
			kinds := []int{allKinds[r.Intn(len(allKinds))]}
			if r.Chance(1, 4) {
				kinds = append(kinds, allKinds[r.Intn(len(allKinds))])
			}
			run(spec{Height: height, NOps: nops, NSts: nsts, Suf: suf, Kinds: kinds})
		}
	}

	outs := make([]*caseOut, len(specs))
	var wg sync.WaitGroup
	sem := make(chan struct{}, 8)
	for i := range specs {
		wg.Add(1)
		sem <- struct{}{}
		go func(i int) {
			defer wg.Done()
			defer func() { <-sem }()
			outs[i] = runCase(e, specs[i], filepath.Join(work, fmt.Sprintf("%06d", i)))
		}(i)
	}
	wg.Wait()
	perClass := map[string]int{}
	for _, c := range outs {
		res.Count(c.key, c.nontrivial)
		for _, d := range c.dists {
			res.Dist(d)
		}
		for _, f := range c.fails {
			// vh.Result keeps 200 failures: at most 12 per class, so that no class can crowd another one out
			if perClass[f.Class]++; perClass[f.Class] <= 12 {
				res.Fail(f.Class, f.Desc, f.Replay)
			} else {
				res.Dist("oracle_fail:" + f.Class)
			}
		}
		cases.Add(c.term, c.desc)
		res.Sample(c.sample)
	}

	res.ModelCases = cases.Len()
	must(cases.Write(o.Out))
	res.Write(o.Out)
}
