package main

import (
	"github.com/spikeekips/mitum/base"
	"github.com/spikeekips/mitum/isaac"
	isaacblock "github.com/spikeekips/mitum/isaac/block"
	isaacdatabase "github.com/spikeekips/mitum/isaac/database"
	leveldbstorage "github.com/spikeekips/mitum/storage/leveldb"
	"github.com/spikeekips/mitum/util"
	"github.com/spikeekips/mitum/util/encoder"
	jsonenc "github.com/spikeekips/mitum/util/encoder/json"
	"github.com/spikeekips/mitum/util/fixedtree"
	"github.com/spikeekips/mitum/util/valuehash"
)

// env: encoders with every hint a block file can contain, one local node (block producer / map signer),
// the network id. Same registrations as isaacdatabase.BaseTestDatabase + isaacblock.BaseTestLocalBlockFS.
type env struct {
	enc       encoder.Encoder
	encs      *encoder.Encoders
	local     base.LocalNode
	other     base.LocalNode // a node that is not the map signer
	networkID base.NetworkID
	otherNet  base.NetworkID
	threshold base.Threshold
}

func must(err error) {
	if err != nil {
		panic(err)
	}
}

func newEnv() *env {
	e := &env{}
	e.enc = jsonenc.NewEncoder()
	e.encs = encoder.NewEncoders(e.enc, e.enc)

	must(e.encs.AddHinter(base.DummyManifest{}))
	must(e.encs.AddHinter(base.DummyBlockMap{}))
	for _, d := range []encoder.DecodeDetail{
		{Hint: base.MPublickeyHint, Instance: &base.MPublickey{}},
		{Hint: base.StringAddressHint, Instance: base.StringAddress{}},
		{Hint: base.DummyNodeHint, Instance: base.BaseNode{}},
		{Hint: base.DummyStateValueHint, Instance: base.DummyStateValue{}},
		{Hint: base.BaseStateHint, Instance: base.BaseState{}},
		{Hint: isaac.SuffrageNodeStateValueHint, Instance: isaac.SuffrageNodeStateValue{}},
		{Hint: isaac.SuffrageNodesStateValueHint, Instance: isaac.SuffrageNodesStateValue{}},
		{Hint: isaac.ProposalFactHint, Instance: isaac.ProposalFact{}},
		{Hint: isaac.ProposalSignFactHint, Instance: isaac.ProposalSignFact{}},
		{Hint: isaac.NetworkPolicyStateValueHint, Instance: isaac.NetworkPolicyStateValue{}},
		{Hint: isaac.NetworkPolicyHint, Instance: isaac.NetworkPolicy{}},
		{Hint: isaac.FixedSuffrageCandidateLimiterRuleHint, Instance: isaac.FixedSuffrageCandidateLimiterRule{}},
		{Hint: isaacblock.BlockMapHint, Instance: isaacblock.BlockMap{}},
		{Hint: isaac.INITVoteproofHint, Instance: isaac.INITVoteproof{}},
		{Hint: isaac.ACCEPTVoteproofHint, Instance: isaac.ACCEPTVoteproof{}},
		{Hint: isaac.DummyOperationFactHint, Instance: isaac.DummyOperationFact{}},
		{Hint: isaac.DummyOperationHint, Instance: isaac.DummyOperation{}},
		{Hint: base.OperationFixedtreeHint, Instance: base.OperationFixedtreeNode{}},
		{Hint: base.BaseOperationProcessReasonErrorHint, Instance: base.BaseOperationProcessReasonError{}},
		{Hint: base.StateFixedtreeHint, Instance: fixedtree.BaseNode{}},
		{Hint: isaac.INITBallotFactHint, Instance: isaac.INITBallotFact{}},
		{Hint: isaac.ACCEPTBallotFactHint, Instance: isaac.ACCEPTBallotFact{}},
		{Hint: isaac.INITBallotSignFactHint, Instance: isaac.INITBallotSignFact{}},
		{Hint: isaac.ACCEPTBallotSignFactHint, Instance: isaac.ACCEPTBallotSignFact{}},
		{Hint: isaac.ManifestHint, Instance: isaac.Manifest{}},
		{Hint: isaac.BlockItemFileHint, Instance: isaac.BlockItemFile{}},
		{Hint: isaac.BlockItemFilesHint, Instance: isaac.BlockItemFiles{}},
		{Hint: isaacblock.SuffrageProofHint, Instance: isaacblock.SuffrageProof{}},
	} {
		must(e.encs.AddDetail(d))
	}

	e.local = base.RandomLocalNode()
	e.other = base.RandomLocalNode()
	e.networkID = base.NetworkID(util.UUID().Bytes())
	e.otherNet = base.NetworkID(util.UUID().Bytes())
	e.threshold = base.Threshold(100)

	return e
}

func (e *env) readers(root string) *isaac.BlockItemReaders {
	rs := isaac.NewBlockItemReaders(root, e.encs, nil)
	must(rs.Add(isaacblock.LocalFSWriterHint, isaacblock.NewDefaultItemReaderFunc(3)))

	return rs
}

func (e *env) bwdb(height base.Height) *isaacdatabase.LeveldbBlockWrite {
	return isaacdatabase.NewLeveldbBlockWrite(height, leveldbstorage.NewMemStorage(), e.encs, e.enc)
}

func (e *env) initVoteproof(point base.Point, prev, pr util.Hash, net base.NetworkID) isaac.INITVoteproof {
	fact := isaac.NewINITBallotFact(point, prev, pr, nil)
	sf := isaac.NewINITBallotSignFact(fact)
	must(sf.NodeSign(e.local.Privatekey(), net, e.local.Address()))
	vp := isaac.NewINITVoteproof(point)
	vp.SetMajority(fact).SetSignFacts([]base.BallotSignFact{sf}).SetThreshold(e.threshold).Finish()

	return vp
}

func (e *env) acceptVoteproof(point base.Point, pr, newblock util.Hash, net base.NetworkID) isaac.ACCEPTVoteproof {
	fact := isaac.NewACCEPTBallotFact(point, pr, newblock, nil)
	sf := isaac.NewACCEPTBallotSignFact(fact)
	must(sf.NodeSign(e.local.Privatekey(), net, e.local.Address()))
	vp := isaac.NewACCEPTVoteproof(point)
	vp.SetMajority(fact).SetSignFacts([]base.BallotSignFact{sf}).SetThreshold(e.threshold).Finish()

	return vp
}

func (e *env) proposal(point base.Point, prev util.Hash, ophs [][2]util.Hash, net base.NetworkID) isaac.ProposalSignFact {
	fact := isaac.NewProposalFact(point, e.local.Address(), prev, ophs)
	pr := isaac.NewProposalSignFact(fact)
	must(pr.Sign(e.local.Privatekey(), net))

	return pr
}

// a finished DRAW: two nodes, two different facts at the same point, no majority; structurally valid and properly signed
func (e *env) initVoteproofDraw(point base.Point, prev, pr util.Hash) isaac.INITVoteproof {
	sfs := make([]base.BallotSignFact, 2)
	for i, n := range []base.LocalNode{e.local, e.other} {
		p := pr
		if i == 1 {
			p = valuehash.RandomSHA256()
		}
		sf := isaac.NewINITBallotSignFact(isaac.NewINITBallotFact(point, prev, p, nil))
		must(sf.NodeSign(n.Privatekey(), e.networkID, n.Address()))
		sfs[i] = sf
	}
	vp := isaac.NewINITVoteproof(point)
	vp.SetSignFacts(sfs).SetThreshold(e.threshold).Finish()

	return vp
}

func (e *env) acceptVoteproofDraw(point base.Point, pr, newblock util.Hash) isaac.ACCEPTVoteproof {
	sfs := make([]base.BallotSignFact, 2)
	for i, n := range []base.LocalNode{e.local, e.other} {
		b := newblock
		if i == 1 {
			b = valuehash.RandomSHA256()
		}
		sf := isaac.NewACCEPTBallotSignFact(isaac.NewACCEPTBallotFact(point, pr, b, nil))
		must(sf.NodeSign(n.Privatekey(), e.networkID, n.Address()))
		sfs[i] = sf
	}
	vp := isaac.NewACCEPTVoteproof(point)
	vp.SetSignFacts(sfs).SetThreshold(e.threshold).Finish()

	return vp
}
