// c37: memberlist member table (network/quicmemberlist membersPool) stays consistent.
// Address identities = memberid() classes; several *net.UDPAddr forms per identity (zones, mapped IPv4, nil IP).
// Random join / re-join / leave / empty histories over 3 nodes x 3 addresses (+1 unused node, +1 unused
// address, + joins of an address by another node) through the verif wrapper around the real membersPool,
// either directly or through a real (not started) Memberlist's join/leave event handlers; every observer is
// read after every op, compared with (a) the property oracle (reference: map addr -> last joined member) and
// (b) the Coq model (cases_NNN.v).
package main

import (
	"fmt"
	"net"
	"sort"
	"strconv"
		"sync"
	"sync/atomic"
	"time"

	"github.com/spikeekips/mitum/base"
	"github.com/spikeekips/mitum/network/quicmemberlist"
	jsonenc "github.com/spikeekips/mitum/util/encoder/json"
	"verifharness/vh"
)

const (
	nAddrs = 10 // index 9 = the local member of the Memberlist (joins rarely)
	nNodes = 4  // index 3 = the local node
)

var (
	// variants[i] = different *net.UDPAddr values for which memberid() (the identity the member table uses)
	// is the same: 4-byte / 16-byte IPv4, IPv4-mapped IPv6, IPv6 zones, nil / empty IP
	variants [][]*net.UDPAddr
	idIndex  = map[string]int{} // memberid -> identity index
	nodes    [nNodes]base.Address
	pubs     [nNodes]base.Publickey
)

func udp(ip net.IP, port int, zone string) *net.UDPAddr {
	return &net.UDPAddr{IP: ip, Port: port, Zone: zone}
}

func setup() {
	// 3 nodes x 3 identities + 1 never joined; identities are grouped by the real memberid()
	table := [][]*net.UDPAddr{
		{udp(net.IP{127, 0, 0, 1}, 4000, ""), udp(net.IPv4(127, 0, 0, 1), 4000, ""), udp(net.ParseIP("::ffff:127.0.0.1"), 4000, "")},
		{udp(net.IP{127, 0, 0, 1}, 4001, "")},                                                                    // same ip, other port
		{udp(net.ParseIP("fe80::1"), 4000, "eth0"), udp(net.ParseIP("fe80::1"), 4000, "eth1"), udp(net.ParseIP("fe80::1"), 4000, "")}, // zones
		{udp(net.ParseIP("::ffff:10.0.0.1"), 4000, ""), udp(net.IP{10, 0, 0, 1}, 4000, "")},
		{udp(net.IP{10, 0, 0, 2}, 4000, "")},
		{udp(net.ParseIP("::1"), 4000, ""), udp(net.ParseIP("::1"), 4000, "lo")},
		{udp(net.ParseIP("fe80::2"), 4000, "wlan0"), udp(net.ParseIP("fe80::2"), 4000, "eth0")},
		{udp(nil, 4000, ""), udp(net.IP{}, 4000, "")},                  // no ip
		{udp(net.IPv4zero, 4000, ""), udp(net.IP{0, 0, 0, 0}, 4000, "")}, // unspecified
		{udp(net.ParseIP("2001:db8::1"), 65535, "")},                   // never joins
	}
	for _, vs := range table {
		for _, a := range vs {
			k := quicmemberlist.VerifMemberID(a)
			i, ok := idIndex[k]
			if !ok {
				i = len(variants)
				idIndex[k] = i
				variants = append(variants, nil)
			}
			variants[i] = append(variants[i], a)
		}
	}
	if len(variants) != nAddrs {
		panic(fmt.Sprintf("address universe: memberid() yields %d identities, the harness is built for %d", len(variants), nAddrs))
	}
	for i := range nodes {
		nodes[i] = base.SimpleAddress(fmt.Sprintf("node%d", i))
		pubs[i] = base.NewMPrivatekey().Publickey()
	}
}

// addrOf returns the v-th textual / binary form of identity a.
func addrOf(a, v int) *net.UDPAddr {
	vs := variants[a]
	return vs[((v%len(vs))+len(vs))%len(vs)]
}

func addrIndex(a *net.UDPAddr) int {
	if i, ok := idIndex[quicmemberlist.VerifMemberID(a)]; ok {
		return i
	}
	return -1
}

func nodeIndex(a base.Address) int {
	for i := range nodes {
		if nodes[i].Equal(a) {
			return i
		}
	}
	return -1
}

type Op struct {
	Kind string `json:"k"` // set | remove | empty
	Addr int    `json:"a"`
	V    int    `json:"v,omitempty"` // which form of the address is used by this op
	Node int    `json:"n"`
	Tag  int    `json:"t"`
	PN   int    `json:"pn"` // probe for MembersLenOthers
	PA   int    `json:"pa"`
}

type replay struct {
	Mode string `json:"mode"` // pool | memberlist
	Ops  []Op   `json:"ops"`
}

type mem struct{ addr, node, tag int }

// vmember is the Member the harness hands to the member table: an arbitrary UDP address (NewMember refuses
// some of them), an arbitrary name (the local member's name), the tag (identity of the object) and an
// optional hook called when the table asks for the node address (forced schedules).
type vmember struct {
	quicmemberlist.BaseMember
	addr *net.UDPAddr
	name string
	tag  int
	hook *parkHook
}

func (m vmember) Addr() *net.UDPAddr { return m.addr }
func (m vmember) Name() string       { return m.name }
func (m vmember) Address() base.Address {
	if m.hook != nil {
		m.hook.hit()
	}
	return m.BaseMember.Address()
}

// parkHook: when armed, the first caller runs f and waits (bounded) for it.
type parkHook struct {
	armed int32
	f     func()
}

func (h *parkHook) hit() {
	if atomic.CompareAndSwapInt32(&h.armed, 1, 0) {
		h.f()
	}
}

var dummyAddr = udp(net.IP{127, 0, 0, 9}, 1, "")

const localIdentity = 9 // in memberlist mode this identity is the Memberlist's local member (node 3)

func localName() string { return addrOf(localIdentity, 0).String() }

func newMember(addr, node, tag int) quicmemberlist.Member { return newMemberV(addr, 0, node, tag, false) }

// newMemberV: islocal = the member carries the local member's name (Memberlist mode, identity 9).
func newMemberV(addr, v, node, tag int, islocal bool) vmember {
	a := addrOf(addr, v)
	name := "t" + strconv.Itoa(tag)
	if islocal {
		name = localName()
	}
	b, err := quicmemberlist.NewMember(name, a, nodes[node], pubs[node], "", true)
	if err != nil {
		b, err = quicmemberlist.NewMember(name, dummyAddr, nodes[node], pubs[node], "", true)
		if err != nil {
			panic(err)
		}
	}
	return vmember{BaseMember: b, addr: a, name: name, tag: tag}
}

func memOf(m quicmemberlist.Member) mem {
	switch t := m.(type) {
	case vmember:
		return mem{addrIndex(t.Addr()), nodeIndex(t.BaseMember.Address()), t.tag}
	default:
		return mem{addrIndex(m.Addr()), nodeIndex(m.Address()), -1}
	}
}

type impl struct {
	pool *quicmemberlist.VerifMembersPool
	srv  *quicmemberlist.Memberlist // nil in pool mode
}

func newImpl(mode string) *impl {
	if mode == "pool" {
		return &impl{pool: quicmemberlist.NewVerifMembersPool()}
	}
	enc := jsonenc.NewEncoder()
	bind := addrOf(localIdentity, 0)
	local, err := quicmemberlist.NewMember(bind.String(), bind, nodes[3], pubs[3], bind.String(), true)
	if err != nil {
		panic(err)
	}
	config := quicmemberlist.DefaultMemberlistConfig(bind.String(), bind, bind)
	config.Delegate = quicmemberlist.NewDelegate(local, nil, nil)
	config.Transport = quicmemberlist.NewTransport(bind, quicmemberlist.NewTransportArgs())
	config.Alive = quicmemberlist.NewAliveDelegate(enc, bind, nil, nil)
	srv, err := quicmemberlist.NewMemberlist(local, quicmemberlist.NewMemberlistArgs(enc, config))
	if err != nil {
		panic(err)
	}
	return &impl{pool: srv.VerifMembersPool(), srv: srv}
}

type pairs [][2]int

func (p pairs) sorted() pairs {
	sort.Slice(p, func(i, j int) bool {
		if p[i][0] != p[j][0] {
			return p[i][0] < p[j][0]
		}
		return p[i][1] < p[j][1]
	})
	return p
}

// runHistory drives one history, evaluates the oracle after every op and returns the Coq case term.
func runHistory(res *vh.Result, rp replay, verbose bool) string {
	im := newImpl(rp.Mode)
	ref := map[int]mem{} // the property's "present" members: addr -> last joined member
	var steps []string
	fail := func(class, desc string) {
		failc(res, class, desc, rp)
	}
	nontrivial := false
	for i, op := range rp.Ops {
		at := fmt.Sprintf("mode=%s op#%d %+v: ", rp.Mode, i, op)
		var ret bool
		var opcode uint64
		switch op.Kind {
		case "set":
			m := newMemberV(op.Addr, op.V, op.Node, op.Tag, im.srv != nil && op.Addr == localIdentity)
			_, was := ref[op.Addr]
			if im.srv != nil {
				before := im.pool.Len()
				im.srv.VerifWhenJoined(m)
				ret = im.pool.Len() > before
			} else {
				ret = im.pool.Set(m)
			}
			if was {
				nontrivial = true // re-join
			}
			if ret == was {
				fail("set-return", at+fmt.Sprintf("Set returned added=%v for an address that was present=%v", ret, was))
			}
			ref[op.Addr] = mem{op.Addr, op.Node, op.Tag}
			opcode = uint64(0 + 3*(op.Addr+16*(op.Node+4*op.Tag)))
		case "remove":
			_, was := ref[op.Addr]
			if im.srv != nil {
				before := im.pool.Len()
				im.srv.VerifWhenLeft(newMemberV(op.Addr, op.V, 0, 0, op.Addr == localIdentity))
				ret = im.pool.Len() < before
			} else {
				var err error
				ret, err = im.pool.Remove(addrOf(op.Addr, op.V))
				if err != nil {
					fail("remove-error", at+err.Error())
				}
			}
			if ret != was {
				fail("remove-return", at+fmt.Sprintf("Remove returned removed=%v for an address that was present=%v", ret, was))
			}
			delete(ref, op.Addr)
			opcode = uint64(1 + 3*op.Addr)
		case "empty":
			im.pool.Empty()
			ref = map[int]mem{}
			ret = true
			opcode = 2
		default:
			panic("unknown op " + op.Kind)
		}

		// ---- observers
		var emask, fmask uint64
		var entries []uint64
		for a := 0; a < nAddrs; a++ {
			ex := im.pool.Exists(addrOf(a, i+a))
			if ex {
				emask |= 1 << uint(a)
			}
			want, present := ref[a]
			if ex != present {
				fail("exists-mismatch", at+fmt.Sprintf("Exists(addr %d)=%v but present=%v", a, ex, present))
			}
			if im.srv != nil && im.srv.Exists(addrOf(a, i+a+1)) != present {
				fail("exists-mismatch", at+fmt.Sprintf("Memberlist.Exists(addr %d)=%v but present=%v", a, !present, present))
			}
			gm, found := im.pool.Get(addrOf(a, i+2*a))
			if gm != nil {
				g := memOf(gm)
				entries = append(entries, uint64(2*(a+16*(g.node+4*g.tag))))
				if present && g != want {
					fail("get-wrong-member", at+fmt.Sprintf("Get(addr %d) returned %+v, the present member is %+v", a, g, want))
				}
				if !present {
					fail("get-absent-member", at+fmt.Sprintf("Get(addr %d) returned %+v for an absent address", a, g))
				}
			} else if present {
				fail("get-not-found", at+fmt.Sprintf("Get(addr %d) returned nil member for a present address", a))
			}
			if found != present {
				fail("get-not-found", at+fmt.Sprintf("Get(addr %d) found=%v but present=%v", a, found, present))
			}
			if found {
				fmask |= 1 << uint(a)
			}
		}
		var lens uint64
		for n := 0; n < nNodes; n++ {
			var want pairs
			for _, m := range ref {
				if m.node == n {
					want = append(want, [2]int{m.addr, m.tag})
				}
			}
			want.sorted()
			var got pairs
			seen := map[int]bool{}
			for _, m := range im.pool.NodeMembers(nodes[n]) {
				g := memOf(m)
				if g.node != n {
					fail("node-list-foreign", at+fmt.Sprintf("list of node %d contains member %+v", n, g))
				}
				if seen[g.addr] {
					fail("node-list-duplicate", at+fmt.Sprintf("list of node %d contains address %d twice", n, g.addr))
				}
				seen[g.addr] = true
				got = append(got, [2]int{g.addr, g.tag})
			}
			got.sorted()
			if fmt.Sprint(got) != fmt.Sprint(want) && len(got)+len(want) > 0 {
				fail("node-list-not-exact", at+fmt.Sprintf("list of node %d is %v (addr,tag), present members of the node are %v", n, got, want))
			}
			ml := im.pool.MembersLen(nodes[n])
			if ml != len(want) {
				fail("members-len", at+fmt.Sprintf("MembersLen(node %d)=%d, present members of the node: %d", n, ml, len(want)))
			}
			if len(want) > 1 {
				nontrivial = true
			}
			lens += uint64(ml) << uint(6*n)
			for _, g := range got {
				entries = append(entries, uint64(1+2*(n+4*(g[0]+16*g[1]))))
			}
		}
		l := im.pool.Len()
		if l != len(ref) {
			fail("len", at+fmt.Sprintf("Len()=%d, present members: %d", l, len(ref)))
		}
		var all pairs
		im.pool.Traverse(func(m quicmemberlist.Member) bool {
			g := memOf(m)
			all = append(all, [2]int{g.addr, g.tag})
			if w, ok := ref[g.addr]; !ok || w != g {
				fail("traverse-not-present", at+fmt.Sprintf("Traverse visits %+v which is not the present member of its address", g))
			}
			return true
		})
		all.sorted()
		if len(all) != len(ref) {
			fail("traverse-count", at+fmt.Sprintf("Traverse visits %d members, present: %d", len(all), len(ref)))
		}
		if im.srv != nil {
			if im.srv.MembersLen() != len(ref) {
				fail("len", at+fmt.Sprintf("Memberlist.MembersLen()=%d, present members: %d", im.srv.MembersLen(), len(ref)))
			}
			cnt := 0
			im.srv.Members(func(m quicmemberlist.Member) bool {
				cnt++
				g := memOf(m)
				if w, ok := ref[g.addr]; !ok || w != g {
					fail("traverse-not-present", at+fmt.Sprintf("Memberlist.Members visits %+v which is not present", g))
				}
				return true
			})
			if cnt != len(ref) {
				fail("traverse-count", at+fmt.Sprintf("Memberlist.Members visits %d members, present: %d", cnt, len(ref)))
			}
		}
		ol, oo, of := im.pool.MembersLenOthers(nodes[op.PN], addrOf(op.PA, i+op.V+1))
		{
			wl, wo, wf := 0, 0, false
			for _, m := range ref {
				if m.node == op.PN {
					wl++
					if m.addr == op.PA {
						wf = true
					} else {
						wo++
					}
				}
			}
			if ol != wl || oo != wo || of != wf {
				fail("members-len-others", at+fmt.Sprintf("MembersLenOthers(node %d, addr %d)=(%d,%d,%v) want (%d,%d,%v)", op.PN, op.PA, ol, oo, of, wl, wo, wf))
			}
		}
		sort.Slice(entries, func(i, j int) bool { return entries[i] < entries[j] })
		misc := uint64(l) + uint64(op.PN)<<6 + uint64(op.PA)<<12 + uint64(ol)<<18 + uint64(oo)<<24
		if of {
			misc += 1 << 30
		}
		masks := 2 * (emask + 1024*fmask)
		if ret {
			masks++
		}
		items := []string{strconv.FormatUint(opcode, 10), strconv.FormatUint(masks, 10), strconv.FormatUint(lens, 10), strconv.FormatUint(misc, 10)}
		for _, e := range entries {
			items = append(items, strconv.FormatUint(e, 10))
		}
		steps = append(steps, vh.List(items))
		if verbose {
			fmt.Printf("%s ret=%v len=%d all=%v\n", at, ret, l, all)
		}
	}
	key := fmt.Sprint(rp)
	res.Count(key, nontrivial)
	return vh.List(steps)
}

// failc records at most 25 failures per class (vh.Result keeps 200 in total).
var failCount = map[string]int{}

func failc(res *vh.Result, class, desc string, replay any) {
	failCount[class]++
	if failCount[class] <= 25 {
		res.Fail(class, desc, replay)
	} else {
		res.Distribution["oracle_fail:"+class]++
	}
}

func genHistory(r *vh.Rand, tag *int) replay {
	rp := replay{Mode: "pool"}
	if r.Chance(2, 5) {
		rp.Mode = "memberlist"
	}
	n := r.Range(3, 40)
	if r.Chance(1, 6) {
		n = r.Range(1, 6)
	}
	present := map[int]bool{}
	used := 3 + r.Intn(7) // restrict the addresses of this history to make re-joins and shared nodes frequent
	for i := 0; i < n; i++ {
		op := Op{PN: r.Intn(nNodes), PA: r.Intn(nAddrs)}
		c := r.Intn(100)
		switch {
		case c < 55:
			op.Kind = "set"
			op.Addr = r.Intn(used)
			if r.Chance(1, 4) && len(present) > 0 { // re-join of a present address
				for a := range present {
					if r.Chance(1, 2) {
						op.Addr = a
						break
					}
				}
			}
			if r.Chance(1, 5) { // the Memberlist's local member (identity 9, node 3) joins itself
				op.Addr = localIdentity
			}
			op.Node = op.Addr / 3
			if r.Chance(1, 7) { // the address joins as another node
				op.Node = r.Intn(3)
			}
			*tag++
			op.Tag = *tag
			present[op.Addr] = true
		case c < 96:
			op.Kind = "remove"
			op.Addr = r.Intn(nAddrs)
			if r.Chance(3, 4) && len(present) > 0 {
				for a := range present {
					op.Addr = a
					if r.Chance(1, 2) {
						break
					}
				}
			}
			delete(present, op.Addr)
		default:
			op.Kind = "empty"
			present = map[int]bool{}
		}
		op.V = r.Intn(4)
		if r.Chance(1, 2) { // probe the member just touched
			op.PA = op.Addr
			if op.Kind == "set" {
				op.PN = op.Node
			}
		}
		rp.Ops = append(rp.Ops, op)
	}
	return rp
}

func corpus() []replay {
	s := func(a, n, t int) Op { return Op{Kind: "set", Addr: a, Node: n, Tag: t, PN: n, PA: a} }
	rm := func(a int) Op { return Op{Kind: "remove", Addr: a, PN: a / 3, PA: a} }
	sv := func(a, v, n, t int) Op { return Op{Kind: "set", Addr: a, V: v, Node: n, Tag: t, PN: n, PA: a} }
	rmv := func(a, v int) Op { return Op{Kind: "remove", Addr: a, V: v, PN: a / 3, PA: a} }
	var out []replay
	for _, mode := range []string{"pool", "memberlist"} {
		out = append(out,
			replay{mode, []Op{s(0, 0, 1)}},                                  // Get of a present member must report found
			replay{mode, []Op{s(0, 0, 1), s(0, 0, 2)}},                      // re-join must not duplicate
			replay{mode, []Op{s(0, 0, 1), s(1, 0, 2), rm(0)}},               // leave must keep the node's other members
			replay{mode, []Op{s(0, 0, 1), s(1, 0, 2), s(2, 0, 3), rm(1), s(1, 0, 4), rm(0), rm(2), rm(1)}},
			replay{mode, []Op{s(0, 0, 1), s(0, 1, 2), rm(0)}},               // the address re-joins as another node
			replay{mode, []Op{s(0, 0, 1), s(3, 1, 2), {Kind: "empty"}, s(0, 0, 3)}},
			replay{mode, []Op{rm(0), s(0, 0, 1), rm(0), rm(0)}},
			// the local member joins / leaves alone, and after all remotes left (isJoined false at the leave)
			replay{mode, []Op{s(9, 3, 1), rm(9)}},
			replay{mode, []Op{s(9, 3, 1), s(0, 0, 2), s(3, 1, 3), rm(0), rm(3), rm(9), s(9, 3, 4), rm(9), rm(9)}},
			replay{mode, []Op{s(0, 0, 1), s(9, 3, 2), rm(0), s(9, 3, 3), rm(9), s(1, 0, 4), rm(1)}},
			// addresses whose textual forms differ: zoned IPv6 leaves / re-joins under another zone,
			// IPv4 vs IPv4-mapped, nil vs empty IP, unspecified
			replay{mode, []Op{s(1, 0, 1), sv(2, 0, 0, 2), rmv(2, 0), sv(2, 0, 0, 3), sv(2, 1, 0, 4), rmv(2, 2), sv(2, 2, 0, 5), rmv(2, 1)}},
			replay{mode, []Op{sv(0, 0, 0, 1), sv(0, 1, 0, 2), sv(0, 2, 0, 3), rmv(0, 1), sv(3, 0, 1, 4), sv(3, 1, 1, 5), rmv(3, 0)}},
			replay{mode, []Op{sv(7, 0, 2, 1), sv(7, 1, 2, 2), sv(8, 0, 2, 3), sv(8, 1, 2, 4), rmv(7, 1), sv(6, 0, 2, 5), sv(6, 1, 2, 6), rmv(8, 0), rmv(6, 0), sv(5, 1, 1, 7), rmv(5, 0)}},
		)
	}
	return out
}

// free-running goroutines joining / leaving through the Memberlist handlers (serialised by its joinedLock);
// oracle on the final state: the table is consistent with itself (per-node lists partition the address table).
func concurrent(res *vh.Result, r *vh.Rand, rounds int) {
	for round := 0; round < rounds; round++ {
		im := newImpl("memberlist")
		var wg sync.WaitGroup
		seeds := make([]uint64, 4)
		for i := range seeds {
			seeds[i] = r.U64()
		}
		for g := 0; g < 4; g++ {
			wg.Add(1)
			go func(g int) {
				defer wg.Done()
				rr := vh.NewRand(seeds[g])
				for i := 0; i < 60; i++ {
					a := rr.Intn(9)
					if rr.Chance(3, 5) {
						im.srv.VerifWhenJoined(newMemberV(a, rr.Intn(4), a/3, g*1000+i+1, false))
					} else {
						im.srv.VerifWhenLeft(newMemberV(a, rr.Intn(4), 0, 0, false))
					}
				}
			}(g)
		}
		wg.Wait()
		rp := map[string]any{"concurrent_seeds": seeds}
		table := map[int]mem{}
		im.pool.Traverse(func(m quicmemberlist.Member) bool {
			g := memOf(m)
			table[g.addr] = g
			return true
		})
		if im.pool.Len() != len(table) {
			failc(res, "concurrent-len", fmt.Sprintf("Len()=%d, Traverse visits %d", im.pool.Len(), len(table)), rp)
		}
		total := 0
		for n := 0; n < nNodes; n++ {
			seen := map[int]bool{}
			for _, m := range im.pool.NodeMembers(nodes[n]) {
				g := memOf(m)
				total++
				if seen[g.addr] {
					failc(res, "concurrent-node-list-duplicate", fmt.Sprintf("node %d lists address %d twice", n, g.addr), rp)
				}
				seen[g.addr] = true
				if w, ok := table[g.addr]; !ok || w != g || g.node != n {
					failc(res, "concurrent-node-list-not-exact", fmt.Sprintf("node %d lists %+v, address table has %+v (present=%v)", n, g, w, ok), rp)
				}
			}
		}
		if total != len(table) {
			failc(res, "concurrent-node-list-not-exact", fmt.Sprintf("per-node lists hold %d members, address table %d", total, len(table)), rp)
		}
		for a := 0; a < nAddrs; a++ {
			_, present := table[a]
			gm, found := im.pool.Get(addrOf(a, a))
			if found != present || im.pool.Exists(addrOf(a, a+1)) != present || (gm != nil) != present {
				failc(res, "concurrent-get", fmt.Sprintf("addr %d: Get found=%v Exists=%v, in table=%v", a, found, im.pool.Exists(addrOf(a, a+2)), present), rp)
			}
		}
		res.Evaluations++
		res.Dist("concurrent_rounds")
	}
}

// consistent checks, at quiescence, that the table agrees with itself: an address is in the address index
// exactly when it is (once, as the same member) in the list of that member's node; Len counts the index.
func consistent(res *vh.Result, pool *quicmemberlist.VerifMembersPool, class, what string, rp any) {
	inlists := map[int][]mem{}
	for n := 0; n < nNodes; n++ {
		for _, m := range pool.NodeMembers(nodes[n]) {
			g := memOf(m)
			if g.node != n {
				failc(res, class, what+fmt.Sprintf(": list of node %d holds %+v", n, g), rp)
			}
			inlists[g.addr] = append(inlists[g.addr], g)
		}
	}
	present := 0
	for a := 0; a < nAddrs; a++ {
		ex := pool.Exists(addrOf(a, a))
		gm, found := pool.Get(addrOf(a, a+1))
		l := inlists[a]
		switch {
		case ex != found || (gm != nil) != found:
			failc(res, class, what+fmt.Sprintf(": addr %d Exists=%v Get found=%v", a, ex, found), rp)
		case ex && (len(l) != 1 || l[0] != memOf(gm)):
			failc(res, class, what+fmt.Sprintf(": present member %+v of addr %d is in the per-node lists as %v", memOf(gm), a, l), rp)
		case !ex && len(l) != 0:
			failc(res, class, what+fmt.Sprintf(": addr %d is absent (Exists=false, Len=%d) but still in the per-node lists: %v", a, pool.Len(), l), rp)
		}
		if ex {
			present++
		}
	}
	if pool.Len() != present {
		failc(res, class, what+fmt.Sprintf(": Len()=%d, %d addresses exist", pool.Len(), present), rp)
	}
}

// poolRaces: joins / re-joins / leaves of the SAME addresses racing directly on the member table (not through
// the Memberlist handlers). Every address keeps its own node, so only operations on one address race on a
// per-node list. (a) forced schedule: while a re-join looks at the member it replaces, the leave of the same
// address arrives; (b) free-running goroutines. Oracle at quiescence: `consistent`.
func poolRaces(res *vh.Result, r *vh.Rand, rounds int) {
	// (a) forced
	for _, a := range []int{0, 2, 7} {
		for _, othernode := range []bool{false, true} {
			pool := quicmemberlist.NewVerifMembersPool()
			rp := map[string]any{"forced_leave_while_rejoin_addr": a, "rejoin_under_other_node": othernode}
			done := make(chan struct{})
			first := newMemberV(a, 0, a/3, 1, false)
			first.hook = &parkHook{f: func() {
				go func() {
					defer close(done)
					_, _ = pool.Remove(addrOf(a, 1))
				}()
				select {
				case <-done:
				case <-time.After(30 * time.Millisecond): // the leave waits for the re-join: fine
				}
			}}
			pool.Set(first)
			atomic.StoreInt32(&first.hook.armed, 1)
			n2 := a / 3
			if othernode {
				n2 = (a/3 + 1) % 3
			}
			pool.Set(newMemberV(a, 2, n2, 2, false))
			if atomic.LoadInt32(&first.hook.armed) == 0 {
				select {
				case <-done:
				case <-time.After(3 * time.Second):
					failc(res, "pool-race-stuck", "leave did not finish", rp)
				}
			}
			consistent(res, pool, "pool-race-inconsistent", "leave while re-join (forced schedule)", rp)
			res.Evaluations++
			res.Dist("pool_forced_schedules")
		}
	}
	// (b) free-running
	own := []int{0, 3, 6} // one address per node
	for round := 0; round < rounds; round++ {
		pool := quicmemberlist.NewVerifMembersPool()
		seeds := make([]uint64, 8)
		for i := range seeds {
			seeds[i] = r.U64()
		}
		var wg sync.WaitGroup
		for g := range seeds {
			wg.Add(1)
			go func(g int) {
				defer wg.Done()
				rr := vh.NewRand(seeds[g])
				for k := 0; k < 150; k++ {
					a := own[rr.Intn(len(own))]
					if rr.Chance(3, 5) {
						pool.Set(newMemberV(a, rr.Intn(3), a/3, g*1000+k+1, false))
					} else {
						_, _ = pool.Remove(addrOf(a, rr.Intn(3)))
					}
				}
			}(g)
		}
		wg.Wait()
		consistent(res, pool, "pool-race-inconsistent", "free-running joins/leaves of the same addresses", map[string]any{"pool_race_seeds": seeds})
		res.Evaluations++
		res.Dist("pool_race_rounds")
	}
}

func main() {
	o := vh.ParseFlags()
	setup()
	res := vh.NewResult("random join/re-join/leave/empty histories (1..40 ops) over 9 address identities x 3 nodes (+1 unused each; 1/7 of joins under a foreign node; every op and every observer uses one of several forms of the address with the same memberid: 4/16-byte IPv4, IPv4-mapped, IPv6 zones, nil/empty/unspecified IP, same IP other port), directly on membersPool or through Memberlist.whenJoined/whenLeft; all observers after every op vs reference map addr->last joined member; non-trivial = history contains a re-join of a present address or a node with >= 2 present members")
	cases := &vh.Cases{Import: "From MV Require Import C37.Model.\nOpen Scope N_scope.", Type: "list (list N)", CheckFn: "check", Shard: 100}
	if o.Replay != "" {
		var rp replay
		if err := vh.ReadReplay(o.Replay, &rp); err != nil {
			panic(err)
		}
		if len(rp.Ops) > 0 {
			runHistory(res, rp, true)
		}
	}
	for _, rp := range corpus() {
		term := runHistory(res, rp, false)
		cases.Add(term, rp)
		res.Dist("corpus")
	}
	r := vh.NewRand(o.Seed)
	n := o.Pick(600, 20000)
	tag := 100
	for i := 0; i < n; i++ {
		rp := genHistory(r, &tag)
		term := runHistory(res, rp, false)
		cases.Add(term, rp)
		res.Dist("mode_" + rp.Mode)
		res.Dist(fmt.Sprintf("len_%02d-%02d", len(rp.Ops)/10*10, len(rp.Ops)/10*10+9))
		for _, op := range rp.Ops {
			res.Dist("op_" + op.Kind)
		}
		if i < 2 {
			res.Sample(rp)
		}
	}
	concurrent(res, r, o.Pick(20, 400))
	poolRaces(res, r, o.Pick(150, 3000))
	res.ModelCases = cases.Len()
	if err := cases.Write(o.Out); err != nil {
		panic(err)
	}
	res.Write(o.Out)
}
