// c03: real keyed nodes, real signed ballot facts / expel operations / voteproofs built from abstract shapes.
package main

import (
	"fmt"
	"math"
	"strings"
	"sync"

	"github.com/spikeekips/mitum/base"
	"github.com/spikeekips/mitum/isaac"
	"github.com/spikeekips/mitum/util"
	"github.com/spikeekips/mitum/util/valuehash"
	"verifharness/vh"
)

const (
	kPlain = 0
	kExpel = 1
	kStuck = 2

	outBase = 100  // abstract ids of outsiders: 100, 101, ...
	altBase = 1000 // abstract id of the alternative (wrong) key of node i: 1000+i
	nOuts   = 4

	// aliases: the address of member i spelled with other letter case ("No01", "nO01", "NO01"): a different address string
	// (not a suffrage member), signed with member i's real key.  Abstract node id aliasBase + 10*i + a, a = 1..3.
	aliasBase = 200
	nAlias    = 3
)

func aliasID(member, a int) int { return aliasBase + 10*member + a }

// ---------------------------------------------------------------- shapes (JSON = replay format)

type signShape struct {
	Node   int  `json:"node"` // member index, or outBase+j
	Alt    bool `json:"alt,omitempty"`
	BadSig bool `json:"badsig,omitempty"`
}

type expelRef struct {
	Target int   `json:"target"`
	Start  int64 `json:"start"`
	End    int64 `json:"end"`
}

type expelShape struct {
	expelRef
	Signs []signShape `json:"signs"`
}

type factShape struct {
	Base int        `json:"base"`           // which proposal (0=A, 1=B, 2=C ...)
	HOff int64      `json:"hoff,omitempty"` // height offset from the voteproof's point
	ROff uint64     `json:"roff,omitempty"` // round offset
	Acc  bool       `json:"acc"`            // ACCEPT fact (else INIT)
	Exp  []expelRef `json:"exp,omitempty"`  // expel facts the ballot fact lists
}

type sfShape struct {
	signShape
	Fact int `json:"fact"` // index into vpShape.Facts
}

type vpShape struct {
	Kind   int          `json:"kind"`
	Acc    bool         `json:"acc"`
	H      int64        `json:"h"`
	R      uint64       `json:"r"`
	Th10   int          `json:"th10"`
	Fin    bool         `json:"fin"`
	RawFin bool         `json:"rawfin,omitempty"` // stuck only: finish through the embedded voteproof (keeps majority and threshold)
	Maj    int          `json:"maj"`              // index into Facts, -1 = none
	Facts  []factShape  `json:"facts"`
	SFs    []sfShape    `json:"sfs"`
	Expels []expelShape `json:"expels,omitempty"`
	Tag    string       `json:"tag,omitempty"`
	ID     string       `json:"id,omitempty"` // voteproof ID to set (SetID, test fixture); "" = the constructor's fresh one
}

// ---------------------------------------------------------------- world

type world struct {
	n      int
	net    base.NetworkID
	badnet base.NetworkID
	nodes  []isaac.LocalNode
	outs   []isaac.LocalNode
	alt    map[int]base.Privatekey
	alias  map[int]isaac.LocalNode
	suf    isaac.Suffrage

	mu       sync.Mutex
	factIDs  map[string]uint64
	expelIDs map[string]uint64
	nodeIDs  map[string]int
	keyIDs   map[string]int
	sfCache  map[string]base.BallotSignFact
	opCache  map[string]isaac.SuffrageExpelOperation
}

func mustKey(seed string) base.Privatekey {
	k, err := base.NewMPrivatekeyFromSeed(seed + strings.Repeat("-", 40))
	if err != nil {
		panic(err)
	}
	return k
}

func newWorld(n int) *world {
	w := &world{
		n: n, net: base.NetworkID("c03-network"), badnet: base.NetworkID("c03-other-network"),
		alt: map[int]base.Privatekey{}, alias: map[int]isaac.LocalNode{}, factIDs: map[string]uint64{}, expelIDs: map[string]uint64{},
		nodeIDs: map[string]int{}, keyIDs: map[string]int{},
		sfCache: map[string]base.BallotSignFact{}, opCache: map[string]isaac.SuffrageExpelOperation{},
	}
	bn := make([]base.Node, n)
	for i := 0; i < n; i++ {
		l := isaac.NewLocalNode(mustKey(fmt.Sprintf("c03-n%d-member-%d", n, i)), base.NewStringAddress(fmt.Sprintf("no%02d", i)))
		w.nodes = append(w.nodes, l)
		bn[i] = l
		w.nodeIDs[l.Address().String()] = i
		w.keyIDs[l.Publickey().String()] = i
		w.alt[i] = mustKey(fmt.Sprintf("c03-n%d-member-%d-alt", n, i))
		w.keyIDs[w.alt[i].Publickey().String()] = altBase + i
		for a, pre := range []string{"No", "nO", "NO"} {
			id := aliasID(i, a+1)
			al := isaac.NewLocalNode(l.Privatekey(), base.NewStringAddress(fmt.Sprintf("%s%02d", pre, i)))
			if err := al.Address().IsValid(nil); err != nil {
				panic(err)
			}
			w.alias[id] = al
			w.nodeIDs[al.Address().String()] = id
			w.alt[id] = w.alt[i]
		}
	}
	for j := 0; j < nOuts; j++ {
		id := outBase + j
		l := isaac.NewLocalNode(mustKey(fmt.Sprintf("c03-n%d-outsider-%d", n, j)), base.NewStringAddress(fmt.Sprintf("out%02d", j)))
		w.outs = append(w.outs, l)
		w.nodeIDs[l.Address().String()] = id
		w.keyIDs[l.Publickey().String()] = id
		w.alt[id] = mustKey(fmt.Sprintf("c03-n%d-outsider-%d-alt", n, j))
		w.keyIDs[w.alt[id].Publickey().String()] = altBase + id
	}
	suf, err := isaac.NewSuffrage(bn)
	if err != nil {
		panic(err)
	}
	w.suf = suf
	return w
}

func (w *world) local(id int) isaac.LocalNode {
	if id >= aliasBase {
		return w.alias[id]
	}
	if id >= outBase {
		return w.outs[id-outBase]
	}
	return w.nodes[id]
}

func (w *world) signer(s signShape) (base.Privatekey, base.Address, base.NetworkID) {
	l := w.local(s.Node)
	priv := l.Privatekey()
	if s.Alt {
		priv = w.alt[s.Node]
	}
	net := w.net
	if s.BadSig {
		net = w.badnet
	}
	return priv, l.Address(), net
}

func keyID(s signShape) int {
	if s.Alt {
		return altBase + s.Node
	}
	return s.Node
}

func (w *world) expelFact(r expelRef) isaac.SuffrageExpelFact {
	return isaac.NewSuffrageExpelFact(w.local(r.Target).Address(), base.Height(r.Start), base.Height(r.End), "no response")
}

func (w *world) expelID(h util.Hash) uint64 {
	w.mu.Lock()
	defer w.mu.Unlock()
	k := h.String()
	id, ok := w.expelIDs[k]
	if !ok {
		id = uint64(len(w.expelIDs) + 1)
		w.expelIDs[k] = id
	}
	return id
}

func (w *world) factID(h util.Hash) uint64 {
	w.mu.Lock()
	defer w.mu.Unlock()
	k := h.String()
	id, ok := w.factIDs[k]
	if !ok {
		id = uint64(len(w.factIDs) + 1)
		w.factIDs[k] = id
	}
	return id
}

func (w *world) fact(vp *vpShape, f factShape) base.BallotFact {
	pt := base.RawPoint(vp.H+f.HOff, vp.R+f.ROff)
	var exp []util.Hash
	for _, r := range f.Exp {
		exp = append(exp, w.expelFact(r).Hash())
	}
	prev := valuehash.NewSHA256([]byte("c03-previous-block"))
	pr := valuehash.NewSHA256([]byte(fmt.Sprintf("c03-proposal-%d", f.Base)))
	if f.Acc {
		return isaac.NewACCEPTBallotFact(pt, pr, valuehash.NewSHA256([]byte(fmt.Sprintf("c03-newblock-%d", f.Base))), exp)
	}
	return isaac.NewINITBallotFact(pt, prev, pr, exp)
}

func (w *world) signFact(s sfShape, fact base.BallotFact) base.BallotSignFact {
	key := fmt.Sprintf("%d/%v/%v/%s", s.Node, s.Alt, s.BadSig, fact.Hash().String())
	w.mu.Lock()
	c, ok := w.sfCache[key]
	w.mu.Unlock()
	if ok {
		return c
	}
	priv, addr, net := w.signer(s.signShape)
	var out base.BallotSignFact
	switch f := fact.(type) {
	case isaac.ACCEPTBallotFact:
		sf := isaac.NewACCEPTBallotSignFact(f)
		if err := sf.NodeSign(priv, net, addr); err != nil {
			panic(err)
		}
		out = sf
	case isaac.INITBallotFact:
		sf := isaac.NewINITBallotSignFact(f)
		if err := sf.NodeSign(priv, net, addr); err != nil {
			panic(err)
		}
		out = sf
	default:
		panic(fmt.Sprintf("unexpected fact %T", fact))
	}
	w.mu.Lock()
	w.sfCache[key] = out
	w.mu.Unlock()
	return out
}

func (w *world) expelOp(e expelShape) isaac.SuffrageExpelOperation {
	key := fmt.Sprintf("%+v", e)
	w.mu.Lock()
	c, ok := w.opCache[key]
	w.mu.Unlock()
	if ok {
		return c
	}
	op := isaac.NewSuffrageExpelOperation(w.expelFact(e.expelRef))
	for _, s := range e.Signs {
		priv, addr, net := w.signer(s)
		if err := op.NodeSign(priv, net, addr); err != nil {
			panic(err)
		}
	}
	w.mu.Lock()
	w.opCache[key] = op
	w.mu.Unlock()
	return op
}

func threshold(th10 int) base.Threshold {
	var t base.Threshold
	if err := t.UnmarshalText([]byte(fmt.Sprintf("%d.%d", th10/10, th10%10))); err != nil {
		panic(err)
	}
	return t
}

// built: the real voteproof plus what the abstraction needs to know about how it was made
type built struct {
	vp    base.Voteproof
	facts []base.BallotFact
	ops   []isaac.SuffrageExpelOperation // in shape order
}

// build constructs the real voteproof through the exported constructors and setters only.
func (w *world) build(s *vpShape) built {
	facts := make([]base.BallotFact, len(s.Facts))
	for i := range s.Facts {
		facts[i] = w.fact(s, s.Facts[i])
	}
	sfs := make([]base.BallotSignFact, len(s.SFs))
	for i := range s.SFs {
		sfs[i] = w.signFact(s.SFs[i], facts[s.SFs[i].Fact])
	}
	var maj base.BallotFact
	if s.Maj >= 0 {
		maj = facts[s.Maj]
	}
	ops := make([]isaac.SuffrageExpelOperation, len(s.Expels))
	bops := make([]base.SuffrageExpelOperation, len(s.Expels))
	for i := range s.Expels {
		ops[i] = w.expelOp(s.Expels[i])
		bops[i] = ops[i]
	}
	pt := base.RawPoint(s.H, s.R)
	th := threshold(s.Th10)
	var out base.Voteproof
	switch {
	case s.Kind == kPlain && !s.Acc:
		vp := isaac.NewINITVoteproof(pt)
		if s.ID != "" {
			vp.SetID(s.ID)
		}
		vp.SetSignFacts(sfs).SetThreshold(th).SetMajority(maj)
		if s.Fin {
			vp.Finish()
		}
		out = vp
	case s.Kind == kPlain && s.Acc:
		vp := isaac.NewACCEPTVoteproof(pt)
		if s.ID != "" {
			vp.SetID(s.ID)
		}
		vp.SetSignFacts(sfs).SetThreshold(th).SetMajority(maj)
		if s.Fin {
			vp.Finish()
		}
		out = vp
	case s.Kind == kExpel && !s.Acc:
		vp := isaac.NewINITExpelVoteproof(pt)
		if s.ID != "" {
			vp.SetID(s.ID)
		}
		vp.SetSignFacts(sfs).SetThreshold(th).SetMajority(maj)
		vp.SetExpels(bops)
		if s.Fin {
			vp.Finish()
		}
		out = vp
	case s.Kind == kExpel && s.Acc:
		vp := isaac.NewACCEPTExpelVoteproof(pt)
		if s.ID != "" {
			vp.SetID(s.ID)
		}
		vp.SetSignFacts(sfs).SetThreshold(th).SetMajority(maj)
		vp.SetExpels(bops)
		if s.Fin {
			vp.Finish()
		}
		out = vp
	case s.Kind == kStuck && !s.Acc:
		vp := isaac.NewINITStuckVoteproof(pt)
		if s.ID != "" {
			vp.SetID(s.ID)
		}
		vp.SetSignFacts(sfs).SetThreshold(th).SetMajority(maj)
		vp.SetExpels(bops)
		if s.Fin {
			if s.RawFin {
				vp.INITVoteproof.Finish()
			} else {
				vp.Finish()
			}
		}
		out = vp
	default:
		vp := isaac.NewACCEPTStuckVoteproof(pt)
		if s.ID != "" {
			vp.SetID(s.ID)
		}
		vp.SetSignFacts(sfs).SetThreshold(th).SetMajority(maj)
		vp.SetExpels(bops)
		if s.Fin {
			if s.RawFin {
				vp.ACCEPTVoteproof.Finish()
			} else {
				vp.Finish()
			}
		}
		out = vp
	}
	return built{vp: out, facts: facts, ops: ops}
}

// ---------------------------------------------------------------- abstraction: real object (+ shape for signature flags) -> Coq term
//
// Terms are kept short (parsing dominates the cost of a cases file): numerals that are direct constructor arguments
// take the scope of the argument type (N / Z), repeated sub-terms (points, facts) are let-bound per case, the
// suffrages are definitions in the header of the file.

type termEnv struct {
	w     *world
	lets  []string
	names map[string]string
}

func (e *termEnv) bind(prefix, term string) string {
	if n, ok := e.names[term]; ok {
		return n
	}
	n := fmt.Sprintf("%s%d", prefix, len(e.names))
	e.names[term] = n
	e.lets = append(e.lets, fmt.Sprintf("let %s := %s in ", n, term))
	return n
}

func (e *termEnv) point(p base.StagePoint) string {
	h := fmt.Sprintf("%d", p.Height().Int64())
	if p.Height().Int64() < 0 {
		h = "(" + h + ")"
	}
	return e.bind("p", fmt.Sprintf("mkPoint %s %d %s", h, p.Round().Uint64(), vh.Bool(p.Stage() == base.StageACCEPT)))
}

func (e *termEnv) fact(f base.BallotFact) string {
	var exp []string
	if ef, ok := f.(isaac.ExpelBallotFact); ok {
		for _, h := range ef.ExpelFacts() {
			exp = append(exp, fmt.Sprintf("%d", e.w.expelID(h)))
		}
	}
	return e.bind("f", fmt.Sprintf("mkFact %d %s %s%%N", e.w.factID(f.Hash()), e.point(f.Point()), vh.List(exp)))
}

func th10Of(t base.Threshold) int64 { return int64(math.Round(t.Float64() * 10)) }

func (w *world) coqSuf() string {
	var ps []string
	for _, n := range w.suf.Nodes() {
		ps = append(ps, fmt.Sprintf("(%d,%d)", w.nodeIDs[n.Address().String()], w.keyIDs[n.Publickey().String()]))
	}
	return vh.List(ps) + "%N"
}

// coqVP renders the abstraction of the real voteproof b.vp.  Everything is read from the real object (addresses, keys,
// fact hashes, order of sign facts and expels, threshold, majority, finished) except "the signature verifies", which is
// what the shape asked for (signed with the right or with another network id).
func (w *world) coqVP(s *vpShape, b built) string {
	e := &termEnv{w: w, names: map[string]string{}}
	vp := b.vp
	kind := "Plain"
	var expels []base.SuffrageExpelOperation
	if he, ok := vp.(base.HasExpels); ok {
		kind = "Expel"
		expels = he.Expels()
	}
	if _, ok := vp.(base.StuckVoteproof); ok {
		kind = "Stuck"
	}
	maj := "None"
	if m := vp.Majority(); m != nil {
		maj = "(Some " + e.fact(m) + ")"
	}
	var sfs []string
	for i, sf := range vp.SignFacts() {
		sfs = append(sfs, fmt.Sprintf("mkSF %d %d %s %s",
			w.nodeIDs[sf.Node().String()], w.keyIDs[sf.Signer().String()],
			vh.Bool(!s.SFs[i].BadSig), e.fact(sf.Fact().(base.BallotFact))))
	}
	// expels in the order the voteproof holds them; the shape of each is found by operation hash
	byHash := map[string][]int{}
	for i, op := range b.ops {
		k := opKey(op)
		byHash[k] = append(byHash[k], i)
	}
	var exps []string
	for _, op := range expels {
		k := opKey(op)
		idx := byHash[k][0]
		if len(byHash[k]) > 1 {
			byHash[k] = byHash[k][1:]
		}
		// NodeSign replaces an earlier sign of the same node: the last shape sign of a node is the one kept
		bad := map[int]bool{}
		for _, sg := range s.Expels[idx].Signs {
			bad[sg.Node] = sg.BadSig
		}
		var signs []string
		for _, sg := range op.(isaac.SuffrageExpelOperation).BaseNodeOperation.NodeSigns() {
			nid := w.nodeIDs[sg.Node().String()]
			signs = append(signs, fmt.Sprintf("mkNS %d %d %s", nid, w.keyIDs[sg.Signer().String()], vh.Bool(!bad[nid])))
		}
		ef := op.ExpelFact()
		z := func(x int64) string {
			if x < 0 {
				return fmt.Sprintf("(%d)", x)
			}
			return fmt.Sprintf("%d", x)
		}
		exps = append(exps, fmt.Sprintf("mkExpel %d %d %s %s %s", w.expelID(ef.Hash()),
			w.nodeIDs[ef.Node().String()], z(ef.ExpelStart().Int64()), z(ef.ExpelEnd().Int64()), vh.List(signs)))
	}
	pt := e.point(vp.Point())
	body := fmt.Sprintf("mkVP %s %s %d %s %s %s %s", kind, pt, th10Of(vp.Threshold()),
		vh.Bool(vp.Result() != base.VoteResultNotYet), maj, vh.List(sfs), vh.List(exps))
	return "(" + strings.Join(e.lets, "") + body + ")"
}

func opKey(op base.SuffrageExpelOperation) string {
	if h := op.Hash(); h != nil {
		return h.String()
	}
	return "nohash/" + op.ExpelFact().Hash().String()
}
