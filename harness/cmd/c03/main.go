// c03: agreement of voteproofs.
//
// Builds real signed INIT/ACCEPT plain, expel and stuck voteproofs (real keys, exported constructors only) for many
// abstract shapes, runs Voteproof.IsValid and isaac.IsValidVoteproofWithSuffrage on them, writes the observed verdicts
// as correspondence cases for coq/C03/Model.v, and evaluates the property oracle on the real verdicts: among the
// voteproofs the real code accepts for one suffrage and stage point, no two carry different majority facts unless
// more than f = floor(n - n*t/100) suffrage nodes signed different facts in the two.
package main

import (
	"encoding/json"
	"fmt"
	"os"
	"path/filepath"
	"runtime"
	"sort"
	"strings"
	"sync"

	"github.com/spikeekips/mitum/base"
	"github.com/spikeekips/mitum/isaac"
	"verifharness/vh"
)

const (
	H0 = int64(33)
	R0 = uint64(0)
)

type item struct {
	w     *world
	shape *vpShape
	group string
	donor *vpShape // validated first, in the same process, under the same voteproof ID (validation must be stateless)
	// results
	term   string
	wf, vs bool
	panicv string
	// oracle view of the real object
	accepted bool
	majority string // majority fact hash ("" = none)
	point    string
	th10     int64
	votes    map[string]map[string]bool // signer public key -> fact hashes it signed (real sign facts)
	nexp     int
	stuck    bool
	hasexp   bool
	minsigns int // least number of genuine signers (distinct members other than the target, right key, verifying) over the expels
}

type replay struct {
	N      int      `json:"n"`
	A      *vpShape `json:"a"`
	B      *vpShape `json:"b,omitempty"`
	DonorA *vpShape `json:"donor_a,omitempty"` // validated before A / B in the same process (same voteproof ID)
	DonorB *vpShape `json:"donor_b,omitempty"`
}

func (it *item) eval() {
	defer func() {
		if r := recover(); r != nil {
			it.panicv = fmt.Sprint(r)
		}
	}()
	w := it.w
	if it.donor != nil {
		d := w.build(it.donor)
		_ = d.vp.IsValid(w.net)
		_ = isaac.IsValidVoteproofWithSuffrage(d.vp, w.suf)
	}
	b := w.build(it.shape)
	if it.shape.ID != "" && b.vp.ID() != it.shape.ID {
		panic("voteproof ID not set")
	}
	it.term = w.coqVP(it.shape, b)
	vp := b.vp
	it.wf = vp.IsValid(w.net) == nil
	it.vs = isaac.IsValidVoteproofWithSuffrage(vp, w.suf) == nil
	it.accepted = it.wf && it.vs
	if m := vp.Majority(); m != nil && vp.Result() == base.VoteResultMajority {
		it.majority = m.Hash().String()
	}
	it.point = vp.Point().String()
	it.th10 = th10Of(vp.Threshold())
	it.votes = map[string]map[string]bool{}
	for _, sf := range vp.SignFacts() {
		k := sf.Signer().String()
		if it.votes[k] == nil {
			it.votes[k] = map[string]bool{}
		}
		it.votes[k][sf.Fact().Hash().String()] = true
	}
	if he, ok := vp.(base.HasExpels); ok {
		it.hasexp = true
		it.nexp = len(he.Expels())
	}
	_, it.stuck = vp.(base.StuckVoteproof)
	it.minsigns = -1
	for _, e := range it.shape.Expels {
		g := map[int]bool{}
		for _, sg := range e.Signs {
			g[sg.Node] = sg.Node < outBase && sg.Node != e.Target && !sg.Alt && !sg.BadSig // the last sign of a node is kept
		}
		c := 0
		for _, ok := range g {
			if ok {
				c++
			}
		}
		if it.minsigns < 0 || c < it.minsigns {
			it.minsigns = c
		}
	}
}

// exact count and f
func thrExact(n, k int64) int64 { return (n*k + 999) / 1000 }
func fExact(n, k int64) int64   { return n - thrExact(n, k) }

func classify(n int64, a, b *item) string {
	big := func(x *item) bool { return x.hasexp && !x.stuck && int64(x.nexp) > n-thrExact(n, x.th10) }
	// the known class: more than n-Threshold(n) expels, every one of them signed by at least n-k suffrage members
	signed := func(x *item) bool { return !big(x) || int64(x.minsigns) >= n-int64(x.nexp) }
	switch {
	case a.stuck || b.stuck:
		return "stuck-majority"
	case (big(a) || big(b)) && !(signed(a) && signed(b)):
		return "expel-undersigned-conflict"
	case big(a) || big(b):
		return "expel-partition"
	case a.hasexp || b.hasexp:
		return "small-expel-conflict"
	default:
		return "plain-conflict"
	}
}

func main() {
	o := vh.ParseFlags()
	res := vh.NewResult("real signed voteproofs (plain/expel/stuck x INIT/ACCEPT) built from abstract shapes: exhaustive over voter/fact/expel assignments for n<=4, sampled with mutations for n=5..7; compared: IsValid==nil and IsValidVoteproofWithSuffrage==nil; non-trivial = voteproof has >=2 sign facts or expels")
	r := vh.NewRand(o.Seed)
	worlds := map[int]*world{}
	for n := 1; n <= 7; n++ {
		worlds[n] = newWorld(n)
	}

	if o.Replay != "" {
		var rp replay
		if err := vh.ReadReplay(o.Replay, &rp); err != nil {
			panic(err)
		}
		for i, s := range []*vpShape{rp.A, rp.B} {
			if s == nil || rp.N < 1 || rp.N > 7 {
				continue
			}
			it := &item{w: worlds[rp.N], shape: s, donor: []*vpShape{rp.DonorA, rp.DonorB}[i]}
			it.eval()
			fmt.Printf("replay n=%d tag=%s: IsValid ok=%v IsValidVoteproofWithSuffrage ok=%v majority=%s panic=%q\n", rp.N, s.Tag, it.wf, it.vs, it.majority, it.panicv)
		}
	}

	var items []*item
	add := func(n int, group string, s *vpShape) {
		items = append(items, &item{w: worlds[n], shape: s, group: group})
	}

	// corpus: known witnesses, always first
	for _, c := range corpus() {
		add(c.N, "corpus", c.A)
		if c.B != nil {
			add(c.N, "corpus", c.B)
		}
	}
	genExhaustive(o, r, add)
	genRandom(o, r, add)

	// evaluate on the real code, in parallel (signature checks dominate)
	runAll := func(list []*item) {
		var wg sync.WaitGroup
		ch := make(chan *item, 256)
		for i := 0; i < runtime.NumCPU(); i++ {
			wg.Add(1)
			go func() {
				defer wg.Done()
				for it := range ch {
					it.eval()
				}
			}()
		}
		for _, it := range list {
			ch <- it
		}
		close(ch)
		wg.Wait()
	}
	runAll(items)

	// history phase: validation has to be stateless.  Every selected shape the real code rejected is validated again
	// right after an accepted voteproof of the same suffrage, carrying that voteproof's ID (the ID is a free string
	// serialised with the voteproof); the verdicts are compared with the model like any other case and the voteproofs
	// accepted here join the pair search.
	donors := map[string]*vpShape{}
	for _, it := range items {
		if it.panicv == "" && it.accepted && it.majority != "" {
			k := fmt.Sprintf("%d/%v", it.w.n, it.shape.Acc)
			if _, ok := donors[k]; !ok {
				donors[k] = it.shape
			}
		}
	}
	var second []*item
	budget := o.Pick(1500, 20000)
	for pass := 0; pass < 2; pass++ { // first the shapes only the suffrage check rejects, then the others
		for _, it := range items {
			if it.panicv != "" || it.accepted || (pass == 0) != (it.wf && !it.vs) || len(second) >= budget {
				continue
			}
			d, ok := donors[fmt.Sprintf("%d/%v", it.w.n, it.shape.Acc)]
			if !ok {
				continue
			}
			id := fmt.Sprintf("c03-shared-id-%d", len(second))
			dc, sc := *d, *it.shape
			dc.ID, sc.ID = id, id
			sc.Tag += "/same-id-after:" + d.Tag
			second = append(second, &item{w: it.w, shape: &sc, group: "same-id-after-valid", donor: &dc})
		}
	}
	runAll(second)
	items = append(items, second...)

	hdr := "From MV Require Import C03.Model.\n"
	sufTerm := map[int]string{}
	for n := 1; n <= 7; n++ {
		sufTerm[n] = fmt.Sprintf("s%d", n)
		hdr += fmt.Sprintf("Definition s%d : suffrage := %s.\n", n, worlds[n].coqSuf())
	}
	cases := &vh.Cases{Import: hdr, Type: "case", CheckFn: "check", Shard: 450}
	for _, it := range items {
		n := it.w.n
		key, _ := json.Marshal(it.shape)
		res.Count(fmt.Sprintf("%d/%s", n, key), len(it.shape.SFs) >= 2 || len(it.shape.Expels) > 0)
		if it.panicv != "" {
			res.Fail("panic", "validation panicked: "+it.panicv, replay{N: n, A: it.shape})
			continue
		}
		res.Dist(fmt.Sprintf("%s/accepted=%v", it.group, it.accepted))
		res.Dist(fmt.Sprintf("n=%d", n))
		cases.Add(fmt.Sprintf("CVp %s %s %s %s", sufTerm[n], it.term, vh.Bool(it.wf), vh.Bool(it.vs)),
			map[string]any{"n": n, "shape": it.shape, "validated_first_with_same_id": it.donor, "impl_isvalid": it.wf, "impl_withsuffrage": it.vs})
		if it.accepted && it.majority != "" {
			res.Sample(map[string]any{"n": n, "tag": it.shape.Tag, "kind": it.shape.Kind, "accepted": true, "sfs": len(it.shape.SFs), "expels": len(it.shape.Expels)})
		}
	}

	// ---- property oracle on the real verdicts
	type gk struct {
		n  int
		pt string
	}
	groups := map[gk][]*item{}
	for _, it := range items {
		if it.panicv == "" && it.accepted && it.majority != "" && it.th10 >= 670 {
			k := gk{it.w.n, it.point}
			groups[k] = append(groups[k], it)
		}
	}
	gkeys := make([]gk, 0, len(groups))
	for k := range groups {
		gkeys = append(gkeys, k)
	}
	sort.Slice(gkeys, func(i, j int) bool {
		if gkeys[i].n != gkeys[j].n {
			return gkeys[i].n < gkeys[j].n
		}
		return gkeys[i].pt < gkeys[j].pt
	})
	pairs, conflicting := 0, 0
	seenClass := map[string]int{}
	// the corpus witnesses come first (they are the first voteproofs of their groups): put the n=4 groups first
	sort.SliceStable(gkeys, func(i, j int) bool { return gkeys[i].n == 4 && gkeys[j].n != 4 })
	for _, k := range gkeys {
		g := groups[k]
		n := int64(k.n)
		for i := 0; i < len(g); i++ {
			for j := i + 1; j < len(g); j++ {
				a, b := g[i], g[j]
				pairs++
				if a.majority == b.majority {
					continue
				}
				conflicting++
				// equivocators are counted by signing key (whatever address string the sign fact names): a key that
				// signed two different facts, in the two voteproofs or inside one of them
				eq := int64(0)
				union := map[string]map[string]bool{}
				for _, x := range []*item{a, b} {
					for key, fs := range x.votes {
						if union[key] == nil {
							union[key] = map[string]bool{}
						}
						for f := range fs {
							union[key][f] = true
						}
					}
				}
				for _, fs := range union {
					if len(fs) > 1 {
						eq++
					}
				}
				kmin := a.th10
				if b.th10 < kmin {
					kmin = b.th10
				}
				if eq > fExact(n, kmin) {
					continue
				}
				cl := classify(n, a, b)
				seenClass[cl]++
				if seenClass[cl] <= 40 {
					res.Fail(cl, fmt.Sprintf("n=%d t=%d.%d point=%s: two voteproofs accepted by IsValid and IsValidVoteproofWithSuffrage carry different majority facts with %d equivocating node(s) <= f=%d (%s | %s)",
						n, kmin/10, kmin%10, k.pt, eq, fExact(n, kmin), a.shape.Tag, b.shape.Tag), replay{N: k.n, A: a.shape, B: b.shape, DonorA: a.donor, DonorB: b.donor})
				} else {
					res.Distribution["oracle_fail:"+cl]++
				}
			}
		}
	}
	res.Distribution["oracle_pairs_accepted_majority"] = pairs
	res.Distribution["oracle_pairs_conflicting_majorities"] = conflicting
	res.Evaluations += pairs

	// ---- NumberOfFaultyNodes (float64) against the Flocq model and against the exact floor
	nf := 0
	fcases := &vh.Cases{Import: "From MV Require Import C03.Float.", Type: "Z * Z * Z", CheckFn: "check_faulty", Shard: 100000}
	for n := int64(1); n <= int64(o.Pick(40, 300)); n++ {
		for _, k := range []int{510, 600, 667, 670, 671, 700, 750, 800, 900, 999, 1000} {
			got := int64(base.NumberOfFaultyNodes(uint(n), threshold(k)))
			fcases.Add(vh.Tuple(vh.Z(n), vh.Z(int64(k)), vh.Z(got)), map[string]any{"n": n, "t10": k, "impl_faulty": got})
			if got != fExact(n, int64(k)) {
				nf++
				if nf <= 3 {
					res.Note(fmt.Sprintf("NumberOfFaultyNodes(%d, %d.%d)=%d differs from floor(n-n*t/100)=%d (float64; the function is not used by validation, no claim attached)", n, k/10, k%10, got, fExact(n, int64(k))))
				}
			}
			res.Evaluations++
		}
	}
	res.Distribution["faulty_float_differs_from_exact"] = nf

	res.Exhaustive = true
	res.ModelCases = cases.Len() + fcases.Len()
	if sh := (cases.Len() + 15) / 16; sh > cases.Shard {
		cases.Shard = sh
	}
	if err := cases.Write(o.Out); err != nil {
		panic(err)
	}
	if err := appendCases(o.Out, fcases, "cases_900.v"); err != nil {
		panic(err)
	}
	res.Write(o.Out)
	fmt.Fprintf(os.Stderr, "c03: %d voteproofs, %d accepted-majority pairs, %d conflicting, classes %v\n", len(items), pairs, conflicting, seenClass)
}

// appendCases writes a second family of correspondence cases (other Coq type / check function) as one more cases file.
func appendCases(dir string, c *vh.Cases, name string) error {
	tmp := filepath.Join(dir, "second")
	if err := os.MkdirAll(tmp, 0o755); err != nil {
		return err
	}
	defer os.RemoveAll(tmp)
	if err := c.Write(tmp); err != nil {
		return err
	}
	b, err := os.ReadFile(filepath.Join(tmp, "cases_000.v"))
	if err != nil {
		return err
	}
	if err := os.WriteFile(filepath.Join(dir, name), b, 0o644); err != nil {
		return err
	}
	jb, err := os.ReadFile(filepath.Join(tmp, "cases.jsonl"))
	if err != nil {
		return err
	}
	jf, err := os.OpenFile(filepath.Join(dir, "cases.jsonl"), os.O_APPEND|os.O_WRONLY, 0o644)
	if err != nil {
		return err
	}
	defer jf.Close()
	_, err = jf.Write([]byte(strings.ReplaceAll(string(jb), `"file":"cases_000.v"`, `"file":"`+name+`"`)))
	return err
}
