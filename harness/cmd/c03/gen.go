// c03: shape generators (corpus, exhaustive small suffrages, random with mutations).
package main

import (
	"fmt"

	"verifharness/vh"
)

func thrI(n, k int) int { return (n*k + 999) / 1000 }

// node states of the exhaustive enumeration
const (
	stAbsent = 0
	stA      = 1
	stB      = 2
	stX      = 3 // expelled
)

func ms(node int) signShape { return signShape{Node: node} }

func expelRefs(es []expelShape) []expelRef {
	out := make([]expelRef, len(es))
	for i := range es {
		out[i] = es[i].expelRef
	}
	return out
}

// signersFor: the node signs of every expel operation, by variant
//
//	0 all members that are not expelled      1 all other members (expelled ones too)
//	2 exactly th_e non-expelled members      3 one fewer than th_e (taken from all others)
//	4 all non-expelled members and an outsider
func signersFor(n, th10, variant, target int, expelled []bool) []signShape {
	k := 0
	for _, x := range expelled {
		if x {
			k++
		}
	}
	th := thrI(n, th10)
	if k > n-th {
		th = n - k
	}
	var live, others []signShape
	for i := 0; i < n; i++ {
		if i == target {
			continue
		}
		others = append(others, ms(i))
		if !expelled[i] {
			live = append(live, ms(i))
		}
	}
	switch variant {
	case 0:
		return live
	case 1:
		return others
	case 2:
		if len(live) > th {
			return live[:th]
		}
		return live
	case 3:
		m := th - 1
		if m < 0 {
			m = 0
		}
		if len(others) > m {
			return others[:m]
		}
		return others
	default:
		return append(append([]signShape{}, live...), ms(outBase))
	}
}

// fromStates builds the "honest looking" voteproof shape of a node-state vector.
// claim: -1 draw, 0 = fact A, 1 = fact B, 2 = a fact nobody signs.  expMode: which expel facts the ballot facts list
// (0 all the voteproof's expels, 1 none, 2 only the first, 3 all plus a foreign one).
func fromStates(n, kind int, acc bool, th10 int, st []int, claim, signVariant, expMode int) *vpShape {
	s := &vpShape{Kind: kind, Acc: acc, H: H0, R: R0, Th10: th10, Fin: true, Maj: -1}
	expelled := make([]bool, n)
	for i, x := range st {
		expelled[i] = x == stX
	}
	if kind != kPlain {
		for i, x := range st {
			if x == stX {
				s.Expels = append(s.Expels, expelShape{expelRef: expelRef{Target: i, Start: H0, End: H0 + 5},
					Signs: signersFor(n, th10, signVariant, i, expelled)})
			}
		}
	}
	var exp []expelRef
	switch expMode {
	case 0:
		exp = expelRefs(s.Expels)
	case 2:
		if len(s.Expels) > 0 {
			exp = expelRefs(s.Expels[:1])
		}
	case 3:
		exp = append(expelRefs(s.Expels), expelRef{Target: 0, Start: H0 + 1, End: H0 + 9})
	}
	for b := 0; b < 3; b++ {
		s.Facts = append(s.Facts, factShape{Base: b, Acc: acc, Exp: exp})
	}
	for i, x := range st {
		switch x {
		case stA:
			s.SFs = append(s.SFs, sfShape{signShape: ms(i), Fact: 0})
		case stB:
			s.SFs = append(s.SFs, sfShape{signShape: ms(i), Fact: 1})
		}
	}
	if claim >= 0 {
		s.Maj = claim
	}
	if kind == kStuck {
		s.RawFin = true // keep what the shape says; the honest Finish() is a separate variant
	}
	return s
}

func stTag(st []int) string {
	b := make([]byte, len(st))
	for i, x := range st {
		b[i] = "-ABX"[x]
	}
	return string(b)
}

// firstVote: the fact of the first voting node (-1 when nobody votes)
func firstVote(st []int) int {
	for _, x := range st {
		if x == stA {
			return 0
		}
		if x == stB {
			return 1
		}
	}
	return -1
}

func eachState(n, states int, f func(st []int)) {
	st := make([]int, n)
	var rec func(i int)
	rec = func(i int) {
		if i == n {
			c := make([]int, n)
			copy(c, st)
			f(c)
			return
		}
		for x := 0; x < states; x++ {
			st[i] = x
			rec(i + 1)
		}
	}
	rec(0)
}

func hasX(st []int) bool {
	for _, x := range st {
		if x == stX {
			return true
		}
	}
	return false
}

// plain "extras": additional / altered sign facts supporting fact B
func applyExtra(s *vpShape, extra int) {
	switch extra {
	case 1:
		s.SFs = append(s.SFs, sfShape{signShape: ms(outBase), Fact: 1})
	case 2:
		for j := 0; j < 3; j++ {
			s.SFs = append(s.SFs, sfShape{signShape: ms(outBase + j), Fact: 1})
		}
	case 3: // the first sign fact once more
		if len(s.SFs) > 0 {
			s.SFs = append(s.SFs, s.SFs[0])
		}
	case 4: // the last member votes B three times more
		if len(s.SFs) > 0 {
			last := s.SFs[len(s.SFs)-1].Node
			for j := 0; j < 3; j++ {
				s.SFs = append(s.SFs, sfShape{signShape: ms(last), Fact: 1})
			}
		}
	case 5:
		if len(s.SFs) > 0 {
			s.SFs[0].Alt = true
		}
	case 6:
		if len(s.SFs) > 0 {
			s.SFs[0].BadSig = true
		}
	case 7: // the last voting member also votes B under the other spellings of its address (same key)
		if len(s.SFs) > 0 {
			last := s.SFs[len(s.SFs)-1].Node
			for a := 1; a <= nAlias; a++ {
				s.SFs = append(s.SFs, sfShape{signShape: ms(aliasID(last, a)), Fact: 1})
			}
		}
	case 8: // only spellings other than the member's own address
		if len(s.SFs) > 0 {
			last := s.SFs[len(s.SFs)-1].Node
			s.SFs = s.SFs[:len(s.SFs)-1]
			for a := 1; a <= nAlias; a++ {
				s.SFs = append(s.SFs, sfShape{signShape: ms(aliasID(last, a)), Fact: 1})
			}
		}
	}
}

type corpusCase struct {
	N    int
	A, B *vpShape
}

// corpus: the witnesses of the known findings / past failures, always evaluated first.
func corpus() []corpusCase {
	X, A, B, O := stX, stA, stB, stAbsent
	_ = O
	// n=4, t=67: {a,b} expel {c,d} and vote A; {c,d} expel {a,b} and vote B (no node signs two facts)
	p1 := fromStates(4, kExpel, false, 670, []int{A, A, X, X}, 0, 0, 0)
	p1.Tag = "partition-ab-expel-cd"
	p2 := fromStates(4, kExpel, false, 670, []int{X, X, B, B}, 1, 0, 0)
	p2.Tag = "partition-cd-expel-ab"
	// expel voteproof against a plain one with a single equivocator (f = 1)
	q2 := fromStates(4, kPlain, false, 670, []int{O, B, B, B}, 1, 0, 0)
	q2.Tag = "plain-bcd-vote-B"
	// ACCEPT stage partition
	a1 := fromStates(4, kExpel, true, 670, []int{A, A, X, X}, 0, 0, 0)
	a1.Tag = "accept-partition-ab-expel-cd"
	a2 := fromStates(4, kExpel, true, 670, []int{X, X, B, B}, 1, 0, 0)
	a2.Tag = "accept-partition-cd-expel-ab"
	// stuck voteproofs carrying a majority signed by one node each
	s1 := fromStates(4, kStuck, false, 1000, []int{A, B, B, X}, 0, 0, 0)
	s1.Tag = "stuck-majority-A"
	s2 := fromStates(4, kStuck, false, 1000, []int{A, B, B, X}, 1, 0, 0)
	s2.Tag = "stuck-majority-B"
	// plain: 3 of 4 for A; and the honest 7-node / 2-expel expel voteproof
	h1 := fromStates(4, kPlain, false, 670, []int{A, A, A, B}, 0, 0, 0)
	h1.Tag = "plain-3-of-4"
	h2 := fromStates(7, kExpel, false, 670, []int{A, A, A, A, A, X, X}, 0, 0, 0)
	h2.Tag = "expel-2-of-7"
	// one member signing under differently cased spellings of its own address (same key) against three honest nodes
	c1 := fromStates(4, kPlain, false, 670, []int{O, B, O, O}, 1, 0, 1)
	c1.SFs = append(c1.SFs, sfShape{signShape: ms(aliasID(1, 1)), Fact: 1}, sfShape{signShape: ms(aliasID(1, 3)), Fact: 1})
	c1.Tag = "alias-spellings-of-no01-vote-B"
	c2 := fromStates(4, kPlain, false, 670, []int{A, O, A, A}, 0, 0, 1)
	c2.Tag = "plain-acd-vote-A"
	return []corpusCase{{4, c1, c2}, {4, p1, p2}, {4, p1, q2}, {4, a1, a2}, {4, s1, s2}, {4, h1, nil}, {7, h2, nil}}
}

func genExhaustive(o *vh.Opts, r *vh.Rand, add func(n int, group string, s *vpShape)) {
	thorough := o.Thorough()
	// A. plain voteproofs: every assignment absent/A/B, every claim, extras supporting B
	for n := 1; n <= 4; n++ {
		eachState(n, 3, func(st []int) {
			for _, claim := range []int{0, 1, -1} {
				for extra := 0; extra <= 8; extra++ {
					if extra > 0 && claim != 1 && !thorough {
						continue
					}
					s := fromStates(n, kPlain, false, 670, st, claim, 0, 1)
					applyExtra(s, extra)
					s.Tag = fmt.Sprintf("plain/%s/claim%d/extra%d", stTag(st), claim, extra)
					add(n, "plain-exhaustive", s)
				}
			}
			if fv := firstVote(st); fv >= 0 {
				for _, th10 := range []int{510, 750, 1000} {
					if n < 3 && !thorough {
						continue
					}
					s := fromStates(n, kPlain, true, th10, st, fv, 0, 1)
					s.Tag = fmt.Sprintf("plain-accept/%s/th%d", stTag(st), th10)
					add(n, "plain-exhaustive", s)
				}
			}
		})
	}
	// B. expel voteproofs: every assignment absent/A/B/expelled with at least one expelled node
	for n := 2; n <= 4; n++ {
		variants := []int{0, 1, 3}
		if thorough {
			variants = []int{0, 1, 2, 3, 4}
		}
		eachState(n, 4, func(st []int) {
			if !hasX(st) {
				return
			}
			claims := []int{firstVote(st), -1}
			if thorough {
				claims = []int{0, 1, -1}
			}
			for _, claim := range claims {
				for _, sv := range variants {
					s := fromStates(n, kExpel, false, 670, st, claim, sv, 0)
					s.Tag = fmt.Sprintf("expel/%s/claim%d/sign%d", stTag(st), claim, sv)
					add(n, "expel-exhaustive", s)
				}
			}
		})
	}
	// C. stuck voteproofs
	for n := 2; n <= 4; n++ {
		eachState(n, 4, func(st []int) {
			if !hasX(st) {
				return
			}
			if n == 4 && !thorough && !r.Chance(1, 3) {
				return
			}
			for _, sv := range []int{0, 3} {
				for mode := 0; mode < 5; mode++ {
					var s *vpShape
					switch mode {
					case 3, 4: // genuine expels, exact count, but every sign fact is of a non-member (outsider / other spelling)
						s = fromStates(n, kStuck, false, 670, st, -1, sv, 0)
						s.RawFin = false
						for i := range s.SFs {
							if mode == 3 {
								s.SFs[i].Node = outBase + i%nOuts
							} else {
								s.SFs[i].Node = aliasID(s.SFs[i].Node, 1+i%nAlias)
							}
						}
					case 0: // as the ballotbox builds it: Finish() clears the majority and sets 100
						s = fromStates(n, kStuck, false, 670, st, firstVote(st), sv, 0)
						s.RawFin = false
					case 1: // keeps a majority (the first voter's fact), threshold 100
						s = fromStates(n, kStuck, false, 1000, st, firstVote(st), sv, 0)
					default: // draw with a threshold other than 100
						s = fromStates(n, kStuck, false, 670, st, -1, sv, 0)
					}
					s.Tag = fmt.Sprintf("stuck/%s/sign%d/mode%d", stTag(st), sv, mode)
					add(n, "stuck-exhaustive", s)
				}
			}
		})
	}
}

var thList = []int{670, 670, 670, 670, 700, 750, 800, 900, 1000, 510, 600, 667}

// genRandom: an honest-looking voteproof for n = 1..7 (mostly 5..7), then 0..2 mutations.
func genRandom(o *vh.Opts, r *vh.Rand, add func(n int, group string, s *vpShape)) {
	total := o.Pick(900, 40000)
	for i := 0; i < total; i++ {
		n := r.Range(5, 7)
		if r.Chance(1, 6) {
			n = r.Range(1, 4)
		}
		th10 := thList[r.Intn(len(thList))]
		kind := r.Intn(3)
		if n == 1 {
			kind = kPlain
		}
		acc := r.Chance(1, 3)
		q := thrI(n, th10)
		st := make([]int, n)
		// expelled set
		k := 0
		if kind != kPlain {
			k = 1
			switch r.Intn(4) {
			case 0:
				k = r.Range(1, n-1)
			case 1:
				if n-q >= 1 {
					k = n - q // the largest "small" expel
				}
			case 2:
				if n-q+1 <= n-1 {
					k = n - q + 1 // the smallest "big" expel
				}
			}
			for _, j := range r.Perm(n)[:k] {
				st[j] = stX
			}
		}
		// votes of the others
		mode := r.Intn(5)
		for j := 0; j < n; j++ {
			if st[j] == stX {
				continue
			}
			switch mode {
			case 0, 1: // unanimous
				st[j] = stA
			case 2: // mostly A
				st[j] = stA
				if r.Chance(1, 4) {
					st[j] = stB
				}
			case 3: // split
				st[j] = stA + r.Intn(2)
			default: // with absentees
				st[j] = r.Intn(3)
			}
		}
		// claim: what the tally would say (approximately), sometimes something else
		ca, cb := 0, 0
		for _, x := range st {
			if x == stA {
				ca++
			} else if x == stB {
				cb++
			}
		}
		need := q
		if kind == kExpel {
			need = n - k
		}
		claim := -1
		if ca >= need {
			claim = 0
		} else if cb >= need {
			claim = 1
		}
		if r.Chance(1, 8) {
			claim = r.Range(-1, 2)
		}
		sv := 0
		if r.Chance(1, 3) {
			sv = r.Intn(5)
		}
		expMode := 0
		if r.Chance(1, 4) {
			expMode = r.Intn(4)
		}
		s := fromStates(n, kind, acc, th10, st, claim, sv, expMode)
		if kind == kStuck {
			switch r.Intn(3) {
			case 0:
				s.RawFin = false
			case 1:
				s.Th10 = 1000
			}
		}
		nm := 0
		if r.Chance(1, 2) {
			nm = r.Range(1, 2)
		}
		tag := fmt.Sprintf("rand/%s/k%d/th%d/claim%d", stTag(st), kind, th10, claim)
		for j := 0; j < nm; j++ {
			tag += "/" + mutate(r, n, s)
		}
		s.Tag = tag
		add(n, "random", s)
	}
}

func mutate(r *vh.Rand, n int, s *vpShape) string {
	pickSF := func() int {
		if len(s.SFs) == 0 {
			return -1
		}
		return r.Intn(len(s.SFs))
	}
	pickE := func() int {
		if len(s.Expels) == 0 {
			return -1
		}
		return r.Intn(len(s.Expels))
	}
	switch m := r.Intn(28); m {
	case 0:
		s.SFs = append(s.SFs, sfShape{signShape: ms(outBase + r.Intn(nOuts)), Fact: r.Intn(2)})
		return "outsider-voter"
	case 1:
		if i := pickSF(); i >= 0 {
			s.SFs[i].Alt = true
		}
		return "voter-wrong-key"
	case 2:
		if i := pickSF(); i >= 0 {
			s.SFs[i].BadSig = true
		}
		return "voter-bad-signature"
	case 3:
		if i := pickSF(); i >= 0 {
			d := s.SFs[i]
			if r.Bool() {
				d.Fact = 1 - d.Fact%2
			}
			s.SFs = append(s.SFs, d)
		}
		return "duplicate-voter"
	case 4:
		if i := pickSF(); i >= 0 {
			f := s.Facts[s.SFs[i].Fact]
			if r.Bool() {
				f.ROff = 1
			} else {
				f.HOff = 1
			}
			s.Facts = append(s.Facts, f)
			s.SFs[i].Fact = len(s.Facts) - 1
		}
		return "fact-other-point"
	case 5:
		if i := pickSF(); i >= 0 {
			f := s.Facts[s.SFs[i].Fact]
			f.Acc = !f.Acc
			s.Facts = append(s.Facts, f)
			s.SFs[i].Fact = len(s.Facts) - 1
		}
		return "fact-other-stage"
	case 6:
		s.Maj = 2
		return "majority-not-signed"
	case 7:
		s.Fin = false
		return "not-finished"
	case 8:
		s.Th10 = []int{509, 1001, 600, 1000, 0, 670}[r.Intn(6)]
		return fmt.Sprintf("threshold-%d", s.Th10)
	case 9:
		if i := pickE(); i >= 0 {
			s.Expels[i].End = s.H - 1
			s.Expels[i].Start = s.H - 3
		}
		return "expel-expired"
	case 10:
		if i := pickE(); i >= 0 {
			if r.Bool() {
				s.Expels[i].Start = 0
			} else {
				s.Expels[i].Start = s.Expels[i].End + 1
			}
		}
		return "expel-bad-heights"
	case 11:
		if i := pickE(); i >= 0 {
			s.Expels[i].Signs = append(s.Expels[i].Signs, ms(outBase+r.Intn(nOuts)))
		}
		return "expel-outsider-signer"
	case 12:
		if i := pickE(); i >= 0 && len(s.Expels[i].Signs) > 0 {
			s.Expels[i].Signs = append([]signShape{}, s.Expels[i].Signs...)
			s.Expels[i].Signs[r.Intn(len(s.Expels[i].Signs))].Alt = true
		}
		return "expel-signer-wrong-key"
	case 13:
		if i := pickE(); i >= 0 && len(s.Expels[i].Signs) > 0 {
			s.Expels[i].Signs = append([]signShape{}, s.Expels[i].Signs...)
			s.Expels[i].Signs[r.Intn(len(s.Expels[i].Signs))].BadSig = true
		}
		return "expel-bad-signature"
	case 14:
		if i := pickE(); i >= 0 {
			self := ms(s.Expels[i].Target)
			if r.Bool() {
				s.Expels[i].Signs = []signShape{self}
			} else {
				s.Expels[i].Signs = append(append([]signShape{}, s.Expels[i].Signs...), self)
			}
		}
		return "expel-self-signed"
	case 15:
		if i := pickE(); i >= 0 {
			d := s.Expels[i]
			d.Start++
			s.Expels = append(s.Expels, d)
		}
		return "duplicate-expel-target"
	case 16:
		if i := pickE(); i >= 0 {
			s.SFs = append(s.SFs, sfShape{signShape: ms(s.Expels[i].Target), Fact: 0})
		}
		return "expelled-node-votes"
	case 17:
		if i := pickE(); i >= 0 && len(s.Expels[i].Signs) > 0 {
			s.Expels[i].Signs = append([]signShape{}, s.Expels[i].Signs[1:]...)
		}
		return "expel-drop-signer"
	case 18:
		if i := pickSF(); i >= 0 {
			s.SFs = append(append([]sfShape{}, s.SFs[:i]...), s.SFs[i+1:]...)
		}
		return "drop-voter"
	case 19:
		if s.Maj >= 0 {
			s.Maj = -1
		} else {
			s.Maj = r.Intn(2)
		}
		return "flip-claim"
	case 20:
		if i := pickE(); i >= 0 {
			s.Expels[i].Signs = nil
		}
		return "expel-no-signs"
	case 21:
		s.Expels = nil
		return "no-expels"
	case 22:
		if i := pickE(); i >= 0 {
			s.Expels[i].Target = outBase + r.Intn(nOuts)
		}
		return "expel-outsider-target"
	case 23:
		s.SFs = nil
		return "no-sign-facts"
	case 24:
		s.SFs = append(s.SFs, sfShape{signShape: ms(aliasID(r.Intn(n), r.Range(1, nAlias))), Fact: r.Intn(2)})
		return "alias-voter"
	case 25:
		if i := pickSF(); i >= 0 && s.SFs[i].Node < outBase {
			s.SFs[i].Node = aliasID(s.SFs[i].Node, r.Range(1, nAlias))
		}
		return "voter-renamed-alias"
	case 26:
		if i := pickE(); i >= 0 {
			s.Expels[i].Signs = append(append([]signShape{}, s.Expels[i].Signs...), ms(aliasID(r.Intn(n), r.Range(1, nAlias))))
		}
		return "expel-alias-signer"
	default:
		if i := pickE(); i >= 0 && s.Expels[i].Target < outBase {
			s.Expels[i].Target = aliasID(s.Expels[i].Target, r.Range(1, nAlias))
		}
		return "expel-alias-target"
	}
}
