package main

import (
	"fmt"

	"github.com/spikeekips/mitum/util"
	"github.com/spikeekips/mitum/util/hint"
)

func main() {
	for _, p := range [][2]string{{"v1.0.0-a", "v1.0.0-b"}, {"v1.0.0-b", "v1.0.0-a"}, {"v1.0.0-1.12", "v1.0.0-1.13"}, {"v1.0.0-1.13", "v1.0.0-1.12"}, {"v1.0.0-alpha", "v1.0.0-beta"}, {"v1.0.0-beta", "v1.0.0-alpha"}, {"v1.0.0-alpha.1", "v1.0.0-alpha.2"}, {"v1.0.0-alpha.2", "v1.0.0-alpha.1"}, {"v1.0.0-12", "v1.0.0-13"}, {"v1.0.0-13", "v1.0.0-12"}, {"v1.0.0-2", "v1.0.0-13"},{"v1.0.0-x.2", "v1.0.0-x.13"}, {"v1.0.0-x.13", "v1.0.0-x.2"}} {
		a, b := util.EnsureParseVersion(p[0]), util.EnsureParseVersion(p[1])
		fmt.Println(p[0], p[1], a.Compare(b), a.IsValid(nil), b.IsValid(nil))
	}
	for _, s := range []string{"abc-v2-v1.0.0", "abc-v1.0.0-v2", "abc-v1", "abc-v1.2", "abc-v1.0.0+meta", "abc-v1.0.0-v1+b-v2", "abc-v01.0.0", "abc-v1.0.0-01", "a-v1.2.3\x00\x00", " abc-v1.2.3 ", "abc-v1.0.0-", "ab-v18446744073709551616.0.0", "ab-v1.0.0-rc.1-v3"} {
		h, err := hint.ParseHint(s)
		fmt.Printf("%q -> type=%q ver=%q str=%q err=%v valid=%v\n", s, h.Type(), h.Version().String(), h.String(), err, h.IsValid(nil))
	}
	for _, t := range []string{"abc-v2", "a-v", "ab-v0x", "abc-v1.0.0"} {
		fmt.Println(t, hint.Type(t).IsValid(nil))
	}
	// cache poison
	st := hint.NewCompatibleSet[string](10)
	hi := hint.MustNewHint("abc-v1.5.0")
	lo := hint.MustNewHint("abc-v1.2.0")
	fmt.Println(st.Add(hi, "hi"), st.Add(lo, "lo"))
	v, found := st.Find(lo)
	fmt.Println("find lo:", v, found)
	v, found = st.Find(hi)
	fmt.Println("find hi:", v, found)
	v, found = st.Find(lo)
	fmt.Println("find lo:", v, found)
}
