// c31: hint strings are an unambiguous encoding; CompatibleSet lookup finds the highest registered version.
//
// Real code exercised: hint.Type.IsValid, hint.NewHint, Hint.String/IsValid, hint.ParseHint,
// hint.EnsureParseHint, util.EnsureParseVersion, util.Version.Compare, hint.CompatibleSet
// (Add, Find, FindByString, FindBytType, FindBytTypeString).
//   - property oracle (independent of the Coq model): print-then-parse returns the same valid hint for
//     every valid (type, version); Version.Compare is semver precedence (reference: golang.org/x/mod/semver);
//     every Find/FindByString of every random history returns the registered entry with the same type
//     and major and the highest registered version (cache-free reference in Go);
//   - correspondence: the same inputs/histories with the observed outputs are written as cases for the
//     Gallina model (coq/C31/Model.v: check).
package main

import (
	"encoding/hex"
	"fmt"
	"strings"

	"github.com/spikeekips/mitum/util"
	"github.com/spikeekips/mitum/util/hint"
	stdsemver "golang.org/x/mod/semver"
	"verifharness/vh"
)

type replay struct {
	Kind    string   `json:"kind"` // roundtrip | compare | set
	Type    string   `json:"type,omitempty"`
	Version string   `json:"version,omitempty"`
	A       string   `json:"a,omitempty"`
	B       string   `json:"b,omitempty"`
	Size    int      `json:"size,omitempty"`
	Ops     []setOp  `json:"ops,omitempty"`
	At      int      `json:"at,omitempty"`
	Note    string   `json:"note,omitempty"`
	Strings []string `json:"strings,omitempty"`
}

type setOp struct {
	Op    string `json:"op"`              // add | find | findstr | findtype | findtypestr
	Type  string `json:"type,omitempty"`  // add/find: the hint is NewHint(Type, EnsureParseVersion(Ver))
	Ver   string `json:"ver,omitempty"`   //
	Value uint64 `json:"value,omitempty"` // add
	S     string `json:"s,omitempty"`     // findstr / findtype / findtypestr
}

// ---------------------------------------------------------------- Coq rendering

func hx(s string) string { return "(hx \"" + hex.EncodeToString([]byte(s)) + "\")" }

func printable(s string) bool {
	for _, c := range []byte(s) {
		if c < 32 || c > 126 || c == '"' {
			return false
		}
	}
	return true
}

// qs renders a string as a Coq term: literal when printable, hex otherwise.
func qs(s string) string {
	if printable(s) {
		return "\"" + s + "\""
	}
	return hx(s)
}

func coqBool(b bool) string {
	if b {
		return "true"
	}
	return "false"
}

func coqVer(v util.Version) string {
	return fmt.Sprintf("(mkVer %d %d %d %s)", v.Major(), v.Minor(), v.Patch(), qs(v.Prerelease()))
}

func coqSHint(h hint.Hint) string {
	return fmt.Sprintf("(mkSHint %s %s %s %s)", qs(h.Type().String()), coqVer(h.Version()), qs(h.String()), coqBool(h.IsValid(nil) == nil))
}

// vtable: text -> String() of EnsureParseVersion(text), for every suffix after a '-' of the candidates
func vtable(cands ...string) string {
	seen := map[string]bool{}
	var items []string
	for _, s := range cands {
		for i := 0; i < len(s); i++ {
			if s[i] != '-' {
				continue
			}
			t := s[i+1:]
			if seen[t] {
				continue
			}
			seen[t] = true
			items = append(items, fmt.Sprintf("(%s,%s)", qs(t), qs(util.EnsureParseVersion(t).String())))
		}
	}
	return "[" + strings.Join(items, ";") + "]"
}

func goTrim(s string) string { // what parseHint does before splitting (for the vtable only)
	return strings.TrimSpace(strings.TrimRight(s, "\x00"))
}

func obsHint(h hint.Hint) string {
	return fmt.Sprintf("(Some (%s,%s))", qs(h.Type().String()), qs(h.Version().String()))
}

// ---------------------------------------------------------------- reference semver precedence

func refCompare(a, b util.Version) int { return stdsemver.Compare(a.String(), b.String()) }

// ---------------------------------------------------------------- main

var versionTexts = []string{
	"v0.0.1", "v1.0.0", "v1.2.3", "v2.0.0-v1.0.0", "v1.0.0-v1", "v1.0.0-alpha.1", "v1.0.0-rc.1-v3",
	"v1.0.0+meta", "v1.0.0-v1+b-v2", "v10.20.30", "v1.0.0-0", "v1.0.0-a-v2b", "v0.0.0", "v3", "v1.2",
	"v1.0.0-x-v1.y-v2", "v1.2.3+build.20250101-v9", // the last one is longer than MaxVersionLength: invalid hint
}

func main() {
	o := vh.ParseFlags()
	res := vh.NewResult("types: exhaustive over the alphabet {a,0,-,_,+,v} up to length 6 (7 in thorough) plus random longer ones, each valid type printed with every version of a pool (incl. prereleases/metadata containing -v<digit>) and parsed back through hint.NewHint/String/ParseHint/IsValid; Version.Compare on all pairs of a pool of tricky versions against x/mod semver precedence; random Add/Find/FindByString/FindBytType/FindBytTypeString histories on the real CompatibleSet against a cache-free reference (sparse ones over 3 types x 18 versions, and dense ones of 40-60 ops over 1-2 types x majors 1..3 x minors 0..2 where the next operation often reuses the previous hint); non-trivial = valid type (round trip), differing versions (compare), a lookup whose type and major are registered (set)")
	r := vh.NewRand(o.Seed)
	cases := &vh.Cases{Import: "From MV Require Import C31.Model.", Type: "case", CheckFn: "check", Shard: 400}

	if o.Replay != "" {
		var rp replay
		if err := vh.ReadReplay(o.Replay, &rp); err == nil && rp.Kind != "" {
			replayOne(rp)
		}
	}

	var versions []util.Version
	for _, t := range versionTexts {
		v := util.EnsureParseVersion(t)
		if v.IsValid(nil) != nil {
			panic("pool version invalid: " + t)
		}
		versions = append(versions, v)
	}

	// ------------------------------------------------------------ 1. types, round trip
	roundtrip := func(t string, model bool) {
		ty := hint.Type(t)
		tvalid := ty.IsValid(nil) == nil
		if model {
			cases.Add(fmt.Sprintf("CType %s %s", qs(t), coqBool(tvalid)), map[string]any{"kind": "type", "type": t, "valid": tvalid})
		}
		res.Count("type:"+t, tvalid)
		if !tvalid {
			return
		}
		for vi, v := range versions {
			h := hint.NewHint(ty, v)
			hvalid := h.IsValid(nil) == nil
			s := h.String()
			res.Evaluations++
			rp := replay{Kind: "roundtrip", Type: t, Version: v.String()}
			if s != t+"-"+v.String() {
				res.Fail("hint-string", fmt.Sprintf("NewHint(%q,%s).String() = %q", t, v, s), rp)
			}
			p, err := hint.ParseHint(s)
			if hvalid {
				switch {
				case err != nil:
					res.Fail("roundtrip-error", fmt.Sprintf("valid hint %q does not parse: %v", s, err), rp)
				case p.Type() != ty || p.Version().String() != v.String() || p.Version().Compare(v) != 0 || !p.Equal(h) || p.String() != s:
					cl := "roundtrip-differs"
					if p.IsValid(nil) == nil {
						cl = "parse-returns-other-valid-hint"
					}
					res.Fail(cl, fmt.Sprintf("hint (%q, %s) prints %q which parses to (%q, %s)", t, v, s, p.Type(), p.Version()), rp)
				case p.IsValid(nil) != nil:
					res.Fail("roundtrip-differs", fmt.Sprintf("valid hint %q parses to an invalid hint", s), rp)
				}
				// EnsureParseHint / UnmarshalText path
				if e := hint.EnsureParseHint(s); !e.Equal(h) || e.String() != s {
					res.Fail("roundtrip-differs", fmt.Sprintf("EnsureParseHint(%q) = (%q,%s)", s, e.Type(), e.Version()), rp)
				}
			}
			if model && (vi < 3 || (len(t) <= 3 && vi < 8)) {
				obs := "None"
				if err == nil {
					obs = obsHint(p)
				}
				cases.Add(fmt.Sprintf("CParse %s %s %s", qs(s), vtable(s), obs), map[string]any{"kind": "parse", "s": s})
				cases.Add(fmt.Sprintf("CValid %s %s %s %s", qs(t), qs(v.String()), coqBool(v.IsValid(nil) == nil), coqBool(hvalid)), map[string]any{"kind": "valid", "type": t, "version": v.String()})
			}
		}
	}
	alpha := "a0-_+v"
	maxLen := o.Pick(6, 7)
	ntypes := 0
	var gen func(prefix string)
	gen = func(prefix string) {
		if len(prefix) > 0 {
			ntypes++
			// every type up to length 3 goes to the model; longer ones sampled (those around a separator always)
			model := len(prefix) <= 3 || strings.Contains(prefix, "-v0") && ntypes%o.Pick(7, 41) == 0 || ntypes%o.Pick(97, 251) == 0
			roundtrip(prefix, model)
		}
		if len(prefix) == maxLen {
			return
		}
		for i := 0; i < len(alpha); i++ {
			gen(prefix + string(alpha[i]))
		}
	}
	gen("")
	res.Distribution["exhaustive_types"] = ntypes
	res.Exhaustive = true

	// corpus: the formerly ambiguous types and boundary lengths
	for _, t := range []string{"abc-v2", "abc-v2-v1", "ab-v0x", "a-v", "showme-ver", "sho-vwme", "sh-w_m+e", "showme-v0.1", " showme", "shOwme", "sa", "a",
		strings.Repeat("a", 100), strings.Repeat("a", 101), strings.Repeat("a", 97) + "-v1", strings.Repeat("a", 99) + "-", "a--v1-b", "0-v9", "v-v", "-v1", "a-v1", "ab-V1", "ab-v"} {
		roundtrip(t, true)
		res.Dist("corpus_types")
	}
	// random longer types
	chars := "abcdefghijklmnopqrstuvwxyz0123456789-_+"
	for i := 0; i < o.Pick(300, 5000); i++ {
		n := r.Range(7, 40)
		if r.Chance(1, 10) {
			n = r.Range(95, 102)
		}
		b := make([]byte, n)
		for j := range b {
			switch {
			case r.Chance(1, 50):
				b[j] = "A .v/"[r.Intn(5)]
			default:
				b[j] = chars[r.Intn(len(chars))]
			}
		}
		if r.Chance(1, 3) && n > 6 {
			copy(b[r.Intn(n-3):], "-v"+string(rune('0'+r.Intn(10))))
		}
		if r.Chance(1, 3) && n > 6 {
			copy(b[r.Intn(n-3):], "-v")
		}
		roundtrip(string(b), true)
		res.Dist("random_long_types")
	}

	// ------------------------------------------------------------ 2. arbitrary texts through ParseHint / EnsureParseHint
	texts := []string{"", "a", "abc", "abc-", "abc-v", "abc-v1", "abc-v1.2", " abc-v1.2.3 ", "abc-v1.2.3\x00\x00", "abc-v1.2.3 \x00", "abc-v1.2.3\x00 ", "\tabc-v1.2.3\n",
		"abc-v2-v1.0.0", "abc-v1.0.0-v2", "sho-v1.2.3wme-v1.2.3+incompatible", "sho-vwme-v1.2.3+incompatible", "abc-v01.0.0", "abc-v1.0.0-01", "-v1.0.0", "a-v1.0.0", "ab-v1", "ab-v",
		"abc-v1.0.0-", "ab-v18446744073709551616.0.0", "ab--v1.0.0", "ab-v1.0.0 x", "a b-v1.0.0", "AB-v1.0.0", "ab-V1.0.0", "ab-v1.0.0+", "ab-v1.0.0+a+b", "    ", "\x00\x00\x00\x00\x00\x00"}
	talpha := "ab-v01.+ \x00_"
	for i := 0; i < o.Pick(400, 8000); i++ {
		n := r.Range(0, 14)
		b := make([]byte, n)
		for j := range b {
			b[j] = talpha[r.Intn(len(talpha))]
		}
		if r.Chance(1, 2) {
			b = append(b, []byte("-v"+versionTexts[r.Intn(len(versionTexts))][1:])...)
		}
		if r.Chance(1, 5) {
			b = append(b, " \x00\n"[r.Intn(3)])
		}
		texts = append(texts, string(b))
	}
	seen := map[string]bool{}
	for _, s := range texts {
		if seen[s] {
			continue
		}
		seen[s] = true
		p, err := hint.ParseHint(s)
		obs := "None"
		if err == nil {
			obs = obsHint(p)
		}
		res.Count("text:"+s, err == nil)
		res.Dist("texts_parsed")
		cases.Add(fmt.Sprintf("CParse %s %s %s", qs(s), vtable(s, goTrim(s)), obs), map[string]any{"kind": "parse", "s": s})
		e := hint.EnsureParseHint(s)
		eobs := "None"
		if e.String() != "" || e.Type() != "" {
			eobs = obsHint(e)
		}
		cases.Add(fmt.Sprintf("CEnsure %s %s %s", qs(s), vtable(s), eobs), map[string]any{"kind": "ensure", "s": s})
		// oracle: a text that parses to a valid hint which prints back to a text that parses again must give the same hint (idempotence)
		if err == nil && p.IsValid(nil) == nil {
			q, err2 := hint.ParseHint(p.String())
			if err2 != nil || !q.Equal(p) || q.String() != p.String() {
				res.Fail("parse-returns-other-valid-hint", fmt.Sprintf("%q parses to valid hint %q, which parses to %q (err=%v)", s, p, q, err2), replay{Kind: "roundtrip", Type: p.Type().String(), Version: p.Version().String()})
			}
		}
	}

	// ------------------------------------------------------------ 3. Version.Compare
	cmpTexts := []string{"v1.0.0", "v1.0.0-a", "v1.0.0-b", "v1.0.0-alpha", "v1.0.0-beta", "v1.0.0-alpha.1", "v1.0.0-alpha.2", "v1.0.0-alpha.10", "v1.0.0-alpha.beta",
		"v1.0.0-1", "v1.0.0-2", "v1.0.0-10", "v1.0.0-12", "v1.0.0-13", "v1.0.0-1.12", "v1.0.0-1.13", "v1.0.0-x.2", "v1.0.0-x.13", "v1.0.0-rc.1", "v1.0.0-rc.1.1", "v1.0.0-beta.11", "v1.0.0-beta.2",
		"v1.0.0-v1", "v1.0.0-v2", "v1.0.0-0", "v1.0.0-a-b", "v1.0.0-a-c", "v1.0.0+m", "v1.0.0-a+m", "v1.0.1", "v1.1.0", "v2.0.0", "v0.9.9", "v1.0.1-a", "v1.2.3-beta0", "v1.2.3-beta.0", "v1.0.0-a.b.c", "v1.0.0-a.b", "v1.0.0-a1", "v1.0.0-1a"}
	idents := []string{"a", "b", "alpha", "beta", "rc", "0", "1", "2", "9", "10", "11", "100", "x-y", "v1", "a1", "1a", "-", "z"}
	for i := 0; i < o.Pick(60, 600); i++ {
		s := fmt.Sprintf("v%d.%d.%d", r.Intn(3), r.Intn(3), r.Intn(3))
		if k := r.Intn(4); k > 0 {
			var ids []string
			for j := 0; j < k; j++ {
				ids = append(ids, idents[r.Intn(len(idents))])
			}
			s += "-" + strings.Join(ids, ".")
		}
		if r.Chance(1, 5) {
			s += "+m" + fmt.Sprint(r.Intn(3))
		}
		cmpTexts = append(cmpTexts, s)
	}
	var cvs []util.Version
	cseen := map[string]bool{}
	for _, t := range cmpTexts {
		v := util.EnsureParseVersion(t)
		if v.IsValid(nil) != nil || cseen[v.String()] {
			continue
		}
		cseen[v.String()] = true
		cvs = append(cvs, v)
	}
	for i, a := range cvs {
		for j, b := range cvs {
			got, want := a.Compare(b), refCompare(a, b)
			res.Count("cmp:"+a.String()+"|"+b.String(), want != 0)
			if got != want {
				res.Fail("compare-not-semver-precedence", fmt.Sprintf("Compare(%s,%s) = %d, semver precedence %d", a, b, got, want), replay{Kind: "compare", A: a.String(), B: b.String()})
			}
			if got != -b.Compare(a) {
				res.Fail("compare-not-antisymmetric", fmt.Sprintf("Compare(%s,%s) = %d but Compare(%s,%s) = %d", a, b, got, b, a, b.Compare(a)), replay{Kind: "compare", A: a.String(), B: b.String()})
			}
			if (i < 40 && j < 40) || (i+j)%o.Pick(7, 29) == 0 {
				cases.Add(fmt.Sprintf("CCompare %s %s (%d)%%Z", coqVer(a), coqVer(b), got), map[string]any{"kind": "compare", "a": a.String(), "b": b.String(), "impl": got})
			}
		}
	}
	res.Distribution["compare_versions"] = len(cvs)

	// ------------------------------------------------------------ 4. CompatibleSet histories
	corpus := [][]setOp{
		{{Op: "add", Type: "abc", Ver: "v1.5.0", Value: 1}, {Op: "add", Type: "abc", Ver: "v1.2.0", Value: 2}, {Op: "find", Type: "abc", Ver: "v1.2.0"}, {Op: "find", Type: "abc", Ver: "v1.5.0"}, {Op: "find", Type: "abc", Ver: "v1.2.0"}},
		{{Op: "add", Type: "abc", Ver: "v1.0.0-a", Value: 1}, {Op: "add", Type: "abc", Ver: "v1.0.0-b", Value: 2}, {Op: "find", Type: "abc", Ver: "v1.0.0"}, {Op: "findtype", S: "abc"}},
		{{Op: "add", Type: "abc", Ver: "v1.0.0", Value: 1}, {Op: "add", Type: "xyz", Ver: "v1.0.0", Value: 2}, {Op: "findtypestr", S: "abc-v1.0.0"}, {Op: "find", Type: "abc", Ver: "v1.0.0"}, {Op: "findstr", S: "abc"}, {Op: "findtype", S: "abc"}},
		{{Op: "find", Type: "abc", Ver: "v1.2.0"}, {Op: "add", Type: "abc", Ver: "v1.5.0", Value: 1}, {Op: "find", Type: "abc", Ver: "v1.2.0"}, {Op: "findstr", S: " abc-v1 "}, {Op: "findstr", S: "abc-v1"}, {Op: "add", Type: "abc", Ver: "v1.5.0", Value: 9}, {Op: "add", Type: "abc", Ver: "v1.5.0+m", Value: 9}, {Op: "find", Type: "abc", Ver: "v1.9.9"}},
		{{Op: "add", Type: "abc", Ver: "v1.0.0-1.12", Value: 1}, {Op: "add", Type: "abc", Ver: "v1.0.0-1.13", Value: 2}, {Op: "find", Type: "abc", Ver: "v1.0.0"}, {Op: "add", Type: "abc", Ver: "v2.0.0", Value: 3}, {Op: "findtype", S: "abc"}, {Op: "findtypestr", S: "abc"}, {Op: "findtypestr", S: "ABC"}, {Op: "findtypestr", S: "ABC"}},
	}
	corpus = append(corpus,
		// stale cache across majors: the head is per type, entries are per (type, major)
		[]setOp{{Op: "add", Type: "showme", Ver: "v2.0.0", Value: 1}, {Op: "find", Type: "showme", Ver: "v1.0.0"}, {Op: "add", Type: "showme", Ver: "v1.0.0", Value: 2}, {Op: "find", Type: "showme", Ver: "v1.0.0"}},
		[]setOp{{Op: "add", Type: "showme", Ver: "v1.0.0", Value: 1}, {Op: "add", Type: "showme", Ver: "v2.0.0", Value: 2}, {Op: "find", Type: "showme", Ver: "v1.0.0"}, {Op: "add", Type: "showme", Ver: "v1.1.0", Value: 3}, {Op: "find", Type: "showme", Ver: "v1.0.0"}, {Op: "findstr", S: "showme-v1.0.0"}},
		[]setOp{{Op: "add", Type: "showme", Ver: "v3.0.0", Value: 1}, {Op: "findstr", S: "showme-v2.1.0"}, {Op: "add", Type: "showme", Ver: "v2.0.0", Value: 2}, {Op: "findstr", S: "showme-v2.1.0"}, {Op: "add", Type: "showme", Ver: "v2.2.0-rc.1", Value: 3}, {Op: "findstr", S: "showme-v2.1.0"}, {Op: "add", Type: "showme", Ver: "v2.2.0", Value: 4}, {Op: "findstr", S: "showme-v2.1.0"}},
	)
	for _, ops := range corpus {
		for _, size := range []int{10, 0} {
			runSet(res, cases, size, ops, true)
		}
		res.Dist("corpus_histories")
	}
	// known finding (open): the unconditional statement is false. Replayed on the real code every run.
	// An INVALID hint whose String() equals a text that parses to a registered (type, major) poisons the
	// one cache slot: Find(invalid) caches `false` under that text, FindByString(text) then answers not found.
	{
		ops := []setOp{{Op: "add", Type: "abc", Ver: "v2.0.0", Value: 7}, {Op: "find", Type: "abc-v2", Ver: "v1.0.0"}, {Op: "findstr", S: "abc-v2-v1.0.0"}}
		st := hint.NewCompatibleSet[uint64](10)
		_ = st.Add(hint.NewHint("abc", util.EnsureParseVersion("v2.0.0")), 7)
		bad := hint.NewHint("abc-v2", util.EnsureParseVersion("v1.0.0"))
		_, _ = st.Find(bad)
		p, perr := hint.ParseHint("abc-v2-v1.0.0")
		_, v, found, err := st.FindByString("abc-v2-v1.0.0")
		res.Evaluations++
		if perr == nil && err == nil && bad.IsValid(nil) != nil && p.Type() == "abc" && p.Version().Major() == 2 && !(found && v == 7) {
			res.Fail("lookup-poisoned-by-invalid-hint-string", fmt.Sprintf("Add(abc-v2.0.0,7); Find(invalid hint %q); FindByString(%q) = (%d,%v) but (abc, major 2) is registered with 7", bad.String(), "abc-v2-v1.0.0", v, found), replay{Kind: "set", Size: 10, Ops: ops, At: 2})
		}
		runSet(res, cases, 10, ops, true) // undisciplined: compared with the model, not judged by the generic oracle
		res.Dist("known_finding_witness")
	}
	stypes := []string{"abc", "ab-c", "x_y", "abc-v"}
	sversions := []string{"v0.1.0", "v1.0.0", "v1.2.0", "v1.5.0", "v1.5.0+m", "v1.0.0-a", "v1.0.0-b", "v1.0.0-alpha.1", "v1.0.0-alpha.2", "v1.0.0-alpha.10", "v1.0.0-1.12", "v1.0.0-1.13", "v1.0.0-v1", "v2.0.0", "v2.0.0-rc.1", "v2.1.0", "v1.0.0-x.2", "v1.0.0-x.13"}
	nh := o.Pick(250, 3000)
	for i := 0; i < nh; i++ {
		n := r.Range(3, 24)
		nt := r.Range(1, 3) // fewer types => more collisions on (type, major)
		var ops []setOp
		val := uint64(0)
		pick := func() (string, string) {
			t := stypes[r.Intn(nt)]
			v := sversions[r.Intn(len(sversions))]
			if r.Chance(1, 25) {
				t = []string{"abc-v2", "A", "a"}[r.Intn(3)] // invalid types
			}
			if r.Chance(1, 25) {
				v = []string{"", "1.0.0", "v1.2.3+build.20250101-v9"}[r.Intn(3)] // invalid / too long versions
			}
			return t, v
		}
		for j := 0; j < n; j++ {
			t, v := pick()
			switch k := r.Intn(20); {
			case k < 8:
				val++
				ops = append(ops, setOp{Op: "add", Type: t, Ver: v, Value: val})
			case k < 14:
				ops = append(ops, setOp{Op: "find", Type: t, Ver: v})
			case k < 17:
				s := t + "-" + v
				switch r.Intn(6) {
				case 0:
					s = " " + s + " "
				case 1:
					s = t + "-v" + fmt.Sprint(r.Intn(3)) // short version text
				case 2:
					s = t // a bare type
				}
				ops = append(ops, setOp{Op: "findstr", S: s})
			case k < 19:
				ops = append(ops, setOp{Op: "findtype", S: t})
			default:
				s := t
				if r.Chance(1, 3) {
					s = t + "-" + v
				}
				ops = append(ops, setOp{Op: "findtypestr", S: s})
			}
		}
		size := 10
		if r.Chance(1, 5) {
			size = 0
		}
		runSet(res, cases, size, ops, true)
		if size == 0 {
			res.Dist("histories_cache_off")
		} else {
			res.Dist("histories_cache_on")
		}
	}

	// dense histories over a tiny universe: 1-2 types x majors 1..3 x minors 0..2 (+ a prerelease), >= 40 ops, and the
	// next operation often reuses the previous hint, so that "look up, add something that changes the answer, look up the
	// very same string again" (with nothing in between that would evict the one cache slot) happens in every history,
	// with adds in descending and mixed major order.
	dtypes := []string{"showme", "find-me"}
	nd := o.Pick(250, 3000)
	for i := 0; i < nd; i++ {
		n := r.Range(40, 60)
		nt := r.Range(1, 2)
		var ops []setOp
		val := uint64(0)
		lt, lv := "", ""
		for j := 0; j < n; j++ {
			t := dtypes[r.Intn(nt)]
			v := fmt.Sprintf("v%d.%d.0", r.Range(1, 3), r.Range(0, 2))
			if r.Chance(1, 8) {
				v += []string{"-rc.1", "-rc.2", "+m"}[r.Intn(3)]
			}
			switch k := r.Intn(10); {
			case lt != "" && k < 4: // the very same hint again
				t, v = lt, lv
			case lt != "" && k < 6: // same type and major, another minor
				t = lt
				v = lv[:strings.Index(lv, ".")] + fmt.Sprintf(".%d.0", r.Range(0, 2))
			}
			lt, lv = t, v
			switch k := r.Intn(20); {
			case k < 8:
				val++
				ops = append(ops, setOp{Op: "add", Type: t, Ver: v, Value: val})
			case k < 15:
				ops = append(ops, setOp{Op: "find", Type: t, Ver: v})
			case k < 18:
				ops = append(ops, setOp{Op: "findstr", S: t + "-" + v})
			case k < 19:
				ops = append(ops, setOp{Op: "findtype", S: t})
			default:
				ops = append(ops, setOp{Op: "findtypestr", S: t})
			}
		}
		size := 10
		if r.Chance(1, 10) {
			size = 0
		}
		runSet(res, cases, size, ops, i%o.Pick(1, 2) == 0)
		res.Dist("dense_histories")
	}

	res.ModelCases = cases.Len()
	if err := cases.Write(o.Out); err != nil {
		panic(err)
	}
	res.Write(o.Out)
}

type regEntry struct {
	h hint.Hint
	v uint64
}

// runSet runs one history on the real CompatibleSet, checks every lookup by hint against the
// cache-free reference, and adds the history as a model case.
func runSet(res *vh.Result, cases *vh.Cases, size int, ops []setOp, model bool) {
	st := hint.NewCompatibleSet[uint64](size)
	var reg []regEntry
	var coqOps, coqOuts, ptab []string
	pseen := map[string]bool{}
	expect := func(h hint.Hint) (uint64, bool) {
		var best *regEntry
		for i := range reg {
			e := &reg[i]
			if e.h.Type() != h.Type() || e.h.Version().Major() != h.Version().Major() {
				continue
			}
			if best == nil || refCompare(e.h.Version(), best.h.Version()) > 0 {
				best = e
			}
		}
		if best == nil {
			return 0, false
		}
		return best.v, true
	}
	// the discipline the theorem C31_find_is_highest asks of a history (it holds whenever the hints are valid):
	// equal String() => equal (type, major); a FindByString text equal to a hint's String() parses to that (type, major)
	var hs []hint.Hint
	var texts []string
	allValid := true
	for _, op := range ops {
		switch op.Op {
		case "add", "find":
			hs = append(hs, hint.NewHint(hint.Type(op.Type), util.EnsureParseVersion(op.Ver)))
		case "findstr":
			texts = append(texts, op.S)
			if p, err := hint.ParseHint(op.S); err == nil {
				hs = append(hs, p)
			}
		}
	}
	disciplined := true
	for _, a := range hs {
		if a.IsValid(nil) != nil {
			allValid = false
		}
		for _, b := range hs {
			if a.String() == b.String() && (a.Type() != b.Type() || a.Version().Major() != b.Version().Major()) {
				disciplined = false
			}
		}
		for _, t := range texts {
			if a.String() == t {
				if p, err := hint.ParseHint(t); err != nil || p.Type() != a.Type() || p.Version().Major() != a.Version().Major() {
					disciplined = false
				}
			}
		}
	}
	if disciplined {
		res.Dist("histories_disciplined")
	} else {
		res.Dist("histories_undisciplined(model only)")
		if allValid {
			res.Fail("valid-hints-not-disciplined", "a history of valid hints has two hints with the same String() and different (type, major), or a hint whose String() does not parse back to it", replay{Kind: "set", Size: size, Ops: ops})
		}
	}
	for i, op := range ops {
		rp := replay{Kind: "set", Size: size, Ops: ops[:i+1], At: i}
		switch op.Op {
		case "add":
			h := hint.NewHint(hint.Type(op.Type), util.EnsureParseVersion(op.Ver))
			err := st.Add(h, op.Value)
			if err == nil {
				reg = append(reg, regEntry{h, op.Value})
				if h.IsValid(nil) != nil {
					res.Fail("invalid-hint-registered", fmt.Sprintf("Add(%q) accepted an invalid hint", h), rp)
				}
			}
			coqOps = append(coqOps, fmt.Sprintf("OAdd %s %d", coqSHint(h), op.Value))
			coqOuts = append(coqOuts, "RAdd "+coqBool(err == nil))
		case "find":
			h := hint.NewHint(hint.Type(op.Type), util.EnsureParseVersion(op.Ver))
			v, found := st.Find(h)
			wv, wfound := expect(h)
			res.Count(fmt.Sprintf("%v@%d", ops, i), wfound)
			if disciplined && (found != wfound || (found && v != wv)) {
				res.Fail("find-not-highest", fmt.Sprintf("Find(%q) = (%d,%v), highest registered entry with the same type and major is (%d,%v)", h, v, found, wv, wfound), rp)
			}
			coqOps = append(coqOps, "OFind "+coqSHint(h))
			coqOuts = append(coqOuts, fmt.Sprintf("RFind %s %d", coqBool(found), v))
		case "findstr":
			p, perr := hint.ParseHint(op.S)
			if !pseen[op.S] {
				pseen[op.S] = true
				if perr != nil {
					ptab = append(ptab, fmt.Sprintf("(%s,None)", qs(op.S)))
				} else {
					ptab = append(ptab, fmt.Sprintf("(%s,Some %s)", qs(op.S), coqSHint(p)))
				}
			}
			ht, v, found, err := st.FindByString(op.S)
			if (err != nil) != (perr != nil) {
				res.Fail("findbystring-error", fmt.Sprintf("FindByString(%q) err=%v but ParseHint err=%v", op.S, err, perr), rp)
			} else if err == nil {
				wv, wfound := expect(p)
				res.Count(fmt.Sprintf("%v@%d", ops, i), wfound)
				if disciplined && (found != wfound || (found && v != wv)) {
					res.Fail("find-not-highest", fmt.Sprintf("FindByString(%q) = (%d,%v), highest registered entry with the same type and major is (%d,%v)", op.S, v, found, wv, wfound), rp)
				}
			}
			hs := ""
			if err == nil {
				hs = ht.String()
			}
			if err != nil || !found {
				v = 0
			}
			coqOps = append(coqOps, "OFindStr "+qs(op.S))
			coqOuts = append(coqOuts, fmt.Sprintf("RRes (%s,%s,%s,%d)", coqBool(err != nil), qs(hs), coqBool(found), v))
		case "findtype":
			ht, v, found := st.FindBytType(hint.Type(op.S))
			res.Evaluations++
			coqOps = append(coqOps, "OFindType "+qs(op.S))
			coqOuts = append(coqOuts, fmt.Sprintf("RRes (false,%s,%s,%d)", qs(ht.String()), coqBool(found), v))
		case "findtypestr":
			ht, v, found, err := st.FindBytTypeString(op.S)
			res.Evaluations++
			hs := ""
			if err == nil {
				hs = ht.String()
			}
			coqOps = append(coqOps, "OFindTypeStr "+qs(op.S))
			coqOuts = append(coqOuts, fmt.Sprintf("RRes (%s,%s,%s,%d)", coqBool(err != nil), qs(hs), coqBool(found), v))
		}
	}
	if model {
		term := fmt.Sprintf("(CSet (%d)%%Z [%s] [%s] [%s])%%N", size, strings.Join(ptab, ";"), strings.Join(coqOps, ";"), strings.Join(coqOuts, ";"))
		cases.Add(term, map[string]any{"kind": "set", "size": size, "ops": ops})
	}
}

func replayOne(rp replay) {
	switch rp.Kind {
	case "roundtrip":
		h := hint.NewHint(hint.Type(rp.Type), util.EnsureParseVersion(rp.Version))
		p, err := hint.ParseHint(h.String())
		fmt.Printf("replay: type %q valid=%v; hint prints %q (valid=%v); parses to (%q, %s) err=%v valid=%v\n", rp.Type, hint.Type(rp.Type).IsValid(nil) == nil, h.String(), h.IsValid(nil) == nil, p.Type(), p.Version(), err, p.IsValid(nil) == nil)
	case "compare":
		a, b := util.EnsureParseVersion(rp.A), util.EnsureParseVersion(rp.B)
		fmt.Printf("replay: Compare(%s,%s) = %d; Compare(%s,%s) = %d; semver precedence %d\n", a, b, a.Compare(b), b, a, b.Compare(a), refCompare(a, b))
	case "set":
		res := vh.NewResult("replay")
		runSet(res, &vh.Cases{}, rp.Size, rp.Ops, false)
		for _, f := range res.Failures {
			fmt.Printf("replay: %s: %s\n", f.Class, f.Desc)
		}
		if len(res.Failures) == 0 {
			fmt.Println("replay: history passes the oracle")
		}
	}
}
