// c07: proposer selection is independent of the listing order and picks a suffrage member.
//
// Real code exercised:
//   - isaac.BlockBasedProposerSelector.Select, directly, on lists as given (awkward heights/rounds/hashes)
//   - isaac.BaseProposalSelector.Select (-> selectInternal -> getNodes (address sort) -> selectFromProposer
//     -> filterDeadNodes -> proposalFromOthers) through the exported args struct: GetNodesFunc hands out the
//     suffrage in a chosen listing order, ProposerSelectFunc is the real BlockBasedProposerSelector.Select
//     wrapped by a recorder, the pool stub delivers a proposal only for non-failing proposers.
//
// Oracle (the property's own statement on real observables): the same (point, previous block, suffrage,
// failing set) run by different local nodes with differently ordered listings gives the same selections
// and the same final proposer; every selected node is a member of the suffrage (and not one that was
// already filtered out).
package main

import (
	"context"
	"encoding/hex"
	"fmt"
	"sort"
	"strings"
	"sync"
	"time"

	"github.com/pkg/errors"
	"github.com/spikeekips/mitum/base"
	"github.com/spikeekips/mitum/isaac"
	"github.com/spikeekips/mitum/util"
	"github.com/spikeekips/mitum/util/valuehash"
	"verifharness/vh"
)

// ---------------------------------------------------------------- addresses with arbitrary bytes

type rawAddr struct{ s string }

func (a rawAddr) String() string       { return a.s }
func (a rawAddr) Bytes() []byte        { return []byte(a.s) }
func (a rawAddr) IsValid([]byte) error { return nil }
func (a rawAddr) Equal(b base.Address) bool {
	return b != nil && a.s == b.String()
}

// ---------------------------------------------------------------- case description (also the replay format)

type nodeD struct {
	Addr string `json:"addr"` // hex of Address().String()
	Raw  bool   `json:"raw"`  // rawAddr (arbitrary bytes) or base.StringAddress (String() = name+"sas")
	Key  int    `json:"key"`  // index into the key pool
}

type caseD struct {
	Flow    bool     `json:"flow"`
	Height  int64    `json:"height"`
	Round   uint64   `json:"round"`
	Prev    string   `json:"prev"`    // hex
	Nodes   []nodeD  `json:"nodes"`   // first listing
	Perms   [][]int  `json:"perms"`   // further listings, as permutations of Nodes
	Failing []string `json:"failing"` // hex addresses that deliver no proposal
	// which listing is also given to the model (harness bookkeeping)
	ModelListing int `json:"model_listing"`
	// a history: the calls, in order, made on ONE long-lived selector (each with its own point, previous block,
	// suffrage listing = Nodes, failing set); the other fields of the outer case are unused then
	Hist []caseD `json:"hist,omitempty"`
}

var keys []base.Publickey

func mkAddr(d nodeD) base.Address {
	b, err := hex.DecodeString(d.Addr)
	if err != nil {
		panic(err)
	}
	if d.Raw {
		return rawAddr{s: string(b)}
	}
	s := string(b)
	return base.NewStringAddress(strings.TrimSuffix(s, base.StringAddressHint.Type().String()))
}

func mkNodes(ds []nodeD) []base.Node {
	ns := make([]base.Node, len(ds))
	for i, d := range ds {
		a := mkAddr(d)
		if hex.EncodeToString([]byte(a.String())) != d.Addr {
			panic("address does not round-trip: " + d.Addr)
		}
		ns[i] = base.NewBaseNode(base.DummyNodeHint, keys[d.Key], a)
	}
	return ns
}

func hexAddr(a base.Address) string { return hex.EncodeToString([]byte(a.String())) }

// ---------------------------------------------------------------- stubs around the real selector

type pool struct {
	failing map[string]bool
	sync.Mutex
	asked []string // proposer addresses asked, consecutive duplicates dropped
}

func (*pool) Proposal(util.Hash) (base.ProposalSignFact, bool, error) { return nil, false, nil }
func (*pool) ProposalBytes(util.Hash) (string, []byte, []byte, bool, error) {
	return "", nil, nil, false, nil
}
func (p *pool) ProposalByPoint(point base.Point, proposer base.Address, prev util.Hash) (base.ProposalSignFact, bool, error) {
	h := hexAddr(proposer)
	p.Lock()
	if len(p.asked) == 0 || p.asked[len(p.asked)-1] != h {
		p.asked = append(p.asked, h)
	}
	p.Unlock()
	if p.failing[h] {
		return nil, false, nil
	}
	return isaac.NewProposalSignFact(isaac.NewProposalFact(point, proposer, prev, nil)), true, nil
}
func (*pool) SetProposal(base.ProposalSignFact) (bool, error) { return true, nil }

type selCall struct {
	In  []string // addresses of the list handed to the selector
	Out string
	Key string // public key of the selected node
}

type flowObs struct {
	Sel   []selCall
	Asked []string
	Final string // proposer of the returned proposal
	Err   string
}

// liveSel is one BaseProposalSelector that can serve many Select calls (a node keeps one for its whole life);
// the stubs read the inputs of the call in progress.
type liveSel struct {
	ps      *isaac.BaseProposalSelector
	args    *isaac.BaseProposalSelectorArgs
	mu      sync.Mutex
	listing []nodeD  // what GetNodesFunc returns for the call in progress
	sel     []selCall // ProposerSelectFunc calls of the call in progress
	asks    []int64   // heights GetNodesFunc was asked for
}

func newLiveSel() *liveSel {
	ls := &liveSel{}
	real := isaac.NewBlockBasedProposerSelector()
	args := isaac.NewBaseProposalSelectorArgs()
	args.GetNodesFunc = func(h base.Height) ([]base.Node, bool, error) {
		ls.mu.Lock()
		defer ls.mu.Unlock()
		ls.asks = append(ls.asks, h.Int64())
		return mkNodes(ls.listing), true, nil // fresh slice: getNodes sorts in place
	}
	args.ProposerSelectFunc = func(ctx context.Context, pt base.Point, nodes []base.Node, prev util.Hash) (base.Node, error) {
		n, err := real.Select(ctx, pt, nodes, prev)
		sc := selCall{}
		for _, x := range nodes {
			sc.In = append(sc.In, hexAddr(x.Address()))
		}
		if err != nil {
			sc.Out = "error"
		} else {
			sc.Out = hexAddr(n.Address())
			sc.Key = n.Publickey().String()
		}
		ls.mu.Lock()
		ls.sel = append(ls.sel, sc)
		ls.mu.Unlock()
		return n, err
	}
	args.RequestFunc = func(context.Context, base.Point, base.Node, util.Hash) (base.ProposalSignFact, bool, error) {
		return nil, false, errors.Errorf("no answer")
	}
	args.RequestProposalInterval = time.Millisecond
	args.TimeoutRequest = func() time.Duration { return time.Second }
	// local: a node that is not the proposer asked (never in the failing set; not in the suffrage)
	local := base.NewBaseLocalNode(base.DummyNodeHint, localKey, rawAddr{s: "\x00local-outside-suffrage"})
	ls.args = args
	ls.ps = isaac.NewBaseProposalSelector(local, args)
	return ls
}

// one Select call on this selector
func (ls *liveSel) call(c caseD, listing []nodeD, pwait time.Duration) (o flowObs) {
	defer func() {
		if r := recover(); r != nil {
			o.Err = fmt.Sprintf("panic: %v", r)
		}
	}()
	failing := map[string]bool{}
	for _, f := range c.Failing {
		failing[f] = true
	}
	pl := &pool{failing: failing}
	ls.mu.Lock()
	ls.listing = listing
	ls.sel = nil
	ls.mu.Unlock()
	ls.args.Pool = pl
	ls.args.MinProposerWait = pwait
	prev, _ := hex.DecodeString(c.Prev)
	pr, err := ls.ps.Select(context.Background(), base.RawPoint(c.Height, c.Round), valuehash.NewBytes(prev), 0)
	ls.mu.Lock()
	o.Sel = append([]selCall{}, ls.sel...)
	ls.mu.Unlock()
	pl.Lock()
	o.Asked = append([]string{}, pl.asked...)
	pl.Unlock()
	if err != nil {
		o.Err = err.Error()
		return o
	}
	o.Final = hexAddr(pr.ProposalFact().Proposer())
	return o
}

func runFlow(c caseD, listing []nodeD, pwait time.Duration) flowObs {
	return newLiveSel().call(c, listing, pwait)
}

var localKey base.Privatekey

// reference first pick, used only to choose a timeout (never for a verdict)
func refFirstFailing(c caseD) bool {
	if len(c.Nodes) < 2 {
		return false
	}
	as := make([]string, len(c.Nodes))
	for i, d := range c.Nodes {
		b, _ := hex.DecodeString(d.Addr)
		as[i] = string(b)
	}
	sort.Strings(as)
	prev, _ := hex.DecodeString(c.Prev)
	var sum uint64
	for _, b := range prev {
		sum += uint64(b)
	}
	sum += uint64(c.Height) + c.Round
	first := hex.EncodeToString([]byte(as[sum%uint64(len(as))]))
	for _, f := range c.Failing {
		if f == first {
			return true
		}
	}
	return false
}

func runFlowRetry(c caseD, listing []nodeD) flowObs { return runFlowRetryOn(nil, c, listing) }

// ls == nil: a fresh selector for every attempt; otherwise all attempts are further calls on ls
func runFlowRetryOn(ls *liveSel, c caseD, listing []nodeD) flowObs {
	// a live first proposer answers at the selector's first tick (33 ms): give that phase a long deadline so
	// that scheduling delays can never make a live node look dead; a failing first proposer costs the whole
	// deadline, so keep it short there and retry with a longer one when the run did not get through.
	pw := 5 * time.Second
	if refFirstFailing(c) {
		pw = 120 * time.Millisecond
	}
	failing := map[string]bool{}
	for _, f := range c.Failing {
		failing[f] = true
	}
	var o flowObs
	for try := 0; try < 4; try++ {
		if ls == nil {
			o = runFlow(c, listing, pw)
		} else {
			o = ls.call(c, listing, pw)
		}
		if o.Err == "" {
			// a live node that was passed over: either a scheduling delay made it miss the short deadline
			// or the selector really skipped it; decide with the long deadline
			skipped := false
			for k := 0; k+1 < len(o.Sel); k++ {
				if !failing[o.Sel[k].Out] {
					skipped = true
				}
			}
			if skipped && pw < 5*time.Second {
				pw = 5 * time.Second
				continue
			}
			return o
		}
		pw *= 4
		if pw > 4*time.Second {
			pw = 4 * time.Second
		}
	}
	return o
}

// ---------------------------------------------------------------- generators

const nameAlphabet = "ABCXYZabcxyz0189-_."

func genNodes(r *vh.Rand, n int) []nodeD {
	seen := map[string]bool{}
	ds := make([]nodeD, 0, n)
	prefix := ""
	if r.Chance(1, 3) {
		prefix = "node" // long common prefixes
	}
	for len(ds) < n {
		var d nodeD
		switch k := r.Intn(10); {
		case k < 6: // StringAddress, String() = name + "sas"
			l := r.Range(1, 8)
			b := make([]byte, l)
			for i := range b {
				b[i] = nameAlphabet[r.Intn(len(nameAlphabet))]
			}
			d = nodeD{Addr: hex.EncodeToString([]byte(prefix + string(b) + "sas"))}
		case k < 8 && len(ds) > 0: // an existing address extended / shortened: prefix relations
			b, _ := hex.DecodeString(ds[r.Intn(len(ds))].Addr)
			if r.Bool() && len(b) > 0 {
				b = b[:len(b)-1]
			} else {
				b = append(b, byte(r.Intn(256)))
			}
			d = nodeD{Addr: hex.EncodeToString(b), Raw: true}
		default: // arbitrary bytes incl. 0x00, 0x7f/0x80, 0xff
			l := r.Range(0, 5)
			b := make([]byte, l)
			for i := range b {
				switch r.Intn(4) {
				case 0:
					b[i] = []byte{0x00, 0x7f, 0x80, 0xff, 'a', 'A'}[r.Intn(6)]
				default:
					b[i] = byte(r.Intn(256))
				}
			}
			d = nodeD{Addr: hex.EncodeToString(b), Raw: true}
		}
		if seen[d.Addr] {
			continue
		}
		seen[d.Addr] = true
		ds = append(ds, d)
	}
	for i, k := range r.Perm(len(keys))[:n] { // distinct keys within a suffrage
		ds[i].Key = k
	}
	return ds
}

func genSize(r *vh.Rand, small bool) int {
	if small { // cases also evaluated by the Coq model: keep the .v text small
		switch r.Intn(10) {
		case 0:
			return 1
		case 1:
			return 2
		case 9:
			return r.Range(9, 20)
		default:
			return r.Range(3, 8)
		}
	}
	switch r.Intn(10) {
	case 0:
		return 1
	case 1:
		return 2
	case 2, 3:
		return r.Range(3, 5)
	case 4, 5, 6:
		return r.Range(6, 16)
	case 7, 8:
		return r.Range(17, 40)
	default:
		return r.Range(41, 64)
	}
}

func genPoint(r *vh.Rand, allowNeg bool) (int64, uint64) {
	var h int64
	switch r.Intn(6) {
	case 0:
		h = int64(r.Intn(100))
	case 1:
		h = int64(r.U64() >> 1)
	case 2:
		h = int64(^uint64(0)>>1) - int64(r.Intn(70)) // near 2^63
	case 3:
		h = int64(r.U64() >> uint(r.Intn(63)+1))
	case 4:
		h = 0
	default:
		h = int64(r.Intn(1 << 20))
	}
	if allowNeg && r.Chance(1, 12) {
		h = -1 - int64(r.Intn(3)) // base.NilHeight and below: uint64(int64) wraps
	}
	var rd uint64
	switch r.Intn(5) {
	case 0:
		rd = uint64(r.Intn(5))
	case 1:
		rd = ^uint64(0) - uint64(r.Intn(70)) // near 2^64
	case 2:
		rd = r.U64()
	case 3:
		rd = uint64(1)<<63 + uint64(r.Intn(70))
	default:
		rd = uint64(r.Intn(1000))
	}
	return h, rd
}

func genPrev(r *vh.Rand, awkward bool) string {
	l := 32
	if awkward {
		switch r.Intn(6) {
		case 0:
			l = 0
		case 1:
			l = r.Range(1, 31)
		case 2:
			l = r.Range(33, 80)
		}
	}
	b := r.Bytes(l)
	switch r.Intn(8) {
	case 0:
		for i := range b {
			b[i] = 0xff
		}
	case 1:
		for i := range b {
			b[i] = 0
		}
	}
	return hex.EncodeToString(b)
}

func permute(ds []nodeD, p []int) []nodeD {
	out := make([]nodeD, len(ds))
	for i, j := range p {
		out[i] = ds[j]
	}
	return out
}

// ---------------------------------------------------------------- Coq rendering

func coqNodes(ds []nodeD) string {
	items := make([]string, len(ds))
	for i, d := range ds {
		items[i] = "\"" + d.Addr + "\""
	}
	return vh.List(items)
}

func coqStrs(ss []string) string {
	items := make([]string, len(ss))
	for i, s := range ss {
		items[i] = "\"" + s + "\""
	}
	return vh.List(items)
}

func coqCase(c caseD, listing []nodeD, obs []nodeD) string {
	return vh.Tuple(vh.Bool(c.Flow), vh.Z(c.Height), vh.ZU(c.Round), "\""+c.Prev+"\"", coqNodes(listing), coqStrs(c.Failing), coqNodes(obs))
}

// ---------------------------------------------------------------- one case: run, oracle, model case

func findNode(ds []nodeD, addr string) (nodeD, bool) {
	for _, d := range ds {
		if d.Addr == addr {
			return d, true
		}
	}
	return nodeD{}, false
}

type modelCase struct {
	term string
	desc any
}

func evalFlow(c caseD, res *vh.Result, slot *modelCase, mu *sync.Mutex, addModel bool) {
	listings := [][]nodeD{c.Nodes}
	for _, p := range c.Perms {
		listings = append(listings, permute(c.Nodes, p))
	}
	obs := make([]flowObs, len(listings))
	for i, l := range listings {
		obs[i] = runFlowRetry(c, l)
	}
	mu.Lock()
	defer mu.Unlock()
	nontrivial := len(c.Nodes) >= 2
	res.Count(fmt.Sprintf("flow-%v-%d-%d-%s-%d", c.Nodes, c.Height, c.Round, c.Prev, len(c.Failing)), nontrivial)
	res.Dist(fmt.Sprintf("flow_n_%s", bucket(len(c.Nodes))))
	res.Dist(fmt.Sprintf("flow_failing_%s", bucket(len(c.Failing))))
	for i, o := range obs {
		if o.Err != "" {
			res.Fail("no-proposer-reached", fmt.Sprintf("listing %d: BaseProposalSelector.Select did not return a proposal of a live suffrage node: %s", i, o.Err), c)
			return
		}
	}
	pubOf := func(d nodeD) string { return keys[d.Key].String() }
	for i, o := range obs {
		// selected nodes are members (address and key) and were not filtered out before
		passed := map[string]bool{}
		var last string
		for k, sc := range o.Sel {
			d, ok := findNode(c.Nodes, sc.Out)
			if !ok || pubOf(d) != sc.Key {
				res.Fail("not-member", fmt.Sprintf("listing %d selection %d: selected %q is not a node of the suffrage", i, k, sc.Out), c)
				return
			}
			if passed[sc.Out] {
				res.Fail("selected-dead-node", fmt.Sprintf("listing %d selection %d: selected %q again after it failed", i, k, sc.Out), c)
				return
			}
			passed[sc.Out] = true
			last = sc.Out
		}
		if len(c.Nodes) == 1 {
			last = c.Nodes[0].Addr
		}
		if _, ok := findNode(c.Nodes, o.Final); !ok {
			res.Fail("not-member", fmt.Sprintf("listing %d: proposer %q of the returned proposal is not in the suffrage", i, o.Final), c)
			return
		}
		if o.Final != last {
			res.Fail("final-not-last-selected", fmt.Sprintf("listing %d: returned proposal is from %q, last selected %q", i, o.Final, last), c)
			return
		}
		if i > 0 {
			if o.Final != obs[0].Final || !sameSel(o.Sel, obs[0].Sel) {
				res.Fail("perm-variant", fmt.Sprintf("listing %d selects %v -> %q, listing 0 selects %v -> %q", i, outs(o.Sel), o.Final, outs(obs[0].Sel), obs[0].Final), c)
				return
			}
		}
	}
	if addModel {
		for i, o := range obs {
			if i != c.ModelListing%len(obs) {
				continue
			}
			var asked []nodeD
			if len(c.Nodes) == 1 {
				d, _ := findNode(c.Nodes, o.Final)
				asked = []nodeD{d}
			} else {
				for _, sc := range o.Sel {
					d, _ := findNode(c.Nodes, sc.Out)
					asked = append(asked, d)
				}
			}
			*slot = modelCase{coqCase(c, listings[i], asked), map[string]any{"case": c, "listing": i, "selected": outs(o.Sel), "final": o.Final}}
		}
	}
	res.Sample(map[string]any{"n": len(c.Nodes), "height": c.Height, "round": c.Round, "failing": len(c.Failing), "selected": outs(obs[0].Sel), "final": obs[0].Final})
}

// a history of calls on one long-lived selector: every call must behave like a fresh selector given the same
// inputs (the property's "for the same stage point, previous block and suffrage ... the same proposer"), and
// its proposer must be a member of the suffrage GetNodesFunc returned for THIS call.
func evalHist(h caseD, res *vh.Result, slots []modelCase, mu *sync.Mutex, addModel bool) {
	ls := newLiveSel()
	live := make([]flowObs, len(h.Hist))
	fresh := make([]flowObs, len(h.Hist))
	for k, c := range h.Hist {
		live[k] = runFlowRetryOn(ls, c, c.Nodes)
		fresh[k] = runFlowRetry(c, c.Nodes)
	}
	mu.Lock()
	defer mu.Unlock()
	res.Count(fmt.Sprintf("hist-%v", h.Hist), true)
	res.Dist("hist_calls_" + bucket(len(h.Hist)))
	for k, c := range h.Hist {
		o, f := live[k], fresh[k]
		what := fmt.Sprintf("call %d of %d on one selector (height %d round %d, %d nodes)", k, len(h.Hist), c.Height, c.Round, len(c.Nodes))
		if k > 0 {
			p := h.Hist[k-1]
			switch {
			case p.Height == c.Height && !sameSet(p.Nodes, c.Nodes):
				res.Dist("hist_same_height_suffrage_changed")
			case p.Height == c.Height:
				res.Dist("hist_same_height_same_suffrage")
			default:
				res.Dist("hist_height_changed")
			}
		}
		if o.Err != "" || f.Err != "" {
			res.Fail("no-proposer-reached", fmt.Sprintf("%s: no proposal of a live suffrage node: long-lived %q fresh %q", what, o.Err, f.Err), h)
			return
		}
		for i, sc := range o.Sel {
			d, ok := findNode(c.Nodes, sc.Out)
			if !ok || keys[d.Key].String() != sc.Key {
				res.Fail("not-member", fmt.Sprintf("%s: selection %d = %q is not a node of the suffrage returned for this call", what, i, sc.Out), h)
				return
			}
		}
		if _, ok := findNode(c.Nodes, o.Final); !ok {
			res.Fail("not-member", fmt.Sprintf("%s: proposer %q of the returned proposal is not in the suffrage returned for this call", what, o.Final), h)
			return
		}
		if o.Final != f.Final || !sameSel(o.Sel, f.Sel) {
			res.Fail("history-dependent", fmt.Sprintf("%s: long-lived selector selects %v -> %q, a fresh selector on the same inputs %v -> %q", what, outs(o.Sel), o.Final, outs(f.Sel), f.Final), h)
			return
		}
		if addModel && k < len(slots) {
			var asked []nodeD
			if len(c.Nodes) == 1 {
				d, _ := findNode(c.Nodes, o.Final)
				asked = []nodeD{d}
			} else {
				for _, sc := range o.Sel {
					d, _ := findNode(c.Nodes, sc.Out)
					asked = append(asked, d)
				}
			}
			slots[k] = modelCase{coqCase(c, c.Nodes, asked), map[string]any{"history_call": k, "case": c, "selected": outs(o.Sel), "final": o.Final}}
		}
	}
}

func sameSet(a, b []nodeD) bool {
	if len(a) != len(b) {
		return false
	}
	for _, x := range a {
		if _, ok := findNode(b, x.Addr); !ok {
			return false
		}
	}
	return true
}

// history generator: a pool of distinct nodes, the suffrage is a changing subset of it
func genHist(r *vh.Rand, small bool) caseD {
	n0 := r.Range(2, 9)
	if !small && r.Chance(1, 4) {
		n0 = r.Range(10, 30)
	}
	poolN := n0 + r.Range(3, 10)
	pl := genNodes(r, poolN)
	in := make([]bool, poolN)
	for _, j := range r.Perm(poolN)[:n0] {
		in[j] = true
	}
	current := func() []nodeD {
		var ds []nodeD
		for j, d := range pl {
			if in[j] {
				ds = append(ds, d)
			}
		}
		return ds
	}
	height, round := genPoint(r, false)
	if height > 1<<62 {
		height -= 8 // room for a few height steps
	}
	used := []int64{height}
	k := r.Range(2, 6)
	var h caseD
	h.Flow = true
	for i := 0; i < k; i++ {
		if i > 0 {
			// the suffrage GetNodesFunc returns changes between calls (the node learns of an update late)
			if r.Chance(3, 4) {
				for m := r.Range(1, 3); m > 0; m-- {
					j := r.Intn(poolN)
					switch r.Intn(3) {
					case 0: // replace a member
						if in[j] {
							for _, q := range r.Perm(poolN) {
								if !in[q] {
									in[j], in[q] = false, true
									break
								}
							}
						}
					case 1:
						in[j] = true
					default:
						if len(current()) > 2 || r.Chance(1, 5) && len(current()) > 1 {
							in[j] = false
						}
					}
				}
			}
			switch x := r.Intn(20); {
			case x < 14: // a later round of the same height
				round += uint64(r.Range(1, 3))
			case x < 17:
				height++
				round = uint64(r.Intn(3))
				used = append(used, height)
			default: // back to a height served before
				height = used[r.Intn(len(used))]
				round = uint64(r.Intn(5))
			}
		}
		cur := current()
		c := caseD{Flow: true, Height: height, Round: round, Prev: genPrev(r, false), Nodes: permute(cur, r.Perm(len(cur)))}
		if len(cur) >= 2 && r.Chance(1, 6) {
			nf := r.Range(1, len(cur)-1)
			if nf > 4 {
				nf = 4
			}
			for _, j := range r.Perm(len(cur))[:nf] {
				c.Failing = append(c.Failing, cur[j].Addr)
			}
		}
		h.Hist = append(h.Hist, c)
	}
	return h
}

func outs(s []selCall) []string {
	o := make([]string, len(s))
	for i := range s {
		o[i] = s[i].Out
	}
	return o
}

func sameSel(a, b []selCall) bool {
	if len(a) != len(b) {
		return false
	}
	for i := range a {
		if a[i].Out != b[i].Out || a[i].Key != b[i].Key || strings.Join(a[i].In, ",") != strings.Join(b[i].In, ",") {
			return false
		}
	}
	return true
}

func bucket(n int) string {
	switch {
	case n == 0:
		return "0"
	case n == 1:
		return "1"
	case n == 2:
		return "2"
	case n <= 5:
		return "3-5"
	case n <= 16:
		return "6-16"
	case n <= 40:
		return "17-40"
	default:
		return "41-64"
	}
}

// bare selector on the list as given (no sorting): model correspondence + membership + repeatability
func evalBare(c caseD, res *vh.Result, cases *vh.Cases, addModel bool) {
	defer func() {
		if r := recover(); r != nil {
			res.Fail("select-panic", fmt.Sprintf("BlockBasedProposerSelector.Select panics on %d nodes: %v", len(c.Nodes), r), c)
		}
	}()
	nodes := mkNodes(c.Nodes)
	prev, _ := hex.DecodeString(c.Prev)
	sel := isaac.NewBlockBasedProposerSelector()
	pt := base.RawPoint(c.Height, c.Round)
	n1, err1 := sel.Select(context.Background(), pt, nodes, valuehash.NewBytes(prev))
	n2, err2 := sel.Select(context.Background(), pt, mkNodes(c.Nodes), valuehash.NewBytes(prev))
	res.Count(fmt.Sprintf("bare-%v-%d-%d-%s", c.Nodes, c.Height, c.Round, c.Prev), len(c.Nodes) >= 2)
	res.Dist("bare_n_" + bucket(len(c.Nodes)))
	if c.Height < 0 {
		res.Dist("bare_negative_height")
	}
	if err1 != nil || err2 != nil {
		res.Fail("select-error", fmt.Sprintf("Select on %d nodes: %v / %v", len(nodes), err1, err2), c)
		return
	}
	a1, a2 := hexAddr(n1.Address()), hexAddr(n2.Address())
	d, ok := findNode(c.Nodes, a1)
	if !ok || keys[d.Key].String() != n1.Publickey().String() {
		res.Fail("not-member", fmt.Sprintf("Select returned %q, not in the list", a1), c)
		return
	}
	if a1 != a2 {
		res.Fail("perm-variant", fmt.Sprintf("Select twice on the same input: %q then %q", a1, a2), c)
		return
	}
	if addModel {
		cases.Add(coqCase(c, c.Nodes, []nodeD{d}), map[string]any{"case": c, "selected": a1})
	}
}

func main() {
	o := vh.ParseFlags()
	res := vh.NewResult("random suffrages of 1..64 nodes (StringAddress names and arbitrary-byte addresses with prefix relations), each run through the real BaseProposalSelector.Select with 2-3 listing orders and a random failing set, and through BlockBasedProposerSelector.Select directly; heights near 2^63 (and negative), rounds near 2^64, hashes of 0..80 bytes; non-trivial = suffrage of at least 2 nodes")
	r := vh.NewRand(o.Seed)
	for i := 0; i < 64; i++ {
		k, err := base.NewMPrivatekeyFromSeed(fmt.Sprintf("c07-key-%04d-%s", i, strings.Repeat("x", 40)))
		if err != nil {
			panic(err)
		}
		keys = append(keys, k.Publickey())
	}
	lk, err := base.NewMPrivatekeyFromSeed("c07-local-" + strings.Repeat("y", 40))
	if err != nil {
		panic(err)
	}
	localKey = lk
	cases := &vh.Cases{Import: "From MV Require Import C07.Model.", Type: "case", CheckFn: "check", Shard: 250}

	var flows []caseD
	if o.Replay != "" {
		var c caseD
		if err := vh.ReadReplay(o.Replay, &c); err != nil {
			panic(err)
		}
		if len(c.Hist) > 0 {
			// handled with the histories below
		} else if c.Flow {
			flows = append(flows, c)
		} else {
			evalBare(c, res, cases, true)
		}
	}
	// corpus: fixed awkward cases
	flows = append(flows, corpus()...)

	nflow := o.Pick(700, 12000)
	modelFlow := o.Pick(400, 5000) // number of flow cases also given to the model (one listing each)
	for i := 0; i < nflow; i++ {
		n := genSize(r, i < modelFlow)
		c := caseD{Flow: true, Nodes: genNodes(r, n), ModelListing: i}
		c.Height, c.Round = genPoint(r, false)
		c.Prev = genPrev(r, r.Chance(1, 4))
		for k := r.Range(1, 2); k > 0; k-- {
			c.Perms = append(c.Perms, r.Perm(n))
		}
		if n >= 2 && r.Chance(2, 5) {
			// failing set: random subset, always leaving a live node
			nf := r.Range(1, n-1)
			if nf > 12 && !r.Chance(1, 6) {
				nf = r.Range(1, 12)
			}
			p := r.Perm(n)
			for _, j := range p[:nf] {
				c.Failing = append(c.Failing, c.Nodes[j].Addr)
			}
		}
		flows = append(flows, c)
	}
	modelFlow += len(flows) - nflow // corpus and replay cases too
	var mu sync.Mutex
	var wg sync.WaitGroup
	slots := make([]modelCase, len(flows))
	sem := make(chan struct{}, 256)
	for i := range flows {
		wg.Add(1)
		sem <- struct{}{}
		go func(i int) {
			defer wg.Done()
			defer func() { <-sem }()
			evalFlow(flows[i], res, &slots[i], &mu, i < modelFlow)
		}(i)
	}
	wg.Wait()
	for _, sl := range slots {
		if sl.term != "" {
			cases.Add(sl.term, sl.desc)
		}
	}

	// ---- histories on one long-lived selector
	var hists []caseD
	hists = append(hists, histCorpus()...)
	if o.Replay != "" {
		var c caseD
		if err := vh.ReadReplay(o.Replay, &c); err == nil && len(c.Hist) > 0 {
			hists = append(hists, c)
		}
	}
	nhist := o.Pick(250, 4000)
	modelHist := o.Pick(80, 900) + len(hists)
	for i := 0; i < nhist; i++ {
		hists = append(hists, genHist(r, i < modelHist))
	}
	hslots := make([][]modelCase, len(hists))
	for i := range hists {
		hslots[i] = make([]modelCase, len(hists[i].Hist))
		wg.Add(1)
		sem <- struct{}{}
		go func(i int) {
			defer wg.Done()
			defer func() { <-sem }()
			evalHist(hists[i], res, hslots[i], &mu, i < modelHist)
		}(i)
	}
	wg.Wait()
	for _, sl := range hslots {
		for _, m := range sl {
			if m.term != "" {
				cases.Add(m.term, m.desc)
			}
		}
	}

	nbare := o.Pick(1500, 40000)
	modelBare := o.Pick(300, 4000)
	for i := 0; i < nbare; i++ {
		n := genSize(r, i < modelBare)
		c := caseD{Nodes: genNodes(r, n)}
		c.Height, c.Round = genPoint(r, true)
		c.Prev = genPrev(r, true)
		evalBare(c, res, cases, i < modelBare)
	}
	res.ModelCases = cases.Len()
	if err := cases.Write(o.Out); err != nil {
		panic(err)
	}
	res.Write(o.Out)
}

func hx(s string) string { return hex.EncodeToString([]byte(s)) }

// fixed histories: same height, later round, one member replaced / added / removed in between
func histCorpus() []caseD {
	mk := func(names ...string) []nodeD {
		ds := make([]nodeD, len(names))
		for i, n := range names {
			ds[i] = nodeD{Addr: hx(n), Raw: true, Key: int(n[len(n)-1]) % 64}
		}
		return ds
	}
	p := strings.Repeat("ab", 32)
	call := func(h int64, rd uint64, names ...string) caseD {
		return caseD{Flow: true, Height: h, Round: rd, Prev: p, Nodes: mk(names...)}
	}
	var out []caseD
	for rd := uint64(0); rd < 4; rd++ {
		out = append(out,
			caseD{Flow: true, Hist: []caseD{call(33, rd, "n0", "n1", "n2"), call(33, rd+1, "n3", "n1", "n2"), call(33, rd+2, "n3", "n1", "n2", "n4")}},
			caseD{Flow: true, Hist: []caseD{call(33, rd, "n0", "n1", "n2", "n3"), call(33, rd+1, "n1", "n3"), call(34, 0, "n1", "n3"), call(33, rd+2, "n5", "n6", "n7")}},
			caseD{Flow: true, Hist: []caseD{call(7, rd, "a", "b"), call(7, rd+1, "c", "d"), call(7, rd+2, "e"), call(7, rd+3, "f", "g", "h")}},
		)
	}
	return out
}

func corpus() []caseD {
	mk := func(names ...string) []nodeD {
		ds := make([]nodeD, len(names))
		for i, n := range names {
			ds[i] = nodeD{Addr: hx(n), Raw: true, Key: i}
		}
		return ds
	}
	ff := strings.Repeat("ff", 32)
	return []caseD{
		// upper/lower case, prefix, high bytes: bytewise order "" < "A" < "a" < "a\x00" < "ab" < "\x80" < "\xff"
		{Flow: true, Height: 33, Round: 0, Prev: ff, Nodes: mk("ab", "a", "A", "\xff", "", "\x80", "a\x00"), Perms: [][]int{{6, 5, 4, 3, 2, 1, 0}, {3, 0, 6, 1, 5, 2, 4}}},
		{Flow: true, Height: 33, Round: 1, Prev: ff, Nodes: mk("ab", "a", "A", "\xff", "", "\x80", "a\x00"), Perms: [][]int{{6, 5, 4, 3, 2, 1, 0}}, Failing: []string{hx("a"), hx("A"), hx(""), hx("\xff")}},
		// uint64 wrap of the sum
		{Flow: true, Height: 1<<63 - 1, Round: ^uint64(0), Prev: ff, Nodes: mk("n2", "n0", "n1"), Perms: [][]int{{2, 0, 1}, {1, 2, 0}}},
		{Flow: true, Height: 1<<63 - 1, Round: ^uint64(0) - 7, Prev: ff, Nodes: mk("n2", "n0", "n1", "n3", "n4"), Perms: [][]int{{4, 3, 2, 0, 1}}, Failing: []string{hx("n0"), hx("n1"), hx("n2"), hx("n4")}},
		// one and two nodes
		{Flow: true, Height: 0, Round: 0, Prev: "", Nodes: mk("solo"), Perms: [][]int{{0}}},
		{Flow: true, Height: 1, Round: 2, Prev: "01", Nodes: mk("z", "y"), Perms: [][]int{{1, 0}}, Failing: []string{hx("y")}},
		{Flow: true, Height: 1, Round: 3, Prev: "01", Nodes: mk("z", "y"), Perms: [][]int{{1, 0}}, Failing: []string{hx("y")}},
	}
}
