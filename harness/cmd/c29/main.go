// c29: length-prefixed framing of util/bytes.go: round trip, truncation, no silent drop, any chunking.
//
// The parent process re-executes itself with -child (memory capped with RLIMIT_AS) so that a crash of the
// real code that recover() cannot catch (out of memory on a hostile length, fatal errors) is an observable:
// the parent then writes result.json with a "crash" failure carrying the case that was running.
package main

import (
	"bytes"
	"context"
	"encoding/hex"
	"encoding/json"
	"errors"
	"flag"
	"fmt"
	"io"
	"os"
	"os/exec"
	"path/filepath"
	"runtime"
	"runtime/debug"
	"runtime/pprof"
	"strings"
	"syscall"
	"time"

	"github.com/spikeekips/mitum/util"
	"verifharness/vh"
)

// ---------------------------------------------------------------- environment: chunking reader (same spec as Model.v reader)

var errIO = errors.New("io failure (harness)")

type chunkReader struct {
	chunks [][]byte
	ending int // 0: (0,EOF) after the last byte; 1: EOF together with the last chunk; 2: (0, errIO) after the last byte
	reads  int
}

func (c *chunkReader) Read(p []byte) (int, error) {
	c.reads++
	if len(p) == 0 {
		return 0, nil
	}
	if len(c.chunks) == 0 {
		if c.ending == 2 {
			return 0, errIO
		}
		return 0, io.EOF
	}
	ch := c.chunks[0]
	if len(ch) <= len(p) {
		copy(p, ch)
		c.chunks = c.chunks[1:]
		if len(c.chunks) == 0 && c.ending == 1 {
			return len(ch), io.EOF
		}
		return len(ch), nil
	}
	copy(p, ch[:len(p)])
	c.chunks[0] = ch[len(p):]
	return len(p), nil
}

func (c *chunkReader) rest() []byte {
	var b []byte
	for _, ch := range c.chunks {
		b = append(b, ch...)
	}
	return b
}

type chunking struct {
	Sizes  []int `json:"sizes"`
	Unit   int   `json:"unit"`
	Ending int   `json:"ending"`
}

func split(d []byte, ck chunking) [][]byte {
	var out [][]byte
	for _, s := range ck.Sizes {
		if s > len(d) {
			s = len(d)
		}
		out = append(out, d[:s:s])
		d = d[s:]
	}
	if len(d) == 0 {
		return out
	}
	if ck.Unit == 0 {
		return append(out, d)
	}
	for len(d) > 0 {
		s := ck.Unit
		if s > len(d) {
			s = len(d)
		}
		out = append(out, d[:s:s])
		d = d[s:]
	}
	return out
}

func newReader(d []byte, ck chunking) *chunkReader {
	cp := append([]byte{}, d...)
	return &chunkReader{chunks: split(cp, ck), ending: ck.Ending}
}

func randChunking(r *vh.Rand, n int) chunking {
	ck := chunking{Ending: r.Intn(2)}
	switch r.Intn(6) {
	case 0: // whole
	case 1: // one byte at a time
		ck.Unit = 1
	case 2: // one byte first, then whole
		ck.Sizes = []int{1}
	case 3: // fixed unit
		ck.Unit = []int{2, 3, 7, 8, 9, 16, 17, 1200}[r.Intn(8)]
	default: // random sizes, some zero-length reads
		k := r.Range(1, 12)
		for i := 0; i < k; i++ {
			switch r.Intn(5) {
			case 0:
				ck.Sizes = append(ck.Sizes, 0)
			case 1:
				ck.Sizes = append(ck.Sizes, r.Range(1, 9))
			default:
				ck.Sizes = append(ck.Sizes, r.Range(1, n/2+2))
			}
		}
		if r.Bool() {
			ck.Unit = r.Range(1, 40)
		}
	}
	return ck
}

// ---------------------------------------------------------------- running the real code

const (
	tagOk    = 0
	tagErr   = 1
	tagPanic = 2
)

type sliceObs struct {
	tag   int
	items [][]byte
	rest  []byte
	msg   string
}

func canon(m [][]byte) [][]byte {
	out := make([][]byte, len(m))
	for i := range m {
		if m[i] == nil {
			out[i] = []byte{}
		} else {
			out[i] = m[i]
		}
	}
	return out
}

func readBuf(b []byte) (o sliceObs) {
	defer func() {
		if p := recover(); p != nil {
			o = sliceObs{tag: tagPanic, msg: fmt.Sprint(p)}
		}
	}()
	in := append([]byte{}, b...)
	m, left, err := util.ReadLengthedBytesSlice(in)
	if err != nil {
		return sliceObs{tag: tagErr, msg: err.Error()}
	}
	return sliceObs{tag: tagOk, items: canon(m), rest: append([]byte{}, left...)}
}

func readStream(b []byte, ck chunking) (o sliceObs) {
	defer func() {
		if p := recover(); p != nil {
			o = sliceObs{tag: tagPanic, msg: fmt.Sprint(p)}
		}
	}()
	cr := newReader(b, ck)
	_, m, err := util.ReadLengthedSlice(cr)
	if err != nil {
		return sliceObs{tag: tagErr, msg: err.Error()}
	}
	return sliceObs{tag: tagOk, items: canon(m), rest: cr.rest()}
}

func writeSlice(m [][]byte) (w []byte, ok bool, partial int) {
	buf := bytes.NewBuffer(nil)
	if err := util.WriteLengthedSlice(buf, m); err != nil {
		return nil, false, buf.Len()
	}
	w2, err := util.NewLengthedBytesSlice(m)
	if err != nil || !bytes.Equal(w2, buf.Bytes()) {
		return buf.Bytes(), false, -1
	}
	return buf.Bytes(), true, 0
}

func itemsEqual(a, b [][]byte) bool {
	if len(a) != len(b) {
		return false
	}
	for i := range a {
		if !bytes.Equal(a[i], b[i]) {
			return false
		}
	}
	return true
}

// ---------------------------------------------------------------- segments (run-length encoded data for the Coq side)

type seg struct {
	b []byte
	n int
}

func segsFlat(ss []seg) []byte {
	var out []byte
	for _, s := range ss {
		for i := 0; i < s.n; i++ {
			out = append(out, s.b...)
		}
	}
	return out
}

func segBytes(ss []seg) int {
	n := 0
	for _, s := range ss {
		n += len(s.b)
	}
	return n
}

func coqSegs(ss []seg) string {
	xs := make([]string, 0, len(ss))
	for _, s := range ss {
		if s.n == 0 {
			continue
		}
		xs = append(xs, vh.Tuple(vh.Hex(s.b), vh.N(uint64(s.n))))
	}
	return vh.List(xs)
}

func itemSegs(m [][]byte) []seg {
	var out []seg
	for _, x := range m {
		if k := len(out); k > 0 && bytes.Equal(out[k-1].b, x) {
			out[k-1].n++
			continue
		}
		out = append(out, seg{b: x, n: 1})
	}
	return out
}

func coqInts(xs []int) string {
	ss := make([]string, len(xs))
	for i, x := range xs {
		ss[i] = fmt.Sprintf("%d", x)
	}
	return "[" + strings.Join(ss, "; ") + "]%N"
}

func coqHexList(m [][]byte) string {
	ss := make([]string, len(m))
	for i, x := range m {
		ss[i] = vh.Hex(x)
	}
	return vh.List(ss)
}

// ---------------------------------------------------------------- generators

func randItem(r *vh.Rand, maxSize int) []byte {
	var n int
	switch r.Intn(16) {
	case 0, 1, 2:
		n = 0
	case 3, 4:
		n = 1
	case 5:
		n = 7
	case 6, 7:
		n = 8
	case 8:
		n = 9
	case 9, 10, 11:
		n = r.Range(2, 64)
	case 12, 13:
		n = r.Range(65, 1024)
	case 14:
		n = r.Range(1025, 8192)
	default:
		n = []int{65535, 65536, r.Range(8193, 65536)}[r.Intn(3)]
	}
	if n > maxSize {
		n = r.Intn(maxSize + 1)
	}
	b := r.Bytes(n)
	if n >= 8 && r.Chance(1, 3) {
		// payload that looks like a length field
		copy(b, util.Uint64ToBytes(uint64(r.Intn(70000))))
	}
	return b
}

func randList(r *vh.Rand) [][]byte {
	var n int
	switch r.Intn(10) {
	case 0:
		n = 0
	case 1, 2:
		n = r.Range(1, 3)
	case 3, 4, 5, 6:
		n = r.Range(2, 20)
	case 7, 8:
		n = r.Range(21, 300)
	default:
		n = r.Range(301, 3000)
	}
	maxSize := 65536
	if n > 20 {
		maxSize = 2048
	}
	if n > 300 {
		maxSize = 64
	}
	m := make([][]byte, n)
	for i := range m {
		m[i] = randItem(r, maxSize)
		if len(m[i]) == 0 && r.Bool() {
			m[i] = nil
		}
	}
	return m
}

// big lists: counts around the limit and up to 40000, few distinct items (so that they compress for the Coq side)
func bigList(r *vh.Rand, n int) [][]byte {
	m := make([][]byte, n)
	pal := [][]byte{{}, {0xab}, r.Bytes(8), r.Bytes(3)}
	cur := pal[r.Intn(len(pal))]
	for i := range m {
		if r.Chance(1, 5000) {
			cur = pal[r.Intn(len(pal))]
		}
		m[i] = cur
	}
	return m
}

// ---------------------------------------------------------------- replay descriptors

type replay struct {
	Kind     string    `json:"kind"` // buf | stream | roundtrip | frame | ensure
	Input    string    `json:"input_hex,omitempty"`
	Count    int       `json:"count,omitempty"`
	Items    []string  `json:"items_hex,omitempty"`
	Chunking *chunking `json:"chunking,omitempty"`
	Note     string    `json:"note,omitempty"`
}

func shortHex(b []byte) string {
	if len(b) > 4096 {
		return hex.EncodeToString(b[:4096]) + fmt.Sprintf("...(%d bytes)", len(b))
	}
	return hex.EncodeToString(b)
}

func itemsHex(m [][]byte) []string {
	if len(m) > 64 {
		m = m[:64]
	}
	out := make([]string, len(m))
	for i := range m {
		out[i] = shortHex(m[i])
	}
	return out
}

// ---------------------------------------------------------------- the run

type runner struct {
	o      *vh.Opts
	r      *vh.Rand
	res    *vh.Result
	cases  *vh.Cases
	cur    string // file where the case being run is recorded (for crash reports)
	budget int    // cap on the number of model cases taken from the generated lists
}

func (h *runner) mark(rp replay) {
	b, _ := json.Marshal(rp)
	_ = os.WriteFile(h.cur, b, 0o644)
}

// largest length field the stream reader would honour with an allocation when fed b (reference scan, used only as a
// guard for the harness itself: EnsureRead allocates a buffer of the still missing size for every Read call and
// ReadLengthed allocates the announced length up front; see notes/C29.md "allocation on hostile lengths")
func hostileAlloc(b []byte) uint64 {
	if len(b) < 8 {
		return 0
	}
	cnt := be(b[:8])
	if cnt > 1<<20 {
		return 0
	}
	off := uint64(8)
	var mx uint64
	for i := uint64(0); i < cnt; i++ {
		if off+8 > uint64(len(b)) {
			return mx
		}
		l := be(b[off : off+8])
		if l > 1<<31 {
			return mx
		}
		if l > mx {
			mx = l
		}
		if l > uint64(len(b))-off-8 {
			return mx
		}
		off += 8 + l
	}
	return mx
}

// keeps the number of Read calls small when a large length field will be honoured (cost per Read = missing size)
func tame(ck chunking, b []byte) chunking {
	a := hostileAlloc(b)
	if a <= 512 {
		return ck
	}
	if ck.Unit != 0 && uint64(ck.Unit) < a/8 {
		ck.Unit = int(a / 8)
	}
	if len(ck.Sizes) > 6 {
		ck.Sizes = ck.Sizes[:6]
	}
	return ck
}

func be(b []byte) uint64 {
	var x uint64
	for _, c := range b {
		x = x<<8 | uint64(c)
	}
	return x
}

const allocGuard = 16 << 20

func (h *runner) addBufCase(input []seg, o sliceObs) {
	if h.cases.Len() >= h.budget {
		return
	}
	h.cases.Add(fmt.Sprintf("CBuf %s %s %s %s", coqSegs(input), vh.N(uint64(o.tag)), coqSegs(itemSegs(o.items)), vh.Hex(o.rest)),
		map[string]any{"kind": "buf", "input": shortHex(segsFlat(input)), "tag": o.tag, "n_items": len(o.items), "msg": o.msg})
}

func (h *runner) addStreamCase(input []seg, ck chunking, o sliceObs) {
	if h.cases.Len() >= h.budget {
		return
	}
	h.cases.Add(fmt.Sprintf("CStream %s %s %s %s %s %s %s", coqSegs(input), coqInts(ck.Sizes), vh.N(uint64(ck.Unit)), vh.N(uint64(ck.Ending)),
		vh.N(uint64(o.tag)), coqSegs(itemSegs(o.items)), vh.Hex(o.rest)),
		map[string]any{"kind": "stream", "input": shortHex(segsFlat(input)), "chunking": ck, "tag": o.tag, "n_items": len(o.items), "msg": o.msg})
}

func adler(d []byte) uint64 {
	a, b := uint64(1), uint64(0)
	for _, x := range d {
		a = (a + uint64(x)) % 65521
		b = (b + a) % 65521
	}
	return b*65536 + a
}

// property oracle on one list: write, read back from a buffer and from a stream, truncations
func (h *runner) oracleList(m [][]byte, model bool, nTrunc int) {
	res, r := h.res, h.r
	rp := replay{Kind: "roundtrip", Count: len(m), Items: itemsHex(m)}
	h.mark(rp)
	w, ok, partial := writeSlice(m)
	res.Count(fmt.Sprintf("list:%d:%x", len(m), adler(w)), len(m) > 0)
	switch {
	case len(m) == 0:
		res.Dist("list_count=0")
	case len(m) <= 3:
		res.Dist("list_count=1..3")
	case len(m) <= 300:
		res.Dist("list_count=4..300")
	case len(m) <= 32767:
		res.Dist("list_count=301..32767")
	default:
		res.Dist("list_count>32767")
	}
	if model && segBytes(itemSegs(m)) <= 1200 && len(itemSegs(m)) <= 40 {
		h.cases.Add(fmt.Sprintf("CWrite %s %s %s %s", coqSegs(itemSegs(canon(m))), vh.Bool(ok), vh.N(uint64(len(w))), vh.N(adler(w))),
			map[string]any{"kind": "write", "count": len(m), "ok": ok, "len": len(w)})
	}
	if !ok {
		res.Dist("write_refused")
		if partial != 0 {
			res.Fail("write-refused-after-partial-write", fmt.Sprintf("WriteLengthedSlice of %d items returned an error after writing %d bytes (or NewLengthedBytesSlice disagrees)", len(m), partial), rp)
		}
		return
	}
	cm := canon(m)
	// buffer round trip with trailing data
	var rest []byte
	if r.Bool() {
		rest = r.Bytes(r.Range(1, 20))
	}
	in := append(append([]byte{}, w...), rest...)
	ob := readBuf(in)
	if ob.tag != tagOk || !itemsEqual(ob.items, cm) || !bytes.Equal(ob.rest, rest) {
		res.Fail("roundtrip-buf", fmt.Sprintf("%d items written (%d bytes), ReadLengthedBytesSlice -> tag=%d items=%d left=%d %s", len(m), len(w), ob.tag, len(ob.items), len(ob.rest), ob.msg), rp)
	}
	small := len(in) <= 1000
	compress := len(itemSegs(cm)) <= 40 && segBytes(itemSegs(cm)) <= 1000
	if model && (small || compress) {
		var segs []seg
		if small {
			segs = []seg{{in, 1}}
		} else {
			segs = append(segs, seg{util.Uint64ToBytes(uint64(len(m))), 1})
			for _, s := range itemSegs(cm) {
				segs = append(segs, seg{append(util.Uint64ToBytes(uint64(len(s.b))), s.b...), s.n})
			}
			segs = append(segs, seg{rest, 1})
		}
		h.addBufCase(segs, ob)
	}
	// stream round trip under several chunkings
	cks := []chunking{{Ending: 0}, {Ending: 1}, {Sizes: []int{1}, Ending: r.Intn(2)}, randChunking(r, len(in)), randChunking(r, len(in))}
	if len(in) <= 4000 {
		cks = append(cks, chunking{Unit: 1, Ending: 0}, chunking{Unit: 1, Ending: 1})
	}
	for i, ck := range cks {
		src := in
		if i%2 == 1 {
			src = w // stream ends exactly after the last item (io.EOF may come with the last bytes)
		}
		ck = tame(ck, src)
		rp2 := rp
		rp2.Kind, rp2.Chunking = "stream", &ck
		so := readStream(src, ck)
		wantRest := src[len(w):]
		if so.tag != tagOk || !itemsEqual(so.items, cm) || !bytes.Equal(so.rest, wantRest) {
			res.Fail("roundtrip-stream", fmt.Sprintf("%d items written (%d bytes), ReadLengthedSlice chunking=%+v -> tag=%d items=%d unread=%d (want %d) %s", len(m), len(w), ck, so.tag, len(so.items), len(so.rest), len(wantRest), so.msg), rp2)
		}
		res.Evaluations++
		if model && small && len(src) <= 400 && (i < 4 || len(src) <= 120) {
			h.addStreamCase([]seg{{src, 1}}, ck, so)
		}
	}
	// truncations: every strict prefix is rejected
	cuts := []int{}
	if len(w) <= 300 {
		for c := 0; c < len(w); c++ {
			cuts = append(cuts, c)
		}
	} else {
		cuts = append(cuts, 0, 7, 8, 9, 15, 16, len(w)-1, len(w)-8, len(w)-9)
		for len(cuts) < nTrunc {
			cuts = append(cuts, r.Intn(len(w)))
		}
	}
	for j, c := range cuts {
		if c < 0 || c >= len(w) {
			continue
		}
		p := w[:c]
		res.Evaluations++
		ob := readBuf(p)
		if ob.tag != tagErr {
			res.Fail("truncation-accepted-buf", fmt.Sprintf("prefix of %d/%d bytes of a written list of %d items: ReadLengthedBytesSlice -> tag=%d items=%d %s", c, len(w), len(m), ob.tag, len(ob.items), ob.msg),
				replay{Kind: "buf", Input: shortHex(p), Count: len(m)})
		}
		if len(w) > 5000 && j%10 != 0 {
			continue
		}
		ck := tame(randChunking(r, c), p)
		ck.Ending = r.Intn(3)
		so := readStream(p, ck)
		if so.tag != tagErr {
			res.Fail("truncation-accepted-stream", fmt.Sprintf("prefix of %d/%d bytes of a written list of %d items, chunking=%+v: ReadLengthedSlice -> tag=%d items=%d %s", c, len(w), len(m), ck, so.tag, len(so.items), so.msg),
				replay{Kind: "stream", Input: shortHex(p), Count: len(m), Chunking: &ck})
		}
		if model && len(w) <= 300 && (len(w) <= 40 || j%9 == 0) {
			h.addBufCase([]seg{{p, 1}}, ob)
			h.addStreamCase([]seg{{p, 1}}, ck, so)
		}
	}
}

// no silent drop: whatever the reader accepts is exactly write(result) ++ rest
func (h *runner) oracleMutated(in []byte, what string, model bool) {
	res, r := h.res, h.r
	h.mark(replay{Kind: "buf", Input: shortHex(in), Note: what})
	res.Evaluations++
	ob := readBuf(in)
	res.Dist(fmt.Sprintf("mutated_buf_tag=%d", ob.tag))
	switch ob.tag {
	case tagPanic:
		res.Fail("panic-buf", "ReadLengthedBytesSlice panicked: "+ob.msg+" ("+what+")", replay{Kind: "buf", Input: shortHex(in), Note: what})
	case tagOk:
		w, ok, _ := writeSlice(ob.items)
		if !ok || !bytes.Equal(append(append([]byte{}, w...), ob.rest...), in) {
			res.Fail("silent-drop-buf", fmt.Sprintf("ReadLengthedBytesSlice succeeded with %d items, %d left on a %d-byte input that is not write(items)++left (%s)", len(ob.items), len(ob.rest), len(in), what),
				replay{Kind: "buf", Input: shortHex(in), Note: what})
		}
	}
	if model && len(in) <= 800 {
		h.addBufCase([]seg{{in, 1}}, ob)
	}
	if a := hostileAlloc(in); a > allocGuard {
		res.Dist("stream_skipped_hostile_alloc")
		return
	}
	ck := tame(randChunking(r, len(in)), in)
	ck.Ending = r.Intn(3)
	h.mark(replay{Kind: "stream", Input: shortHex(in), Chunking: &ck, Note: what})
	so := readStream(in, ck)
	res.Dist(fmt.Sprintf("mutated_stream_tag=%d", so.tag))
	switch so.tag {
	case tagPanic:
		res.Fail("panic-stream", "ReadLengthedSlice panicked: "+so.msg+" ("+what+")", replay{Kind: "stream", Input: shortHex(in), Chunking: &ck, Note: what})
	case tagOk:
		w, ok, _ := writeSlice(so.items)
		if !ok || !bytes.Equal(append(append([]byte{}, w...), so.rest...), in) {
			res.Fail("silent-drop-stream", fmt.Sprintf("ReadLengthedSlice succeeded with %d items, %d unread on a %d-byte input that is not write(items)++unread (%s)", len(so.items), len(so.rest), len(in), what),
				replay{Kind: "stream", Input: shortHex(in), Chunking: &ck, Note: what})
		}
	}
	if model && len(in) <= 800 {
		h.addStreamCase([]seg{{in, 1}}, ck, so)
	}
}

func (h *runner) mutate(w []byte, m [][]byte) ([]byte, string) {
	r := h.r
	in := append([]byte{}, w...)
	if len(in) == 0 {
		return in, "empty"
	}
	// offsets of the length fields
	offs := []int{0}
	off := 8
	for _, x := range m {
		offs = append(offs, off)
		off += 8 + len(x)
	}
	switch r.Intn(8) {
	case 0, 1, 2: // flip one bit of a length field
		o := offs[r.Intn(len(offs))]
		j := o + r.Intn(8)
		if r.Chance(2, 3) {
			j = o + 4 + r.Intn(4)
		}
		bit := byte(1) << uint(r.Intn(8))
		in[j] ^= bit
		return in, fmt.Sprintf("bit flip %#x at %d (length field at %d)", bit, j, o)
	case 3: // length field +-1
		o := offs[r.Intn(len(offs))]
		v := be(in[o : o+8])
		if r.Bool() {
			v++
		} else {
			v--
		}
		copy(in[o:], util.Uint64ToBytes(v))
		return in, fmt.Sprintf("length field at %d set to %d", o, v)
	case 4: // count set to a boundary value
		v := []uint64{32766, 32767, 32768, 40000, 65535, 65536, 1 << 31, 1<<31 - 1, 1 << 32, 1<<63 - 1, 1 << 63, ^uint64(0), ^uint64(0) - 7, ^uint64(0) - 8}[r.Intn(14)]
		o := offs[r.Intn(len(offs))]
		if o != 0 && v >= allocGuard && v < 1<<32 {
			v = 1 << 32
		}
		copy(in[o:], util.Uint64ToBytes(v))
		return in, fmt.Sprintf("length field at %d set to %d", o, v)
	case 5: // random byte anywhere
		j := r.Intn(len(in))
		in[j] ^= byte(1 + r.Intn(255))
		return in, fmt.Sprintf("byte flip at %d", j)
	case 6: // drop or duplicate a byte
		j := r.Intn(len(in))
		if r.Bool() {
			return append(in[:j:j], in[j+1:]...), fmt.Sprintf("byte %d removed", j)
		}
		return append(in[:j+1:j+1], in[j:]...), fmt.Sprintf("byte %d duplicated", j)
	default: // raw random bytes with a plausible count
		n := r.Range(0, 64)
		b := r.Bytes(n)
		if n >= 8 {
			copy(b, util.Uint64ToBytes(uint64(r.Intn(5))))
		}
		return b, "raw"
	}
}

// ---------------------------------------------------------------- EnsureRead

func (h *runner) ensureCases(n int) {
	r, res := h.r, h.res
	for i := 0; i < n; i++ {
		d := r.Bytes(r.Range(0, 40))
		ck := randChunking(r, len(d))
		ck.Ending = r.Intn(3)
		k := r.Range(0, len(d)+3)
		if r.Chance(1, 3) {
			k = len(d)
		}
		cr := newReader(d, ck)
		buf := make([]byte, k)
		tag, eof := tagOk, false
		var data []byte
		func() {
			defer func() {
				if p := recover(); p != nil {
					tag = tagPanic
				}
			}()
			nn, err := util.EnsureRead(context.Background(), cr, buf)
			if nn > uint64(len(buf)) {
				res.Fail("ensure-read-short", fmt.Sprintf("EnsureRead returned n=%d for a %d-byte buffer", nn, k), replay{Kind: "ensure", Input: hex.EncodeToString(d), Chunking: &ck, Count: k})
				nn = uint64(len(buf))
			}
			switch {
			case err == nil:
				data = buf[:nn]
			case errors.Is(err, io.EOF):
				data, eof = buf[:nn], true
			default:
				tag = tagErr
			}
			if tag == tagOk && int(nn) != k {
				res.Fail("ensure-read-short", fmt.Sprintf("EnsureRead returned n=%d for a %d-byte buffer without error", nn, k), replay{Kind: "ensure", Input: hex.EncodeToString(d), Chunking: &ck, Count: k})
			}
		}()
		res.Evaluations++
		// oracle: success iff enough bytes; data is the prefix; nothing over-read
		if tag == tagPanic {
			res.Fail("panic-ensure", "EnsureRead panicked", replay{Kind: "ensure", Input: hex.EncodeToString(d), Chunking: &ck, Count: k})
		}
		if (tag == tagOk) != (k <= len(d)) {
			res.Fail("ensure-read-wrong-outcome", fmt.Sprintf("EnsureRead of %d bytes from %d available: tag=%d", k, len(d), tag), replay{Kind: "ensure", Input: hex.EncodeToString(d), Chunking: &ck, Count: k})
		}
		rest := cr.rest()
		if tag == tagOk && (!bytes.Equal(data, d[:k]) || !bytes.Equal(rest, d[k:])) {
			res.Fail("ensure-read-wrong-data", fmt.Sprintf("EnsureRead of %d bytes returned wrong bytes or over-read", k), replay{Kind: "ensure", Input: hex.EncodeToString(d), Chunking: &ck, Count: k})
		}
		if tag != tagOk {
			data, rest, eof = nil, nil, false
		}
		h.cases.Add(fmt.Sprintf("CEnsure %s %s %s %s %s %s %s %s %s", vh.Hex(d), coqInts(ck.Sizes), vh.N(uint64(ck.Unit)), vh.N(uint64(ck.Ending)), vh.N(uint64(k)),
			vh.N(uint64(tag)), vh.Hex(data), vh.Bool(eof), vh.Hex(restIf(tag, rest))),
			map[string]any{"kind": "ensure", "input": hex.EncodeToString(d), "chunking": ck, "k": k, "tag": tag})
	}
}

func restIf(tag int, rest []byte) []byte {
	if tag != tagOk {
		return nil
	}
	return rest
}

// ---------------------------------------------------------------- frames

type frameObs struct {
	tag    int
	ver    []byte
	hdrs   [][]byte
	bodies [][]byte
	tail   []byte
	msg    string
}

func writeFrame(hdrs, bodies [][]byte, tail []byte) ([]byte, bool) {
	fw, buf := util.NewBufferBytesFrameWriter()
	if err := fw.Header(hdrs...); err != nil {
		return nil, false
	}
	for _, b := range bodies {
		if err := fw.Lengthed(b); err != nil {
			return nil, false
		}
	}
	if len(tail) > 0 {
		if _, err := fw.Writer().Write(tail); err != nil {
			return nil, false
		}
	}
	return append([]byte{}, buf.Bytes()...), true
}

func readFrame(in []byte, ck chunking, nb int) (o frameObs) {
	defer func() {
		if p := recover(); p != nil {
			o = frameObs{tag: tagPanic, msg: fmt.Sprint(p)}
		}
	}()
	cr := newReader(in, ck)
	fr, err := util.NewBytesFrameReader(cr)
	if err != nil {
		return frameObs{tag: tagErr, msg: "new: " + err.Error()}
	}
	v := fr.Version()
	hs, err := fr.Header()
	if err != nil {
		return frameObs{tag: tagErr, msg: "header: " + err.Error()}
	}
	var bodies [][]byte
	for i := 0; i < nb; i++ {
		called := false
		if err := fr.Lengthed(func(b []byte) error {
			called = true
			bodies = append(bodies, append([]byte{}, b...))
			return nil
		}); err != nil {
			return frameObs{tag: tagErr, msg: "lengthed: " + err.Error()}
		}
		if !called {
			return frameObs{tag: tagErr, msg: "lengthed: callback not called"}
		}
	}
	tail, err := fr.Body()
	if err != nil {
		return frameObs{tag: tagErr, msg: "body: " + err.Error()}
	}
	return frameObs{tag: tagOk, ver: v[:], hdrs: canon(hs), bodies: canon(bodies), tail: tail}
}

func (h *runner) addFrameCase(in []byte, ck chunking, nb int, o frameObs) {
	if h.cases.Len() >= h.budget+h.budget/3 {
		return
	}
	h.cases.Add(fmt.Sprintf("CFrame %s %s %s %s %s %s %s %s %s %s", vh.Hex(in), coqInts(ck.Sizes), vh.N(uint64(ck.Unit)), vh.N(uint64(ck.Ending)), vh.N(uint64(nb)),
		vh.N(uint64(o.tag)), vh.Hex(o.ver), coqHexList(o.hdrs), coqHexList(o.bodies), vh.Hex(o.tail)),
		map[string]any{"kind": "frame", "input": shortHex(in), "chunking": ck, "nb": nb, "tag": o.tag, "msg": o.msg})
}

func (h *runner) frames(n int) {
	r, res := h.r, h.res
	for i := 0; i < n; i++ {
		nh, nb := r.Intn(4), r.Intn(4)
		hdrs := make([][]byte, nh)
		for j := range hdrs {
			hdrs[j] = randItem(r, 40)
		}
		bodies := make([][]byte, nb)
		for j := range bodies {
			bodies[j] = randItem(r, 60)
		}
		var tail []byte
		if r.Bool() {
			tail = r.Bytes(r.Range(1, 30))
		}
		w, ok := writeFrame(hdrs, bodies, tail)
		rp := replay{Kind: "frame", Input: shortHex(w), Count: nb}
		if !ok {
			res.Fail("frame-write-error", "BytesFrameWriter refused a small frame", rp)
			continue
		}
		cks := []chunking{{}, {Ending: 1}, {Sizes: []int{1}}, {Sizes: []int{1}, Ending: 1}, {Unit: 1}, {Unit: 1, Ending: 1}, randChunking(r, len(w)), randChunking(r, len(w))}
		for _, ck := range cks {
			res.Evaluations++
			o := readFrame(w, ck, nb)
			rp.Chunking = &ck
			if o.tag != tagOk || !bytes.Equal(o.ver, []byte{0, 0}) || !itemsEqual(o.hdrs, canon(hdrs)) || !itemsEqual(o.bodies, canon(bodies)) || !bytes.Equal(o.tail, tail) {
				res.Fail("roundtrip-frame", fmt.Sprintf("frame with %d headers, %d bodies, %d tail bytes, chunking=%+v: tag=%d headers=%d bodies=%d tail=%d %s", nh, nb, len(tail), ck, o.tag, len(o.hdrs), len(o.bodies), len(o.tail), o.msg), rp)
			}
			res.Count("frame:"+hex.EncodeToString(w), true)
			h.addFrameCase(w, ck, nb, o)
		}
		// truncation of the framed part (the raw tail is not framed: cut before it)
		framed := len(w) - len(tail)
		for c := 0; c < framed; c++ {
			if framed > 60 && c%3 != i%3 {
				continue
			}
			ck := randChunking(r, c)
			ck.Ending = r.Intn(3)
			res.Evaluations++
			o := readFrame(w[:c], ck, nb)
			if o.tag != tagErr {
				res.Fail("truncation-accepted-frame", fmt.Sprintf("prefix of %d/%d framed bytes, chunking=%+v: tag=%d %s", c, framed, ck, o.tag, o.msg), replay{Kind: "frame", Input: shortHex(w[:c]), Count: nb, Chunking: &ck})
			}
			if c%6 == 0 {
				h.addFrameCase(w[:c], ck, nb, o)
			}
		}
		// mutated frames: no panic
		for k := 0; k < 3; k++ {
			in := append([]byte{}, w...)
			j := r.Intn(len(in))
			in[j] ^= byte(1) << uint(r.Intn(8))
			if a := hostileAlloc(in[min(2, len(in)):]); a > allocGuard {
				continue
			}
			if hasHostileBody(in) {
				continue
			}
			ck := randChunking(r, len(in))
			ck.Ending = r.Intn(3)
			res.Evaluations++
			h.mark(replay{Kind: "frame", Input: shortHex(in), Count: nb, Chunking: &ck})
			o := readFrame(in, ck, nb)
			if o.tag == tagPanic {
				res.Fail("panic-frame", "frame reader panicked: "+o.msg, replay{Kind: "frame", Input: shortHex(in), Count: nb, Chunking: &ck})
			}
			h.addFrameCase(in, ck, nb, o)
		}
	}
}

// any 8-byte window that decodes to a length between the guard and 2^31 (conservative memory guard for mutated frames)
func hasHostileBody(in []byte) bool {
	for i := 0; i+8 <= len(in); i++ {
		if v := be(in[i : i+8]); v > 1<<16 && v < 1<<32 {
			return true
		}
	}
	return false
}

// ---------------------------------------------------------------- main

func child(o *vh.Opts) {
	// cap the address space: a hostile length must never make the check eat the machine
	_ = syscall.Setrlimit(syscall.RLIMIT_AS, &syscall.Rlimit{Cur: 12 << 30, Max: 12 << 30})
	debug.SetGCPercent(50)
	h := &runner{o: o, r: vh.NewRand(vh.NewRand(o.Seed).U64()), cur: filepath.Join(o.Out, "current_case.json"), budget: o.Pick(1700, 10000),
		res:   vh.NewResult("lists written by WriteLengthedSlice/NewLengthedBytesSlice read back by ReadLengthedBytesSlice (with trailing data) and ReadLengthedSlice (chunked readers, 3 EOF policies); every/200 strict prefixes; bit flips, +-1 and boundary values in length fields, byte flips/drops/dups, raw bytes; frames; EnsureRead. Non-trivial = non-empty list / frame"),
		cases: &vh.Cases{Import: "From MV Require Import C29.Model.", Type: "case", CheckFn: "check", Shard: 400}}
	res := h.res

	if o.Replay != "" {
		var rp replay
		if err := vh.ReadReplay(o.Replay, &rp); err == nil {
			fmt.Printf("replay: %+v\n", rp)
			if b, err := hex.DecodeString(rp.Input); err == nil && rp.Input != "" {
				ob := readBuf(b)
				fmt.Printf("  ReadLengthedBytesSlice: tag=%d items=%d left=%d %s\n", ob.tag, len(ob.items), len(ob.rest), ob.msg)
				ck := chunking{}
				if rp.Chunking != nil {
					ck = *rp.Chunking
				}
				if hostileAlloc(b) <= allocGuard {
					so := readStream(b, ck)
					fmt.Printf("  ReadLengthedSlice %+v: tag=%d items=%d unread=%d %s\n", ck, so.tag, len(so.items), len(so.rest), so.msg)
				}
				if rp.Kind == "frame" {
					of := readFrame(b, ck, rp.Count)
					fmt.Printf("  frame %+v nb=%d: tag=%d hdrs=%d bodies=%d tail=%d %s\n", ck, rp.Count, of.tag, len(of.hdrs), len(of.bodies), len(of.tail), of.msg)
				}
			}
		}
	}

	// corpus: the formerly failing inputs, always first
	// (1) 40000 items: written, then read back as 0 items without error (ReadLengthedBytesSlice returned nil,nil,nil)
	for _, n := range []int{40000, 32768, 32767, 32766} {
		m := make([][]byte, n)
		for i := range m {
			m[i] = []byte{0xab}
		}
		h.oracleList(m, true, 24)
	}
	// a hand-made buffer announcing 40000 items (what the unfixed writer produced)
	{
		segs := []seg{{util.Uint64ToBytes(40000), 1}, {append(util.Uint64ToBytes(1), 0xab), 40000}}
		in := segsFlat(segs)
		ob := readBuf(in)
		res.Evaluations++
		if ob.tag != tagErr {
			res.Fail("silent-drop-buf", fmt.Sprintf("a buffer holding 40000 one-byte items: ReadLengthedBytesSlice -> tag=%d items=%d left=%d (no error)", ob.tag, len(ob.items), len(ob.rest)),
				replay{Kind: "buf", Count: 40000, Note: "u64be(40000) ++ 40000 x (u64be(1) ++ ab)"})
		}
		h.addBufCase(segs, ob)
		so := readStream(in, chunking{Unit: 4096})
		if so.tag != tagErr {
			res.Fail("silent-drop-stream", "a stream holding 40000 one-byte items was accepted", replay{Kind: "stream", Count: 40000})
		}
		h.addStreamCase(segs, chunking{Unit: 4096}, so)
	}
	// (2) frame whose first Read delivers a single byte (version read with one Read call)
	{
		w, _ := writeFrame([][]byte{[]byte("a"), []byte("bc")}, [][]byte{[]byte("body")}, nil)
		for _, ck := range []chunking{{Sizes: []int{1}}, {Unit: 1}, {Sizes: []int{0, 1, 0, 1}}} {
			o := readFrame(w, ck, 1)
			res.Evaluations++
			if o.tag != tagOk || len(o.hdrs) != 2 || len(o.bodies) != 1 {
				res.Fail("roundtrip-frame", fmt.Sprintf("frame delivered with a 1-byte first chunk: tag=%d headers=%d bodies=%d %s", o.tag, len(o.hdrs), len(o.bodies), o.msg), replay{Kind: "frame", Input: hex.EncodeToString(w), Count: 1, Chunking: &ck})
			}
			h.addFrameCase(w, ck, 1, o)
		}
	}

	if pf := os.Getenv("C29_PPROF"); pf != "" {
		f, _ := os.Create(pf)
		_ = pprof.StartCPUProfile(f)
		defer pprof.StopCPUProfile()
	}
	t0 := time.Now()
	lap := func(what string) {
		fmt.Fprintf(os.Stderr, "c29: %s %.1fs (cases so far %d)\n", what, time.Since(t0).Seconds(), h.cases.Len())
		t0 = time.Now()
	}
	lap("corpus")
	// generated lists
	nl := o.Pick(130, 4000)
	nTrunc := 200
	for i := 0; i < nl; i++ {
		m := randList(h.r)
		h.oracleList(m, true, nTrunc)
		// mutations of this list's encoding
		w, ok, _ := writeSlice(m)
		if !ok {
			continue
		}
		nm := 8
		if len(w) > 20000 {
			nm = 3
		}
		for k := 0; k < nm; k++ {
			in, what := h.mutate(w, m)
			h.oracleMutated(in, what, k < 2)
		}
	}
	res.Write(o.Out) // partial result: survives a later crash of the process
	lap("generated lists")
	// big lists around the limit and up to 40000 items
	nb := o.Pick(6, 60)
	for i := 0; i < nb; i++ {
		var n int
		switch i % 6 {
		case 0:
			n = h.r.Range(32700, 32767)
		case 1:
			n = h.r.Range(32768, 40000)
		case 2:
			n = h.r.Range(3001, 32000)
		case 3:
			n = 32767
		case 4:
			n = 32768
		default:
			n = h.r.Range(20000, 40000)
		}
		h.oracleList(bigList(h.r, n), i < 6, 200)
	}
	lap("big lists")
	// fully random big lists (oracle only)
	for i := 0; i < o.Pick(2, 20); i++ {
		n := h.r.Range(3000, 40000)
		m := make([][]byte, n)
		for j := range m {
			m[j] = randItem(h.r, 24)
		}
		h.oracleList(m, false, 200)
		if w, ok, _ := writeSlice(m); ok {
			for k := 0; k < 6; k++ {
				in, what := h.mutate(w, m)
				h.oracleMutated(in, what, false)
			}
		}
	}
	lap("random big lists")
	h.ensureCases(o.Pick(200, 2000))
	lap("ensure")
	h.frames(o.Pick(40, 600))
	lap("frames")

	var ms runtime.MemStats
	runtime.ReadMemStats(&ms)
	res.Note(fmt.Sprintf("harness memory: TotalAlloc=%d MiB Sys=%d MiB; stream cases whose first unsatisfiable length field is in (%d MiB, 2 GiB) are skipped (ReadLengthed allocates the announced length up front, see notes/C29.md)", ms.TotalAlloc>>20, ms.Sys>>20, allocGuard>>20))
	res.ModelCases = h.cases.Len()
	if err := h.cases.Write(o.Out); err != nil {
		panic(err)
	}
	res.Write(o.Out)
	_ = os.Remove(h.cur)
}

func main() {
	isChild := flag.Bool("child", false, "internal")
	o := vh.ParseFlags()
	if *isChild {
		child(o)
		return
	}
	args := append([]string{"-child"}, os.Args[1:]...)
	cmd := exec.Command(os.Args[0], args...)
	var stderr bytes.Buffer
	cmd.Stdout = os.Stdout
	cmd.Stderr = &stderr
	err := cmd.Run()
	os.Stderr.Write(tailBytes(stderr.Bytes(), 4000))
	if err == nil {
		return
	}
	// the real code killed the process: report it as a failure of the property (never a panic / crash)
	res := vh.NewResult("crash of the child process while running the real code")
	if b, e := os.ReadFile(filepath.Join(o.Out, "result.json")); e == nil {
		var partial vh.Result
		if json.Unmarshal(b, &partial) == nil {
			res.Failures = append(res.Failures, partial.Failures...)
			res.Evaluations = partial.Evaluations
		}
	}
	var rp any
	if b, e := os.ReadFile(filepath.Join(o.Out, "current_case.json")); e == nil {
		_ = json.Unmarshal(b, &rp)
	}
	res.Fail("crash", "the process running util/bytes.go died: "+err.Error()+": "+string(tailBytes(stderr.Bytes(), 600)), rp)
	empty := &vh.Cases{Import: "From MV Require Import C29.Model.", Type: "case", CheckFn: "check"}
	_ = empty.Write(o.Out)
	res.Write(o.Out)
}

func tailBytes(b []byte, n int) []byte {
	if len(b) > n {
		return b[len(b)-n:]
	}
	return b
}
