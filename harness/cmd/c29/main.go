package main

import (
	"bytes"
	"fmt"
	"io"
	"runtime"

	"github.com/spikeekips/mitum/util"
)

type chunkReader struct {
	b      []byte
	sizes  []int
	i      int
	eofTog bool
}

func (c *chunkReader) Read(p []byte) (int, error) {
	if len(c.b) == 0 {
		return 0, io.EOF
	}
	n := len(c.b)
	if c.i < len(c.sizes) && c.sizes[c.i] < n {
		n = c.sizes[c.i]
	}
	c.i++
	if n > len(p) {
		n = len(p)
	}
	copy(p, c.b[:n])
	c.b = c.b[n:]
	if len(c.b) == 0 && c.eofTog {
		return n, io.EOF
	}
	return n, nil
}

func main() {
	m := make([][]byte, 40000)
	for i := range m {
		m[i] = []byte{byte(i)}
	}
	b, err := util.NewLengthedBytesSlice(m)
	fmt.Println("write", len(b), err)
	r, left, err := util.ReadLengthedBytesSlice(b)
	fmt.Println("buf read", len(r), len(left), err)
	n, hs, err := util.ReadLengthedSlice(bytes.NewReader(b))
	fmt.Println("stream read", n, len(hs), err)

	// frame
	fw, buf := util.NewBufferBytesFrameWriter()
	_ = fw.Header([]byte("a"), []byte("bc"))
	_ = fw.Lengthed([]byte("body"))
	raw := append([]byte{}, buf.Bytes()...)
	fmt.Printf("%x\n", raw)
	for _, sizes := range [][]int{{1, 1000}, {2, 1000}, {1, 1, 1, 1, 1, 1, 1, 1, 1, 1, 1, 1, 1, 1, 1, 1, 1, 1, 1, 1, 1, 1, 1, 1, 1, 1, 1, 1, 1, 1, 1, 1, 1, 1, 1, 1, 1, 1, 1, 1, 1, 1, 1, 1, 1, 1, 1, 1, 1, 1, 1, 1, 1, 1, 1, 1, 1, 1, 1, 1, 1, 1}} {
		fr, err := util.NewBytesFrameReader(&chunkReader{b: raw, sizes: sizes})
		fmt.Println("frame reader", err)
		hs, err := fr.Header()
		fmt.Println("  header", hs, err)
		err = fr.Lengthed(func(b []byte) error { fmt.Printf("  body %q\n", b); return nil })
		fmt.Println("  lengthed", err)
	}

	// hostile length
	var ms runtime.MemStats
	runtime.ReadMemStats(&ms)
	before := ms.TotalAlloc
	hostile := append(util.Uint64ToBytes(0x7fffffff), 1, 2, 3)
	_, p, err := util.ReadLengthed(bytes.NewReader(hostile))
	runtime.ReadMemStats(&ms)
	fmt.Println("hostile", len(p), err, "alloc MiB", (ms.TotalAlloc-before)>>20, "sys MiB", ms.Sys>>20)
}
