// probe: reproduce the check/enter TOCTOU of States.switchState on the real code (scratch, not a registered check)
package main

import (
	"fmt"
	"sync"
	"sync/atomic"
	"time"

	"github.com/spikeekips/mitum/base"
	isaacstates "github.com/spikeekips/mitum/isaac/states"
)

type ctl struct {
	mu       sync.Mutex
	pauseAt  int64 // pause at the k-th state() call after arm (0 = never)
	count    atomic.Int64
	paused   chan struct{}
	release  chan struct{}
	entered  []string
}

func (c *ctl) OnState(s isaacstates.StateType) {
	k := c.count.Add(1)
	if c.pauseAt > 0 && k == c.pauseAt {
		c.paused <- struct{}{}
		<-c.release
	}
}
func (c *ctl) OnExit(s, next isaacstates.StateType) int { return 0 }
func (c *ctl) OnNew(s isaacstates.StateType) bool       { return true }
func (c *ctl) OnEnter(s, from isaacstates.StateType, allowed bool) (int, isaacstates.StateType, isaacstates.StateType) {
	c.mu.Lock()
	c.entered = append(c.entered, fmt.Sprintf("%s<-%s allowed=%v", s, from, allowed))
	c.mu.Unlock()
	return 0, "", ""
}
func (c *ctl) OnWhenSetAllowConsensus(s isaacstates.StateType, allow bool) {}

func main() {
	all := []isaacstates.StateType{isaacstates.StateStopped, isaacstates.StateBooting, isaacstates.StateJoining, isaacstates.StateConsensus, isaacstates.StateSyncing, isaacstates.StateHandover, isaacstates.StateBroken}
	for k := int64(1); k <= 12; k++ {
		c := &ctl{paused: make(chan struct{}, 1), release: make(chan struct{}, 1)}
		args := isaacstates.NewStatesArgs()
		args.AllowConsensus = true
		st, err := isaacstates.NewStates(base.RandomNetworkID(), base.RandomLocalNode(), args)
		if err != nil {
			panic(err)
		}
		for _, s := range all {
			st.SetHandler(s, isaacstates.VerifNewStubHandler(s, c))
		}
		if err := st.VerifInit(); err != nil {
			panic(err)
		}
		_ = st.VerifEnsureSwitchState(isaacstates.VerifSwitchContext(isaacstates.StateStopped, isaacstates.StateBooting, false))
		_ = st.VerifEnsureSwitchState(isaacstates.VerifSwitchContext(isaacstates.StateBooting, isaacstates.StateSyncing, false))
		c.count.Store(0)
		c.pauseAt = k
		done := make(chan error, 1)
		go func() {
			done <- st.VerifSwitchState(isaacstates.VerifSwitchContext(isaacstates.StateSyncing, isaacstates.StateConsensus, false))
		}()
		toggled := "not-reached"
		select {
		case <-c.paused:
			tdone := make(chan bool, 1)
			go func() { tdone <- st.SetAllowConsensus(false) }()
			select {
			case <-tdone:
				toggled = "toggle completed while switch paused"
			case <-time.After(30 * time.Millisecond):
				toggled = "toggle blocked (inside lock)"
			}
			c.release <- struct{}{}
			<-done
			if toggled != "toggle completed while switch paused" {
				<-tdone
			}
		case err := <-done:
			_ = err
		}
		c.mu.Lock()
		last := c.entered[len(c.entered)-1]
		c.mu.Unlock()
		fmt.Printf("pause at state() #%d: %s; current=%s allowed=%v; last enter: %s\n", k, toggled, st.Current(), st.AllowedConsensus(), last)
	}
}
