// c08: the local node never equivocates.
//
// Real isaacstates.States.mimicBallotFunc (verif hook, stub current handler in Syncing) + real
// DefaultBallotBroadcaster + real isaacdatabase.TempPool (in-memory leveldb) behind a gate wrapper, and a
// recording broadcastFunc.
//
//	mode A (forced schedules): 2-3 threads (mimic deliveries from sync-source nodes, direct Broadcast calls of
//	        locally signed ballots as the consensus handlers / timers do); every thread parks at its pool lookup,
//	        at the end of the lookup and at broadcastFunc; all interleavings (2 threads) / random ones (3) are
//	        driven step by step and the pool content and the broadcast log are compared with the Coq model after
//	        every step (cases_NNN.v).
//	mode B (free): 16 goroutines with runtime.Gosched noise in the gates; oracle on the broadcast log.
//
// Oracle = the property: among the ballots signed by the local node and handed to broadcastFunc, at most one
// fact per (point, stage, suffrage-confirm).
package main

import (
	"bytes"
	"context"
	"errors"
	"fmt"
	"runtime"
	"strconv"
	"strings"
	"sync"
	"sync/atomic"
	"time"

	"github.com/spikeekips/mitum/base"
	"github.com/spikeekips/mitum/isaac"
	isaacdatabase "github.com/spikeekips/mitum/isaac/database"
	isaacstates "github.com/spikeekips/mitum/isaac/states"
	leveldbstorage "github.com/spikeekips/mitum/storage/leveldb"
	"github.com/spikeekips/mitum/util"
	"github.com/spikeekips/mitum/util/encoder"
	"github.com/spikeekips/mitum/util/valuehash"
	"verifharness/poolh"
	"verifharness/vh"
)

var netID = base.NetworkID("verif-c08")

func goid() int64 {
	var buf [64]byte
	n := runtime.Stack(buf[:], false)
	f := bytes.Fields(buf[:n])
	id, _ := strconv.ParseInt(string(f[1]), 10, 64)
	return id
}

// ---------------------------------------------------------------- keys, facts, ballots

type keyT struct {
	H     int64  `json:"h"`
	Round uint64 `json:"round"`
	SC    bool   `json:"sc"` // suffrage-confirm INIT ballot (same stage point, other pool key)
}

func (k keyT) point() base.Point { return base.RawPoint(k.H, k.Round) }
func (k keyT) id() uint64 {
	n := uint64(k.H)*8 + k.Round*2
	if k.SC {
		n++
	}
	return n
}

type world struct {
	local    base.LocalNode
	nodes    []base.LocalNode // sync sources 1..3
	pool     isaac.BallotPool // the real TempPool
	gp       *gatedPool
	bb       *isaacstates.DefaultBallotBroadcaster
	tp       *isaacdatabase.TempPool
	faulted  atomic.Bool      // the pool fails from now on
	inject   bool             // fault = errors injected by the wrapper (else: the real TempPool was closed)
	snap     map[uint64]int64 // pool facts of the watched keys at the moment of the fault
	rbb      *recBroadcaster  // what States and the handlers are wired to: records the ballots handed to Broadcast
	slog     []logEnt         // local ballots produced for voting / sending ("signed"), in order
	remoteVP base.Voteproof   // ACCEPT voteproof instance of the remote nodes (carried by their ballots)
	localVP  base.Voteproof   // the local node's own instance of the same voteproof
	st       *isaacstates.States
	mimic    func(base.Ballot)
	mu       sync.Mutex
	blog     []logEnt
	factID   map[string]uint64 // fact hash -> fact id
	threads  sync.Map          // goid -> *thread
	noise    bool
	nz       atomic.Uint64
	lookupNo sync.Map // goid -> count of pool.Ballot calls (free of gating after the first)
}

type logEnt struct {
	Key   uint64 `json:"key"`
	Fact  uint64 `json:"fact"`
	Local bool   `json:"local"`
}

type nullCtl struct{}

func (nullCtl) OnState(isaacstates.StateType)                       {}
func (nullCtl) OnExit(_, _ isaacstates.StateType) int               { return 0 }
func (nullCtl) OnNew(isaacstates.StateType) bool                    { return true }
func (nullCtl) OnWhenSetAllowConsensus(isaacstates.StateType, bool) {}
func (nullCtl) OnEnter(_, _ isaacstates.StateType, _ bool) (int, isaacstates.StateType, isaacstates.StateType) {
	return 0, "", ""
}

// recBroadcaster records every ballot handed to Broadcast (what the caller has signed or decided to reuse)
// and delegates to the real DefaultBallotBroadcaster
type recBroadcaster struct {
	w     *world
	inner *isaacstates.DefaultBallotBroadcaster
}

func (r *recBroadcaster) Broadcast(bl base.Ballot) error {
	r.w.noteSigned(bl)
	return r.inner.Broadcast(bl)
}

func (r *recBroadcaster) Ballot(point base.Point, stage base.Stage, sc bool) (base.Ballot, bool, error) {
	return r.inner.Ballot(point, stage, sc)
}

// noteSigned: a ballot of the local node was produced for voting or sending; a driven thread producing the
// same ballot again (vote, then broadcast) is noted once
func (w *world) noteSigned(bl base.Ballot) {
	if !bl.SignFact().Node().Equal(w.local.Address()) {
		return
	}
	e := logEnt{Key: keyOfBallot(bl), Fact: w.fid(bl.SignFact().Fact().Hash()), Local: true}
	if t := w.thread(); t != nil {
		if t.noted != nil && *t.noted == e {
			return
		}
		t.noted = &e
	}
	w.mu.Lock()
	w.slog = append(w.slog, e)
	w.mu.Unlock()
}

// gatedPool wraps the real pool: the first Ballot() of a driven thread is bracketed by two gates
type gatedPool struct {
	w    *world
	real isaac.BallotPool
	// Close of the real TempPool is kept apart from calls in flight: TempPool.Ballot dereferences db.encs after
	// db.st() and panics (nil pointer) when Close runs in between -- a robustness defect of isaac/database/pool.go
	// seen with this harness, outside C08; here only the behaviour of an already closed pool is wanted
	cl sync.RWMutex
}

func (g *gatedPool) closeReal() {
	g.cl.Lock()
	defer g.cl.Unlock()
	_ = g.w.tp.Close()
}

var errPoolFault = errors.New("verif: pool fault")

func (g *gatedPool) Ballot(point base.Point, stage base.Stage, sc bool) (base.Ballot, bool, error) {
	first := false
	if t := g.w.thread(); t != nil && !t.looked {
		t.looked = true
		first = true
		g.w.gate("lookup")
	}
	g.w.yield()
	g.cl.RLock()
	bl, found, err := g.real.Ballot(point, stage, sc)
	g.cl.RUnlock()
	if g.w.faulted.Load() && g.w.inject {
		bl, found, err = nil, false, errPoolFault
	}
	if first {
		if t := g.w.thread(); t != nil {
			t.found = found
			t.lookErr = err != nil
		}
		g.w.gate("looked")
	}
	return bl, found, err
}

func (g *gatedPool) SetBallot(bl base.Ballot) (bool, error) {
	g.w.yield()
	if g.w.faulted.Load() && g.w.inject {
		return false, errPoolFault
	}
	g.cl.RLock()
	defer g.cl.RUnlock()
	return g.real.SetBallot(bl)
}

type thread struct {
	id      int
	arrive  chan string
	proceed chan struct{}
	done    chan struct{}
	looked  bool
	found   bool
	lookErr bool
	noted   *logEnt
}

func (w *world) thread() *thread {
	if v, ok := w.threads.Load(goid()); ok {
		return v.(*thread)
	}
	return nil
}

func (w *world) gate(name string) {
	t := w.thread()
	if t == nil {
		return
	}
	t.arrive <- name
	<-t.proceed
}

func (w *world) yield() {
	if !w.noise {
		return
	}
	n := w.nz.Add(0x9E3779B97F4A7C15)
	for i := uint64(0); i < (n>>61)&3; i++ {
		runtime.Gosched()
	}
}

func (w *world) fid(h util.Hash) uint64 {
	w.mu.Lock()
	defer w.mu.Unlock()
	if id, ok := w.factID[h.String()]; ok {
		return id
	}
	id := uint64(len(w.factID) + 1000)
	w.factID[h.String()] = id
	return id
}

func keyOfBallot(bl base.Ballot) uint64 {
	p := bl.Point()
	k := keyT{H: int64(p.Height()), Round: uint64(p.Round()), SC: isaac.IsSuffrageConfirmBallotFact(bl.SignFact().Fact())}
	return k.id()
}

func newWorld(seed uint64) *world {
	w := &world{factID: map[string]uint64{}}
	w.local = base.NewBaseLocalNode(base.DummyNodeHint, poolh.Key(seed, 0), poolh.Addr(0))
	for i := 1; i <= 3; i++ {
		w.nodes = append(w.nodes, base.NewBaseLocalNode(base.DummyNodeHint, poolh.Key(seed, i), poolh.Addr(i)))
	}
	encs, enc := poolh.Encoders()
	for _, d := range []encoder.DecodeDetail{
		{Hint: isaac.INITVoteproofHint, Instance: isaac.INITVoteproof{}},
		{Hint: isaac.ACCEPTVoteproofHint, Instance: isaac.ACCEPTVoteproof{}},
	} {
		if err := encs.AddDetail(d); err != nil {
			panic(err)
		}
	}
	p, err := isaacdatabase.NewTempPool(leveldbstorage.NewMemStorage(), encs, enc, 0)
	if err != nil {
		panic(err)
	}
	w.pool = p
	w.tp = p
	// every node builds the ACCEPT voteproof of the previous block from its own ballotbox: same majority,
	// another instance (voteproof ids are per instance)
	mkvp := func() base.Voteproof {
		prevpoint := base.RawPoint(32, 0)
		afact := isaac.NewACCEPTBallotFact(prevpoint, valuehash.NewSHA256([]byte("c08-pr-32")), valuehash.NewSHA256([]byte("c08-block-32")), nil)
		asf := isaac.NewACCEPTBallotSignFact(afact)
		if err := asf.NodeSign(w.nodes[0].Privatekey(), netID, w.nodes[0].Address()); err != nil {
			panic(err)
		}
		vp := isaac.NewACCEPTVoteproof(prevpoint)
		vp.SetMajority(afact).SetSignFacts([]base.BallotSignFact{asf}).SetThreshold(base.Threshold(100)).Finish()
		return vp
	}
	w.remoteVP, w.localVP = mkvp(), mkvp()
	w.gp = &gatedPool{w: w, real: p}
	w.bb = isaacstates.NewDefaultBallotBroadcaster(w.local.Address(), w.gp, func(bl base.Ballot) error {
		w.gate("bcast")
		w.yield()
		e := logEnt{Key: keyOfBallot(bl), Fact: w.fid(bl.SignFact().Fact().Hash()), Local: bl.SignFact().Node().Equal(w.local.Address())}
		w.mu.Lock()
		w.blog = append(w.blog, e)
		w.mu.Unlock()
		return nil
	})
	args := isaacstates.NewStatesArgs()
	args.AllowConsensus = true
	w.rbb = &recBroadcaster{w: w, inner: w.bb}
	args.BallotBroadcaster = w.rbb
	args.IsInSyncSourcePoolFunc = func(a base.Address) bool {
		for _, n := range w.nodes {
			if n.Address().Equal(a) {
				return true
			}
		}
		return false
	}
	st, serr := isaacstates.NewStates(netID, w.local, args)
	if serr != nil {
		panic(serr)
	}
	for _, s := range []isaacstates.StateType{isaacstates.StateStopped, isaacstates.StateBooting, isaacstates.StateSyncing, isaacstates.StateBroken} {
		st.SetHandler(s, isaacstates.VerifNewStubHandler(s, nullCtl{}))
	}
	if err := st.VerifInit(); err != nil {
		panic(err)
	}
	_ = st.VerifEnsureSwitchState(isaacstates.VerifSwitchContext(isaacstates.StateStopped, isaacstates.StateBooting, false))
	_ = st.VerifEnsureSwitchState(isaacstates.VerifSwitchContext(isaacstates.StateBooting, isaacstates.StateSyncing, false))
	if st.Current() != isaacstates.StateSyncing {
		panic("not syncing")
	}
	w.st = st
	w.mimic = st.VerifMimicBallotFunc()
	return w
}

// an INIT (or suffrage-confirm INIT) ballot for key k with fact number f, signed by node
func (w *world) ballot(k keyT, f uint64, node base.LocalNode) base.Ballot {
	prev := valuehash.NewSHA256([]byte(fmt.Sprintf("c08-prev-%d", f)))
	pr := valuehash.NewSHA256([]byte(fmt.Sprintf("c08-proposal-%d", f)))
	var fact base.INITBallotFact
	if k.SC {
		fact = isaac.NewSuffrageConfirmBallotFact(k.point(), prev, pr, []util.Hash{prev})
	} else {
		fact = isaac.NewINITBallotFact(k.point(), prev, pr, nil)
	}
	sf := isaac.NewINITBallotSignFact(fact)
	if err := sf.NodeSign(node.Privatekey(), netID, node.Address()); err != nil {
		panic(err)
	}
	w.mu.Lock()
	w.factID[fact.Hash().String()] = f
	w.mu.Unlock()
	vp := w.remoteVP
	if node.Address().Equal(w.local.Address()) {
		vp = w.localVP
	}
	return isaac.NewINITBallot(vp, sf, nil)
}

func prevOf(f uint64) util.Hash { return valuehash.NewSHA256([]byte(fmt.Sprintf("c08-prev-%d", f))) }

// handlerFor returns a bare real baseBallotHandler whose proposal selection yields the proposal that makes
// the INIT fact number f for key k (registered), should the handler sign a new ballot
func (w *world) handlerFor(k keyT, f uint64) *isaacstates.VerifBallotHandler {
	pr := isaac.NewProposalSignFact(isaac.NewProposalFact(k.point(), w.local.Address(), prevOf(f), nil))
	fact := isaac.NewINITBallotFact(k.point(), prevOf(f), pr.Fact().Hash(), nil)
	w.mu.Lock()
	w.factID[fact.Hash().String()] = f
	w.mu.Unlock()
	return isaacstates.VerifNewBallotHandler(netID, w.local, w.rbb,
		func(context.Context, base.Point, util.Hash, time.Duration) (base.ProposalSignFact, error) {
			return pr, nil
		},
		func(bl base.Ballot) (bool, error) { w.noteSigned(bl); return true, nil })
}

// ---------------------------------------------------------------- threads of mode A

type threadSpec struct {
	Kind string `json:"kind"` // mimic (delivery of a ballot signed by source node Src) | direct (Broadcast of a local ballot) | foreign (Broadcast of another node's ballot)
	Key  keyT   `json:"key"`
	Fact uint64 `json:"fact"`
	Src  int    `json:"src"`
}

func (ts threadSpec) steps() int {
	switch ts.Kind {
	case "handler":
		return 4
	case "mimic":
		return 3
	default:
		return 2
	}
}

type stepObs struct {
	Thread int      `json:"thread"`
	Gate   string   `json:"gate"`
	Found  *bool    `json:"found,omitempty"`
	Pool   []int64  `json:"pool"` // fact held for each watched key (-1 none)
	Log    []logEnt `json:"log"`
	Signed []logEnt `json:"signed"`
}

func (w *world) poolFact(k keyT) int64 {
	if w.faulted.Load() { // nothing can be written any more: the content at the moment of the fault
		if f, ok := w.snap[k.id()]; ok {
			return f
		}
		return -1
	}
	bl, found, err := w.pool.Ballot(k.point(), base.StageINIT, k.SC)
	if err != nil || !found {
		return -1
	}
	return int64(w.fid(bl.SignFact().Fact().Hash()))
}

type replayT struct {
	Fault    string       `json:"fault,omitempty"` // "close": the real TempPool is closed, "inject": the wrapper returns errors; at schedule element -1
	Mode     string       `json:"mode"`
	Threads  []threadSpec `json:"threads,omitempty"`
	Schedule []int        `json:"schedule,omitempty"`
	Seed     uint64       `json:"seed,omitempty"`
}

func equivocations(log []logEnt) []string {
	seen := map[uint64]uint64{}
	var out []string
	for i, e := range log {
		if !e.Local {
			continue
		}
		if f, ok := seen[e.Key]; ok && f != e.Fact {
			out = append(out, fmt.Sprintf("broadcast %d: local ballot with fact %d for key %d after fact %d", i, e.Fact, e.Key, f))
		}
		if _, ok := seen[e.Key]; !ok {
			seen[e.Key] = e.Fact
		}
	}
	return out
}

// runSchedule drives the threads through the schedule (a sequence of thread indexes; each occurrence
// executes that thread's next atomic step) on the real code and renders the model case.
func runSchedule(res *vh.Result, cases *vh.Cases, seed uint64, specs []threadSpec, schedule []int, tag string) {
	runScheduleF(res, cases, seed, specs, schedule, "", tag)
}

// a schedule element -1 makes the pool fail from then on (fault = "close" | "inject")
func runScheduleF(res *vh.Result, cases *vh.Cases, seed uint64, specs []threadSpec, schedule []int, fault string, tag string) {
	w := newWorld(seed)
	w.inject = fault == "inject"
	rp := replayT{Mode: "forced", Threads: specs, Schedule: schedule, Fault: fault}
	keys := []keyT{}
	seenKey := map[uint64]bool{}
	for _, ts := range specs {
		if !seenKey[ts.Key.id()] {
			seenKey[ts.Key.id()] = true
			keys = append(keys, ts.Key)
		}
	}
	ths := make([]*thread, len(specs))
	started := make([]bool, len(specs))
	finished := make([]bool, len(specs))
	stepNo := make([]int, len(specs))
	var obs []stepObs
	var coqSteps, coqObs []string
	start := func(i int) {
		ts := specs[i]
		t := &thread{id: i, arrive: make(chan string), proceed: make(chan struct{}), done: make(chan struct{})}
		ths[i] = t
		var bl base.Ballot
		switch ts.Kind {
		case "mimic":
			bl = w.ballot(ts.Key, ts.Fact, w.nodes[ts.Src%len(w.nodes)])
		case "direct":
			bl = w.ballot(ts.Key, ts.Fact, w.local)
		default:
			bl = w.ballot(ts.Key, ts.Fact, w.nodes[ts.Src%len(w.nodes)])
		}
		go func() {
			w.threads.Store(goid(), t)
			defer close(t.done)
			switch ts.Kind {
			case "mimic":
				w.mimic(bl)
			case "handler": // the consensus handler prepares its INIT ballot for the point, votes it, broadcasts it
				h := w.handlerFor(ts.Key, ts.Fact)
				hbl, err := h.MakeINITBallot(context.Background(), ts.Key.point(), prevOf(ts.Fact), w.localVP)
				if err != nil {
					return // the pool lookup failed: the handler gives up (moves to broken in the real node)
				}
				_, _ = h.Vote(hbl)
				w.gate("set")
				_ = w.rbb.Broadcast(hbl)
			default:
				t.looked = true // no gated lookup on this path
				w.gate("set")
				_ = w.rbb.Broadcast(bl)
			}
		}()
	}
	wait := func(i int) (string, bool) {
		select {
		case g := <-ths[i].arrive:
			return g, true
		case <-ths[i].done:
			return "", false
		case <-time.After(10 * time.Second):
			res.Fail("deadlock", fmt.Sprintf("thread %d did not reach its next gate", i), rp)
			return "", false
		}
	}
	at := make([]string, len(specs)) // gate each thread is parked at
	for _, i := range schedule {
		if i < 0 {
			if !w.faulted.Load() {
				w.snap = map[uint64]int64{}
				for _, k := range keys {
					w.snap[k.id()] = w.poolFact(k)
				}
				if !w.inject {
					w.gp.closeReal()
				}
				w.faulted.Store(true)
			}
			continue
		}
		if finished[i] {
			continue
		}
		faultedNow := w.faulted.Load()
		if !started[i] {
			started[i] = true
			start(i)
			g, ok := wait(i)
			if !ok {
				finished[i] = true
				continue
			}
			at[i] = g
		}
		// execute the step that starts at gate at[i]
		gateName := at[i]
		ths[i].proceed <- struct{}{}
		g, ok := wait(i)
		if !ok {
			finished[i] = true
		}
		at[i] = g
		stepNo[i]++
		ts := specs[i]
		ob := stepObs{Thread: i, Gate: gateName}
		var coq string
		tid := vh.N(uint64(i))
		switch gateName {
		case "lookup":
			if ths[i].lookErr {
				coq = fmt.Sprintf("ALookupErr %s", tid)
				break
			}
			f := ths[i].found
			ob.Found = &f
			coq = fmt.Sprintf("ALookup %s %s", tid, vh.N(ts.Key.id()))
		case "looked", "set":
			bterm := fmt.Sprintf("(mkB %s %s %s)", vh.N(ts.Key.id()), vh.N(ts.Fact), vh.Bool(ts.Kind != "foreign"))
			switch {
			case gateName == "looked" && ths[i].lookErr:
				coq = "" // the caller gave up after the failed lookup
			case ts.Kind == "handler" && gateName == "looked":
				coq = fmt.Sprintf("APrepare %s %s %s", tid, vh.N(ts.Key.id()), vh.N(ts.Fact)) // make (reuse or sign) + vote
			case ts.Kind == "handler" && faultedNow:
				coq = fmt.Sprintf("ASetPreparedErr %s", tid)
			case ts.Kind == "handler":
				coq = fmt.Sprintf("ASetPrepared %s", tid)
			case gateName == "looked" && ths[i].found:
				coq = "" // the mimic delivery ends here (the pool had a ballot): no model step
			case faultedNow && ts.Kind != "foreign":
				coq = fmt.Sprintf("ASetErr %s %s", tid, bterm) // the pool fails: Broadcast returns the error
			default:
				// the region sign + set under bb.l has run
				coq = fmt.Sprintf("ASet %s (mkB %s %s %s)", tid, vh.N(ts.Key.id()), vh.N(ts.Fact), vh.Bool(ts.Kind != "foreign"))
			}
		case "bcast":
			coq = fmt.Sprintf("ABcast %s", tid)
		}
		for _, k := range keys {
			ob.Pool = append(ob.Pool, w.poolFact(k))
		}
		w.mu.Lock()
		ob.Log = append([]logEnt(nil), w.blog...)
		ob.Signed = append([]logEnt(nil), w.slog...)
		w.mu.Unlock()
		obs = append(obs, ob)
		// oracle on what is SIGNED: a prepare path (handler, mimic) whose lookup found a pooled ballot for the
		// key must not produce another fact for it
		if ts.Kind == "handler" && gateName == "looked" && ths[i].found && ths[i].noted != nil {
			if pf := w.poolFact(ts.Key); pf >= 0 && uint64(pf) != ths[i].noted.Fact {
				res.Fail("signed-second-fact-after-pooled", fmt.Sprintf("thread %d (%s): the pool held fact %d for key %d at its lookup, it signed and voted fact %d", i, ts.Kind, pf, ts.Key.id(), ths[i].noted.Fact), rp)
			}
		}
		if coq != "" {
			coqSteps = append(coqSteps, coq)
			look := "None"
			if ob.Found != nil {
				look = "(Some None)"
				if *ob.Found {
					// the fact found is the pool's for that key
					look = fmt.Sprintf("(Some (Some %s))", vh.N(uint64(w.poolFact(ts.Key))))
				}
			}
			pl := make([]string, len(ob.Pool))
			for j, f := range ob.Pool {
				pl[j] = "None"
				if f >= 0 {
					pl[j] = vh.Some(vh.N(uint64(f)))
				}
			}
			lg := make([]string, len(ob.Log))
			for j, e := range ob.Log {
				lg[j] = vh.Tuple(vh.N(e.Key), vh.N(e.Fact), vh.Bool(e.Local))
			}
			sg := make([]string, len(ob.Signed))
			for j, e := range ob.Signed {
				sg[j] = vh.Tuple(vh.N(e.Key), vh.N(e.Fact))
			}
			coqObs = append(coqObs, vh.Tuple(look, vh.List(pl), vh.List(lg), vh.List(sg)))
		}
	}
	// let unfinished threads run to completion (not part of the compared schedule)
	for i := range specs {
		for started[i] && !finished[i] {
			select {
			case ths[i].proceed <- struct{}{}:
			case <-ths[i].done:
				finished[i] = true
			case <-ths[i].arrive:
			case <-time.After(10 * time.Second):
				res.Fail("deadlock", fmt.Sprintf("thread %d did not finish", i), rp)
				finished[i] = true
			}
		}
	}
	w.mu.Lock()
	final := append([]logEnt(nil), w.blog...)
	w.mu.Unlock()
	eq := equivocations(final)
	for _, e := range eq {
		res.Fail("equivocation", e, rp)
	}
	sameKey := false
	for i := range specs {
		for j := range specs {
			if i < j && specs[i].Key.id() == specs[j].Key.id() && specs[i].Fact != specs[j].Fact {
				sameKey = true
			}
		}
	}
	ks := make([]string, len(keys))
	for i, k := range keys {
		ks[i] = vh.N(k.id())
	}
	res.Count(fmt.Sprintf("%v|%v", specs, schedule), sameKey)
	res.Dist(fmt.Sprintf("%s_threads=%d", tag, len(specs)))
	cases.Add(vh.Tuple(vh.List(ks), vh.List(coqSteps), vh.List(coqObs)), map[string]any{"threads": specs, "schedule": schedule, "obs": obs})
	if tag == "random3" {
		res.Sample(map[string]any{"threads": specs, "schedule": schedule, "log": final})
	}
}

// all interleavings of threads with the given step counts
func interleavings(counts []int) [][]int {
	var out [][]int
	var rec func(cur []int, left []int)
	rec = func(cur []int, left []int) {
		doneAll := true
		for i, n := range left {
			if n > 0 {
				doneAll = false
				left[i]--
				rec(append(cur, i), left)
				left[i]++
			}
		}
		if doneAll {
			out = append(out, append([]int(nil), cur...))
		}
	}
	rec(nil, append([]int(nil), counts...))
	return out
}

// ---------------------------------------------------------------- mode B: free running

func runFree(res *vh.Result, r *vh.Rand, seed uint64) {
	w := newWorld(seed)
	w.noise = true
	rp := replayT{Mode: "free", Seed: seed}
	var wg sync.WaitGroup
	keys := []keyT{{H: 33, Round: 0}, {H: 33, Round: 1}, {H: 33, Round: 0, SC: true}}
	for g := 0; g < 16; g++ {
		gr := vh.NewRand(r.U64())
		wg.Add(1)
		go func(g int) {
			defer wg.Done()
			for i := 0; i < 6; i++ {
				k := keys[gr.Intn(len(keys))]
				f := uint64(1 + gr.Intn(4))
				switch x := gr.Intn(10); {
				case x < 6: // delivery of a ballot of a sync source
					w.mimic(w.ballot(k, f, w.nodes[gr.Intn(len(w.nodes))]))
				case x < 9: // what the handlers do: use the ballot in the pool, else make one; then broadcast
					bl, found, _ := w.bb.Ballot(k.point(), base.StageINIT, k.SC)
					if !found {
						bl = w.ballot(k, f, w.local)
					}
					runtime.Gosched()
					_ = w.bb.Broadcast(bl)
				default:
					_ = w.bb.Broadcast(w.ballot(k, f, w.nodes[gr.Intn(len(w.nodes))]))
				}
			}
		}(g)
	}
	if r.Chance(1, 3) { // the pool fails somewhere in the middle (closed as when the node stops, or storage errors)
		w.inject = r.Bool()
		spins := r.Intn(400)
		wg.Add(1)
		go func() {
			defer wg.Done()
			for i := 0; i < spins; i++ {
				runtime.Gosched()
			}
			if !w.inject {
				w.gp.closeReal()
			}
			w.snap = map[uint64]int64{}
			w.faulted.Store(true)
		}()
		res.Dist("free_with_pool_fault")
	}
	fin := make(chan struct{})
	go func() { wg.Wait(); close(fin) }()
	select {
	case <-fin:
	case <-time.After(30 * time.Second):
		res.Fail("deadlock", "free-running goroutines did not finish", rp)
		return
	}
	w.mu.Lock()
	final := append([]logEnt(nil), w.blog...)
	w.mu.Unlock()
	for _, e := range equivocations(final) {
		res.Fail("equivocation", "free-running: "+e, rp)
	}
	nlocal := 0
	for _, e := range final {
		if e.Local {
			nlocal++
		}
	}
	res.Count(fmt.Sprintf("free-%d", seed), nlocal >= 2)
	res.Dist(fmt.Sprintf("free_local_broadcasts>=%d", min(nlocal/10*10, 50)))
}

func main() {
	o := vh.ParseFlags()
	res := vh.NewResult("forced: all interleavings of 2 threads and random interleavings of 3 (mimic deliveries, direct broadcasts of local ballots, foreign ballots) on the real mimicBallotFunc + DefaultBallotBroadcaster + TempPool, pool content and broadcast log compared with the model after every step; free: 16 goroutines with yield noise, oracle on the broadcast log; non-trivial = two threads carry different facts for one key")
	cases := &vh.Cases{Import: "From MV Require Import C08.Model.", Type: "case", CheckFn: "check", Shard: 300}
	r := vh.NewRand(o.Seed)
	if o.Replay != "" {
		var rp replayT
		if err := vh.ReadReplay(o.Replay, &rp); err == nil && rp.Mode == "forced" && len(rp.Threads) > 0 {
			runScheduleF(res, cases, o.Seed, rp.Threads, rp.Schedule, rp.Fault, "replay")
			fmt.Printf("replayed schedule %v; failures so far: %d\n", rp.Schedule, len(res.Failures))
		}
	}
	k0 := keyT{H: 33, Round: 0}
	k1 := keyT{H: 33, Round: 1}
	k0sc := keyT{H: 33, Round: 0, SC: true}
	// syncing: the INIT ballot of a sync source for the point is mimicked (and pooled); then, in consensus, the
	// handler prepares its own INIT ballot for the same point from its own instance of the voteproof
	runSchedule(res, cases, o.Seed, []threadSpec{{"mimic", k0, 100, 0}, {"handler", k0, 200, 0}}, []int{0, 0, 0, 1, 1, 1, 1}, "corpus")
	runSchedule(res, cases, o.Seed, []threadSpec{{"handler", k0, 100, 0}, {"handler", k0, 200, 0}}, []int{0, 0, 0, 0, 1, 1, 1, 1}, "corpus")
	// pool faults: a local ballot for the point is pooled and sent; the pool fails (TempPool closed while the node
	// stops / storage error); another ballot for the same point reaches Broadcast
	for _, fk := range []string{"close", "inject"} {
		runScheduleF(res, cases, o.Seed, []threadSpec{{"direct", k0, 100, 0}, {"direct", k0, 200, 0}}, []int{0, 0, -1, 1, 1}, fk, "corpus-fault")
		runScheduleF(res, cases, o.Seed, []threadSpec{{"mimic", k0, 100, 0}, {"direct", k0, 200, 0}}, []int{0, 0, 0, -1, 1, 1}, fk, "corpus-fault")
		runScheduleF(res, cases, o.Seed, []threadSpec{{"mimic", k0, 100, 0}, {"mimic", k0, 200, 1}}, []int{0, 0, 0, 1, 1, -1, 1}, fk, "corpus-fault")
		runScheduleF(res, cases, o.Seed, []threadSpec{{"handler", k0, 100, 0}, {"handler", k0, 200, 0}}, []int{0, 0, 0, 0, 1, 1, -1, 1, 1}, fk, "corpus-fault")
		runScheduleF(res, cases, o.Seed, []threadSpec{{"direct", k0, 100, 0}, {"mimic", k0, 200, 1}}, []int{0, 0, 1, -1, 1, 1}, fk, "corpus-fault")
	}
	// the witness of the theorem C08_ignore_set_result_refuted, always first
	runSchedule(res, cases, o.Seed, []threadSpec{{"mimic", k0, 100, 0}, {"mimic", k0, 200, 1}}, []int{0, 1, 0, 1, 0, 1}, "corpus")
	pairs := [][]threadSpec{
		{{"mimic", k0, 100, 0}, {"mimic", k0, 200, 1}},
		{{"mimic", k0, 100, 0}, {"mimic", k0, 100, 1}},
		{{"mimic", k0, 100, 0}, {"mimic", k1, 200, 1}},
		{{"mimic", k0, 100, 0}, {"mimic", k0sc, 200, 1}},
		{{"mimic", k0, 100, 0}, {"direct", k0, 200, 0}},
		{{"direct", k0, 100, 0}, {"direct", k0, 200, 0}},
		{{"direct", k0, 100, 0}, {"direct", k0, 100, 0}},
		{{"direct", k0, 100, 0}, {"foreign", k0, 200, 2}},
		{{"mimic", k0sc, 100, 0}, {"direct", k0sc, 200, 0}},
		{{"mimic", k0, 100, 0}, {"handler", k0, 200, 0}},
		{{"handler", k0, 100, 0}, {"handler", k0, 200, 0}},
		{{"handler", k0, 100, 0}, {"direct", k0, 200, 0}},
		{{"handler", k0, 100, 0}, {"mimic", k1, 200, 1}},
	}
	for _, p := range pairs {
		for _, sch := range interleavings([]int{p[0].steps(), p[1].steps()}) {
			runSchedule(res, cases, o.Seed, p, sch, "pairs")
			// the same interleaving with a pool fault at a random position
			at := r.Intn(len(sch) + 1)
			fs := append(append(append([]int(nil), sch[:at]...), -1), sch[at:]...)
			runScheduleF(res, cases, o.Seed, p, fs, []string{"close", "inject"}[r.Intn(2)], "pairs-fault")
		}
	}
	n3 := o.Pick(600, 12000)
	kinds := []string{"mimic", "mimic", "mimic", "direct", "direct", "foreign", "handler", "handler"}
	ks := []keyT{k0, k0, k0, k1, k0sc}
	for i := 0; i < n3; i++ {
		specs := make([]threadSpec, 3)
		counts := make([]int, 3)
		for j := range specs {
			specs[j] = threadSpec{Kind: kinds[r.Intn(len(kinds))], Key: ks[r.Intn(len(ks))], Fact: uint64(100 * (1 + r.Intn(3))), Src: r.Intn(3)}
			if specs[j].Kind == "handler" {
				specs[j].Key.SC = false // makeINITBallot prepares the plain INIT ballot of the point
			}
			counts[j] = specs[j].steps()
		}
		var sch []int
		left := append([]int(nil), counts...)
		for {
			var cand []int
			for j, c := range left {
				if c > 0 {
					cand = append(cand, j)
				}
			}
			if len(cand) == 0 {
				break
			}
			j := cand[r.Intn(len(cand))]
			left[j]--
			sch = append(sch, j)
		}
		if r.Chance(1, 3) {
			at := r.Intn(len(sch) + 1)
			fs := append(append(append([]int(nil), sch[:at]...), -1), sch[at:]...)
			runScheduleF(res, cases, o.Seed, specs, fs, []string{"close", "inject"}[r.Intn(2)], "random3-fault")
		} else {
			runSchedule(res, cases, o.Seed, specs, sch, "random3")
		}
	}
	nfree := 60
	if o.Thorough() {
		nfree = 1500
	}
	for i := 0; i < nfree; i++ {
		runFree(res, r, o.Seed*7919+uint64(i))
	}
	_ = strings.Join
	res.ModelCases = cases.Len()
	if err := cases.Write(o.Out); err != nil {
		panic(err)
	}
	res.Write(o.Out)
}
