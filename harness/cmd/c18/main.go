// c18: isaac.SuffrageStateBuilder.Build never panics and returns only gap-free, linked chains.
// Real SuffrageStateBuilder with chains of real isaacblock.SuffrageProof (real suffrage states,
// fixedtree proofs), batch limits 1..7, honest and malformed remotes.  A panic inside a worker
// goroutine kills the process, so the cases run in a child process (re-exec with -c18child); the
// parent records a crash of the child as the observable "Panic" of the case that was running.
package main

import (
	"bufio"
	"context"
	"encoding/json"
	"errors"
	"flag"
	"fmt"
	"os"
	"os/exec"
	"strings"
	"sync"
	"sync/atomic"
	"time"

	"github.com/spikeekips/mitum/base"
	"github.com/spikeekips/mitum/isaac"
	isaacblock "github.com/spikeekips/mitum/isaac/block"
	"github.com/spikeekips/mitum/util"
	"github.com/spikeekips/mitum/util/fixedtree"
	"github.com/spikeekips/mitum/util/valuehash"
	"verifharness/vh"
)

// abstract record of one proof (what the Coq model reads)
type prec struct {
	SH     int64 `json:"sh"`    // suffrage height
	BH     int64 `json:"bh"`    // block height (state height = manifest height)
	SID    int   `json:"sid"`   // state hash id
	SPrev  int   `json:"sprev"` // state.Previous() id (0 = nil)
	TreeOK bool  `json:"tree_ok"`
	Valid  bool  `json:"valid"` // SuffrageProof.IsValid (used for the last proof only)
	key    string
}

type gresp struct {
	Kind int   `json:"kind"` // 0 error, 1 not found, 2 proof
	P    *prec `json:"p,omitempty"`
}

type ccase struct {
	Idx    int     `json:"idx"`
	Local  *prec   `json:"local"`
	Last   int     `json:"last"` // 0 error, 1 not updated, 2 proof
	LastP  *prec   `json:"lastp,omitempty"`
	Get    []gresp `json:"get"` // answers for suffrage heights from, from+1, ...
	Limit  int     `json:"limit"`
	Keys   []int   `json:"keys"`
	Delay  int     `json:"delay"`
	Forced bool    `json:"forced"` // the arrival order given by Keys is enforced (gated), not approximated by delays
	CandOK bool    `json:"cand_ok"`
	Kind   string  `json:"kind"`
}

type cres struct {
	Idx   int      `json:"idx"`
	Code  int      `json:"code"` // 0 ok, 1 error, 2 panic
	Out   [][2]int `json:"out"`  // (sh, sid) per returned proof; sid -1 = nil entry
	Err   string   `json:"err"`
	LastH int64    `json:"lasth"`
	Walk  string   `json:"walk"` // "" = the returned proofs, walked with the real Prove(previous state), form a chain
}

// ---------------------------------------------------------------- real objects

var networkID = base.NetworkID([]byte("c18-network"))

type world struct {
	proofs map[string]base.SuffrageProof // by key
	recs   map[string]prec
	nodes  []base.Node
	nextID int
}

func newWorld() *world {
	w := &world{proofs: map[string]base.SuffrageProof{}, recs: map[string]prec{}, nextID: 1}
	for i := 0; i < 6; i++ {
		w.nodes = append(w.nodes, base.RandomNode())
	}
	return w
}

// makes a real SuffrageProof: suffrage height sh at block height bh, state.Previous = prev's state hash
func (w *world) mk(key string, sh, bh int64, prev *prec, prevKey string, treeOK bool, stateHeightMismatch bool) prec {
	nn := int(sh)%len(w.nodes) + 1
	sufnodes := make([]base.SuffrageNodeStateValue, nn)
	for i := 0; i < nn; i++ {
		sufnodes[i] = isaac.NewSuffrageNodeStateValue(w.nodes[i], base.Height(bh))
	}
	sv := isaac.NewSuffrageNodesStateValue(base.Height(sh), sufnodes)
	var prevhash util.Hash
	sprev := 0
	if prev != nil {
		prevhash = w.proofs[prevKey].State().Hash()
		sprev = prev.SID
	}
	st := base.NewBaseState(base.Height(bh), isaac.SuffrageStateKey, sv, prevhash, []util.Hash{valuehash.RandomSHA256()})
	others := []string{valuehash.RandomSHA256().String(), valuehash.RandomSHA256().String(), valuehash.RandomSHA256().String()}
	leaves := append([]string{}, others...)
	if treeOK {
		leaves = append(leaves, st.Hash().String())
	} else {
		leaves = append(leaves, valuehash.RandomSHA256().String())
	}
	tw, _ := fixedtree.NewWriter(base.StateFixedtreeHint, uint64(len(leaves)))
	for i := range leaves {
		if err := tw.Add(uint64(i), fixedtree.NewBaseNode(leaves[i])); err != nil {
			panic(err)
		}
	}
	_ = tw.Write(func(uint64, fixedtree.Node) error { return nil })
	tr, err := tw.Tree()
	if err != nil {
		panic(err)
	}
	proof, err := tr.Proof(leaves[len(leaves)-1])
	if err != nil {
		panic(err)
	}
	mh := bh
	if stateHeightMismatch {
		mh = bh + 1
	}
	// the manifest commits to the states tree: SuffrageProof.Prove compares the proof's root with it
	manifest := base.NewDummyManifest(base.Height(mh), valuehash.RandomSHA256())
	if nodes := proof.Nodes(); len(nodes) > 0 && (treeOK || sh%2 == 0) {
		manifest.SetStatesTree(nodes[len(nodes)-1].Hash())
	} else {
		manifest.SetStatesTree(valuehash.RandomSHA256()) // bad tree, second flavour: foreign root
	}
	m := base.NewDummyBlockMap(manifest)
	sp := isaacblock.NewSuffrageProof(m, st, proof)
	r := prec{SH: sh, BH: bh, SID: w.nextID, SPrev: sprev, TreeOK: treeOK, key: key}
	w.nextID++
	r.Valid = sp.IsValid(networkID) == nil
	w.proofs[key] = sp
	w.recs[key] = r
	return r
}

// a consistent chain of n proofs, suffrage heights 0..n-1, block heights 0 < ... increasing
func (w *world) chain(name string, n int, r *vh.Rand) []prec {
	out := make([]prec, n)
	bh := int64(0)
	for k := 0; k < n; k++ {
		key := fmt.Sprintf("%s%d", name, k)
		var prev *prec
		prevKey := ""
		if k > 0 {
			prev = &out[k-1]
			prevKey = out[k-1].key
		}
		out[k] = w.mk(key, int64(k), bh, prev, prevKey, true, false)
		bh += int64(r.Range(1, 4))
	}
	return out
}

// gatedProof wraps a real proof to learn when the job that received it has finished its locked
// section: buildBatch calls SuffrageHeight() a third time right after prove() returned, still
// under the lock.
type gatedProof struct {
	base.SuffrageProof
	n    *int32
	done chan struct{}
}

func (g gatedProof) SuffrageHeight() base.Height {
	if atomic.AddInt32(g.n, 1) == 3 {
		close(g.done)
	}
	return g.SuffrageProof.SuffrageHeight()
}

// ---------------------------------------------------------------- one case on the real builder

var errRemote = errors.New("verif: remote fault")

func runReal(w *world, c ccase) cres {
	res := cres{Idx: c.Idx}
	var localstate base.State
	from := int64(0)
	if c.Local != nil {
		localstate = w.proofs[c.Local.key].State()
		from = c.Local.SH + 1
	}
	var lastCand base.State
	var inflight int32
	// forced arrival order: the answer for offset i is held back until the job of the offset with
	// the previous rank in the same batch has left its locked section
	returned := make([]chan struct{}, len(c.Get))
	proved := make([]chan struct{}, len(c.Get))
	for i := range returned {
		returned[i] = make(chan struct{})
		proved[i] = make(chan struct{})
	}
	predOf := func(i int) int {
		if !c.Forced || i < 0 || i >= len(c.Keys) || c.Keys[i] == 0 {
			return -1
		}
		lo := (i / c.Limit) * c.Limit
		for j := lo; j < lo+c.Limit && j < len(c.Keys); j++ {
			if c.Keys[j] == c.Keys[i]-1 {
				return j
			}
		}
		return -1
	}
	b := isaac.NewSuffrageStateBuilder(networkID,
		func(context.Context) (base.Height, base.SuffrageProof, bool, error) {
			switch c.Last {
			case 0:
				return base.NilHeight, nil, false, errRemote
			case 1:
				return base.Height(77), nil, false, nil
			default:
				return base.Height(c.LastP.BH + 3), w.proofs[c.LastP.key], true, nil
			}
		},
		func(_ context.Context, h base.Height) (base.SuffrageProof, bool, error) {
			atomic.AddInt32(&inflight, 1)
			defer atomic.AddInt32(&inflight, -1)
			i := int(h.Int64() - from)
			if c.Delay > 0 && i >= 0 && i < len(c.Keys) {
				time.Sleep(time.Duration(c.Keys[i]*c.Delay) * time.Microsecond)
			}
			if i < 0 || i >= len(c.Get) {
				return nil, false, nil
			}
			if j := predOf(i); j >= 0 {
				select {
				case <-returned[j]:
					select {
					case <-proved[j]:
					case <-time.After(30 * time.Millisecond): // the predecessor failed or is not a proof
					}
				case <-time.After(2 * time.Second):
				}
			}
			defer close(returned[i])
			switch g := c.Get[i]; g.Kind {
			case 0:
				close(proved[i])
				return nil, false, errRemote
			case 1:
				close(proved[i])
				return nil, false, nil
			default:
				if c.Forced {
					return gatedProof{SuffrageProof: w.proofs[g.P.key], n: new(int32), done: proved[i]}, true, nil
				}
				return w.proofs[g.P.key], true, nil
			}
		},
		func(context.Context) (base.State, bool, error) {
			if !c.CandOK {
				return nil, false, errRemote
			}
			return lastCand, false, nil
		},
	)
	b.SetBatchLimit(int64(c.Limit))
	lasth, proofs, _, err := b.Build(context.Background(), localstate)
	// jobs may still be running after an error (C33 known finding): let them end inside this case
	for k := 0; k < 2000 && atomic.LoadInt32(&inflight) > 0; k++ {
		time.Sleep(500 * time.Microsecond)
	}
	if err != nil {
		time.Sleep(time.Millisecond)
	}
	res.LastH = lasth.Int64()
	if err != nil {
		res.Code = 1
		res.Err = err.Error()
		return res
	}
	// identify the returned proofs by state hash
	byHash := map[string]prec{}
	for k, p := range w.proofs {
		byHash[p.State().Hash().String()] = w.recs[k]
	}
	for _, p := range proofs {
		if p == nil {
			res.Out = append(res.Out, [2]int{-1, -1})
			continue
		}
		r := byHash[p.State().Hash().String()]
		res.Out = append(res.Out, [2]int{int(p.SuffrageHeight().Int64()), r.SID})
	}
	// the property's own reading on the real objects: every returned proof is proved by the real
	// SuffrageProof.Prove against the state of its predecessor (the first against the local state)
	prevst := localstate
	for i, p := range proofs {
		if p == nil {
			res.Walk = fmt.Sprintf("entry %d is nil", i)
			break
		}
		if want := from + int64(i); p.SuffrageHeight().Int64() != want {
			res.Walk = fmt.Sprintf("entry %d has suffrage height %d, want %d", i, p.SuffrageHeight(), want)
			break
		}
		if prevst == nil && p.State().Height() != base.GenesisHeight {
			res.Walk = fmt.Sprintf("entry %d is not a genesis proof but has no predecessor", i)
			break
		}
		if prevst != nil && p.State().Previous() == nil {
			res.Walk = fmt.Sprintf("entry %d has no previous state hash", i)
			break
		}
		if perr := p.Prove(prevst); perr != nil {
			res.Walk = fmt.Sprintf("entry %d is not proved against its predecessor: %v", i, perr)
			break
		}
		prevst = p.State()
	}
	return res
}

// ---------------------------------------------------------------- case generation (deterministic from the seed)

func genCases(w *world, seed uint64, n int) []ccase {
	r := vh.NewRand(seed)
	A := w.chain("A", 14, r)
	B := w.chain("B", 14, r)
	// malformed single proofs
	badTree := map[int]prec{}
	for k := 0; k < 14; k++ {
		var prev *prec
		pk := ""
		if k > 0 {
			prev = &A[k-1]
			pk = A[k-1].key
		}
		badTree[k] = w.mk(fmt.Sprintf("T%d", k), int64(k), A[k].BH, prev, pk, false, false)
	}
	// suffrage height 0 at a non-genesis block, with a previous hash: Prove(nil) territory
	lateGenesis := w.mk("G0late", 0, 5, &B[3], B[3].key, true, false)
	// same block height as its predecessor (Prove: "higher height")
	sameHeight := map[int]prec{}
	for k := 1; k < 14; k++ {
		sameHeight[k] = w.mk(fmt.Sprintf("S%d", k), int64(k), A[k-1].BH, &A[k-1], A[k-1].key, true, false)
	}
	// a state without previous hash at a non-genesis block: valid for BaseState.IsValid, and
	// SuffrageProof.Prove calls Previous().Equal() on it
	nilPrev := map[int]prec{}
	for k := 1; k < 14; k++ {
		nilPrev[k] = w.mk(fmt.Sprintf("N%d", k), int64(k), A[k].BH, nil, "", true, false)
	}
	// invalid as a last proof: state height != manifest height
	invalidLast := map[int]prec{}
	for k := 1; k < 14; k++ {
		invalidLast[k] = w.mk(fmt.Sprintf("I%d", k), int64(k), A[k].BH, &A[k-1], A[k-1].key, true, true)
	}

	mkGet := func(from, to int, ch []prec) []gresp {
		var g []gresp
		for k := from; k <= to; k++ {
			p := ch[k]
			g = append(g, gresp{Kind: 2, P: &p})
		}
		return g
	}
	kinds := []string{"honest", "honest", "missing", "error", "dup-prev", "dup-next", "below-local", "above-last", "foreign", "foreign-tail",
		"bad-tree", "same-block-height", "late-genesis", "nil-previous", "last-foreign", "last-invalid", "last-error", "last-not-updated", "last-older", "cand-error", "swapped", "last-huge", "last-stale-suffrage"}
	var out []ccase
	add := func(c ccase) {
		c.Idx = len(out)
		size := len(c.Get)
		c.Keys = make([]int, size)
		for lo := 0; lo < size; lo += c.Limit {
			hi := lo + c.Limit
			if hi > size {
				hi = size
			}
			p := r.Perm(hi - lo)
			for j := lo; j < hi; j++ {
				c.Keys[j] = p[j-lo]
			}
		}
		out = append(out, c)
	}
	// corpus: the reproduced defects
	for _, lim := range []int{3, 100, 1, 2, 7} {
		add(ccase{Local: nil, Last: 2, LastP: &A[7], Get: mkGet(0, 7, A), Limit: lim, CandOK: true, Kind: "corpus-honest-0-7"})
	}
	{
		g := mkGet(3, 7, A)
		g[2] = gresp{Kind: 2, P: &A[0]} // answer below the local height: index -2 before the fix
		add(ccase{Local: &A[2], Last: 2, LastP: &A[7], Get: g, Limit: 3, CandOK: true, Kind: "corpus-below-local"})
		g2 := mkGet(3, 7, A)
		g2[0] = gresp{Kind: 2, P: &A[1]}
		add(ccase{Local: &A[2], Last: 2, LastP: &A[7], Get: g2, Limit: 100, CandOK: true, Kind: "corpus-below-local"})
		add(ccase{Local: nil, Last: 2, LastP: &A[3], Get: append([]gresp{{Kind: 2, P: &lateGenesis}}, mkGet(1, 3, A)...), Limit: 2, CandOK: true, Kind: "corpus-late-genesis"})
	}
	// remote's last proof at a block height above everything local but with a suffrage height at or
	// below the local one (stale / foreign remote): Build takes it for new, there is nothing to fetch
	stale := map[int]prec{}
	for j := 0; j < 9; j++ {
		stale[j] = w.mk(fmt.Sprintf("X%d", j), int64(j+1), A[13].BH+int64(5+j), &A[j], A[j].key, true, false)
	}
	for _, c := range [][2]int{{5, 2}, {5, 4}, {9, 0}, {3, 2}, {8, 8}} { // (local L, stale on top of j): sh = j+1 <= L, or L+1
		if c[1] > 8 {
			continue
		}
		p := stale[c[1]]
		add(ccase{Local: &A[c[0]], Last: 2, LastP: &p, Get: nil, Limit: 3, CandOK: true, Kind: "corpus-last-stale-suffrage"})
	}
	// exhaustive: every arrival order of a batch of 3 and 4 (enforced) x every position of a splice
	// to the foreign chain B (the remote's last proof is then B's, so only the link check can object)
	var permsOf func(n int) [][]int
	permsOf = func(n int) [][]int {
		if n == 1 {
			return [][]int{{0}}
		}
		var out [][]int
		for _, p := range permsOf(n - 1) {
			for k := 0; k <= len(p); k++ {
				q := append(append(append([]int{}, p[:k]...), n-1), p[k:]...)
				out = append(out, q)
			}
		}
		return out
	}
	addForced := func(c ccase, keys []int) {
		c.Idx = len(out)
		c.Keys = keys
		c.Forced = true
		out = append(out, c)
	}
	for _, n := range []int{3, 4} {
		for _, L := range []int{-1, 2} {
			from := L + 1
			var local *prec
			if L >= 0 {
				local = &A[L]
			}
			for _, perm := range permsOf(n) {
				for at := -1; at < n; at++ { // -1: honest
					g := mkGet(from, from+n-1, A)
					lastp := &A[from+n-1]
					kind := "forced-honest"
					if at >= 0 {
						kind = "forced-splice"
						for j := at; j < n; j++ {
							g[j] = gresp{Kind: 2, P: &B[from+j]}
						}
						lastp = &B[from+n-1]
					}
					for _, lim := range []int{n, n + 2} {
						addForced(ccase{Local: local, Last: 2, LastP: lastp, Get: g, Limit: lim, CandOK: true, Kind: kind}, append([]int{}, perm...))
					}
				}
			}
		}
	}
	// two batches of 3, the same enforced order in both, splice at every position (incl. the batch boundary)
	for _, perm := range permsOf(3) {
		for at := 0; at < 6; at++ {
			g := mkGet(1, 6, A)
			for j := at; j < 6; j++ {
				g[j] = gresp{Kind: 2, P: &B[1+j]}
			}
			addForced(ccase{Local: &A[0], Last: 2, LastP: &B[6], Get: g, Limit: 3, CandOK: true, Kind: "forced-splice"},
				append(append([]int{}, perm...), perm...))
		}
		addForced(ccase{Local: &A[0], Last: 2, LastP: &A[6], Get: mkGet(1, 6, A), Limit: 3, CandOK: true, Kind: "forced-honest"},
			append(append([]int{}, perm...), perm...))
	}
	{
		g := mkGet(3, 7, A)
		p := nilPrev[5]
		g[2] = gresp{Kind: 2, P: &p}
		add(ccase{Local: &A[2], Last: 2, LastP: &A[7], Get: g, Limit: 3, CandOK: true, Kind: "corpus-nil-previous"})
	}
	for len(out) < n {
		kind := kinds[r.Intn(len(kinds))]
		limit := r.Range(1, 7)
		var local *prec
		L := -1
		if r.Chance(2, 3) {
			L = r.Range(0, 9)
			local = &A[L]
		}
		E := r.Range(L+1, 13) // remote's last suffrage height
		if r.Chance(1, 4) {   // multiples of the limit
			cnt := limit * r.Range(1, 3)
			if L+cnt <= 13 {
				E = L + cnt
			}
		}
		from := L + 1
		c := ccase{Local: local, Last: 2, LastP: &A[E], Get: mkGet(from, E, A), Limit: limit, CandOK: true, Kind: kind}
		if r.Chance(1, 3) {
			c.Delay = r.Range(20, 100)
		} else if r.Chance(1, 2) {
			c.Forced = true
		}
		size := E - from + 1
		at := r.Intn(size)
		switch r.Intn(3) {
		case 0:
			at = size - 1
		case 1:
			at = (at / limit) * limit
		}
		switch kind {
		case "missing":
			c.Get[at] = gresp{Kind: 1}
		case "error":
			c.Get[at] = gresp{Kind: 0}
		case "dup-prev":
			if from+at-1 >= 0 {
				c.Get[at] = gresp{Kind: 2, P: &A[from+at-1]}
			}
		case "dup-next":
			if from+at+1 <= 13 {
				c.Get[at] = gresp{Kind: 2, P: &A[from+at+1]}
			}
		case "below-local":
			if L >= 0 {
				c.Get[at] = gresp{Kind: 2, P: &A[r.Intn(L+1)]}
			}
		case "above-last":
			if E+1 <= 13 {
				c.Get[at] = gresp{Kind: 2, P: &A[r.Range(E+1, 13)]}
			}
		case "foreign":
			c.Get[at] = gresp{Kind: 2, P: &B[from+at]}
		case "foreign-tail":
			for j := at; j < size; j++ {
				c.Get[j] = gresp{Kind: 2, P: &B[from+j]}
			}
			if r.Bool() {
				c.LastP = &B[E]
			}
		case "bad-tree":
			p := badTree[from+at]
			c.Get[at] = gresp{Kind: 2, P: &p}
		case "same-block-height":
			if from+at >= 1 {
				p := sameHeight[from+at]
				c.Get[at] = gresp{Kind: 2, P: &p}
			}
		case "nil-previous":
			if from+at >= 1 {
				p := nilPrev[from+at]
				c.Get[at] = gresp{Kind: 2, P: &p}
			}
		case "late-genesis":
			if from == 0 {
				c.Get[0] = gresp{Kind: 2, P: &lateGenesis}
			}
		case "last-foreign":
			c.LastP = &B[E]
		case "last-invalid":
			if E >= 1 {
				p := invalidLast[E]
				c.LastP = &p
			}
		case "last-error":
			c.Last = 0
		case "last-not-updated":
			c.Last = 1
		case "last-older":
			if L >= 0 {
				c.LastP = &A[r.Intn(L+1)]
				c.Get = nil
			}
		case "cand-error":
			c.CandOK = false
		case "swapped":
			if at+1 < size {
				c.Get[at], c.Get[at+1] = c.Get[at+1], c.Get[at]
			}
		case "last-stale-suffrage":
			if L >= 1 {
				p := stale[r.Intn(min(L, 9))] // suffrage height j+1 <= L, block height above all
				c.LastP = &p
				c.Get = nil
			}
		case "last-huge":
			// the last proof claims a suffrage height far above what the remote serves
			c.Get = c.Get[:at+1]
		}
		add(c)
	}
	return out
}

// ---------------------------------------------------------------- child

func child(seed uint64, n, from int) {
	w := newWorld()
	cases := genCases(w, seed, n)
	out := bufio.NewWriter(os.Stdout)
	for _, c := range cases {
		if c.Idx < from {
			continue
		}
		b, _ := json.Marshal(c)
		fmt.Fprintf(out, "START %s\n", b)
		out.Flush()
		r := runReal(w, c)
		rb, _ := json.Marshal(r)
		fmt.Fprintf(out, "RESULT %s\n", rb)
		out.Flush()
	}
	fmt.Fprintln(out, "END")
	out.Flush()
}

// ---------------------------------------------------------------- parent

func precTerm(p *prec) string {
	return vh.Tuple(vh.Z(p.SH), vh.Z(p.BH), vh.N(uint64(p.SID)), vh.N(uint64(p.SPrev)), vh.Bool(p.TreeOK), vh.Bool(p.Valid))
}

func natList(xs []int) string {
	ss := make([]string, len(xs))
	for i, x := range xs {
		ss[i] = fmt.Sprintf("%d", x)
	}
	return "[" + strings.Join(ss, "; ") + "]%nat"
}

func main() {
	isChild := flag.Bool("c18child", false, "")
	cfrom := flag.Int("c18from", 0, "")
	cn := flag.Int("c18n", 0, "")
	o := vh.ParseFlags()
	if *isChild {
		child(o.Seed, *cn, *cfrom)
		return
	}
	res := vh.NewResult("real isaac.SuffrageStateBuilder.Build on chains of real isaacblock.SuffrageProof (suffrage heights up to 13, local state none or 0..9, limits 1..7, random arrival order by delays), in a child process; honest remotes and single malformations (missing, error, duplicate, below local, above last, foreign chain, bad tree proof, wrong block height, suffrage height 0 at a non-genesis block, nil previous state hash, foreign/invalid/older last proof, swapped); non-trivial = more than one batch or a malformation")
	cases := &vh.Cases{Import: "From MV Require Import C18.Model.", Type: "case", CheckFn: "check", Shard: 300}
	n := o.Pick(1600, 20000)

	from := 0
	crashes := 0
	var mu sync.Mutex
	_ = mu
	handled := 0
	process := func(c ccase, r cres) {
		handled++
		key := fmt.Sprintf("%s/%d/%d/%v", c.Kind, c.Limit, len(c.Get), c.Local == nil)
		res.Count(key, len(c.Get) > c.Limit || !strings.Contains(c.Kind, "honest"))
		res.Dist("kind:" + c.Kind)
		if len(c.Get) > 0 && len(c.Get)%c.Limit == 0 {
			res.Dist("size_multiple_of_limit")
		}
		// ---- property oracle, independent of the model
		switch r.Code {
		case 2:
			res.Fail("panic", fmt.Sprintf("Build crashed the process (%s): %s", c.Kind, r.Err), c)
		case 0:
			if len(r.Out) > 0 {
				// gap-free from local+1 to the remote's last proof, each linked to its predecessor
				fromH := int64(0)
				prevSID := 0
				prevBH := int64(-1)
				if c.Local != nil {
					fromH = c.Local.SH + 1
					prevSID = c.Local.SID
					prevBH = c.Local.BH
				}
				recOf := map[int]*prec{}
				for i := range c.Get {
					if c.Get[i].P != nil {
						recOf[c.Get[i].P.SID] = c.Get[i].P
					}
				}
				if c.LastP != nil {
					recOf[c.LastP.SID] = c.LastP
				}
				bad := ""
				for i, e := range r.Out {
					p := recOf[e[1]]
					switch {
					case e[1] < 0 || p == nil:
						bad = fmt.Sprintf("entry %d is nil/unknown", i)
					case int64(e[0]) != fromH+int64(i):
						bad = fmt.Sprintf("entry %d has suffrage height %d, want %d (returned heights %v)", i, e[0], fromH+int64(i), heights(r.Out))
					case !p.TreeOK:
						bad = fmt.Sprintf("entry %d carries a tree proof that does not prove its state", i)
					case p.BH == 0 && !(i == 0 && c.Local == nil):
						bad = fmt.Sprintf("entry %d is a genesis proof but not first", i)
					case p.BH != 0 && (p.SPrev != prevSID || p.BH <= prevBH):
						bad = fmt.Sprintf("entry %d is not linked to its predecessor", i)
					}
					if bad != "" {
						break
					}
					prevSID, prevBH = p.SID, p.BH
				}
				if bad == "" && (c.LastP == nil || r.Out[len(r.Out)-1][1] != c.LastP.SID) {
					bad = "the chain does not end with the remote's last proof"
				}
				if bad == "" && r.Walk != "" {
					bad = "walking the returned proofs with the real Prove: " + r.Walk
				}
				if bad != "" {
					res.Fail("ok-but-not-a-chain", fmt.Sprintf("Build(%s, limit=%d, size=%d, keys=%v) returned nil error but %s", c.Kind, c.Limit, len(c.Get), c.Keys, bad), c)
				}
			}
		case 1:
			if strings.Contains(c.Kind, "honest") {
				res.Fail("honest-remote-rejected", fmt.Sprintf("Build failed on an honest remote (limit=%d, size=%d): %s", c.Limit, len(c.Get), r.Err), c)
			}
		}
		// ---- model case
		local := "None"
		if c.Local != nil {
			local = vh.Some(precTerm(c.Local))
		}
		last := "LErrL"
		switch c.Last {
		case 1:
			last = "LNotUpdatedL"
		case 2:
			last = "(LProofL " + precTerm(c.LastP) + ")"
		}
		gs := make([]string, len(c.Get))
		for i, g := range c.Get {
			switch g.Kind {
			case 0:
				gs[i] = "GErrL"
			case 1:
				gs[i] = "GNotFoundL"
			default:
				gs[i] = "(GProofL " + precTerm(g.P) + ")"
			}
		}
		outs := make([]string, len(r.Out))
		for i, e := range r.Out {
			if e[1] < 0 {
				outs[i] = "None"
			} else {
				outs[i] = vh.Some(vh.Tuple(vh.Z(int64(e[0])), vh.N(uint64(e[1]))))
			}
		}
		cases.Add(vh.Tuple(local, last, vh.List(gs), vh.Nat(c.Limit), natList(c.Keys), vh.Bool(c.CandOK), vh.Nat(r.Code), vh.List(outs)),
			map[string]any{"input": c, "impl": r})
		if !strings.Contains(c.Kind, "honest") {
			res.Sample(map[string]any{"kind": c.Kind, "limit": c.Limit, "size": len(c.Get), "code": r.Code, "out": r.Out, "err": r.Err})
		}
	}

	for from < n && crashes < 200 {
		cmd := exec.Command(os.Args[0], "-c18child", "-c18from", fmt.Sprint(from), "-c18n", fmt.Sprint(n), "-seed", fmt.Sprint(o.Seed))
		stdout, _ := cmd.StdoutPipe()
		var stderr strings.Builder
		cmd.Stderr = &stderr
		if err := cmd.Start(); err != nil {
			panic(err)
		}
		sc := bufio.NewScanner(stdout)
		sc.Buffer(make([]byte, 1<<20), 1<<24)
		var cur *ccase
		ended := false
		for sc.Scan() {
			line := sc.Text()
			switch {
			case strings.HasPrefix(line, "START "):
				var c ccase
				if err := json.Unmarshal([]byte(line[6:]), &c); err != nil {
					panic(err)
				}
				cur = &c
			case strings.HasPrefix(line, "RESULT "):
				var r cres
				if err := json.Unmarshal([]byte(line[7:]), &r); err != nil {
					panic(err)
				}
				process(*cur, r)
				from = cur.Idx + 1
				cur = nil
			case line == "END":
				ended = true
			}
		}
		_ = cmd.Wait()
		if ended {
			break
		}
		if cur != nil { // the child died while running this case
			crashes++
			msg := stderr.String()
			if i := strings.Index(msg, "panic:"); i >= 0 {
				msg = msg[i:]
			}
			if len(msg) > 300 {
				msg = msg[:300]
			}
			process(*cur, cres{Idx: cur.Idx, Code: 2, Err: msg})
			from = cur.Idx + 1
		} else {
			crashes++
			msg := stderr.String()
			if i := strings.Index(msg, "panic:"); i >= 0 {
				msg = msg[i:]
			}
			if len(msg) > 300 {
				msg = msg[:300]
			}
			res.Fail("panic", "the process crashed between two cases (a job of an earlier Build still running): "+msg, nil)
		}
	}
	res.Distribution["child_crashes"] = crashes
	if handled < n {
		res.Fail("harness-incomplete", fmt.Sprintf("only %d of %d cases ran", handled, n), nil)
	}
	res.ModelCases = cases.Len()
	if err := cases.Write(o.Out); err != nil {
		panic(err)
	}
	res.Write(o.Out)
}

func heights(out [][2]int) []int {
	hs := make([]int, len(out))
	for i, e := range out {
		hs[i] = e[0]
	}
	return hs
}
