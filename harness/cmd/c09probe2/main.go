// probe 2: free-running switchers + togglers on the real States: looks for the recursive-RLock deadlock of
// SetAllowConsensus (RLock held, st.current() RLocks again while exitAndEnter waits for Lock) and for entering
// consensus while not allowed.
package main

import (
	"fmt"
	"runtime"
	"sync"
	"sync/atomic"
	"time"

	"github.com/spikeekips/mitum/base"
	isaacstates "github.com/spikeekips/mitum/isaac/states"
)

type ctl struct {
	mu      sync.Mutex
	bad     int
	entered int
}

func (c *ctl) OnState(s isaacstates.StateType)          {}
func (c *ctl) OnExit(s, next isaacstates.StateType) int { return 0 }
func (c *ctl) OnNew(s isaacstates.StateType) bool       { return true }
func (c *ctl) OnEnter(s, from isaacstates.StateType, allowed bool) (int, isaacstates.StateType, isaacstates.StateType) {
	c.mu.Lock()
	c.entered++
	if !allowed && (s == isaacstates.StateConsensus || s == isaacstates.StateJoining) && from != isaacstates.StateHandover {
		c.bad++
	}
	c.mu.Unlock()
	return 0, "", ""
}
func (c *ctl) OnWhenSetAllowConsensus(s isaacstates.StateType, allow bool) {}

func main() {
	all := []isaacstates.StateType{isaacstates.StateStopped, isaacstates.StateBooting, isaacstates.StateJoining, isaacstates.StateConsensus, isaacstates.StateSyncing, isaacstates.StateHandover, isaacstates.StateBroken}
	c := &ctl{}
	args := isaacstates.NewStatesArgs()
	args.AllowConsensus = true
	st, err := isaacstates.NewStates(base.RandomNetworkID(), base.RandomLocalNode(), args)
	if err != nil {
		panic(err)
	}
	for _, s := range all {
		st.SetHandler(s, isaacstates.VerifNewStubHandler(s, c))
	}
	_ = st.VerifInit()
	_ = st.VerifEnsureSwitchState(isaacstates.VerifSwitchContext(isaacstates.StateStopped, isaacstates.StateBooting, false))
	_ = st.VerifEnsureSwitchState(isaacstates.VerifSwitchContext(isaacstates.StateBooting, isaacstates.StateSyncing, false))
	var sw, tg atomic.Int64
	stop := make(chan struct{})
	go func() {
		for {
			select {
			case <-stop:
				return
			default:
			}
			_ = st.VerifSwitchState(isaacstates.VerifSwitchContext(isaacstates.StateSyncing, isaacstates.StateConsensus, false))
			_ = st.VerifSwitchState(isaacstates.VerifSwitchContext(isaacstates.StateConsensus, isaacstates.StateSyncing, false))
			sw.Add(1)
		}
	}()
	for i := 0; i < 2; i++ {
		go func(i int) {
			b := i == 0
			for {
				select {
				case <-stop:
					return
				default:
				}
				st.SetAllowConsensus(b)
				b = !b
				tg.Add(1)
				runtime.Gosched()
			}
		}(i)
	}
	var lastSw, lastTg int64
	stalled := 0
	for i := 0; i < 40; i++ {
		time.Sleep(100 * time.Millisecond)
		s, t := sw.Load(), tg.Load()
		if s == lastSw && t == lastTg {
			stalled++
		} else {
			stalled = 0
		}
		lastSw, lastTg = s, t
		if stalled >= 5 {
			fmt.Printf("DEADLOCK: no progress for 500ms after %d switch rounds, %d toggles\n", s, t)
			break
		}
	}
	c.mu.Lock()
	fmt.Printf("switch rounds=%d toggles=%d entered=%d entered-consensus-while-not-allowed=%d\n", sw.Load(), tg.Load(), c.entered, c.bad)
	c.mu.Unlock()
}
