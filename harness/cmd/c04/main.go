// c04: Ballotbox emits only sound voteproofs (isaac/states/ballotbox.go). See bb/.
package main

import "verifharness/cmd/c04/bb"

func main() { bb.Main("C04") }
